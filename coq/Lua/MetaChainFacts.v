(* M-Lua meta-theory for C04, wave 5: whole __index / __newindex CHAINS and the documented depth.
   MetaFacts.v states one step of the gettable / settable events; here the steps are composed:
   a chain of objects each of which passes the key on to the next is walked to its last object,
   which is then examined exactly as if it had been indexed directly (its raw slot, its own handler),
   as long as the chain has at most [depth] objects (the evaluator, like lvm.c MAXTAGLOOP and
   gopher-lua's MaxTableGetLoop, uses depth 100); a chain with more objects is an error.
   For all states, keys, fuel, frames; the links may be tables (key absent) or non-table values
   such as userdata (which hold no keys). *)
From Coq Require Import List Lia.
Import ListNotations.
From GL Require Import Common.Bytes Lua.Syntax Lua.Num Lua.Values Lua.Names Lua.Eval
  Lua.MonadFacts Lua.EvalStepFacts Lua.MetaFacts.

(* a handler value that continues the walk (neither absent nor called) *)
Definition is_link (h : value) : bool :=
  match h with VNil | VFun _ | VBuiltin _ => false | _ => true end.

(* [v] passes the key on to [h] for event [ev]: it does not hold the key itself (a table where the
   key is absent, or any non-table value) and its handler for [ev] is the link [h] *)
Definition passes_on (ev : bytes) (s : state) (k v h : value) : Prop :=
  match v with VTab r => is_nil (rawget_of s r k) = true | _ => True end /\
  metafield s v ev = h /\ is_link h = true.

(* v -> v1 -> v2 -> ... : the chain starting at [v] continues through the objects [vs] *)
Fixpoint chain (ev : bytes) (s : state) (k v : value) (vs : list value) : Prop :=
  match vs with
  | [] => True
  | h :: rest => passes_on ev s k v h /\ chain ev s k h rest
  end.

(* the number of objects of the chain v :: vs is S (length vs); its last object is [last vs v] *)
Lemma last_cons_lemma (A : Type) (rest : list A) : forall h v, last (h :: rest) v = last rest h.
Proof.
  induction rest as [|a rest IH]; intros h v. reflexivity.
  change (last (h :: a :: rest) v) with (last (a :: rest) v). rewrite (IH a v), (IH a h). reflexivity.
Qed.

Lemma index_step_lemma n fr k v h d s :
  passes_on s_mm_index s k v h ->
  index (S n) fr v k (S d) s = index n fr h k d s.
Proof.
  intros (Hraw & Hm & Hl). destruct v;
    try (rewrite index_nontable_lemma by reflexivity; rewrite Hm; destruct h; try discriminate; reflexivity).
  rewrite index_absent_lemma by exact Hraw. rewrite Hm. destruct h; try discriminate; reflexivity.
Qed.

Lemma index_chain_walk_lemma fr k s vs : forall v n d,
  chain s_mm_index s k v vs ->
  index (length vs + n) fr v k (length vs + d) s = index n fr (last vs v) k d s.
Proof.
  induction vs as [|h rest IH]; intros v n d Hc.
  - reflexivity.
  - destruct Hc as (Hp & Hc). cbn [length Nat.add].
    rewrite (index_step_lemma _ _ _ _ _ _ _ Hp). rewrite (IH h n d Hc).
    rewrite last_cons_lemma. reflexivity.
Qed.

(* at most [depth] objects: the last one is examined with a positive remaining depth *)
Lemma index_chain_within_depth_lemma fr k s vs v n depth :
  chain s_mm_index s k v vs -> (length vs < depth)%nat ->
  index (length vs + S n) fr v k depth s = index (S n) fr (last vs v) k (S (depth - length vs - 1)) s.
Proof.
  intros Hc Hl. replace depth with (length vs + S (depth - length vs - 1))%nat at 1 by lia.
  apply index_chain_walk_lemma. exact Hc.
Qed.

(* more than [depth] objects: an error, whatever the rest of the chain looks like *)
Lemma index_chain_beyond_depth_lemma fr k s vs v n depth :
  chain s_mm_index s k v vs -> length vs = depth ->
  index (length vs + S n) fr v k depth s = Err (VFault 1 (frames_line fr)) s.
Proof.
  intros Hc Hl. replace depth with (length vs + 0)%nat at 1 by lia.
  rewrite (index_chain_walk_lemma fr k s vs v (S n) 0 Hc). rewrite index_depth0. reflexivity.
Qed.

(* the three endings of a chain within the depth *)
Lemma index_chain_last_hit_lemma fr k s vs v n depth r :
  chain s_mm_index s k v vs -> (length vs < depth)%nat -> last vs v = VTab r ->
  is_nil (rawget_of s r k) = false ->
  index (length vs + S n) fr v k depth s = Ret (rawget_of s r k) s.
Proof.
  intros Hc Hl Hlast Hk. rewrite (index_chain_within_depth_lemma _ _ _ _ _ _ _ Hc Hl), Hlast.
  apply index_raw_first_lemma. exact Hk.
Qed.

Lemma index_chain_last_absent_lemma fr k s vs v n depth r :
  chain s_mm_index s k v vs -> (length vs < depth)%nat -> last vs v = VTab r ->
  is_nil (rawget_of s r k) = true -> metafield s (VTab r) s_mm_index = VNil ->
  index (length vs + S n) fr v k depth s = Ret VNil s.
Proof.
  intros Hc Hl Hlast Hk Hm. rewrite (index_chain_within_depth_lemma _ _ _ _ _ _ _ Hc Hl), Hlast.
  rewrite index_absent_lemma by exact Hk. rewrite Hm. reflexivity.
Qed.

Definition is_called (h : value) : bool := match h with VFun _ | VBuiltin _ => true | _ => false end.

Lemma index_chain_last_handler_lemma fr k s vs v n depth :
  chain s_mm_index s k v vs -> (length vs < depth)%nat ->
  match last vs v with VTab r => is_nil (rawget_of s r k) = true | _ => True end ->
  is_called (metafield s (last vs v) s_mm_index) = true ->
  index (length vs + S n) fr v k depth s =
  first_of (call n fr (metafield s (last vs v) s_mm_index) [last vs v; k] s).
Proof.
  intros Hc Hl Hk Hh. rewrite (index_chain_within_depth_lemma _ _ _ _ _ _ _ Hc Hl).
  destruct (last vs v) eqn:E;
    try (rewrite index_nontable_lemma by reflexivity;
         destruct (metafield s _ s_mm_index); try discriminate; reflexivity).
  rewrite index_absent_lemma by exact Hk.
  destruct (metafield s (VTab r) s_mm_index); try discriminate; reflexivity.
Qed.

(* ---------- __newindex ---------- *)
Lemma setindex_step_lemma n fr k x v h d s :
  passes_on s_mm_newindex s k v h ->
  setindex (S n) fr v k x (S d) s = setindex n fr h k x d s.
Proof.
  intros (Hraw & Hm & Hl). destruct v;
    try (rewrite setindex_nontab by reflexivity; unfold bindM, getmeta; cbn [bind];
         rewrite Hm; destruct h; try discriminate; reflexivity).
  rewrite newindex_absent_lemma by exact Hraw. rewrite Hm. destruct h; try discriminate; reflexivity.
Qed.

Lemma setindex_chain_walk_lemma fr k x s vs : forall v n d,
  chain s_mm_newindex s k v vs ->
  setindex (length vs + n) fr v k x (length vs + d) s = setindex n fr (last vs v) k x d s.
Proof.
  induction vs as [|h rest IH]; intros v n d Hc.
  - reflexivity.
  - destruct Hc as (Hp & Hc). cbn [length Nat.add].
    rewrite (setindex_step_lemma _ _ _ _ _ _ _ _ Hp). rewrite (IH h n d Hc).
    rewrite last_cons_lemma. reflexivity.
Qed.

Lemma setindex_chain_within_depth_lemma fr k x s vs v n depth :
  chain s_mm_newindex s k v vs -> (length vs < depth)%nat ->
  setindex (length vs + S n) fr v k x depth s =
  setindex (S n) fr (last vs v) k x (S (depth - length vs - 1)) s.
Proof.
  intros Hc Hl. replace depth with (length vs + S (depth - length vs - 1))%nat at 1 by lia.
  apply setindex_chain_walk_lemma. exact Hc.
Qed.

Lemma setindex_chain_beyond_depth_lemma fr k x s vs v n depth :
  chain s_mm_newindex s k v vs -> length vs = depth ->
  setindex (length vs + S n) fr v k x depth s = Err (VFault 1 (frames_line fr)) s.
Proof.
  intros Hc Hl. replace depth with (length vs + 0)%nat at 1 by lia.
  rewrite (setindex_chain_walk_lemma fr k x s vs v (S n) 0 Hc). rewrite setindex_depth0. reflexivity.
Qed.

(* a key held by the last table (e.g. an inner table of a longer chain) is raw-assigned there *)
Lemma setindex_chain_last_present_lemma fr k x s vs v n depth r :
  chain s_mm_newindex s k v vs -> (length vs < depth)%nat -> last vs v = VTab r ->
  is_nil (rawget_of s r k) = false -> valid_key k = true ->
  setindex (length vs + S n) fr v k x depth s = Ret tt (rawset_state s r k x).
Proof.
  intros Hc Hl Hlast Hk Hv. rewrite (setindex_chain_within_depth_lemma _ _ _ _ _ _ _ _ Hc Hl), Hlast.
  apply newindex_present_lemma; assumption.
Qed.

Lemma setindex_chain_last_plain_lemma fr k x s vs v n depth r :
  chain s_mm_newindex s k v vs -> (length vs < depth)%nat -> last vs v = VTab r ->
  is_nil (rawget_of s r k) = true -> metafield s (VTab r) s_mm_newindex = VNil -> valid_key k = true ->
  setindex (length vs + S n) fr v k x depth s = Ret tt (rawset_state s r k x).
Proof.
  intros Hc Hl Hlast Hk Hm Hv. rewrite (setindex_chain_within_depth_lemma _ _ _ _ _ _ _ _ Hc Hl), Hlast.
  rewrite newindex_absent_lemma by exact Hk. rewrite Hm, Hv. reflexivity.
Qed.

Lemma setindex_chain_last_handler_lemma fr k x s vs v n depth :
  chain s_mm_newindex s k v vs -> (length vs < depth)%nat ->
  match last vs v with VTab r => is_nil (rawget_of s r k) = true | _ => True end ->
  is_called (metafield s (last vs v) s_mm_newindex) = true ->
  setindex (length vs + S n) fr v k x depth s =
  unit_of (call n fr (metafield s (last vs v) s_mm_newindex) [last vs v; k; x] s).
Proof.
  intros Hc Hl Hk Hh. rewrite (setindex_chain_within_depth_lemma _ _ _ _ _ _ _ _ Hc Hl).
  destruct (last vs v) eqn:E;
    try (rewrite setindex_nontab by reflexivity; unfold bindM, getmeta; cbn [bind];
         destruct (metafield s _ s_mm_newindex); try discriminate; reflexivity).
  rewrite newindex_absent_lemma by exact Hk.
  destruct (metafield s (VTab r) s_mm_newindex); try discriminate; reflexivity.
Qed.
