(* M-Lua: coroutine driver, initial state, program runner and the canonical observable outcome. *)
From Coq Require Import Floats.
From GL Require Import Common.Bytes Lua.Syntax Lua.Num Lua.Values Lua.Names Lua.Eval.

Definition K := reply -> state -> res (list value).

Inductive fin := FinOk (vs : list value) (s : state) | FinErr (v : value) (s : state)
               | FinFuel | FinUnsup (c : Z).

Fixpoint kfind (l : list (nat * K)) (c : nat) : option K :=
  match l with [] => None | (d, k) :: r => if Nat.eqb c d then Some k else kfind r c end.

Definition set_status (s : state) (c : option nat) (st : costatus) : state :=
  match c with Some i => with_cos s (set_nth (cos s) i st) | None => s end.

(* stack entry: (who resumed, its continuation, was it through wrap) *)
Fixpoint drive (n : nat) (conts : list (nat * K)) (stack : list (option nat * K * bool))
               (r : res (list value)) {struct n} : fin :=
  match n with O => FinFuel | S n' =>
  match r with
  | OutOfFuel => FinFuel
  | Unsup c => FinUnsup c
  | Ret vs s =>
      match stack with
      | [] => FinOk vs s
      | (who, k, wrapped) :: rest =>
          let s1 := with_cur (set_status (set_status s (cur s) CoDead) who CoRun) who in
          drive n' conts rest (k (RVals (if wrapped then vs else VBool true :: vs)) s1)
      end
  | Err v s =>
      match stack with
      | [] => FinErr v s
      | (who, k, wrapped) :: rest =>
          let s1 := with_cur (set_status (set_status s (cur s) CoDead) who CoRun) who in
          drive n' conts rest (k (if wrapped then RErr v else RVals [VBool false; v]) s1)
      end
  | Eff (EResume co args wrapped) s k =>
      let me := cur s in
      let st := nth co (cos s) CoDead in
      let s1 := with_cur (set_status (set_status s me CoNorm) (Some co) CoRun) (Some co) in
      match st with
      | CoInit f => drive n' conts ((me, k, wrapped) :: stack) (call n' [(None, None)] f args s1)
      | CoSusp => match kfind conts co with
                  | Some kc => drive n' conts ((me, k, wrapped) :: stack) (kc (RVals args) s1)
                  | None => FinUnsup 30
                  end
      | _ => FinUnsup 31
      end
  | Eff (EYield vs) s k =>
      match stack, cur s with
      | (who, kr, wrapped) :: rest, Some c =>
          let s1 := with_cur (set_status (set_status s (Some c) CoSusp) who CoRun) who in
          drive n' ((c, k) :: conts) rest (kr (RVals (if wrapped then vs else VBool true :: vs)) s1)
      | _, _ => FinUnsup 32
      end
  end end.

(* ---------- initial state ---------- *)
Definition bi (nm : bytes) (b : builtin) : value * value := (VStr nm, VBuiltin b).

(* tables: 0 = _G, 1 = coroutine, 2 = table, 3 = string, 4 = math, 5 = string metatable *)
Definition g_coroutine := mkTab [bi s_create BCoCreate; bi s_resume BCoResume; bi s_yield BCoYield;
                                 bi s_status BCoStatus; bi s_wrap BCoWrap; bi s_running BCoRunning] None.
Definition g_table := mkTab [bi s_insert BTInsert; bi s_remove BTRemove; bi s_concat BTConcat] None.
Definition g_string := mkTab [bi s_len BStrLen; bi s_sub BStrSub; bi s_rep BStrRep; bi s_upper BStrUpper;
                              bi s_lower BStrLower; bi s_byte BStrByte] None.
Definition g_math := mkTab [bi s_floor BMathFloor; bi s_max BMathMax; bi s_min BMathMin; bi s_abs BMathAbs] None.
Definition g_strmt := mkTab [(VStr s_mm_index, VTab 3%nat)] None.
Definition g_globals := mkTab
  [bi s_emit BEmit; bi s_type BType; bi s_tostring BToString; bi s_tonumber BToNumber; bi s_select BSelect;
   bi s_unpack BUnpack; bi s_next BNext; bi s_pairs BPairs; bi s_ipairs BIpairs; bi s_rawget BRawGet;
   bi s_rawset BRawSet; bi s_rawequal BRawEqual; bi s_setmetatable BSetMt; bi s_getmetatable BGetMt;
   bi s_getfenv BGetFenv; bi s_setfenv BSetFenv; bi s_pcall BPcall; bi s_xpcall BXpcall; bi s_error BError;
   bi s_assert BAssert; bi s_newud BNewUd;
   (VStr s_coroutine, VTab 1%nat); (VStr s_table, VTab 2%nat); (VStr s_string, VTab 3%nat);
   (VStr s_math, VTab 4%nat); (VStr s__G, VTab 0%nat)] None.

Definition init_state (d : devs) (body : list stmt) : state :=
  mkState [] [g_globals; g_coroutine; g_table; g_string; g_math; g_strmt]
          [mkClo [] true body [] 0 0 true] [] [] [] None (Some 5%nat) d.

Definition no_devs := mkDevs false false false false 0.

Definition run_program (fuel : nat) (d : devs) (body : list stmt) : fin :=
  drive fuel [] [] (call fuel [] (VFun 0%nat) [] (init_state d body)).

(* ---------- canonical observables ---------- *)
Inductive oval := ONil | OBool (b : bool) | ONum (f : float) | OStr (s : bytes)
                | ORef (kind id : Z) | OFault (kind line : Z).

(* identity keys: (kind, key) ; kinds: 1 table, 2 function, 3 thread, 4 userdata *)
Definition ref_key (v : value) : option (Z * Z) :=
  match v with
  | VTab r => Some (1, Z.of_nat r)
  | VFun r => Some (2, 2 * Z.of_nat r)
  | VBuiltin b => Some (2, 2 * builtin_code b + 1)
  | VCo r => Some (3, Z.of_nat r)
  | VUd r => Some (4, Z.of_nat r)
  | _ => None
  end.

Fixpoint seen_find (seen : list (Z * Z)) (k : Z * Z) (i : Z) : option Z :=
  match seen with
  | [] => None
  | (a, b) :: r => if (a =? fst k) && (b =? snd k) then Some i else seen_find r k (i + 1)
  end.

(* numbering by first appearance, per kind *)
Definition canon1 (seen : list (Z * Z)) (v : value) : oval * list (Z * Z) :=
  match v with
  | VNil => (ONil, seen) | VBool b => (OBool b, seen) | VNum f => (ONum f, seen)
  | VStr s => (OStr s, seen) | VFault k l => (OFault k l, seen)
  | _ => match ref_key v with
         | Some key =>
             let same := filter (fun p => fst p =? fst key) seen in
             match seen_find same key 0 with
             | Some i => (ORef (fst key) i, seen)
             | None => (ORef (fst key) (len same), seen ++ [key])
             end
         | None => (ONil, seen)
         end
  end.

Fixpoint canon_list (seen : list (Z * Z)) (vs : list value) : list oval * list (Z * Z) :=
  match vs with
  | [] => ([], seen)
  | v :: r => let '(o, s1) := canon1 seen v in let '(os, s2) := canon_list s1 r in (o :: os, s2)
  end.

Fixpoint canon_trace (seen : list (Z * Z)) (t : list (list value)) : list (list oval) * list (Z * Z) :=
  match t with
  | [] => ([], seen)
  | vs :: r => let '(os, s1) := canon_list seen vs in let '(ot, s2) := canon_trace s1 r in (os :: ot, s2)
  end.

Inductive ofin := OOk (vs : list oval) | OErr (v : oval).
Inductive outcome := Outcome (tr : list (list oval)) (f : ofin) | OutFuel | OutUnsup (c : Z).

Definition outcome_of (f : fin) : outcome :=
  match f with
  | FinOk vs s => let '(tr, seen) := canon_trace [] (trace s) in
                  let '(ovs, _) := canon_list seen vs in Outcome tr (OOk ovs)
  | FinErr v s => let '(tr, seen) := canon_trace [] (trace s) in
                  let '(ov, _) := canon1 seen v in Outcome tr (OErr ov)
  | FinFuel => OutFuel
  | FinUnsup c => OutUnsup c
  end.

Definition oval_eqb (a b : oval) : bool :=
  match a, b with
  | ONil, ONil => true
  | OBool x, OBool y => Bool.eqb x y
  | ONum x, ONum y => f_same x y
  | OStr x, OStr y => beqb x y
  | ORef k i, ORef k' i' => (k =? k') && (i =? i')
  | OFault k l, OFault k' l' => (k =? k') && ((l =? l') || (l =? 0) || (l' =? 0))
  | _, _ => false
  end.

Definition ofin_eqb (a b : ofin) : bool :=
  match a, b with
  | OOk x, OOk y => list_eqb oval_eqb x y
  | OErr x, OErr y => oval_eqb x y
  | _, _ => false
  end.

Definition outcome_eqb (a b : outcome) : bool :=
  match a, b with
  | Outcome t f, Outcome t' f' => list_eqb (list_eqb oval_eqb) t t' && ofin_eqb f f'
  | _, _ => false
  end.
