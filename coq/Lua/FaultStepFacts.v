(* M-Lua meta-theory for C05 (two-run law), part 2: every evaluator entry point, run from two
   states that differ only in the fault switch, yields [agree]-related results.
   Induction on fuel over the 20 mutually recursive functions. *)
From Coq Require Import Floats Lia.
From GL Require Import Common.Bytes Lua.Syntax Lua.Num Lua.Values Lua.Names Lua.Eval Lua.Run Str.StrModel
  Lua.ValuesFacts Lua.MonadFacts Lua.EvalStepFacts Lua.EvalInvFacts Lua.DriveFacts Lua.DriveRunFacts
  Lua.FaultFacts.

(* ---------- named copies of the evaluator's inner list fixpoints ---------- *)
Section TabFill.
Variables (n : nat) (cx : ctx) (ln : Z) (en : env) (r : nat).
Fixpoint tab_fill (its : list titem) (i : Z) {struct its} : M unit :=
  match its with
  | [] => ret tt
  | [TPos a] => do vs <- eval_multi n cx ln en a;
                do t <- read_tab r; write_tab r (mkTab (set_seq (t_kv t) i vs) (t_meta t))
  | TPos a :: rest => do v <- eval_e n cx ln en a;
                do t <- read_tab r; write_tab r (mkTab (kv_set (t_kv t) (vint i) v) (t_meta t)) ;; tab_fill rest (i + 1)
  | TNamed k a :: rest => do v <- eval_e n cx ln en a;
                do t <- read_tab r; write_tab r (mkTab (kv_set (t_kv t) (VStr k) v) (t_meta t)) ;; tab_fill rest i
  | TKey k a :: rest => do kv <- eval_e n cx ln en k; do v <- eval_e n cx ln en a;
                match kv with
                | VNil => fault 6 ln
                | VNum f => if PrimFloat.eqb f f then
                       do t <- read_tab r; write_tab r (mkTab (kv_set (t_kv t) kv v) (t_meta t)) ;; tab_fill rest i
                     else fault 6 ln
                | _ => do t <- read_tab r; write_tab r (mkTab (kv_set (t_kv t) kv v) (t_meta t)) ;; tab_fill rest i
                end
  end.
End TabFill.

Lemma eval_e_table n cx ln en items :
  eval_e (S n) cx ln en (ETable items) =
  (do r <- alloc_tab empty_tab; tab_fill n cx ln en r items 1 ;; ret (VTab r)).
Proof. reflexivity. Qed.

Section NumFold.
Variable op : float -> float -> float.
Fixpoint num_fold (l : list value) (acc : float) {struct l} : M float :=
  match l with [] => ret acc | VNum g :: r => num_fold r (op acc g) | _ => unsup 19 end.
End NumFold.

Lemma bi_mathmax n fr args :
  builtin_call (S n) fr BMathMax args =
  match nth 0 args VNil with
  | VNum f => do r <- num_fold f_max (tl args) f; ret [VNum r]
  | _ => unsup 19 end.
Proof. reflexivity. Qed.

Lemma bi_mathmin n fr args :
  builtin_call (S n) fr BMathMin args =
  match nth 0 args VNil with
  | VNum f => do r <- num_fold f_min (tl args) f; ret [VNum r]
  | _ => unsup 19 end.
Proof. reflexivity. Qed.

Lemma bindM_dv {B} (f : devs -> M B) s : bindM (fun s0 => Ret (dv s0) s0) f s = f (dv s) s.
Proof. reflexivity. Qed.

(* unary facts for the named fixpoints *)
Lemma ig_tab_fill n cx ln en r its : forall i s, invg s (tab_fill n cx ln en r its i s).
Proof.
  induction its as [|it its IH]; intros i s; [apply ig_ret_refl|].
  destruct it; cbn [tab_fill]; prims; ig_tac.
Qed.

Lemma ig_num_fold op l : forall acc s, invg s (num_fold op l acc s).
Proof. induction l as [|x l IH]; intros acc s; cbn [num_fold]; prims; ig_tac. Qed.

Lemma ig_block_go n cx all rest : forall pos en hist s, invg s (block_go n cx all rest pos en hist s).
Proof. induction rest as [|st rest IH]; intros pos en hist s; cbn [block_go]; prims; ig_tac. Qed.

#[export] Hint Resolve ig_tab_fill ig_num_fold ig_block_go : igdb.

Section FaultStep.
Variable k : Z.
Hypothesis kpos : 0 < k.

Notation ag := (agree k).
Notation fl := (fl k).

(* ---------- the host function emit: the only place where the two runs can part ---------- *)
Lemma ok_ltb s : ok s -> (0 <? dv_emit_fault (dv s)) = false.
Proof. unfold ok. intros ->. reflexivity. Qed.

Lemma agree_emit n fr args s : ok s -> ag (builtin_call (S n) fr BEmit args s) (builtin_call (S n) fr BEmit args (fl s)).
Proof.
  intros Hok. cbn [builtin_call]. cbv beta zeta.
  rewrite (ok_ltb s Hok). cbn [andb].
  cbn [FaultFacts.fl with_dv with_fault dv dv_emit_fault dv_fault_string trace].
  assert (Hk : (0 <? k) = true) by (apply Z.ltb_lt; exact kpos). rewrite Hk. cbn [andb].
  destruct (len (trace s) + 1 =? k) eqn:E.
  - apply Z.eqb_eq in E. unfold len in E.
    assert (HK : length (trace s) = KK k) by (unfold KK; lia).
    assert (Hf : forall x, firstn (KK k) (trace s ++ [x]) = trace s).
    { intros x. rewrite firstn_app, HK, Nat.sub_diag, <- HK, firstn_all. simpl. apply app_nil_r. }
    destruct (dv_fault_string (dv s)).
    + eapply (ag_div k _ _ (with_trace s (trace s ++ [args])) (with_trace (fl s) (trace s ++ [[VFault 99 0]])));
        try (unfold pk; cbn [trace with_trace]; rewrite app_length; simpl; lia).
      * cbn [trace with_trace]. rewrite !Hf. reflexivity.
      * apply ig_ret_refl.
      * apply ig_err_refl.
    + eapply (ag_div k _ _ (with_trace s (trace s ++ [args])) (with_trace (fl s) (trace s ++ [[VFault 99 0]])));
        try (unfold pk; cbn [trace with_trace]; rewrite app_length; simpl; lia).
      * cbn [trace with_trace]. rewrite !Hf. reflexivity.
      * apply ig_ret_refl.
      * apply ig_err_refl.
  - apply (ag_ret k [] (with_trace s (trace s ++ [args]))). exact Hok.
Qed.

Definition all_agree (n : nat) : Prop :=
  (forall cx ln en e s, ok s -> ag (eval_e n cx ln en e s) (eval_e n cx ln en e (fl s))) /\
  (forall cx ln en e s, ok s -> ag (eval_multi n cx ln en e s) (eval_multi n cx ln en e (fl s))) /\
  (forall fr v x d s, ok s -> ag (index n fr v x d s) (index n fr v x d (fl s))) /\
  (forall fr v x y d s, ok s -> ag (setindex n fr v x y d s) (setindex n fr v x y d (fl s))) /\
  (forall fr o a b s, ok s -> ag (binop_v n fr o a b s) (binop_v n fr o a b (fl s))) /\
  (forall fr a b s, ok s -> ag (eq_v n fr a b s) (eq_v n fr a b (fl s))) /\
  (forall fr ev a b s, ok s -> ag (order_tm n fr ev a b s) (order_tm n fr ev a b (fl s))) /\
  (forall fr a b s, ok s -> ag (lt_v n fr a b s) (lt_v n fr a b (fl s))) /\
  (forall fr a b s, ok s -> ag (le_v n fr a b s) (le_v n fr a b (fl s))) /\
  (forall fr o a s, ok s -> ag (unop_v n fr o a s) (unop_v n fr o a (fl s))) /\
  (forall fr f args s, ok s -> ag (call n fr f args s) (call n fr f args (fl s))) /\
  (forall cx en all hist start s, ok s -> ag (block n cx en all hist start s) (block n cx en all hist start (fl s))) /\
  (forall cx en st s, ok s -> ag (exec n cx en st s) (exec n cx en st (fl s))) /\
  (forall cx en ln c body s, ok s -> ag (while_loop n cx en ln c body s) (while_loop n cx en ln c body (fl s))) /\
  (forall cx en body ln c s, ok s -> ag (repeat_loop n cx en body ln c s) (repeat_loop n cx en body ln c (fl s))) /\
  (forall cx en x i lim step body s, ok s ->
     ag (numfor_loop n cx en x i lim step body s) (numfor_loop n cx en x i lim step body (fl s))) /\
  (forall cx en ln xs f st ctl body s, ok s ->
     ag (genfor_loop n cx en ln xs f st ctl body s) (genfor_loop n cx en ln xs f st ctl body (fl s))) /\
  (forall fr v s, ok s -> ag (tostring_v n fr v s) (tostring_v n fr v (fl s))) /\
  (forall fr b args s, ok s -> ag (builtin_call n fr b args s) (builtin_call n fr b args (fl s))).

Lemma all_agree_0 : all_agree 0.
Proof. repeat split; intros; apply ag_fuel. Qed.

(* normalise projections of the flipped state *)
Ltac flnorm := cbv beta zeta;
  cbn [FaultFacts.fl with_dv with_fault cells tabs clos cos uds trace cur strmt dv
       dv_handler_err dv_localfunc dv_wrap_noprefix dv_fault_string dv_emit_fault].

Ltac ag_leaf :=
  first [ apply ag_ret; assumption | apply ag_err; assumption | apply ag_fuel | apply ag_unsup
        | solve [auto] ].

Ltac ag_tac :=
  repeat (flnorm;
    lazymatch goal with
    | |- inv _ _ _ _ => ig_tac
    | |- agree _ (bindM (fun s0 => Ret (dv s0) s0) _ _) _ => rewrite !bindM_dv
    | |- agree _ (bindM _ _ _) (bindM _ _ _) => apply agree_bindM; [|intros ? ? ?|intros ? ?]
    | |- agree _ (bind _ _) (bind _ _) => apply agree_bind; [|intros ? ? ?|intros ? ?]
    | |- agree _ (catch _ _) (catch _ _) => apply agree_catch; [|intros ? ? ?|intros ? ?]
    | |- agree _ (mapM _ _ _) (mapM _ _ _) => apply agree_mapM; [intros ? ? ?|intros ? ?|assumption]
    | |- agree _ (eval_list_with _ _ _ _) (eval_list_with _ _ _ _) =>
        apply agree_eval_list_with; [intros ? ? ?|intros ? ?|intros ? ? ?|intros ? ?|assumption]
    | |- agree _ (Eff _ _ _) (Eff _ _ _) => apply ag_eff; [assumption|intros ? ? ?|intros ? ?|intros ? ?]
    | |- agree _ (match ?x with _ => _ end) _ => destruct x eqn:?
    | |- agree _ (match ?x with _ => _ end _) _ => destruct x eqn:?
    | |- agree _ (if ?x then _ else _) _ => destruct x eqn:?
    | |- agree _ ((if ?x then _ else _) _) _ => destruct x eqn:?
    | |- agree _ _ _ => ag_leaf
    end).

Section Step.
Variable n : nat.
Hypothesis IH : all_agree n.

Let IH_e := proj1 IH.
Let IH_m := proj1 (proj2 IH).
Let IH_index := proj1 (proj2 (proj2 IH)).
Let IH_setindex := proj1 (proj2 (proj2 (proj2 IH))).
Let IH_binop := proj1 (proj2 (proj2 (proj2 (proj2 IH)))).
Let IH_eq := proj1 (proj2 (proj2 (proj2 (proj2 (proj2 IH))))).
Let IH_order := proj1 (proj2 (proj2 (proj2 (proj2 (proj2 (proj2 IH)))))).
Let IH_lt := proj1 (proj2 (proj2 (proj2 (proj2 (proj2 (proj2 (proj2 IH))))))).
Let IH_le := proj1 (proj2 (proj2 (proj2 (proj2 (proj2 (proj2 (proj2 (proj2 IH)))))))).
Let IH_unop := proj1 (proj2 (proj2 (proj2 (proj2 (proj2 (proj2 (proj2 (proj2 (proj2 IH))))))))).
Let IH_call := proj1 (proj2 (proj2 (proj2 (proj2 (proj2 (proj2 (proj2 (proj2 (proj2 (proj2 IH)))))))))).
Let IH_block := proj1 (proj2 (proj2 (proj2 (proj2 (proj2 (proj2 (proj2 (proj2 (proj2 (proj2 (proj2 IH))))))))))).
Let IH_exec := proj1 (proj2 (proj2 (proj2 (proj2 (proj2 (proj2 (proj2 (proj2 (proj2 (proj2 (proj2 (proj2 IH)))))))))))).
Let IH_while := proj1 (proj2 (proj2 (proj2 (proj2 (proj2 (proj2 (proj2 (proj2 (proj2 (proj2 (proj2 (proj2 (proj2 IH))))))))))))).
Let IH_repeat := proj1 (proj2 (proj2 (proj2 (proj2 (proj2 (proj2 (proj2 (proj2 (proj2 (proj2 (proj2 (proj2 (proj2 (proj2 IH)))))))))))))).
Let IH_numfor := proj1 (proj2 (proj2 (proj2 (proj2 (proj2 (proj2 (proj2 (proj2 (proj2 (proj2 (proj2 (proj2 (proj2 (proj2 (proj2 IH))))))))))))))).
Let IH_genfor := proj1 (proj2 (proj2 (proj2 (proj2 (proj2 (proj2 (proj2 (proj2 (proj2 (proj2 (proj2 (proj2 (proj2 (proj2 (proj2 (proj2 IH)))))))))))))))).
Let IH_tostring := proj1 (proj2 (proj2 (proj2 (proj2 (proj2 (proj2 (proj2 (proj2 (proj2 (proj2 (proj2 (proj2 (proj2 (proj2 (proj2 (proj2 (proj2 IH))))))))))))))))).
Let IH_builtin := proj2 (proj2 (proj2 (proj2 (proj2 (proj2 (proj2 (proj2 (proj2 (proj2 (proj2 (proj2 (proj2 (proj2 (proj2 (proj2 (proj2 (proj2 IH))))))))))))))))).

Hint Resolve IH_e IH_m IH_index IH_setindex IH_binop IH_eq IH_order IH_lt IH_le IH_unop IH_call IH_block
  IH_exec IH_while IH_repeat IH_numfor IH_genfor IH_tostring IH_builtin : core.

Lemma astep_index fr v x d s : ok s -> ag (index (S n) fr v x d s) (index (S n) fr v x d (fl s)).
Proof. intros Hok. destruct d; destruct v; cbn [index]; prims; ag_tac. Qed.

Lemma astep_setindex fr v x y d s : ok s -> ag (setindex (S n) fr v x y d s) (setindex (S n) fr v x y d (fl s)).
Proof. intros Hok. destruct d; destruct v; cbn [setindex]; prims; ag_tac. Qed.

Lemma agree_tab_fill cx ln en r its : forall i s, ok s ->
  ag (tab_fill n cx ln en r its i s) (tab_fill n cx ln en r its i (fl s)).
Proof.
  induction its as [|it its IHits]; intros i s Hok; [apply ag_ret; assumption|].
  destruct it; cbn [tab_fill]; prims; ag_tac.
Qed.
Hint Resolve agree_tab_fill : core.

Lemma astep_eval_e cx ln en e s : ok s -> ag (eval_e (S n) cx ln en e s) (eval_e (S n) cx ln en e (fl s)).
Proof.
  intros Hok. destruct e; try rewrite eval_e_table; cbn [eval_e]; prims; ag_tac.
Qed.

Lemma astep_eval_multi cx ln en e s : ok s -> ag (eval_multi (S n) cx ln en e s) (eval_multi (S n) cx ln en e (fl s)).
Proof. intros Hok. destruct e; cbn [eval_multi]; prims; ag_tac. Qed.

Lemma astep_binop fr o a b s : ok s -> ag (binop_v (S n) fr o a b s) (binop_v (S n) fr o a b (fl s)).
Proof. intros Hok. destruct o; cbn [binop_v]; prims; ag_tac. Qed.

Lemma astep_eq fr a b s : ok s -> ag (eq_v (S n) fr a b s) (eq_v (S n) fr a b (fl s)).
Proof. intros Hok. cbn [eq_v]; prims; ag_tac. Qed.

Lemma astep_order fr ev a b s : ok s -> ag (order_tm (S n) fr ev a b s) (order_tm (S n) fr ev a b (fl s)).
Proof. intros Hok. cbn [order_tm]; prims; ag_tac. Qed.

Lemma astep_lt fr a b s : ok s -> ag (lt_v (S n) fr a b s) (lt_v (S n) fr a b (fl s)).
Proof. intros Hok. cbn [lt_v]; prims; ag_tac. Qed.

Lemma astep_le fr a b s : ok s -> ag (le_v (S n) fr a b s) (le_v (S n) fr a b (fl s)).
Proof. intros Hok. cbn [le_v]; prims; ag_tac. Qed.

Lemma astep_unop fr o a s : ok s -> ag (unop_v (S n) fr o a s) (unop_v (S n) fr o a (fl s)).
Proof. intros Hok. destruct o; cbn [unop_v]; prims; ag_tac. Qed.

Lemma astep_call fr f args s : ok s -> ag (call (S n) fr f args s) (call (S n) fr f args (fl s)).
Proof. intros Hok. destruct f; cbn [call]; prims; ag_tac. Qed.

Lemma astep_block_go cx all rest : forall pos en hist s, ok s ->
  ag (block_go n cx all rest pos en hist s) (block_go n cx all rest pos en hist (fl s)).
Proof.
  induction rest as [|st rest IHrest]; intros pos en hist s Hok; cbn [block_go]; prims; ag_tac.
Qed.

Lemma astep_block cx en all hist start s : ok s ->
  ag (block (S n) cx en all hist start s) (block (S n) cx en all hist start (fl s)).
Proof. intros Hok. rewrite !block_step. apply astep_block_go. exact Hok. Qed.

Lemma astep_exec cx en st s : ok s -> ag (exec (S n) cx en st s) (exec (S n) cx en st (fl s)).
Proof. intros Hok. destruct st; cbn [exec]; prims; ag_tac. Qed.

Lemma astep_while cx en ln c body s : ok s ->
  ag (while_loop (S n) cx en ln c body s) (while_loop (S n) cx en ln c body (fl s)).
Proof. intros Hok. cbn [while_loop]; prims; ag_tac. Qed.

Lemma astep_repeat cx en body ln c s : ok s ->
  ag (repeat_loop (S n) cx en body ln c s) (repeat_loop (S n) cx en body ln c (fl s)).
Proof. intros Hok. cbn [repeat_loop]; prims; ag_tac. Qed.

Lemma astep_numfor cx en x i lim step body s : ok s ->
  ag (numfor_loop (S n) cx en x i lim step body s) (numfor_loop (S n) cx en x i lim step body (fl s)).
Proof. intros Hok. cbn [numfor_loop]; prims; ag_tac. Qed.

Lemma astep_genfor cx en ln xs f st ctl body s : ok s ->
  ag (genfor_loop (S n) cx en ln xs f st ctl body s) (genfor_loop (S n) cx en ln xs f st ctl body (fl s)).
Proof. intros Hok. cbn [genfor_loop]; prims; ag_tac. Qed.

Lemma astep_tostring fr v s : ok s -> ag (tostring_v (S n) fr v s) (tostring_v (S n) fr v (fl s)).
Proof. intros Hok. cbn [tostring_v]; prims; ag_tac. Qed.

Lemma agree_num_fold op l : forall acc s, ok s -> ag (num_fold op l acc s) (num_fold op l acc (fl s)).
Proof. induction l as [|x l IHl]; intros acc s Hok; cbn [num_fold]; prims; ag_tac. Qed.
Hint Resolve agree_num_fold : core.

Lemma astep_builtin fr b args s : ok s -> ag (builtin_call (S n) fr b args s) (builtin_call (S n) fr b args (fl s)).
Proof.
  intros Hok. destruct b; try (apply agree_emit; assumption);
    try rewrite !bi_mathmax; try rewrite !bi_mathmin; cbn [builtin_call]; prims; ag_tac.
Qed.

Lemma all_agree_step : all_agree (S n).
Proof.
  unfold all_agree. repeat split; intros.
  - apply astep_eval_e; assumption. - apply astep_eval_multi; assumption. - apply astep_index; assumption.
  - apply astep_setindex; assumption. - apply astep_binop; assumption. - apply astep_eq; assumption.
  - apply astep_order; assumption. - apply astep_lt; assumption. - apply astep_le; assumption.
  - apply astep_unop; assumption. - apply astep_call; assumption. - apply astep_block; assumption.
  - apply astep_exec; assumption. - apply astep_while; assumption. - apply astep_repeat; assumption.
  - apply astep_numfor; assumption. - apply astep_genfor; assumption. - apply astep_tostring; assumption.
  - apply astep_builtin; assumption.
Qed.

End Step.

Theorem all_agree_all : forall n, all_agree n.
Proof. induction n as [|n IH]; [apply all_agree_0|apply all_agree_step; exact IH]. Qed.

End FaultStep.
