(* C02 — property theorems only. Calls in the reference evaluator pass and return exactly the
   values Lua 5.1 prescribes: for all closures, argument lists, states and fuel. *)
From GL Require Import Common.Bytes Lua.Syntax Lua.Num Lua.Values Lua.Names Lua.Eval
  Lua.ValuesFacts Lua.MonadFacts Lua.EvalStepFacts Lua.CallFacts.

Theorem adjust_spec : forall n vs, length (adjust n vs) = n /\ forall i, (i < n)%nat -> nth i (adjust n vs) VNil = nth i vs VNil.
Proof. exact adjust_spec_full_lemma. Qed.
Print Assumptions adjust_spec.

Theorem adjust_length : forall n vs, length (adjust n vs) = n.
Proof. exact adjust_length_lemma. Qed.
Print Assumptions adjust_length.

Theorem adjust_app_nil_pad : forall n vs, adjust n vs = firstn n vs ++ repeat VNil (n - length vs).
Proof. exact adjust_app_nil_pad_lemma. Qed.
Print Assumptions adjust_app_nil_pad.

Theorem adjust_exact : forall vs, adjust (length vs) vs = vs.
Proof. exact adjust_exact_lemma. Qed.
Print Assumptions adjust_exact.

(* a Lua call: the body runs in exactly this state, environment and `...` *)
Theorem call_setup : forall n fr r args s,
  let c := nth r (clos s) dummy_clo in
  call (S n) fr (VFun r) args s =
  bind (block n (mkCtx (callee_varargs c args) fr r) (callee_env s c) (c_body c) [] 0 (callee_state s c args))
       ret_of_signal.
Proof. exact call_fun_setup_lemma. Qed.
Print Assumptions call_setup.

Theorem bind_params_spec : forall s c args,
  let np := length (c_params c) in
  let s1 := callee_state s c args in
  (forall i, (i < np)%nat ->
     nth i (seq (length (cells s)) np) O = (length (cells s) + i)%nat /\
     nth (length (cells s) + i) (cells s1) VNil = nth i args VNil) /\
  (forall j, (j < length (cells s))%nat -> nth j (cells s1) VNil = nth j (cells s) VNil) /\
  callee_varargs c args = (if c_vararg c then skipn np args else []) /\
  (has_arg_table c = true ->
     nth (length (tabs s)) (tabs s1) empty_tab = arg_table (callee_varargs c args) /\
     kv_get (t_kv (arg_table (callee_varargs c args))) (VStr s_n) = vint (len (callee_varargs c args)) /\
     nth (length (cells s) + np) (cells s1) VNil = VTab (length (tabs s))) /\
  clos s1 = clos s /\ cos s1 = cos s /\ cur s1 = cur s /\ trace s1 = trace s.
Proof. exact bind_params_spec_lemma. Qed.
Print Assumptions bind_params_spec.

(* expression lists *)
Theorem eval_list_with_spec : forall one multi init last s vs s1 l s2,
  evals_seq one init s vs s1 -> multi last s1 = Ret l s2 ->
  eval_list_with one multi (init ++ [last]) s = Ret (vs ++ l) s2.
Proof. exact eval_list_with_spec_lemma. Qed.
Print Assumptions eval_list_with_spec.

Theorem eval_list_with_general : forall one multi init last s,
  req (eval_list_with one multi (init ++ [last]) s)
      (bind (mapM one init s) (fun vs s1 => bind (multi last s1) (fun l s2 => Ret (vs ++ l) s2))).
Proof. exact eval_list_with_mapM_lemma. Qed.
Print Assumptions eval_list_with_general.

Theorem eval_list_with_stops_at_error : forall one multi init e rest s vs s1 v s2,
  evals_seq one init s vs s1 -> rest <> [] -> one e s1 = Err v s2 ->
  eval_list_with one multi (init ++ e :: rest) s = Err v s2.
Proof. exact eval_list_with_err_lemma. Qed.
Print Assumptions eval_list_with_stops_at_error.

Theorem eparen_truncates : forall n cx ln en e s,
  eval_multi (S (S n)) cx ln en (EParen e) s = bind (eval_e n cx ln en e s) (fun v s1 => Ret [v] s1).
Proof. exact eparen_truncates_lemma. Qed.
Print Assumptions eparen_truncates.

Theorem call_single_value : forall n cx ln en f args s,
  eval_e (S n) cx ln en (ECall f args) s = bind (eval_multi n cx ln en (ECall f args) s) (fun vs s1 => Ret (first vs) s1).
Proof. exact call_single_value_lemma. Qed.
Print Assumptions call_single_value.

Theorem varargs_last_all : forall n cx ln en s, eval_multi (S n) cx ln en EVarargs s = Ret (cx_va cx) s.
Proof. exact varargs_multi_lemma. Qed.
Print Assumptions varargs_last_all.

Theorem varargs_middle_first : forall n cx ln en s, eval_e (S n) cx ln en EVarargs s = Ret (first (cx_va cx)) s.
Proof. exact varargs_single_lemma. Qed.
Print Assumptions varargs_middle_first.

Theorem method_call_self : forall n cx ln en o m args s,
  eval_multi (S n) cx ln en (EMeth o m args) s =
  bind (eval_e n cx ln en o s) (fun ov =>
    do fv <- index n (here cx ln) ov (VStr m) 100;
    do avs <- eval_list_with (eval_e n cx ln en) (eval_multi n cx ln en) args;
    call n (here cx ln) fv (ov :: avs)).
Proof. exact meth_call_lemma. Qed.
Print Assumptions method_call_self.

(* select and unpack *)
Theorem select_spec : forall n fr f z rest s i,
  f_to_Z f = Some z -> 0 < z ->
  exists vs, builtin_call (S n) fr BSelect (VNum f :: rest) s = Ret vs s /\
             nth i vs VNil = nth (Z.to_nat (z - 1) + i) rest VNil /\
             length vs = (length rest - Z.to_nat (z - 1))%nat.
Proof. exact select_nth_lemma. Qed.
Print Assumptions select_spec.

Theorem select_negative : forall n fr f z rest s,
  f_to_Z f = Some z -> z < 0 -> 0 <= len rest + z ->
  builtin_call (S n) fr BSelect (VNum f :: rest) s = Ret (skipn (Z.to_nat (len rest + z)) rest) s.
Proof. exact select_neg_lemma. Qed.
Print Assumptions select_negative.

Theorem select_count : forall n fr rest s,
  builtin_call (S n) fr BSelect (VStr s_hash :: rest) s = Ret [vint (len rest)] s.
Proof. exact select_hash_lemma. Qed.
Print Assumptions select_count.

Theorem unpack_spec : forall n fr r fi fj i j rest s,
  f_to_Z fi = Some i -> f_to_Z fj = Some j -> j - i <= 100000 ->
  let kv := t_kv (nth r (tabs s) empty_tab) in
  builtin_call (S n) fr BUnpack (VTab r :: VNum fi :: VNum fj :: rest) s =
    Ret (seq_get kv i (Z.to_nat (j - i + 1))) s /\
  length (seq_get kv i (Z.to_nat (j - i + 1))) = Z.to_nat (j - i + 1) /\
  (forall k, (k < Z.to_nat (j - i + 1))%nat ->
     nth k (seq_get kv i (Z.to_nat (j - i + 1))) VNil = kv_get kv (vint (i + Z.of_nat k))).
Proof. exact unpack_spec_lemma. Qed.
Print Assumptions unpack_spec.

Theorem unpack_default : forall n fr r s,
  let kv := t_kv (nth r (tabs s) empty_tab) in
  border_unique kv = true -> border kv - 1 <= 100000 ->
  builtin_call (S n) fr BUnpack [VTab r] s = Ret (seq_get kv 1 (Z.to_nat (border kv))) s.
Proof. exact unpack_default_lemma. Qed.
Print Assumptions unpack_default.

(* the compatibility table `arg` is a NEW table for every call (wave 5): call set-up allocates it
   behind every table of the caller's store and leaves those as they are; since the store only grows
   while code runs, the table of an earlier call is never handed to a later one, whatever ran (or
   failed) in between, and setting the later call up does not touch the earlier table *)
From GL Require Lua.DriveRunFacts Lua.CallFreshFacts.

Theorem arg_table_fresh : forall s c args,
  let s1 := callee_state s c args in
  (has_arg_table c = true -> length (tabs s1) = S (length (tabs s))) /\
  (has_arg_table c = false -> tabs s1 = tabs s) /\
  (forall j, (j < length (tabs s))%nat -> nth j (tabs s1) empty_tab = nth j (tabs s) empty_tab).
Proof. exact CallFreshFacts.arg_table_fresh_lemma. Qed.
Print Assumptions arg_table_fresh.

Theorem arg_tables_distinct : forall s c args s2 c2 args2,
  has_arg_table c = true -> has_arg_table c2 = true ->
  DriveRunFacts.store_grows (callee_state s c args) s2 ->
  let r1 := length (tabs s) in
  let r2 := length (tabs s2) in
  let s3 := callee_state s2 c2 args2 in
  (r1 < r2)%nat /\
  nth (length (cells s2) + length (c_params c2)) (cells s3) VNil = VTab r2 /\
  nth r2 (tabs s3) empty_tab = arg_table (callee_varargs c2 args2) /\
  nth r1 (tabs s3) empty_tab = nth r1 (tabs s2) empty_tab.
Proof. exact CallFreshFacts.arg_tables_distinct_lemma. Qed.
Print Assumptions arg_tables_distinct.

Theorem arg_table_not_reused : forall n fr f a s c args r s2 c2 args2,
  has_arg_table c = true -> has_arg_table c2 = true ->
  call n fr f a (callee_state s c args) = Ret r s2 ->
  (length (tabs s) < length (tabs s2))%nat /\
  nth (length (tabs s)) (tabs (callee_state s2 c2 args2)) empty_tab = nth (length (tabs s)) (tabs s2) empty_tab.
Proof. exact CallFreshFacts.arg_table_not_reused_lemma. Qed.
Print Assumptions arg_table_not_reused.

Theorem arg_table_not_reused_after_error : forall n fr f a s c args v s2 c2 args2,
  has_arg_table c = true -> has_arg_table c2 = true ->
  call n fr f a (callee_state s c args) = Err v s2 ->
  (length (tabs s) < length (tabs s2))%nat /\
  nth (length (tabs s)) (tabs (callee_state s2 c2 args2)) empty_tab = nth (length (tabs s)) (tabs s2) empty_tab.
Proof. exact CallFreshFacts.arg_table_not_reused_after_error_lemma. Qed.
Print Assumptions arg_table_not_reused_after_error.

(* ---------------------------------------------------------------------------------------------
   M-VM (coq/VMX): the call mechanisms on the real register-window arithmetic of _state.go /
   _vm.go, for arbitrary registries, positions and counts. *)
From GL Require Import VMX.Machine VMX.Step VMX.Spec.
From GL Require VMX.RegFacts VMX.FrameFacts.

Theorem FillNil_spec : forall r regm n, 0 <= regm -> 0 <= n ->
  rtop (FillNil r regm n) = regm + n /\
  forall x, rd (arr (FillNil r regm n)) x =
    if (regm <=? x) && (x <? regm + n) then cNil
    else if (regm + n <=? x) && (x <? rtop r) then None
    else rd (arr r) x.
Proof. exact RegFacts.FillNil_spec. Qed.
Print Assumptions FillNil_spec.

Theorem CopyRange_spec : forall r regv start limit n,
  0 <= regv -> regv <= start -> 0 <= n ->
  rtop (CopyRange r regv start limit n) = regv + n /\
  forall x, rd (arr (CopyRange r regv start limit n)) x =
    if (regv <=? x) && (x <? regv + n) then src_cell (arr r) start (eff_limit r limit) (x - regv)
    else if (regv + n <=? x) && (x <? rtop r) then None
    else rd (arr r) x.
Proof. exact RegFacts.CopyRange_spec. Qed.
Print Assumptions CopyRange_spec.

Theorem CopyRange_adjust : forall r regv start limit n vs,
  0 <= regv -> regv <= start -> 0 <= n ->
  start + len vs = eff_limit r limit ->
  window_is (arr r) start vs ->
  window_is (arr (CopyRange r regv start limit n)) regv (adjust (Z.to_nat n) vs).
Proof. exact RegFacts.CopyRange_adjust. Qed.
Print Assumptions CopyRange_adjust.

(* OP_RETURN's copy: b is the B operand (0 = "up to the top") *)
Theorem copyReturnValues_spec : forall r regv start n b vs,
  0 <= regv -> regv <= start -> 0 <= n -> 0 <= b ->
  (if b =? 0 then start + len vs = rtop r else len vs = b - 1 /\ start + len vs <= rtop r) ->
  window_is (arr r) start vs ->
  let r' := copyReturnValues r regv start n b in
  rtop r' = regv + n /\
  window_is (arr r') regv (adjust (Z.to_nat n) vs) /\
  (forall x, x < regv -> rd (arr r') x = rd (arr r) x) /\
  (forall x, regv + n <= x < rtop r -> rd (arr r') x = None).
Proof. exact RegFacts.copyReturnValues_spec. Qed.
Print Assumptions copyReturnValues_spec.

Theorem initCallFrame_fixed_spec : forall np nregs vararg nargs lb argtb r args,
  0 <= np -> np <= nregs -> 0 <= lb -> len args = nargs ->
  Z.land vararg VarArgIsVarArg = 0 ->
  window_is (arr r) lb args ->
  let '(r', lb') := initCallFrame_regs np nregs vararg nargs lb argtb r in
  lb' = lb /\ rtop r' = lb + nregs /\
  window_is (arr r') lb (adjust (Z.to_nat np) args) /\
  (forall x, lb + np <= x < lb + nregs -> rd (arr r') x = cNil) /\
  (forall x, x < lb -> rd (arr r') x = rd (arr r) x).
Proof. exact RegFacts.initCallFrame_fixed_spec. Qed.
Print Assumptions initCallFrame_fixed_spec.

Theorem initCallFrame_vararg_spec : forall np nregs vararg nargs lb argtb r args,
  0 <= np -> np + 1 <= nregs -> 0 <= lb -> lb + nargs <= rtop r -> len args = nargs ->
  Z.land vararg VarArgIsVarArg <> 0 ->
  window_is (arr r) lb args ->
  let '(r', lb') := initCallFrame_regs np nregs vararg nargs lb argtb r in
  lb' = lb + Z.max nargs np /\ rtop r' = lb' + nregs /\
  window_is (arr r') lb' (adjust (Z.to_nat np) args) /\
  window_is (arr r') (lb + np) (skipn (Z.to_nat np) args) /\
  rd (arr r') (lb' + np) = argtb /\
  (forall x, lb' + np + 1 <= x < lb' + nregs -> rd (arr r') x = cNil) /\
  (forall x, x < lb -> rd (arr r') x = rd (arr r) x).
Proof. exact RegFacts.initCallFrame_vararg_spec. Qed.
Print Assumptions initCallFrame_vararg_spec.

Theorem initCallFrame_spec : forall np nregs vararg nargs lb argtb r args,
  0 <= np -> np + 1 <= nregs -> 0 <= lb -> lb + nargs <= rtop r -> len args = nargs ->
  window_is (arr r) lb args ->
  let '(r', lb') := initCallFrame_regs np nregs vararg nargs lb argtb r in
  rtop r' = lb' + nregs /\
  window_is (arr r') lb' (adjust (Z.to_nat np) args) /\
  (forall x, lb' + np + 1 <= x < lb' + nregs -> rd (arr r') x = cNil) /\
  (forall x, x < lb -> rd (arr r') x = rd (arr r) x).
Proof. exact RegFacts.initCallFrame_spec. Qed.
Print Assumptions initCallFrame_spec.

(* proper tail calls: the frame is re-used *)
Theorem tailcall_depth : forall cf callable lv meta nargs RA s b s',
  tailcall_lua cf callable lv meta nargs RA s = VRet b s' ->
  length (vstack s') = length (vstack s).
Proof. exact FrameFacts.tailcall_depth. Qed.
Print Assumptions tailcall_depth.

Theorem tailcall_depth_op : forall ml gf cl cf inst base s b s',
  op_of_code (opGetOpCode inst) = Some OP_TAILCALL ->
  (forall lv fm s0, reg_get (fr_localbase cf + opGetArgA inst) s = VRet lv s0 ->
                    metaCall lv s0 = VRet fm s0 -> exists c, fst fm = Some (FnLua c)) ->
  exec_op ml gf cl cf inst base s = VRet b s' ->
  length (vstack s') = length (vstack s).
Proof. exact FrameFacts.tailcall_depth_op. Qed.
Print Assumptions tailcall_depth_op.

Theorem tailcall_n : forall s s', Relation_Operators.clos_refl_trans _ tc_step s s' ->
  length (vstack s') = length (vstack s).
Proof. exact FrameFacts.tailcall_n. Qed.
Print Assumptions tailcall_n.

(* a return pops exactly one frame (and closes the frame's upvalues first, see C03) *)
Theorem return_spec : forall cf RA B base s b s',
  vstack s <> [] -> state_cache_inv s -> not_coroutine_bottom s ->
  do_return cf RA B base s = VRet b s' ->
  S (length (vstack s')) = length (vstack s) /\
  state_cache_inv s' /\
  (forall u, In u (vuvcache s') -> uv_index (uvat (vuvs s') u) < fr_localbase cf).
Proof. exact FrameFacts.return_spec. Qed.
Print Assumptions return_spec.
