(* C04 — property theorems only. Metamethod selection in the reference evaluator: for all states
   (metatable graphs), operands, fuel, and all behaviours of the handler (an arbitrary call). *)
From GL Require Import Common.Bytes Lua.Syntax Lua.Num Lua.Values Lua.Names Lua.Eval
  Lua.MonadFacts Lua.EvalStepFacts Lua.MetaFacts Lua.MetaChainFacts.

(* indexing: raw table first *)
Theorem index_raw_first : forall n fr r k d s,
  is_nil (rawget_of s r k) = false ->
  index (S n) fr (VTab r) k (S d) s = Ret (rawget_of s r k) s.
Proof. exact index_raw_first_lemma. Qed.
Print Assumptions index_raw_first.

Theorem index_absent_follows_chain : forall n fr r k d s,
  is_nil (rawget_of s r k) = true ->
  index (S n) fr (VTab r) k (S d) s =
  match metafield s (VTab r) s_mm_index with
  | VNil => Ret VNil s
  | VFun _ | VBuiltin _ => first_of (call n fr (metafield s (VTab r) s_mm_index) [VTab r; k] s)
  | h => index n fr h k d s
  end.
Proof. exact index_absent_lemma. Qed.
Print Assumptions index_absent_follows_chain.

Theorem index_nontable : forall n fr v k d s, is_tab v = false ->
  index (S n) fr v k (S d) s =
  match metafield s v s_mm_index with
  | VNil => Err (VFault 1 (frames_line fr)) s
  | VFun _ | VBuiltin _ => first_of (call n fr (metafield s v s_mm_index) [v; k] s)
  | h => index n fr h k d s
  end.
Proof. exact index_nontable_lemma. Qed.
Print Assumptions index_nontable.

(* assignment: __newindex only for absent keys *)
Theorem newindex_only_absent : forall n fr r k x d s,
  is_nil (rawget_of s r k) = false -> valid_key k = true ->
  setindex (S n) fr (VTab r) k x (S d) s = Ret tt (rawset_state s r k x).
Proof. exact newindex_present_lemma. Qed.
Print Assumptions newindex_only_absent.

Theorem newindex_absent_follows_chain : forall n fr r k x d s,
  is_nil (rawget_of s r k) = true ->
  setindex (S n) fr (VTab r) k x (S d) s =
  match metafield s (VTab r) s_mm_newindex with
  | VNil => if valid_key k then Ret tt (rawset_state s r k x) else Err (VFault 6 (frames_line fr)) s
  | VFun _ | VBuiltin _ => unit_of (call n fr (metafield s (VTab r) s_mm_newindex) [VTab r; k; x] s)
  | h => setindex n fr h k x d s
  end.
Proof. exact newindex_absent_lemma. Qed.
Print Assumptions newindex_absent_follows_chain.

(* arithmetic, concatenation, unary minus: left operand's handler, else the right's; operands in
   source order; first result *)
Theorem arith_left_then_right : forall n fr o a b s,
  is_arith o = true -> both_num a b = false -> some_out a b = false ->
  binop_v (S n) fr o a b s =
  let h := if is_nil (metafield s a (arith_event o)) then metafield s b (arith_event o)
           else metafield s a (arith_event o) in
  if is_nil h then Err (VFault 2 (frames_line fr)) s else first_of (call n fr h [a; b] s).
Proof. exact arith_left_then_right_lemma. Qed.
Print Assumptions arith_left_then_right.

Theorem arith_numbers_no_handler : forall n fr o a b x y s,
  is_arith o = true -> tonum a = CNum x -> tonum b = CNum y ->
  binop_v (S n) fr o a b s = match arith_op o x y with Some r => Ret (VNum r) s | None => Unsup 1 end.
Proof. exact arith_numbers_lemma. Qed.
Print Assumptions arith_numbers_no_handler.

Theorem concat_left_then_right : forall n fr a b s,
  strnum a && strnum b = false -> is_fault a = false -> is_fault b = false ->
  binop_v (S n) fr OConcat a b s =
  let h := if is_nil (metafield s a s_mm_concat) then metafield s b s_mm_concat else metafield s a s_mm_concat in
  if is_nil h then Err (VFault 5 (frames_line fr)) s else first_of (call n fr h [a; b] s).
Proof. exact concat_left_then_right_lemma. Qed.
Print Assumptions concat_left_then_right.

Theorem unm_handler : forall n fr a s, tonum a = CNo ->
  unop_v (S n) fr ONeg a s =
  if is_nil (metafield s a s_mm_unm) then Err (VFault 2 (frames_line fr)) s
  else first_of (call n fr (metafield s a s_mm_unm) [a; a] s).
Proof. exact unm_handler_lemma. Qed.
Print Assumptions unm_handler.

(* equality *)
Theorem eq_raw_equal_no_handler : forall n fr a b s, raweq a b = true -> eq_v (S n) fr a b s = Ret true s.
Proof. exact eq_raw_equal_lemma. Qed.
Print Assumptions eq_raw_equal_no_handler.

Theorem eq_only_same_type : forall n fr a b s,
  raweq a b = false -> eq_candidates a b = false -> eq_v (S n) fr a b s = Ret false s.
Proof. exact eq_other_types_lemma. Qed.
Print Assumptions eq_only_same_type.

Theorem eq_only_same_handler : forall n fr a b s,
  raweq a b = false -> eq_candidates a b = true ->
  eq_v (S n) fr a b s =
  if negb (is_nil (metafield s a s_mm_eq)) && raweq (metafield s a s_mm_eq) (metafield s b s_mm_eq)
  then bind (call n fr (metafield s a s_mm_eq) [a; b] s) (fun vs s' => Ret (truthy (first vs)) s')
  else Ret false s.
Proof. exact eq_handler_lemma. Qed.
Print Assumptions eq_only_same_handler.

(* order *)
Theorem comparison_result_is_truthiness : forall n fr ev a b s,
  order_tm (S n) fr ev a b s =
  if is_nil (metafield s a ev) then Ret None s
  else if raweq (metafield s a ev) (metafield s b ev)
       then bind (call n fr (metafield s a ev) [a; b] s) (fun vs s' => Ret (Some (truthy (first vs))) s')
       else Ret None s.
Proof. exact order_tm_lemma. Qed.
Print Assumptions comparison_result_is_truthiness.

Theorem lt_uses_lt_handler : forall n fr a b s,
  order_prim a b = false ->
  lt_v (S n) fr a b s =
  if negb (beqb (tyname a) (tyname b)) then Err (VFault 4 (frames_line fr)) s else
  bind (order_tm n fr s_mm_lt a b s)
       (fun r => match r with Some t => ret t | None => fault 4 (frames_line fr) end).
Proof. exact lt_handler_lemma. Qed.
Print Assumptions lt_uses_lt_handler.

Theorem le_fallback_not_lt : forall n fr a b s,
  order_prim a b = false -> beqb (tyname a) (tyname b) = true ->
  is_nil (metafield s a s_mm_le) = true ->
  le_v (S (S n)) fr a b s =
  bind (order_tm (S n) fr s_mm_lt b a s)
       (fun r2 => match r2 with Some t => ret (negb t) | None => fault 4 (frames_line fr) end).
Proof. exact le_fallback_not_lt_lemma. Qed.
Print Assumptions le_fallback_not_lt.

Theorem le_uses_le_then_lt : forall n fr a b s,
  order_prim a b = false ->
  le_v (S n) fr a b s =
  if negb (beqb (tyname a) (tyname b)) then Err (VFault 4 (frames_line fr)) s else
  bind (order_tm n fr s_mm_le a b s)
       (fun r => match r with
                 | Some t => ret t
                 | None => fun s' => bind (order_tm n fr s_mm_lt b a s')
                             (fun r2 => match r2 with Some t => ret (negb t) | None => fault 4 (frames_line fr) end)
                 end).
Proof. exact le_handler_lemma. Qed.
Print Assumptions le_uses_le_then_lt.

Theorem relational_result_is_boolean : forall n fr o a b s, is_rel o = true -> bool_result (binop_v n fr o a b s).
Proof. exact rel_result_bool_lemma. Qed.
Print Assumptions relational_result_is_boolean.

(* __call inserts the object as first argument *)
Theorem call_handler : forall n fr f args s, is_fun_or_builtin f = false ->
  call (S n) fr f args s =
  if is_nil (metafield s f s_mm_call) then Err (VFault 3 (frames_line fr)) s
  else call n fr (metafield s f s_mm_call) (f :: args) s.
Proof. exact call_handler_lemma. Qed.
Print Assumptions call_handler.

(* raw operations never invoke handlers *)
Theorem rawget_never_calls : forall n fr r k rest s,
  builtin_call (S n) fr BRawGet (VTab r :: k :: rest) s = Ret [rawget_of s r k] s.
Proof. exact rawget_never_calls_lemma. Qed.
Print Assumptions rawget_never_calls.

Theorem rawset_never_calls : forall n fr r k x rest s, valid_key k = true ->
  builtin_call (S n) fr BRawSet (VTab r :: k :: x :: rest) s = Ret [VTab r] (rawset_state s r k x).
Proof. exact rawset_never_calls_lemma. Qed.
Print Assumptions rawset_never_calls.

Theorem rawequal_never_calls : forall n fr a b rest s,
  builtin_call (S n) fr BRawEqual (a :: b :: rest) s = Ret [VBool (raweq a b)] s.
Proof. exact rawequal_never_calls_lemma. Qed.
Print Assumptions rawequal_never_calls.

Theorem raw_ops_never_call : forall n fr r k rest s s',
  t_kv (tab_of s r) = t_kv (tab_of s' r) ->
  exists v, builtin_call (S n) fr BRawGet (VTab r :: k :: rest) s = Ret [v] s /\
            builtin_call (S n) fr BRawGet (VTab r :: k :: rest) s' = Ret [v] s'.
Proof. exact rawget_meta_independent_lemma. Qed.
Print Assumptions raw_ops_never_call.

(* tostring / getmetatable / setmetatable honour __tostring and __metatable *)
Theorem tostring_handler : forall n fr v s,
  is_nil (metafield s v s_mm_tostring) = false ->
  tostring_v (S n) fr v s = first_of (call n fr (metafield s v s_mm_tostring) [v] s).
Proof. exact tostring_handler_lemma. Qed.
Print Assumptions tostring_handler.

Theorem getmetatable_field_rule : forall n fr v rest s,
  builtin_call (S n) fr BGetMt (v :: rest) s =
  if negb (is_nil (metafield s v s_mm_metatable)) then Ret [metafield s v s_mm_metatable] s
  else match metatable_of s v with Some m => Ret [VTab m] s | None => Ret [VNil] s end.
Proof. exact getmetatable_lemma. Qed.
Print Assumptions getmetatable_field_rule.

Theorem setmetatable_protected : forall n fr r m rest s,
  is_nil (metafield s (VTab r) s_mm_metatable) = false ->
  is_err_unchanged s (builtin_call (S n) fr BSetMt (VTab r :: m :: rest) s).
Proof. exact setmetatable_protected_lemma. Qed.
Print Assumptions setmetatable_protected.

Theorem setmetatable_sets : forall n fr r m rest s,
  is_nil (metafield s (VTab r) s_mm_metatable) = true ->
  builtin_call (S n) fr BSetMt (VTab r :: VTab m :: rest) s =
  Ret [VTab r] (with_tabs s (set_nth (tabs s) r (mkTab (t_kv (tab_of s r)) (Some m)))).
Proof. exact setmetatable_sets_lemma. Qed.
Print Assumptions setmetatable_sets.

(* setmetatable(t) with the second argument missing is an error and changes nothing (a missing
   argument is not nil: luaL_argcheck "nil or table expected") *)
Theorem setmetatable_missing_argument : forall n fr r s,
  builtin_call (S n) fr BSetMt [VTab r] s = Err (VFault 6 (frames_line fr)) s.
Proof. exact setmetatable_missing_lemma. Qed.
Print Assumptions setmetatable_missing_argument.

(* ---------- whole chains and the documented depth (wave 5; Lua/MetaChainFacts.v) ----------
   [chain ev s k v vs]: v, then the objects vs, each passing the key on to the next (a table where
   the key is absent, or a non-table value such as a userdata, whose handler for ev is the next
   object). The chain has S (length vs) objects. The evaluator starts every gettable / settable
   event with depth 100 (lvm.c MAXTAGLOOP, gopher-lua MaxTableGetLoop). *)

(* at most [depth] objects: the LAST object is examined like a directly indexed one, with a
   positive remaining depth, i.e. its raw slot and its own handler are honoured (index_raw_first,
   index_absent_follows_chain, index_nontable apply to the right-hand side) *)
Theorem index_chain_walked_to_last : forall fr k s vs v n depth,
  chain s_mm_index s k v vs -> (length vs < depth)%nat ->
  index (length vs + S n) fr v k depth s = index (S n) fr (last vs v) k (S (depth - length vs - 1)) s.
Proof. exact index_chain_within_depth_lemma. Qed.
Print Assumptions index_chain_walked_to_last.

Theorem index_chain_last_hit : forall fr k s vs v n depth r,
  chain s_mm_index s k v vs -> (length vs < depth)%nat -> last vs v = VTab r ->
  is_nil (rawget_of s r k) = false ->
  index (length vs + S n) fr v k depth s = Ret (rawget_of s r k) s.
Proof. exact index_chain_last_hit_lemma. Qed.
Print Assumptions index_chain_last_hit.

Theorem index_chain_last_absent_is_nil : forall fr k s vs v n depth r,
  chain s_mm_index s k v vs -> (length vs < depth)%nat -> last vs v = VTab r ->
  is_nil (rawget_of s r k) = true -> metafield s (VTab r) s_mm_index = VNil ->
  index (length vs + S n) fr v k depth s = Ret VNil s.
Proof. exact index_chain_last_absent_lemma. Qed.
Print Assumptions index_chain_last_absent_is_nil.

Theorem index_chain_last_handler_called : forall fr k s vs v n depth,
  chain s_mm_index s k v vs -> (length vs < depth)%nat ->
  match last vs v with VTab r => is_nil (rawget_of s r k) = true | _ => True end ->
  is_called (metafield s (last vs v) s_mm_index) = true ->
  index (length vs + S n) fr v k depth s =
  first_of (call n fr (metafield s (last vs v) s_mm_index) [last vs v; k] s).
Proof. exact index_chain_last_handler_lemma. Qed.
Print Assumptions index_chain_last_handler_called.

(* one object more than the depth: an error, whatever the last object holds *)
Theorem index_chain_beyond_depth_is_error : forall fr k s vs v n depth,
  chain s_mm_index s k v vs -> length vs = depth ->
  index (length vs + S n) fr v k depth s = Err (VFault 1 (frames_line fr)) s.
Proof. exact index_chain_beyond_depth_lemma. Qed.
Print Assumptions index_chain_beyond_depth_is_error.

Theorem newindex_chain_walked_to_last : forall fr k x s vs v n depth,
  chain s_mm_newindex s k v vs -> (length vs < depth)%nat ->
  setindex (length vs + S n) fr v k x depth s =
  setindex (S n) fr (last vs v) k x (S (depth - length vs - 1)) s.
Proof. exact setindex_chain_within_depth_lemma. Qed.
Print Assumptions newindex_chain_walked_to_last.

(* a key held by an inner table of a longer chain is raw-assigned there (the walk ends) *)
Theorem newindex_chain_key_held_is_raw_store : forall fr k x s vs v n depth r,
  chain s_mm_newindex s k v vs -> (length vs < depth)%nat -> last vs v = VTab r ->
  is_nil (rawget_of s r k) = false -> valid_key k = true ->
  setindex (length vs + S n) fr v k x depth s = Ret tt (rawset_state s r k x).
Proof. exact setindex_chain_last_present_lemma. Qed.
Print Assumptions newindex_chain_key_held_is_raw_store.

Theorem newindex_chain_last_plain_stores : forall fr k x s vs v n depth r,
  chain s_mm_newindex s k v vs -> (length vs < depth)%nat -> last vs v = VTab r ->
  is_nil (rawget_of s r k) = true -> metafield s (VTab r) s_mm_newindex = VNil -> valid_key k = true ->
  setindex (length vs + S n) fr v k x depth s = Ret tt (rawset_state s r k x).
Proof. exact setindex_chain_last_plain_lemma. Qed.
Print Assumptions newindex_chain_last_plain_stores.

Theorem newindex_chain_last_handler_called : forall fr k x s vs v n depth,
  chain s_mm_newindex s k v vs -> (length vs < depth)%nat ->
  match last vs v with VTab r => is_nil (rawget_of s r k) = true | _ => True end ->
  is_called (metafield s (last vs v) s_mm_newindex) = true ->
  setindex (length vs + S n) fr v k x depth s =
  unit_of (call n fr (metafield s (last vs v) s_mm_newindex) [last vs v; k; x] s).
Proof. exact setindex_chain_last_handler_lemma. Qed.
Print Assumptions newindex_chain_last_handler_called.

Theorem newindex_chain_beyond_depth_is_error : forall fr k x s vs v n depth,
  chain s_mm_newindex s k v vs -> length vs = depth ->
  setindex (length vs + S n) fr v k x depth s = Err (VFault 1 (frames_line fr)) s.
Proof. exact setindex_chain_beyond_depth_lemma. Qed.
Print Assumptions newindex_chain_beyond_depth_is_error.
