(* C04 — property theorems only (placeholder until the meta-theory files land). *)
From GL Require Import Common.Bytes Lua.Syntax Lua.Values Lua.Eval Lua.Run Lua.EvalFacts.

Theorem adjust_spec : forall n vs, length (adjust n vs) = n /\ forall i, (i < n)%nat -> nth i (adjust n vs) VNil = nth i vs VNil.
Proof. exact adjust_spec_lemma. Qed.
Print Assumptions adjust_spec.
