(* C11 — property theorems only: statement, `exact <lemma>`, Print Assumptions.
   Machine: Ctx/CancelModel.v (frames of the running chain of threads, raise/unwind as
   LState.PCall / threadRun do, oracle-chosen instruction effects, Go library frames limited by gofuel).
   cstate σ = the context is done and every thread (running or suspended) has a context derived from
   it; by threads_inherit this holds for every state reachable from an attached initial state. *)
From Coq Require Import List.
From GL Require Import Ctx.CancelModel Ctx.CancelFacts.
Import ListNotations.

(* Once the context is done no run performs another Lua instruction — whatever the script (the oracle)
   did before and whatever Go library frames do afterwards; runs are arbitrary finite prefixes, so
   non-terminating scripts are included. *)
Theorem no_instruction_after_cancel :
  forall tr1 σ1 tr2 σ2,
    run init_attached tr1 σ1 -> cancelled σ1 = true -> run σ1 tr2 σ2 -> instrs tr2 = 0.
Proof. exact no_instruction_after_cancel_lemma. Qed.
Print Assumptions no_instruction_after_cancel.

Theorem no_instruction_after_cancel_any_state :
  forall σ tr σ', cstate σ -> run σ tr σ' -> instrs tr = 0.
Proof. exact no_instruction_from_cstate_lemma. Qed.
Print Assumptions no_instruction_after_cancel_any_state.

(* Every run from a cancelled state makes at most weight+1+2*gofuel dispatch attempts and at most
   steps_measure steps (so no infinite run exists), weight+1 <= 2*protected_depth+1 <= 2*depth+1,
   and a run can stop only in a final state (empty stack: the host's call has returned). *)
Theorem stops_within_depth :
  forall σ, cstate σ -> md σ = Run ->
    (forall tr σ', run σ tr σ' ->
        attempts tr <= weight (stk σ) + 1 + 2 * gofuel σ /\ length tr <= steps_measure σ) /\
    (weight (stk σ) + 1 <= 2 * protected_depth (stk σ) + 1 /\
     2 * protected_depth (stk σ) + 1 <= 2 * depth (stk σ) + 1) /\
    (forall tr σ', run σ tr σ' -> ~ final σ' -> exists l σ'', step σ' l σ'').
Proof. exact stops_within_depth_lemma. Qed.
Print Assumptions stops_within_depth.

(* The bound of the property statement, when no Go library loop is pending. *)
Theorem stops_within_depth_plain :
  forall σ tr σ', cstate σ -> md σ = Run -> gofuel σ = 0 -> run σ tr σ' ->
    attempts tr <= 2 * protected_depth (stk σ) + 1 /\ attempts tr <= 2 * depth (stk σ) + 1.
Proof. exact stops_within_depth_plain_lemma. Qed.
Print Assumptions stops_within_depth_plain.

(* When control never returns to a Go library frame or to the host before a poll (armed_run) and no
   channel operation is pending (no_block: a pending one may raise or complete), the number of
   attempts of a complete run is exactly cost_run and it ends with the context's error. *)
Theorem stops_exactly :
  forall σ tr σ', cstate σ -> md σ = Run -> armed_run (stk σ) = true -> no_block (stk σ) = true ->
    run σ tr σ' -> final σ' ->
    attempts tr = cost_run (stk σ) /\ md σ' = Raising ECtx.
Proof. exact stops_exactly_lemma. Qed.
Print Assumptions stops_exactly.

Theorem reason_carried :
  forall σ tr σ', cstate σ -> md σ = Run -> armed_run (stk σ) = true -> run σ tr σ' ->
    (forall e, md σ' = Raising e -> e = ECtx) /\ (final σ' -> md σ' = Raising ECtx).
Proof. exact reason_carried_lemma. Qed.
Print Assumptions reason_carried.

(* While the context is not done the machine with the context and the machine without one (no frame
   polls, nothing attached) take the same steps, in both directions. *)
Theorem ctx_transparent :
  forall σ, cancelled σ = false ->
    (forall l σ', l <> LCancel -> step σ l σ' -> step (erase σ) (erase_label l) (erase σ')) /\
    (forall l0 τ, step (erase σ) l0 τ ->
        exists l σ', step σ l σ' /\ l <> LCancel /\ erase_label l = l0 /\ erase σ' = τ).
Proof. exact ctx_transparent_lemma. Qed.
Print Assumptions ctx_transparent.

Theorem ctx_transparent_run :
  forall σ tr σ', run σ tr σ' -> cancelled σ' = false ->
    run (erase σ) (map erase_label tr) (erase σ').
Proof. exact ctx_transparent_run_lemma. Qed.
Print Assumptions ctx_transparent_run.

(* Every coroutine created after the context was attached polls (its frames, running or suspended,
   carry the polling flag) ... *)
Theorem threads_inherit :
  forall tr σ, run init_attached tr σ ->
    polls_all (stk σ) = true /\
    (forall tf fr, In (tf, fr) (pool σ) -> tf = true /\ polls_all fr = true).
Proof. exact threads_inherit_lemma. Qed.
Print Assumptions threads_inherit.

(* ... because NewThread derives a child of the creator's context: the child is done whenever an
   ancestor is, and killing a thread cancels only its own context. *)
Theorem threads_inherit_ctx :
  forall marks r creator fresh c,
    descends r creator -> new_thread_ctx creator fresh = Some c ->
    descends r (Some c) /\ (marked marks r = true -> ctx_done marks c = true) /\
    (forall id, ~ In id c -> ctx_done (id :: marks) c = ctx_done marks c).
Proof. exact threads_inherit_ctx_lemma. Qed.
Print Assumptions threads_inherit_ctx.

(* A channel receive/select/send waiting on a thread with a context raises the context's error when
   the context is done (model rule; that the Go runtime wakes the goroutine is not modelled). *)
Theorem blocked_operation_released :
  forall σ p s, cstate σ -> md σ = Run -> stk σ = TGoBlock p :: s ->
    step σ LUnblock (with_stk σ (stk σ) (Raising ECtx)) /\
    cstate (with_stk σ (stk σ) (Raising ECtx)).
Proof. exact blocked_operation_released_lemma. Qed.
Print Assumptions blocked_operation_released.

(* The executable instance used by the correspondence check is a run of the machine. *)
Theorem exec_is_run :
  forall fuel σ go acc tr σ' e,
    exec fuel σ go acc = (tr, σ', e) -> exists tr', tr = rev acc ++ tr' /\ run σ tr' σ'.
Proof. exact exec_sound. Qed.
Print Assumptions exec_is_run.

Theorem drive_is_run :
  forall fuel σ script k n acc tr σ' e,
    drive fuel σ script k n acc = (tr, σ', e) -> exists tr', tr = rev acc ++ tr' /\ run σ tr' σ'.
Proof. exact drive_sound. Qed.
Print Assumptions drive_is_run.

(* Where the statement of the property stops being true of the machine (and of the code). *)

(* A Go library function that iterates over an error-catching callback (sort comparator = pcall,
   gsub replacement table with __index = pcall, load reader ...; the former finding C11-2): Go code
   enters a Go function only through TEntry, whose poll raises again, so whatever the library frame
   would like to do next (any list of choices) the run is over after 2 attempts. *)
Theorem go_library_loop_stops :
  let s := [TLua true; TGoPcall; TEntry true; TGoPlain; TLua true] in
  forall go, exists tr σ' e,
    run_of_exec s 20 go = (tr, σ', e) /\ attempts tr = 2 /\ e = EndFinal (Raising ECtx).
Proof. exact go_library_loop_stops_lemma. Qed.
Print Assumptions go_library_loop_stops.

(* reason_carried without armed_run: a catching frame with nothing that polls below it (pcall run by
   the host WITHOUT the poll after a Go function, i.e. without TEntry) yields results, not an error;
   this is what the code did before the fix that introduced TEntry. *)
Theorem reason_not_carried_refuted :
  exists σ tr σ', cstate σ /\ md σ = Run /\ run σ tr σ' /\ final σ' /\ md σ' = Run.
Proof. exact reason_not_carried_refuted_lemma. Qed.
Print Assumptions reason_not_carried_refuted.

(* A coroutine created BEFORE SetContext has no context and is never stopped (outside the property). *)
Theorem thread_without_context_not_stopped :
  forall n, exists tr σ',
    run (mk [TLua false; TCo false false; TLua true] Run true true 0 []) tr σ' /\ instrs tr = n.
Proof. exact thread_without_context_not_stopped_lemma. Qed.
Print Assumptions thread_without_context_not_stopped.
