(* C08 — property theorems only: statement, `exact <lemma>`, Print Assumptions.
   Scope: the scanner (parse/lexer.go) and, for the grammar, a REFERENCE parser/printer written from
   lparser.c (Front/Parser.v, Front/Printer.v).  The generated LALR parser and the compiler are not
   modelled; "never panics / terminates / classifies as a syntax error" for them is exploration
   on the Go side (see notes/C08.md). *)
From GL Require Import Common.Bytes Front.Lines Front.Lexer Front.LexerFacts Front.LinesFacts
  Front.Render Front.RenderFacts Front.Ast Front.Parser Front.Printer Front.ParserFacts
  Front.ParserProgress.

(* every Scan step consumes at least one byte or returns EOF / an error (and never runs out of
   the fuel length+1) *)
Theorem lex_progress : forall fuel st,
  (length (rest st) < fuel)%nat ->
  match scan fuel st with
  | STok _ st' => (length (rest st') < length (rest st))%nat /\ off st < off st'
  | SEof _ => True
  | SErr _ => True
  | SOutOfFuel => False
  end.
Proof. exact lex_progress_lemma. Qed.
Print Assumptions lex_progress.

(* hence the whole input is lexed within fuel length+1: the bound is a theorem (no hang) *)
Theorem lex_terminates_within : forall bs fuel,
  (length bs < fuel)%nat -> lex_fuel fuel (init_state bs) <> LexOutOfFuel.
Proof. exact lex_terminates_within_lemma. Qed.
Print Assumptions lex_terminates_within.

(* the result is a token list, or the tokens before the first error plus that error (kind,
   line, text) *)
Theorem lex_total_classified : forall bs,
  (exists toks, lex bs = LexOk toks) \/ (exists toks e, lex bs = LexErr toks e).
Proof. exact lex_total_classified_lemma. Qed.
Print Assumptions lex_total_classified.

(* the line stamped on every delivered token (also on those before a lexical error) is the
   reference line (Lua 5.1 rule: LF, CR, CRLF, LFCR each count once) of the offset of its first
   byte.  Exported for C17. *)
Theorem lexer_lines_correct : forall bs toks,
  is_bytes bs = true ->
  (lex bs = LexOk toks \/ exists e, lex bs = LexErr toks e) ->
  Forall (fun t => tk_line t = line_of_offset bs (tk_off t) /\ 0 <= tk_off t < len bs) toks.
Proof. exact lexer_lines_correct_lemma. Qed.
Print Assumptions lexer_lines_correct.

(* layout independence: for every list of lexemes and every choice of separators (blank runs of
   space \t \v \f, line ends LF CR CRLF LFCR, "--" line comments, "--[=*[ ]=*]" block comments;
   possibly empty wherever the next byte cannot merge with the lexeme: Render.good), lexing the
   rendering gives back exactly the lexemes' tokens, each on the reference line of its offset.
   The token stream - hence everything the parser sees - depends on the lexeme list only. *)
Theorem lex_render : forall items trailer,
  good items trailer = true -> lex (render items trailer) = LexOk (expected_tokens items trailer).
Proof. exact lex_render_lemma. Qed.
Print Assumptions lex_render.

(* corollary: two layouts of the same lexeme list lex to the same sequence of (type, text) *)
Theorem lex_layout_independent : forall items1 tr1 items2 tr2,
  good items1 tr1 = true -> good items2 tr2 = true -> map snd items1 = map snd items2 ->
  exists t1 t2, lex (render items1 tr1) = LexOk t1 /\ lex (render items2 tr2) = LexOk t2 /\
                map tok_strip t1 = map tok_strip t2.
Proof. exact lex_layout_independent_lemma. Qed.
Print Assumptions lex_layout_independent.

(* ---------- the grammar: reference parser and printer (Lua 5.1 + goto/labels) ---------- *)

(* the printer/parser round trip: every well-formed tree, printed with the parentheses and ";"
   it carries plus the ones the priorities force, is read back as its normal form - in the Lua 5.1
   dialect (d = strict) and in the dialect that models gopher-lua's grammar (d = gopher) *)
Theorem parse_print_roundtrip : forall d b,
  wf_b b = true -> parse_d d (print b) = ParseOk (norm_b b).
Proof. exact parse_print_roundtrip_lemma. Qed.
Print Assumptions parse_print_roundtrip.

(* for a tree already in normal form: parse (print ast) = ast *)
Theorem parse_print_roundtrip_normal : forall d b,
  wf_b b = true -> normal b -> parse_d d (print b) = ParseOk b.
Proof. exact parse_print_normal. Qed.
Print Assumptions parse_print_roundtrip_normal.

(* optional semicolons and parentheses that do not change grouping are irrelevant: trees with the
   same normal form (norm_b forgets exactly the ";" flags and the parentheses around expressions
   that are not a call or "...": lemmas norm_semi_irrelevant, norm_paren_irrelevant) parse alike *)
Theorem parse_ignores_semis_and_redundant_parens : forall d b1 b2,
  wf_b b1 = true -> wf_b b2 = true -> norm_b b1 = norm_b b2 ->
  parse_d d (print b1) = parse_d d (print b2).
Proof. exact parse_ignores_layout_lemma. Qed.
Print Assumptions parse_ignores_semis_and_redundant_parens.

Theorem parse_ignores_semis : forall s sm sm' r, norm_b (BCons s sm r) = norm_b (BCons s sm' r).
Proof. exact norm_semi_irrelevant. Qed.
Print Assumptions parse_ignores_semis.

Theorem parse_ignores_redundant_parens : forall x,
  multi (norm_e x) = false -> norm_e (EParen x) = norm_e x.
Proof. exact norm_paren_irrelevant. Qed.
Print Assumptions parse_ignores_redundant_parens.

(* the reference parser terminates on EVERY token list, in either dialect: fuel 8 per token + 8
   is always enough (`parse` uses 32 per token + 32), so "rejects" is never an artefact of fuel *)
Theorem parse_progress : forall d toks fuel,
  (8 * length toks + 8 <= fuel)%nat -> parse_fuel d fuel toks <> ParseOutOfFuel.
Proof. exact parse_progress_lemma. Qed.
Print Assumptions parse_progress.

Theorem parse_total : forall d toks, parse_d d toks <> ParseOutOfFuel.
Proof. exact parse_always_answers. Qed.
Print Assumptions parse_total.
