(* C13 — property theorems only: statement, `exact <lemma>`, Print Assumptions.
   Channel protocol: proved for ALL label sequences accepted by the LTS `exec` of Chan/ChanModel.v
   (= all finite interleavings of any number of threads issuing send/receive/close/select on any
   number of channels).  Non-interference: `proto_immutable`, `two_states_commute`, `isolation`
   are facts of the TYPE of the step function (IsoModel.v); data-race freedom of the Go
   implementation is not provable in Gallina and is covered by the -race exploration harness
   only (testing). *)
From GL Require Import Common.Bytes Chan.ChanModel Chan.ChanFacts Chan.IsoModel Chan.IsoFacts.

(* every value is received at most once, by one receiver; received (+ buffered) = sent *)
Theorem chan_exactly_once :
  forall caps ls s c, run (init caps) ls = Some s -> (c < length caps)%nat ->
  exists ch, nth_error (chs s) c = Some ch /\
    (forall k v, nth_error (vals (recvd_on c ls)) k = Some v -> nth_error (vals (sent_on c ls)) k = Some v) /\
    (length (recvd_on c ls) <= length (sent_on c ls))%nat /\
    (forall v, (count v (vals (recvd_on c ls)) + count v (buf ch) = count v (vals (sent_on c ls)))%nat) /\
    (buf ch = [] -> vals (recvd_on c ls) = vals (sent_on c ls)).
Proof. exact chan_exactly_once_lemma. Qed.
Print Assumptions chan_exactly_once.

(* one channel is FIFO, hence the values of one sender arrive in the order sent *)
Theorem chan_fifo_per_sender :
  forall caps ls s c, run (init caps) ls = Some s -> (c < length caps)%nat ->
    is_prefix (vals (recvd_on c ls)) (vals (sent_on c ls)) /\
    vals (delivered c ls) = vals (recvd_on c ls) /\
    forall sd, is_prefix (filter (from_sender sd) (delivered c ls)) (filter (from_sender sd) (sent_on c ls)).
Proof. exact chan_fifo_lemma. Qed.
Print Assumptions chan_fifo_per_sender.

(* receive on a closed drained channel does not block, reports closure, and keeps doing so (the only
   other way such a receive can end is the calling state's own "registry overflow" / "stack
   overflow", ALimit: see limit_failure_consumes_nothing) *)
Theorem closed_drained_reports :
  forall s c, closed_drained (chs s) c ->
    (forall t, find_t t (pend s) = Some (ORecv c) -> find_t t (fin s) = None ->
       exists s', exec s (LLin (ARecvClosed t c) 0 0) = Some s' /\
                  find_t t (fin s') = Some (ORecv c, RRecv false VNil)) /\
    (forall t a i r chs', apply_act (chs s) a = Some chs' -> completes t (ORecv c) a i = Some r ->
       r = RRecv false VNil \/ (r = RErrLimit /\ a = ALimit t)) /\
    (forall t cs a i r chs', apply_act (chs s) a = Some chs' -> nth_error cs i = Some (SRecv c) ->
       completes t (OSelect cs) a i = Some r -> r = RSel i VNil false \/ r = RErrRefused \/ (r = RErrLimit /\ a = ALimit t)) /\
    (forall ls s', run s ls = Some s' -> closed_drained (chs s') c).
Proof. exact closed_drained_lemma. Qed.
Print Assumptions closed_drained_reports.

(* select proceeds only with a case that can proceed; default only when none can *)
Theorem select_only_ready :
  forall chs a chs' t cs i v ok,
    apply_act chs a = Some chs' ->
    completes t (OSelect cs) a i = Some (RSel i v ok) ->
    match nth_error cs i with
    | Some SDefault =>
        (forall sc, In sc cs -> case_ready chs sc = false) /\ chs' = chs /\ v = VNil /\ ok = false
    | Some (SRecv c) =>
        exists ch, nth_error chs c = Some ch /\
          ((ok = true /\ ((exists b, buf ch = v :: b) \/
                          (exists ts, a = ARdv ts t c v /\ ts <> t /\ closed ch = false /\ buf ch = []))) \/
           (ok = false /\ v = VNil /\ closed ch = true /\ buf ch = []))
    | Some (SSend c w) =>
        exists ch, nth_error chs c = Some ch /\ closed ch = false /\ ok = false /\ v = VNil /\
          (room ch = true \/ (exists tr, a = ARdv t tr c w /\ t <> tr /\ buf ch = []))
    | None => False
    end.
Proof. exact select_only_ready_lemma. Qed.
Print Assumptions select_only_ready.

(* functions, userdata, threads, tables with a metatable are refused, without touching a channel *)
Theorem payload_filter :
  (forall i, isGoroutineSafe (VFunc i) = false) /\
  (forall i, isGoroutineSafe (VUserData i) = false) /\
  (forall i, isGoroutineSafe (VThread i) = false) /\
  (forall i es, isGoroutineSafe (VTable i true es) = false) /\
  (forall c v, isGoroutineSafe v = false -> op_unsafe (OSend c v) = true) /\
  (forall c v cs, isGoroutineSafe v = false -> In (SSend c v) cs -> op_unsafe (OSelect cs) = true) /\
  (forall t o a i r chs chs', op_unsafe o = true -> completes t o a i = Some r -> apply_act chs a = Some chs' ->
     r = RErrRefused /\ chs' = chs) /\
  (forall s t o, find_t t (pend s) = Some o -> find_t t (fin s) = None -> op_unsafe o = true ->
     exists s', exec s (LLin (ARefused t) 0 0) = Some s' /\ chs s' = chs s /\ find_t t (fin s') = Some (o, RErrRefused)) /\
  (forall t o a i, op_unsafe o = false -> completes t o a i <> Some RErrRefused).
Proof. exact payload_filter_lemma. Qed.
Print Assumptions payload_filter.

(* a receive or select that ends in the calling state's resource error ("registry overflow" /
   "stack overflow": no room for the results or for the handler call) has not touched any channel:
   nothing was taken out, nothing was sent, no other thread's operation is affected; it is the only
   way an operation ends so (send and close never do); it never blocks; and the value it could have
   taken is still the head of the buffer for any pending receive, the retry included.  All run-level
   theorems above quantify over runs that contain such failures. *)
Theorem limit_failure_consumes_nothing :
  (forall s t i j s', exec s (LLin (ALimit t) i j) = Some s' ->
     chs s' = chs s /\
     exists o, find_t t (pend s) = Some o /\ op_reserves o = true /\ op_unsafe o = false /\
               fin s' = (t, (o, RErrLimit)) :: fin s /\ pend s' = remove_t t (pend s)) /\
  (forall t o a i, completes t o a i = Some RErrLimit -> a = ALimit t /\ op_reserves o = true /\ op_unsafe o = false) /\
  (forall s t o, find_t t (pend s) = Some o -> find_t t (fin s) = None -> op_reserves o = true -> op_unsafe o = false ->
     exists s', exec s (LLin (ALimit t) 0 0) = Some s' /\ find_t t (fin s') = Some (o, RErrLimit)) /\
  (forall s t i j s' c ch x b u, exec s (LLin (ALimit t) i j) = Some s' ->
     nth_error (chs s) c = Some ch -> buf ch = x :: b ->
     find_t u (pend s') = Some (ORecv c) -> find_t u (fin s') = None ->
     exists s'', exec s' (LLin (ARecv u c x) 0 0) = Some s'' /\
                 find_t u (fin s'') = Some (ORecv c, RRecv true x)).
Proof. exact limit_failure_lemma. Qed.
Print Assumptions limit_failure_consumes_nothing.

(* the filter looks at the value itself only: a plain table is accepted whatever it contains
   (a function nested in a table crosses states).  Recorded, see notes/C13.md. *)
Theorem payload_filter_is_shallow : forall i es, isGoroutineSafe (VTable i false es) = true.
Proof. exact payload_filter_shallow. Qed.
Print Assumptions payload_filter_is_shallow.

(* what makes checking real logs meaningful: an accepted log is the visible part of a complete run *)
Theorem trace_ok_sound :
  forall caps log, trace_ok caps log = true ->
    exists ls s', visible ls = log /\ run (init caps) ls = Some s' /\ quiescent s' = true.
Proof. exact trace_ok_run_lemma. Qed.
Print Assumptions trace_ok_sound.

(* ... hence exactly-once, read off the log alone *)
Theorem trace_ok_exactly_once :
  forall caps log, trace_ok caps log = true ->
  forall c v, (c < length caps)%nat -> (count v (log_recvd c log) <= count v (log_sent c log))%nat.
Proof. exact log_exactly_once_lemma. Qed.
Print Assumptions trace_ok_exactly_once.

(* ... and per-sender order, read off the log alone (program order of sender sd / receiver rc) *)
Theorem trace_ok_fifo :
  forall caps log, trace_ok caps log = true ->
  forall c sd rc, (c < length caps)%nat -> NoDup (log_sent c log) ->
    subseq (filter (fun v => mem v (log_sent_by sd c log)) (log_recvd_by rc c log)) (log_sent_by sd c log).
Proof. exact log_fifo_lemma. Qed.
Print Assumptions trace_ok_fifo.

(* ... and in real time, across receivers: if some receive of x1 has returned (in log1) before
   receiver rc invoked (in log2) the operation that received x2, and sender sd sent both, then sd
   sent x1 first.  This is the clause spec_fifo evaluates on every log. *)
Theorem trace_ok_fifo_realtime :
  forall caps log1 log2, trace_ok caps (log1 ++ log2) = true ->
  forall c sd rc x1 x2, (c < length caps)%nat -> NoDup (log_sent c (log1 ++ log2)) ->
    In x1 (log_recvd c log1) ->
    open_inv rc log1 = false ->
    In x2 (log_recvd_by rc c log2) ->
    In x1 (log_sent_by sd c (log1 ++ log2)) -> In x2 (log_sent_by sd c (log1 ++ log2)) ->
    subseq [x1; x2] (log_sent_by sd c (log1 ++ log2)).
Proof. exact log_fifo_realtime_lemma. Qed.
Print Assumptions trace_ok_fifo_realtime.

(* non-interference at the level of types (see the header) *)
Theorem proto_immutable :
  forall (Proto LS Out : Type) (step : Proto -> LS -> LS * list Out) sched (w : world Proto LS Out),
    proto _ _ _ (wrun _ _ _ step sched w) = proto _ _ _ w.
Proof. exact proto_immutable_lemma. Qed.
Print Assumptions proto_immutable.

Theorem two_states_commute :
  forall (Proto LS Out : Type) (step : Proto -> LS -> LS * list Out) i j (w : world Proto LS Out),
    i <> j -> wstep _ _ _ step i (wstep _ _ _ step j w) = wstep _ _ _ step j (wstep _ _ _ step i w).
Proof. exact two_states_commute_lemma. Qed.
Print Assumptions two_states_commute.

Theorem isolation :
  forall (Proto LS Out : Type) (step : Proto -> LS -> LS * list Out) sched (w : world Proto LS Out) i st tr,
    nth_error (states _ _ _ w) i = Some st -> nth_error (traces _ _ _ w) i = Some tr ->
    nth_error (states _ _ _ (wrun _ _ _ step sched w)) i = Some (fst (alone _ _ _ step (occ i sched) (proto _ _ _ w) st tr)) /\
    nth_error (traces _ _ _ (wrun _ _ _ step sched w)) i = Some (snd (alone _ _ _ step (occ i sched) (proto _ _ _ w) st tr)).
Proof. exact isolation_lemma. Qed.
Print Assumptions isolation.
