(* C06 — property theorems only. Meta-theory of the coroutine driver of the reference evaluator:
   for all states, stacks of resumers, continuations, arguments and fuel. *)
From GL Require Import Common.Bytes Lua.Syntax Lua.Num Lua.Values Lua.Names Lua.Eval Lua.Run
  Lua.MonadFacts Lua.EvalStepFacts Lua.DriveFacts Lua.EvalInvFacts Lua.DriveRunFacts.

(* ---- status automaton: the invariant and its preservation by every driver transition ---- *)
Theorem co_wf_initial : forall d body, co_wf (init_state d body) [].
Proof. exact co_wf_init_lemma. Qed.
Print Assumptions co_wf_initial.

Theorem co_wf_resume : forall s ws co, co_wf s ws -> resumable s co -> co_wf (st_resume s co) (cur s :: ws).
Proof. exact co_wf_resume_lemma. Qed.
Print Assumptions co_wf_resume.

Theorem co_wf_finish : forall s who ws, co_wf s (who :: ws) -> co_wf (st_finish s who) ws.
Proof. exact co_wf_finish_lemma. Qed.
Print Assumptions co_wf_finish.

Theorem co_wf_yield : forall s c who ws, co_wf s (who :: ws) -> cur s = Some c -> co_wf (st_yield s c who) ws.
Proof. exact co_wf_yield_lemma. Qed.
Print Assumptions co_wf_yield.

Theorem co_wf_between_steps : forall s s' ws, co_wf s ws -> co_frame s s' -> co_wf s' ws.
Proof. exact co_wf_frame_lemma. Qed.
Print Assumptions co_wf_between_steps.

(* the statuses after each transition, in closed form: suspended/initial -> running,
   running -> normal while it resumes another, running -> suspended | dead, normal -> running *)
Theorem status_after_resume : forall s co i,
  (co < length (cos s))%nat -> (forall m, cur s = Some m -> (m < length (cos s))%nat /\ m <> co) ->
  status (st_resume s co) i = if Nat.eqb co i then CoRun else if opt_eqb (cur s) i then CoNorm else status s i.
Proof. exact st_resume_status_lemma. Qed.
Print Assumptions status_after_resume.

Theorem status_after_finish : forall s c who ws i, co_wf s (who :: ws) -> cur s = Some c ->
  status (st_finish s who) i = if Nat.eqb c i then CoDead else if opt_eqb who i then CoRun else status s i.
Proof. exact st_finish_status_lemma. Qed.
Print Assumptions status_after_finish.

Theorem status_after_yield : forall s c who ws i, co_wf s (who :: ws) -> cur s = Some c ->
  status (st_yield s c who) i = if Nat.eqb c i then CoSusp else if opt_eqb who i then CoRun else status s i.
Proof. exact st_yield_status_lemma. Qed.
Print Assumptions status_after_yield.

(* the driver's transitions are exactly these (definitional unfoldings of [drive]) *)
Theorem drive_resume_initial : forall n conts stack co args w s k f,
  status s co = CoInit f ->
  drive (S n) conts stack (Eff (EResume co args w) s k) =
  drive n conts ((cur s, k, w) :: stack) (call n [(None, None)] f args (st_resume s co)).
Proof. exact drive_resume_init_step. Qed.
Print Assumptions drive_resume_initial.

Theorem drive_resume_suspended : forall n conts stack co args w s k kc,
  status s co = CoSusp -> kfind conts co = Some kc ->
  drive (S n) conts stack (Eff (EResume co args w) s k) =
  drive n conts ((cur s, k, w) :: stack) (kc (RVals args) (st_resume s co)).
Proof. exact drive_resume_susp_step. Qed.
Print Assumptions drive_resume_suspended.

Theorem drive_yield : forall n conts who kr w rest vs s k c,
  cur s = Some c ->
  drive (S n) conts ((who, kr, w) :: rest) (Eff (EYield vs) s k) =
  drive n ((c, k) :: conts) rest (kr (RVals (if w then vs else VBool true :: vs)) (st_yield s c who)).
Proof. exact drive_yield_step. Qed.
Print Assumptions drive_yield.

(* whole runs: with guarded computations the driver never reaches a stuck configuration *)
Theorem status_automaton_never_stuck :
  (forall m fr f args s, guarded s (call m fr f args s)) ->
  forall n conts stack r s0,
  co_wf s0 (whos stack) -> conts_ok s0 conts -> stack_ok stack -> guarded s0 r ->
  ~ stuck (drive n conts stack r).
Proof. exact drive_never_stuck_lemma. Qed.
Print Assumptions status_automaton_never_stuck.

(* ... and every computation of the evaluator IS guarded (induction over the whole evaluator), so
   the statement holds outright: for every program, deviation setting and fuel *)
Theorem evaluator_calls_guarded : forall m fr f args s, guarded s (call m fr f args s).
Proof. exact call_guarded_lemma. Qed.
Print Assumptions evaluator_calls_guarded.

Theorem status_automaton : forall fuel d body, ~ stuck (run_program fuel d body).
Proof. exact run_never_stuck_final_lemma. Qed.
Print Assumptions status_automaton.

Theorem status_automaton_any_configuration : forall n conts stack r s0,
  co_wf s0 (whos stack) -> conts_ok s0 conts -> stack_ok stack -> guarded s0 r ->
  ~ stuck (drive n conts stack r).
Proof. exact drive_never_stuck_final_lemma. Qed.
Print Assumptions status_automaton_any_configuration.

(* between driver steps the evaluator never changes who is running and only appends coroutines *)
Theorem evaluator_respects_co_frame : forall n cx ln en e s v s',
  eval_e n cx ln en e s = Ret v s' -> co_frame s s'.
Proof. exact eval_co_frame_lemma. Qed.
Print Assumptions evaluator_respects_co_frame.

(* ---- a dead, running or normal coroutine is never resumed: (false, msg), nothing changes ---- *)
Theorem resume_dead_no_effect : forall n fr r rest s,
  status s r = CoDead -> builtin_call (S n) fr BCoResume (VCo r :: rest) s = Ret [VBool false; VFault 8 0] s.
Proof. exact resume_dead_no_effect_lemma. Qed.
Print Assumptions resume_dead_no_effect.

Theorem resume_nonsuspended_no_effect : forall n fr r rest s,
  status s r = CoRun \/ status s r = CoNorm ->
  builtin_call (S n) fr BCoResume (VCo r :: rest) s = Ret [VBool false; VFault 9 0] s.
Proof. exact resume_nonsuspended_no_effect_lemma. Qed.
Print Assumptions resume_nonsuspended_no_effect.

Theorem resume_chain_no_effect : forall n fr r rest s ws,
  co_wf s ws -> In (Some r) (cur s :: ws) ->
  builtin_call (S n) fr BCoResume (VCo r :: rest) s = Ret [VBool false; VFault 9 0] s.
Proof. exact resume_chain_no_effect_lemma. Qed.
Print Assumptions resume_chain_no_effect.

Theorem wrapped_dead_no_effect : forall n fr r args s,
  status s r = CoDead -> builtin_call (S n) fr (BWrapped r) args s = Err (VFault 8 0) s.
Proof. exact wrapped_dead_no_effect_lemma. Qed.
Print Assumptions wrapped_dead_no_effect.

Theorem wrapped_nonsuspended_no_effect : forall n fr r args s,
  status s r = CoRun \/ status s r = CoNorm -> builtin_call (S n) fr (BWrapped r) args s = Err (VFault 9 0) s.
Proof. exact wrapped_nonsuspended_no_effect_lemma. Qed.
Print Assumptions wrapped_nonsuspended_no_effect.

Theorem yield_outside_coroutine : forall n fr args s,
  cur s = None -> builtin_call (S n) fr BCoYield args s = Err (VFault 10 0) s.
Proof. exact yield_outside_lemma. Qed.
Print Assumptions yield_outside_coroutine.

(* ---- transfer_values ---- *)
Theorem transfer_first_resume : forall n m fr conts stack r rest s f,
  status s r = CoInit f ->
  drive (S n) conts stack (builtin_call (S m) fr BCoResume (VCo r :: rest) s) =
  drive n conts ((cur s, resume_k, false) :: stack) (call n [(None, None)] f rest (st_resume s r)).
Proof. exact transfer_first_resume_lemma. Qed.
Print Assumptions transfer_first_resume.

Theorem transfer_resume_to_yield : forall n m fr conts stack r rest s rest_conts,
  status s r = CoSusp -> conts = (r, resume_k) :: rest_conts ->
  drive (S n) conts stack (builtin_call (S m) fr BCoResume (VCo r :: rest) s) =
  drive n conts ((cur s, resume_k, false) :: stack) (Ret rest (st_resume s r)).
Proof. exact transfer_resume_to_yield_lemma. Qed.
Print Assumptions transfer_resume_to_yield.

Theorem transfer_yield_to_resume : forall n m fr conts who rest vs s c,
  cur s = Some c ->
  drive (S n) conts ((who, resume_k, false) :: rest) (builtin_call (S m) fr BCoYield vs s) =
  drive n ((c, resume_k) :: conts) rest (Ret (VBool true :: vs) (st_yield s c who)).
Proof. exact transfer_yield_to_resume_lemma. Qed.
Print Assumptions transfer_yield_to_resume.

Theorem transfer_return_to_resume : forall n conts who rest vs s,
  drive (S n) conts ((who, resume_k, false) :: rest) (Ret vs s) =
  drive n conts rest (Ret (VBool true :: vs) (st_finish s who)).
Proof. exact transfer_return_to_resume_lemma. Qed.
Print Assumptions transfer_return_to_resume.

Theorem transfer_return_to_wrap : forall n conts who k rest vs s,
  drive (S n) conts ((who, k, true) :: rest) (Ret vs s) = drive n conts rest (k (RVals vs) (st_finish s who)).
Proof. exact transfer_return_to_wrap_lemma. Qed.
Print Assumptions transfer_return_to_wrap.

(* ---- error_kills_only_that ---- *)
Theorem error_kills_only_that : forall n conts who rest v s c ws,
  co_wf s (who :: ws) -> cur s = Some c ->
  drive (S n) conts ((who, resume_k, false) :: rest) (Err v s) =
    drive n conts rest (Ret [VBool false; v] (st_finish s who)) /\
  (forall k, drive (S n) conts ((who, k, true) :: rest) (Err v s) = drive n conts rest (k (RErr v) (st_finish s who))) /\
  status (st_finish s who) c = CoDead /\
  (forall i, i <> c -> Some i <> who -> status (st_finish s who) i = status s i) /\
  (forall w, who = Some w -> status (st_finish s who) w = CoRun /\ status s w = CoNorm) /\
  cur (st_finish s who) = who /\
  cells (st_finish s who) = cells s /\ tabs (st_finish s who) = tabs s /\ clos (st_finish s who) = clos s /\
  uds (st_finish s who) = uds s /\ trace (st_finish s who) = trace s /\
  strmt (st_finish s who) = strmt s /\ dv (st_finish s who) = dv s /\
  co_wf (st_finish s who) ws.
Proof. exact error_kills_only_that_lemma. Qed.
Print Assumptions error_kills_only_that.

(* ---- M-VM (bytecode-machine model, coq/VMX): the thread switch keeps every thread's own
   registers, frames and open-upvalue list ---- *)
From GL Require VMX.Machine VMX.ThreadFacts.

Theorem vm_switch_keeps_threads : forall s t u,
  ThreadFacts.th_valid s (Machine.vcur s) ->
  Machine.get_thread (Machine.switch_to t s) u = Machine.get_thread s u.
Proof. exact ThreadFacts.switch_keeps_threads. Qed.
Print Assumptions vm_switch_keeps_threads.

Theorem vm_switch_loads_target : forall s t,
  ThreadFacts.th_valid s (Machine.vcur s) ->
  Machine.vcur (Machine.switch_to t s) = t /\
  Machine.vreg (Machine.switch_to t s) = Machine.th_reg (Machine.get_thread s t) /\
  Machine.vstack (Machine.switch_to t s) = Machine.th_stack (Machine.get_thread s t) /\
  Machine.vuvcache (Machine.switch_to t s) = Machine.th_uvcache (Machine.get_thread s t).
Proof. exact ThreadFacts.switch_loads_target. Qed.
Print Assumptions vm_switch_loads_target.

Theorem vm_switch_roundtrip : forall s t,
  ThreadFacts.th_valid s (Machine.vcur s) -> ThreadFacts.th_valid s t ->
  let s' := Machine.switch_to (Machine.vcur s) (Machine.switch_to t s) in
  Machine.vreg s' = Machine.vreg s /\ Machine.vstack s' = Machine.vstack s /\
  Machine.vuvcache s' = Machine.vuvcache s /\ Machine.vcur s' = Machine.vcur s /\
  Machine.vuvs s' = Machine.vuvs s /\ Machine.vclos s' = Machine.vclos s /\
  Machine.vtabs s' = Machine.vtabs s /\ Machine.vtrace s' = Machine.vtrace s /\
  (forall u, Machine.get_thread s' u = Machine.get_thread s u).
Proof. exact ThreadFacts.switch_roundtrip. Qed.
Print Assumptions vm_switch_roundtrip.

Theorem vm_set_thread_other : forall s t th u, u <> t ->
  Machine.get_thread (Machine.set_thread s t th) u = Machine.get_thread s u.
Proof. exact ThreadFacts.set_thread_other. Qed.
Print Assumptions vm_set_thread_other.

Theorem vm_set_thread_same : forall s t th, ThreadFacts.th_valid s t ->
  Machine.get_thread (Machine.set_thread s t th) t = th.
Proof. exact ThreadFacts.set_thread_same. Qed.
Print Assumptions vm_set_thread_same.

(* ---- wave 5: the hand-over of values to the resumer at the limit of its registers, after ANY
   history of that thread (coq/Co/HandoverHist.v on top of the registry model coq/Stack/Registry.v
   and the transcription of switchToParentThread coq/Stack/Handover.v) ---- *)
From GL Require Stack.Registry Stack.RegSpec Stack.Handover Co.HandoverHist Co.HandoverHistFacts.

(* From NewState on, through any sequence of pushes, SetTops and caught errors (raiseError's message
   may make the array one cell longer than the limit; the limit itself never moves except by regular
   growth), the values a coroutine yields or returns — with resume's boolean — either ALL arrive on
   top of what the resumer holds, or NONE does and the resumer's registry is exactly as it was when
   the overflow error is raised in it. Never a part of them (HoTorn), whatever the history. *)
Theorem handover_complete_or_refused_after_any_history : forall init grow mx p c lc limc wrapped flag nargs,
  0 <= init -> 0 <= grow \/ mx <= init ->
  HandoverHist.history (Registry.newRegistry init grow mx) p -> RegSpec.Rr c lc limc -> 0 <= nargs <= len lc ->
  let vs := Handover.handed wrapped flag (Handover.lastn nargs lc) in
  let lim := Z.max init mx in
  (Registry.top p + len vs <= lim /\
     exists p' c', Handover.handover p c wrapped flag nargs = Handover.HoDone p' c' /\
                   Registry.live p' = Registry.live p ++ vs /\ Registry.top p' = Registry.top p + len vs) \/
  (lim < Registry.top p + len vs /\
     exists c', Handover.handover p c wrapped flag nargs = Handover.HoRefused p c').
Proof. exact HandoverHistFacts.handover_after_history_lemma. Qed.
Print Assumptions handover_complete_or_refused_after_any_history.

(* every step of such a history keeps the enforced limit: the representation relation holds with the
   same limit before and after *)
Theorem history_keeps_limit : forall r r', HandoverHist.history r r' ->
  forall l lim, RegSpec.Rr r l lim -> exists l', RegSpec.Rr r' l' lim.
Proof. exact HandoverHistFacts.history_Rr. Qed.
Print Assumptions history_keeps_limit.

(* the room check must read the limit, not the length of the array (seeded change C06-10): once the
   array is one cell longer than the limit, the hand-over that needs exactly limit + 1 cells is torn *)
Theorem handover_len_check_torn : forall p c l lc lim limc wrapped flag nargs,
  RegSpec.Rr p l lim -> RegSpec.Rr c lc limc -> 0 <= nargs <= len lc ->
  Registry.cap p = lim + 1 ->
  len l + len (Handover.handed wrapped flag (Handover.lastn nargs lc)) = lim + 1 ->
  HandoverHist.handover_len p c wrapped flag nargs = Handover.HoTorn.
Proof. exact HandoverHistFacts.handover_len_torn_lemma. Qed.
Print Assumptions handover_len_check_torn.
