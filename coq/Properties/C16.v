(* C16 — property theorems only: statement, `exact <lemma>`, Print Assumptions. *)
From GL Require Import Common.Bytes Text.Quote Text.StrLit Text.NumRead Text.NumText Text.Date
  Text.QuoteFacts Text.StrLitFacts Text.NumFacts Text.NumLexFacts Text.NumTextFacts Text.DateFacts Text.RoundFacts Text.CalFacts Text.Legacy Text.LegacyFacts Text.NumTokFacts Text.Reader Text.ReaderFacts.

(* ---- %q ---- *)
(* what string.format('%q', s) must produce reads back through the lexer as s, for every byte string *)
Theorem quote_roundtrip : forall bs, is_bytes bs = true -> lex_string (lua_quote bs) = Some bs.
Proof. exact quote_roundtrip_lemma. Qed.
Print Assumptions quote_roundtrip.

(* ... also when other text follows the literal *)
Theorem quote_token : forall bs rest, is_bytes bs = true -> scan_string_token (lua_quote bs ++ rest) = Ok (bs, rest).
Proof. exact quote_token_lemma. Qed.
Print Assumptions quote_token.

(* the transcription of luaQuote (value.go) is the specified quoting, so the round trip holds of it *)
Theorem format_q_is_lua_quote : forall s, go_lua_quote s = lua_quote s.
Proof. exact go_lua_quote_spec_lemma. Qed.
Print Assumptions format_q_is_lua_quote.

Theorem format_q_roundtrip : forall bs, is_bytes bs = true -> lex_string (go_lua_quote bs) = Some bs.
Proof. exact format_q_roundtrip_lemma. Qed.
Print Assumptions format_q_roundtrip.

(* Go's strconv.Quote (the behaviour before the fix) does not read back: witness the zero byte *)
Theorem go_quote_refuted : exists bs, is_bytes bs = true /\ lex_string (strconv_quote_ascii bs) <> Some bs.
Proof. exact go_quote_refuted_lemma. Qed.
Print Assumptions go_quote_refuted.

(* ---- string literals ---- *)
(* a short string written with raw bytes, backslash escapes, 1-3 digit decimal escapes and
   backslash-line-breaks (all four forms) is one token denoting exactly the intended bytes *)
Theorem short_string_denotes : forall q its rest, (q = 34 \/ q = 39) -> wf_items q its = true ->
  scan_string_token (q :: render_items its ++ q :: rest) = Ok (denote_items its, rest).
Proof. exact short_string_denotes_lemma. Qed.
Print Assumptions short_string_denotes.

(* a long bracket of any level around any body that does not contain its own closer denotes the
   body without a leading line break and with every CR, LF, CRLF, LFCR turned into LF *)
Theorem long_bracket_denotes : forall lvl body rest, is_bytes body = true -> no_closer lvl body = true ->
  scan_string_token (long_open lvl ++ body ++ long_close lvl ++ rest) = Ok (long_denotes body, rest).
Proof. exact long_bracket_denotes_lemma. Qed.
Print Assumptions long_bracket_denotes.

(* ---- numbers as text ---- *)
(* the decimal text of any integer is read back by parseNumber as exactly that integer *)
Theorem int_print_parse : forall z, parse_exact (print_int z) = Some (z, 0).
Proof. exact int_print_parse_lemma. Qed.
Print Assumptions int_print_parse.

(* an integral float inside the int64 range (in particular below 2^53) prints as an optional minus
   sign and decimal digits: no exponent, no fraction *)
Theorem integral_no_exponent : forall fmt x z, int_of_fval x = Some z -> - 2 ^ 63 <= z < 2 ^ 63 ->
  lnumber_string fmt x = print_int z /\ plain_int (lnumber_string fmt x).
Proof. exact integral_no_exponent_lemma. Qed.
Print Assumptions integral_no_exponent.

(* tonumber(tostring(x)) = x for every finite x, given what strconv guarantees: an integer that is a
   binary64 value parses to it, and Sprint of the other values parses back *)
Theorem tostring_tonumber : forall (rnd : Z -> Z -> fval) (fmt : fval -> bytes),
  (forall x z, is_canon x = true -> int_of_fval x = Some z -> rnd z 0 = x) ->
  (forall x, is_finite x = true -> is_canon x = true -> is_integer x = false -> parse_number rnd (fmt x) = Some x) ->
  forall x, is_finite x = true -> is_canon x = true -> tonumber_f rnd (lnumber_string fmt x) None = Some x.
Proof. exact tostring_tonumber_lemma. Qed.
Print Assumptions tostring_tonumber.

(* the concrete correctly-rounding reader the case evaluator compares with strconv.ParseFloat meets the
   first hypothesis, so for integral values the round trip needs no oracle *)
Theorem round_dec_int_exact : forall x z, is_canon x = true -> in_binary64 x ->
  int_of_fval x = Some z -> round_dec z 0 = x.
Proof. exact round_dec_int_exact_lemma. Qed.
Print Assumptions round_dec_int_exact.

Theorem tostring_tonumber_integral : forall fmt x, is_canon x = true -> in_binary64 x -> is_integer x = true ->
  tonumber_f round_dec (lnumber_string fmt x) None = Some x.
Proof. exact tostring_tonumber_integral_lemma. Qed.
Print Assumptions tostring_tonumber_integral.

(* ---- numeral readers ---- *)
(* the acceptor shared by parseNumber and the lexer accepts exactly the decimal numerals of the
   grammar, with the value the spelling denotes; same for 0x numerals *)
Theorem dec_numeral_iff : forall u m e, DecNumeral u m e <-> (numeral_kind u = KDec /\ dec_exact u = (m, e)).
Proof. exact dec_numeral_iff_lemma. Qed.
Print Assumptions dec_numeral_iff.

Theorem hex_numeral_iff : forall u m, HexNumeral u m <-> (numeral_kind u = KHex /\ hex_val (skipn 2 u) = m).
Proof. exact hex_numeral_iff_lemma. Qed.
Print Assumptions hex_numeral_iff.

(* tonumber with an explicit base 2..36: base 10 is the general reader; any other base reads an
   optionally signed integer in that base (base 16: optional 0x), blanks around, of any size, and
   nothing else *)
Theorem tonumber_base_spec : forall b s v, 2 <= b <= 36 ->
  (tonumber s (Some b) = Some v <->
   if b =? 10 then Numeral s (fst v) (snd v)
   else exists z, v = (z, 0) /\ RadixNumeral b s z).
Proof. exact tonumber_base_spec_lemma. Qed.
Print Assumptions tonumber_base_spec.

(* tonumber, arithmetic coercion and the lexer accept exactly the numerals of the grammar (the lexer:
   the unsigned ones), with the same value, and reject everything else; the lexer never yields NaN *)
Theorem readers_agree : forall s m e,
  (tonumber s None = Some (m, e) <-> Numeral s m e) /\
  (coerce s = Some (m, e) <-> Numeral s m e) /\
  (lex_numeral s = LNVal m e <-> Unsigned s m e) /\
  lex_numeral s <> LNNaN.
Proof. exact readers_agree_lemma. Qed.
Print Assumptions readers_agree.

Theorem readers_same_value : forall s m e, Unsigned s m e ->
  tonumber s None = Some (m, e) /\ coerce s = Some (m, e) /\ lex_numeral s = LNVal m e.
Proof. exact readers_same_value_lemma. Qed.
Print Assumptions readers_same_value.

(* in running text the number token is exactly the numeral when what follows cannot continue one
   (not a letter, digit, underscore, dot): 0x1e+1 is the token 0x1e, then + *)
Theorem number_token_extent : forall ch r m e rest, Unsigned (ch :: r) m e -> ends_here rest ->
  scan_number ch (r ++ rest) = Some (ch :: r, rest).
Proof. exact number_token_extent_lemma. Qed.
Print Assumptions number_token_extent.

(* the readers as they were before the fix: commits (record; Text/Legacy.v is tied to no code): the
   witnesses of DESIGN 9.1 C16-1..3 on which readers_agree failed *)
Theorem legacy_coerce_refuted :
  legacy_coerce_int [48;48;49;48] = Some 8 /\ parse_exact [48;48;49;48] = Some (10, 0) /\
  legacy_coerce_int [48;98;49;49] = Some 3 /\ parse_exact [48;98;49;49] = None /\
  legacy_coerce_int [48;111;49;55] = Some 15 /\ parse_exact [48;111;49;55] = None.
Proof. exact legacy_coerce_refuted_lemma. Qed.
Print Assumptions legacy_coerce_refuted.

Theorem legacy_tonumber_refuted :
  legacy_tonumber_nodot [49;101;50] = None /\ parse_exact [49;101;50] = Some (1, 2).
Proof. exact legacy_tonumber_refuted_lemma. Qed.
Print Assumptions legacy_tonumber_refuted.

Theorem legacy_lexer_refuted :
  legacy_lex_digits [48;48;49;50] = Some 10 /\ lex_numeral [48;48;49;50] = LNVal 12 0 /\
  legacy_lex_digits [48;48;49;48] = Some 8 /\ lex_numeral [48;48;49;48] = LNVal 10 0 /\
  legacy_lex_digits [48;48;57;57] = None.
Proof. exact legacy_lexer_refuted_lemma. Qed.
Print Assumptions legacy_lexer_refuted.

(* ---- the reader under the literals ---- *)
(* Scanner.Next (with Newline's look-ahead for the partner of a two-byte line end) over the buffered
   reader returns the same character and leaves the same bytes unread as the flat reader `next` that
   the literal theorems above are stated with - whatever is buffered and however the rest will be
   delivered (a pair split between two fills, one byte per Read, empty Reads in between) *)
Theorem reader_next_flat : forall r, next (flat r) = (fst (next_rd r), flat (snd (next_rd r))).
Proof. exact next_rd_flat_lemma. Qed.
Print Assumptions reader_next_flat.

Theorem reader_peek_flat : forall r, fst (peek_rd r) = peek (flat r) /\ flat (snd (peek_rd r)) = flat r.
Proof. exact peek_rd_flat. Qed.
Print Assumptions reader_peek_flat.

(* so two deliveries of the same bytes are read as the same characters, to any length *)
Theorem reader_delivery_independent : forall segs1 segs2, concat segs1 = concat segs2 ->
  forall n, chars_rd n (mkRd [] segs1) = chars_rd n (mkRd [] segs2).
Proof. exact delivery_independent_lemma. Qed.
Print Assumptions reader_delivery_independent.

(* ---- dates ---- *)
(* in a zone where time.Date inverts the broken-down time, os.time(os.date('*t', t)) = t *)
Theorem time_date_roundtrip : forall (to_civil : Z -> civil) (of_civil : Z -> Z -> Z -> Z -> Z -> Z -> Z),
  (forall t, let c := to_civil t in
     of_civil (c_year c) (c_month c) (c_day c) (c_hour c) (c_min c) (c_sec c) = t) ->
  forall t, os_time of_civil (os_date_t to_civil t) = Some t.
Proof. exact time_date_roundtrip_lemma. Qed.
Print Assumptions time_date_roundtrip.

(* the proleptic Gregorian calendar in UTC (the one the case evaluator compares with Go's time package)
   meets that hypothesis for every whole second, so there the round trip holds outright *)
Theorem civil_inverse : forall t, let c := civil_of_unix t in
  unix_of_civil (c_year c) (c_month c) (c_day c) (c_hour c) (c_min c) (c_sec c) = t.
Proof. exact civil_inverse_lemma. Qed.
Print Assumptions civil_inverse.

Theorem time_date_roundtrip_gregorian : forall t, os_time unix_of_civil (os_date_t civil_of_unix t) = Some t.
Proof. exact time_date_roundtrip_gregorian_lemma. Qed.
Print Assumptions time_date_roundtrip_gregorian.

(* every format string is rendered piece by piece: %% a percent sign, %<c> the conversion c, any other
   byte itself *)
Theorem strftime_by_pieces : forall c fmt, strftime c fmt = flat_map (render_piece c) (parse_fmt fmt).
Proof. exact strftime_parse_lemma. Qed.
Print Assumptions strftime_by_pieces.

(* each supported conversion renders what C's strftime renders from the same broken-down fields *)
Theorem strftime_fields : forall c d b, c_conv d c = Some b -> strftime c [37; d] = b.
Proof. exact strftime_fields_lemma. Qed.
Print Assumptions strftime_fields.
