(* C18 — property theorems only: statement, `exact <lemma>`, Print Assumptions.
   Hypotheses shared by the list theorems: the array part fits ([bounded], len(arr)+1 < mai, see
   known finding C09-2) and the table is a list of n elements ([is_list]: non-nil exactly at 1..n
   among the positive integer keys; trailing nil cells in the array part are allowed). *)
From GL Require Import Common.Bytes Table.TImpl Table.TSpec Table.TInv Table.TLib Table.TLibFacts Table.TLibNest Table.TLibNestFacts.
From Coq Require Import Permutation.

Theorem insert_pos_refines : forall mai t n pos v,
  bounded mai t -> len (arr t) + 1 < mai -> is_list (RawGet mai t) n ->
  1 <= pos <= n + 1 -> v <> VNil ->
  let t' := tableInsert3 mai t pos v in
  is_list (RawGet mai t') (n + 1) /\
  view (RawGet mai t') (n + 1) = insert_at pos v (view (RawGet mai t) n) /\
  (forall k, not_pos_int k -> RawGet mai t' k = RawGet mai t k) /\
  bounded mai t'.
Proof. exact insert_pos_refines_lemma. Qed.
Print Assumptions insert_pos_refines.

Theorem append_refines : forall mai t n v,
  bounded mai t -> len (arr t) + 1 < mai -> is_list (RawGet mai t) n -> v <> VNil ->
  let t' := tableInsert2 t v in
  is_list (RawGet mai t') (n + 1) /\
  view (RawGet mai t') (n + 1) = view (RawGet mai t) n ++ [v] /\
  (forall k, not_pos_int k -> RawGet mai t' k = RawGet mai t k) /\
  bounded mai t'.
Proof. exact append_refines_lemma. Qed.
Print Assumptions append_refines.

Theorem remove_pos_refines : forall mai t n pos,
  bounded mai t -> len (arr t) + 1 < mai -> is_list (RawGet mai t) n -> 1 <= pos <= n ->
  let r := tableRemove2 t pos in
  fst r = Some (lnth (view (RawGet mai t) n) pos) /\
  is_list (RawGet mai (snd r)) (n - 1) /\
  view (RawGet mai (snd r)) (n - 1) = remove_at pos (view (RawGet mai t) n) /\
  (forall k, not_pos_int k -> RawGet mai (snd r) k = RawGet mai t k) /\
  bounded mai (snd r).
Proof. exact remove_pos_refines_lemma. Qed.
Print Assumptions remove_pos_refines.

(* direct assignments that keep the table a list *)
Theorem assign_refines : forall mai t n i v,
  bounded mai t -> is_list (RawGet mai t) n ->
  let t' := RawSet mai t (KInt i) v in
  bounded mai t' /\
  (i = n + 1 -> v <> VNil ->
     is_list (RawGet mai t') (n + 1) /\ view (RawGet mai t') (n + 1) = view (RawGet mai t) n ++ [v]) /\
  (1 <= i <= n -> v <> VNil ->
     is_list (RawGet mai t') n /\ view (RawGet mai t') n = upd (view (RawGet mai t) n) (Z.to_nat (i - 1)) v) /\
  (i = n -> 1 <= n -> v = VNil ->
     is_list (RawGet mai t') (n - 1) /\ view (RawGet mai t') (n - 1) = firstn (Z.to_nat (n - 1)) (view (RawGet mai t) n)).
Proof. exact assign_refines_lemma. Qed.
Print Assumptions assign_refines.

(* table.remove(t) is table.remove(t, #t) (was refuted before fix 5ada882: C18-1) *)
Theorem remove_default_refines : forall mai t n,
  bounded mai t -> len (arr t) + 1 < mai -> is_list (RawGet mai t) n ->
  tableRemove1 t = tableRemove2 t n.
Proof. exact remove_default_refines_lemma. Qed.
Print Assumptions remove_default_refines.

(* a position outside 1..n, in particular any table.remove on the empty list, removes nothing
   and returns no value (Lua 5.1 tremove; was different before fix 5e1cfe4) *)
Theorem remove_outside : forall mai t n opos,
  bounded mai t -> len (arr t) + 1 < mai -> is_list (RawGet mai t) n ->
  optz opos n < 1 \/ n < optz opos n ->
  tableRemove t opos = (None, t).
Proof. exact remove_outside_lemma. Qed.
Print Assumptions remove_outside.

(* getn is n; maxn (the largest positive numeric key of the whole table, fix ef2c8e3) is n when
   the hash part holds no numeric key above n *)
Theorem getn_maxn : forall mai t n,
  bounded mai t -> len (arr t) + 1 < mai -> is_list (RawGet mai t) n ->
  (forall k, In k (map fst (dict t)) -> num_ltb (KInt n) k = false) ->
  tableGetN t = n /\ tableMaxN t = KInt n.
Proof. exact getn_maxn_lemma. Qed.
Print Assumptions getn_maxn.

Theorem unpack_refines : forall mai t n oi oj,
  bounded mai t -> len (arr t) + 1 < mai -> is_list (RawGet mai t) n -> 1 <= optz oi 1 ->
  baseUnpack mai t oi oj = unpack_spec (view (RawGet mai t) n) (optz oi 1) (optz oj n).
Proof. exact unpack_refines_lemma. Qed.
Print Assumptions unpack_refines.

Theorem concat_refines : forall mai t n sep oi oj,
  bounded mai t -> len (arr t) + 1 < mai -> is_list (RawGet mai t) n ->
  1 <= optz oi 1 ->
  tableConcat mai t sep oi oj = concat_spec (view (RawGet mai t) n) sep (optz oi 1) (optz oj n).
Proof. exact concat_refines_lemma. Qed.
Print Assumptions concat_refines.

(* table.sort hands sort.Sort exactly t[1..#t] (was refuted before fix 94216bd: C18-2) ... *)
Theorem sort_uses_list_range : forall mai t n,
  bounded mai t -> len (arr t) + 1 < mai -> is_list (RawGet mai t) n ->
  firstn (Z.to_nat (Len t)) (arr t) = view (RawGet mai t) n.
Proof. exact firstn_view. Qed.
Print Assumptions sort_uses_list_range.

(* ... and whatever permutation of it the sorting routine leaves is the new list *)
Theorem sort_range : forall mai t n final,
  bounded mai t -> len (arr t) + 1 < mai -> is_list (RawGet mai t) n ->
  Permutation final (view (RawGet mai t) n) ->
  let t' := tableSort_with t final in
  is_list (RawGet mai t') n /\ view (RawGet mai t') n = final /\
  (forall k, not_pos_int k -> RawGet mai t' k = RawGet mai t k).
Proof. exact sort_range_lemma. Qed.
Print Assumptions sort_range.

(* table.sort: for any behaviour of the sorting routine that only issues Less(i,j)/Swap(i,j)
   with i,j < Len(), and any comparator (it sees the call count and the two values; it may fail
   at any call: the run stops there), the array is a permutation of the original one and every
   comparator call received two of its elements *)
Theorem sort_permutation : forall lt a evs a' calls raised,
  forallb (ev_in_range (len a)) evs = true ->
  sort_run lt a evs [] = (a', calls, raised) ->
  Permutation a' a /\ Forall (fun c => In (fst c) a /\ In (snd c) a) calls.
Proof. exact sort_permutation_lemma. Qed.
Print Assumptions sort_permutation.

(* the same for a comparator with side effects: it is a state transformer over a world W of
   anything but the array being sorted (other tables, counters, the Lua state) *)
Theorem sort_permutation_stateful : forall (W : Type) (lt : wcmp W) w a evs w' a' calls raised,
  forallb (ev_in_range (len a)) evs = true ->
  sort_run_w lt w a evs [] = (w', (a', calls, raised)) ->
  Permutation a' a /\ Forall (fun c => In (fst c) a /\ In (snd c) a) calls.
Proof. exact (@sort_permutation_w_lemma). Qed.
Print Assumptions sort_permutation_stateful.

(* table.sort is re-entrant: when the comparator of an outer sort runs table.sort on another list
   (w) at each of its calls (any in-range behaviour of the routine there, any inner comparator),
   both lists end as permutations of themselves, the outer comparator saw only elements of the
   outer list, and - unless a comparator failed - the outer run is exactly the run with the plain
   comparator olt: the nested sorts do not disturb it *)
Theorem sort_reentrant : forall ievs ilt olt w a evs w' a' calls raised,
  forallb (ev_in_range (len a)) evs = true ->
  (forall k (w0 : list value), len w0 = len w -> forallb (ev_in_range (len w0)) (ievs k) = true) ->
  sort_run_w (nesting_cmp ievs ilt olt) w a evs [] = (w', (a', calls, raised)) ->
  Permutation w' w /\ Permutation a' a /\
  Forall (fun c => In (fst c) a /\ In (snd c) a) calls /\
  (raised = false -> sort_run olt a evs [] = (a', calls, false)).
Proof. exact sort_reentrant_lemma. Qed.
Print Assumptions sort_reentrant.

(* NOT proved (oracle, tested on every generated sort by check_spec): Go's sort.Sort, seen as a
   function from the comparator and the array to the Less/Swap calls it issues, stays in range
   and ends sorted when the comparator is a strict weak order. *)
Definition sort_sorted_oracle (sorter : (value -> value -> bool) -> list value -> list sev) : Prop :=
  forall lt a,
    (forall x, lt x x = false) ->
    (forall x y z, lt x y = true -> lt y z = true -> lt x z = true) ->
    (forall x y z, lt x y = false -> lt y z = false -> lt x z = false) ->
    forallb (ev_in_range (len a)) (sorter lt a) = true /\
    sorted_by (fun x y => Some (lt x y))
              (fst (fst (sort_run (fun _ x y => Some (lt x y)) a (sorter lt a) []))) = true.
