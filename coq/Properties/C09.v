(* C09 — property theorems only: statement, `exact <lemma>`, Print Assumptions.
   mai = MaxArrayIndex (config.go); the model is parametric in it. *)
From GL Require Import Common.Bytes Table.TImpl Table.TSpec Table.TInv Table.TRefine Table.TGet Table.TNext Table.TLib Table.TNextR.

(* (1) the representation invariant holds after every history (hash-part setter used with
   hash-part keys, positions given to Remove >= 1: [op_ok]) *)
Theorem inv_reachable : forall mai h, forallb (op_ok mai) h = true -> TInv mai (run mai h).
Proof. exact inv_reachable_lemma. Qed.
Print Assumptions inv_reachable.

(* (2) after every history, RawGet of any key = lookup in the finite map obtained by replaying
   the history on the specification (last write wins, nil deletes, keys compared by Lua equality,
   Append/Insert/Remove with the list semantics of the manual) *)
Theorem get_refines : forall mai h k,
  ok_from mai empty h -> RawGet mai (run mai h) k = sget (srun mai h) k.
Proof. exact get_refines_lemma. Qed.
Print Assumptions get_refines.

(* one store seen through a read: the stored value under an equal key, every other key untouched;
   v = VNil deletes; KInt 1 is the key of 1 and 1.0; KStr and KInt are never equal *)
Theorem store_load : forall mai t k v k',
  RawGet mai (RawSet mai t k v) k' = if key_eqb k' k then v else RawGet mai t k'.
Proof. exact store_load_lemma. Qed.
Print Assumptions store_load.

Theorem getint_getstring_agree : forall mai t i s,
  RawGetInt mai t i = RawGet mai t (KInt i) /\ RawGetString t s = RawGet mai t (KStr s).
Proof. exact getint_getstring_agree_lemma. Qed.
Print Assumptions getint_getstring_agree.

Theorem rawset_guard : forall mai t k v, k = LKNil \/ k = LKNaN -> LRawSet mai t k v = None.
Proof. exact rawset_guard_lemma. Qed.
Print Assumptions rawset_guard.

(* the state after every admissible history is well-formed: invariant + array part below
   MaxArrayIndex cells *)
Theorem wf_reachable : forall mai h, ok_from mai empty h -> WF mai (run mai h).
Proof. exact WF_run. Qed.
Print Assumptions wf_reachable.

(* (3) Len returns a border *)
Theorem len_border : forall mai t,
  bounded mai t -> len (arr t) + 1 < mai -> border (RawGet mai t) (Len t).
Proof. exact len_border_lemma. Qed.
Print Assumptions len_border.

Theorem maxn_spec : forall mai t,
  bounded mai t ->
  (MaxN t = 0 \/ RawGet mai t (KInt (MaxN t)) <> VNil) /\
  (forall z, is_array_key mai (KInt z) = true -> RawGet mai t (KInt z) <> VNil -> z <= MaxN t).
Proof. exact maxn_spec_lemma. Qed.
Print Assumptions maxn_spec.

(* (4) Next from nil: terminates within len(arr)+len(keys)+1 calls, visits each present key
   exactly once, each with its current value *)
Theorem next_complete : forall mai, 1 <= mai -> forall t,
  WF mai t ->
  exists L, walk mai t None (walk_fuel t) = Some L /\
            NoDup (map fst L) /\
            (forall k v, In (k, v) L <-> (RawGet mai t k = v /\ v <> VNil)).
Proof. exact next_complete_lemma. Qed.
Print Assumptions next_complete.

(* ipairs (RawGetInt from 1 upwards) yields t[1], t[2], ... and stops exactly at the first nil *)
Theorem ipairs_prefix : forall mai t fuel i,
  let L := ipairs_from mai t i fuel in
  (forall j, 0 <= j < len L -> nthv L j = RawGet mai t (KInt (i + j)) /\ nthv L j <> VNil) /\
  ((length L < fuel)%nat -> RawGet mai t (KInt (i + len L)) = VNil).
Proof. exact ipairs_prefix_lemma. Qed.
Print Assumptions ipairs_prefix.

(* each single Next call returns a present key with its current value *)
Theorem next_value : forall mai, 1 <= mai -> forall t cur k v,
  WF mai t -> cur_ok t cur -> Next mai t cur = NKV k v ->
  v = RawGet mai t k /\ v <> VNil.
Proof. exact next_value_lemma. Qed.
Print Assumptions next_value.

(* (5) traversal while existing fields are cleared or overwritten between the calls:
   no key is visited twice, at most len(arr)+len(keys) keys are visited (termination), and a
   traversal that ran to the end visited every key that was present throughout *)
Theorem next_under_update : forall mai, 1 <= mai -> forall fin t0 tr,
  WF mai t0 -> trav mai fin t0 None tr ->
  NoDup (map tkey tr) /\
  (length tr <= length (arr t0) + length (keys t0))%nat /\
  (fin = true ->
   forall k, RawGet mai t0 k <> VNil -> (forall e, In e tr -> RawGet mai (snd e) k <> VNil) ->
             In k (map tkey tr)).
Proof. exact next_under_update_lemma. Qed.
Print Assumptions next_under_update.

(* (5') the same when, between the Next calls, elements are also removed with table.remove
   (which only assigns existing fields; LTable shortens its array part — after fix 2ba8ccb the
   cursor is handed over to the hash part correctly): no key twice, termination bound, every
   reported value non-nil, and a finished traversal visited every key present at every Next call *)
Theorem next_under_remove : forall mai, 1 <= mai -> forall fin t0 tr,
  WF mai t0 -> len (arr t0) < mai -> travx mai fin t0 None tr ->
  NoDup (map tkey tr) /\
  (length tr <= length (arr t0) + length (keys t0))%nat /\
  (forall e, In e tr -> snd (fst e) <> VNil) /\
  (fin = true ->
   forall k, RawGet mai t0 k <> VNil -> (forall e, In e tr -> RawGet mai (snd e) k <> VNil) ->
             In k (map tkey tr)).
Proof. exact next_under_remove_lemma. Qed.
Print Assumptions next_under_remove.

(* ---- open known finding C09-2: the hypotheses `len (arr t) + 1 < mai` above are needed ---- *)
From GL Require Import Table.TFindings.

(* without it len_border fails: a well-formed reachable table whose Len is not a border *)
Theorem len_border_at_limit_refuted :
  exists mai h, ok_from mai empty h /\ WF mai (run mai h) /\ ~ border (RawGet mai (run mai h)) (Len (run mai h)).
Proof. exact len_border_at_limit_refuted_lemma. Qed.
Print Assumptions len_border_at_limit_refuted.

(* without the growth clause of ok_from, get_refines fails for Append *)
Theorem append_at_limit_refuted :
  exists mai h k, forallb (op_ok mai) h = true /\ RawGet mai (run mai h) k <> sget (srun mai h) k.
Proof. exact append_at_limit_refuted_lemma. Qed.
Print Assumptions append_at_limit_refuted.
