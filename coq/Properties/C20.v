(* C20 — property theorems only: statement, `exact <lemma>`, Print Assumptions.
   All statements are over arbitrary states (no reachability assumption) and arbitrary loader
   scripts / histories unless a hypothesis says otherwise. `require` is the transcription of
   baselib.go:loRequire with loadlib.go's loader chain; `run fuel s h` runs a history of host
   operations; `count_log n` counts invocations of loaders for module n. *)
From Coq Require Import List ZArith.
From GL Require Import Req.ReqModel Req.ReqFacts.
Import ListNotations.
Open Scope Z_scope.

(* ---- the implementation is the Lua 5.1 reference (ll_require, luaI_openlib) ---- *)
Theorem require_refines_51 : forall f s n, require f s n = require51 f s n.
Proof. exact require_refines_51_lemma. Qed.
Print Assumptions require_refines_51.

Theorem register_refines_51 : forall s n fs, register s n fs = register51 s n fs.
Proof. exact register_refines_51_lemma. Qed.
Print Assumptions register_refines_51.

Theorem run_refines_51 : forall fuel h s, run fuel s h = run51 fuel s h.
Proof. exact run_refines_51_lemma. Qed.
Print Assumptions run_refines_51.

(* ---- once / cached ---- *)
(* after a require of n that returned a non-false value, no history of host operations (with any
   nested loads) that does not assign package.loaded[n]=nil invokes a loader of n again *)
Theorem loader_once_while_succeeds : forall f s n s1 v fuel h,
  require f s n = (s1, Ok v) -> truthy v = true -> Forall (keeps_loaded n) h ->
  count_log n (log (fst (run fuel s1 h))) = count_log n (log s1).
Proof. exact loader_once_while_succeeds_lemma. Qed.
Print Assumptions loader_once_while_succeeds.

(* one load invokes the loader exactly once, whatever is nested in it *)
Theorem loader_once_per_load : forall f s n o k sc s' r,
  truthy (loaded s n) = false -> search loLoaders s n [] = inr (o, k, sc) -> guarded sc = true ->
  require (S f) s n = (s', r) -> count_log n (log s') = S (count_log n (log s)).
Proof. exact loader_once_per_load_lemma. Qed.
Print Assumptions loader_once_per_load.

(* ... and every later require returns the identical value, changing nothing *)
Theorem cached_identical : forall f s n s1 v fuel h f',
  require f s n = (s1, Ok v) -> truthy v = true -> Forall (keeps_value n v) h ->
  let s2 := fst (run fuel s1 h) in require (S f') s2 n = (s2, Ok v).
Proof. exact cached_identical_lemma. Qed.
Print Assumptions cached_identical.

(* what is returned is what is stored, and it is never the sentinel *)
Theorem require_returns_stored : forall f s n s' v,
  require f s n = (s', Ok v) -> loaded s' n = v /\ v <> VSent.
Proof. exact require_ok_loaded_lemma. Qed.
Print Assumptions require_returns_stored.

(* the loader returned nothing: `true` if it did not set package.loaded[n], else what it stored *)
Theorem returns_true_when_nothing : forall f s n o k sc s3,
  truthy (loaded s n) = false -> search loLoaders s n [] = inr (o, k, sc) ->
  run_script (require f) n (next s) k sc (enter (set_loaded s n VSent) n o) = (s3, Ok VNil) ->
  (loaded s3 n = VSent -> require (S f) s n = (set_loaded s3 n VTrue, Ok VTrue)) /\
  (loaded s3 n <> VSent -> require (S f) s n = (s3, Ok (loaded s3 n))).
Proof. exact returns_true_when_nothing_lemma. Qed.
Print Assumptions returns_true_when_nothing.

(* 5.1: a non-nil return value is stored and returned whatever the loader put in package.loaded
   (this is defect C20-1, repaired in /repo) *)
Theorem return_overrides_loaded : forall f s n o k sc s3 ret,
  truthy (loaded s n) = false -> search loLoaders s n [] = inr (o, k, sc) ->
  run_script (require f) n (next s) k sc (enter (set_loaded s n VSent) n o) = (s3, Ok ret) ->
  ret <> VNil ->
  require (S f) s n = (set_loaded s3 n ret, Ok ret).
Proof. exact return_overrides_loaded_req_lemma. Qed.
Print Assumptions return_overrides_loaded.

Theorem require_old_refuted :
  snd (require_old 2 c20_1_state 0) = Ok (VStr 0) /\ snd (require51 2 c20_1_state 0) = Ok (VStr 1).
Proof. exact require_old_refuted_lemma. Qed.
Print Assumptions require_old_refuted.

(* ---- preload first, then package.path in order ---- *)
Theorem preload_first : forall f s n l s' r,
  preload s n = Some l -> truthy (loaded s n) = false -> require (S f) s n = (s', r) ->
  exists l', log s' = l' ++ (n, OPre) :: log s.
Proof. exact preload_first_lemma. Qed.
Print Assumptions preload_first.

Theorem preload_first_everywhere : forall f s n s' r m o,
  require f s n = (s', r) -> In (m, o) (newlog s s') -> preload s m <> None -> o = OPre.
Proof. exact preload_first_everywhere_lemma. Qed.
Print Assumptions preload_first_everywhere.

Theorem path_order : forall f s n s' r m o,
  require f s n = (s', r) -> In (m, o) (newlog s s') -> preload s m = None ->
  exists d sc, o = OFile d /\ loFindFile (files s) m (path s) [] = inl (d, FScript sc).
Proof. exact path_order_lemma. Qed.
Print Assumptions path_order.

(* ---- loops ---- *)
Theorem loop_error_when_loading : forall f s n,
  loaded s n = VSent -> require (S f) s n = (s, Err (ELoop n)).
Proof. exact loop_error_when_loading_lemma. Qed.
Print Assumptions loop_error_when_loading.

(* a cycle n0 -> n1 -> ... -> nk -> n0 of any length (k = 0: n0 requires itself) *)
Theorem self_require_is_loop_error : forall s n0 r f,
  NoDup (n0 :: r) -> links s (n0 :: r) n0 ->
  (forall m, In m (n0 :: r) -> truthy (loaded s m) = false) ->
  (length (n0 :: r) < f)%nat ->
  exists s', require f s n0 = (s', Err (ELoop n0)) /\
             (forall m, In m (n0 :: r) -> loaded s' m = VSent) /\
             (forall m, ~ In m (n0 :: r) -> loaded s' m = loaded s m).
Proof. exact self_require_is_loop_error_lemma. Qed.
Print Assumptions self_require_is_loop_error.

(* the loader of n reaches `require n` on any thread of the state (t = TCo: inside coroutine.wrap /
   coroutine.resume / a host NewThread): still the loop error; `links` above likewise allows every
   link of a longer cycle to cross a coroutine boundary *)
Theorem loop_error_across_coroutines : forall t f s n o k rest,
  truthy (loaded s n) = false -> search loLoaders s n [] = inr (o, k, Require t n :: rest) ->
  exists s', require (S (S f)) s n = (s', Err (ELoop n)) /\ loaded s' n = VSent.
Proof. exact loop_across_coroutine_lemma. Qed.
Print Assumptions loop_error_across_coroutines.

(* moving every nested require of every installed loader to the loader's own thread changes neither
   the result nor the resulting state: package.loaded, the sentinel, package.preload belong to the
   Lua state, not to a thread *)
Theorem coroutine_boundary_is_transparent : forall f s n,
  require f (strip_state s) n = (strip_state (fst (require f s n)), snd (require f s n)).
Proof. exact require_thread_transparent_lemma. Qed.
Print Assumptions coroutine_boundary_is_transparent.

(* ---- a script assigns a new table to package.preload ---- *)
(* a registration made afterwards (PreloadModule or package.preload[n]=f) is what require runs,
   whatever the new table kept and whatever files exist *)
Theorem preload_after_rebind : forall fuel f s keep n l,
  truthy (loaded s n) = false ->
  let s1 := fst (run fuel s [HNewPreload keep; HSetPreload n (Some l)]) in
  preload s1 n = Some l /\
  forall s' r, require (S f) s1 n = (s', r) -> exists l', log s' = l' ++ (n, OPre) :: log s.
Proof. exact preload_after_rebind_lemma. Qed.
Print Assumptions preload_after_rebind.

(* entries not copied into the new table are gone (the path search decides), copied ones still win,
   and nothing that is cached is lost *)
Theorem rebind_drops_unkept : forall s keep n,
  memz n keep = false ->
  preload (new_preload s keep) n = None /\
  loLoaderPreload (new_preload s keep) n = SMsg [TPre n] /\
  loLoaderLua (new_preload s keep) n = loLoaderLua s n.
Proof. exact new_preload_dropped. Qed.
Print Assumptions rebind_drops_unkept.

Theorem rebind_keeps_kept : forall s keep n,
  memz n keep = true -> loLoaderPreload (new_preload s keep) n = loLoaderPreload s n.
Proof. exact new_preload_kept. Qed.
Print Assumptions rebind_keeps_kept.

Theorem rebind_keeps_cache : forall f s keep n,
  truthy (loaded s n) = true -> is_sent (loaded s n) = false ->
  require (S f) (new_preload s keep) n = (new_preload s keep, Ok (loaded s n)).
Proof. exact rebind_keeps_cache_lemma. Qed.
Print Assumptions rebind_keeps_cache.

(* ---- missing modules ---- *)
Theorem missing_lists_tried : forall f s n,
  truthy (loaded s n) = false -> preload s n = None ->
  (forall d, In d (path s) -> readable (files s d n) = false) ->
  require (S f) s n = (s, Err (ENotFound n (TPre n :: map (fun d => TPath d n) (path s)))).
Proof. exact missing_lists_tried_lemma. Qed.
Print Assumptions missing_lists_tried.

Theorem not_found_only_if_missing : forall s n m t,
  search loLoaders s n [] = inl (ENotFound m t) ->
  m = n /\ preload s n = None /\ (forall d, In d (path s) -> readable (files s d n) = false) /\
  t = TPre n :: map (fun d => TPath d n) (path s).
Proof. exact not_found_only_if_missing_lemma. Qed.
Print Assumptions not_found_only_if_missing.

Theorem search_failure_changes_nothing : forall f s n e,
  truthy (loaded s n) = false -> search loLoaders s n [] = inl e ->
  require (S f) s n = (s, Err e).
Proof. exact search_failure_changes_nothing_lemma. Qed.
Print Assumptions search_failure_changes_nothing.

(* ---- host registration ---- *)
Theorem host_modules_reachable : forall s n fs s' t,
  register s n fs = (s', Ok t) ->
  is_table t = true /\ loaded s' n = t /\
  (is_table (loaded s n) = false -> globals s' n = t) /\
  (forall f, In f fs -> has_func s' (tab_id t) f = true) /\
  (forall fuel, require (S fuel) s' n = (s', Ok t)).
Proof. exact host_modules_reachable_lemma. Qed.
Print Assumptions host_modules_reachable.

Theorem register_conflict : forall s n fs s' e,
  register s n fs = (s', Err e) ->
  e = EConflict n /\ s' = s /\ is_table (loaded s n) = false /\
  is_table (globals s n) = false /\ globals s n <> VNil.
Proof. exact register_conflict_lemma. Qed.
Print Assumptions register_conflict.

Theorem register_old_refuted :
  let s1 := fst (register_old init 3 [1]) in
  funcs_of (fst (register_old s1 3 [2])) (snd (register_old s1 3 [2])) = [1] /\
  let s1' := fst (register51 init 3 [1]) in
  funcs_of (fst (register51 s1' 3 [2])) (snd (register51 s1' 3 [2])) = [1; 2].
Proof. exact register_old_refuted_lemma. Qed.
Print Assumptions register_old_refuted.

(* PreloadModule / package.preload[n]=f: the entry is what require runs *)
Theorem preload_module_found : forall f s n k sc,
  truthy (loaded s n) = false ->
  let s1 := set_preload s n (Some (mkLoader k sc)) in
  forall s' r, require (S f) s1 n = (s', r) -> exists l', log s' = l' ++ (n, OPre) :: log s.
Proof. exact preload_module_found_lemma. Qed.
Print Assumptions preload_module_found.

(* ---- failures ---- *)
(* a loader that fails without having assigned package.loaded[n] leaves the sentinel (exactly as
   Lua 5.1's ll_require, by require_refines_51): every later require of n, after any history that
   does not assign package.loaded[n], is the loop error and runs nothing *)
Theorem failure_leaves_sentinel : forall f s n o k sc s1 e fuel h f',
  truthy (loaded s n) = false -> search loLoaders s n [] = inr (o, k, sc) ->
  existsb touches_loaded sc = false ->
  require (S f) s n = (s1, Err e) ->
  Forall (keeps_value n VSent) h ->
  let s2 := fst (run fuel s1 h) in
  loaded s2 n = VSent /\ require (S f') s2 n = (s2, Err (ELoop n)) /\
  count_log n (log s2) = count_log n (log s1).
Proof. exact failure_leaves_sentinel_lemma. Qed.
Print Assumptions failure_leaves_sentinel.

(* ---- fuel ---- *)
(* nesting is bounded by the number of modules still unloaded: the sentinel stops re-entry *)
Theorem require_fuel_bound : forall ns f s n,
  state_guarded s -> loadable_in s ns -> (unloaded s ns < f)%nat ->
  snd (require f s n) <> OutOfFuel.
Proof. exact require_fuel_bound_lemma. Qed.
Print Assumptions require_fuel_bound.

Theorem require_fuel_mono : forall f f' s n s' r,
  (f <= f')%nat -> require f s n = (s', r) -> r <> OutOfFuel -> require f' s n = (s', r).
Proof. exact require_fuel_mono_lemma. Qed.
Print Assumptions require_fuel_mono.

Theorem run_never_out_of_fuel : forall ns fuel, (length ns < fuel)%nat -> forall h s,
  state_guarded s -> loadable_in s ns -> Forall (op_ok ns) h ->
  ~ In OFuel (snd (run fuel s h)).
Proof. exact run_never_out_of_fuel_lemma. Qed.
Print Assumptions run_never_out_of_fuel.

(* ---- host initialisation in any order (SkipOpenLibs) ---- *)
(* OpenPackage makes "package" itself reachable and loses nothing that was registered before it *)
Theorem open_package_keeps_modules : forall s s' t,
  open_package s = (s', Ok t) ->
  is_table t = true /\ loaded s' PKG = t /\
  (is_table (loaded s PKG) = false -> globals s' PKG = t) /\
  (forall m, m <> PKG -> loaded s' m = loaded s m) /\
  (forall fuel, require (S fuel) s' PKG = (s', Ok t)).
Proof. exact open_package_lemma. Qed.
Print Assumptions open_package_keeps_modules.

(* a module table in _LOADED (RegisterModule / OpenString / ... , see host_modules_reachable) stays
   reachable through require AND keeps its global through every later sequence of OpenBase,
   OpenPackage, OpenXXX, RegisterModule, PreloadModule in any order *)
Theorem host_modules_reachable_any_order : forall i sb n,
  is_table (loaded (fst sb) n) = true ->
  let s2 := fst (fst (irun sb i)) in
  loaded s2 n = loaded (fst sb) n /\ globals s2 n = globals (fst sb) n /\
  forall fuel, require (S fuel) s2 n = (s2, Ok (loaded (fst sb) n)).
Proof. exact host_modules_reachable_any_order_lemma. Qed.
Print Assumptions host_modules_reachable_any_order.

(* ---- unreadable candidates on package.path ---- *)
Theorem unreadable_candidate_is_skipped : forall fs n d p msgs,
  readable (fs d n) = false ->
  loFindFile fs n (d :: p) msgs = loFindFile fs n p (msgs ++ [TPath d n]).
Proof. exact unreadable_candidate_is_skipped_lemma. Qed.
Print Assumptions unreadable_candidate_is_skipped.
