(* C07 — property theorems only: statement, `exact <lemma>`, Print Assumptions. *)
From GL Require Import VM.Opcode VM.OpcodeFacts VM.Proto VM.WfProto VM.Skeleton VM.WfFacts VM.ScanFacts.

(* 1. The instruction codec of opcode.go: creation followed by extraction gives back every in-range
      field; the created word is a uint32. *)
Theorem codec_roundtrip :
  (forall op a b c, 0 <= op < 64 -> 0 <= a < 256 -> 0 <= b < 512 -> 0 <= c < 512 ->
     let w := opCreateABC op a b c in
     0 <= w < 2 ^ 32 /\ opGetOpCode w = op /\ opGetArgA w = a /\ opGetArgB w = b /\ opGetArgC w = c) /\
  (forall op a bx, 0 <= op < 64 -> 0 <= a < 256 -> 0 <= bx < 262144 ->
     let w := opCreateABx op a bx in
     0 <= w < 2 ^ 32 /\ opGetOpCode w = op /\ opGetArgA w = a /\ opGetArgBx w = bx) /\
  (forall op a sbx, 0 <= op < 64 -> 0 <= a < 256 -> -131071 <= sbx <= 131072 ->
     let w := opCreateASbx op a sbx in
     0 <= w < 2 ^ 32 /\ opGetOpCode w = op /\ opGetArgA w = a /\ opGetArgSbx w = sbx).
Proof. exact codec_roundtrip_lemma. Qed.
Print Assumptions codec_roundtrip.

(* set o get = id on every field of every 32-bit word *)
Theorem codec_set_get : forall w, 0 <= w < 2 ^ 32 ->
  opSetOpCode w (opGetOpCode w) = w /\ opSetArgA w (opGetArgA w) = w /\ opSetArgB w (opGetArgB w) = w /\
  opSetArgC w (opGetArgC w) = w /\ opSetArgBx w (opGetArgBx w) = w /\ opSetArgSbx w (opGetArgSbx w) = w.
Proof. exact set_get_id. Qed.
Print Assumptions codec_set_get.

(* get o set: the written field holds the value reduced to the field width (the setters mask),
   all other fields are unchanged *)
Theorem codec_get_set : forall w v, 0 <= w < 2 ^ 32 ->
  (opGetOpCode (opSetOpCode w v) = v mod 64 /\ opGetArgA (opSetOpCode w v) = opGetArgA w /\
   opGetArgB (opSetOpCode w v) = opGetArgB w /\ opGetArgC (opSetOpCode w v) = opGetArgC w) /\
  (opGetArgA (opSetArgA w v) = v mod 256 /\ opGetOpCode (opSetArgA w v) = opGetOpCode w /\
   opGetArgB (opSetArgA w v) = opGetArgB w /\ opGetArgC (opSetArgA w v) = opGetArgC w) /\
  (opGetArgB (opSetArgB w v) = v mod 512 /\ opGetOpCode (opSetArgB w v) = opGetOpCode w /\
   opGetArgA (opSetArgB w v) = opGetArgA w /\ opGetArgC (opSetArgB w v) = opGetArgC w) /\
  (opGetArgC (opSetArgC w v) = v mod 512 /\ opGetOpCode (opSetArgC w v) = opGetOpCode w /\
   opGetArgA (opSetArgC w v) = opGetArgA w /\ opGetArgB (opSetArgC w v) = opGetArgB w) /\
  (opGetArgBx (opSetArgBx w v) = v mod 262144 /\ opGetOpCode (opSetArgBx w v) = opGetOpCode w /\
   opGetArgA (opSetArgBx w v) = opGetArgA w) /\
  (opGetArgSbx (opSetArgSbx w v) = (v + 131071) mod 262144 - 131071 /\
   opGetOpCode (opSetArgSbx w v) = opGetOpCode w /\ opGetArgA (opSetArgSbx w v) = opGetArgA w).
Proof. exact get_set. Qed.
Print Assumptions codec_get_set.

(* the decoded fields of any word are inside their ranges *)
Theorem codec_ranges : forall w,
  0 <= opGetArgA w < 256 /\ 0 <= opGetArgB w < 512 /\ 0 <= opGetArgC w < 512 /\
  0 <= opGetArgBx w < 262144 /\ -131071 <= opGetArgSbx w <= 131072.
Proof. exact codec_ranges_lemma. Qed.
Print Assumptions codec_ranges.

(* 2. One step of the VM's control/indexing skeleton from an instruction head of a well-formed
      function: the fetch succeeds, the opcode exists, every index into Code, Constants,
      stringConstants (and it names a string constant), FunctionPrototypes, Upvalues and the
      register window is in range, and every possible next pc is again an instruction head
      inside the code (never a capture word, MOVEN continuation or SETLIST extension word). *)
Theorem wf_step_safe : forall f pc,
  wf_fn f = true -> pc_ok f pc -> exists i, sk_step f pc = Some i /\ safe_info f i.
Proof. exact wf_step_safe_lemma. Qed.
Print Assumptions wf_step_safe.

(* 3. Any number of steps, whatever the data does: everything reachable from pc 0 is a head inside
      the code and its step is safe. *)
Theorem wf_run_safe : forall f, wf_fn f = true ->
  forall pc, reach f 0 pc -> pc_ok f pc /\ exists i, sk_step f pc = Some i /\ safe_info f i.
Proof. exact wf_run_safe_lemma. Qed.
Print Assumptions wf_run_safe.

Theorem wf_run_in_code : forall f, wf_fn f = true ->
  forall pc, reach f 0 pc -> 0 <= pc < len (f_code f).
Proof. exact wf_run_in_code_lemma. Qed.
Print Assumptions wf_run_in_code.

(* 4. Registers: every register a reachable step touches is below NumUsedRegisters, which holds the
      parameters and is at most maxRegisters = 250 <= 255 (no exception for OP_TFORLOOP: its three
      call temporaries are counted). *)
Theorem wf_regs_bounded : forall f pc i,
  wf_fn f = true -> reach f 0 pc -> sk_step f pc = Some i ->
  f_nparams f <= f_nregs f /\ f_nregs f <= frame_limit /\ frame_limit <= opMaxArgsA /\
  Forall (fun r => 0 <= r < f_nregs f) (i_regs i).
Proof. exact wf_regs_bounded_lemma. Qed.
Print Assumptions wf_regs_bounded.

(* The heads the checker works with are the instruction boundaries of the linear layout: a head
   whose instruction owns k further words (closure captures, MOVEN continuations, SETLIST
   extension) is followed by exactly k non-head words carrying the group's tag, then the next head.
   (Position 0 is a head: entry_ok below. No well-formedness hypothesis is needed.) *)
Theorem heads_are_boundaries : forall f pc w,
  zth (f_code f) pc = Some w -> is_head (tags_of f) pc = true ->
  let k := fst (group_of f w) in
  (forall j, 1 <= j <= k -> pc + j < len (f_code f) ->
     zth (tags_of f) (pc + j) = Some (snd (group_of f w)) /\ snd (group_of f w) <> 0) /\
  (0 <= k -> pc + 1 + k < len (f_code f) -> is_head (tags_of f) (pc + 1 + k) = true).
Proof. exact heads_are_boundaries_lemma. Qed.
Print Assumptions heads_are_boundaries.

Theorem entry_is_head : forall f, wf_fn f = true -> pc_ok f 0.
Proof. exact entry_ok. Qed.
Print Assumptions entry_is_head.

(* 5. wf_proto on a tree = wf_fn on every prototype of it. *)
Theorem wf_proto_all : forall p, wf_proto p = true -> forall q, In q (flatten p) -> wf_fn (view q) = true.
Proof. exact wf_proto_all_lemma. Qed.
Print Assumptions wf_proto_all.

(* 6. The universal claim "every prototype produced from any accepted source is wf" is
      C07_statement compile (VM/WfFacts.v) for the real compiler, which is not modelled: it is not
      proved. What is proved is the soundness of the per-program certificate: whenever the checker
      accepts the dumped tree, all the consequences the property names hold of every prototype in it.
      Each ./check run evaluates wf_proto on the dump of every compiled chunk (translation validation). *)
Theorem C07_statement_partial : forall p, wf_proto p = true -> C07_consequences p.
Proof. exact C07_statement_partial_lemma. Qed.
Print Assumptions C07_statement_partial.

(* 6b. Register-form string keys (wave 5; VM/StrKey.v). OP_SELF / OP_GETTABLEKS whose key constant is
      not RK-encodable (index > 255) take the key from a register through L.rkString, a Go type
      assertion `.(LString)`. strreg_fn (evaluated on every dumped tree next to wf_proto: check_spec
      = wfx_proto) demands that the word in front is LOADK of a string constant into that very
      register and that the instruction is no jump/skip target. Proved for all runs of the
      skeleton, whatever the data does: such an instruction is never the entry, every run that
      reaches it comes from that LOADK and from nowhere else. (OP_SETTABLEKS in register form is NOT
      covered: its key is loaded before the value expression is evaluated.) *)
From GL Require Import VM.StrKey VM.StrKeyFacts.

Theorem regkey_fed : forall f pc w r,
  strreg_fn f = true -> pc_ok f pc -> zth (f_code f) pc = Some w -> regkey_of w = Some r ->
  fed_by_loadk f pc r /\
  (forall q i, pc_ok f q -> sk_step f q = Some i -> In pc (i_succ i) -> q = pc - 1).
Proof. exact regkey_fed_lemma. Qed.
Print Assumptions regkey_fed.

Theorem regkey_run : forall f pc w r,
  wf_fn f = true -> strreg_fn f = true ->
  reach f 0 pc -> zth (f_code f) pc = Some w -> regkey_of w = Some r ->
  1 <= pc /\ fed_by_loadk f pc r /\
  (forall q i, reach f 0 q -> sk_step f q = Some i -> In pc (i_succ i) -> q = pc - 1).
Proof. exact regkey_run_lemma. Qed.
Print Assumptions regkey_run.

Theorem strreg_proto_all : forall p, strreg_proto p = true -> forall q, In q (flatten p) -> strreg_fn (view q) = true.
Proof. exact StrKeyFacts.strreg_proto_all. Qed.
Print Assumptions strreg_proto_all.

(* ---------------------------------------------------------------------------------------------
   7. Run level, on the FULL VM model (coq/VMX: the transcription of _vm.go/_state.go that C01-C03
      tie to the real VM by differential runs), not on the skeleton. "Out of range" = the model
      codes 103 Code, 104 Constants, 105 upvalue slots, 106 FunctionPrototypes ([oob]).
      Proved: (a) all 42 instruction functions, incl. OP_TFORLOOP, read those tables in range at an
      instruction the checker accepted, provided the re-entered main loop returns to the caller's
      frame (ml_keeps_caller_pc); (b) in every run, with any fuel, incl. coroutines, pcall and
      setfenv, every closure of the machine has exactly NumUpvalues upvalue slots and an accepted
      prototype (this discharges the hypothesis closure_ok of (a) at run level).
      NOT proved: the pc invariant (every frame's pc is an instruction head) and the frame-stack
      discipline of the main loop at run level; the run-level statement is the Definition
      RunSafe.wf_run_noob_statement. See notes/VMX.md. *)
From GL Require Import VMX.Machine VMX.Step VMX.VRun VMX.WfTie VMX.RunSafe.
From GL Require VMX.WfTieFacts VMX.RunSafeFacts VMX.HeapSafeFacts.

(* 6c. The same on the full VM model: the read-before-write order of the string-keyed handlers, on
      which compile.go relies when it loads the key of `tmp:method()` into R(A+1) - a register
      OP_SELF itself overwrites. On a prototype accepted by strreg_fn, once the model has executed
      the LOADK in front, rkString on the key register returns that string constant (the model's
      fault 108 "rkString on a non-string" is excluded at this read) and the instruction equals the
      handler with the constant as its key: nothing is written before the key is read. The tie of
      this order to vm.go is by execution: harness/cmd/c07 runs temporaries as receivers with the
      method name above the RK range (rk_self_* ladders) and every generated program with its
      constants shifted above the RK range (twin.go); the differential runs of C01-C03 tie VMX. *)
From GL Require VM.StrKeyVmx.

Theorem regkey_reads_constant : forall ml gf cl pc w r,
  strreg_fn (WfTieFacts.fn_of (cl_proto cl)) = true ->
  pc_ok (WfTieFacts.fn_of (cl_proto cl)) pc ->
  zth (xp_code (cl_proto cl)) pc = Some w -> regkey_of w = Some r ->
  exists w1 str,
    zth (xp_code (cl_proto cl)) (pc - 1) = Some w1 /\
    op_of_code (opGetOpCode w1) = Some OP_LOADK /\ opGetArgA w1 = r /\
    zth (xp_consts (cl_proto cl)) (opGetArgBx w1) = Some (Values.VStr str) /\
    forall cf cf' base s b s1,
      0 <= fr_localbase cf + r -> fr_localbase cf' = fr_localbase cf ->
      exec_op ml gf cl cf w1 base s = VRet b s1 ->
      rkString (cl_proto cl) (fr_localbase cf') r s1 = VRet (Values.VStr str) s1 /\
      (op_of_code (opGetOpCode w) = Some OP_SELF ->
       exec_op ml gf cl cf' w base s1 =
       (vdo selfobj <- reg_get (fr_localbase cf + opGetArgB w);
        vdo v <- getField ml MaxTableGetLoop selfobj (Values.VStr str);
        vdo _ <- reg_set (fr_localbase cf + opGetArgA w) v;
        vdo _ <- reg_set (fr_localbase cf + opGetArgA w + 1) selfobj; vret false) s1) /\
      (op_of_code (opGetOpCode w) = Some OP_GETTABLEKS ->
       exec_op ml gf cl cf' w base s1 =
       (vdo o <- reg_get (fr_localbase cf + opGetArgB w);
        vdo v <- getField ml MaxTableGetLoop o (Values.VStr str);
        vdo _ <- reg_set (fr_localbase cf + opGetArgA w) v; vret false) s1).
Proof. exact StrKeyVmx.regkey_reads_constant_lemma. Qed.
Print Assumptions regkey_reads_constant.

Theorem wf_exec_op_noob_all : forall ml gf,
  (forall b, noob (ml b)) -> (forall b, noob (gf b)) -> ml_keeps_caller_pc ml ->
  forall cl cf inst base o,
  closure_ok cl ->
  xp_nregs (cl_proto cl) <= frame_limit ->
  0 <= fr_pc cf - 1 ->
  op_of_code (opGetOpCode inst) = Some o ->
  inst_ok (WfTieFacts.fn_of (cl_proto cl)) (tags_of (WfTieFacts.fn_of (cl_proto cl))) (fr_pc cf - 1) inst = true ->
  noob_on (fun s => top_pc s = Some (fr_pc cf)) (exec_op ml gf cl cf inst base).
Proof. exact RunSafeFacts.wf_exec_op_noob_all_lemma. Qed.
Print Assumptions wf_exec_op_noob_all.

Theorem wf_step_noob_all : forall ml gf cl cf inst base,
  (forall b, noob (ml b)) -> (forall b, noob (gf b)) -> ml_keeps_caller_pc ml ->
  wf_fn (WfTieFacts.fn_of (cl_proto cl)) = true ->
  closure_ok cl ->
  pc_ok (WfTieFacts.fn_of (cl_proto cl)) (fr_pc cf - 1) ->
  zth (xp_code (cl_proto cl)) (fr_pc cf - 1) = Some inst ->
  noob_on (fun s => top_pc s = Some (fr_pc cf)) (exec_op ml gf cl cf inst base).
Proof. exact RunSafeFacts.wf_step_noob_all_lemma. Qed.
Print Assumptions wf_step_noob_all.

Theorem exec_op_heap_ok : forall ml gf,
  (forall b, ipres heap_ok (ml b)) -> (forall b, ipres heap_ok (gf b)) ->
  forall cl cf inst base, clos_good cl -> ipres heap_ok (exec_op ml gf cl cf inst base).
Proof. exact HeapSafeFacts.exec_op_heap_ok_lemma. Qed.
Print Assumptions exec_op_heap_ok.

Theorem mainLoop_heap_ok : forall n base, ipres heap_ok (mainLoop n base).
Proof. exact HeapSafeFacts.mainLoop_heap_ok_lemma. Qed.
Print Assumptions mainLoop_heap_ok.

Theorem run_heap_ok : forall p fuel, chunk_ok p -> heap_ok_fin (run_proto fuel p).
Proof. exact HeapSafeFacts.run_heap_ok_lemma. Qed.
Print Assumptions run_heap_ok.

(* 8. The frame-stack discipline of the main loop, on the machine with coroutine resumption cut off
      (RunSafe.mainLoop_nc: coroutine.resume and wrap functions stop the run like exhausted fuel;
      everything else - pcall/xpcall with error recovery, metamethods, tostring, setfenv, tail
      calls to host functions, coroutine.create/wrap/yield/status/running - is the full model):
      a main loop re-entered by callR returns with exactly the caller's frames, each as it was, and
      an error leaves them at the bottom of the stack. This is the hypothesis ml_keeps_caller_pc of
      wf_exec_op_noob_all, proved of the loop itself (on states where no thread has a resumer).
      run_proto_nc_full: a run of the cut machine that is not cut off is the run of the full machine. *)
From GL Require VMX.DiscFacts.

Theorem mainLoop_nc_disc : forall n, ml_disc (mainLoop_nc n).
Proof. exact DiscFacts.mainLoop_nc_disc_lemma. Qed.
Print Assumptions mainLoop_nc_disc.

Theorem mainLoop_nc_returns : forall n b s s',
  par_ok s -> length (vstack s) = S b -> mainLoop_nc n (Some b) s = VRet tt s' ->
  vstack s' = tl (vstack s) /\ top_pc s' = caller_pc s /\ par_ok s'.
Proof. exact DiscFacts.mainLoop_nc_returns_lemma. Qed.
Print Assumptions mainLoop_nc_returns.

Theorem run_proto_nc_full : forall fuel p, run_proto_nc fuel p <> VFinFuel -> run_proto fuel p = run_proto_nc fuel p.
Proof. exact DiscFacts.run_proto_nc_full_lemma. Qed.
Print Assumptions run_proto_nc_full.

(* 9. Items 7 and 8 put together: all 42 opcodes with the discipline as the hypothesis on the
      re-entered loop, and for the loop of the cut machine - where the discipline is a theorem - with
      no hypothesis on it but that it does not fault itself (the induction on fuel that the run-level
      statement still lacks; it needs the pc invariant); the host functions of the cut machine are
      shown not to fault when the loop they re-enter does not. *)
Theorem wf_step_noob_disc : forall ml gf,
  (forall b, noob (ml b)) -> (forall b, noob (gf b)) -> ml_disc ml ->
  forall cl cf rest inst base,
  wf_fn (WfTieFacts.fn_of (cl_proto cl)) = true ->
  closure_ok cl ->
  pc_ok (WfTieFacts.fn_of (cl_proto cl)) (fr_pc cf - 1) ->
  zth (xp_code (cl_proto cl)) (fr_pc cf - 1) = Some inst ->
  noob_on (stk (cf :: rest)) (exec_op ml gf cl cf inst base).
Proof. exact DiscFacts.wf_step_noob_disc_lemma. Qed.
Print Assumptions wf_step_noob_disc.

Theorem wf_step_noob_nc : forall n cl cf rest inst base,
  (forall b, noob (mainLoop_nc n b)) ->
  wf_fn (WfTieFacts.fn_of (cl_proto cl)) = true ->
  closure_ok cl ->
  pc_ok (WfTieFacts.fn_of (cl_proto cl)) (fr_pc cf - 1) ->
  zth (xp_code (cl_proto cl)) (fr_pc cf - 1) = Some inst ->
  noob_on (stk (cf :: rest)) (exec_op (mainLoop_nc n) (gfunction_nc (mainLoop_nc n)) cl cf inst base).
Proof. exact DiscFacts.wf_step_noob_nc_lemma. Qed.
Print Assumptions wf_step_noob_nc.

(* 10. Towards the run-level statement for the cut machine (RunInv.wf_run_noob_nc_statement, a
       Definition): the joint judgement jg (no out-of-range fault + heap_ok, par_ok and any
       growth-stable side condition kept + frame stack restored / left at the bottom on error),
       proved under the invariant for everything the instructions are made of, with the re-entered
       loop only assumed safe on invariant states (ml_safeP: the induction hypothesis on fuel):
       - every host function of the cut machine, callR (any callee incl. __call), PCall incl. the
         xpcall handler on the failed frames;
       - pushCallFrame: the pushed frame is a good one (existing closure, pc 0 = instruction head);
       - exec_op_step_safe: at an accepted instruction, each of the 38 opcodes other than CALL /
         TAILCALL / RETURN / CLOSURE is free of out-of-range reads, keeps the invariant, leaves the
         frames below alone and ends with the current frame AT AN INSTRUCTION HEAD (jumps, skips,
         FORLOOP/FORPREP, TFORLOOP's JMP, MOVEN and SETLIST groups included; metamethods re-enter
         the loop in the middle).
       Missing for the statement: the same for CALL / TAILCALL / RETURN (frame push/pop; the
       discipline part is mainLoop_nc_disc) and CLOSURE (the heap is transiently ill-formed), and
       the loop/fuel induction that puts the steps together. *)
From GL Require Import VMX.RunInv.
From GL Require VMX.RunInvFacts.

Theorem host_functions_inv : forall ml, ml_safeP ml -> forall b, jg (gfunction_nc ml b).
Proof. exact RunInvFacts.jg_gfunction_nc. Qed.
Print Assumptions host_functions_inv.

Theorem callR_inv : forall ml, ml_safeP ml -> forall na nr rb, jg (callR ml na nr rb).
Proof. exact RunInvFacts.jg_callR. Qed.
Print Assumptions callR_inv.

Theorem PCall_inv : forall ml, ml_safeP ml -> forall na nr h, jg (PCall ml na nr h).
Proof. exact RunInvFacts.jg_PCall. Qed.
Print Assumptions PCall_inv.

Theorem pushCallFrame_inv : forall Phi, stable Phi -> forall ofn b lb rb na nr fn meta X,
  hto (atg Phi X) (pushCallFrame ofn b lb rb na nr fn meta)
      (fun _ s => exists cf, (atg Phi (cf :: X) s /\ fr_good s cf) /\ ofn = Some (fr_fn cf)) (erg Phi X).
Proof. exact RunInvFacts.hto_pushCallFrame. Qed.
Print Assumptions pushCallFrame_inv.

Theorem exec_op_step_safe : forall ml gf, ml_safeP ml -> (forall b, jg (gf b)) ->
  forall Phi, stable Phi -> forall c cl cf inst base o rest s,
  closure_ok cl -> xp_nregs (cl_proto cl) <= frame_limit -> 0 <= fr_pc cf - 1 ->
  op_of_code (opGetOpCode inst) = Some o ->
  inst_ok (WfTieFacts.fn_of (cl_proto cl)) (tags_of (WfTieFacts.fn_of (cl_proto cl))) (fr_pc cf - 1) inst = true ->
  fr_fn cf = FnLua c ->
  o <> OP_CALL -> o <> OP_TAILCALL -> o <> OP_RETURN -> o <> OP_CLOSURE ->
  heap_ok s -> par_ok s -> Phi s -> vstack s = cf :: rest ->
  match exec_op ml gf cl cf inst base s with
  | VRet r s' => r = false /\ heap_ok s' /\ par_ok s' /\ Phi s' /\
                 exists cf', vstack s' = cf' :: rest /\ fr_fn cf' = FnLua c /\
                             pc_ok (WfTieFacts.fn_of (cl_proto cl)) (fr_pc cf')
  | VErr _ s' => heap_ok s' /\ par_ok s' /\ Phi s' /\ exists k, vstack s' = k ++ rest
  | VFuel => True
  | VUnsup x => oob x = false
  end.
Proof. exact RunInvFacts.exec_op_step_safe_lemma. Qed.
Print Assumptions exec_op_step_safe.

(* 11. The frame-changing instructions under the invariant (VMX/RunLoopFacts.v): a host function's
       frame is popped when it returns (callGFunction, plain and tail call), OP_RETURN pops exactly
       the current frame, OP_CALL either pushes a good Lua frame (existing closure, pc 0) on the
       unchanged frames or runs a host function and leaves the frames as they were - all without
       out-of-range fault and keeping heap_ok / par_ok / the side condition. OP_TAILCALL either
       replaces the frame by a good frame of the Lua callee or runs the host callee and drops both
       frames. OP_CLOSURE (the heap is
       transiently ill-formed inside it) ends with a well-formed heap that only grew, the frames
       below untouched and the current frame behind its capture words, at an instruction head.
       With item 10 every one of the 42 opcodes now has its step lemma under the invariant. Still
       missing for wf_run_noob_nc_statement: the loop / fuel induction that puts the steps
       together (fetch, exec_inst, run_loop_nc, mainLoop_nc; see notes/VMX.md). *)
From GL Require VMX.RunLoopFacts VMX.DiscFacts.

Theorem callGFunction_inv : forall gf, (forall b, jg (gf b)) -> forall Phi, stable Phi -> forall tailcall g X,
  hto (atg Phi (g :: X)) (callGFunction gf tailcall)
      (fun r s => r = false /\ atg Phi (if tailcall then tl X else X) s)
      (erg Phi (if tailcall then tl X else X)).
Proof. exact RunLoopFacts.hto_callGFunction. Qed.
Print Assumptions callGFunction_inv.

Theorem return_step_safe : forall ml gf Phi, stable Phi ->
  forall cl cf inst base rest s,
  op_of_code (opGetOpCode inst) = Some OP_RETURN ->
  heap_ok s -> par_ok s -> Phi s -> vstack s = cf :: rest ->
  match exec_op ml gf cl cf inst base s with
  | VRet r s' => heap_ok s' /\ par_ok s' /\ Phi s' /\ vstack s' = rest /\ r = DiscFacts.ret_flag base rest
  | VErr _ s' => heap_ok s' /\ par_ok s' /\ Phi s' /\ exists k, vstack s' = k ++ rest
  | VFuel => True
  | VUnsup x => oob x = false
  end.
Proof. exact RunLoopFacts.return_step_safe_lemma. Qed.
Print Assumptions return_step_safe.

Theorem call_step_safe : forall ml gf, (forall b, jg (gf b)) -> forall Phi, stable Phi ->
  forall cl cf inst base rest,
  op_of_code (opGetOpCode inst) = Some OP_CALL ->
  hto (atg Phi (cf :: rest)) (exec_op ml gf cl cf inst base)
      (fun r s => r = false /\
         (atg Phi (cf :: rest) s \/
          exists new, atg Phi (new :: cf :: rest) s /\ fr_good s new /\ DiscFacts.lua_fr new))
      (erg Phi rest).
Proof. exact RunLoopFacts.call_step_safe_lemma. Qed.
Print Assumptions call_step_safe.

Theorem tailcall_step_safe : forall ml gf, (forall b, jg (gf b)) -> forall Phi, stable Phi ->
  forall cl cf inst base rest,
  op_of_code (opGetOpCode inst) = Some OP_TAILCALL ->
  hto (atg Phi (cf :: rest)) (exec_op ml gf cl cf inst base)
      (fun r s => (r = false /\ exists cf3, atg Phi (cf3 :: rest) s /\ fr_good s cf3 /\ DiscFacts.lua_fr cf3) \/
                  (atg Phi rest s /\ r = DiscFacts.tc_flag base rest))
      (erg Phi rest).
Proof. exact RunLoopFacts.tailcall_step_safe_lemma. Qed.
Print Assumptions tailcall_step_safe.

Theorem closure_step_safe : forall ml gf Phi, stable Phi ->
  forall c cl cf inst base rest s,
  clos_good cl -> xp_nregs (cl_proto cl) <= frame_limit -> 0 <= fr_pc cf - 1 ->
  op_of_code (opGetOpCode inst) = Some OP_CLOSURE ->
  inst_ok (WfTieFacts.fn_of (cl_proto cl)) (tags_of (WfTieFacts.fn_of (cl_proto cl))) (fr_pc cf - 1) inst = true ->
  fr_fn cf = FnLua c ->
  heap_ok s -> par_ok s -> Phi s -> vstack s = cf :: rest ->
  match exec_op ml gf cl cf inst base s with
  | VRet r s' => r = false /\ heap_ok s' /\ par_ok s' /\ Phi s' /\ pext s s' /\
                 exists cf', vstack s' = cf' :: rest /\ fr_fn cf' = FnLua c /\
                             pc_ok (WfTieFacts.fn_of (cl_proto cl)) (fr_pc cf')
  | VErr _ s' => False
  | VFuel => True
  | VUnsup x => oob x = false
  end.
Proof. exact RunLoopFacts.closure_step_safe_lemma. Qed.
Print Assumptions closure_step_safe.

(* 12. The assembly (VMX/RunAssemble.v): the step lemmas of items 10-11 along the dispatch loop
       (invariant: the caller's frames at the bottom, good Lua frames above) and by induction on the
       fuel. THE RUN-LEVEL THEOREM for the machine with coroutine resumption cut off: a run of a
       prototype tree accepted by wf_proto (chunk_ok: + NumUpvalues >= 0, 0 for the chunk) never
       indexes Code / Constants / FunctionPrototypes / upvalue slots out of range, with any fuel -
       and so does every run of the FULL VM model that the cut machine does not cut off (no
       coroutine resumed, fuel not exhausted). The statement for runs that do resume coroutines
       (RunSafe.wf_run_noob_statement) remains a Definition. *)
From GL Require VMX.RunAssemble.

Theorem mainLoop_nc_safe : forall n, ml_safe (mainLoop_nc n).
Proof. exact RunAssemble.mainLoop_nc_safe_lemma. Qed.
Print Assumptions mainLoop_nc_safe.

Theorem wf_run_noob_nc : forall p, chunk_ok p -> forall fuel, fin_noob (run_proto_nc fuel p).
Proof. exact RunAssemble.wf_run_noob_nc_lemma. Qed.
Print Assumptions wf_run_noob_nc.

Theorem wf_run_noob_uncut : forall p, chunk_ok p -> forall fuel,
  run_proto_nc fuel p <> VFinFuel -> fin_noob (run_proto fuel p).
Proof. exact RunAssemble.wf_run_noob_uncut_lemma. Qed.
Print Assumptions wf_run_noob_uncut.
