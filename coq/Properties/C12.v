(* C12 — property theorems only: statement, `exact <lemma>`, Print Assumptions. *)
From GL Require Import Stack.Registry Stack.RegSpec Stack.CallFrames Stack.Client
  Stack.CallFramesFacts Stack.RegistryFacts Stack.ClientFacts
  Stack.Handover Stack.HandoverFacts Stack.CtxTree Stack.CtxTreeFacts.

(* Both call-frame stack implementations return, for every history of Push-when-not-full / Pop /
   Last / At / SetSp-not-upwards / Sp / IsEmpty / IsFull, what the bounded list stack returns
   (Idx = position), and end in a state that represents the list (Rf / Ra: the segment bookkeeping
   invariant segIdx*8+segSp = length, live segments allocated, the ones above nil). *)
Theorem fixed_refines_stack : forall size ops,
  0 <= size -> ldom size [] ops = true ->
  frun (newFixed size) ops = lrun size [] ops /\
  Rf (ffinal (newFixed size) ops) (lfinal size [] ops).
Proof. exact fixed_refines_stack_lemma. Qed.
Print Assumptions fixed_refines_stack.

(* any maxSize, any pool behaviour: d0 and the dirty segment carried by every Push are arbitrary *)
Theorem auto_refines_stack : forall maxSize d0 ops,
  1 <= maxSize -> len d0 = FramesPerSegment -> ldom (autoCap maxSize) [] ops = true ->
  arun_ (newAuto maxSize d0) ops = lrun (autoCap maxSize) [] ops /\
  Ra (afinal (newAuto maxSize d0) ops) (lfinal (autoCap maxSize) [] ops).
Proof. exact auto_refines_stack_lemma. Qed.
Print Assumptions auto_refines_stack.

(* one step from any represented state (what the history theorem is an induction over) *)
Theorem auto_step_refines : forall c s l o,
  Ra s l -> FramesPerSegment * nseg s = c -> sop_dom c l o = true ->
  snd (astep s o) = snd (lstep c l o) /\ Ra (fst (astep s o)) (fst (lstep c l o)) /\
  nseg (fst (astep s o)) = nseg s.
Proof. exact astep_sim. Qed.
Print Assumptions auto_step_refines.

(* The two defects of the pinned tree (DESIGN 9.1 C12-2, C12-1; repaired by 00581fb and 300d9b1),
   on the transcription of the old code: SetSp(8) on a represented depth-8 stack gave depth 0;
   IsFull was false on a full stack. *)
Theorem old_setsp_refuted :
  exists s, Ra s [1; 2; 3; 4; 5; 6; 7; 8] /\ aSp s = 8 /\ aSp (aSetSp_old s 8) = 0.
Proof. exact old_setsp_refuted_lemma. Qed.
Print Assumptions old_setsp_refuted.

Theorem old_isfull_refuted :
  exists s, Ra s [1; 2; 3; 4; 5; 6; 7; 8] /\ aSp s = autoCap 8 /\ aIsFull_old s = false /\ aIsFull s = true.
Proof. exact old_isfull_refuted_lemma. Qed.
Print Assumptions old_isfull_refuted.

(* The growing registry is the unbounded list of live cells below lim = max(cap, maxSize):
   every in-domain operation that needs at most lim cells succeeds and acts as the list operation
   (resizing copies exactly the live prefix) ... *)
Theorem registry_grow_transparent : forall r l lim o,
  Rr r l lim -> rop_dom (len l) o = true -> rneed (len l) o <= lim ->
  exists r', rstep r o = Ok (r', snd (lstepR l o)) /\ Rr r' (fst (lstepR l o)) lim.
Proof. exact registry_grow_transparent_lemma. Qed.
Print Assumptions registry_grow_transparent.

(* ... and one that needs more calls the overflow handler before anything is written: the
   operation has no successor state, a history continues from the unchanged registry *)
Theorem registry_overflow_error : forall r l lim o,
  Rr r l lim -> rop_dom (len l) o = true -> lim < rneed (len l) o ->
  rstep r o = Overflow.
Proof. exact registry_overflow_error_lemma. Qed.
Print Assumptions registry_overflow_error.

(* catching the error (PCall's SetTop(base)) gives back a registry under the same limit *)
Theorem limit_constant_after_error : forall r l lim t,
  Rr1 r l lim -> 0 <= t <= len l -> t <= limit r ->
  exists r', SetTop r t = Ok r' /\ Rr r' (firstn (Z.to_nat t) l) lim.
Proof. exact SetTop_down1. Qed.
Print Assumptions limit_constant_after_error.

Theorem registry_refines_list : forall ops r l lim,
  Rr r l lim -> ldomR l lim ops = true -> rrun r ops = lrunR l lim ops.
Proof. exact registry_refines_list_lemma. Qed.
Print Assumptions registry_refines_list.

(* raiseError can always push its message, whatever the registry's size and limits, and the limit
   is afterwards what it was (Rr1: the message may sit in one cell beyond it until the error is caught) *)
Theorem raise_has_room : forall r l lim v,
  Rr r l lim -> exists r', raisePush r v = Ok r' /\ Rr1 r' (l ++ [v]) lim.
Proof. exact raise_has_room_lemma. Qed.
Print Assumptions raise_has_room.

(* NewState clamps as documented: the stored options are normal, normalising is idempotent and
   leaves valid settings alone *)
Theorem options_normalised : forall o,
  normal (normalise o) /\
  normalise (normalise o) = normalise o /\
  (normal o -> 0 <= oRegistryMaxSize o -> normalise o = o) /\
  oMinimize (normalise o) = oMinimize o /\
  (1 <= oCallStackSize o -> oCallStackSize (normalise o) = oCallStackSize o) /\
  (128 <= oRegistrySize o -> oRegistrySize (normalise o) = oRegistrySize o) /\
  (128 <= oRegistrySize o <= oRegistryMaxSize o -> oRegistryMaxSize (normalise o) = oRegistryMaxSize o).
Proof. exact options_normalised_lemma. Qed.
Print Assumptions options_normalised.

(* Any client of the call-frame stack and the registry (an interaction tree choosing its next
   operation from the answers so far) that stays in the domain, below the smaller call-stack
   capacity and below the smaller registry limit of two normal configurations, gets the same answers
   from both — whichever stack implementation, pool behaviour, registry size, growth step — namely
   those of the unbounded specification. *)
Theorem config_independent : forall oA oB poolA poolB cl,
  normal oA -> normal oB ->
  (forall n, len (poolA n) = FramesPerSegment) -> (forall n, len (poolB n) = FramesPerSegment) ->
  vbelow (Z.min (callLimit oA) (callLimit oB)) (Z.min (regLimit oA) (regLimit oB)) [] [] cl ->
  run_config oA poolA cl = run_config oB poolB cl /\ run_config oA poolA cl = vspec [] [] cl.
Proof. exact config_independent_lemma. Qed.
Print Assumptions config_independent.

(* ---- wave 5 ---- *)

(* A coroutine handing its values to its resumer (switchToParentThread; the registry part): when the
   status boolean and the values fit below the resumer's limit they all arrive, in order, on top of
   what the resumer held; otherwise nothing arrives and the resumer gets the (catchable) overflow
   error with its registry unchanged. In BOTH outcomes the coroutine's values are dropped and the
   epilogue (yield frame popped / thread killed) has run: the outcome is never HoTorn. *)
Theorem handover_all_or_nothing : forall p c l lc lim limc wrapped flag nargs,
  Rr p l lim -> Rr c lc limc -> 0 <= nargs <= len lc ->
  let vs := handed wrapped flag (lastn nargs lc) in
  let lc' := firstn (Z.to_nat (len lc - nargs)) lc in
  (len l + len vs <= lim ->
     exists p' c', handover p c wrapped flag nargs = HoDone p' c' /\ Rr p' (l ++ vs) lim /\ Rr c' lc' limc) /\
  (lim < len l + len vs ->
     exists c', handover p c wrapped flag nargs = HoRefused p c' /\ Rr c' lc' limc).
Proof. exact handover_all_or_nothing_lemma. Qed.
Print Assumptions handover_all_or_nothing.

(* the pre-check must count the status boolean: without it (seeded change C12-9) every hand-over to a
   resumer with room for exactly the values is torn *)
Theorem handover_nocount_torn : forall p c l lc lim limc flag nargs,
  Rr p l lim -> Rr c lc limc -> 0 <= nargs <= len lc -> len l + nargs = lim ->
  handover_gen false p c false flag nargs = HoTorn.
Proof. exact handover_nocount_torn_lemma. Qed.
Print Assumptions handover_nocount_torn.

(* With an undone context attached: for every history of threads creating threads (only a live thread
   runs code) and dying, in any order, the bookkeeping never runs out of fuel, and afterwards the
   context of every live thread is not done (so mainLoopWithContext never raises for it), while a dead
   thread that holds no derived context any more has released its own (nothing leaks). *)
Theorem ctx_live_never_done : forall ops,
  sdomrun [] ops = true ->
  exists f, xrun [] ops = Some f /\ map ndead f = srun [] ops /\
            live_not_done (map ndead f) (done_flags f) = true /\
            (forall k n, nth_error f k = Some n -> ndead n = false -> nth k (done_flags f) true = false) /\
            (forall k n, nth_error f k = Some n -> ndead n = true -> nchildren n = 0 -> nth k (done_flags f) false = true).
Proof. exact ctx_live_never_done_lemma. Qed.
Print Assumptions ctx_live_never_done.

(* what the model shows after every step of an in-domain history passes check_spec's predicate *)
Theorem ctx_obs_meet_spec : forall ops,
  sdomrun [] ops = true -> spec_ctx [] ops (xobs [] ops) = true.
Proof. exact ctx_obs_meet_spec_lemma. Qed.
Print Assumptions ctx_obs_meet_spec.

(* the `if p.dead` guard of ctxNode.release is needed (seeded change C12-10): without it a worker that
   finishes inside its live creator cancels the creator's context *)
Theorem ctx_release_noguard_refuted :
  exists f f', Inv (Some 1%nat) f /\ release_noguard 2 f 1 = Some f' /\
               (exists n, nth_error f' 0 = Some n /\ ndead n = false) /\ nth 0 (done_flags f') false = true.
Proof. exact release_noguard_refuted_lemma. Qed.
Print Assumptions ctx_release_noguard_refuted.
