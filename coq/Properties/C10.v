(* C10 — property theorems only: statement, `exact <lemma>`, Print Assumptions. *)
From GL Require Import Stack.Registry Stack.StackApi.
