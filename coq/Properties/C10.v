(* C10 — property theorems only: statement, `exact <lemma>`, Print Assumptions. *)
From GL Require Import Stack.Registry Stack.RegSpec Stack.StackApi
  Stack.RegistryFacts Stack.StackApiFacts Stack.CallContractFacts Stack.StaleFacts.

(* Rr r (pre ++ l) lim: the registry r holds the callers' cells pre (LocalBase = len pre) followed by
   the activation's list l, and can hold lim cells.

   Every script of Push/Pop/Get/SetTop/Insert/Remove/Replace/GetTop inside the domain (indices above
   RegistryIndex) that fits the registry logs exactly what the same script
   logs on the list l alone (returned values, GetTop, Get(1..top) after every operation), and ends
   with the registry holding the same callers' cells followed by the final list: the operations
   never read or write the caller prefix. *)
Theorem api_refines_list : forall ops r pre l lim,
  Rr r (pre ++ l) lim -> L_dom l ops = true -> L_fits (len pre) lim l ops = true ->
  fst (arun r (len pre) ops) = fst (L_run l ops) /\
  Rr1 (snd (arun r (len pre) ops)) (pre ++ snd (L_run l ops)) lim.
Proof. exact api_refines_list_lemma. Qed.
Print Assumptions api_refines_list.

(* the same for one operation, from any represented state: push_spec ... replace_spec in one
   statement (L_step is the list meaning of each operation; the last component tells that
   Pop beyond the bottom raised after emptying the list) *)
Theorem api_step_refines : forall r pre l lim o,
  Rr r (pre ++ l) lim -> aop_dom (len l) o = true -> aneed (len pre) (len l) o <= lim ->
  match L_step l o with
  | (l1, ret, false) => exists r1, astep r (len pre) o = (AOk r1, ret) /\ Rr r1 (pre ++ l1) lim
  | (l1, ret, true) => exists r1, astep r (len pre) o = (ARaised r1, ret) /\ Rr1 r1 (pre ++ l1) lim
  end.
Proof. exact astep_sim. Qed.
Print Assumptions api_step_refines.

(* reads outside 1..top / -1..-top give nil; 0, top+1, -(top+1) and everything farther are outside *)
Theorem get_outside_nil : forall (l : list cell) idx,
  validIdx (len l) idx = false -> L_get l idx = cNil.
Proof. exact get_outside_nil_lemma. Qed.
Print Assumptions get_outside_nil.

Theorem boundary_indices : forall n, 0 <= n ->
  validIdx n 0 = false /\ validIdx n (n + 1) = false /\ validIdx n (- (n + 1)) = false /\
  (forall k, n < k -> validIdx n k = false /\ validIdx n (- k) = false) /\
  (forall k, 1 <= k <= n -> validIdx n k = true /\ validIdx n (- k) = true /\
                            absIndex n (- k) = n - k + 1).
Proof. exact boundary_invalid_lemma. Qed.
Print Assumptions boundary_indices.

(* registry SetTop: nil-extends or truncates the live list; the cells it drops become Go nil *)
Theorem settop_spec : forall r l lim t,
  Rr r l lim -> 0 <= t <= lim ->
  exists r', SetTop r t = Ok r' /\ Rr r' (resizeN l t) lim /\
             (forall i, t <= i < len l -> rd (arr r') i = None) /\
             (forall i, len l <= i < t -> rd (arr r') i = cNil).
Proof. exact settop_spec_lemma. Qed.
Print Assumptions settop_spec.

(* a host function that leaves junk ++ results and returns len results: its frame (function slot
   at len pre) is replaced by exactly NRet values — all of them for MultRet, nil-padded or
   truncated otherwise (callGFunction's CopyRange + callR's SetTop) *)
Theorem gfunction_results : forall r pre fn junk results nret lim,
  Rr r (pre ++ fn :: junk ++ results) lim -> -1 <= nret -> len pre + nret <= lim ->
  exists r', gReturn r (len pre) (len results) nret = Ok r' /\ Rr r' (pre ++ adjust nret results) lim.
Proof. exact gfunction_results_lemma. Qed.
Print Assumptions gfunction_results.

(* the same for a Lua callee returning through OP_RETURN A B (copyReturnValues) *)
Theorem lua_results : forall r pre fn regs A B wanted lim,
  Rr r (pre ++ fn :: regs) lim -> 0 <= A -> 0 <= B -> -1 <= wanted ->
  A + Z.max 0 (B - 1) <= len regs ->
  len pre + wanted <= lim ->
  exists r', luaReturn r (len pre + 1) A B (len pre) wanted = Ok r' /\
             Rr r' (pre ++ adjust wanted (luaResults regs A B)) lim.
Proof. exact lua_results_lemma. Qed.
Print Assumptions lua_results.

(* CallByParam{Fn, NRet, Protect} with a Go callee as a whole, from an activation whose list is l:
   function and arguments are removed and exactly NRet results are left on top of l; when the
   callee fails (protected) neither arguments nor partial results remain; pre is untouched *)
Theorem call_contract : forall r pre l fn args junk results nret fails lim,
  Rr r (pre ++ l) lim -> -1 <= nret ->
  len pre + len l + 1 + len args + len junk + len results + 1 <= lim ->
  len pre + len l + nret <= lim ->
  exists r', callByParamG r fn args junk results nret fails = Ok (r', fails) /\
             Rr r' (pre ++ l ++ (if fails then [] else adjust nret results)) lim.
Proof. exact call_contract_lemma. Qed.
Print Assumptions call_contract.

(* What sits in the array ABOVE the top cannot be observed: two registries that hold the same callers'
   cells and the same list (and may differ arbitrarily above the top: dead temporaries of a calling
   Lua function, junk of finished callees) give the same log and the same live cells for every
   script in the domain. *)
Theorem dead_cells_unobservable : forall ops r1 r2 pre l lim,
  Rr r1 (pre ++ l) lim -> Rr r2 (pre ++ l) lim ->
  L_dom l ops = true -> L_fits (len pre) lim l ops = true ->
  fst (arun r1 (len pre) ops) = fst (arun r2 (len pre) ops) /\
  live (snd (arun r1 (len pre) ops)) = live (snd (arun r2 (len pre) ops)).
Proof. exact dead_cells_unobservable_lemma. Qed.
Print Assumptions dead_cells_unobservable.

(* initCallFrame of a fixed-arity Lua function (np parameters, nregs registers), called with args while
   the caller holds rest in the registers above them: the callee's frame is exactly its first np
   arguments, nil up to nregs registers - a represented list, whatever rest is ... *)
Theorem lua_frame_init : forall r pre fn args rest lim np nregs,
  Rr r (pre ++ fn :: args ++ rest) lim -> 0 <= np <= nregs ->
  len pre + 1 + Z.max (len args) nregs <= lim ->
  exists r', initLuaFixed r (len pre + 1) (len args) np nregs = Ok r' /\
             Rr r' (pre ++ fn :: resizeL (resizeL args np) nregs) lim.
Proof. exact initLuaFixed_ok. Qed.
Print Assumptions lua_frame_init.

(* ... although the top is lowered without clearing: every cell above the registers it sets to nil keeps
   its content (the caller's dead temporaries stay in the array above the callee's frame) *)
Theorem lua_frame_keeps_dead : forall r lb nargs np nregs,
  0 <= lb -> 0 <= nargs -> 0 <= np ->
  lb + Z.max (Z.max nargs np) nregs <= limit r ->
  exists r', initLuaFixed r lb nargs np nregs = Ok r' /\ top r' = lb + nregs /\
    forall i, lb + Z.max (Z.max nargs np) nregs <= i -> rd (arr r') i = rd (arr r) i.
Proof. exact initLuaFixed_keeps_dead. Qed.
Print Assumptions lua_frame_keeps_dead.
