(* C14 — property theorems only: statement, `exact <lemma>`, Print Assumptions. *)
From GL Require Import Common.Bytes Pm.Class Pm.PmTypes Pm.RefMatch Pm.GoParse Pm.GoCompile Pm.GoVM
     Pm.Find Pm.Gsub Pm.Flat Pm.ClassFacts Pm.FindFacts Pm.GsubFacts Pm.ParseFacts Pm.CompileFacts
     Pm.VMFacts Pm.RefFacts Pm.SetFacts Pm.PmRefine Pm.PrintFacts Pm.FindRefine Pm.ReplFacts
     Pm.BadRef Pm.ErrRefine.

(* single character classes (%a %c %d %l %p %s %u %w %x %z, their complements, and every other
   escaped byte) agree with C's <ctype.h> in the "C" locale as used by lstrlib's match_class,
   on all 256 class bytes x 256 subject bytes (finite sweep, bound stated) *)
Theorem class_agree :
  forall cl ch, 0 <= cl < 256 -> 0 <= ch < 256 ->
    go_single_matches cl ch = ref_match_class ch cl.
Proof. exact class_agree_lemma. Qed.
Print Assumptions class_agree.

(* set_agree: a [set] written from plain characters, ranges x-y, %c classes and an optional
   complement is read back by lstrlib (classEnd finds its closing bracket, matchbracketclass
   decides membership) exactly as the class tree pm.go builds for it.  Stated hypothesis set_ok:
   bytes 1..255; raw ']' and '%' only through %-escapes; a plain character is not followed by an
   item starting with '-'; a range does not end in '%' (finding C14-10) or ']'; an uncomplemented
   set does not start with '^'. *)
Theorem set_agree :
  forall neg l, set_ok neg l ->
  forall pat p, occurs pat p (set_text neg l) ->
    classEnd pat p = Some (p + len (set_text neg l)) /\
    forall src s, is_bytes src = true -> 0 <= s ->
      singlematch pat src s p (p + len (set_text neg l)) =
      cmatch src (CSet neg (map sitem_cls l)) s.
Proof. intros neg l H. destruct (set_class_repr neg l H) as (_ & _ & _ & R). exact R. Qed.
Print Assumptions set_agree.

(* strGsubDoReplace: for increasing non-overlapping extents the offset bookkeeping produces the
   left-to-right concatenation s[0..b1) ++ r1 ++ s[e1..b2) ++ ... ++ s[ek..len s) *)
Theorem gsub_assembly :
  forall s infos, extents_ok s 0 infos -> strGsubDoReplace s infos = assemble s 0 infos.
Proof. exact gsub_assembly_lemma. Qed.
Print Assumptions gsub_assembly.

(* Find's scan loop with limit 1 (string.find / string.match), for any VM `run` that returns on
   every start: the reported match is the one at the least start >= init *)
Theorem find_leftmost :
  forall (run : Z -> vres) srclen n init,
    total_on run srclen init -> (Z.to_nat (srclen + 1 - init) + 1 <= n)%nat ->
    (exists sp nsp ms,
        init <= sp <= srclen /\ run sp = VRet true nsp ms /\
        (forall sp', init <= sp' < sp -> fails run sp') /\
        find_loop run srclen false 1 n init [] = FOk [ms])
    \/ ((forall sp, init <= sp <= srclen -> fails run sp) /\
        find_loop run srclen false 1 n init [] = FOk []).
Proof. exact find_leftmost_lemma. Qed.
Print Assumptions find_leftmost.

(* unlimited scan (gmatch, gsub): every hit is the leftmost one from where the scan resumed;
   the scan resumes at the end of a non-empty match and one byte later after an empty one *)
Theorem find_advance :
  forall (run : Z -> vres) srclen n init limit,
    limit < 0 -> total_on run srclen init -> (Z.to_nat (srclen + 1 - init) + 1 <= n)%nat ->
    exists l, find_loop run srclen false limit n init [] = FOk l /\ scan_rel run srclen init limit l.
Proof. exact find_advance_lemma. Qed.
Print Assumptions find_advance.

(* the same with a positive limit k (gsub's 4th argument): the first k hits *)
Theorem find_limited :
  forall (run : Z -> vres) srclen n sp acc limit,
    0 <= len acc -> limit <> len acc -> (limit < 0 \/ len acc < limit) ->
    total_on run srclen sp -> (Z.to_nat (srclen + 1 - sp) + 1 <= n)%nat ->
    exists l, find_loop run srclen false limit n sp acc = FOk (acc ++ l)
              /\ scan_rel run srclen sp (limit - len acc) l.
Proof. exact find_loop_unanchored. Qed.
Print Assumptions find_limited.

(* anchored pattern: exactly one attempt, at the start position *)
Theorem find_anchored :
  forall (run : Z -> vres) srclen n sp limit,
    sp <= srclen -> total_on run srclen sp -> (1 <= n)%nat ->
    (exists nsp ms, run sp = VRet true nsp ms /\ find_loop run srclen true limit n sp [] = FOk [ms])
    \/ (fails run sp /\ find_loop run srclen true limit n sp [] = FOk []).
Proof. exact find_loop_anchored. Qed.
Print Assumptions find_anchored.

(* parsePattern is total: on every byte string it returns a pattern or raises a pm.Error *)
Theorem bad_pattern_total : forall p : bytes, goParse p <> ParseFuel.
Proof. exact bad_pattern_total_lemma. Qed.
Print Assumptions bad_pattern_total.

(* compilePattern: the program starts with Save 0, ends with Match, every jump target is inside
   the program and every other instruction has a successor *)
Theorem compile_shape :
  forall p : seqpat,
    let prog := goCompile p in
    zth prog 0 = Some (ISave 0) /\
    zth prog (len prog - 1) = Some IMatch /\
    forall pc i, zth prog pc = Some i -> inst_in_range (len prog) pc i.
Proof. exact compile_shape_lemma. Qed.
Print Assumptions compile_shape.

(* the capture counter advances by two slots per capture (slots 2k+2 / 2k+3 for capture k) *)
Theorem compile_capture_slots :
  forall l st, snd (compile_seq l st) = snd st + 2 * ncaps_seq l.
Proof. exact compile_seq_caps. Qed.
Print Assumptions compile_capture_slots.

(* VM side of the refinement, captures included: one recursiveVM call from pc 0 on the compiled
   program of ANY parsed pattern tree computes the backtracking semantics Flat.fm of the
   flattened tree: same end position, every capture extent in its slots, exact slice length.
   (Out-of-fuel excluded by hypothesis; the recursion cap is not reached for fuel < 10^6.) *)
Theorem vm_refines_flat :
  forall (p : seqpat) (src : bytes) (sp0 : Z) (fuel : nat),
    0 <= sp0 <= len src ->
    1 + Z.of_nat fuel <= maxRecursionLevel ->
    goVM src (goCompile p) fuel 0 sp0 <> VFuel ->
    match fm src (must_tail p) (flatten_seq (patterns p)) sp0 [] [] with
    | FFail => exists sp' m', goVM src (goCompile p) fuel 0 sp0 = VRet false sp' m'
    | FMatch e cs =>
        exists m', goVM src (goCompile p) fuel 0 sp0 = VRet true e m' /\
                   agree sp0 m' cs /\ mget m' 1 = 2 * e /\
                   len m' = 2 + 2 * ncaps_seq (patterns p) /\
                   len cs = ncaps_seq (patterns p) /\
                   (forall j c, zth cs j = Some c -> snd c <> CAP_UNF) /\ sp0 <= e <= len src
    | FBad => True
    end.
Proof. exact goVM_flat. Qed.
Print Assumptions vm_refines_flat.

(* reference side: lstrlib's matcher run on the TEXT that an item list prints to computes the
   same flat semantics (captures, back-references, %b, greedy/lazy expansion, anchors) *)
Theorem ref_refines_flat :
  forall (pat src : bytes) (tail : bool), is_bytes src = true ->
  forall items text, prints (tail_text tail) items text ->
  forall fuel p s cs stk,
    suffix_is pat p text -> (length items + 1 <= fuel)%nat ->
    stk_repr cs stk -> bounded src cs s -> 0 <= s <= len src ->
    len cs + ncap_items items <= MAXCAPTURES ->
    do_match pat src fuel s p cs = conv (fm src tail items s cs stk).
Proof. exact ref_flat. Qed.
Print Assumptions ref_refines_flat.

(* vm_refines_ref (the main refinement): for a parsed pattern tree p whose text is `text`
   (prints: classes written as `.`, plain characters, %x classes or sets meeting set_agree's
   hypothesis; quantifiers * + - ?; captures, position captures, back-references, %b; anchors),
   every subject of bytes and every start position: one run of gopher-lua's VM on the compiled
   program and lstrlib's matcher on the text give the same outcome, the same end position and the
   same capture extents (slot layout 2k+2/2k+3, exact slice length).  Out-of-fuel of the model is
   excluded by hypothesis here and discharged by vm_fuel_enough in vm_refines_ref_total; the
   parser is related to `prints` by the correspondence runs and by goparse_roundtrip_small
   (bounded), not by a general theorem. *)
Theorem vm_refines_ref :
  forall (p : seqpat) (text src : bytes) (sp0 : Z) (fuel : nat),
    prints (tail_text (must_tail p)) (flatten_seq (patterns p)) text ->
    is_bytes src = true ->
    ncaps_seq (patterns p) <= MAXCAPTURES ->
    0 <= sp0 <= len src ->
    1 + Z.of_nat fuel <= maxRecursionLevel ->
    goVM src (goCompile p) fuel 0 sp0 <> VFuel ->
    let pat := head_text (must_head p) ++ text in
    vm_ref_rel src sp0 (ncaps_seq (patterns p))
               (goVM src (goCompile p) fuel 0 sp0)
               (ref_match pat src sp0 (len (head_text (must_head p)))).
Proof. exact vm_refines_ref_lemma. Qed.
Print Assumptions vm_refines_ref.

(* the same with an executable side condition: seq_okb p (computable) says that the parsed
   tree p is printable and print_seq p is its text *)
Theorem vm_refines_ref_checked :
  forall (p : seqpat) (pb src : bytes) (sp0 : Z) (fuel : nat),
    seq_okb p = true -> print_seq p = Some pb ->
    is_bytes src = true -> 0 <= sp0 <= len src ->
    1 + Z.of_nat fuel <= maxRecursionLevel ->
    goVM src (goCompile p) fuel 0 sp0 <> VFuel ->
    vm_ref_rel src sp0 (ncaps_seq (patterns p))
               (goVM src (goCompile p) fuel 0 sp0)
               (ref_match pb src sp0 (len (head_text (must_head p)))).
Proof. exact PrintFacts.vm_refines_ref_checked. Qed.
Print Assumptions vm_refines_ref_checked.

(* parser round trip, BOUNDED: for each of the 8492 trees of rt_family (all sequences of at most
   two items over 33 item shapes and of three items over 10 shapes, with and without ^ and $;
   8076 of them printable) parsePattern of the printed text gives the tree back.  Finite sweep
   by vm_compute; the general statement is not proved. *)
Theorem goparse_roundtrip_small :
  forall p, In p rt_family -> seq_okb p = true ->
  exists pb, print_seq p = Some pb /\ goParse pb = ParseOk p.
Proof. exact goparse_roundtrip_small_lemma. Qed.
Print Assumptions goparse_roundtrip_small.

(* vm_fuel_enough: the fuel pm.Find's model gives every VM run suffices: no run on a compiled
   pattern ends out of fuel (depth <= instructions ahead + 3 per subject byte ahead) *)
Theorem vm_fuel_enough :
  forall (p : seqpat) (src : bytes) (sp0 : Z),
    0 <= sp0 <= len src ->
    1 + Z.of_nat (vm_fuel src (goCompile p)) <= maxRecursionLevel ->
    goVM src (goCompile p) (vm_fuel src (goCompile p)) 0 sp0 <> VFuel.
Proof. exact goVM_terminates. Qed.
Print Assumptions vm_fuel_enough.

(* the refinement without the out-of-fuel hypothesis, at the fuel the model of pm.Find uses *)
Theorem vm_refines_ref_total :
  forall (p : seqpat) (pb src : bytes) (sp0 : Z),
    seq_okb p = true -> print_seq p = Some pb ->
    is_bytes src = true -> 0 <= sp0 <= len src ->
    1 + Z.of_nat (vm_fuel src (goCompile p)) <= maxRecursionLevel ->
    vm_ref_rel src sp0 (ncaps_seq (patterns p))
               (goVM src (goCompile p) (vm_fuel src (goCompile p)) 0 sp0)
               (ref_match pb src sp0 (len (head_text (must_head p)))).
Proof.
  intros p pb src sp0 H1 H2 H3 H4 H5.
  exact (PrintFacts.vm_refines_ref_checked p pb src sp0 _ H1 H2 H3 H4 H5 (goVM_terminates p src sp0 H4 H5)).
Qed.
Print Assumptions vm_refines_ref_total.

(* END TO END for string.find and string.match: for a printable pattern tree p with text pb that
   the parser maps back to p (both hypotheses are computable; goparse_roundtrip_small discharges
   the second on its family; backrefs_ok = pm.go's checkBackRefs accepts the tree: no %N inside
   the still open capture N), every byte subject and every init, the transcription of
   stringlib.go's strFind / strMatch returns exactly the values of lstrlib's str_find_aux:
   positions, captures, position captures, nil.  (The reference raising an error is excluded:
   that is the malformed-pattern clause of the property, covered by the correspondence runs.) *)
Theorem find_refines_ref :
  forall (p : seqpat) (pb s : bytes) (init : Z),
    seq_okb p = true -> print_seq p = Some pb -> goParse pb = ParseOk p -> backrefs_ok p = true ->
    is_bytes s = true -> 1 + Z.of_nat (vm_fuel s (goCompile p)) <= maxRecursionLevel ->
    0 < len pb ->
    ref_find s pb init <> Err ->
    strFind s pb (Some init) = ref_find s pb init.
Proof. exact find_refines_ref_lemma. Qed.
Print Assumptions find_refines_ref.

Theorem match_refines_ref :
  forall (p : seqpat) (pb s : bytes) (init : Z),
    seq_okb p = true -> print_seq p = Some pb -> goParse pb = ParseOk p -> backrefs_ok p = true ->
    is_bytes s = true -> 1 + Z.of_nat (vm_fuel s (goCompile p)) <= maxRecursionLevel ->
    ref_smatch s pb init <> Err ->
    strMatch s pb (Some init) = ref_smatch s pb init.
Proof. exact match_refines_ref_lemma. Qed.
Print Assumptions match_refines_ref.

(* repl_scanner_spec: on a replacement string made of literal bytes, %0-%9 and %%, strGsubStr's
   scanner (flagScanner with flag '%' + capturedString) appends to its buffer exactly what
   lstrlib's add_s produces for the same match (whole match for %0, and for %1 without captures;
   position captures as decimal numbers; "invalid capture index" for the same references) *)
Theorem repl_scanner_spec :
  forall (src : bytes) (st e : Z) (m : list Z) (cs : caps),
    agree st m cs -> mget m 1 = 2 * e -> len m = 2 + 2 * len cs ->
    (forall j c, zth cs j = Some c -> snd c <> CAP_UNF) ->
    forall toks pre buf n1 n2,
      Forall rtok_ok toks ->
      len (rtoks_text toks) < Z.of_nat n1 -> len (rtoks_text toks) < Z.of_nat n2 ->
      repl_scan n1 src m (pre ++ rtoks_text toks) (len pre) false buf =
      match add_s n2 src (pre ++ rtoks_text toks) cs (len pre) st e with
      | Ok x => Ok (buf ++ x)
      | Err => Err | Panic => Panic | Fuel => Fuel | Unsup => Unsup
      end.
Proof. exact repl_scanner_spec_lemma. Qed.
Print Assumptions repl_scanner_spec.

(* ---- the malformed-pattern clause for back-references ("a malformed pattern yields a Lua error
   or no match"), proved for ALL patterns, subjects and starts ---- *)

(* bad_backref_is_error (VM level): for every pattern tree that pm.go's checkBackRefs accepts
   (backrefs_ok: no %N between the parentheses of capture N) with back-reference numbers >= 1
   (the parser produces 1..9), if the backtracking semantics of the pattern reaches an invalid
   back-reference -- %N where capture N has not been opened yet (a FORWARD reference such as
   "%1(a)", "(a)%2(b)") or does not exist -- then one recursiveVM run on the compiled program
   ends in pm.Error "invalid capture index": never a match, never a Go panic, whatever branches
   failed before (the lazily grown capture array cannot extend beyond the slots of the captures
   preceding the reference, BadRef.lim). *)
Theorem bad_backref_is_error :
  forall (p : seqpat) (src : bytes) (sp0 : Z) (fuel : nat),
    backrefs_ok p = true -> nums_pos (flatten_seq (patterns p)) ->
    0 <= sp0 <= len src ->
    1 + Z.of_nat fuel <= maxRecursionLevel ->
    goVM src (goCompile p) fuel 0 sp0 <> VFuel ->
    fm src (must_tail p) (flatten_seq (patterns p)) sp0 [] [] = FBad ->
    goVM src (goCompile p) fuel 0 sp0 = VErr.
Proof. exact goVM_bad. Qed.
Print Assumptions bad_backref_is_error.

(* vm_refines_ref_strict: vm_refines_ref with the error case made exact -- where lstrlib's match
   raises an error on the pattern text (for a printable tree that can only be "invalid capture
   index"), the VM run raises pm.Error; otherwise same outcome, end and captures as before *)
Theorem vm_refines_ref_strict :
  forall (p : seqpat) (text src : bytes) (sp0 : Z) (fuel : nat),
    prints (tail_text (must_tail p)) (flatten_seq (patterns p)) text ->
    backrefs_ok p = true ->
    is_bytes src = true ->
    ncaps_seq (patterns p) <= MAXCAPTURES ->
    0 <= sp0 <= len src ->
    1 + Z.of_nat fuel <= maxRecursionLevel ->
    goVM src (goCompile p) fuel 0 sp0 <> VFuel ->
    let pat := head_text (must_head p) ++ text in
    vm_ref_rel_strict src sp0 (ncaps_seq (patterns p))
               (goVM src (goCompile p) fuel 0 sp0)
               (ref_match pat src sp0 (len (head_text (must_head p)))).
Proof. exact vm_refines_ref_strict_lemma. Qed.
Print Assumptions vm_refines_ref_strict.

(* END TO END, errors included: find_refines_ref / match_refines_ref without the hypothesis that
   the reference raises no error.  For a printable pattern tree that parses back to itself and
   passes checkBackRefs, string.find / string.match of the transcription return exactly what
   lstrlib's str_find_aux returns for every byte subject and init -- positions, captures, nil,
   AND the "invalid capture index" error, raised at the same match attempt (a reference that is
   never reached gives no error in either). *)
Theorem find_refines_ref_total :
  forall (p : seqpat) (pb s : bytes) (init : Z),
    seq_okb p = true -> print_seq p = Some pb -> goParse pb = ParseOk p -> backrefs_ok p = true ->
    is_bytes s = true -> 1 + Z.of_nat (vm_fuel s (goCompile p)) <= maxRecursionLevel ->
    0 < len pb ->
    strFind s pb (Some init) = ref_find s pb init.
Proof. exact find_refines_ref_total_lemma. Qed.
Print Assumptions find_refines_ref_total.

Theorem match_refines_ref_total :
  forall (p : seqpat) (pb s : bytes) (init : Z),
    seq_okb p = true -> print_seq p = Some pb -> goParse pb = ParseOk p -> backrefs_ok p = true ->
    is_bytes s = true -> 1 + Z.of_nat (vm_fuel s (goCompile p)) <= maxRecursionLevel ->
    strMatch s pb (Some init) = ref_smatch s pb init.
Proof. exact match_refines_ref_total_lemma. Qed.
Print Assumptions match_refines_ref_total.
