(* C14 — property theorems only: statement, `exact <lemma>`, Print Assumptions. *)
From GL Require Import Common.Bytes Pm.Class Pm.PmTypes Pm.RefMatch Pm.GoParse Pm.GoCompile Pm.GoVM
     Pm.Find Pm.Gsub Pm.Flat Pm.ClassFacts Pm.FindFacts Pm.GsubFacts Pm.ParseFacts Pm.CompileFacts
     Pm.VMFacts.

(* single character classes (%a %c %d %l %p %s %u %w %x %z, their complements, and every other
   escaped byte) agree with C's <ctype.h> in the "C" locale as used by lstrlib's match_class,
   on all 256 class bytes x 256 subject bytes (finite sweep, bound stated) *)
Theorem class_agree :
  forall cl ch, 0 <= cl < 256 -> 0 <= ch < 256 ->
    go_single_matches cl ch = ref_match_class ch cl.
Proof. exact class_agree_lemma. Qed.
Print Assumptions class_agree.

(* strGsubDoReplace: for increasing non-overlapping extents the offset bookkeeping produces the
   left-to-right concatenation s[0..b1) ++ r1 ++ s[e1..b2) ++ ... ++ s[ek..len s) *)
Theorem gsub_assembly :
  forall s infos, extents_ok s 0 infos -> strGsubDoReplace s infos = assemble s 0 infos.
Proof. exact gsub_assembly_lemma. Qed.
Print Assumptions gsub_assembly.

(* Find's scan loop with limit 1 (string.find / string.match), for any VM `run` that returns on
   every start: the reported match is the one at the least start >= init *)
Theorem find_leftmost :
  forall (run : Z -> vres) srclen n init,
    total_on run srclen init -> (Z.to_nat (srclen + 1 - init) + 1 <= n)%nat ->
    (exists sp nsp ms,
        init <= sp <= srclen /\ run sp = VRet true nsp ms /\
        (forall sp', init <= sp' < sp -> fails run sp') /\
        find_loop run srclen false 1 n init [] = FOk [ms])
    \/ ((forall sp, init <= sp <= srclen -> fails run sp) /\
        find_loop run srclen false 1 n init [] = FOk []).
Proof. exact find_leftmost_lemma. Qed.
Print Assumptions find_leftmost.

(* unlimited scan (gmatch, gsub): every hit is the leftmost one from where the scan resumed;
   the scan resumes at the end of a non-empty match and one byte later after an empty one *)
Theorem find_advance :
  forall (run : Z -> vres) srclen n init limit,
    limit < 0 -> total_on run srclen init -> (Z.to_nat (srclen + 1 - init) + 1 <= n)%nat ->
    exists l, find_loop run srclen false limit n init [] = FOk l /\ scan_rel run srclen init limit l.
Proof. exact find_advance_lemma. Qed.
Print Assumptions find_advance.

(* the same with a positive limit k (gsub's 4th argument): the first k hits *)
Theorem find_limited :
  forall (run : Z -> vres) srclen n sp acc limit,
    0 <= len acc -> limit <> len acc -> (limit < 0 \/ len acc < limit) ->
    total_on run srclen sp -> (Z.to_nat (srclen + 1 - sp) + 1 <= n)%nat ->
    exists l, find_loop run srclen false limit n sp acc = FOk (acc ++ l)
              /\ scan_rel run srclen sp (limit - len acc) l.
Proof. exact find_loop_unanchored. Qed.
Print Assumptions find_limited.

(* anchored pattern: exactly one attempt, at the start position *)
Theorem find_anchored :
  forall (run : Z -> vres) srclen n sp limit,
    sp <= srclen -> total_on run srclen sp -> (1 <= n)%nat ->
    (exists nsp ms, run sp = VRet true nsp ms /\ find_loop run srclen true limit n sp [] = FOk [ms])
    \/ (fails run sp /\ find_loop run srclen true limit n sp [] = FOk []).
Proof. exact find_loop_anchored. Qed.
Print Assumptions find_anchored.

(* parsePattern is total: on every byte string it returns a pattern or raises a pm.Error *)
Theorem bad_pattern_total : forall p : bytes, goParse p <> ParseFuel.
Proof. exact bad_pattern_total_lemma. Qed.
Print Assumptions bad_pattern_total.

(* compilePattern: the program starts with Save 0, ends with Match, every jump target is inside
   the program and every other instruction has a successor *)
Theorem compile_shape :
  forall p : seqpat,
    let prog := goCompile p in
    zth prog 0 = Some (ISave 0) /\
    zth prog (len prog - 1) = Some IMatch /\
    forall pc i, zth prog pc = Some i -> inst_in_range (len prog) pc i.
Proof. exact compile_shape_lemma. Qed.
Print Assumptions compile_shape.

(* the capture counter advances by two slots per capture (slots 2k+2 / 2k+3 for capture k) *)
Theorem compile_capture_slots :
  forall l st, snd (compile_seq l st) = snd st + 2 * ncaps_seq l.
Proof. exact compile_seq_caps. Qed.
Print Assumptions compile_capture_slots.

(* VM side of the refinement, captures included: one recursiveVM call from pc 0 on the compiled
   program of ANY parsed pattern tree computes the backtracking semantics Flat.fm of the
   flattened tree: same end position, every capture extent in its slots, exact slice length.
   (Out-of-fuel excluded by hypothesis; the recursion cap is not reached for fuel < 10^6.) *)
Theorem vm_refines_flat :
  forall (p : seqpat) (src : bytes) (sp0 : Z) (fuel : nat),
    0 <= sp0 <= len src ->
    1 + Z.of_nat fuel <= maxRecursionLevel ->
    goVM src (goCompile p) fuel 0 sp0 <> VFuel ->
    match fm src (must_tail p) (flatten_seq (patterns p)) sp0 [] [] with
    | FFail => exists sp' m', goVM src (goCompile p) fuel 0 sp0 = VRet false sp' m'
    | FMatch e cs =>
        exists m', goVM src (goCompile p) fuel 0 sp0 = VRet true e m' /\
                   agree sp0 m' cs /\ mget m' 1 = 2 * e /\
                   len m' = 2 + 2 * ncaps_seq (patterns p) /\
                   len cs = ncaps_seq (patterns p) /\
                   (forall j c, zth cs j = Some c -> snd c <> CAP_UNF) /\ sp0 <= e <= len src
    | FBad => True
    end.
Proof. exact goVM_flat. Qed.
Print Assumptions vm_refines_flat.
