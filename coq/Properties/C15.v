(* C15 — property theorems only: statement, `exact <lemma>`, Print Assumptions. *)
From GL Require Import Common.Bytes Str.StrModel Str.StrFacts.

Theorem sub_correct : forall s i j, strSub s i j = sub_spec s i j.
Proof. exact sub_correct_lemma. Qed.
Print Assumptions sub_correct.

Theorem byte_correct : forall s oi oj, strByte s oi oj = byte_spec s oi oj.
Proof. exact byte_correct_lemma. Qed.
Print Assumptions byte_correct.

Theorem find_plain_correct : forall s p oi, strFindPlain s p oi = find_plain_spec s p oi.
Proof. exact find_plain_correct_lemma. Qed.
Print Assumptions find_plain_correct.

Theorem rep_correct : forall s n, strRep s n = rep_spec s n.
Proof. exact rep_correct_lemma. Qed.
Print Assumptions rep_correct.

Theorem rep_len : forall s n, len (strRep s n) = Z.max 0 n * len s.
Proof. exact rep_len_lemma. Qed.
Print Assumptions rep_len.

Theorem reverse_involutive : forall s, strReverse (strReverse s) = s.
Proof. exact reverse_involutive_lemma. Qed.
Print Assumptions reverse_involutive.

Theorem reverse_nth : forall s k, 0 <= k < len s -> zth (strReverse s) k = zth s (len s - 1 - k).
Proof. exact reverse_nth_lemma. Qed.
Print Assumptions reverse_nth.

Theorem upper_lower_len : forall s, len (strUpper s) = len s /\ len (strLower s) = len s.
Proof. exact upper_lower_len_lemma. Qed.
Print Assumptions upper_lower_len.

Theorem upper_high_bytes : forall b, 128 <= b -> toupper_c b = b /\ tolower_c b = b.
Proof. exact upper_high_bytes_lemma. Qed.
Print Assumptions upper_high_bytes.

Theorem char_byte_roundtrip : forall l, is_bytes l = true -> strByte (strChar l) (Some 1) (Some (-1)) = l.
Proof. exact char_byte_roundtrip_lemma. Qed.
Print Assumptions char_byte_roundtrip.

(* ---------- string.format (FormatModel.v: fmt_dir false = C's printf, fmt_dir true = gopher-lua) ---------- *)
From GL Require Import Str.FormatModel Str.FormatFacts Str.FormatRoundtrip.

Theorem format_d_roundtrip : forall go z, in_int64 z = true ->
  exists s, format go [37; 100] [zarg z] = FOk s /\ parse_int s = z.
Proof. exact format_d_roundtrip_lemma. Qed.
Print Assumptions format_d_roundtrip.

(* ... and under ANY flags, width and precision, once the blanks of the field are stripped *)
Theorem format_d_roundtrip_all : forall go sp z, parse_int (strip (fmt_signed go sp z)) = z.
Proof. exact format_d_roundtrip_all_lemma. Qed.
Print Assumptions format_d_roundtrip_all.

Theorem format_digits_value : forall base upper n, 2 <= base <= 16 -> 0 <= n ->
  of_digits base (digits base upper n) = n.
Proof. exact of_digits_digits. Qed.
Print Assumptions format_digits_value.

Theorem format_width : forall go sp a out,
  fmt_dir go sp a = Some out -> owidth (d_width sp) <= len out.
Proof. exact format_width_lemma. Qed.
Print Assumptions format_width.

Theorem format_left_right_pad : forall go sp a body,
  f_minus sp = true \/ f_zero sp = false ->
  fmt_dir go (set_width sp None) a = Some body ->
  fmt_dir go sp a = Some (pad (f_minus sp) (d_width sp) body).
Proof. exact format_left_right_pad_lemma. Qed.
Print Assumptions format_left_right_pad.

Theorem format_zero_pad_digits : forall go sp z w,
  f_zero sp = true -> f_minus sp = false -> d_prec sp = None -> d_width sp = Some w ->
  let sign := sign_of sp (z <? 0) in
  let ds := digits 10 false (Z.abs z) in
  fmt_signed go sp z = sign ++ zeros (w - len sign - len ds) ++ ds /\
  len (fmt_signed go sp z) = Z.max w (len sign + len ds) /\
  of_digits 10 (zeros (w - len sign - len ds) ++ ds) = Z.abs z.
Proof. exact format_zero_pad_digits_lemma. Qed.
Print Assumptions format_zero_pad_digits.

Theorem format_precision_digits : forall go sp z p,
  d_prec sp = Some p -> (p <> 0 \/ z <> 0) ->
  let ds := digits 10 false (Z.abs z) in
  fmt_signed go sp z =
    pad (f_minus sp) (d_width sp) (sign_of sp (z <? 0) ++ zeros (p - len ds) ++ ds) /\
  len (zeros (p - len ds) ++ ds) = Z.max p (len ds) /\
  of_digits 10 (zeros (p - len ds) ++ ds) = Z.abs z.
Proof. exact format_precision_digits_lemma. Qed.
Print Assumptions format_precision_digits.

Theorem format_percent : forall go args, format go [37; 37] args = FOk [37].
Proof. exact format_percent_lemma. Qed.
Print Assumptions format_percent.

Theorem format_hex_octal_roundtrip : forall go z, in_int64 z = true ->
  fmt_dir go (plain 120) (zarg z) = Some (digits 16 false (z mod two64)) /\
  fmt_dir go (plain 88) (zarg z) = Some (digits 16 true (z mod two64)) /\
  fmt_dir go (plain 111) (zarg z) = Some (digits 8 false (z mod two64)) /\
  of_digits 16 (digits 16 false (z mod two64)) = z mod two64 /\
  of_digits 16 (digits 16 true (z mod two64)) = z mod two64 /\
  of_digits 8 (digits 8 false (z mod two64)) = z mod two64 /\
  (0 <= z -> z mod two64 = z) /\ (z < 0 -> z mod two64 = z + two64).
Proof. exact format_hex_roundtrip_lemma. Qed.
Print Assumptions format_hex_octal_roundtrip.

Theorem format_extra_args_ignored : forall go f args extra o,
  format go f args = FOk o -> format go f (args ++ extra) = FOk o.
Proof. exact format_extra_args_ignored_lemma. Qed.
Print Assumptions format_extra_args_ignored.

Theorem format_missing_arg_errors : forall go f args,
  ndirs (parse_fmt (length f) f) > len args ->
  format go f args = FErr \/ format go f args = FUnsupported.
Proof. exact format_missing_arg_errors_lemma. Qed.
Print Assumptions format_missing_arg_errors.

(* gopher-lua's string.format (go = true) is C's printf (go = false) on every directive C defines;
   in fact on every directive except a zero-filled %s / %c (undefined in C) *)
Theorem format_impl_eq_spec : forall sp a,
  c_defined sp a = true -> fmt_dir true sp a = fmt_dir false sp a.
Proof. exact format_impl_eq_spec_lemma. Qed.
Print Assumptions format_impl_eq_spec.

Theorem format_impl_eq_spec_strong : forall sp a,
  verb_in (d_verb sp) [99; 115] && (f_zero sp && negb (f_minus sp)) = false ->
  fmt_dir true sp a = fmt_dir false sp a.
Proof. exact format_impl_eq_spec_strong_lemma. Qed.
Print Assumptions format_impl_eq_spec_strong.

(* numeric strings are converted for numeric conversions, other strings raise *)
Theorem format_numeric_string : forall go sp s n rest its,
  numeric_verb (d_verb sp) = true -> valid_verb (d_verb sp) = true ->
  run_items go (IDir sp :: its) (AConv s (Some n) :: rest) = run_items go (IDir sp :: its) (ANum n :: rest) /\
  run_items go (IDir sp :: its) (AConv s None :: rest) = FErr.
Proof. exact format_numeric_string_lemma. Qed.
Print Assumptions format_numeric_string.

Theorem format_invalid_option : forall go sp a rest its,
  valid_verb (d_verb sp) = false -> run_items go (IDir sp :: its) (a :: rest) = FErr.
Proof. exact format_invalid_option_lemma. Qed.
Print Assumptions format_invalid_option.

(* ---------- math library (MathWModel.v) ---------- *)
From GL Require Import Str.MathWModel Str.MathWFacts Str.MathWOrder.

Theorem max_spec : forall num ltb (ok : num -> Prop),
  (forall a, ok a -> ltb a a = false) ->
  (forall a b, ok a -> ok b -> ltb a b = true -> ltb b a = false) ->
  (forall a b c, ok a -> ok b -> ok c -> le num ltb a b -> ltb b c = true -> ltb a c = true) ->
  forall x r, Forall ok (x :: r) ->
  exists res, mathMax num ltb (x :: r) = MOk [res] /\ In res (x :: r) /\
              forall a, In a (x :: r) -> le num ltb a res.
Proof. exact max_spec_lemma. Qed.
Print Assumptions max_spec.

Theorem min_spec : forall num ltb (ok : num -> Prop),
  (forall a, ok a -> ltb a a = false) ->
  (forall a b, ok a -> ok b -> ltb a b = true -> ltb b a = false) ->
  (forall a b c, ok a -> ok b -> ok c -> ltb a b = true -> le num ltb b c -> ltb a c = true) ->
  forall x r, Forall ok (x :: r) ->
  exists res, mathMin num ltb (x :: r) = MOk [res] /\ In res (x :: r) /\
              forall a, In a (x :: r) -> le num ltb res a.
Proof. exact min_spec_lemma. Qed.
Print Assumptions min_spec.

(* the same for the model that is run against the code (Go's < on the dyadic view of float64 is a
   strict weak order on non-NaN values: proved, no hypothesis left) *)
Theorem max_spec_run : forall x r, Forall not_nan (x :: r) ->
  exists res, run_math MMax (x :: r) = MOk [res] /\ In res (x :: r) /\
              forall a, In a (x :: r) -> num_ltb res a = false.
Proof. exact max_spec_num_lemma. Qed.
Print Assumptions max_spec_run.

Theorem min_spec_run : forall x r, Forall not_nan (x :: r) ->
  exists res, run_math MMin (x :: r) = MOk [res] /\ In res (x :: r) /\
              forall a, In a (x :: r) -> num_ltb a res = false.
Proof. exact min_spec_num_lemma. Qed.
Print Assumptions min_spec_run.

Theorem random_in_range : forall num (toInt : num -> Z) ofInt draw,
  (forall k r, draw k = Some r -> 0 <= r < k) ->
  (forall k, 0 < k -> exists r, draw k = Some r) ->
  forall m n rest, toInt m <= toInt n ->
  exists r, mathRandom num toInt ofInt draw (m :: n :: rest) = MOk [ofInt r] /\
            toInt m <= r <= toInt n.
Proof. exact random_in_range_lemma. Qed.
Print Assumptions random_in_range.

Theorem random_empty_interval_errors : forall num (toInt : num -> Z) ofInt draw,
  (forall k, k <= 0 -> draw k = None) ->
  forall m n rest, toInt n < toInt m ->
  mathRandom num toInt ofInt draw (m :: n :: rest) = MErr.
Proof. exact random_empty_interval_errors_lemma. Qed.
Print Assumptions random_empty_interval_errors.

Theorem random1_in_range : forall num (toInt : num -> Z) ofInt draw,
  (forall k r, draw k = Some r -> 0 <= r < k) ->
  (forall k, 0 < k -> exists r, draw k = Some r) ->
  forall n, 1 <= toInt n ->
  exists r, mathRandom num toInt ofInt draw [n] = MOk [ofInt r] /\ 1 <= r <= toInt n.
Proof. exact random1_in_range_lemma. Qed.
Print Assumptions random1_in_range.

Theorem floor_ceil_bracket : forall num ltb (Floor Ceil : num -> num) (add : num -> num -> num) (one : num)
                                    (finite integral : num -> Prop),
  (forall x, finite x ->
     integral (Floor x) /\ le num ltb (Floor x) x /\ ltb x (add (Floor x) one) = true) ->
  (forall x, finite x ->
     integral (Ceil x) /\ le num ltb x (Ceil x) /\ ltb (Ceil x) (add x one) = true) ->
  forall x rest, finite x ->
  (exists r, mathFloor num Floor (x :: rest) = MOk [r] /\
             integral r /\ le num ltb r x /\ ltb x (add r one) = true) /\
  (exists r, mathCeil num Ceil (x :: rest) = MOk [r] /\
             integral r /\ le num ltb x r /\ ltb r (add x one) = true).
Proof. exact floor_ceil_bracket_lemma. Qed.
Print Assumptions floor_ceil_bracket.

Theorem fmod_sign : forall num ltb (Mod : num -> num -> num) (absn : num -> num) (finite is_zero : num -> Prop)
                           (same_sign : num -> num -> Prop),
  (forall x y, finite x -> finite y -> ~ is_zero y ->
     same_sign (Mod x y) x /\ ltb (absn (Mod x y)) (absn y) = true) ->
  forall x y rest, finite x -> finite y -> ~ is_zero y ->
  exists r, mathFmod num Mod (x :: y :: rest) = MOk [r] /\
            same_sign r x /\ ltb (absn r) (absn y) = true.
Proof. exact fmod_sign_lemma. Qed.
Print Assumptions fmod_sign.

Theorem modf_recompose : forall num ltb (Modf : num -> num * num) is_inf zero_like
                                (add : num -> num -> num) (one : num) (absn : num -> num)
                                (finite integral : num -> Prop) (same_sign : num -> num -> Prop),
  (forall x, finite x ->
     integral (fst (Modf x)) /\ add (fst (Modf x)) (snd (Modf x)) = x /\
     ltb (absn (snd (Modf x))) one = true /\
     same_sign (fst (Modf x)) x /\ same_sign (snd (Modf x)) x) ->
  (forall x, finite x -> is_inf x = false) ->
  forall x rest, finite x ->
  exists i f, mathModf num Modf is_inf zero_like (x :: rest) = MOk [i; f] /\
              integral i /\ add i f = x /\ ltb (absn f) one = true /\
              same_sign i x /\ same_sign f x.
Proof. exact modf_recompose_lemma. Qed.
Print Assumptions modf_recompose.

Theorem modf_infinity : forall num (Modf : num -> num * num) is_inf zero_like x rest,
  is_inf x = true -> mathModf num Modf is_inf zero_like (x :: rest) = MOk [x; zero_like x].
Proof. exact modf_inf_lemma. Qed.
Print Assumptions modf_infinity.

Theorem frexp_recompose : forall num ltb ofInt (Frexp : num -> num * Z) (Ldexp : num -> Z -> num)
                                 (one half : num) (absn : num -> num) (finite is_zero : num -> Prop),
  (forall x, finite x -> ~ is_zero x ->
     Ldexp (fst (Frexp x)) (snd (Frexp x)) = x /\
     le num ltb half (absn (fst (Frexp x))) /\ ltb (absn (fst (Frexp x))) one = true) ->
  forall x rest, finite x -> ~ is_zero x ->
  exists m e, mathFrexp num Frexp ofInt (x :: rest) = MOk [m; ofInt e] /\
              Ldexp m e = x /\ le num ltb half (absn m) /\ ltb (absn m) one = true.
Proof. exact frexp_recompose_lemma. Qed.
Print Assumptions frexp_recompose.

Theorem ldexp_spec : forall num (toInt : num -> Z) (Ldexp : num -> Z -> num) x e rest,
  mathLdexp num Ldexp toInt (x :: e :: rest) = MOk [Ldexp x (clamp_exp (toInt e))] /\
  mathLdexp num Ldexp toInt [x] = MErr /\ mathLdexp num Ldexp toInt [] = MErr.
Proof. exact ldexp_spec_lemma. Qed.
Print Assumptions ldexp_spec.

(* the exact dyadic reference functions that stand in for Go's math.* when the model is run *)
Theorem floor_ref_bracket : forall neg m e, 0 < m -> e < 0 ->
  let s := sgn_m neg m in
  let f := s / 2 ^ (- e) in
  ref_floor (NFin neg m e) = of_Z f /\ f * 2 ^ (- e) <= s < (f + 1) * 2 ^ (- e).
Proof. exact ref_floor_exact. Qed.
Print Assumptions floor_ref_bracket.

Theorem ceil_ref_bracket : forall neg m e, 0 < m -> e < 0 ->
  let s := sgn_m neg m in
  let c := - ((- s) / 2 ^ (- e)) in
  (c - 1) * 2 ^ (- e) < s <= c * 2 ^ (- e) /\
  ref_ceil (NFin neg m e) = (if c =? 0 then NFin neg 0 0 else of_Z c).
Proof. exact ref_ceil_exact. Qed.
Print Assumptions ceil_ref_bracket.

Theorem fmod_ref_exact : forall s1 m1 e1 s2 m2 e2, 0 <= m1 -> 0 < m2 ->
  let '(a, b, e0) := align m1 e1 m2 e2 in
  ref_fmod (NFin s1 m1 e1) (NFin s2 m2 e2) = NFin s1 (a mod b) e0 /\
  0 <= a mod b < b /\ (b | a - a mod b) /\
  a = m1 * 2 ^ (e1 - e0) /\ b = m2 * 2 ^ (e2 - e0) /\ e0 <= e1 /\ e0 <= e2.
Proof. exact ref_fmod_exact. Qed.
Print Assumptions fmod_ref_exact.

Theorem modf_ref_recompose : forall neg m e, 0 <= m -> e < 0 ->
  let q := m / 2 ^ (- e) in
  let r := m mod 2 ^ (- e) in
  ref_modf (NFin neg m e) = (NFin neg q 0, NFin neg r e) /\
  m = q * 2 ^ (- e) + r /\ 0 <= r < 2 ^ (- e).
Proof. exact ref_modf_exact. Qed.
Print Assumptions modf_ref_recompose.

Theorem frexp_ref_recompose : forall neg m e, 0 < m ->
  let k := bitlen m in
  ref_frexp (NFin neg m e) = (NFin neg m (- k), e + k) /\
  2 ^ (k - 1) <= m < 2 ^ k /\ (- k) + (e + k) = e.
Proof. exact ref_frexp_exact. Qed.
Print Assumptions frexp_ref_recompose.

(* math.ldexp: the Z-level rounding that stands in for Go's math.Ldexp when the model is run *)
From GL Require Import Str.MathWLdexp.

(* frexp's parts recompose exactly through ldexp, for every binary64 x = (-1)^neg * m * 2^e *)
Theorem ldexp_ref_frexp_roundtrip : forall neg m e,
  0 < m < 2 ^ 53 -> -1074 <= e -> bitlen m + e <= 1024 ->
  ref_ldexp_z (fst (ref_frexp (NFin neg m e))) (snd (ref_frexp (NFin neg m e))) = NFin neg m e.
Proof. exact ref_ldexp_frexp_lemma. Qed.
Print Assumptions ldexp_ref_frexp_roundtrip.

(* a product x * 2^k that binary64 holds is returned exactly *)
Theorem ldexp_ref_exact : forall neg m e k,
  0 < m < 2 ^ 53 -> -1074 <= e + k -> bitlen m + (e + k) <= 1024 ->
  ref_ldexp_z (NFin neg m e) k = NFin neg m (e + k).
Proof. exact ref_ldexp_exact_lemma. Qed.
Print Assumptions ldexp_ref_exact.

(* otherwise it is rounded once to the nearest binary64, ties to even, zero and the infinity at the ends *)
Theorem ldexp_ref_rounds : forall neg m e k, 0 < m ->
  let E := e + k in
  let q := Z.max (E + bitlen m - 53) (-1074) in
  E < q ->
  let m' := rne_shift m (q - E) in
  2 * Z.abs (m - m' * 2 ^ (q - E)) <= 2 ^ (q - E) /\
  (2 * Z.abs (m - m' * 2 ^ (q - E)) = 2 ^ (q - E) -> Z.even m' = true) /\
  ref_ldexp_z (NFin neg m e) k =
    (if m' =? 0 then NFin neg 0 0 else if 1024 <? bitlen m' + q then NInf neg else NFin neg m' q).
Proof. exact ref_ldexp_rounds_lemma. Qed.
Print Assumptions ldexp_ref_rounds.

(* a finite result is a binary64 number with the sign of x *)
Theorem ldexp_ref_format : forall neg m E s m' E', 0 <= m ->
  round64 neg m E = NFin s m' E' ->
  s = neg /\ 0 <= m' <= 2 ^ 53 /\ (m' = 0 \/ (-1074 <= E' /\ bitlen m' + E' <= 1024)).
Proof. exact round64_format. Qed.
Print Assumptions ldexp_ref_format.

(* mathLdexp's clamp of the exponent to +-4096 (guard against math.Ldexp's exponent sum wrapping
   around) never changes the result on a binary64 argument *)
Theorem ldexp_ref_clamp : forall neg m e k, 0 <= m < 2 ^ 53 -> -1074 <= e <= 971 ->
  ref_ldexp_z (NFin neg m e) (clamp_exp k) = ref_ldexp_z (NFin neg m e) k.
Proof. exact ref_ldexp_clamp_lemma. Qed.
Print Assumptions ldexp_ref_clamp.
