(* C15 — property theorems only: statement, `exact <lemma>`, Print Assumptions. *)
From GL Require Import Common.Bytes Str.StrModel Str.StrFacts.

Theorem sub_correct : forall s i j, strSub s i j = sub_spec s i j.
Proof. exact sub_correct_lemma. Qed.
Print Assumptions sub_correct.

Theorem byte_correct : forall s oi oj, strByte s oi oj = byte_spec s oi oj.
Proof. exact byte_correct_lemma. Qed.
Print Assumptions byte_correct.

Theorem find_plain_correct : forall s p oi, strFindPlain s p oi = find_plain_spec s p oi.
Proof. exact find_plain_correct_lemma. Qed.
Print Assumptions find_plain_correct.

Theorem rep_correct : forall s n, strRep s n = rep_spec s n.
Proof. exact rep_correct_lemma. Qed.
Print Assumptions rep_correct.

Theorem rep_len : forall s n, len (strRep s n) = Z.max 0 n * len s.
Proof. exact rep_len_lemma. Qed.
Print Assumptions rep_len.

Theorem reverse_involutive : forall s, strReverse (strReverse s) = s.
Proof. exact reverse_involutive_lemma. Qed.
Print Assumptions reverse_involutive.

Theorem reverse_nth : forall s k, 0 <= k < len s -> zth (strReverse s) k = zth s (len s - 1 - k).
Proof. exact reverse_nth_lemma. Qed.
Print Assumptions reverse_nth.

Theorem upper_lower_len : forall s, len (strUpper s) = len s /\ len (strLower s) = len s.
Proof. exact upper_lower_len_lemma. Qed.
Print Assumptions upper_lower_len.

Theorem upper_high_bytes : forall b, 128 <= b -> toupper_c b = b /\ tolower_c b = b.
Proof. exact upper_high_bytes_lemma. Qed.
Print Assumptions upper_high_bytes.

Theorem char_byte_roundtrip : forall l, is_bytes l = true -> strByte (strChar l) (Some 1) (Some (-1)) = l.
Proof. exact char_byte_roundtrip_lemma. Qed.
Print Assumptions char_byte_roundtrip.
