(* C19 — property theorems only: statement, `exact <lemma>`, Print Assumptions.
   irun/istep: the transcription of iolib.go's file handle (IoImpl.v), [ch] the chunking of read(2);
   srun/sstep: a cursor over one byte sequence (IoSpec.v), [false] = Lua 5.1's line rule;
   abs_content/abs_pos/abs_h: the byte sequence and cursor a handle state stands for. *)
From GL Require Import Common.Bytes Io.IoSpec Io.IoImpl Io.IoSys Io.IoReadFacts Io.IoRefine Io.IoTheorems.

(* Every disciplined history (a positioning op or flush between a read and a following write; a
   read after a write needs nothing) on a freshly opened handle, in every mode, on a file of
   any size, under ANY chunking of the reads: each operation returns what the cursor model returns
   and the state keeps standing for the model's contents and cursor.  (No "\r" in the file or the
   written strings; no exponent part next to a "*n" read.) *)
Theorem io_refines : forall (ch : Z -> Z -> Z -> Z) m init ops,
  disc1 LNone ops = true ->
  cr_free init = true -> forallb op_cr_free ops = true ->
  supported (spec_results false (fst (s_open m init)) (snd (s_open m init)) ops) = true ->
  let '(d', h', rs) := irun ch (fst (i_open m init)) (snd (i_open m init)) ops in
  let '(c', s', rs') := srun false (fst (s_open m init)) (snd (s_open m init)) ops in
  rs = rs' /\ c' = abs_content d' h' /\ s' = abs_h d' h'.
Proof. exact io_refines_lemma. Qed.
Print Assumptions io_refines.

(* The same for arbitrary bytes, against the cursor model with the code's line rule
   (a "\r" before the line's "\n" is dropped too). *)
Theorem io_refines_crlf : forall (ch : Z -> Z -> Z -> Z) m init ops,
  disc1 LNone ops = true ->
  supported (spec_results true (fst (s_open m init)) (snd (s_open m init)) ops) = true ->
  let '(d', h', rs) := irun ch (fst (i_open m init)) (snd (i_open m init)) ops in
  let '(c', s', rs') := srun true (fst (s_open m init)) (snd (s_open m init)) ops in
  rs = rs' /\ c' = abs_content d' h' /\ s' = abs_h d' h'.
Proof. exact io_refines_crlf_lemma. Qed.
Print Assumptions io_refines_crlf.

(* One step from any reachable state (the invariant), any operation the discipline allows. *)
Theorem io_step_refines : forall (ch : Z -> Z -> Z -> Z) disk h l l' o d' h' r c' s' r',
  Inv disk h -> (l = LNone -> pending h = []) ->
  disc1_step l o = Some l' ->
  istep ch disk h o = (d', h', r) ->
  sstep true (abs_content disk h) (abs_h disk h) o = (c', s', r') ->
  r' <> RUnsupported ->
  Inv d' h' /\ (l' = LNone -> pending h' = []) /\
  c' = abs_content d' h' /\ s' = abs_h d' h' /\ r = r'.
Proof. exact step_sim. Qed.
Print Assumptions io_step_refines.

(* After flush or close the file holds exactly the model's bytes, and a newly opened handle
   reads them (also with a buffered writer: setvbuf "full"/"line"). *)
Theorem visible_after_flush_close : forall (ch : Z -> Z -> Z -> Z) m init ops o,
  (o = OFlush \/ o = OClose) ->
  disc1 LNone (ops ++ [o]) = true ->
  supported (spec_results true (fst (s_open m init)) (snd (s_open m init)) (ops ++ [o])) = true ->
  let '(d', h', _) := irun ch (fst (i_open m init)) (snd (i_open m init)) (ops ++ [o]) in
  let '(c', _, _) := srun true (fst (s_open m init)) (snd (s_open m init)) (ops ++ [o]) in
  d' = c' /\
  forall m2, mode_rd m2 = true -> mode_trunc m2 = false ->
    snd (istep ch (fst (i_open m2 d')) (snd (i_open m2 d')) (ORead [FAll])) = RVals [VStr c'].
Proof. exact visible_after_flush_close_lemma. Qed.
Print Assumptions visible_after_flush_close.

(* ... and the whole disciplined history of a handle opened after that flush/close runs against
   the bytes the model has (the first handle idle meanwhile). *)
Theorem second_handle_refines : forall (ch : Z -> Z -> Z -> Z) m init ops o m2 ops2,
  (o = OFlush \/ o = OClose) ->
  disc1 LNone (ops ++ [o]) = true ->
  supported (spec_results true (fst (s_open m init)) (snd (s_open m init)) (ops ++ [o])) = true ->
  disc1 LNone ops2 = true ->
  let '(d1, _, _) := irun ch (fst (i_open m init)) (snd (i_open m init)) (ops ++ [o]) in
  let '(c1, _, _) := srun true (fst (s_open m init)) (snd (s_open m init)) (ops ++ [o]) in
  supported (spec_results true (fst (s_open m2 c1)) (snd (s_open m2 c1)) ops2) = true ->
  let '(d', h', rs) := irun ch (fst (i_open m2 d1)) (snd (i_open m2 d1)) ops2 in
  let '(c', s', rs') := srun true (fst (s_open m2 c1)) (snd (s_open m2 c1)) ops2 in
  rs = rs' /\ c' = abs_content d' h' /\ s' = abs_h d' h'.
Proof. exact second_handle_refines_lemma. Qed.
Print Assumptions second_handle_refines.

(* End of file is nil, and a count/line read gives nil only there. *)
Theorem eof_is_nil : forall (ch : Z -> Z -> Z -> Z) disk h f,
  Inv disk h -> i_closed h = false -> i_rd h = true -> pending h = [] -> eof_fmt f = true ->
  (len disk <= abs_pos disk h -> snd (istep ch disk h (ORead [f])) = RVals [VNil]) /\
  (f <> FNum -> snd (istep ch disk h (ORead [f])) = RVals [VNil] -> len disk <= abs_pos disk h).
Proof. exact eof_is_nil_lemma. Qed.
Print Assumptions eof_is_nil.

(* seek returns the resulting offset (pending buffered bytes and read-ahead accounted for);
   a negative target fails and moves nothing. *)
Theorem seek_returns_offset : forall (ch : Z -> Z -> Z -> Z) disk h w off d' h' r,
  Inv disk h -> i_closed h = false ->
  istep ch disk h (OSeek w off) = (d', h', r) ->
  let t := seek_target w off (abs_pos disk h) (len (abs_content disk h)) in
  abs_content d' h' = abs_content disk h /\
  (0 <= t -> r = ROff t /\ abs_pos d' h' = t) /\
  (t < 0 -> r = RFail /\ abs_pos d' h' = abs_pos disk h).
Proof. exact seek_returns_offset_lemma. Qed.
Print Assumptions seek_returns_offset.

(* In append mode a write lands at the end wherever the cursor was, and the cursor follows. *)
Theorem append_writes_at_end : forall (ch : Z -> Z -> Z -> Z) disk h ss d' h' r,
  Inv disk h -> i_closed h = false -> i_wr h = true -> i_app h = true ->
  istep ch disk h (OWrite ss) = (d', h', r) ->
  r = RTrue /\ abs_content d' h' = abs_content disk h ++ concat ss /\
  (concat ss <> [] -> abs_pos d' h' = len (abs_content d' h')).
Proof. exact append_writes_at_end_lemma. Qed.
Print Assumptions append_writes_at_end.

(* Every method of a closed handle, and every step of a lines iterator obtained before the close
   ([ONext]), raises and touches neither the file nor the handle.  [rbuf h = []] is what close
   establishes (next theorem): the read-ahead is given up, so such an iterator has nothing to
   return. *)
Theorem closed_handle_raises : forall (ch : Z -> Z -> Z -> Z) ops disk h,
  i_closed h = true -> rbuf h = [] -> irun ch disk h ops = (disk, h, map (fun _ => RRaise) ops).
Proof. exact closed_run_raises. Qed.
Print Assumptions closed_handle_raises.

Theorem close_closes_handle : forall (ch : Z -> Z -> Z -> Z) disk h d' h' r,
  Inv disk h -> i_closed h = false -> istep ch disk h OClose = (d', h', r) ->
  i_closed h' = true /\ rbuf h' = [] /\ r = RTrue.
Proof. exact close_closes. Qed.
Print Assumptions close_closes_handle.

(* The statement at full strength, [io_refines_full] (IoTheorems.v: io_refines without the
   hypothesis on "\r"), is false of the code as it is; the theorem after this one gives the
   witness (finding C19-3). *)
Theorem io_refines_full_refuted : ~ io_refines_full.
Proof. exact io_refines_full_refuted_lemma. Qed.
Print Assumptions io_refines_full_refuted.

(* C19-3 (listed): io_refines fails without "no \r in the file": read("*l") on "abc\r\nx". *)
Theorem io_refines_cr_refuted :
  exists m init ops,
    disc1 LNone ops = true /\ forallb op_cr_free ops = true /\
    supported (spec_results false (fst (s_open m init)) (snd (s_open m init)) ops) = true /\
    ~ refines_on ch_full m init ops.
Proof. exact io_refines_cr_refuted_lemma. Qed.
Print Assumptions io_refines_cr_refuted.
