(* C17 — property theorems only: statement, `exact <lemma>`, Print Assumptions. *)
From GL Require Import Common.Bytes Dbg.Lines Dbg.LinesFacts Dbg.Layout Dbg.LayoutFacts
  Dbg.Scope Dbg.ScopeFacts Dbg.DbgLocals Dbg.DbgLocalsFacts Dbg.ScanLines.
From GL Require Front.Lexer.

(* The line of a token of a rendered program, in closed form: 1 + the newline sequences of the
   separators up to and including its own + those inside the tokens before it. *)
Theorem line_of_offset_render : forall toks lay i,
  Forall tok_ok toks -> List.length lay = List.length toks -> (i < List.length toks)%nat ->
  tok_line toks lay i = tok_line_closed toks lay i.
Proof. exact line_of_offset_render_lemma. Qed.
Print Assumptions line_of_offset_render.

(* Line information is a function of token positions only: giving the separator before token i
   k more newline sequences moves tokens i, i+1, ... down by exactly k lines and no others. *)
Theorem layout_shift : forall toks lay lay' i k j,
  Forall tok_ok toks -> List.length lay = List.length toks ->
  same_except lay lay' i -> (i < List.length toks)%nat ->
  nl_count (nth i lay' []) = nl_count (nth i lay []) + k ->
  (j < List.length toks)%nat ->
  tok_line toks lay' j = tok_line toks lay j + (if (i <=? j)%nat then k else 0).
Proof. exact layout_shift_lemma. Qed.
Print Assumptions layout_shift.

Theorem layout_shift_insert : forall toks lay i x j,
  Forall tok_ok toks -> List.length lay = List.length toks -> (i < List.length toks)%nat ->
  (x = [] \/ is_nl (last x 0) = false \/ is_nl (hd 0 (nth i lay [])) = false) ->
  (j < List.length toks)%nat ->
  tok_line toks (insert_sep lay i x) j =
  tok_line toks lay j + (if (i <=? j)%nat then nl_count x else 0).
Proof. exact layout_shift_insert_lemma. Qed.
Print Assumptions layout_shift_insert.

Theorem admissible_range_shift : forall toks lay lay' i k (s : stmt),
  Forall tok_ok toks -> List.length lay = List.length toks ->
  same_except lay lay' i -> (i < List.length toks)%nat ->
  nl_count (nth i lay' []) = nl_count (nth i lay []) + k ->
  0 <= fst s -> fst s <= snd s -> snd s < len toks ->
  admissible toks lay' s =
  (fst (admissible toks lay s) + (if (Z.of_nat i <=? fst s) then k else 0),
   snd (admissible toks lay s) + (if (Z.of_nat i <=? snd s) then k else 0)).
Proof. exact admissible_range_shift_lemma. Qed.
Print Assumptions admissible_range_shift.

Theorem single_line_statement_exact : forall toks lay (s : stmt) l,
  fst (admissible toks lay s) = snd (admissible toks lay s) ->
  in_range (admissible toks lay s) l -> l = fst (admissible toks lay s).
Proof. exact single_line_statement_exact_lemma. Qed.
Print Assumptions single_line_statement_exact.

Theorem reported_line_function_of_tokens : forall toks lay lay' i k (report : layout -> Z) j,
  Forall tok_ok toks -> List.length lay = List.length toks ->
  same_except lay lay' i -> (i < List.length toks)%nat ->
  nl_count (nth i lay' []) = nl_count (nth i lay []) + k ->
  (j < List.length toks)%nat ->
  (forall l, List.length l = List.length toks -> report l = tok_line toks l j) ->
  report lay' = report lay + (if (i <=? j)%nat then k else 0).
Proof. exact reported_line_function_of_tokens_lemma. Qed.
Print Assumptions reported_line_function_of_tokens.

(* the one-pass evaluator used on the case files computes the reference line of every span *)
Theorem span_lines_reference : forall bs spans,
  spans_wf 0 (len bs) spans ->
  span_lines bs spans =
  map (fun s => (line_of_offset bs (fst s), line_of_offset bs (fst s + snd s))) spans.
Proof. exact span_lines_correct. Qed.
Print Assumptions span_lines_reference.

(* ---- the scanner (transcription Front/Lexer.v of parse/lexer.go, tied to the code by C08) ---- *)

(* every token the scanner delivers is stamped with the reference line of the offset of its first
   byte - whatever it skipped on the way: blanks, line ends of any convention, line comments of
   any text (openers cut short such as "--[==" included), long comments, and whatever line ends
   the earlier tokens (long strings, escaped line ends) contain *)
Theorem scanner_lines_reference : forall bs toks,
  is_bytes bs = true -> Lexer.lex bs = Lexer.LexOk toks ->
  Forall (fun t => Lexer.tk_line t = line_of_offset bs (Lexer.tk_off t)) toks.
Proof. exact scanner_lines_reference_lemma. Qed.
Print Assumptions scanner_lines_reference.

(* for a rendered program that the scanner reads back token for token (scans_to), the scanner's
   line of token j is the layout model's tok_line *)
Theorem scanner_line_is_tok_line : forall toks lay ts j,
  is_bytes (render toks lay) = true -> scans_to toks lay ts -> (j < List.length toks)%nat ->
  tline ts j = tok_line toks lay j.
Proof. exact scanner_line_is_tok_line_lemma. Qed.
Print Assumptions scanner_line_is_tok_line.

(* "re-indenting, adding comments or blank lines shifts the reported numbers by exactly the shift
   of the tokens", at the level of the scanner: if the separator before token i gains k newline
   sequences (and both texts scan to the program's tokens) the scanner's line of every token
   from i on grows by exactly k and no other line changes *)
Theorem scanner_layout_shift : forall toks lay lay' i k ts ts' j,
  Forall tok_ok toks -> List.length lay = List.length toks ->
  same_except lay lay' i -> (i < List.length toks)%nat ->
  nl_count (nth i lay' []) = nl_count (nth i lay []) + k ->
  is_bytes (render toks lay) = true -> is_bytes (render toks lay') = true ->
  scans_to toks lay ts -> scans_to toks lay' ts' ->
  (j < List.length toks)%nat ->
  tline ts' j = tline ts j + (if (i <=? j)%nat then k else 0).
Proof. exact scanner_layout_shift_lemma. Qed.
Print Assumptions scanner_layout_shift.

(* ---- which line may be reported ---- *)

(* FULL STATEMENT (not provable here: there is no model of compile.go): for the reporter
   `report` that the real compiler + run time implement for one fault site or query, the number
   lies in the admissible range of the innermost statement containing the site, in every layout. *)
Definition compiler_lines_admissible (toks : list token) (stmts : list stmt) (site : Z)
                                     (report : layout -> Z) : Prop :=
  exists s, innermost stmts site None = Some s /\
            forall lay, List.length lay = List.length toks -> in_range (admissible toks lay s) (report lay).

(* PARTIAL: it holds for every reporter that names the line of one fixed token of that
   statement.  That gopher's reporter is of this kind, with the token the impl model predicts, is
   what the correspondence validates per program (check_impl on every layout run). *)
Theorem compiler_lines_admissible_partial : forall toks stmts site s j (report : layout -> Z),
  Forall tok_ok toks ->
  innermost stmts site None = Some s ->
  0 <= fst s -> fst s <= j <= snd s -> snd s < len toks ->
  (forall lay, List.length lay = List.length toks -> report lay = tok_line toks lay (Z.to_nat j)) ->
  compiler_lines_admissible toks stmts site report.
Proof. exact compiler_lines_admissible_partial_lemma. Qed.
Print Assumptions compiler_lines_admissible_partial.

(* the innermost statement found for a site contains it, and (entries being nested or disjoint)
   lies inside every other entry that contains it *)
Theorem innermost_is_innermost : forall ss t r,
  innermost ss t None = Some r ->
  (In r ss /\ fst r <= t <= snd r) /\
  ((forall a b, In a ss -> In b ss -> contains a t = true -> contains b t = true ->
                fst a <= fst b -> snd b <= snd a) ->
   forall s, In s ss -> contains s t = true -> fst s <= fst r /\ snd r <= snd s).
Proof. exact innermost_is_innermost_lemma. Qed.
Print Assumptions innermost_is_innermost.

(* ---- variables ---- *)

(* The reference: debug.getlocal at a point enumerates exactly the declared-and-not-ended
   variables of the function, in declaration order (the structural definition used by the
   checker = the event-trace definition). *)
Theorem locals_in_scope_spec : forall f p, locals_at f p = declared_not_ended f p.
Proof. exact locals_in_scope_lemma. Qed.
Print Assumptions locals_in_scope_spec.

Theorem getlocal_enumerates : forall env,
  (forall i, 1 <= i <= len env -> getlocal env i = nth_error env (Z.to_nat (i - 1))) /\
  (forall i, 1 <= i <= len env -> exists b, getlocal env i = Some b) /\
  (forall i, i < 1 \/ len env < i -> getlocal env i = None).
Proof. exact getlocal_enumerates_lemma. Qed.
Print Assumptions getlocal_enumerates.

(* setlocal changes exactly that one variable *)
Theorem setlocal_exact : forall env i v,
  match setlocal env i v with
  | (Some n, env') =>
      (exists old, getlocal env i = Some (n, old)) /\
      getlocal env' i = Some (n, v) /\
      (forall j, j <> i -> getlocal env' j = getlocal env j) /\
      map fst env' = map fst env
  | (None, env') => getlocal env i = None /\ env' = env
  end.
Proof. exact setlocal_exact_lemma. Qed.
Print Assumptions setlocal_exact.

(* gopher-lua's bookkeeping (transcription of RegisterLocalVar / StartLocalVarsHere / EndScope /
   LocalName / GetLocal after fix commits 0bd7783, 6924931, 2c783a2) gives the reference answer,
   names and values, at every point of every function of the modelled language *)
Theorem dbglocals_refines_scope : forall f p, dbg_locals_at f p = locals_at f p.
Proof. exact dbglocals_refines_scope_lemma. Qed.
Print Assumptions dbglocals_refines_scope.

(* the bookkeeping as it was before the fix does not: witness C17-1 *)
Theorem dbglocals_old_refuted :
  exists f p pc,
    point_pc (compile_fn f) 0 p = Some pc /\
    option_map e_name (local_name_old (dbg_table_old f) 2 pc) = Some "c"%string /\
    option_map (fun env => getlocal env 2) (locals_at f p) = Some (Some ("d"%string, Some 4)).
Proof. exact dbglocals_old_refuted_lemma. Qed.
Print Assumptions dbglocals_old_refuted.
