(* C17 — property theorems only: statement, `exact <lemma>`, Print Assumptions. *)
From GL Require Import Common.Bytes Dbg.Lines Dbg.LinesFacts Dbg.Layout Dbg.LayoutFacts.

(* The line of a token of a rendered program, in closed form: 1 + the newline sequences of the
   separators up to and including its own + those inside the tokens before it. *)
Theorem line_of_offset_render : forall toks lay i,
  Forall tok_ok toks -> length lay = length toks -> (i < length toks)%nat ->
  tok_line toks lay i = tok_line_closed toks lay i.
Proof. exact line_of_offset_render_lemma. Qed.
Print Assumptions line_of_offset_render.

(* Line information is a function of token positions only: giving the separator before token i
   k more newline sequences moves tokens i, i+1, ... down by exactly k lines and no others. *)
Theorem layout_shift : forall toks lay lay' i k j,
  Forall tok_ok toks -> length lay = length toks ->
  same_except lay lay' i -> (i < length toks)%nat ->
  nl_count (nth i lay' []) = nl_count (nth i lay []) + k ->
  (j < length toks)%nat ->
  tok_line toks lay' j = tok_line toks lay j + (if (i <=? j)%nat then k else 0).
Proof. exact layout_shift_lemma. Qed.
Print Assumptions layout_shift.

Theorem layout_shift_insert : forall toks lay i x j,
  Forall tok_ok toks -> length lay = length toks -> (i < length toks)%nat ->
  (x = [] \/ is_nl (last x 0) = false \/ is_nl (hd 0 (nth i lay [])) = false) ->
  (j < length toks)%nat ->
  tok_line toks (insert_sep lay i x) j =
  tok_line toks lay j + (if (i <=? j)%nat then nl_count x else 0).
Proof. exact layout_shift_insert_lemma. Qed.
Print Assumptions layout_shift_insert.

Theorem admissible_range_shift : forall toks lay lay' i k (s : stmt),
  Forall tok_ok toks -> length lay = length toks ->
  same_except lay lay' i -> (i < length toks)%nat ->
  nl_count (nth i lay' []) = nl_count (nth i lay []) + k ->
  0 <= fst s -> fst s <= snd s -> snd s < len toks ->
  admissible toks lay' s =
  (fst (admissible toks lay s) + (if (Z.of_nat i <=? fst s) then k else 0),
   snd (admissible toks lay s) + (if (Z.of_nat i <=? snd s) then k else 0)).
Proof. exact admissible_range_shift_lemma. Qed.
Print Assumptions admissible_range_shift.

Theorem single_line_statement_exact : forall toks lay (s : stmt) l,
  fst (admissible toks lay s) = snd (admissible toks lay s) ->
  in_range (admissible toks lay s) l -> l = fst (admissible toks lay s).
Proof. exact single_line_statement_exact_lemma. Qed.
Print Assumptions single_line_statement_exact.

Theorem reported_line_function_of_tokens : forall toks lay lay' i k (report : layout -> Z) j,
  Forall tok_ok toks -> length lay = length toks ->
  same_except lay lay' i -> (i < length toks)%nat ->
  nl_count (nth i lay' []) = nl_count (nth i lay []) + k ->
  (j < length toks)%nat ->
  (forall l, length l = length toks -> report l = tok_line toks l j) ->
  report lay' = report lay + (if (i <=? j)%nat then k else 0).
Proof. exact reported_line_function_of_tokens_lemma. Qed.
Print Assumptions reported_line_function_of_tokens.

(* the one-pass evaluator used on the case files computes the reference line of every span *)
Theorem span_lines_reference : forall bs spans,
  spans_wf 0 (len bs) spans ->
  span_lines bs spans =
  map (fun s => (line_of_offset bs (fst s), line_of_offset bs (fst s + snd s))) spans.
Proof. exact span_lines_correct. Qed.
Print Assumptions span_lines_reference.
