(* C01 — property theorems only. Meta-theory of the reference evaluator's core language: for
   all expressions, statements, environments, states and fuel. [eval_deterministic] is
   definitional (the evaluator is a Gallina function). *)
From GL Require Import Common.Bytes Lua.Syntax Lua.Num Lua.Values Lua.Names Lua.Eval
  Lua.Run Lua.ValuesFacts Lua.TableFacts Lua.MonadFacts Lua.EvalStepFacts Lua.CallFacts Lua.CoreFacts
  Lua.EvalFuelFacts.

Theorem adjust_spec : forall n vs, length (adjust n vs) = n /\ forall i, (i < n)%nat -> nth i (adjust n vs) VNil = nth i vs VNil.
Proof. exact adjust_spec_full_lemma. Qed.
Print Assumptions adjust_spec.

Theorem eval_deterministic : forall n cx ln en e s r1 r2,
  eval_e n cx ln en e s = r1 -> eval_e n cx ln en e s = r2 -> r1 = r2.
Proof. exact eval_deterministic_lemma. Qed.
Print Assumptions eval_deterministic.

(* logical operators return one of their operands; the second is evaluated only when needed *)
Theorem logical_value_and : forall n cx ln en a b s,
  eval_e (S n) cx ln en (EAnd a b) s =
  bind (eval_e n cx ln en a s) (fun av => if truthy av then eval_e n cx ln en b else ret av).
Proof. exact and_value_lemma. Qed.
Print Assumptions logical_value_and.

Theorem logical_value_or : forall n cx ln en a b s,
  eval_e (S n) cx ln en (EOr a b) s =
  bind (eval_e n cx ln en a s) (fun av => if truthy av then ret av else eval_e n cx ln en b).
Proof. exact or_value_lemma. Qed.
Print Assumptions logical_value_or.

Theorem and_short_circuit : forall n cx ln en a b s av s1,
  eval_e n cx ln en a s = Ret av s1 -> truthy av = false ->
  eval_e (S n) cx ln en (EAnd a b) s = Ret av s1.
Proof. exact and_false_lemma. Qed.
Print Assumptions and_short_circuit.

Theorem and_second : forall n cx ln en a b s av s1,
  eval_e n cx ln en a s = Ret av s1 -> truthy av = true ->
  eval_e (S n) cx ln en (EAnd a b) s = eval_e n cx ln en b s1.
Proof. exact and_true_lemma. Qed.
Print Assumptions and_second.

Theorem or_short_circuit : forall n cx ln en a b s av s1,
  eval_e n cx ln en a s = Ret av s1 -> truthy av = true ->
  eval_e (S n) cx ln en (EOr a b) s = Ret av s1.
Proof. exact or_true_lemma. Qed.
Print Assumptions or_short_circuit.

Theorem or_second : forall n cx ln en a b s av s1,
  eval_e n cx ln en a s = Ret av s1 -> truthy av = false ->
  eval_e (S n) cx ln en (EOr a b) s = eval_e n cx ln en b s1.
Proof. exact or_false_lemma. Qed.
Print Assumptions or_second.

Theorem logical_value_not : forall n cx ln en a s,
  eval_e (S (S n)) cx ln en (EUn ONot a) s =
  bind (eval_e (S n) cx ln en a s) (fun av s1 => Ret (VBool (negb (truthy av))) s1).
Proof. exact not_value_lemma. Qed.
Print Assumptions logical_value_not.

Theorem truthy_spec : forall v, truthy v = false <-> v = VNil \/ v = VBool false.
Proof. exact truthy_spec_lemma. Qed.
Print Assumptions truthy_spec.

Theorem eparen_single : forall n cx ln en a, eval_e (S n) cx ln en (EParen a) = eval_e n cx ln en a.
Proof. exact eparen_value_lemma. Qed.
Print Assumptions eparen_single.

(* a condition matters only through its truth value *)
Theorem cond_equiv : forall n cx en ln c c' th el s cv cv' s1,
  eval_e n cx ln en c s = Ret cv s1 -> eval_e n cx ln en c' s = Ret cv' s1 -> truthy cv = truthy cv' ->
  exec (S n) cx en (SIf ln c th el) s = exec (S n) cx en (SIf ln c' th el) s.
Proof. exact cond_same_truth_lemma. Qed.
Print Assumptions cond_equiv.

(* multiple assignment: all left prefixes/keys, then all right-hand sides, then the stores *)
Theorem assign_eval_order : forall n cx en ln lhs es s refs s1 vs s2,
  mapM (assign_ref n cx ln en) lhs s = Ret refs s1 ->
  eval_list_with (eval_e n cx ln en) (eval_multi n cx ln en) es s1 = Ret vs s2 ->
  exec (S n) cx en (SAssign ln lhs es) s =
  bind (mapM (assign_store n cx ln) (rev (combine refs (adjust (length refs) vs))) s2)
       (fun _ s3 => Ret (SigNormal, en) s3).
Proof. exact assign_eval_order_lemma. Qed.
Print Assumptions assign_eval_order.

(* ... so that for local targets cell i receives the i-th adjusted right value computed in the
   pre-statement store (`a, b = b, a` swaps) *)
Theorem assign_locals_simultaneous : forall n cx en ln xs cs es s vs s2,
  Forall2 (fun x c => lookup en x = Some c) xs cs -> NoDup cs ->
  (forall c, In c cs -> (c < length (cells s2))%nat) ->
  eval_list_with (eval_e n cx ln en) (eval_multi n cx ln en) es s = Ret vs s2 ->
  exists s3, exec (S n) cx en (SAssign ln (map EVar xs) es) s = Ret (SigNormal, en) s3 /\
    (forall i, (i < length cs)%nat -> nth (nth i cs O) (cells s3) VNil = nth i vs VNil) /\
    (forall j, ~ In j cs -> nth j (cells s3) VNil = nth j (cells s2) VNil) /\
    tabs s3 = tabs s2 /\ clos s3 = clos s2 /\ trace s3 = trace s2.
Proof. exact assign_locals_lemma. Qed.
Print Assumptions assign_locals_simultaneous.

(* tables are finite maps *)
Theorem kv_get_set_same : forall kv k v, raweq k k = true -> is_nil v = false -> kv_get (kv_set kv k v) k = v.
Proof. exact kv_get_set_same_lemma. Qed.
Print Assumptions kv_get_set_same.

Theorem kv_get_set_other : forall kv k v k2, sep kv k k2 -> kv_get (kv_set kv k v) k2 = kv_get kv k2.
Proof. exact kv_get_set_other_lemma. Qed.
Print Assumptions kv_get_set_other.

Theorem kv_get_set_other_nofloat : forall kv k v k2,
  no_float k -> no_float k2 -> k <> k2 -> kv_get (kv_set kv k v) k2 = kv_get kv k2.
Proof. exact kv_get_set_other_nofloat_lemma. Qed.
Print Assumptions kv_get_set_other_nofloat.

Theorem kv_set_nil_deletes : forall kv k, (kv_count kv k <= 1)%nat -> kv_get (kv_set kv k VNil) k = VNil.
Proof. exact kv_set_nil_deletes_lemma. Qed.
Print Assumptions kv_set_nil_deletes.

Theorem kv_set_keeps_keys_unique : forall kv k v, (kv_count kv k <= 1)%nat -> (kv_count (kv_set kv k v) k <= 1)%nat.
Proof. exact kv_count_set_same_lemma. Qed.
Print Assumptions kv_set_keeps_keys_unique.

Theorem kv_set_never_stores_nil : forall kv k v, no_nil_values kv -> no_nil_values (kv_set kv k v).
Proof. exact kv_set_no_nil_lemma. Qed.
Print Assumptions kv_set_never_stores_nil.

Theorem border_is_border : forall kv n,
  border kv = n ->
  0 <= n /\ (forall i, 1 <= i <= n -> is_nil (kv_get kv (vint i)) = false) /\
  (vint_sep kv (n + 1) -> is_nil (kv_get kv (vint (n + 1))) = true).
Proof. exact border_is_border_lemma. Qed.
Print Assumptions border_is_border.

Theorem vint_sep_decidable : forall kv m, vint_sep_b kv m = true -> vint_sep kv (Z.of_nat m).
Proof. exact vint_sep_b_sound_lemma. Qed.
Print Assumptions vint_sep_decidable.

(* coercion rules *)
Theorem eq_no_coercion : forall n fr b f s,
  eq_v (S n) fr (VStr b) (VNum f) s = Ret false s /\ eq_v (S n) fr (VNum f) (VStr b) s = Ret false s.
Proof. exact eq_no_coercion_lemma. Qed.
Print Assumptions eq_no_coercion.

Theorem lt_mixed_error : forall n fr b f s,
  lt_v (S n) fr (VNum f) (VStr b) s = Err (VFault 4 (frames_line fr)) s /\
  lt_v (S n) fr (VStr b) (VNum f) s = Err (VFault 4 (frames_line fr)) s.
Proof. exact lt_mixed_error_lemma. Qed.
Print Assumptions lt_mixed_error.

Theorem arith_coerces_strings : forall n fr o b f y s,
  is_arith o = true -> text_to_f b = PNum f ->
  binop_v (S n) fr o (VStr b) (VNum y) s =
  match arith_op o f y with Some r => Ret (VNum r) s | None => Unsup 1 end.
Proof. exact arith_coerces_strings_lemma. Qed.
Print Assumptions arith_coerces_strings.

Theorem concat_accepts_numbers : forall n fr b f t s,
  f_to_text f = Some t -> binop_v (S n) fr OConcat (VStr b) (VNum f) s = Ret (VStr (b ++ t)) s.
Proof. exact concat_accepts_numbers_lemma. Qed.
Print Assumptions concat_accepts_numbers.

(* numeric for (wave 5): init, limit and step are evaluated once, in this order, and used only
   through their coercion: a numeral string in any of the three positions - whatever expression
   delivered it - is the number it denotes; anything else is the error of class 6 on the line of
   the statement, raised before the first iteration *)
From GL Require Lua.ForFacts Lua.AssignFacts.
Import ForFacts AssignFacts.

Theorem numfor_operands_coerced : forall n cx en ln x a b c body s av s1 bv s2 cv s3 i lim step,
  eval_e n cx ln en a s = Ret av s1 -> eval_e n cx ln en b s1 = Ret bv s2 ->
  numfor_step n cx ln en c s2 = Ret cv s3 ->
  tonum av = CNum i -> tonum bv = CNum lim -> tonum cv = CNum step ->
  exec (S n) cx en (SNumFor ln x a b c body) s =
  bind (numfor_loop n cx en x i lim step body s3) (fun sg s4 => Ret (sg, en) s4).
Proof. exact numfor_coerced_lemma. Qed.
Print Assumptions numfor_operands_coerced.

Theorem numfor_same_operands : forall n cx en ln x a a' b b' c c' body s av av' s1 bv bv' s2 cv cv' s3,
  eval_e n cx ln en a s = Ret av s1 -> eval_e n cx ln en a' s = Ret av' s1 ->
  eval_e n cx ln en b s1 = Ret bv s2 -> eval_e n cx ln en b' s1 = Ret bv' s2 ->
  numfor_step n cx ln en c s2 = Ret cv s3 -> numfor_step n cx ln en c' s2 = Ret cv' s3 ->
  tonum av = tonum av' -> tonum bv = tonum bv' -> tonum cv = tonum cv' ->
  exec (S n) cx en (SNumFor ln x a b c body) s = exec (S n) cx en (SNumFor ln x a' b' c' body) s.
Proof. exact numfor_same_operands_lemma. Qed.
Print Assumptions numfor_same_operands.

Theorem numfor_string_literal : forall n cx en ln x sa sb sc fa fb fc body s,
  text_to_f sa = PNum fa -> text_to_f sb = PNum fb -> text_to_f sc = PNum fc ->
  exec (S (S n)) cx en (SNumFor ln x (EStr sa) (EStr sb) (Some (EStr sc)) body) s =
  exec (S (S n)) cx en (SNumFor ln x (ENum fa) (ENum fb) (Some (ENum fc)) body) s.
Proof. exact numfor_string_literal_lemma. Qed.
Print Assumptions numfor_string_literal.

Theorem numfor_bad_operand : forall n cx en ln x a b c body s av s1 bv s2 cv s3,
  eval_e n cx ln en a s = Ret av s1 -> eval_e n cx ln en b s1 = Ret bv s2 ->
  numfor_step n cx ln en c s2 = Ret cv s3 ->
  not_out (tonum av) -> not_out (tonum bv) -> not_out (tonum cv) ->
  tonum av = CNo \/ tonum bv = CNo \/ tonum cv = CNo ->
  exec (S n) cx en (SNumFor ln x a b c body) s = Err (VFault 6 ln) s3.
Proof. exact numfor_bad_operand_lemma. Qed.
Print Assumptions numfor_bad_operand.

(* multiple assignment to fields of one table (wave 5; companion of assign_locals_simultaneous):
   field ki receives the i-th adjusted right value computed before any store; other fields, other
   tables, cells and trace are untouched by the stores. Stated for distinct string keys, a table
   without metatable and non-nil adjusted values. *)
Theorem assign_fields_simultaneous : forall n cx en ln lhs r ks es s s1 vs s2,
  mapM (assign_ref (S n) cx ln en) lhs s = Ret (map (field_ref r) ks) s1 ->
  eval_list_with (eval_e (S n) cx ln en) (eval_multi (S n) cx ln en) es s1 = Ret vs s2 ->
  NoDup ks -> (r < length (tabs s2))%nat -> t_meta (nth r (tabs s2) empty_tab) = None ->
  Forall (fun v => is_nil v = false) (adjust (length ks) vs) ->
  exists s3, exec (S (S n)) cx en (SAssign ln lhs es) s = Ret (SigNormal, en) s3 /\
    (forall i, (i < length ks)%nat ->
       kv_get (t_kv (nth r (tabs s3) empty_tab)) (VStr (nth i ks [])) = nth i vs VNil) /\
    (forall k, ~ In k ks ->
       kv_get (t_kv (nth r (tabs s3) empty_tab)) (VStr k) = kv_get (t_kv (nth r (tabs s2) empty_tab)) (VStr k)) /\
    (forall j, j <> r -> nth j (tabs s3) empty_tab = nth j (tabs s2) empty_tab) /\
    cells s3 = cells s2 /\ clos s3 = clos s2 /\ trace s3 = trace s2.
Proof. exact assign_fields_lemma. Qed.
Print Assumptions assign_fields_simultaneous.

(* fuel monotonicity of the whole evaluator (induction over all 20 mutually recursive functions):
   more fuel only refines an OutOfFuel result, also inside the continuations of pending effects *)
Theorem fuel_mono : forall n m cx ln en e s, (n <= m)%nat -> rle (eval_e n cx ln en e s) (eval_e m cx ln en e s).
Proof. exact fuel_mono_eval_lemma. Qed.
Print Assumptions fuel_mono.

Theorem fuel_mono_all : forall n m, (n <= m)%nat -> all_le n m.
Proof. exact all_le_all. Qed.
Print Assumptions fuel_mono_all.

Theorem fuel_mono_statement_holds : fuel_mono_statement.
Proof. exact fuel_mono_succ_lemma. Qed.
Print Assumptions fuel_mono_statement_holds.

Theorem eval_fuel_mono : forall n m cx ln en e s v s',
  (n <= m)%nat -> eval_e n cx ln en e s = Ret v s' -> eval_e m cx ln en e s = Ret v s'.
Proof. exact fuel_mono_eval_done_lemma. Qed.
Print Assumptions eval_fuel_mono.

Theorem call_fuel_mono : forall n m fr f args s r,
  (n <= m)%nat -> call n fr f args s = r -> is_eff r = false -> r <> OutOfFuel -> call m fr f args s = r.
Proof. exact fuel_mono_done_lemma. Qed.
Print Assumptions call_fuel_mono.

(* whole programs through the coroutine driver: a determined outcome is the outcome for every
   larger fuel — "the trace Lua 5.1 defines" does not depend on the fuel *)
Theorem program_fuel_mono : forall n m d body f,
  (n <= m)%nat -> run_program n d body = f -> f <> FinFuel -> run_program m d body = f.
Proof. exact run_program_stable_lemma. Qed.
Print Assumptions program_fuel_mono.

(* fuel: the combinators preserve "more fuel only refines an OutOfFuel result" *)
Theorem fuel_mono_bind : forall A B (r r' : res A) (f f' : A -> state -> res B),
  rle r r' -> (forall a s, rle (f a s) (f' a s)) -> rle (bind r f) (bind r' f').
Proof. exact @rle_bind_lemma. Qed.
Print Assumptions fuel_mono_bind.

Theorem fuel_mono_catch : forall A (r r' : res A) (h h' : value -> state -> res A),
  rle r r' -> (forall v s, rle (h v s) (h' v s)) -> rle (catch r h) (catch r' h').
Proof. exact @rle_catch_lemma. Qed.
Print Assumptions fuel_mono_catch.

Theorem fuel_mono_done : forall A (r r' : res A), rle r r' -> is_eff r = false -> r <> OutOfFuel -> r' = r.
Proof. exact @rle_done_lemma. Qed.
Print Assumptions fuel_mono_done.

(* ---------------------------------------------------------------------------------------------
   M-VM: the implementation-side model of gopher-lua's bytecode VM (coq/VMX), which runs the
   prototypes dumped from the real compiler. For all prototypes, states and fuel. *)
From GL Require Import Lua.LuaCases.
From GL Require Import VMX.Machine VMX.Step VMX.Builtins VMX.VRun VMX.VmCases VMX.WfTie.
From GL Require VMX.VRunFacts VMX.WfTieFacts VMX.VmCasesFacts VM.WfProto VM.WfFacts.

Theorem vm_deterministic : forall fuel p r1 r2, run_proto fuel p = r1 -> run_proto fuel p = r2 -> r1 = r2.
Proof. exact VRunFacts.vm_deterministic. Qed.
Print Assumptions vm_deterministic.

Theorem vm_fuel_mono : forall n p, run_proto n p <> VFinFuel -> forall k, run_proto (n + k) p = run_proto n p.
Proof. exact VRunFacts.vm_fuel_mono. Qed.
Print Assumptions vm_fuel_mono.

Theorem vm_outcome_fuel_indep : forall n m p,
  run_proto n p <> VFinFuel -> run_proto m p <> VFinFuel -> run_proto n p = run_proto m p.
Proof. exact VRunFacts.vm_outcome_fuel_indep. Qed.
Print Assumptions vm_outcome_fuel_indep.

(* what one passed VProg case certifies: reference evaluator, VM model on the real compiler's
   output and the real interpreter agree on that program *)
Theorem vprog_validated : forall body p obs,
  check_skip (VProg body p obs) = false -> vm_skip p = false ->
  check_spec (VProg body p obs) = true -> check_impl (VProg body p obs) = true ->
  VmCasesFacts.certified body p obs.
Proof. exact VmCasesFacts.vprog_validated. Qed.
Print Assumptions vprog_validated.

(* OP_FORPREP / OP_FORLOOP (wave 5), two cooperating sites of the VM: the producer stores the
   converted operands back - after a FORPREP that returned, the three hidden cells hold the numbers
   the operands denote -, and the consumer, which type-asserts the three cells on every
   iteration, never raises on such a state and keeps it while the loop continues *)
From Coq Require Floats.
From GL Require VMX.ForFacts.
(* the Import is local to this section: at top level it would make every later Print Assumptions
   print the float primitives unqualified, outside the allow-list of props/C01.json *)
Section ForLoopSites.
Import Floats.

Theorem forprep_normalises : forall ml gf cl cf inst base s b s',
  op_of_code (opGetOpCode inst) = Some OP_FORPREP ->
  0 <= fr_localbase cf + opGetArgA inst ->
  exec_op ml gf cl cf inst base s = VRet b s' ->
  let RA := fr_localbase cf + opGetArgA inst in
  exists v0 v1 v2 init limit step,
    Get (vreg s) RA = Some v0 /\ Get (vreg s) (RA + 1) = Some v1 /\ Get (vreg s) (RA + 2) = Some v2 /\
    tonum v0 = CNum init /\ tonum v1 = CNum limit /\ tonum v2 = CNum step /\
    Get (vreg s') RA = Some (VNum (init - step)%float) /\
    Get (vreg s') (RA + 1) = Some (VNum limit) /\
    Get (vreg s') (RA + 2) = Some (VNum step) /\ b = false.
Proof. exact VMX.ForFacts.forprep_normalises_lemma. Qed.

Theorem forloop_numbers_never_raise : forall ml gf cl cf inst base s i l st,
  op_of_code (opGetOpCode inst) = Some OP_FORLOOP ->
  let RA := fr_localbase cf + opGetArgA inst in
  Get (vreg s) RA = Some (VNum i) -> Get (vreg s) (RA + 1) = Some (VNum l) -> Get (vreg s) (RA + 2) = Some (VNum st) ->
  forall v s', exec_op ml gf cl cf inst base s <> VErr v s'.
Proof. exact VMX.ForFacts.forloop_numbers_never_raise_lemma. Qed.

Theorem forloop_keeps_numbers : forall ml gf cl cf inst base s b s' i l st,
  op_of_code (opGetOpCode inst) = Some OP_FORLOOP ->
  let RA := fr_localbase cf + opGetArgA inst in
  0 <= RA ->
  Get (vreg s) RA = Some (VNum i) -> Get (vreg s) (RA + 1) = Some (VNum l) -> Get (vreg s) (RA + 2) = Some (VNum st) ->
  exec_op ml gf cl cf inst base s = VRet b s' ->
  VMX.ForFacts.for_continues (i + st)%float l st = true ->
  Get (vreg s') RA = Some (VNum (i + st)%float) /\ Get (vreg s') (RA + 1) = Some (VNum l) /\
  Get (vreg s') (RA + 2) = Some (VNum st) /\ Get (vreg s') (RA + 3) = Some (VNum (i + st)%float) /\ b = false.
Proof. exact VMX.ForFacts.forloop_keeps_numbers_lemma. Qed.

Theorem forprep_then_forloop : forall ml gf cl cf inst base s b s' ml' gf' cl' inst' base',
  op_of_code (opGetOpCode inst) = Some OP_FORPREP ->
  op_of_code (opGetOpCode inst') = Some OP_FORLOOP ->
  opGetArgA inst' = opGetArgA inst ->
  0 <= fr_localbase cf + opGetArgA inst ->
  exec_op ml gf cl cf inst base s = VRet b s' ->
  forall cf' v s'', fr_localbase cf' = fr_localbase cf -> exec_op ml' gf' cl' cf' inst' base' s' <> VErr v s''.
Proof. exact VMX.ForFacts.forprep_then_forloop_lemma. Qed.
End ForLoopSites.
Print Assumptions forprep_normalises.
Print Assumptions forloop_numbers_never_raise.
Print Assumptions forloop_keeps_numbers.
Print Assumptions forprep_then_forloop.

(* The full statement of C01 over the implementation: for every program the compiler's output run
   by the VM has the reference outcome. It is NOT proved (the compiler is not modelled in general);
   what is proved is vprog_validated for each generated program, the tie to C07 below, and - for the
   straight-line fragment transcribed in coq/CC and tied to compile.go on every run - the parts of
   frag_compile_correct listed at the end of this file. *)
Definition C01_vm_statement (compile : list stmt -> option xproto) : Prop :=
  forall body p, compile body = Some p ->
    is_skip (outcome_of (Run.run_program LuaCases.fuel no_devs body)) = false -> vm_skip p = false ->
    outcome_eqb (vm_outcome p) (outcome_of (Run.run_program LuaCases.fuel no_devs body)) = true.

(* Tie to C07: at an instruction that passes C07's checker (any opcode except OP_TFORLOOP, whose
   second Code read happens after a re-entrant call), the VM model's instruction function performs
   no out-of-range access to Code, Constants, FunctionPrototypes or the closure's upvalue slots,
   provided the re-entered main loop and the host functions do not. Missing for the full statement
   "a run of a wf prototype never indexes out of range": OP_TFORLOOP, and the run-level invariants
   (every closure has NumUpvalues slots, every frame's pc is an instruction head). *)
Theorem wf_exec_op_noob : forall ml gf, (forall b, noob (ml b)) -> (forall b, noob (gf b)) ->
  forall cl cf inst base o,
  closure_ok cl ->
  xp_nregs (cl_proto cl) <= WfProto.frame_limit ->
  0 <= fr_pc cf - 1 ->
  op_of_code (opGetOpCode inst) = Some o ->
  WfProto.inst_ok (WfTieFacts.fn_of (cl_proto cl)) (WfProto.tags_of (WfTieFacts.fn_of (cl_proto cl))) (fr_pc cf - 1) inst = true ->
  o <> OP_TFORLOOP ->
  noob (exec_op ml gf cl cf inst base).
Proof. exact WfTieFacts.wf_exec_op_noob_lemma. Qed.
Print Assumptions wf_exec_op_noob.

Theorem wf_step_noob_partial : forall ml gf cl cf inst base o,
  (forall b, noob (ml b)) -> (forall b, noob (gf b)) ->
  WfProto.wf_fn (WfTieFacts.fn_of (cl_proto cl)) = true ->
  closure_ok cl ->
  WfFacts.pc_ok (WfTieFacts.fn_of (cl_proto cl)) (fr_pc cf - 1) ->
  zth (xp_code (cl_proto cl)) (fr_pc cf - 1) = Some inst ->
  op_of_code (opGetOpCode inst) = Some o -> o <> OP_TFORLOOP ->
  noob (exec_op ml gf cl cf inst base).
Proof. exact WfTieFacts.wf_step_noob_lemma. Qed.
Print Assumptions wf_step_noob_partial.

(* ---------------------------------------------------------------------------------------------
   CC: a transcription of compile.go on a fragment (coq/CC/CompModel.v), tied to the real compiler
   on every run (frag_tie in VMX/VmCases.v), and what is proved about it.

   The full statement is proved at the end of this block (frag_compile_correct_thm) from three
   parts: the back half (the VM model runs straight-line code as isem says), the reference half
   (the reference evaluator is prun on the fragment) and the front half (compileChunk's code
   denotes prun under isem). *)
From GL Require Import CC.CompModel CC.FragSem.
From GL Require CC.CompFactsVM CC.CompFacts.

Definition frag_compile_correct : Prop :=
  forall b p, in_frag b = true -> compile_frag b = Some p ->
  exists n, forall fuel, (n <= fuel)%nat ->
    is_skip (outcome_of (Run.run_program fuel no_devs b)) = false ->
    outcome_of_vfin (run_proto fuel p) = outcome_of (Run.run_program fuel no_devs b).

(* Back half, proved in full: the VM model runs ANY straight-line main chunk made of the
   fragment's opcodes (LOADK LOADBOOL LOADNIL MOVE ADD..POW UNM NOT RETURN), with the MOVE runs
   merged into MOVEN words as patchCode does, exactly as the register-file semantics isem says:
   same returned values, or the arithmetic error positioned at the faulting instruction's line. *)
Theorem vm_runs_isem_partial : forall ul consts nregs fuel,
  0 <= nregs -> Forall (fun wl => 0 <= fst wl < 2 ^ 32) ul -> (length ul + 2 <= fuel)%nat ->
  match isem_code consts ul [] with
  | CRet vs => exists s', run_proto fuel (CompFactsVM.frag_proto ul consts nregs) = VFinOk vs s' /\ vtrace s' = []
  | CFault ln => exists s', run_proto fuel (CompFactsVM.frag_proto ul consts nregs) = VFinErr (VFault 2 ln) s' /\ vtrace s' = []
  | _ => True
  end.
Proof. exact CompFactsVM.vm_runs_isem_lemma. Qed.
Print Assumptions vm_runs_isem_partial.

(* Front half, expressions: every expression of the fragment (literals, locals, parentheses,
   the six arithmetic operators with constant folding and the RK-operand peephole, unary minus,
   not) compiles to code that, from any register file of simple values, either leaves pev's value
   in the target register (keeping the registers below it), or stops with the arithmetic fault at
   the expression's line, or leaves the exact arithmetic - exactly as pev says; the constant table
   only grows at its end and the code has the shape the propagation peephole looks for. *)
Theorem frag_expr_correct : forall e locals ln reg ec s inc s',
  expr_frag locals e = true -> cs_locals s = locals -> cs_regtop s = len locals ->
  len locals <= reg -> 0 <= reg -> reg + edepth e < 256 -> len locals <= 256 ->
  savereg ec reg = reg -> len (cs_consts s) <= 262144 ->
  compileExpr ln reg e ec s = Some (inc, s') ->
  inc = 1 /\ CompFacts.expr_ok s s' locals ln reg e.
Proof. exact CompFacts.compileExpr_ok. Qed.
Print Assumptions frag_expr_correct.

(* PropagateKMV / PropagateMV are sound: after compiling an operand, the (possibly popped) code
   plus the RK operand they return denote the operand's value, and later code that only writes
   registers at or above the returned reg cannot disturb it. *)
Theorem propagateKMV_sound : forall s s1 locals ln reg e save reg' s2,
  CompFacts.expr_ok s s1 locals ln reg e -> len locals <= reg -> 0 <= reg < 256 -> len locals <= 256 ->
  propagateKMV reg 1 s1 = Some ((save, reg'), s2) ->
  CompFacts.operand_ok s s2 locals ln reg e save reg'.
Proof. exact CompFacts.kmv_ok. Qed.
Print Assumptions propagateKMV_sound.

Theorem propagateMV_sound : forall s s1 locals ln reg e save reg' s2,
  CompFacts.expr_ok s s1 locals ln reg e -> len locals <= reg -> 0 <= reg < 256 -> len locals <= 256 ->
  propagateMV reg 1 s1 = Some ((save, reg'), s2) ->
  CompFacts.operand_ok s s2 locals ln reg e save reg' /\ 0 <= save < 256.
Proof. exact CompFacts.mv_ok. Qed.
Print Assumptions propagateMV_sound.

(* ConstIndex: the index it returns holds the value, the table only grows at its end *)
Theorem constIndex_spec : forall v s i s', len (cs_consts s) <= 262144 -> constIndex v s = Some (i, s') ->
  len (cs_consts s') <= 262144 /\ 0 <= i < 262144 /\ zth (cs_consts s') i = Some v /\
  CompFacts.prefix_of (cs_consts s) (cs_consts s') /\
  cs_code s' = cs_code s /\ cs_locals s' = cs_locals s /\ cs_regtop s' = cs_regtop s.
Proof. exact CompFacts.constIndex_spec. Qed.
Print Assumptions constIndex_spec.

(* constant folding agrees with the direct semantics *)
Theorem cfold_sound : forall e g look, cfold e = Some (Some g) -> CompFacts.pevr look e = PV (VNum g).
Proof. exact CompFacts.cfold_pevr. Qed.
Print Assumptions cfold_sound.

(* ---- frag_compile_correct, reference half (coq/CC/FragEvalFacts.v) ----
   On the fragment the reference evaluator IS the direct semantics prun: for every fragment
   program, every setting of the deviation switches (none is consulted on the fragment) and every
   fuel above the explicit bound frag_fuel b, the run returns exactly prun's values, or fails with
   the arithmetic fault positioned at the line of the faulting statement, or leaves the exact
   arithmetic (Unsup 1: a % or ^ outside Lua/Num.v) exactly when prun says so; nothing is emitted;
   prun is never stuck on the fragment. *)
From GL Require CC.FragEvalFacts.

Theorem frag_reference_run : forall b fuel d, in_frag b = true -> (FragEvalFacts.frag_fuel b <= fuel)%nat ->
  match prun [] b with
  | CRet vs => exists s', Run.run_program fuel d b = Run.FinOk vs s' /\ trace s' = [] /\ forallb is_simple vs = true
  | CFault ln => exists s', Run.run_program fuel d b = Run.FinErr (VFault 2 ln) s' /\ trace s' = []
  | CUnsup => Run.run_program fuel d b = Run.FinUnsup 1
  | CStuck => False
  end.
Proof. exact FragEvalFacts.frag_run_lemma. Qed.
Print Assumptions frag_reference_run.

(* the same on observable outcomes, through the conversion cres_outcome both halves use *)
Theorem frag_reference_is_prun : forall b fuel d, in_frag b = true -> (FragEvalFacts.frag_fuel b <= fuel)%nat ->
  prun [] b <> CStuck /\
  outcome_of (Run.run_program fuel d b) = FragEvalFacts.cres_outcome (prun [] b).
Proof. exact FragEvalFacts.frag_reference_is_prun_lemma. Qed.
Print Assumptions frag_reference_is_prun.

(* the two proved halves glued: frag_compile_correct follows from the compiler's front half alone
   (the code compileChunk emits, closed with the final RETURN, denotes prun and consists of 32-bit
   words) *)
From GL Require CC.FragGlue.

Theorem frag_compile_correct_partial : FragGlue.front_half -> frag_compile_correct.
Proof. exact FragGlue.frag_glue. Qed.
Print Assumptions frag_compile_correct_partial.

(* ---- frag_compile_correct, compiler front half (coq/CC/CompFacts.v) ----
   Statements: a single `local x = e`, a single `x = e` on a local and `return es` compile to code
   that steps the register file in lockstep with prun's environment (env_rel), or stops with
   prun's fault / Unsup; chunks by induction. *)
Theorem frag_chunk_correct : forall b locals s u s',
  stmts_frag locals b = true -> CompFacts.cinv s locals -> compileChunk b s = Some (u, s') ->
  len (cs_consts s') <= 262144 /\ CompFacts.prefix_of (cs_consts s) (cs_consts s') /\
  exists seg, cs_code s' = seg ++ cs_code s /\ Forall CompFacts.u32 seg /\
    forall K, CompFacts.prefix_of (cs_consts s') K -> forall rho rf fin,
      CompFacts.env_rel rho locals rf -> CompFacts.rf_simple rf ->
      isem_code K (rev seg ++ [CompFacts.final_ret fin]) rf = prun rho b.
Proof. exact CompFacts.chunk_ok. Qed.
Print Assumptions frag_chunk_correct.

Theorem frag_compile_front_half : FragGlue.front_half.
Proof. exact CompFacts.front_half_lemma. Qed.
Print Assumptions frag_compile_front_half.

(* THE theorem: on the fragment F0, the prototype the transcribed compiler produces, run by the VM
   model, has the observable outcome of the reference evaluator on the source program. *)
Theorem frag_compile_correct_thm : frag_compile_correct.
Proof. exact (FragGlue.frag_glue CompFacts.front_half_lemma). Qed.
Print Assumptions frag_compile_correct_thm.

(* ---------------------------------------------------------------------------------------------
   CC, the larger fragment F1 (coq/CC/Frag1Sem.v in_frag1) = F0 plus
     local x1, ..., xn [= e1, ..., em]   (fewer expressions: nil padding; more: still evaluated)
     x1, ..., xn = e1, ..., em           (every xi a local in scope; all right-hand sides are
                                          evaluated before any store; stores last target first)
   with the expressions of F0. Same end-to-end statement, proved from the same back half, a front
   half on F1 (coq/CC/Frag1Facts.v: compileRegAssignment with its LOADNIL range and extra
   expressions, compileAssignStmt's temporaries and its MOVE loop) and a reference half on F1
   (coq/CC/Frag1Eval.v). *)
From GL Require Import CC.Frag1Sem.
From GL Require CC.Frag1Facts CC.Frag1Eval CC.Frag1Glue.

Definition frag1_compile_correct : Prop :=
  forall b p, in_frag1 b = true -> compile_frag b = Some p ->
  exists n, forall fuel, (n <= fuel)%nat ->
    is_skip (outcome_of (Run.run_program fuel no_devs b)) = false ->
    outcome_of_vfin (run_proto fuel p) = outcome_of (Run.run_program fuel no_devs b).

(* F1 contains F0 *)
Theorem frag0_in_frag1 : forall b, in_frag b = true -> in_frag1 b = true.
Proof. exact Frag1Facts.frag0_in_frag1. Qed.
Print Assumptions frag0_in_frag1.

(* front half on F1: chunks, then the whole program from the empty state *)
Theorem frag1_chunk_correct : forall b locals s u s',
  stmts_frag1 locals b = true -> CompFacts.cinv s locals -> compileChunk b s = Some (u, s') ->
  len (cs_consts s') <= 262144 /\ CompFacts.prefix_of (cs_consts s) (cs_consts s') /\
  exists seg, cs_code s' = seg ++ cs_code s /\ Forall CompFacts.u32 seg /\
    forall K, CompFacts.prefix_of (cs_consts s') K -> forall rho rf fin,
      CompFacts.env_rel rho locals rf -> CompFacts.rf_simple rf ->
      isem_code K (rev seg ++ [CompFacts.final_ret fin]) rf = prun1 rho b.
Proof. exact Frag1Facts.chunk1_ok. Qed.
Print Assumptions frag1_chunk_correct.

Theorem frag1_compile_front_half : Frag1Glue.front_half1.
Proof. exact Frag1Facts.front_half1_lemma. Qed.
Print Assumptions frag1_compile_front_half.

(* reference half on F1: the reference evaluator is prun1, for every deviation-switch record and
   every fuel above frag_fuel b *)
Theorem frag1_reference_run : forall b fuel d, in_frag1 b = true -> (FragEvalFacts.frag_fuel b <= fuel)%nat ->
  match prun1 [] b with
  | CRet vs => exists s', Run.run_program fuel d b = Run.FinOk vs s' /\ trace s' = [] /\ forallb is_simple vs = true
  | CFault ln => exists s', Run.run_program fuel d b = Run.FinErr (VFault 2 ln) s' /\ trace s' = []
  | CUnsup => Run.run_program fuel d b = Run.FinUnsup 1
  | CStuck => False
  end.
Proof. exact Frag1Eval.frag1_run_lemma. Qed.
Print Assumptions frag1_reference_run.

(* THE theorem on F1: the prototype the transcribed compiler produces for a program of F1, run by
   the VM model, has the observable outcome of the reference evaluator on the source program. *)
Theorem frag1_compile_correct_thm : frag1_compile_correct.
Proof. exact Frag1Glue.frag1_compile_correct_lemma. Qed.
Print Assumptions frag1_compile_correct_thm.

(* ---------------------------------------------------------------------------------------------
   CC, the fragment F2 (coq/CC/Frag2Sem.v in_frag2) = F1 plus string literals as values: a string
   constant (LOADK of a string) may be stored in a local, copied between locals, returned, be an
   extra expression or the operand of `not`. Arithmetic and unary minus on an operand that may be
   a string are excluded statically: in_frag2 computes the set of tainted names (locals that may
   hold a string) and checks every statement against it; the VM's and the evaluator's coercion of
   numeric strings is therefore never reached. Same end-to-end statement; front half
   coq/CC/Frag2Facts.v and reference half coq/CC/Frag2Eval.v are ports of the F0/F1 proofs to the
   invariant "registers / cells hold nil, booleans, numbers or strings, untainted locals hold no
   string". *)
From GL Require Import CC.Frag2Sem.
From GL Require CC.Frag2Facts CC.Frag2Eval CC.Frag2Glue.

Definition frag2_compile_correct : Prop :=
  forall b p, in_frag2 b = true -> compile_frag b = Some p ->
  exists n, forall fuel, (n <= fuel)%nat ->
    is_skip (outcome_of (Run.run_program fuel no_devs b)) = false ->
    outcome_of_vfin (run_proto fuel p) = outcome_of (Run.run_program fuel no_devs b).

(* F2 contains F1 (hence F0): a program without string literals has no tainted name *)
Theorem frag1_in_frag2 : forall b, in_frag1 b = true -> in_frag2 b = true.
Proof. exact Frag2Facts.frag1_in_frag2. Qed.
Print Assumptions frag1_in_frag2.

(* front half on F2, for any set T of tainted names the statements are checked against *)
Theorem frag2_chunk_correct : forall T b locals s u s',
  stmts_frag2 T locals b = true -> CompFacts.cinv s locals -> compileChunk b s = Some (u, s') ->
  len (cs_consts s') <= 262144 /\ CompFacts.prefix_of (cs_consts s) (cs_consts s') /\
  exists seg, cs_code s' = seg ++ cs_code s /\ Forall CompFacts.u32 seg /\
    forall K, CompFacts.prefix_of (cs_consts s') K -> forall rho rf fin,
      CompFacts.env_rel rho locals rf -> Frag2Facts.rf_ok T locals rf ->
      isem_code K (rev seg ++ [CompFacts.final_ret fin]) rf = prun2 rho b.
Proof. exact Frag2Facts.chunk1_ok. Qed.
Print Assumptions frag2_chunk_correct.

Theorem frag2_compile_front_half : Frag2Glue.front_half2.
Proof. exact Frag2Facts.front_half2_lemma. Qed.
Print Assumptions frag2_compile_front_half.

(* reference half on F2: the reference evaluator is prun2 (values: nil, booleans, numbers, strings) *)
Theorem frag2_reference_run : forall b fuel d, in_frag2 b = true -> (FragEvalFacts.frag_fuel b <= fuel)%nat ->
  match prun2 [] b with
  | CRet vs => exists s', Run.run_program fuel d b = Run.FinOk vs s' /\ trace s' = [] /\ forallb is_sval vs = true
  | CFault ln => exists s', Run.run_program fuel d b = Run.FinErr (VFault 2 ln) s' /\ trace s' = []
  | CUnsup => Run.run_program fuel d b = Run.FinUnsup 1
  | CStuck => False
  end.
Proof. exact Frag2Eval.frag2_run_lemma. Qed.
Print Assumptions frag2_reference_run.

(* THE theorem on F2 *)
Theorem frag2_compile_correct_thm : frag2_compile_correct.
Proof. exact Frag2Glue.frag2_compile_correct_lemma. Qed.
Print Assumptions frag2_compile_correct_thm.

(* ---------------------------------------------------------------------------------------------
   CC, the fragment F3 (coq/CC/Frag3Sem.v in_frag3) = F2 plus reads of undefined globals: a name
   that is not a local in scope and not a key of the initial global table (Run.g_globals, shared by
   the reference evaluator's and the VM model's initial states) reads as nil: OP_GETGLOBAL in the
   compiled code, the gettable event on the function environment in the evaluator. The bytecode
   semantics is isem3 = isem + GETGLOBAL, with its own back half (coq/CC/CompFactsVM3.v: the
   simulation relation also records that the global table is the initial one). *)
From GL Require Import CC.Frag3Sem.
From GL Require CC.CompFactsVM3 CC.Frag3Facts CC.Frag3Eval CC.Frag3Glue.

Definition frag3_compile_correct : Prop :=
  forall b p, in_frag3 b = true -> compile_frag b = Some p ->
  exists n, forall fuel, (n <= fuel)%nat ->
    is_skip (outcome_of (Run.run_program fuel no_devs b)) = false ->
    outcome_of_vfin (run_proto fuel p) = outcome_of (Run.run_program fuel no_devs b).

Theorem frag2_in_frag3 : forall b, in_frag2 b = true -> in_frag3 b = true.
Proof. exact Frag3Glue.frag2_in_frag3. Qed.
Print Assumptions frag2_in_frag3.

(* back half for isem3: the VM model runs ANY straight-line main chunk made of the fragment's
   opcodes and GETGLOBAL of undefined names, MOVEN merging included, as isem3 says *)
Theorem vm_runs_isem3 : forall ul consts nregs fuel,
  0 <= nregs -> Forall (fun wl => 0 <= fst wl < 2 ^ 32) ul -> (length ul + 2 <= fuel)%nat ->
  match isem3_code consts ul [] with
  | CRet vs => exists s', run_proto fuel (CompFactsVM3.frag_proto ul consts nregs) = VFinOk vs s' /\ vtrace s' = []
  | CFault ln => exists s', run_proto fuel (CompFactsVM3.frag_proto ul consts nregs) = VFinErr (VFault 2 ln) s' /\ vtrace s' = []
  | _ => True
  end.
Proof. exact CompFactsVM3.vm_runs_isem_lemma. Qed.
Print Assumptions vm_runs_isem3.

Theorem frag3_compile_front_half : Frag3Glue.front_half3.
Proof. exact Frag3Facts.front_half3_lemma. Qed.
Print Assumptions frag3_compile_front_half.

Theorem frag3_reference_run : forall b fuel d, in_frag3 b = true -> (Frag3Eval.frag_fuel3 b <= fuel)%nat ->
  match prun3 [] b with
  | CRet vs => exists s', Run.run_program fuel d b = Run.FinOk vs s' /\ trace s' = [] /\ forallb is_sval vs = true
  | CFault ln => exists s', Run.run_program fuel d b = Run.FinErr (VFault 2 ln) s' /\ trace s' = []
  | CUnsup => Run.run_program fuel d b = Run.FinUnsup 1
  | CStuck => False
  end.
Proof. exact Frag3Eval.frag3_run_lemma. Qed.
Print Assumptions frag3_reference_run.

(* THE theorem on F3 *)
Theorem frag3_compile_correct_thm : frag3_compile_correct.
Proof. exact Frag3Glue.frag3_compile_correct_lemma. Qed.
Print Assumptions frag3_compile_correct_thm.

(* ---------------------------------------------------------------------------------------------
   CC, the fragment F4 (coq/CC/Frag4Sem.v in_frag4): multi-target local declarations and
   assignments to locals, string literals, reads of undefined globals, and arithmetic / unary minus
   on ANY of these values - nil, booleans, numbers, strings - with the coercion of numeric strings
   (no taint restriction any more). The VM (objectArith, OP_UNM: parseNumber) and the reference
   evaluator (tonum) coerce through the same Num.text_to_f; a string that is no numeral has no
   arithmetic metamethod (the string metatable only has __index), so the operation is the
   arithmetic error at the statement's line in both. Every string literal of the program must be
   inside the exact fragment of text_to_f (lit_ok). Bytecode semantics isem4 = isem3 with coercing
   ADD..POW/UNM, own back half coq/CC/CompFactsVM4.v; F4 contains the programs of F3 whose literals
   are lit_ok (frag3_in_frag4). *)
From GL Require Import CC.Frag4Sem.
From GL Require CC.CompFactsVM4 CC.Frag4Facts CC.Frag4Eval CC.Frag4Glue.

Definition frag4_compile_correct : Prop :=
  forall b p, in_frag4 b = true -> compile_frag b = Some p ->
  exists n, forall fuel, (n <= fuel)%nat ->
    is_skip (outcome_of (Run.run_program fuel no_devs b)) = false ->
    outcome_of_vfin (run_proto fuel p) = outcome_of (Run.run_program fuel no_devs b).

Theorem frag3_in_frag4 : forall b, in_frag3 b = true -> forallb Frag4Glue.stmt_strs_ok b = true -> in_frag4 b = true.
Proof. exact Frag4Glue.frag3_in_frag4. Qed.
Print Assumptions frag3_in_frag4.

Theorem vm_runs_isem4 : forall ul consts nregs fuel,
  0 <= nregs -> Forall (fun wl => 0 <= fst wl < 2 ^ 32) ul -> (length ul + 2 <= fuel)%nat ->
  match isem4_code consts ul [] with
  | CRet vs => exists s', run_proto fuel (CompFactsVM4.frag_proto ul consts nregs) = VFinOk vs s' /\ vtrace s' = []
  | CFault ln => exists s', run_proto fuel (CompFactsVM4.frag_proto ul consts nregs) = VFinErr (VFault 2 ln) s' /\ vtrace s' = []
  | _ => True
  end.
Proof. exact CompFactsVM4.vm_runs_isem_lemma. Qed.
Print Assumptions vm_runs_isem4.

Theorem frag4_compile_front_half : Frag4Glue.front_half4.
Proof. exact Frag4Facts.front_half4_lemma. Qed.
Print Assumptions frag4_compile_front_half.

Theorem frag4_reference_run : forall b fuel d, in_frag4 b = true -> (Frag4Eval.frag_fuel4 b <= fuel)%nat ->
  match prun4 [] b with
  | CRet vs => exists s', Run.run_program fuel d b = Run.FinOk vs s' /\ trace s' = [] /\ forallb is_sval4 vs = true
  | CFault ln => exists s', Run.run_program fuel d b = Run.FinErr (VFault 2 ln) s' /\ trace s' = []
  | CUnsup => Run.run_program fuel d b = Run.FinUnsup 1
  | CStuck => False
  end.
Proof. exact Frag4Eval.frag4_run_lemma. Qed.
Print Assumptions frag4_reference_run.

(* THE theorem on F4 *)
Theorem frag4_compile_correct_thm : frag4_compile_correct.
Proof. exact Frag4Glue.frag4_compile_correct_lemma. Qed.
Print Assumptions frag4_compile_correct_thm.
