(* C05 — property theorems only. Meta-theory of protected calls in the reference evaluator:
   for all callees, arguments, states, fuel and all resumption behaviours (effect trees). *)
From GL Require Import Common.Bytes Lua.Syntax Lua.Num Lua.Values Lua.Names Lua.Eval Lua.Run
  Lua.MonadFacts Lua.EvalStepFacts Lua.CatchFacts Lua.DriveFacts Lua.EvalInvFacts Lua.DriveRunFacts.

(* a handler that cannot fail makes the caught computation unable to fail *)
Theorem catch_never_err : forall A (r : res A) (h : value -> state -> res A),
  (forall v s, never_err (h v s)) -> never_err (catch r h).
Proof. exact @catch_never_err_lemma. Qed.
Print Assumptions catch_never_err.

(* never_err means: no Err leaf along any sequence of replies to pending effects *)
Theorem never_err_leaf : forall A (r : res A), never_err r <-> (forall p v s, ~ leaf r p (Err v s)).
Proof. exact @never_err_leaf_lemma. Qed.
Print Assumptions never_err_leaf.

(* pcall(f, ...) never raises: every leaf is (true, results), (false, e), out-of-fuel or unsupported *)
Theorem pcall_contains : forall n fr f rest s, never_err (builtin_call n fr BPcall (f :: rest) s).
Proof. exact pcall_contains_lemma. Qed.
Print Assumptions pcall_contains.

Theorem pcall_result_shape : forall n fr f rest s, pcall_shape (builtin_call n fr BPcall (f :: rest) s).
Proof. exact pcall_shape_lemma. Qed.
Print Assumptions pcall_result_shape.

(* the error value is delivered exactly once, as the pair (false, e), in the state of the error point *)
Theorem pcall_delivers_error : forall n fr f rest s e s',
  call n (pframes fr) f rest s = Err e s' ->
  builtin_call (S n) fr BPcall (f :: rest) s = Ret [VBool false; e] s'.
Proof. exact pcall_of_err_lemma. Qed.
Print Assumptions pcall_delivers_error.

Theorem pcall_delivers_results : forall n fr f rest s vs s',
  call n (pframes fr) f rest s = Ret vs s' ->
  builtin_call (S n) fr BPcall (f :: rest) s = Ret (VBool true :: vs) s'.
Proof. exact pcall_of_ret_lemma. Qed.
Print Assumptions pcall_delivers_results.

(* the same after any number of suspensions/resumptions inside the protected call *)
Theorem pcall_delivers_error_after_yields : forall n fr f rest s p e s',
  leaf (call n (pframes fr) f rest s) p (Err e s') ->
  exists x, leaf (builtin_call (S n) fr BPcall (f :: rest) s) p x /\ x = Ret [VBool false; e] s'.
Proof. exact pcall_leaf_err_lemma. Qed.
Print Assumptions pcall_delivers_error_after_yields.

Theorem pcall_is_handle : forall n fr f rest s,
  req (builtin_call (S n) fr BPcall (f :: rest) s) (handle (call n (pframes fr) f rest s) pcall_ok pcall_fail).
Proof. exact pcall_handle_lemma. Qed.
Print Assumptions pcall_is_handle.

(* xpcall: handler applied exactly once to the error value at the error point; its first result
   is delivered after false; its own outcome is not handled again *)
Theorem xpcall_handler_once : forall n fr args s,
  req (builtin_call (S n) fr BXpcall args s)
      (handle (call n (pframes fr) (nth 0 args VNil) [] s) pcall_ok (xp_handler n fr (nth 1 args VNil))).
Proof. exact xpcall_handle_lemma. Qed.
Print Assumptions xpcall_handler_once.

Theorem xpcall_handler_result_delivered : forall n fr args s e s1 hv s2,
  call n (pframes fr) (nth 0 args VNil) [] s = Err e s1 ->
  call n (pframes fr) (nth 1 args VNil) [e] s1 = Ret hv s2 ->
  builtin_call (S n) fr BXpcall args s = Ret [VBool false; first hv] s2.
Proof. exact xpcall_of_err_ret_lemma. Qed.
Print Assumptions xpcall_handler_result_delivered.

Theorem xpcall_contains : forall n fr args s, never_err (builtin_call n fr BXpcall args s).
Proof. exact xpcall_contains_lemma. Qed.
Print Assumptions xpcall_contains.

(* a handler that does not fail is not interfered with: its results are delivered as they are *)
Theorem xpcall_handler_result_as_is : forall n fr h e s,
  never_err (call n (pframes fr) h [e] s) ->
  req (xp_handler n fr h e s) (bind (call n (pframes fr) h [e] s) (fun hv s'' => Ret [VBool false; first hv] s'')).
Proof. exact xp_handler_ok_lemma. Qed.
Print Assumptions xpcall_handler_result_as_is.

Theorem xpcall_handler_unused_without_error : forall n fr f h h' s,
  never_err (call n (pframes fr) f [] s) ->
  req (builtin_call (S n) fr BXpcall [f; h] s) (builtin_call (S n) fr BXpcall [f; h'] s).
Proof. exact xpcall_no_error_no_handler_lemma. Qed.
Print Assumptions xpcall_handler_unused_without_error.

(* catch/bind interaction *)
Theorem catch_ret : forall A (a : A) s h, catch (Ret a s) h = Ret a s.
Proof. exact @catch_ret_lemma. Qed.
Print Assumptions catch_ret.

Theorem catch_bind : forall A B (r : res A) (f : A -> state -> res B) (h : value -> state -> res B),
  req (catch (bind r f) h) (handle r (fun a s => catch (f a s) h) h).
Proof. exact @catch_bind_lemma. Qed.
Print Assumptions catch_bind.

Theorem catch_of_never_err : forall A (r : res A) h, never_err r -> req (catch r h) r.
Proof. exact @catch_of_never_err_lemma. Qed.
Print Assumptions catch_of_never_err.

(* error(): values of any non-string type are raised unchanged at every level; level 0 never
   decorates; a string at level 1 gains the position of the calling Lua frame; error never returns *)
Theorem error_value_any_type : forall n fr args s lv,
  plain_error_value (nth 0 args VNil) ->
  opt_int (nth 1 args VNil) 1 s = Ret lv s ->
  builtin_call (S n) fr BError args s = Err (nth 0 args VNil) s.
Proof. exact error_value_any_type_lemma. Qed.
Print Assumptions error_value_any_type.

Theorem error_level0 : forall n fr args s lv,
  opt_int (nth 1 args VNil) 1 s = Ret lv s -> lv <= 0 ->
  (match nth 0 args VNil with VNum _ => False | _ => True end) ->
  builtin_call (S n) fr BError args s = Err (nth 0 args VNil) s.
Proof. exact error_level0_lemma. Qed.
Print Assumptions error_level0.

Theorem error_string_level1 : forall n cl l rest m s,
  builtin_call (S n) ((Some l, cl) :: rest) BError [VStr m] s = Err (VStr (pos_prefix l ++ m)) s.
Proof. exact error_string_level1_lemma. Qed.
Print Assumptions error_string_level1.

Theorem error_never_returns : forall n fr args s, never_ret (builtin_call n fr BError args s).
Proof. exact error_never_returns_lemma. Qed.
Print Assumptions error_never_returns.

(* side effects: whatever a call did to the observable trace before failing (or returning) is an
   extension of the trace; rows emitted before are never altered (induction over the evaluator);
   together with pcall_delivers_error: the state after a failed pcall is the state at the error *)
Theorem failed_call_extends_trace : forall n fr f args s v s',
  call n fr f args s = Err v s' \/ (exists r, call n fr f args s = Ret r s') ->
  exists ext, trace s' = trace s ++ ext.
Proof. exact call_trace_extends_lemma. Qed.
Print Assumptions failed_call_extends_trace.

Theorem failed_call_store_grows : forall n fr f args s v s', call n fr f args s = Err v s' -> store_grows s s'.
Proof. exact call_err_store_grows_lemma. Qed.
Print Assumptions failed_call_store_grows.

(* ---- M-VM (transcription of LState.PCall in _state.go): the two heights the property names ---- *)
From GL Require VMX.Machine VMX.Step VMX.PCallFacts.

(* PCall never lets an error through, whatever the callee, handler, state or re-entered main loop *)
Theorem vm_PCall_never_errs : forall ml nargs nret h s e s',
  Step.PCall ml nargs nret h s <> Machine.VErr e s'.
Proof. exact PCallFacts.PCall_never_errs. Qed.
Print Assumptions vm_PCall_never_errs.

(* after a failed protected call: reg.top is the callee's slot, the frame stack is the bottom of the
   failing state's frame stack *)
Theorem vm_PCall_error_heights : forall ml nargs nret h s e s',
  Step.PCall ml nargs nret h s = Machine.VRet (Some e) s' ->
  Machine.rtop (Machine.vreg s') = Machine.rtop (Machine.vreg s) - nargs - 1 /\
  exists sf, Machine.vstack s' = skipn (length (Machine.vstack sf) - length (Machine.vstack s)) (Machine.vstack sf).
Proof. exact PCallFacts.PCall_error_heights. Qed.
Print Assumptions vm_PCall_error_heights.

(* no handler: the error object delivered is exactly the one raised, the call depth is restored
   exactly, the value stack is cut back to the callee's slot *)
Theorem vm_PCall_nohandler_restores : forall ml nargs nret s e sf,
  Step.Call ml nargs nret s = Machine.VErr e sf ->
  (length (Machine.vstack s) <= length (Machine.vstack sf))%nat ->
  exists s', Step.PCall ml nargs nret None s = Machine.VRet (Some e) s' /\
             length (Machine.vstack s') = length (Machine.vstack s) /\
             Machine.rtop (Machine.vreg s') = Machine.rtop (Machine.vreg s) - nargs - 1 /\
             Machine.vstack s' = skipn (length (Machine.vstack sf) - length (Machine.vstack s)) (Machine.vstack sf).
Proof. exact PCallFacts.PCall_nohandler_restores. Qed.
Print Assumptions vm_PCall_nohandler_restores.

Theorem vm_PCall_ok_depth : forall ml nargs nret h s s',
  Step.PCall ml nargs nret h s = Machine.VRet None s' ->
  (length (Machine.vstack s') <= length (Machine.vstack s))%nat.
Proof. exact PCallFacts.PCall_ok_depth. Qed.
Print Assumptions vm_PCall_ok_depth.

(* ---- wave 5: the C-call depth (LState.nccalls, bounded by maxCCalls) across a failed protected call ---- *)
From GL Require VMX.PCallDepthFacts.

(* no handler: the C-call depth after a failed protected call is the depth at the call, whatever
   the callee did to it before failing (callR's own increment is never taken back by an error) *)
Theorem vm_PCall_nohandler_restores_ccalls : forall ml nargs nret s e sf,
  Step.Call ml nargs nret s = Machine.VErr e sf -> PCallDepthFacts.cur_ok sf ->
  exists s', Step.PCall ml nargs nret None s = Machine.VRet (Some e) s' /\
             Step.cur_nccalls s' = Step.cur_nccalls s /\ Machine.vcur s' = Machine.vcur sf.
Proof. exact PCallDepthFacts.PCall_nohandler_ccalls. Qed.
Print Assumptions vm_PCall_nohandler_restores_ccalls.

(* with a handler: the handler is called exactly once, in the failing state (same frames, same
   registers: before unwinding) whose C-call depth has ALREADY been put back to the depth at the
   PCall -- so it can run also when the error is the overflow of that depth --, and what the caller
   receives is the handler's result *)
Theorem vm_PCall_handler_runs_at_entry_depth : forall ml nargs nret hv s e sf,
  Step.Call ml nargs nret s = Machine.VErr e sf -> PCallDepthFacts.cur_ok sf ->
  let sh := Step.set_nccalls (Step.cur_nccalls s) sf in
  Step.cur_nccalls sh = Step.cur_nccalls s /\ Machine.vstack sh = Machine.vstack sf /\ Machine.vreg sh = Machine.vreg sf /\
  Step.PCall ml nargs nret (Some hv) s =
    match PCallDepthFacts.handler_run ml hv e sh with
    | Machine.VRet v s1 => Machine.VRet (Some v) (Step.unwind (length (Machine.vstack s)) (Machine.rtop (Machine.vreg s) - nargs - 1) s1)
    | Machine.VErr e2 s1 => Machine.VRet (Some e2) (Step.unwind (length (Machine.vstack s)) (Machine.rtop (Machine.vreg s) - nargs - 1) s1)
    | Machine.VFuel => Machine.VFuel
    | Machine.VUnsup c => Machine.VUnsup c
    end.
Proof. exact PCallDepthFacts.PCall_handler_entry. Qed.
Print Assumptions vm_PCall_handler_runs_at_entry_depth.

(* the handler returned: the depth after the protected call is the depth the handler's call left *)
Theorem vm_PCall_handler_returns_ccalls : forall ml nargs nret hv s e sf v s1,
  Step.Call ml nargs nret s = Machine.VErr e sf ->
  PCallDepthFacts.handler_run ml hv e (Step.set_nccalls (Step.cur_nccalls s) sf) = Machine.VRet v s1 ->
  exists s', Step.PCall ml nargs nret (Some hv) s = Machine.VRet (Some v) s' /\ Step.cur_nccalls s' = Step.cur_nccalls s1.
Proof. exact PCallDepthFacts.PCall_handler_returns_ccalls. Qed.
Print Assumptions vm_PCall_handler_returns_ccalls.

(* NOT covered in the VM model: the branch in which the handler itself raises (the Go code restores
   the depth there too since /repo 8afd4e6; Step.PCall does not follow yet, notes/VMX-todo.md item 4;
   the behaviour is checked against the real code by the harness: event "xpcall-handler-raises" of
   bookkeepingAfter and the reference-only corpus) *)
Definition vm_PCall_handler_raises_restores_ccalls_statement : Prop := forall ml nargs nret hv s e sf e2 s1,
  Step.Call ml nargs nret s = Machine.VErr e sf -> PCallDepthFacts.cur_ok s1 ->
  PCallDepthFacts.handler_run ml hv e (Step.set_nccalls (Step.cur_nccalls s) sf) = Machine.VErr e2 s1 ->
  exists s', Step.PCall ml nargs nret (Some hv) s = Machine.VRet (Some e2) s' /\ Step.cur_nccalls s' = Step.cur_nccalls s.

(* the full "prefix of the fault-free side effects" statement relates two runs (with and without
   the injected fault): stated here as a definition and PROVED below (fault_prefix) by a lock-step
   simulation of the two runs over the whole evaluator and the coroutine driver *)
Definition fin_state (f : fin) : option state :=
  match f with FinOk _ s | FinErr _ s => Some s | _ => None end.
Definition with_fault (d : devs) (k : Z) : devs :=
  mkDevs (dv_handler_err d) (dv_localfunc d) (dv_wrap_noprefix d) (dv_fault_string d) k.
Definition fault_prefix_statement : Prop :=
  forall n d k body s1 s2,
    dv_emit_fault d = 0 -> 0 < k ->
    fin_state (run_program n d body) = Some s1 ->
    fin_state (run_program n (with_fault d k) body) = Some s2 ->
    firstn (Z.to_nat (k - 1)) (trace s2) = firstn (Z.to_nat (k - 1)) (trace s1).

(* ---- the two-run law of fault injection (Lua/FaultFacts, FaultStepFacts, FaultRunFacts) ---- *)
From GL Require Lua.FaultFacts Lua.FaultStepFacts Lua.FaultRunFacts.

(* a run in which the k-th call of the host function emit fails leaves the same first k-1 trace
   rows as the fault-free run of the same program with the same fuel: for all programs (also with
   coroutines, pcall/xpcall around or inside the failing call, errors, metamethods), all k, all
   other deviation switches *)
Theorem fault_prefix : fault_prefix_statement.
Proof. exact FaultRunFacts.fault_prefix_lemma. Qed.
Print Assumptions fault_prefix.

(* the same up to the return of any single call — e.g. a protected call: whatever states the call
   ends in (normally or by an error) under the two switches, their first k-1 rows agree *)
Theorem call_fault_prefix : forall n k fr f args s s1 s2,
  dv_emit_fault (dv s) = 0 -> 0 < k ->
  FaultRunFacts.res_state (call n fr f args s) = Some s1 ->
  FaultRunFacts.res_state (call n fr f args (FaultFacts.fl k s)) = Some s2 ->
  firstn (Z.to_nat (k - 1)) (trace s2) = firstn (Z.to_nat (k - 1)) (trace s1).
Proof. exact FaultRunFacts.call_fault_prefix_lemma. Qed.
Print Assumptions call_fault_prefix.

(* the simulation behind it: result trees of the two runs are in lock step (same shape, values,
   states equal up to the switch, continuations related) or diverged inside emit with k-1 common rows *)
Theorem call_fault_simulation : forall n k fr f args s,
  dv_emit_fault (dv s) = 0 -> 0 < k ->
  FaultFacts.agree k (call n fr f args s) (call n fr f args (FaultFacts.fl k s)).
Proof. exact FaultRunFacts.call_agree_lemma. Qed.
Print Assumptions call_fault_simulation.

(* the two runs can only part inside emit, at the call that finds exactly k-1 rows *)
Theorem emit_before_fault : forall n k fr args s,
  dv_emit_fault (dv s) = 0 -> 0 < k -> len (trace s) + 1 <> k ->
  builtin_call (S n) fr BEmit args s = Ret [] (with_trace s (trace s ++ [args])) /\
  builtin_call (S n) fr BEmit args (FaultFacts.fl k s) = Ret [] (FaultFacts.fl k (with_trace s (trace s ++ [args]))).
Proof. exact FaultRunFacts.emit_before_fault_lemma. Qed.
Print Assumptions emit_before_fault.
