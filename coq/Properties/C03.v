(* C03 — property theorems only. Variables of the reference evaluator are store cells; closures
   capture cell references; function environments: for all programs fragments, states, fuel. *)
From GL Require Import Common.Bytes Lua.Syntax Lua.Num Lua.Values Lua.Names Lua.Eval
  Lua.ValuesFacts Lua.MonadFacts Lua.EvalStepFacts Lua.CallFacts Lua.ClosureFacts Lua.CatchFacts
  Lua.DriveFacts Lua.EvalInvFacts Lua.DriveRunFacts.

Theorem alloc_cell_fresh : forall v s,
  exists s', alloc_cell v s = Ret (length (cells s)) s' /\
    ~ (length (cells s) < length (cells s))%nat /\
    length (cells s') = S (length (cells s)) /\
    nth (length (cells s)) (cells s') VNil = v /\
    (forall i, (i < length (cells s))%nat -> nth i (cells s') VNil = nth i (cells s) VNil) /\
    tabs s' = tabs s /\ clos s' = clos s /\ cos s' = cos s /\ uds s' = uds s /\
    trace s' = trace s /\ cur s' = cur s /\ strmt s' = strmt s /\ dv s' = dv s.
Proof. exact alloc_cell_fresh_lemma. Qed.
Print Assumptions alloc_cell_fresh.

Theorem write_cell_other : forall i v s,
  exists s', write_cell i v s = Ret tt s' /\
    (forall j, j <> i -> nth j (cells s') VNil = nth j (cells s) VNil) /\
    ((i < length (cells s))%nat -> nth i (cells s') VNil = v) /\
    length (cells s') = length (cells s) /\
    tabs s' = tabs s /\ clos s' = clos s /\ cos s' = cos s /\ uds s' = uds s /\
    trace s' = trace s /\ cur s' = cur s /\ strmt s' = strmt s /\ dv s' = dv s.
Proof. exact write_cell_other_lemma. Qed.
Print Assumptions write_cell_other.

Theorem closure_captures_env : forall n cx ln en ps va body l1 l2 s,
  let c := mkClo ps va body en (c_fenv (clo_of s (cx_clo cx))) l1 false in
  let s' := with_clos s (clos s ++ [c]) in
  eval_e (S n) cx ln en (EFunc ps va body l1 l2) s = Ret (VFun (length (clos s))) s' /\
  clo_of s' (length (clos s)) = c /\
  c_env (clo_of s' (length (clos s))) = en /\
  c_fenv (clo_of s' (length (clos s))) = c_fenv (clo_of s (cx_clo cx)) /\
  (forall r, (r < length (clos s))%nat -> clo_of s' r = clo_of s r) /\
  cells s' = cells s /\ tabs s' = tabs s.
Proof. exact closure_captures_env_lemma. Qed.
Print Assumptions closure_captures_env.

Theorem closures_share_cells : forall n m cx ln en ps va body l1 l2 ps' va' body' l1' l2' s s1 s2 v1 v2 x,
  eval_e (S n) cx ln en (EFunc ps va body l1 l2) s = Ret v1 s1 ->
  eval_e (S m) cx ln en (EFunc ps' va' body' l1' l2') s1 = Ret v2 s2 ->
  exists r1 r2, v1 = VFun r1 /\ v2 = VFun r2 /\ r1 <> r2 /\
    lookup (c_env (clo_of s2 r1)) x = lookup en x /\ lookup (c_env (clo_of s2 r2)) x = lookup en x.
Proof. exact closures_share_cells_lemma. Qed.
Print Assumptions closures_share_cells.

Theorem local_read_is_cell : forall n cx ln en x c s, lookup en x = Some c ->
  eval_e (S n) cx ln en (EVar x) s = Ret (nth c (cells s) VNil) s.
Proof. exact local_read_lemma. Qed.
Print Assumptions local_read_is_cell.

Theorem numfor_fresh_cell_per_iteration : forall n cx en x i lim step body s,
  numfor_continues i lim step = true ->
  let c := length (cells s) in
  let s1 := with_cells s (cells s ++ [VNum i]) in
  numfor_loop (S n) cx en x i lim step body s =
    bind (block n cx ((x, c) :: en) body [] 0 s1) (numfor_next n cx en x i lim step body) /\
  ~ (c < length (cells s))%nat /\
  nth c (cells s1) VNil = VNum i /\
  (forall j, (j < length (cells s))%nat -> nth j (cells s1) VNil = nth j (cells s) VNil).
Proof. exact numfor_fresh_cell_lemma. Qed.
Print Assumptions numfor_fresh_cell_per_iteration.

Theorem local_fresh_cells : forall n cx en ln xs es s vs s1,
  localfunc_shape xs es = false ->
  eval_list_with (eval_e n cx ln en) (eval_multi n cx ln en) es s = Ret vs s1 ->
  exec (S n) cx en (SLocal ln xs es) s =
  Ret (SigNormal, rev (combine xs (seq (length (cells s1)) (length xs))) ++ en)
      (with_cells s1 (cells s1 ++ adjust (length xs) vs)).
Proof. exact exec_local_lemma. Qed.
Print Assumptions local_fresh_cells.

(* each call gets fresh parameter cells (C02's bind_params_spec), restated here for closures *)
Theorem call_fresh_cells : forall n fr r args s,
  let c := nth r (clos s) dummy_clo in
  call (S n) fr (VFun r) args s =
  bind (block n (mkCtx (callee_varargs c args) fr r) (callee_env s c) (c_body c) [] 0 (callee_state s c args))
       ret_of_signal.
Proof. exact call_fun_setup_lemma. Qed.
Print Assumptions call_fresh_cells.

(* an error caught by pcall hands back the store of the error point: cell contents written by
   the failed call (through captured variables) persist *)
Theorem error_keeps_store : forall n fr f rest s e s',
  call n (pframes fr) f rest s = Err e s' ->
  builtin_call (S n) fr BPcall (f :: rest) s = Ret [VBool false; e] s'.
Proof. exact pcall_of_err_lemma. Qed.
Print Assumptions error_keeps_store.

(* the store only grows, whatever runs (induction over the whole evaluator): an index that is
   fresh now was never valid before, and every cell a closure captured stays a valid cell — on
   normal return and on error alike *)
Theorem store_only_grows_exec : forall n cx en st s r s', exec n cx en st s = Ret r s' -> store_grows s s'.
Proof. exact exec_store_grows_lemma. Qed.
Print Assumptions store_only_grows_exec.

Theorem store_only_grows_call : forall n fr f args s r s', call n fr f args s = Ret r s' -> store_grows s s'.
Proof. exact call_store_grows_lemma. Qed.
Print Assumptions store_only_grows_call.

Theorem store_only_grows_on_error : forall n fr f args s v s', call n fr f args s = Err v s' -> store_grows s s'.
Proof. exact call_err_store_grows_lemma. Qed.
Print Assumptions store_only_grows_on_error.

(* function environments *)
Theorem fenv_inherited : forall n cx ln en ps va body l1 l2 s,
  let c := mkClo ps va body en (c_fenv (clo_of s (cx_clo cx))) l1 false in
  let s' := with_clos s (clos s ++ [c]) in
  eval_e (S n) cx ln en (EFunc ps va body l1 l2) s = Ret (VFun (length (clos s))) s' /\
  clo_of s' (length (clos s)) = c /\
  c_env (clo_of s' (length (clos s))) = en /\
  c_fenv (clo_of s' (length (clos s))) = c_fenv (clo_of s (cx_clo cx)) /\
  (forall r, (r < length (clos s))%nat -> clo_of s' r = clo_of s r) /\
  cells s' = cells s /\ tabs s' = tabs s.
Proof. exact closure_captures_env_lemma. Qed.
Print Assumptions fenv_inherited.

Theorem free_name_uses_fenv : forall n cx ln en x s, lookup en x = None ->
  eval_e (S n) cx ln en (EVar x) s =
  index n (here cx ln) (VTab (c_fenv (clo_of s (cx_clo cx)))) (VStr x) 100 s.
Proof. exact global_read_lemma. Qed.
Print Assumptions free_name_uses_fenv.

Theorem setfenv_changes_only_that_closure : forall n fr r t rest s,
  let s' := with_clos s (set_nth (clos s) r (set_fenv_clo (clo_of s r) t)) in
  builtin_call (S n) fr BSetFenv (VFun r :: VTab t :: rest) s = Ret [VFun r] s' /\
  ((r < length (clos s))%nat -> clo_of s' r = set_fenv_clo (clo_of s r) t) /\
  (forall r', r' <> r -> clo_of s' r' = clo_of s r') /\
  c_env (set_fenv_clo (clo_of s r) t) = c_env (clo_of s r) /\
  c_body (set_fenv_clo (clo_of s r) t) = c_body (clo_of s r) /\
  cells s' = cells s /\ tabs s' = tabs s /\ cos s' = cos s.
Proof. exact setfenv_changes_only_that_lemma. Qed.
Print Assumptions setfenv_changes_only_that_closure.

Theorem setfenv_then_free_name : forall n m fr r t rest s cx ln en x,
  (r < length (clos s))%nat -> cx_clo cx = r -> lookup en x = None ->
  exists s', builtin_call (S n) fr BSetFenv (VFun r :: VTab t :: rest) s = Ret [VFun r] s' /\
    eval_e (S m) cx ln en (EVar x) s' = index m (here cx ln) (VTab t) (VStr x) 100 s'.
Proof. exact setfenv_then_global_lemma. Qed.
Print Assumptions setfenv_then_free_name.

Theorem getfenv_reads_it : forall n fr r rest s,
  builtin_call (S n) fr BGetFenv (VFun r :: rest) s = Ret [VTab (c_fenv (clo_of s r))] s.
Proof. exact getfenv_lemma. Qed.
Print Assumptions getfenv_reads_it.

(* ---------------------------------------------------------------------------------------------
   M-VM (coq/VMX): the upvalue mechanism of the bytecode VM (L.uvcache, findUpvalue,
   closeUpvalues of _state.go), for arbitrary upvalue heaps, lists and registries. *)
From GL Require Import VMX.Machine VMX.Step VMX.Spec.
From GL Require VMX.UpvalFacts VMX.FrameFacts.

(* findUpvalue and closeUpvalues keep "valid, open, strictly increasing register indices" *)
Theorem uvcache_sorted_inv : forall ops s,
  state_cache_inv s -> state_cache_inv (fold_left (fun s o => apply_uvop o s) ops s).
Proof. exact UpvalFacts.uvcache_sorted_inv. Qed.
Print Assumptions uvcache_sorted_inv.

Theorem findUpvalue_inv : forall idx s,
  state_cache_inv s ->
  let '(r, s') := findUpvalue_st idx s in
  state_cache_inv s' /\ In r (vuvcache s') /\
  uv_index (uvat (vuvs s') r) = idx /\ uv_closed (uvat (vuvs s') r) = false /\
  vreg s' = vreg s /\ vstack s' = vstack s /\
  (forall u, In u (vuvcache s) -> In u (vuvcache s') /\ uvat (vuvs s') u = uvat (vuvs s) u).
Proof. exact UpvalFacts.findUpvalue_inv. Qed.
Print Assumptions findUpvalue_inv.

(* two captures of one register return the same upvalue *)
Theorem findUpvalue_shared : forall idx s,
  state_cache_inv s ->
  let '(r1, s1) := findUpvalue_st idx s in
  findUpvalue_st idx s1 = (r1, s1).
Proof. exact UpvalFacts.findUpvalue_shared. Qed.
Print Assumptions findUpvalue_shared.

Theorem findUpvalue_shared_interleaved : forall idx idx' s,
  state_cache_inv s ->
  let '(r1, s1) := findUpvalue_st idx s in
  let '(_, s2) := findUpvalue_st idx' s1 in
  fst (findUpvalue_st idx s2) = r1.
Proof. exact UpvalFacts.findUpvalue_shared_interleaved. Qed.
Print Assumptions findUpvalue_shared_interleaved.

Theorem close_ge : forall idx s,
  state_cache_inv s ->
  let s' := closeUpvalues_st idx s in
  state_cache_inv s' /\
  (forall u, In u (vuvcache s') -> uv_index (uvat (vuvs s') u) < idx /\ uv_closed (uvat (vuvs s') u) = false) /\
  (forall u, In u (vuvcache s) -> uv_index (uvat (vuvs s) u) >= idx ->
      uvat (vuvs s') u = mkUv (uv_index (uvat (vuvs s) u)) true (rd (arr (vreg s)) (uv_index (uvat (vuvs s) u)))
                              (uv_thread (uvat (vuvs s) u))) /\
  (forall u, ~ (In u (vuvcache s) /\ uv_index (uvat (vuvs s) u) >= idx) -> uvat (vuvs s') u = uvat (vuvs s) u) /\
  vreg s' = vreg s /\ vstack s' = vstack s.
Proof. exact UpvalFacts.close_ge. Qed.
Print Assumptions close_ge.

Theorem open_alias : forall r u, uv_closed u = false -> uv_read r u = rd (arr r) (uv_index u).
Proof. exact UpvalFacts.open_alias. Qed.
Print Assumptions open_alias.

Theorem no_dangling_after_close : forall idx s u,
  state_cache_inv s -> In u (vuvcache (closeUpvalues_st idx s)) ->
  uv_index (uvat (vuvs (closeUpvalues_st idx s)) u) < idx.
Proof. exact UpvalFacts.no_dangling_after_close. Qed.
Print Assumptions no_dangling_after_close.

Theorem no_dangling_after_return : forall cf RA B base s b s' u,
  vstack s <> [] -> state_cache_inv s -> not_coroutine_bottom s ->
  do_return cf RA B base s = VRet b s' ->
  In u (vuvcache s') -> uv_index (uvat (vuvs s') u) < fr_localbase cf.
Proof. exact FrameFacts.no_dangling_after_return. Qed.
Print Assumptions no_dangling_after_return.

Theorem no_dangling_after_tailcall : forall cf callable lv meta nargs RA s b s' u,
  state_cache_inv s ->
  (vdo _ <- closeUpvalues (fr_localbase cf); tailcall_lua cf callable lv meta nargs RA) s = VRet b s' ->
  state_cache_inv s' /\
  (In u (vuvcache s') -> uv_index (uvat (vuvs s') u) < fr_localbase cf).
Proof. exact FrameFacts.no_dangling_after_tailcall. Qed.
Print Assumptions no_dangling_after_tailcall.

(* PCall's recovery (pcall and xpcall alike): nothing open is left over the unwound registers *)
Theorem pcall_recovery_dangle_free : forall sp base s,
  state_cache_inv s ->
  let s' := unwind sp base s in
  state_cache_inv s' /\
  rtop (vreg s') = base /\
  (length (vstack s') <= length (vstack s))%nat /\
  (forall u, In u (vuvcache s') -> uv_index (uvat (vuvs s') u) < base /\ uv_closed (uvat (vuvs s') u) = false).
Proof. exact FrameFacts.pcall_recovery_dangle_free. Qed.
Print Assumptions pcall_recovery_dangle_free.

(* ---- tables of globals of threads, environments of functions (coq/Fenv/FenvModel.v; wave 5) ----
   The model is tied to the interpreter by the C3Env cases (random operation trees run through the
   base library and through the host API). For all states, contexts, operations: *)
From GL Require Import Fenv.FenvModel Fenv.FenvFacts.

(* coroutine.create / coroutine.wrap / NewThread: the new thread gets the table of globals its
   creator has at that moment (lua_newthread), nothing else changes *)
Theorem thread_env_inherited_at_creation :
  forall cx s k j w f, aget (s_F s) j = Some f ->
    let s' := simple_step cx (OCoCreate k j w) s in
    let c := length (s_ths s) in
    aget (s_C s') k = Some c /\
    getth s' c = mkTh (t_env (getth s (c_th cx))) f false w /\
    (forall t, (t < length (s_ths s))%nat -> getth s' t = getth s t) /\
    s_fns s' = s_fns s /\ s_tabs s' = s_tabs s /\ s_out s' = s_out s.
Proof. exact cocreate_inherits_creator_env. Qed.
Print Assumptions thread_env_inherited_at_creation.

(* setfenv(0, t): only the running thread's table is replaced (threads created earlier keep theirs) *)
Theorem setfenv0_only_this_thread :
  forall cx s t, (c_th cx < length (s_ths s))%nat ->
    let s' := simple_step cx (OSetT t) s in
    t_env (getth s' (c_th cx)) = t /\
    (forall th, th <> c_th cx -> getth s' th = getth s th) /\
    s_fns s' = s_fns s /\ s_tabs s' = s_tabs s /\ s_out s' = s_out s.
Proof. exact setT_only_this_thread. Qed.
Print Assumptions setfenv0_only_this_thread.

Theorem debug_setfenv_only_that_thread :
  forall cx s k t c, aget (s_C s) k = Some c -> t_wrap (getth s c) = false -> (c < length (s_ths s))%nat ->
    let s' := simple_step cx (OSetCo k t) s in
    t_env (getth s' c) = t /\ (forall th, th <> c -> getth s' th = getth s th) /\ s_fns s' = s_fns s.
Proof. exact setCo_only_that_thread. Qed.
Print Assumptions debug_setfenv_only_that_thread.

(* loadstring / load / LoadString: the chunk's environment is the loading thread's table of globals *)
Theorem loaded_chunk_takes_thread_env :
  forall cx s k body,
    let s' := simple_step cx (OLoad k body) s in
    let f := length (s_fns s) in
    aget (s_F s') k = Some f /\ getfn s' f = mkFn (t_env (getth s (c_th cx))) body /\
    (forall g, (g < length (s_fns s))%nat -> getfn s' g = getfn s g) /\ s_ths s' = s_ths s.
Proof. exact load_takes_thread_env. Qed.
Print Assumptions loaded_chunk_takes_thread_env.

(* a closure's environment is its creator's (not the thread's) *)
Theorem closure_takes_creator_env :
  forall th fcur d s k body,
    let cx := mkCtx th (Some fcur) d in
    let s' := simple_step cx (OClosure k body) s in
    let f := length (s_fns s) in
    aget (s_F s') k = Some f /\ getfn s' f = mkFn (f_env (getfn s fcur)) body /\
    (forall g, (g < length (s_fns s))%nat -> getfn s' g = getfn s g) /\ s_ths s' = s_ths s.
Proof. exact closure_inherits_creator_env. Qed.
Print Assumptions closure_takes_creator_env.

(* free names are read and assigned in the running function's environment *)
Theorem free_name_read_through_function_env :
  forall th f d s x,
    let cx := mkCtx th (Some f) d in
    s_out (simple_step cx (ORead x) s) =
      (match aget (nth (f_env (getfn s f)) (s_tabs s) []) x with Some v => v | None => nilv end) :: s_out s.
Proof. exact free_name_through_function_env. Qed.
Print Assumptions free_name_read_through_function_env.

Theorem free_name_assigned_in_function_env :
  forall th f d s x v, (f_env (getfn s f) < length (s_tabs s))%nat ->
    let cx := mkCtx th (Some f) d in
    let s' := simple_step cx (OWrite x v) s in
    aget (nth (f_env (getfn s f)) (s_tabs s') []) x = Some v /\
    (forall e, e <> f_env (getfn s f) -> nth e (s_tabs s') [] = nth e (s_tabs s) []) /\
    s_fns s' = s_fns s /\ s_ths s' = s_ths s.
Proof. exact free_name_write_through_function_env. Qed.
Print Assumptions free_name_assigned_in_function_env.

Theorem setfenv_f_only_that_function :
  forall cx s k t f, aget (s_F s) k = Some f -> (f < length (s_fns s))%nat ->
    let s' := simple_step cx (OSetF k t) s in
    getfn s' f = mkFn t (f_body (getfn s f)) /\
    (forall g, g <> f -> getfn s' g = getfn s g) /\ s_ths s' = s_ths s.
Proof. exact setF_only_that_function. Qed.
Print Assumptions setfenv_f_only_that_function.

Theorem setfenv1_only_running_function :
  forall th f d s t, (f < length (s_fns s))%nat ->
    let s' := simple_step (mkCtx th (Some f) d) (OSetSelf t) s in
    getfn s' f = mkFn t (f_body (getfn s f)) /\
    (forall g, g <> f -> getfn s' g = getfn s g) /\ s_ths s' = s_ths s.
Proof. exact setSelf_only_running_function. Qed.
Print Assumptions setfenv1_only_running_function.

(* whole runs (any nesting of calls, loaded chunks, coroutines): functions and threads are never
   removed or renumbered, bodies and the body function / creation mode of a thread never change *)
Theorem env_run_only_extends :
  forall n cx os s s', env_exec n cx os s = Some s' -> extends s s'.
Proof. exact exec_extends. Qed.
Print Assumptions env_run_only_extends.

(* the first resume runs the body in the coroutine's own thread (table of globals fixed at creation
   or by debug.setfenv on it), whatever the resumer's table is by then *)
Theorem coroutine_body_runs_in_own_thread :
  forall n cx k rest s c, aget (s_C s) k = Some c -> t_started (getth s c) = false -> (c_depth cx < maxdepth)%nat ->
    env_exec (S n) cx (OCoResume k :: rest) s =
      match env_exec n (mkCtx c (Some (t_fn (getth s c))) (S (c_depth cx))) (f_body (getfn s (t_fn (getth s c)))) (set_started s c) with
      | Some s' => env_exec n cx rest s'
      | None => None
      end.
Proof. exact resume_runs_in_own_thread. Qed.
Print Assumptions coroutine_body_runs_in_own_thread.

Theorem env_exec_fuel_mono :
  forall n cx os s s', env_exec n cx os s = Some s' -> forall m, (n <= m)%nat -> env_exec m cx os s = Some s'.
Proof. exact exec_fuel_mono. Qed.
Print Assumptions env_exec_fuel_mono.
