(* Proofs about quoting: the transcription equals the spec; the spec reads back through the
   transcribed lexer as the same bytes, for every byte string. *)
From GL Require Import Common.Bytes Text.Quote Text.StrLit.
From Coq Require Import Lia ZifyBool.

(* ---------- transcription = spec ---------- *)
Lemma go_quote_loop_spec : forall s buf, go_quote_loop s buf = buf ++ quote_body s.
Proof.
  induction s as [|c s IH]; intros buf; simpl.
  - now rewrite app_nil_r.
  - rewrite IH. unfold quote_byte.
    destruct (c =? 34) eqn:E1; simpl.
    { apply Z.eqb_eq in E1; subst. now rewrite <- app_assoc. }
    destruct (c =? 92) eqn:E2; simpl.
    { apply Z.eqb_eq in E2; subst. now rewrite <- app_assoc. }
    destruct (c =? 10) eqn:E3; simpl.
    { apply Z.eqb_eq in E3; subst. now rewrite <- app_assoc. }
    destruct (c =? 13) eqn:E4; simpl.
    { now rewrite <- app_assoc. }
    destruct (c =? 0) eqn:E5; simpl; now rewrite <- app_assoc.
Qed.

Lemma go_lua_quote_spec_lemma : forall s, go_lua_quote s = lua_quote s.
Proof.
  intros s. unfold go_lua_quote, lua_quote. rewrite go_quote_loop_spec. reflexivity.
Qed.

(* ---------- reading back ---------- *)
Lemma next_raw : forall c r, c <> 10 -> c <> 13 -> next (c :: r) = (c, r).
Proof.
  intros c r H1 H2. unfold next.
  destruct (c =? 10) eqn:E1; [apply Z.eqb_eq in E1; contradiction|].
  destruct (c =? 13) eqn:E2; [apply Z.eqb_eq in E2; contradiction|]. reflexivity.
Qed.

Definition head_not (x : Z) (s : bytes) : Prop := match s with c :: _ => c <> x | [] => True end.

Lemma next_lf : forall r, head_not 13 r -> next (10 :: r) = (10, r).
Proof.
  intros r H. unfold next. simpl. destruct r as [|c r]; [reflexivity|].
  simpl in H. destruct (c =? 13) eqn:E; [apply Z.eqb_eq in E; contradiction|reflexivity].
Qed.

Lemma quote_byte_head : forall c, is_byte c = true -> head_not 13 (quote_byte c) /\ head_not 10 (quote_byte c) /\ quote_byte c <> [].
Proof.
  intros c Hc. unfold quote_byte.
  destruct (c =? 34) eqn:E1; [simpl; repeat split; lia || discriminate|].
  destruct (c =? 92) eqn:E2; [simpl; repeat split; lia || discriminate|].
  destruct (c =? 10) eqn:E3; [simpl; repeat split; lia || discriminate|].
  destruct (c =? 13) eqn:E4; [simpl; repeat split; lia || discriminate|].
  destruct (c =? 0) eqn:E5; [simpl; repeat split; lia || discriminate|].
  simpl. repeat split; try lia. discriminate.
Qed.

Lemma quote_tail_head : forall bs rest, is_bytes bs = true -> head_not 13 (quote_body bs ++ 34 :: rest).
Proof.
  intros [|c bs] rest H; simpl; [lia|].
  simpl in H. apply andb_true_iff in H as [Hc _].
  destruct (quote_byte_head c Hc) as (H13 & _ & Hne).
  destruct (quote_byte c) as [|x l]; [contradiction|]. simpl in *. exact H13.
Qed.

Lemma scan_str_quote_body : forall bs fuel acc rest,
  is_bytes bs = true -> (length bs < fuel)%nat ->
  scan_str fuel 34 (quote_body bs ++ 34 :: rest) acc = Ok (acc ++ bs, rest).
Proof.
  induction bs as [|c bs IH]; intros fuel acc rest Hb Hf.
  - destruct fuel as [|f]; [simpl in Hf; lia|]. simpl. now rewrite app_nil_r.
  - simpl in Hb. apply andb_true_iff in Hb as [Hc Hbs].
    destruct fuel as [|f]; [simpl in Hf; lia|].
    assert (Hf' : (length bs < f)%nat) by (simpl in Hf; lia).
    assert (Hacc : forall x, (acc ++ [x]) ++ bs = acc ++ x :: bs) by (intros; now rewrite <- app_assoc).
    change (quote_body (c :: bs)) with (quote_byte c ++ quote_body bs).
    rewrite <- app_assoc.
    pose proof (quote_tail_head bs rest Hbs) as Htl.
    set (tail := quote_body bs ++ 34 :: rest) in *.
    unfold quote_byte, is_byte in *.
    destruct (c =? 34) eqn:E1.
    { apply Z.eqb_eq in E1; subst c. cbn [app scan_str].
      rewrite next_raw by lia. cbn -[scan_str next].
      unfold scan_escape. rewrite next_raw by lia. cbn -[scan_str next].
      subst tail. rewrite IH by assumption. now rewrite Hacc. }
    destruct (c =? 92) eqn:E2.
    { apply Z.eqb_eq in E2; subst c. cbn [app scan_str].
      rewrite next_raw by lia. cbn -[scan_str next].
      unfold scan_escape. rewrite next_raw by lia. cbn -[scan_str next].
      subst tail. rewrite IH by assumption. now rewrite Hacc. }
    destruct (c =? 10) eqn:E3.
    { apply Z.eqb_eq in E3; subst c. cbn [app scan_str].
      rewrite next_raw by lia. cbn -[scan_str next].
      unfold scan_escape. rewrite next_lf by assumption. cbn -[scan_str next].
      subst tail. rewrite IH by assumption. now rewrite Hacc. }
    destruct (c =? 13) eqn:E4.
    { apply Z.eqb_eq in E4; subst c. cbn [app scan_str].
      rewrite next_raw by lia. cbn -[scan_str next].
      unfold scan_escape. rewrite next_raw by lia. cbn -[scan_str next].
      subst tail. rewrite IH by assumption. now rewrite Hacc. }
    destruct (c =? 0) eqn:E5.
    { apply Z.eqb_eq in E5; subst c. cbn [app scan_str].
      rewrite next_raw by lia. cbn -[scan_str next].
      unfold scan_escape. rewrite next_raw by lia. cbn -[scan_str next].
      subst tail. rewrite IH by assumption. now rewrite Hacc. }
    cbn [app scan_str].
    rewrite next_raw by lia.
    destruct (c =? 34) eqn:E1'; [discriminate|].
    replace ((c =? 10) || (c <? 0)) with false by lia.
    destruct (c =? 92) eqn:E2'; [discriminate|].
    subst tail. rewrite IH by assumption. now rewrite Hacc.
Qed.

Lemma quote_body_length : forall bs, (length bs <= length (quote_body bs))%nat.
Proof.
  induction bs as [|c bs IH]; simpl; [lia|]. rewrite app_length.
  assert (1 <= length (quote_byte c))%nat.
  { unfold quote_byte. repeat match goal with |- context [if ?b then _ else _] => destruct b end; simpl; lia. }
  lia.
Qed.

(* the quoted text followed by anything is one string token with the original bytes *)
Lemma quote_token_lemma : forall bs rest, is_bytes bs = true ->
  scan_string_token (lua_quote bs ++ rest) = Ok (bs, rest).
Proof.
  intros bs rest Hb. unfold lua_quote, scan_string_token.
  cbn [app]. replace ((34 =? 34) || (34 =? 39)) with true by reflexivity.
  rewrite <- app_assoc. cbn [app].
  rewrite scan_str_quote_body; [reflexivity|assumption|].
  rewrite app_length. pose proof (quote_body_length bs). simpl. lia.
Qed.

Lemma quote_roundtrip_lemma : forall bs, is_bytes bs = true -> lex_string (lua_quote bs) = Some bs.
Proof.
  intros bs Hb. unfold lex_string.
  rewrite <- (app_nil_r (lua_quote bs)). now rewrite quote_token_lemma.
Qed.

(* what the code computes for %q reads back *)
Lemma format_q_roundtrip_lemma : forall bs, is_bytes bs = true -> lex_string (go_lua_quote bs) = Some bs.
Proof. intros. rewrite go_lua_quote_spec_lemma. now apply quote_roundtrip_lemma. Qed.

(* the behaviour before the fix did not have the property *)
Lemma go_quote_refuted_lemma : exists bs, is_bytes bs = true /\ lex_string (strconv_quote_ascii bs) <> Some bs.
Proof. exists [0]. split; [reflexivity|]. vm_compute. discriminate. Qed.
