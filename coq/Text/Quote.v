(* C16, quoting. Spec: what string.format with the q verb must produce (Lua 5.1 lstrlib.c addquoted).
   Impl: transcription of luaQuote in /repo/value.go (buffer appended to in a loop), reached from
   LString.Format case 'q'. No proofs here. Bytes are Z in [0,256). *)
From GL Require Import Common.Bytes.

(* ---------- spec ---------- *)
(* double quote 34, backslash 92, LF 10, CR 13, r 114, 0 48 *)
Definition quote_byte (c : Z) : bytes :=
  if c =? 34 then [92; 34]
  else if c =? 92 then [92; 92]
  else if c =? 10 then [92; 10]
  else if c =? 13 then [92; 114]
  else if c =? 0 then [92; 48; 48; 48]
  else [c].

Definition quote_body (s : bytes) : bytes := flat_map quote_byte s.
Definition lua_quote (s : bytes) : bytes := 34 :: quote_body s ++ [34].

(* ---------- impl (transcription of luaQuote) ---------- *)
Fixpoint go_quote_loop (s buf : bytes) : bytes :=
  match s with
  | [] => buf
  | c :: r =>
    go_quote_loop r
      (if (c =? 34) || (c =? 92) || (c =? 10) then buf ++ [92; c]
       else if c =? 13 then buf ++ [92; 114]
       else if c =? 0 then buf ++ [92; 48; 48; 48]
       else buf ++ [c])
  end.

Definition go_lua_quote (s : bytes) : bytes := go_quote_loop s [34] ++ [34].

(* ---------- the behaviour before the fix (record only; no longer tied to any code) ----------
   %q used to fall through to Go's strconv.Quote. On ASCII input that function writes
   backslash + a b f n r t v backslash doublequote for those bytes, printable 0x20..0x7e raw and \xHH for the rest.
   Kept to state that such output does not read back (go_quote_refuted). *)
Definition hexdig (n : Z) : Z := if n <? 10 then 48 + n else 87 + n.
Definition strconv_quote_ascii_byte (c : Z) : bytes :=
  if c =? 7 then [92; 97] else if c =? 8 then [92; 98] else if c =? 12 then [92; 102]
  else if c =? 10 then [92; 110] else if c =? 13 then [92; 114] else if c =? 9 then [92; 116]
  else if c =? 11 then [92; 118] else if c =? 92 then [92; 92] else if c =? 34 then [92; 34]
  else if (32 <=? c) && (c <=? 126) then [c]
  else [92; 120; hexdig (c / 16); hexdig (c mod 16)].
Definition strconv_quote_ascii (s : bytes) : bytes :=
  34 :: flat_map strconv_quote_ascii_byte s ++ [34].
