(* C16, the scanner's reader. Impl: transcription of /repo/parse/lexer.go readNext / Peek / Newline /
   Next over the bufio.Reader the scanner owns (NewScanner: bufio.NewReaderSize(reader, 4096)).
   The state of that reader is what is buffered and not yet read plus the deliveries still to come:
   each Read call of the underlying io.Reader hands over one segment (4096 bytes of a
   strings.Reader, one byte of a terminal, nothing at all for a Read that returns 0, nil).
   bufio.fill asks again after an empty Read (the model: any number of times; the Go code: up to
   100 consecutive times, then io.ErrNoProgress) and ReadByte fills only when nothing is buffered.
   Text.StrLit works on the flat byte list; Text/ReaderFacts.v proves that this is sound: what
   Next and Peek return does not depend on how the bytes were delivered. No proofs here. *)
From GL Require Import Common.Bytes Text.StrLit.

Record rd := mkRd { rd_buf : bytes; rd_pend : list bytes }.

(* every byte the scanner will ever get, in order *)
Definition flat (r : rd) : bytes := rd_buf r ++ concat (rd_pend r).

(* bufio.fill on an empty buffer: the first delivery that is not empty *)
Fixpoint fill (pend : list bytes) : bytes * list bytes :=
  match pend with
  | [] => ([], [])
  | [] :: p => fill p
  | s :: p => (s, p)
  end.

(* readNext: ReadByte; EOF = -1 *)
Definition read_byte (r : rd) : Z * rd :=
  match rd_buf r with
  | c :: b => (c, mkRd b (rd_pend r))
  | [] =>
    let '(s, p) := fill (rd_pend r) in
    match s with c :: b => (c, mkRd b p) | [] => (-1, mkRd [] []) end
  end.

(* Peek: readNext, then UnreadByte unless EOF. The byte stays buffered: a Peek on an empty buffer
   has pulled the next delivery in. *)
Definition peek_rd (r : rd) : Z * rd :=
  match rd_buf r with
  | c :: _ => (c, r)
  | [] =>
    let '(s, p) := fill (rd_pend r) in
    match s with c :: _ => (c, mkRd s p) | [] => (-1, mkRd [] []) end
  end.

(* Next with Newline inlined: a line end is LF or CR; the partner byte of a pair is looked for with
   Peek (whether or not it is buffered already) and swallowed *)
Definition next_rd (r : rd) : Z * rd :=
  let '(ch, r1) := read_byte r in
  if (ch =? 10) || (ch =? 13) then
    let '(nx, r2) := peek_rd r1 in
    if ((ch =? 10) && (nx =? 13)) || ((ch =? 13) && (nx =? 10)) then (10, snd (read_byte r2))
    else (10, r2)
  else (ch, r1).

(* the first n characters Next returns, from a reader / from a flat byte list *)
Fixpoint chars_rd (n : nat) (r : rd) : list Z :=
  match n with O => [] | S k => let '(c, r') := next_rd r in c :: chars_rd k r' end.
Fixpoint chars (n : nat) (s : bytes) : list Z :=
  match n with O => [] | S k => let '(c, s') := next s in c :: chars k s' end.

(* NOT today's code, record only: Newline that does not look for the partner when nothing is
   buffered (`if sc.reader.Buffered() == 0 { return }`). Examples/C16_ex.v shows that the theorem
   about next_rd is false of it. *)
Definition next_rd_shortcut (r : rd) : Z * rd :=
  let '(ch, r1) := read_byte r in
  if (ch =? 10) || (ch =? 13) then
    match rd_buf r1 with
    | [] => (10, r1)
    | _ =>
      let '(nx, r2) := peek_rd r1 in
      if ((ch =? 10) && (nx =? 13)) || ((ch =? 13) && (nx =? 10)) then (10, snd (read_byte r2))
      else (10, r2)
    end
  else (ch, r1).
