(* Proofs about the numeral token of the lexer (scanNumber), tonumber with a base, and the
   decimal printing of integers. *)
From GL Require Import Common.Bytes Text.NumRead Text.NumFacts Text.NumText.
From Coq Require Import Lia ZifyBool.

Local Ltac zb := repeat match goal with
  | H : (_ =? _) = true |- _ => apply Z.eqb_eq in H
  | H : (_ =? _) = false |- _ => apply Z.eqb_neq in H
  | H : (_ && _) = true |- _ => apply andb_true_iff in H; destruct H
  | H : (_ || _) = false |- _ => apply orb_false_iff in H; destruct H
  | H : negb _ = true |- _ => apply negb_true_iff in H
  end.

Definition dd (c : Z) : bool := is_digit c || (c =? 46).

(* ---------- scanNumber only splits the input ---------- *)
Lemma scan_number_split : forall ch r text r3, scan_number ch r = Some (text, r3) ->
  text ++ r3 = ch :: r /\ numeral_kind text <> KNone.
Proof.
  intros ch r text r3 H. unfold scan_number in H.
  destruct (span (fun c => is_digit c || (c =? 46)) r) as [a r1] eqn:E1.
  destruct (span_spec _ _ _ _ E1) as (Hr & _ & _).
  set (sel := match r1 with
              | c :: r0 => if is_e c then match r0 with
                                         | c2 :: r' => if is_pm c2 then ([c; c2], r') else ([c], r0)
                                         | [] => ([c], r0) end
                           else ([], r1)
              | [] => ([], r1) end) in *.
  assert (Hsel : r1 = fst sel ++ snd sel).
  { subst sel. destruct r1 as [|c r0]; [reflexivity|]. destruct (is_e c); [|reflexivity].
    destruct r0 as [|c2 r']; [reflexivity|]. destruct (is_pm c2); reflexivity. }
  destruct sel as [b r2]. cbn [fst snd] in Hsel.
  destruct (span is_ident1 r2) as [c r3'] eqn:E3.
  destruct (span_spec _ _ _ _ E3) as (Hr2 & _ & _).
  destruct (numeral_kind (ch :: a ++ b ++ c)) eqn:Ek; [discriminate| |];
    inversion H; subst; (split; [|congruence]); cbn [app]; now rewrite <- !app_assoc.
Qed.

(* ---------- scanNumber takes a whole numeral ---------- *)
Lemma ident1_digits : forall ds, forallb is_digit ds = true -> forallb is_ident1 ds = true.
Proof. intros ds. apply forallb_impl. intros c H. unfold is_ident1. rewrite H. now rewrite !orb_true_r. Qed.

Lemma ident1_hex : forall hs, forallb is_hex hs = true -> forallb is_ident1 hs = true.
Proof. intros hs. apply forallb_impl. intros c H. unfold is_ident1, is_hex, is_digit in *. lia. Qed.

Lemma scan_number_mantissa : forall ch M' ex e text,
  forallb dd M' = true -> Exponent ex e -> text = ch :: M' ++ ex -> numeral_kind text <> KNone ->
  scan_number ch (M' ++ ex) = Some (text, []).
Proof.
  intros ch M' ex e text HM Hex -> Hk. unfold scan_number.
  assert (Hstop : stops dd ex).
  { inversion Hex; subst; [exact I|]. simpl. unfold dd, is_e, is_digit in *. lia. }
  fold dd. rewrite span_app by assumption.
  inversion Hex as [|c sg k ds Hc Hsg Hds Hne]; subst.
  - cbn [span app]. destruct (numeral_kind (ch :: M' ++ [])); [contradiction|reflexivity|reflexivity].
  - rewrite Hc. destruct ds as [|d ds']; [contradiction|].
    assert (Hd : is_digit d = true) by (unfold all_digits in Hds; simpl in Hds; now apply andb_true_iff in Hds as [? _]).
    assert (Hsp : span is_ident1 (d :: ds') = (d :: ds', [])).
    { rewrite <- (app_nil_r (d :: ds')) at 1. apply span_app; [now apply ident1_digits|exact I]. }
    inversion Hsg; subst; cbn [app].
    + replace (is_pm d) with false by (unfold is_pm, is_digit in *; lia).
      rewrite Hsp. cbn [app] in *.
      destruct (numeral_kind (ch :: M' ++ c :: d :: ds')); [contradiction|reflexivity|reflexivity].
    + replace (is_pm 43) with true by reflexivity. rewrite Hsp. cbn [app] in *.
      destruct (numeral_kind (ch :: M' ++ c :: 43 :: d :: ds')); [contradiction|reflexivity|reflexivity].
    + replace (is_pm 45) with true by reflexivity. rewrite Hsp. cbn [app] in *.
      destruct (numeral_kind (ch :: M' ++ c :: 45 :: d :: ds')); [contradiction|reflexivity|reflexivity].
Qed.

Lemma dd_digits : forall ds, all_digits ds -> forallb dd ds = true.
Proof. intros ds. apply forallb_impl. intros c H. unfold dd. now rewrite H. Qed.

Lemma unsigned_kind : forall u m e, Unsigned u m e -> numeral_kind u <> KNone.
Proof. intros u m e H Hk. apply unsigned_iff_lemma in H. now rewrite Hk in H. Qed.

Lemma scan_number_complete : forall ch r m e, Unsigned (ch :: r) m e -> scan_number ch r = Some (ch :: r, []).
Proof.
  intros ch r m e H. pose proof (unsigned_kind _ _ _ H) as Hk.
  inversion H as [u m' e' Hd | u m' Hh]; subst.
  - inversion Hd as [ip ex e0 Hip Hne Hex Heq | ip fp ex e0 Hip Hfp Hne Hex Heq]; subst.
    + destruct ip as [|d ip']; [contradiction|]. cbn [app] in Heq. inversion Heq; subst.
      eapply scan_number_mantissa; try eassumption; try reflexivity.
      apply dd_digits. unfold all_digits in *. simpl in Hip. now apply andb_true_iff in Hip as [_ ?].
    + assert (HM : forallb dd (ip ++ 46 :: fp) = true).
      { rewrite forallb_app. rewrite (dd_digits _ Hip). simpl. now rewrite (dd_digits _ Hfp). }
      replace (ip ++ 46 :: fp ++ ex) with ((ip ++ 46 :: fp) ++ ex) in * by (rewrite <- app_assoc; reflexivity).
      destruct (ip ++ 46 :: fp) as [|c0 M'] eqn:EM; [destruct ip; discriminate|].
      cbn [app] in Heq. inversion Heq; subst.
      eapply scan_number_mantissa; try eassumption; try reflexivity.
      simpl in HM. now apply andb_true_iff in HM as [_ ?].
  - inversion Hh as [x hs Hx Hhs Hne Heq]; subst. unfold scan_number.
    assert (Hx1 : is_digit x || (x =? 46) = false) by (unfold is_x, is_digit in *; lia).
    cbn [span]. rewrite Hx1. replace (is_e x) with false by (unfold is_x, is_e in *; lia).
    assert (Hsp : span is_ident1 (x :: hs) = (x :: hs, [])).
    { rewrite <- (app_nil_r (x :: hs)) at 1. apply span_app; [|exact I]. simpl.
      replace (is_ident1 x) with true by (unfold is_x, is_ident1 in *; lia). now apply ident1_hex. }
    rewrite Hsp. cbn [app].
    destruct (numeral_kind (48 :: x :: hs)); [contradiction|reflexivity|reflexivity].
Qed.

(* ---------- the lexer reads exactly the unsigned numerals, with parseNumber's value ---------- *)
Lemma lex_entry : forall c r m e, Unsigned (c :: r) m e ->
  is_digit c || ((c =? 46) && is_digit (match r with c2 :: _ => c2 | [] => -1 end)) = true.
Proof.
  intros c r m e H. inversion H as [u m' e' Hd | u m' Hh]; subst.
  - inversion Hd as [ip ex e0 Hip Hne Hex Heq | ip fp ex e0 Hip Hfp Hne Hex Heq]; subst.
    + destruct ip as [|d ip']; [contradiction|]. cbn [app] in Heq. inversion Heq; subst.
      unfold all_digits in Hip. simpl in Hip. apply andb_true_iff in Hip as [-> _]. reflexivity.
    + destruct ip as [|d ip'].
      * cbn [app] in Heq. inversion Heq; subst. destruct fp as [|f fp']; [contradiction|].
        unfold all_digits in Hfp. simpl in Hfp. apply andb_true_iff in Hfp as [Hf _].
        cbn [app]. rewrite Hf. reflexivity.
      * cbn [app] in Heq. inversion Heq; subst.
        unfold all_digits in Hip. simpl in Hip. apply andb_true_iff in Hip as [-> _]. reflexivity.
  - inversion Hh; subst. reflexivity.
Qed.

Lemma lex_numeral_complete : forall s m e, Unsigned s m e -> lex_numeral s = LNVal m e.
Proof.
  intros s m e H. destruct s as [|c r]; [exfalso; eapply unsigned_nonempty; eauto|].
  unfold lex_numeral. rewrite (lex_entry _ _ _ _ H). rewrite (scan_number_complete _ _ _ _ H).
  now rewrite (parse_exact_unsigned _ _ _ H).
Qed.

Lemma lex_numeral_accepts : forall s, lex_numeral s <> LNReject -> exists m e, Unsigned s m e.
Proof.
  intros s H. unfold lex_numeral in H. destruct s as [|c r]; [contradiction|].
  destruct (is_digit c || ((c =? 46) && is_digit (match r with c2 :: _ => c2 | [] => -1 end))); [|contradiction].
  destruct (scan_number c r) as [[text r3]|] eqn:ES; [|contradiction].
  destruct r3; [|contradiction].
  destruct (scan_number_split _ _ _ _ ES) as [Ht Hk]. rewrite app_nil_r in Ht. subst text.
  now apply kind_unsigned.
Qed.

Lemma lex_numeral_iff_lemma : forall s m e, lex_numeral s = LNVal m e <-> Unsigned s m e.
Proof.
  intros s m e. split; [|apply lex_numeral_complete].
  intros H. destruct (lex_numeral_accepts s) as (m' & e' & Hu); [congruence|].
  rewrite (lex_numeral_complete _ _ _ Hu) in H. inversion H; subst. exact Hu.
Qed.

Lemma lex_numeral_never_nan_lemma : forall s, lex_numeral s <> LNNaN.
Proof.
  intros s H. destruct (lex_numeral_accepts s) as (m & e & Hu); [congruence|].
  rewrite (lex_numeral_complete _ _ _ Hu) in H. discriminate.
Qed.

(* the three readers *)
Lemma readers_agree_lemma : forall s m e,
  (tonumber s None = Some (m, e) <-> Numeral s m e) /\
  (coerce s = Some (m, e) <-> Numeral s m e) /\
  (lex_numeral s = LNVal m e <-> Unsigned s m e) /\
  lex_numeral s <> LNNaN.
Proof.
  intros s m e. unfold tonumber, coerce. cbn [Z.eqb Pos.eqb].
  repeat split; try apply parse_exact_iff_lemma; try apply lex_numeral_iff_lemma.
  apply lex_numeral_never_nan_lemma.
Qed.

(* on source text that is one unsigned numeral all three give the same value; a numeral for the
   lexer is a numeral for the other two *)
Lemma readers_same_value_lemma : forall s m e, Unsigned s m e ->
  tonumber s None = Some (m, e) /\ coerce s = Some (m, e) /\ lex_numeral s = LNVal m e.
Proof.
  intros s m e H. repeat split.
  - now apply parse_exact_unsigned.
  - now apply parse_exact_unsigned.
  - now apply lex_numeral_complete.
Qed.

(* ---------- tonumber with a base ---------- *)
Lemma radix_val_spec : forall b ds acc, radix_digits b ds -> radix_val b ds acc = Some (radix_value b ds acc).
Proof.
  induction ds as [|c ds IH]; intros acc H; [reflexivity|]. unfold radix_digits in *. simpl in H.
  apply andb_true_iff in H as [Hc Hds]. cbn [radix_val radix_value].
  destruct (radix_digit c) as [d|]; [|discriminate]. rewrite Hc. now apply IH.
Qed.

Lemma radix_val_sound : forall b ds acc n, radix_val b ds acc = Some n -> radix_digits b ds /\ n = radix_value b ds acc.
Proof.
  induction ds as [|c ds IH]; intros acc n H.
  - inversion H; subst. split; reflexivity.
  - cbn [radix_val] in H. unfold radix_digits. cbn [forallb radix_value].
    destruct (radix_digit c) as [d|]; [|discriminate]. destruct (d <? b) eqn:E; [|discriminate].
    destruct (IH _ _ H) as [H1 H2]. split; [exact H1|exact H2].
Qed.

Lemma radix_digit_numchar : forall c d, radix_digit c = Some d -> numchar c = true /\ c <> 43 /\ c <> 45.
Proof.
  intros c d H. unfold radix_digit in H. unfold numchar, is_space.
  destruct (is_digit c) eqn:E1; [unfold is_digit in E1; lia|].
  destruct ((97 <=? c) && (c <=? 122)) eqn:E2; [lia|].
  destruct ((65 <=? c) && (c <=? 90)) eqn:E3; [lia|discriminate].
Qed.

Lemma radix_digits_chars : forall b ds, radix_digits b ds ->
  forallb numchar ds = true /\ match ds with c :: _ => c <> 43 /\ c <> 45 | [] => True end.
Proof.
  intros b ds H. unfold radix_digits in H. split.
  - eapply forallb_impl; [|exact H]. intros c Hc. cbv beta in Hc.
    destruct (radix_digit c) eqn:E; [|discriminate]. now destruct (radix_digit_numchar _ _ E).
  - destruct ds as [|c ds]; [exact I|]. simpl in H. apply andb_true_iff in H as [Hc _].
    destruct (radix_digit c) eqn:E; [|discriminate]. now destruct (radix_digit_numchar _ _ E) as (_ & ? & ?).
Qed.

Definition in_int64 (z : Z) : Prop := - 2 ^ 63 <= z < 2 ^ 63.

Lemma radix_digit_not_pm : forall b ds, radix_digits b ds -> ds <> [] ->
  match ds with c :: _ => is_pm c = false | [] => True end.
Proof.
  intros b ds H Hne. destruct (radix_digits_chars _ _ H) as [_ Hh]. destruct ds as [|c ds]; [exact I|].
  unfold is_pm. lia.
Qed.

(* x is not a digit of base 16 *)
Lemma x_not_hex_digit : forall x, is_x x = true -> match radix_digit x with Some d => d <? 16 | None => false end = false.
Proof. intros x H. unfold is_x in H. assert (x = 120 \/ x = 88) as [->| ->] by lia; reflexivity. Qed.

Lemma parse_radix_digits : forall b k sg px ds, 2 <= b <= 36 -> SignOpt sg k -> RadixPrefix b px ->
  radix_digits b ds -> ds <> [] -> parse_radix (sg ++ px ++ ds) b = Some (k * radix_value b ds 0).
Proof.
  intros b k sg px ds Hb Hsg Hpx Hds Hne. unfold parse_radix.
  pose proof (radix_digit_not_pm _ _ Hds Hne) as Hpm.
  assert (Hss : strip_sign (sg ++ px ++ ds) = (k, px ++ ds)).
  { assert (Hh : match px ++ ds with c :: _ => c <> 45 /\ c <> 43 | [] => False end).
    { inversion Hpx; subst; cbn [app]; [|lia]. destruct ds as [|c ds']; [contradiction|].
      unfold is_pm in Hpm. lia. }
    inversion Hsg; subst; try reflexivity. cbn [app]. destruct (px ++ ds) as [|c r]; [contradiction|].
    unfold strip_sign. destruct Hh. replace (c =? 45) with false by lia. replace (c =? 43) with false by lia.
    reflexivity. }
  rewrite Hss. inversion Hpx as [|x H16 Hx]; subst; cbn [app].
  - (* no prefix: the prefix test fails because x is not a digit *)
    assert (Hu : match ds with
                 | c0 :: c1 :: ((_ :: _) as r) => if (b =? 16) && (c0 =? 48) && is_x c1 then r else ds
                 | _ => ds end = ds).
    { destruct ds as [|c0 [|c1 [|c2 r]]]; try reflexivity.
      destruct ((b =? 16) && (c0 =? 48) && is_x c1) eqn:E; [|reflexivity]. exfalso.
      apply andb_true_iff in E as [E Ex]. apply andb_true_iff in E as [Eb _].
      unfold radix_digits in Hds. cbn [forallb] in Hds.
      apply andb_true_iff in Hds as [_ Hds]. apply andb_true_iff in Hds as [Hc1 _].
      assert (b = 16) by lia. subst b. rewrite (x_not_hex_digit _ Ex) in Hc1. discriminate. }
    rewrite Hu. destruct ds as [|c ds']; [contradiction|]. rewrite Hpm.
    now rewrite (radix_val_spec _ _ 0 Hds).
  - destruct ds as [|c ds']; [contradiction|]. rewrite Hx. cbn [Z.eqb Pos.eqb andb]. rewrite Hpm.
    now rewrite (radix_val_spec _ _ 0 Hds).
Qed.

Lemma tonumber_base_complete : forall b s z, 2 <= b <= 36 -> b <> 10 ->
  RadixNumeral b s z -> tonumber s (Some b) = Some (z, 0).
Proof.
  intros b s z Hb H10 H. inversion H as [l sg k px ds t Hl Ht Hsg Hpx Hds Hne]; subst.
  unfold tonumber. replace (b =? 10) with false by lia.
  destruct (radix_digits_chars _ _ Hds) as [Hnc _].
  assert (Hmid : nonspace_ends (sg ++ px ++ ds)).
  { apply numchars_ends.
    - intros Hn. apply app_eq_nil in Hn as [_ Hn]. apply app_eq_nil in Hn as [_ Hn]. contradiction.
    - rewrite !forallb_app, (sign_numchars _ _ Hsg), Hnc.
      inversion Hpx; subst; [reflexivity|]. cbn. unfold numchar, is_space, is_x in *.
      replace (negb ((9 <=? x) && (x <=? 13) || (x =? 32))) with true by lia. reflexivity. }
  replace (l ++ sg ++ px ++ ds ++ t) with (l ++ (sg ++ px ++ ds) ++ t) by now rewrite <- !app_assoc.
  rewrite trim_space_app by assumption.
  now rewrite (parse_radix_digits b k sg px ds Hb Hsg Hpx Hds Hne).
Qed.

Lemma tonumber_base_sound : forall b s v, 2 <= b <= 36 -> b <> 10 ->
  tonumber s (Some b) = Some v -> exists z, v = (z, 0) /\ RadixNumeral b s z.
Proof.
  intros b s v Hb H10 H. unfold tonumber in H. replace (b =? 10) with false in H by lia.
  destruct (parse_radix (trim_space s) b) as [z|] eqn:EP; [|discriminate].
  inversion H; subst. exists z. split; [reflexivity|].
  unfold parse_radix in EP.
  destruct (trim_space_spec s) as (l & t & Hs & Hl & Ht).
  destruct (strip_sign (trim_space s)) as [k u] eqn:ESg.
  destruct (strip_sign_spec _ _ _ ESg) as (sg & Htr & Hsg).
  set (u' := match u with
             | c0 :: c1 :: ((_ :: _) as r) => if (b =? 16) && (c0 =? 48) && is_x c1 then r else u
             | _ => u end) in *.
  assert (Hpx : exists px, u = px ++ u' /\ RadixPrefix b px).
  { subst u'. destruct u as [|c0 [|c1 [|c2 r]]]; try (exists []; split; [reflexivity|constructor]).
    destruct ((b =? 16) && (c0 =? 48) && is_x c1) eqn:E; [|exists []; split; [reflexivity|constructor]].
    apply andb_true_iff in E as [E Ex]. apply andb_true_iff in E as [Eb E0].
    exists [c0; c1]. split; [reflexivity|]. replace c0 with 48 by lia. constructor; [lia|assumption]. }
  destruct Hpx as (px & Hu & Hpx).
  destruct u' as [|c r']; [discriminate|]. destruct (is_pm c); [discriminate|].
  destruct (radix_val b (c :: r') 0) as [n|] eqn:ER; [|discriminate].
  destruct (radix_val_sound _ _ _ _ ER) as [Hds Hn]. inversion EP; subst z n.
  rewrite Hs, Htr, Hu, <- !app_assoc. constructor; try assumption. discriminate.
Qed.

Lemma tonumber_base_spec_lemma : forall b s v, 2 <= b <= 36 ->
  (tonumber s (Some b) = Some v <->
   if b =? 10 then Numeral s (fst v) (snd v)
   else exists z, v = (z, 0) /\ RadixNumeral b s z).
Proof.
  intros b s [m e] Hb. destruct (b =? 10) eqn:E10.
  - unfold tonumber. rewrite E10. cbn [fst snd]. apply parse_exact_iff_lemma.
  - assert (b <> 10) by lia. split.
    + now apply tonumber_base_sound.
    + intros (z & Hv & Hr). inversion Hv; subst. now apply tonumber_base_complete.
Qed.
