(* Proofs about printing numbers: integers print as plain decimal digits that every reader reads
   back as the same integer; tostring/tonumber round trip given the strconv oracles. *)
From GL Require Import Common.Bytes Text.NumRead Text.NumFacts Text.NumLexFacts Text.NumText.
From Coq Require Import Lia ZifyBool.

Fixpoint lsd_val (l : bytes) : Z :=
  match l with [] => 0 | d :: r => (d - 48) + 10 * lsd_val r end.

Lemma lsd_digits_spec : forall f n, 0 <= n < 2 ^ Z.of_nat (S f) ->
  lsd_val (lsd_digits (S f) n) = n /\ forallb is_digit (lsd_digits (S f) n) = true /\ lsd_digits (S f) n <> [].
Proof.
  induction f as [|f IH]; intros n Hn.
  - assert (n < 10) by (change (2 ^ Z.of_nat 1) with 2 in Hn; lia).
    cbn [lsd_digits]. replace (n <? 10) with true by lia. cbn [lsd_val forallb]. unfold is_digit.
    repeat split; try lia. discriminate.
  - remember (S f) as f1. cbn [lsd_digits]. destruct (n <? 10) eqn:E.
    + cbn [lsd_val forallb]. unfold is_digit. repeat split; try lia. discriminate.
    + assert (Hd : 0 <= n / 10 < 2 ^ Z.of_nat f1).
      { rewrite Nat2Z.inj_succ, Z.pow_succ_r in Hn by lia.
        split; [apply Z.div_pos; lia|]. apply Z.div_lt_upper_bound; lia. }
      subst f1. destruct (IH _ Hd) as (H1 & H2 & H3).
      cbn [lsd_val forallb]. rewrite H1, H2. unfold is_digit.
      pose proof (Z.mod_pos_bound n 10 ltac:(lia)). pose proof (Z.div_mod n 10 ltac:(lia)).
      repeat split; try lia. discriminate.
Qed.

Lemma digits_val_acc_snoc : forall a d acc, digits_val_acc (a ++ [d]) acc = digits_val_acc a acc * 10 + (d - 48).
Proof. induction a as [|x a IH]; intros d acc; [reflexivity|]. cbn [app digits_val_acc]. apply IH. Qed.

Lemma digits_val_rev : forall l, digits_val (rev l) = lsd_val l.
Proof.
  induction l as [|d l IH]; [reflexivity|]. cbn [rev lsd_val]. unfold digits_val in *.
  rewrite digits_val_acc_snoc, IH. lia.
Qed.

Lemma print_nat_spec : forall n, 0 <= n ->
  digits_val (print_nat n) = n /\ all_digits (print_nat n) /\ print_nat n <> [].
Proof.
  intros n Hn. unfold print_nat, all_digits.
  assert (Hb : 0 <= n < 2 ^ Z.of_nat (S (Z.to_nat (Z.log2 n)))).
  { split; [assumption|]. rewrite Nat2Z.inj_succ, Z2Nat.id by apply Z.log2_nonneg.
    destruct (Z.eq_dec n 0) as [->|]; [reflexivity|]. apply Z.log2_spec. lia. }
  destruct (lsd_digits_spec _ _ Hb) as (H1 & H2 & H3).
  rewrite digits_val_rev, forallb_rev. repeat split; try assumption.
  intros Hr. apply H3. rewrite <- (rev_involutive (lsd_digits _ n)). now rewrite Hr.
Qed.

Lemma print_nat_numeral : forall n, 0 <= n -> DecNumeral (print_nat n) n 0.
Proof.
  intros n Hn. destruct (print_nat_spec n Hn) as (H1 & H2 & H3).
  rewrite <- (app_nil_r (print_nat n)). rewrite <- H1 at 2. constructor; try assumption. constructor.
Qed.

Lemma print_int_numeral : forall z, Numeral (print_int z) z 0.
Proof.
  intros z. unfold print_int. destruct (z <? 0) eqn:E.
  - replace (45 :: print_nat (- z)) with ([] ++ [45] ++ print_nat (- z) ++ []) by (simpl; now rewrite app_nil_r).
    replace z with (-1 * (- z)) at 2 by lia.
    apply (Num [] [45] (-1) (print_nat (- z)) (- z) 0 []); try reflexivity; [constructor|].
    apply UDec. apply print_nat_numeral. lia.
  - apply unsigned_is_numeral. apply UDec. apply print_nat_numeral. lia.
Qed.

(* every reader reads a printed integer back as that integer *)
Lemma int_print_parse_lemma : forall z, parse_exact (print_int z) = Some (z, 0).
Proof. intros z. apply parse_exact_complete. apply print_int_numeral. Qed.

Lemma int_print_lex_lemma : forall n, 0 <= n -> lex_numeral (print_int n) = LNVal n 0.
Proof.
  intros n Hn. unfold print_int. replace (n <? 0) with false by lia.
  apply lex_numeral_complete. apply UDec. now apply print_nat_numeral.
Qed.

(* the text of a printed integer: an optional minus sign and decimal digits, nothing else *)
Definition plain_int (s : bytes) : Prop :=
  exists ds, all_digits ds /\ ds <> [] /\ (s = ds \/ s = 45 :: ds).

Lemma print_int_plain : forall z, plain_int (print_int z).
Proof.
  intros z. unfold print_int. destruct (z <? 0) eqn:E.
  - destruct (print_nat_spec (- z) ltac:(lia)) as (_ & H2 & H3). exists (print_nat (- z)). auto.
  - destruct (print_nat_spec z ltac:(lia)) as (_ & H2 & H3). exists (print_nat z). auto.
Qed.

(* LNumber.String of an integral value inside the int64 range *)
Lemma integral_no_exponent_lemma : forall fmt x z,
  int_of_fval x = Some z -> - 2 ^ 63 <= z < 2 ^ 63 ->
  lnumber_string fmt x = print_int z /\ plain_int (lnumber_string fmt x).
Proof.
  intros fmt x z Hx Hz. unfold lnumber_string, is_integer. rewrite Hx.
  replace ((- 2 ^ 63 <=? z) && (z <? 2 ^ 63)) with true by lia.
  split; [reflexivity|apply print_int_plain].
Qed.

Section RoundTrip.
  (* strconv.ParseFloat's rounding and fmt.Sprint(float64) *)
  Variable rnd : Z -> Z -> fval.
  Variable fmt : fval -> bytes.
  (* an integer that is exactly a binary64 value rounds to that value *)
  Hypothesis rnd_int_exact : forall x z, is_canon x = true -> int_of_fval x = Some z -> rnd z 0 = x.
  (* Sprint of a finite value that is not printed as an integer is a numeral ParseFloat reads back *)
  Hypothesis fmt_roundtrip : forall x, is_finite x = true -> is_canon x = true -> is_integer x = false ->
    parse_number rnd (fmt x) = Some x.

  Lemma tostring_tonumber_lemma : forall x, is_finite x = true -> is_canon x = true ->
    tonumber_f rnd (lnumber_string fmt x) None = Some x.
  Proof.
    intros x Hf Hc. unfold tonumber_f, tonumber. cbn [Z.eqb Pos.eqb].
    unfold lnumber_string. destruct (is_integer x) eqn:Ei.
    - unfold is_integer in Ei. destruct (int_of_fval x) as [z|] eqn:Ez; [|discriminate].
      rewrite int_print_parse_lemma. f_equal. now apply rnd_int_exact.
    - pose proof (fmt_roundtrip x Hf Hc Ei) as H. unfold parse_number in H. exact H.
  Qed.
End RoundTrip.
