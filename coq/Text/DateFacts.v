(* Proofs about dates: os.time reads back exactly the fields os.date('*t') wrote; strftime renders a
   format piece by piece. *)
From GL Require Import Common.Bytes Text.NumRead Text.Date.
From Coq Require Import Lia ZifyBool.

Section Calendar.
  (* time.Unix(t,0) in the zone, broken down; time.Date(...).Unix() *)
  Variable to_civil : Z -> civil.
  Variable of_civil : Z -> Z -> Z -> Z -> Z -> Z -> Z.
  (* a zone without transitions: building the time from its own broken-down fields gives it back *)
  Hypothesis cal_inverse : forall t, let c := to_civil t in
    of_civil (c_year c) (c_month c) (c_day c) (c_hour c) (c_min c) (c_sec c) = t.

  Lemma time_date_roundtrip_lemma : forall t, os_time of_civil (os_date_t to_civil t) = Some t.
  Proof. intros t. unfold os_time, os_date_t, get_int_field. cbn [dget fname_eqb]. f_equal. apply cal_inverse. Qed.

  (* every field os.time reads is the number os.date wrote: no default, no string conversion *)
  Lemma date_fields_plumbing_lemma : forall t k, In k [FYear; FMonth; FDay; FHour; FMin; FSec] ->
    exists z, dget (os_date_t to_civil t) k = Some (DNum z) /\
              forall dflt, get_int_field (os_date_t to_civil t) k dflt = Some z.
  Proof.
    intros t k Hk. simpl in Hk.
    destruct Hk as [<-|[<-|[<-|[<-|[<-|[<-|[]]]]]]]; eexists; split; try reflexivity; intros; reflexivity.
  Qed.
End Calendar.

(* ---------- strftime ---------- *)
Lemma strftime_pieces_lemma : forall c ps, forallb wf_piece ps = true ->
  strftime c (flat_map piece_text ps) = flat_map (render_piece c) ps.
Proof.
  intros c. unfold strftime. induction ps as [|p ps IH]; intros Hwf; [reflexivity|].
  simpl in Hwf. apply andb_true_iff in Hwf as [Hp Hps]. specialize (IH Hps).
  cbn [flat_map]. destruct p as [b|d]; cbn [piece_text render_piece].
  - destruct (b =? 37) eqn:E.
    + apply Z.eqb_eq in E; subst b. cbn [app strftime_go]. cbn [Z.eqb Pos.eqb]. now rewrite IH.
    + cbn [app strftime_go]. rewrite E. now rewrite IH.
  - simpl in Hp. apply negb_true_iff in Hp. cbn [app strftime_go]. cbn [Z.eqb Pos.eqb].
    repeat rewrite Hp. cbn [strftime_go]. repeat rewrite Hp. now rewrite IH.
Qed.

Lemma strftime_parse_aux : forall c n s, (length s <= n)%nat ->
  strftime_go c s false = flat_map (render_piece c) (parse_fmt s).
Proof.
  intros c. induction n as [|n IH]; intros s Hn.
  - destruct s; [reflexivity|simpl in Hn; lia].
  - destruct s as [|ch r]; [reflexivity|]. cbn [strftime_go parse_fmt].
    destruct (ch =? 37) eqn:E.
    + destruct r as [|c2 r2]; [apply Z.eqb_eq in E; subst; reflexivity|].
      destruct (c2 =? 37) eqn:E2.
      * cbn [flat_map render_piece app]. rewrite IH by (simpl in Hn; lia). reflexivity.
      * cbn [strftime_go]. rewrite E2. cbn [flat_map render_piece].
        rewrite IH by (simpl in Hn; lia). reflexivity.
    + cbn [flat_map render_piece app]. rewrite IH by (simpl in Hn; lia). reflexivity.
Qed.

(* every format string: the transcription of the flag scanner renders the format's pieces in order *)
Lemma strftime_parse_lemma : forall c fmt, strftime c fmt = flat_map (render_piece c) (parse_fmt fmt).
Proof. intros c fmt. unfold strftime. now apply (strftime_parse_aux c (length fmt)). Qed.

(* each conversion the table supports renders what C's strftime renders from the same fields *)
Lemma strftime_fields_lemma : forall c d b, c_conv d c = Some b -> strftime c [37; d] = b.
Proof.
  intros c d b H. rewrite strftime_parse_lemma. cbn [parse_fmt].
  destruct (d =? 37) eqn:E; [apply Z.eqb_eq in E; subst; discriminate|].
  cbn [Z.eqb Pos.eqb]. cbn [flat_map render_piece]. unfold go_conv. rewrite H. apply app_nil_r.
Qed.

(* the fields, spelled out: [37; k] is the percent sign followed by the conversion letter
   Y 89, y 121, m 109, d 100, H 72, M 77, S 83, j 106, w 119, a 97, A 65, b 98, B 66, I 73, x 120, X 88 *)
Lemma strftime_table_lemma : forall c,
  strftime c [37; 89] = pad4 (c_year c) /\ strftime c [37; 121] = pad2 (c_year c mod 100) /\
  strftime c [37; 109] = pad2 (c_month c) /\ strftime c [37; 100] = pad2 (c_day c) /\
  strftime c [37; 72] = pad2 (c_hour c) /\ strftime c [37; 77] = pad2 (c_min c) /\
  strftime c [37; 83] = pad2 (c_sec c) /\ strftime c [37; 106] = pad3 (c_yday c) /\
  strftime c [37; 119] = [48 + c_wday c] /\
  strftime c [37; 97] = firstn 3 (wday_name (c_wday c)) /\ strftime c [37; 65] = wday_name (c_wday c) /\
  strftime c [37; 98] = firstn 3 (month_name (c_month c)) /\ strftime c [37; 66] = month_name (c_month c) /\
  strftime c [37; 73] = pad2 (hour12 (c_hour c)) /\
  strftime c [37; 120] = pad2 (c_month c) ++ [47] ++ pad2 (c_day c) ++ [47] ++ pad2 (c_year c mod 100) /\
  strftime c [37; 88] = pad2 (c_hour c) ++ [58] ++ pad2 (c_min c) ++ [58] ++ pad2 (c_sec c) /\
  strftime c [37; 37] = [37].
Proof.
  intros c. repeat split; try (apply strftime_fields_lemma; reflexivity); reflexivity.
Qed.
