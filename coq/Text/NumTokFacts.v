(* The extent of a number token in running text: an unsigned numeral followed by something that
   cannot continue a numeral (not a letter, digit, underscore or dot) is scanned as exactly that
   numeral, and what follows is left for the next token. In particular a hexadecimal numeral that
   ends in e or E and is followed by + or - ends before the sign (0x1e+1 is 0x1e + 1). *)
From GL Require Import Common.Bytes Text.NumRead Text.NumFacts Text.NumLexFacts.
From Coq Require Import Lia ZifyBool.

Definition ends_here (rest : bytes) : Prop := stops (fun c => is_ident1 c || (c =? 46)) rest.

Lemma ends_stops_dd : forall rest, ends_here rest -> stops dd rest.
Proof.
  intros [|c r] H; [exact I|]. simpl in *. unfold dd, is_ident1 in *.
  destruct (is_digit c); [rewrite !orb_true_r in H; discriminate|]. simpl.
  destruct (c =? 46); [rewrite orb_true_r in H; discriminate|reflexivity].
Qed.

Lemma ends_stops_ident : forall rest, ends_here rest -> stops is_ident1 rest.
Proof. intros [|c r] H; [exact I|]. simpl in *. destruct (is_ident1 c); [discriminate|reflexivity]. Qed.

Lemma ends_not_e : forall c r, ends_here (c :: r) -> is_e c = false.
Proof. intros c r H. simpl in H. unfold is_e, is_ident1 in *. lia. Qed.

Lemma scan_number_mantissa_rest : forall ch M' ex e text rest,
  forallb dd M' = true -> Exponent ex e -> text = ch :: M' ++ ex -> numeral_kind text <> KNone ->
  ends_here rest -> scan_number ch (M' ++ ex ++ rest) = Some (text, rest).
Proof.
  intros ch M' ex e text rest HM Hex -> Hk Hend. unfold scan_number. fold dd.
  assert (Hstop : stops dd (ex ++ rest)).
  { inversion Hex; subst; [now apply ends_stops_dd|]. simpl. unfold dd, is_e, is_digit in *. lia. }
  rewrite span_app by assumption.
  assert (Hspr : forall ds, forallb is_ident1 ds = true -> span is_ident1 (ds ++ rest) = (ds, rest)).
  { intros ds Hds. apply span_app; [assumption|now apply ends_stops_ident]. }
  inversion Hex as [|c sg k ds Hc Hsg Hds Hne]; subst.
  - cbn [app]. rewrite app_nil_r in Hk.
    destruct rest as [|c r].
    + cbn [span app]. rewrite !app_nil_r. destruct (numeral_kind (ch :: M')); [contradiction|reflexivity|reflexivity].
    + rewrite (ends_not_e _ _ Hend). pose proof (Hspr [] eq_refl) as Hs0. cbn [app] in Hs0. rewrite Hs0.
      cbn [app]. rewrite !app_nil_r. destruct (numeral_kind (ch :: M')); [contradiction|reflexivity|reflexivity].
  - cbn [app]. rewrite Hc. destruct ds as [|d ds']; [contradiction|].
    assert (Hd : is_digit d = true) by (unfold all_digits in Hds; simpl in Hds; now apply andb_true_iff in Hds as [? _]).
    pose proof (Hspr (d :: ds') (ident1_digits _ Hds)) as Hsp. cbn [app] in Hsp.
    inversion Hsg; subst; cbn [app] in *.
    + replace (is_pm d) with false by (unfold is_pm, is_digit in *; lia).
      rewrite Hsp. cbn [app].
      destruct (numeral_kind (ch :: M' ++ c :: d :: ds')); [contradiction|reflexivity|reflexivity].
    + replace (is_pm 43) with true by reflexivity. rewrite Hsp. cbn [app].
      destruct (numeral_kind (ch :: M' ++ c :: 43 :: d :: ds')); [contradiction|reflexivity|reflexivity].
    + replace (is_pm 45) with true by reflexivity. rewrite Hsp. cbn [app].
      destruct (numeral_kind (ch :: M' ++ c :: 45 :: d :: ds')); [contradiction|reflexivity|reflexivity].
Qed.

Lemma number_token_extent_lemma : forall ch r m e rest, Unsigned (ch :: r) m e -> ends_here rest ->
  scan_number ch (r ++ rest) = Some (ch :: r, rest).
Proof.
  intros ch r m e rest H Hend. pose proof (unsigned_kind _ _ _ H) as Hk.
  inversion H as [u m' e' Hd | u m' Hh]; subst.
  - inversion Hd as [ip ex e0 Hip Hne Hex Heq | ip fp ex e0 Hip Hfp Hne Hex Heq]; subst.
    + destruct ip as [|d ip']; [contradiction|]. cbn [app] in Heq. inversion Heq; subst.
      rewrite <- app_assoc.
      eapply scan_number_mantissa_rest; try eassumption; try reflexivity.
      apply dd_digits. unfold all_digits in *. simpl in Hip. now apply andb_true_iff in Hip as [_ ?].
    + assert (HM : forallb dd (ip ++ 46 :: fp) = true).
      { rewrite forallb_app. rewrite (dd_digits _ Hip). simpl. now rewrite (dd_digits _ Hfp). }
      replace (ip ++ 46 :: fp ++ ex) with ((ip ++ 46 :: fp) ++ ex) in * by (rewrite <- app_assoc; reflexivity).
      destruct (ip ++ 46 :: fp) as [|c0 M'] eqn:EM; [destruct ip; discriminate|].
      cbn [app] in Heq. inversion Heq; subst. rewrite <- app_assoc.
      eapply scan_number_mantissa_rest; try eassumption; try reflexivity.
      simpl in HM. now apply andb_true_iff in HM as [_ ?].
  - inversion Hh as [x hs Hx Hhs Hne Heq]; subst. unfold scan_number.
    assert (Hx1 : is_digit x || (x =? 46) = false) by (unfold is_x, is_digit in *; lia).
    cbn [app span]. rewrite Hx1. replace (is_e x) with false by (unfold is_x, is_e in *; lia).
    assert (Hsp : span is_ident1 (x :: hs ++ rest) = (x :: hs, rest)).
    { change (x :: hs ++ rest) with ((x :: hs) ++ rest). apply span_app; [|now apply ends_stops_ident]. simpl.
      replace (is_ident1 x) with true by (unfold is_x, is_ident1 in *; lia). now apply ident1_hex. }
    rewrite Hsp. cbn [app].
    destruct (numeral_kind (48 :: x :: hs)); [contradiction|reflexivity|reflexivity].
Qed.
