(* The concrete proleptic Gregorian calendar of Text/Date.v satisfies the hypothesis of
   time_date_roundtrip: building the time from its own broken-down fields gives it back, for every
   whole second (all of Z). So the hypothesis is not only satisfiable but holds of the calendar the
   case evaluator compares with Go's time package. *)
From GL Require Import Common.Bytes Text.NumRead Text.Date Text.DateFacts.
From Coq Require Import Lia ZifyBool.
Ltac Zify.zify_post_hook ::= Z.div_mod_to_equations.

Lemma yoe_range : forall doe, 0 <= doe <= 146096 ->
  let yoe := (doe - doe / 1460 + doe / 36524 - doe / 146096) / 365 in
  0 <= yoe <= 399 /\ 0 <= doe - (365 * yoe + yoe / 4 - yoe / 100) <= 365.
Proof. intros doe H yoe. subst yoe. lia. Qed.

Lemma days_roundtrip : forall days,
  let c := civil_of_unix (days * 86400) in
  days_from_civil (c_year c) (c_month c) (c_day c) = days /\ 1 <= c_month c <= 12.
Proof.
  intros days. unfold civil_of_unix. cbn [c_year c_month c_day].
  replace (days * 86400 / 86400) with days by lia.
  set (z := days + 719468).
  set (era := z / 146097).
  set (doe := z - era * 146097).
  assert (Hdoe : 0 <= doe <= 146096) by (subst doe era; lia).
  destruct (yoe_range doe Hdoe) as [Hyoe Hdoy].
  set (yoe := (doe - doe / 1460 + doe / 36524 - doe / 146096) / 365) in *.
  set (doy := doe - (365 * yoe + yoe / 4 - yoe / 100)) in *.
  set (mp := (5 * doy + 2) / 153).
  assert (Hmp : 0 <= mp <= 11) by (subst mp; lia).
  set (d := doy - (153 * mp + 2) / 5 + 1).
  set (m := mp + (if mp <? 10 then 3 else -9)).
  assert (Hm : 1 <= m <= 12) by (subst m; destruct (mp <? 10) eqn:E; lia).
  split; [|exact Hm].
  unfold days_from_civil.
  assert (Hy : (if m <=? 2 then yoe + era * 400 + (if m <=? 2 then 1 else 0) - 1
                else yoe + era * 400 + (if m <=? 2 then 1 else 0)) = yoe + era * 400)
    by (destruct (m <=? 2); lia).
  rewrite Hy.
  assert (Hmm : m + (if 2 <? m then -3 else 9) = mp)
    by (subst m; destruct (mp <? 10) eqn:E; [replace (2 <? mp + 3) with true by lia | replace (2 <? mp + -9) with false by lia]; lia).
  rewrite Hmm.
  replace ((yoe + era * 400) / 400) with era by lia.
  replace (yoe + era * 400 - era * 400) with yoe by lia.
  subst d doy doe z. lia.
Qed.

Lemma civil_inverse_lemma : forall t, let c := civil_of_unix t in
  unix_of_civil (c_year c) (c_month c) (c_day c) (c_hour c) (c_min c) (c_sec c) = t.
Proof.
  intros t.
  set (days := t / 86400). set (secs := t mod 86400).
  assert (Ht : t = days * 86400 + secs) by (subst days secs; lia).
  assert (Hs : 0 <= secs < 86400) by (subst secs; lia).
  pose proof (days_roundtrip days) as HD. cbv zeta in HD.
  (* the date fields depend on t only through t / 86400 *)
  assert (Hsame : c_year (civil_of_unix t) = c_year (civil_of_unix (days * 86400)) /\
                  c_month (civil_of_unix t) = c_month (civil_of_unix (days * 86400)) /\
                  c_day (civil_of_unix t) = c_day (civil_of_unix (days * 86400))).
  { unfold civil_of_unix. cbn [c_year c_month c_day].
    replace (days * 86400 / 86400) with days by lia. fold days. repeat split; reflexivity. }
  destruct Hsame as (Hy & Hm & Hd). destruct HD as [HD Hmr].
  cbv zeta. unfold unix_of_civil. rewrite Hy, Hm, Hd.
  set (c0 := civil_of_unix (days * 86400)) in *.
  replace ((c_month c0 - 1) / 12) with 0 by lia.
  replace ((c_month c0 - 1) mod 12 + 1) with (c_month c0) by lia.
  replace (c_year c0 + 0) with (c_year c0) by lia.
  assert (Hday : days_from_civil (c_year c0) (c_month c0) 1 + (c_day c0 - 1) = days).
  { rewrite <- HD. unfold days_from_civil. lia. }
  rewrite Hday.
  unfold civil_of_unix. cbn [c_hour c_min c_sec]. fold secs. lia.
Qed.

(* hence, for the Gregorian calendar in UTC, for every whole second *)
Lemma time_date_roundtrip_gregorian_lemma : forall t,
  os_time unix_of_civil (os_date_t civil_of_unix t) = Some t.
Proof. intros t. apply time_date_roundtrip_lemma. exact civil_inverse_lemma. Qed.
