(* C16, string literals. Impl: transcription of /repo/parse/lexer.go readNext/Next/Peek/Newline,
   scanString, scanEscape, countSep, scanMultilineString and the two entry cases of Scan.
   Spec: literal descriptions (items of a short string, body of a long bracket) with their
   source text and the bytes they denote (Lua 5.1 manual 2.1). No proofs here.
   The input is the byte list still unread; EOF is -1 as in the Go code. *)
From GL Require Import Common.Bytes.

Inductive lexerr := Unterminated | UntermLong | InvalidLong | NotString | EscapeTooLarge.
Inductive res (A : Type) := Ok (a : A) | Err (e : lexerr) | OutOfFuel.
Arguments Ok {A} a. Arguments Err {A} e. Arguments OutOfFuel {A}.

(* ---------- the reader ---------- *)
(* Scanner.Next: one byte; LF, CR, LF CR and CR LF all come out as one LF (Newline swallows the
   partner); EOF = -1. *)
Definition next (s : bytes) : Z * bytes :=
  match s with
  | [] => (-1, [])
  | c :: r =>
    if c =? 10 then (10, match r with c2 :: r' => if c2 =? 13 then r' else r | [] => r end)
    else if c =? 13 then (10, match r with c2 :: r' => if c2 =? 10 then r' else r | [] => r end)
    else (c, r)
  end.

(* Scanner.Peek: the raw next byte, not consumed. *)
Definition peek (s : bytes) : Z := match s with [] => -1 | c :: _ => c end.

Definition is_dec (c : Z) : bool := (48 <=? c) && (c <=? 57).

(* byte(c) of a Go int *)
Definition to_byte (c : Z) : Z := c mod 256.

(* ---------- impl: scanEscape (called after the backslash was read) ---------- *)
(* returns the bytes written to the buffer and the remaining input; None: a decimal escape above
   255, the error "escape sequence too large" *)
Definition dec_escape (v : Z) (r : bytes) : option (bytes * bytes) :=
  if 255 <? v then None else Some ([to_byte v], r).

Definition scan_escape (s : bytes) : option (bytes * bytes) :=
  let '(ch, r) := next s in
  if ch =? 97 then Some ([7], r)           (* \a *)
  else if ch =? 98 then Some ([8], r)      (* \b *)
  else if ch =? 102 then Some ([12], r)    (* \f *)
  else if ch =? 110 then Some ([10], r)    (* \n *)
  else if ch =? 114 then Some ([13], r)    (* \r *)
  else if ch =? 116 then Some ([9], r)     (* \t *)
  else if ch =? 118 then Some ([11], r)    (* \v *)
  else if ch =? 92 then Some ([92], r)
  else if ch =? 34 then Some ([34], r)
  else if ch =? 39 then Some ([39], r)
  else if ch =? 10 then Some ([10], r)     (* backslash-newline; Next has already folded CR/CRLF/LFCR;
                                         the Go `case '\r'` can therefore never be taken *)
  else if is_dec ch then
    (* up to two more digits by Peek; strconv.ParseInt(...,10,32); byte(val) *)
    let d1 := ch - 48 in
    if is_dec (peek r) then
      let d2 := peek r - 48 in let r2 := tl r in
      if is_dec (peek r2) then
        let d3 := peek r2 - 48 in dec_escape (d1 * 100 + d2 * 10 + d3) (tl r2)
      else dec_escape (d1 * 10 + d2) r2
    else dec_escape d1 r
  else Some ([to_byte ch], r).             (* any other character stands for itself; EOF writes 0xff *)

(* ---------- impl: scanString; q is the opening quote, already read ---------- *)
Fixpoint scan_str (fuel : nat) (q : Z) (s acc : bytes) : res (bytes * bytes) :=
  match fuel with
  | O => OutOfFuel
  | S f =>
    let '(ch, r) := next s in
    if ch =? q then Ok (acc, r)
    else if (ch =? 10) || (ch <? 0) then Err Unterminated
    else if ch =? 92 then
      match scan_escape r with
      | Some (em, r') => scan_str f q r' (acc ++ em)
      | None => Err EscapeTooLarge
      end
    else scan_str f q r (acc ++ [ch])
  end.

(* ---------- impl: countSep. `for ; ch == '='; count++ { ch = sc.Next() }` ---------- *)
Fixpoint eq_run (s : bytes) : Z * bytes :=
  match s with
  | c :: r => if c =? 61 then let '(n, r') := eq_run r in (n + 1, r') else (0, s)
  | [] => (0, [])
  end.

(* ch is the current character, s what follows it: (count, character after the run, rest) *)
Definition count_sep (ch : Z) (s : bytes) : Z * Z * bytes :=
  if ch =? 61 then
    let '(n, r) := eq_run s in
    let '(c, r') := next r in (n + 1, c, r')
  else (0, ch, s).

(* ---------- impl: scanMultilineString main loop ---------- *)
Fixpoint long_loop (fuel : nat) (lvl : Z) (ch : Z) (s acc : bytes) : res (bytes * bytes) :=
  match fuel with
  | O => OutOfFuel
  | S f =>
    if ch <? 0 then Err UntermLong
    else if ch =? 93 then
      let '(c1, s1) := next s in
      let '(cnt, ch2, s2) := count_sep c1 s1 in
      if (cnt =? lvl) && (ch2 =? 93) then Ok (acc, s2)
      else long_loop f lvl ch2 s2 (acc ++ 93 :: repeat 61 (Z.to_nat cnt))
    else let '(c1, s1) := next s in long_loop f lvl c1 s1 (acc ++ [ch])
  end.

(* s = what follows the first '[' (the caller has seen that it starts with '[' or '=') *)
Definition scan_long (s : bytes) : res (bytes * bytes) :=
  let '(c0, s0) := next s in
  let '(lvl, ch, s1) := count_sep c0 s0 in
  if negb (ch =? 91) then Err InvalidLong else
  let '(ch1, s2) := next s1 in
  let '(ch2, s3) := if ch1 =? 10 then next s2 else (ch1, s2) in
  long_loop (S (S (S (length s3)))) lvl ch2 s3 [].

(* ---------- impl: Scan, restricted to input that starts with a string token ---------- *)
Definition scan_string_token (s : bytes) : res (bytes * bytes) :=
  match s with
  | c :: r =>
    if (c =? 34) || (c =? 39) then scan_str (S (length r)) c r []
    else if c =? 91 then
      if (peek r =? 91) || (peek r =? 61) then scan_long r else Err NotString
    else Err NotString
  | [] => Err NotString
  end.

(* the whole text is one string literal *)
Definition lex_string (s : bytes) : option bytes :=
  match scan_string_token s with
  | Ok (v, []) => Some v
  | _ => None
  end.

(* ---------- spec: short strings ---------- *)
Inductive nlform := NlLF | NlCR | NlCRLF | NlLFCR.
Definition nl_bytes (f : nlform) : bytes :=
  match f with NlLF => [10] | NlCR => [13] | NlCRLF => [13; 10] | NlLFCR => [10; 13] end.

Inductive item :=
| IRaw (b : Z)          (* a byte written as itself *)
| IEsc (c : Z)          (* backslash followed by the character c *)
| IDec (ds : list Z)    (* backslash followed by decimal digits (each 0..9) *)
| INl (f : nlform).     (* backslash followed by a line break *)

(* the character a backslash gives to the letter after it (manual 2.1); any other non-digit,
   non-newline character stands for itself (llex.c read_string default case) *)
Definition esc_value (c : Z) : Z :=
  if c =? 97 then 7 else if c =? 98 then 8 else if c =? 102 then 12 else if c =? 110 then 10
  else if c =? 114 then 13 else if c =? 116 then 9 else if c =? 118 then 11 else c.

Fixpoint dec_value (ds : list Z) (acc : Z) : Z :=
  match ds with [] => acc | d :: r => dec_value r (acc * 10 + d) end.

Definition render_item (it : item) : bytes :=
  match it with
  | IRaw b => [b]
  | IEsc c => [92; c]
  | IDec ds => 92 :: map (fun d => 48 + d) ds
  | INl f => 92 :: nl_bytes f
  end.

Definition denote_item (it : item) : Z :=
  match it with
  | IRaw b => b
  | IEsc c => esc_value c
  | IDec ds => dec_value ds 0
  | INl _ => 10
  end.

Definition render_items (its : list item) : bytes := flat_map render_item its.
Definition denote_items (its : list item) : bytes := map denote_item its.

Definition is_digit_val (d : Z) : bool := (0 <=? d) && (d <=? 9).

(* an item is well formed inside quotes q *)
Definition wf_item (q : Z) (it : item) : bool :=
  match it with
  | IRaw b => is_byte b && negb (b =? q) && negb (b =? 92) && negb (b =? 10) && negb (b =? 13)
  | IEsc c => is_byte c && negb (is_dec c) && negb (c =? 10) && negb (c =? 13)
  | IDec ds => forallb is_digit_val ds && (1 <=? len ds) && (len ds <=? 3) && (dec_value ds 0 <=? 255)
  | INl _ => true
  end.

(* a decimal escape of fewer than three digits must not be followed by a raw digit *)
Definition starts_with_digit (its : list item) : bool :=
  match its with IRaw b :: _ => is_dec b | _ => false end.

Fixpoint wf_items (q : Z) (its : list item) : bool :=
  match its with
  | [] => true
  | it :: r =>
    wf_item q it && wf_items q r &&
    match it with IDec ds => (len ds =? 3) || negb (starts_with_digit r) | _ => true end
  end.

(* ---------- spec: long brackets ---------- *)
Definition long_open (lvl : nat) : bytes := 91 :: repeat 61 lvl ++ [91].
Definition long_close (lvl : nat) : bytes := 93 :: repeat 61 lvl ++ [93].

(* one line break at the very beginning of the body is not part of the string *)
Definition skip_first_nl (s : bytes) : bytes :=
  match s with
  | c :: r =>
    if c =? 10 then match r with c2 :: r' => if c2 =? 13 then r' else r | [] => r end
    else if c =? 13 then match r with c2 :: r' => if c2 =? 10 then r' else r | [] => r end
    else s
  | [] => []
  end.

(* every line break (LF, CR, CR LF, LF CR) becomes LF *)
Fixpoint normalise_nl (s : bytes) : bytes :=
  match s with
  | [] => []
  | c :: r =>
    if c =? 10 then
      10 :: match r with c2 :: r' => if c2 =? 13 then normalise_nl r' else normalise_nl r | [] => [] end
    else if c =? 13 then
      10 :: match r with c2 :: r' => if c2 =? 10 then normalise_nl r' else normalise_nl r | [] => [] end
    else c :: normalise_nl r
  end.

Fixpoint is_prefix_b (p s : bytes) : bool :=
  match p, s with
  | [], _ => true
  | x :: p', y :: s' => (x =? y) && is_prefix_b p' s'
  | _ :: _, [] => false
  end.

(* the closing bracket of this level does not begin anywhere inside the body: scanning
   body ++ close, the first place where `close` matches is the end of the body *)
Fixpoint no_closer_aux (cl body : bytes) : bool :=
  match body with
  | [] => true
  | _ :: r => negb (is_prefix_b cl (body ++ cl)) && no_closer_aux cl r
  end.
Definition no_closer (lvl : nat) (body : bytes) : bool := no_closer_aux (long_close lvl) body.

Definition long_denotes (body : bytes) : bytes := normalise_nl (skip_first_nl body).
