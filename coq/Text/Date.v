(* C16, dates. Impl: transcription of /repo/oslib.go osDate (the "*t" branch), osTime, getIntField
   and /repo/utils.go strftime with flagScanner.Next and the cDateFlagToGo table.
   The calendar (time.Unix(t,0).UTC() broken down; time.Date) is a function parameter; the concrete
   proleptic Gregorian calendar below plays it in the case evaluator. Spec: C89 strftime in the
   C locale, format parsed the obvious way. No proofs here. *)
From GL Require Import Common.Bytes Text.NumRead.
From Coq Require Import String Ascii.

Definition bs (s : string) : bytes := map (fun a => Z.of_N (N_of_ascii a)) (list_ascii_of_string s).

(* broken-down time: wday 0 = Sunday, yday 1 = 1 January, month 1..12 *)
Record civil := mkCivil { c_year : Z; c_month : Z; c_day : Z; c_hour : Z; c_min : Z; c_sec : Z;
                          c_wday : Z; c_yday : Z }.

(* ---------- the date table ---------- *)
Inductive fname := FYear | FMonth | FDay | FHour | FMin | FSec | FWday | FYday | FIsdst.
Definition fname_eqb (a b : fname) : bool :=
  match a, b with
  | FYear, FYear | FMonth, FMonth | FDay, FDay | FHour, FHour | FMin, FMin | FSec, FSec
  | FWday, FWday | FYday, FYday | FIsdst, FIsdst => true
  | _, _ => false
  end.
Inductive dval := DNum (z : Z) | DStr (s : bytes) | DBool (b : bool).
Definition dtable := list (fname * dval).

Fixpoint dget (t : dtable) (k : fname) : option dval :=
  match t with
  | [] => None
  | (k', v) :: r => if fname_eqb k' k then Some v else dget r k
  end.

(* ---------- impl: osDate with the format *t ---------- *)
Definition os_date_t (to_civil : Z -> civil) (t : Z) : dtable :=
  let c := to_civil t in
  [ (FYear, DNum (c_year c)); (FMonth, DNum (c_month c)); (FDay, DNum (c_day c));
    (FHour, DNum (c_hour c)); (FMin, DNum (c_min c)); (FSec, DNum (c_sec c));
    (FWday, DNum (c_wday c + 1)); (FYday, DNum (c_yday c)); (FIsdst, DBool false) ].

(* ---------- impl: getIntField ---------- *)
(* int(num) of the float parseNumber returns: exact when the numeral is an integer; for a numeral
   with a negative exponent the truncation of the exact value (generators use integers only) *)
Definition int_of_exact (m e : Z) : Z := if 0 <=? e then m * 10 ^ e else Z.quot m (10 ^ (- e)).

(* a number is taken as it is, a string is read by parseNumber (the reader tonumber and arithmetic
   use); anything else, or a string that is not a numeral, gives the default v; a negative default
   means the field is required: None = the error "field '...' missing in date table" *)
Definition get_int_field (t : dtable) (k : fname) (v : Z) : option Z :=
  let dflt := if v <? 0 then None else Some v in
  match dget t k with
  | Some (DNum z) => Some z
  | Some (DStr s) =>
    match parse_exact s with
    | Some (m, e) => Some (int_of_exact m e)
    | None => dflt
    end
  | _ => dflt
  end.

(* ---------- impl: osTime on a table ---------- *)
Definition os_time (of_civil : Z -> Z -> Z -> Z -> Z -> Z -> Z) (t : dtable) : option Z :=
  match get_int_field t FSec 0, get_int_field t FMin 0, get_int_field t FHour 12,
        get_int_field t FDay (-1), get_int_field t FMonth (-1), get_int_field t FYear (-1) with
  | Some sec, Some min, Some hour, Some day, Some month, Some year =>
    Some (of_civil year month day hour min sec)
  | _, _, _, _, _, _ => None
  end.

(* ---------- concrete calendar (proleptic Gregorian, UTC) ---------- *)
Definition days_from_civil (y m d : Z) : Z :=
  let y' := if m <=? 2 then y - 1 else y in
  let era := y' / 400 in
  let yoe := y' - era * 400 in
  let doy := (153 * (m + (if 2 <? m then -3 else 9)) + 2) / 5 + d - 1 in
  let doe := yoe * 365 + yoe / 4 - yoe / 100 + doy in
  era * 146097 + doe - 719468.

Definition civil_of_unix (t : Z) : civil :=
  let days := t / 86400 in
  let secs := t mod 86400 in
  let z := days + 719468 in
  let era := z / 146097 in
  let doe := z - era * 146097 in
  let yoe := (doe - doe / 1460 + doe / 36524 - doe / 146096) / 365 in
  let doy := doe - (365 * yoe + yoe / 4 - yoe / 100) in
  let mp := (5 * doy + 2) / 153 in
  let d := doy - (153 * mp + 2) / 5 + 1 in
  let m := mp + (if mp <? 10 then 3 else -9) in
  let y := yoe + era * 400 + (if m <=? 2 then 1 else 0) in
  mkCivil y m d (secs / 3600) (secs mod 3600 / 60) (secs mod 60)
          ((days + 4) mod 7) (days - days_from_civil y 1 1 + 1).

(* time.Date normalises month overflow into the year; days/hours/minutes/seconds are plain offsets *)
Definition unix_of_civil (y mo d h mi s : Z) : Z :=
  let y' := y + (mo - 1) / 12 in
  let mo' := (mo - 1) mod 12 + 1 in
  (days_from_civil y' mo' 1 + (d - 1)) * 86400 + h * 3600 + mi * 60 + s.

(* ---------- strftime ---------- *)
Definition pad2 (n : Z) : bytes := [48 + n / 10 mod 10; 48 + n mod 10].
Definition pad3 (n : Z) : bytes := [48 + n / 100 mod 10; 48 + n / 10 mod 10; 48 + n mod 10].
Definition pad4 (n : Z) : bytes := (48 + n / 1000 mod 10) :: pad3 n.
Definition spad2 (n : Z) : bytes := [if n <? 10 then 32 else 48 + n / 10 mod 10; 48 + n mod 10].

Definition wday_name (w : Z) : bytes :=
  bs (nth (Z.to_nat w) ["Sunday"; "Monday"; "Tuesday"; "Wednesday"; "Thursday"; "Friday"; "Saturday"] "")%string.
Definition month_name (m : Z) : bytes :=
  bs (nth (Z.to_nat (m - 1)) ["January"; "February"; "March"; "April"; "May"; "June"; "July"; "August";
                             "September"; "October"; "November"; "December"] "")%string.
Definition hour12 (h : Z) : Z := if h mod 12 =? 0 then 12 else h mod 12.

(* what C's strftime writes for a conversion in the C locale (None: not a C89 conversion we list).
   Years are taken in 0..9999. F P z are extensions the table also has. *)
Definition c_conv (d : Z) (c : civil) : option bytes :=
  let hms := pad2 (c_hour c) ++ [58] ++ pad2 (c_min c) ++ [58] ++ pad2 (c_sec c) in
  if d =? 97 then Some (firstn 3 (wday_name (c_wday c)))                       (* %a *)
  else if d =? 65 then Some (wday_name (c_wday c))                             (* %A *)
  else if d =? 98 then Some (firstn 3 (month_name (c_month c)))                (* %b *)
  else if d =? 66 then Some (month_name (c_month c))                           (* %B *)
  else if d =? 99 then                                                         (* %c *)
    Some (firstn 3 (wday_name (c_wday c)) ++ [32] ++ firstn 3 (month_name (c_month c)) ++ [32] ++
          spad2 (c_day c) ++ [32] ++ hms ++ [32] ++ pad4 (c_year c))
  else if d =? 100 then Some (pad2 (c_day c))                                  (* %d *)
  else if d =? 70 then Some (pad4 (c_year c) ++ [45] ++ pad2 (c_month c) ++ [45] ++ pad2 (c_day c)) (* %F *)
  else if d =? 72 then Some (pad2 (c_hour c))                                  (* %H *)
  else if d =? 73 then Some (pad2 (hour12 (c_hour c)))                         (* %I *)
  else if d =? 106 then Some (pad3 (c_yday c))                                 (* %j *)
  else if d =? 109 then Some (pad2 (c_month c))                                (* %m *)
  else if d =? 77 then Some (pad2 (c_min c))                                   (* %M *)
  else if d =? 112 then Some (if c_hour c <? 12 then [65; 77] else [80; 77])   (* %p *)
  else if d =? 80 then Some (if c_hour c <? 12 then [97; 109] else [112; 109]) (* %P *)
  else if d =? 83 then Some (pad2 (c_sec c))                                   (* %S *)
  else if d =? 85 then Some (pad2 ((c_yday c - 1 + 7 - c_wday c) / 7))         (* %U: weeks begin on Sunday *)
  else if d =? 87 then Some (pad2 ((c_yday c - 1 + 7 - (c_wday c + 6) mod 7) / 7)) (* %W: on Monday *)
  else if d =? 119 then Some [48 + c_wday c]                                   (* %w *)
  else if d =? 120 then Some (pad2 (c_month c) ++ [47] ++ pad2 (c_day c) ++ [47] ++ pad2 (c_year c mod 100)) (* %x *)
  else if d =? 88 then Some hms                                                (* %X *)
  else if d =? 121 then Some (pad2 (c_year c mod 100))                         (* %y *)
  else if d =? 89 then Some (pad4 (c_year c))                                  (* %Y *)
  else if d =? 122 then Some (bs "+0000")                                      (* %z, UTC *)
  else if d =? 90 then Some (bs "UTC")                                         (* %Z, UTC *)
  else None.

(* impl: the table entry's Go layout rendered by time.Format, or the switch in strftime.
   Each layout of cDateFlagToGo is read by its documented meaning. *)
Definition go_conv (d : Z) (c : civil) : bytes :=
  match c_conv d c with
  | Some b => b
  | None => [37; d]                 (* default: AppendChar('%'); AppendChar(c) *)
  end.

(* impl: strftime's loop over flagScanner.Next with flag '%' and empty start/end strings.
   has = HasFlag. *)
Fixpoint strftime_go (c : civil) (s : bytes) (has : bool) : bytes :=
  match s with
  | [] => []
  | ch :: r =>
    if ch =? 37 then
      match r with
      | c2 :: r2 =>
        if c2 =? 37 then 37 :: strftime_go c r2 false       (* %%: HasFlag = false, literal *)
        else strftime_go c r true                            (* ChangeFlag: nothing written *)
      | [] =>                                                (* a last lone %: returned as a plain char *)
        if has then go_conv ch c else [ch]
      end
    else if has then go_conv ch c ++ strftime_go c r false
    else ch :: strftime_go c r false
  end.

Definition strftime (c : civil) (fmt : bytes) : bytes := strftime_go c fmt false.

(* spec: the format as a list of pieces *)
Inductive piece := PLit (b : Z) | PConv (d : Z).
Definition render_piece (c : civil) (p : piece) : bytes :=
  match p with PLit b => [b] | PConv d => go_conv d c end.
Definition piece_text (p : piece) : bytes :=
  match p with PLit b => if b =? 37 then [37; 37] else [b] | PConv d => [37; d] end.
Definition wf_piece (p : piece) : bool :=
  match p with PLit _ => true | PConv d => negb (d =? 37) end.

(* the format read the obvious way: %% is a percent sign, % and a character a conversion, a last
   lone % a percent sign *)
Fixpoint parse_fmt (s : bytes) : list piece :=
  match s with
  | [] => []
  | c :: r =>
    if c =? 37 then
      match r with
      | d :: r2 => (if d =? 37 then PLit 37 else PConv d) :: parse_fmt r2
      | [] => [PLit 37]
      end
    else PLit c :: parse_fmt r
  end.

