(* Proofs about the numeral readers: the transcribed acceptor numeralKind/isNumeral accepts exactly
   the numeral grammar of Lua 5.1 with the intended value; tonumber, arithmetic coercion and the
   lexer agree; integers print and read back. *)
From GL Require Import Common.Bytes Text.NumRead.
From Coq Require Import Lia ZifyBool.

Local Ltac zb := repeat match goal with
  | H : (_ =? _) = true |- _ => apply Z.eqb_eq in H
  | H : (_ =? _) = false |- _ => apply Z.eqb_neq in H
  | H : (_ && _) = true |- _ => apply andb_true_iff in H; destruct H
  | H : (_ || _) = false |- _ => apply orb_false_iff in H; destruct H
  | H : negb _ = true |- _ => apply negb_true_iff in H
  end.

(* ---------- span / dropwhile ---------- *)
Definition stops (p : Z -> bool) (b : bytes) : Prop :=
  match b with c :: _ => p c = false | [] => True end.

Lemma span_spec : forall p s a b, span p s = (a, b) -> s = a ++ b /\ forallb p a = true /\ stops p b.
Proof.
  induction s as [|c s IH]; intros a b H; simpl in H.
  - inversion H; subst. repeat split.
  - destruct (p c) eqn:E.
    + destruct (span p s) as [a' b'] eqn:ES. inversion H; subst.
      destruct (IH a' b eq_refl) as (H1 & H2 & H3). subst s. repeat split; simpl; try assumption.
      now rewrite E, H2.
    + inversion H; subst. repeat split. exact E.
Qed.

Lemma span_app : forall p a b, forallb p a = true -> stops p b -> span p (a ++ b) = (a, b).
Proof.
  induction a as [|c a IH]; intros b Ha Hb; simpl.
  - destruct b as [|x b]; [reflexivity|]. simpl in Hb. simpl. now rewrite Hb.
  - simpl in Ha. apply andb_true_iff in Ha as [Hc Ha]. rewrite Hc. now rewrite IH.
Qed.

Lemma dropwhile_app : forall p a b, forallb p a = true -> stops p b -> dropwhile p (a ++ b) = b.
Proof.
  induction a as [|c a IH]; intros b Ha Hb; simpl.
  - destruct b as [|x b]; [reflexivity|]. simpl in Hb. simpl. now rewrite Hb.
  - simpl in Ha. apply andb_true_iff in Ha as [Hc Ha]. rewrite Hc. now apply IH.
Qed.

Lemma dropwhile_spec : forall p s, exists a, s = a ++ dropwhile p s /\ forallb p a = true /\ stops p (dropwhile p s).
Proof.
  induction s as [|c s IH]; simpl.
  - exists []. repeat split.
  - destruct (p c) eqn:E.
    + destruct IH as (a & H1 & H2 & H3). exists (c :: a). repeat split; simpl; try assumption.
      * now rewrite <- H1.
      * now rewrite E, H2.
    + exists []. repeat split. exact E.
Qed.

Lemma forallb_rev : forall (p : Z -> bool) l, forallb p (rev l) = forallb p l.
Proof.
  induction l as [|c l IH]; [reflexivity|]. simpl. rewrite forallb_app, IH. simpl.
  rewrite andb_true_r. apply andb_comm.
Qed.

(* ---------- trimming ---------- *)
Lemma trim_space_spec : forall s, exists l t, s = l ++ trim_space s ++ t /\ blanks l /\ blanks t.
Proof.
  intros s. unfold trim_space, blanks.
  destruct (dropwhile_spec is_space s) as (l & H1 & H2 & _).
  destruct (dropwhile_spec is_space (rev (dropwhile is_space s))) as (t & H3 & H4 & _).
  exists l, (rev t). repeat split; [|assumption|now rewrite forallb_rev].
  rewrite H1 at 1. f_equal.
  rewrite <- (rev_involutive (dropwhile is_space s)) at 1. rewrite H3 at 1. now rewrite rev_app_distr.
Qed.

Definition nonspace_ends (mid : bytes) : Prop :=
  mid <> [] /\ stops is_space mid /\ stops is_space (rev mid).

Lemma trim_space_app : forall l mid t, blanks l -> blanks t -> nonspace_ends mid ->
  trim_space (l ++ mid ++ t) = mid.
Proof.
  intros l mid t Hl Ht (Hne & Hh & Hlast). unfold trim_space, blanks in *.
  rewrite dropwhile_app; [|assumption|destruct mid; [contradiction|exact Hh]].
  rewrite rev_app_distr. rewrite dropwhile_app; [apply rev_involutive|now rewrite forallb_rev|].
  exact Hlast.
Qed.

(* ---------- characters of numerals ---------- *)
Definition numchar (c : Z) : bool := negb (is_space c).

Lemma digit_numchar : forall c, is_digit c = true -> numchar c = true.
Proof. intros c H. unfold numchar, is_space, is_digit in *. lia. Qed.
Lemma hex_numchar : forall c, is_hex c = true -> numchar c = true.
Proof. intros c H. unfold numchar, is_space, is_hex, is_digit in *. lia. Qed.

Lemma forallb_impl : forall (p q : Z -> bool) l, (forall c, p c = true -> q c = true) -> forallb p l = true -> forallb q l = true.
Proof.
  induction l as [|c l IH]; intros Hpq H; [reflexivity|]. simpl in *. apply andb_true_iff in H as [H1 H2].
  rewrite (Hpq _ H1). now apply IH.
Qed.

Lemma sign_numchars : forall sg k, SignOpt sg k -> forallb numchar sg = true.
Proof. intros sg k H; inversion H; reflexivity. Qed.

Lemma exponent_numchars : forall ex e, Exponent ex e -> forallb numchar ex = true.
Proof.
  intros ex e H. inversion H; subst; [reflexivity|]. simpl.
  assert (numchar c = true) by (unfold is_e, numchar, is_space in *; lia).
  rewrite H4, forallb_app. rewrite (sign_numchars _ _ H1). simpl.
  now apply (forallb_impl is_digit numchar _ digit_numchar).
Qed.

Lemma dec_numchars : forall u m e, DecNumeral u m e -> forallb numchar u = true.
Proof.
  intros u m e H. inversion H; subst; repeat (rewrite forallb_app || simpl).
  - rewrite (forallb_impl is_digit numchar _ digit_numchar H0). now rewrite (exponent_numchars _ _ H2).
  - rewrite (forallb_impl is_digit numchar _ digit_numchar H0).
    rewrite (forallb_impl is_digit numchar _ digit_numchar H1). now rewrite (exponent_numchars _ _ H3).
Qed.

Lemma unsigned_numchars : forall u m e, Unsigned u m e -> forallb numchar u = true.
Proof.
  intros u m e H. inversion H; subst.
  - eapply dec_numchars; eassumption.
  - inversion H0; subst. simpl. replace (numchar x) with true by (unfold is_x, numchar, is_space in *; lia).
    simpl. now apply (forallb_impl is_hex numchar _ hex_numchar).
Qed.

Lemma numchars_ends : forall u, u <> [] -> forallb numchar u = true -> nonspace_ends u.
Proof.
  intros u Hne H. split; [assumption|]. split.
  - destruct u as [|c u]; [contradiction|]. simpl in *. apply andb_true_iff in H as [H _].
    unfold numchar in H. now apply negb_true_iff in H.
  - assert (Hr : forallb numchar (rev u) = true) by now rewrite forallb_rev.
    destruct (rev u) as [|c r]; [exact I|]. simpl in *. apply andb_true_iff in Hr as [Hr _].
    unfold numchar in Hr. now apply negb_true_iff in Hr.
Qed.

(* the first character of an unsigned numeral is a digit or a dot *)
Definition starts_num (u : bytes) : Prop :=
  match u with c :: _ => is_digit c = true \/ c = 46 | [] => False end.

Lemma dec_starts : forall u m e, DecNumeral u m e -> starts_num u.
Proof.
  intros u m e H. inversion H; subst.
  - destruct ip as [|d ip]; [contradiction|]. simpl. unfold all_digits in H0. simpl in H0.
    apply andb_true_iff in H0 as [H0 _]. now left.
  - destruct ip as [|d ip]; simpl; [now right|]. unfold all_digits in H0. simpl in H0.
    apply andb_true_iff in H0 as [H0 _]. now left.
Qed.

Lemma unsigned_starts : forall u m e, Unsigned u m e -> starts_num u.
Proof.
  intros u m e H. inversion H; subst; [eapply dec_starts; eassumption|].
  inversion H0; subst. simpl. now left.
Qed.

Lemma strip_sign_app : forall sg k u, SignOpt sg k -> starts_num u -> strip_sign (sg ++ u) = (k, u).
Proof.
  intros sg k u Hs Hu. inversion Hs; subst; try reflexivity. simpl.
  destruct u as [|c u]; [contradiction|]. simpl in Hu. unfold strip_sign.
  assert (c <> 45 /\ c <> 43) as [H1 H2] by (unfold is_digit in Hu; lia).
  replace (c =? 45) with false by lia. replace (c =? 43) with false by lia. reflexivity.
Qed.

Lemma strip_sign_spec : forall t k u, strip_sign t = (k, u) -> exists sg, t = sg ++ u /\ SignOpt sg k.
Proof.
  intros t k u H. unfold strip_sign in H. destruct t as [|c r].
  - inversion H; subst. exists []. split; [reflexivity|constructor].
  - destruct (c =? 45) eqn:E1; [zb; inversion H; subst; exists [45]; split; [reflexivity|constructor]|].
    destruct (c =? 43) eqn:E2; [zb; inversion H; subst; exists [43]; split; [reflexivity|constructor]|].
    inversion H; subst. exists []. split; [reflexivity|constructor].
Qed.

(* ---------- the exponent part ---------- *)
Lemma exp_split_complete : forall ex e, Exponent ex e -> exp_split ex = Some e.
Proof.
  intros ex e H. inversion H; subst; [reflexivity|]. unfold exp_split. rewrite H0.
  assert (Hsp : span is_digit ds = (ds, [])).
  { rewrite <- (app_nil_r ds) at 1. apply span_app; [assumption|exact I]. }
  destruct ds as [|d ds']; [contradiction|].
  inversion H1; subst; cbn [app].
  - unfold all_digits in H2. simpl in H2. apply andb_true_iff in H2 as [Hd _].
    assert (d <> 43 /\ d <> 45) as [? ?] by (unfold is_digit in Hd; lia).
    replace (d =? 43) with false by lia. replace (d =? 45) with false by lia.
    cbv beta iota. rewrite Hsp. reflexivity.
  - cbv beta iota. replace (43 =? 43) with true by reflexivity. cbv beta iota. rewrite Hsp. reflexivity.
  - cbv beta iota. replace (45 =? 43) with false by reflexivity. replace (45 =? 45) with true by reflexivity.
    cbv beta iota. rewrite Hsp. reflexivity.
Qed.

Lemma exp_split_sound : forall r2 e, exp_split r2 = Some e -> Exponent r2 e.
Proof.
  intros r2 e H. unfold exp_split in H. destruct r2 as [|c r]; [inversion H; constructor|].
  destruct (is_e c) eqn:Ee; [|discriminate].
  set (sel := match r with
              | c2 :: r' => if c2 =? 43 then (1, r') else if c2 =? 45 then (-1, r') else (1, r)
              | [] => (1, r) end) in *.
  assert (Hsg : exists sg, r = sg ++ snd sel /\ SignOpt sg (fst sel)).
  { subst sel. destruct r as [|c2 r']; [exists []; split; [reflexivity|constructor]|].
    destruct (c2 =? 43) eqn:E1; [zb; subst; exists [43]; split; [reflexivity|constructor]|].
    destruct (c2 =? 45) eqn:E2; [zb; subst; exists [45]; split; [reflexivity|constructor]|].
    exists []. split; [reflexivity|constructor]. }
  destruct sel as [k r3]. cbn [fst snd] in Hsg. destruct Hsg as (sg & Hr & Hsg).
  destruct (span is_digit r3) as [ex r4] eqn:ES.
  destruct (span_spec _ _ _ _ ES) as (H1 & H2 & _).
  destruct ex as [|d ex]; [discriminate|]. destruct r4; [|discriminate].
  inversion H; subst. rewrite app_nil_r. constructor; try assumption. discriminate.
Qed.

(* ---------- the mantissa ---------- *)
Definition not_dot_digit (b : bytes) : Prop := stops is_digit b /\ stops (fun c => c =? 46) b.

Lemma exponent_head : forall ex e, Exponent ex e -> not_dot_digit ex.
Proof.
  intros ex e H. inversion H; subst; [split; exact I|]. unfold is_e in H0. split; simpl; unfold is_digit; lia.
Qed.

Lemma dec_split_int : forall ip ex, all_digits ip -> not_dot_digit ex -> dec_split (ip ++ ex) = (ip, [], ex).
Proof.
  intros ip ex Hip [H1 H2]. unfold dec_split. rewrite span_app by assumption.
  destruct ex as [|c r]; [reflexivity|]. simpl in H2. rewrite H2. reflexivity.
Qed.

Lemma dec_split_frac : forall ip fp ex, all_digits ip -> all_digits fp -> not_dot_digit ex ->
  dec_split (ip ++ 46 :: fp ++ ex) = (ip, fp, ex).
Proof.
  intros ip fp ex Hip Hfp [H1 H2]. unfold dec_split. rewrite span_app; [|assumption|reflexivity].
  replace (46 =? 46) with true by reflexivity. rewrite span_app by assumption. reflexivity.
Qed.

Lemma dec_split_spec : forall s ip fp r2, dec_split s = (ip, fp, r2) ->
  all_digits ip /\ all_digits fp /\
  ((s = ip ++ r2 /\ fp = [] /\ not_dot_digit r2) \/ (s = ip ++ 46 :: fp ++ r2 /\ stops is_digit r2)).
Proof.
  intros s ip fp r2 H. unfold dec_split in H.
  destruct (span is_digit s) as [ip' r1] eqn:E1. destruct (span_spec _ _ _ _ E1) as (Hs & Hip & Hst).
  destruct r1 as [|c r].
  - inversion H; subst. repeat split; try assumption; try reflexivity. left. repeat split; exact I.
  - destruct (c =? 46) eqn:Ec.
    + destruct (span is_digit r) as [fp' r2'] eqn:E2. destruct (span_spec _ _ _ _ E2) as (Hr & Hfp & Hst2).
      inversion H; subst. zb. subst c. repeat split; try assumption. right. split; [reflexivity|assumption].
    + inversion H; subst. repeat split; try assumption; try reflexivity. left. repeat split; try exact Hst.
      simpl. exact Ec.
Qed.

(* ---------- decimal numerals: acceptor and value = grammar ---------- *)
Lemma second_not_x : forall u, (forall c0 c1 r, u = c0 :: c1 :: r -> (c0 =? 48) && is_x c1 = false) ->
  numeral_kind u = dec_kind u.
Proof.
  intros u H. unfold numeral_kind. destruct u as [|c0 [|c1 [|c2 r]]]; try reflexivity.
  now rewrite (H c0 c1 (c2 :: r) eq_refl).
Qed.

Lemma dec_second : forall u m e, DecNumeral u m e -> forall c0 c1 r, u = c0 :: c1 :: r -> (c0 =? 48) && is_x c1 = false.
Proof.
  intros u m e H c0 c1 r Hu.
  assert (Hd : forall d, is_digit d = true -> is_x d = false) by (intros d; unfold is_digit, is_x; lia).
  assert (He : forall ex e', Exponent ex e' -> forall c r', ex = c :: r' -> is_x c = false).
  { intros ex e' Hex c r' ->. inversion Hex; subst. unfold is_e, is_x in *. lia. }
  destruct H as [ip ex e0 Hip Hne Hex | ip fp ex e0 Hip Hfp Hne Hex].
  - destruct ip as [|d [|d2 ip]]; [contradiction| |].
    + simpl in Hu. inversion Hu; subst. rewrite (He _ _ Hex c1 r eq_refl). apply andb_false_r.
    + simpl in Hu. inversion Hu; subst. unfold all_digits in Hip. simpl in Hip. zb.
      rewrite (Hd c1) by assumption. apply andb_false_r.
  - destruct ip as [|d [|d2 ip]].
    + simpl in Hu. inversion Hu; subst. reflexivity.
    + simpl in Hu. inversion Hu; subst. rewrite andb_false_r. reflexivity.
    + simpl in Hu. inversion Hu; subst. unfold all_digits in Hip. simpl in Hip. zb.
      rewrite (Hd c1) by assumption. apply andb_false_r.
Qed.

Lemma len_app_nonempty : forall (a b : bytes), a ++ b <> [] -> (len a + len b =? 0) = false.
Proof. intros a b H. unfold len. destruct a, b; simpl in *; try lia. contradiction. Qed.

Lemma dec_numeral_complete : forall u m e, DecNumeral u m e -> numeral_kind u = KDec /\ dec_exact u = (m, e).
Proof.
  intros u m e H. rewrite (second_not_x u (dec_second u m e H)).
  inversion H; subst.
  - unfold dec_kind, dec_exact. rewrite dec_split_int by (try assumption; eapply exponent_head; eassumption).
    rewrite (exp_split_complete _ _ H2). rewrite app_nil_r.
    replace (len ip + len [] =? 0) with false by (symmetry; apply len_app_nonempty; now rewrite app_nil_r).
    split; [reflexivity|]. f_equal. unfold len. simpl. lia.
  - unfold dec_kind, dec_exact. rewrite dec_split_frac by (try assumption; eapply exponent_head; eassumption).
    rewrite (exp_split_complete _ _ H3).
    replace (len ip + len fp =? 0) with false by (symmetry; now apply len_app_nonempty).
    split; reflexivity.
Qed.

Lemma dec_kind_sound : forall u, dec_kind u = KDec -> exists m e, DecNumeral u m e /\ dec_exact u = (m, e).
Proof.
  intros u H. unfold dec_kind, dec_exact in *.
  destruct (dec_split u) as [[ip fp] r2] eqn:ES.
  destruct (dec_split_spec _ _ _ _ ES) as (Hip & Hfp & Hshape).
  destruct (len ip + len fp =? 0) eqn:El; [discriminate|].
  destruct (exp_split r2) as [e|] eqn:EE; [|discriminate].
  pose proof (exp_split_sound _ _ EE) as Hex.
  destruct Hshape as [(Hu & Hf & _)|(Hu & _)].
  - subst fp u. exists (digits_val (ip ++ [])), (e - len (@nil Z)). split; [|reflexivity].
    rewrite app_nil_r. replace (e - len (@nil Z)) with e by (unfold len; simpl; lia).
    constructor; try assumption. intros ->. unfold len in El. simpl in El. lia.
  - subst u. exists (digits_val (ip ++ fp)), (e - len fp). split; [|reflexivity].
    constructor; try assumption. intros Hn. apply app_eq_nil in Hn as [-> ->]. unfold len in El. simpl in El. lia.
Qed.

Lemma dec_kind_not_hex : forall u, dec_kind u <> KHex.
Proof.
  intros u. unfold dec_kind. destruct (dec_split u) as [[ip fp] r2].
  destruct (len ip + len fp =? 0); [discriminate|]. destruct (exp_split r2); discriminate.
Qed.

Lemma numeral_kind_dec : forall u, numeral_kind u = KDec -> dec_kind u = KDec.
Proof.
  intros u H. unfold numeral_kind in H. destruct u as [|c0 [|c1 [|c2 r]]]; try exact H.
  destruct ((c0 =? 48) && is_x c1); [|exact H]. destruct (forallb is_hex (c2 :: r)); discriminate.
Qed.

Lemma dec_numeral_iff_lemma : forall u m e, DecNumeral u m e <-> (numeral_kind u = KDec /\ dec_exact u = (m, e)).
Proof.
  intros u m e. split; [apply dec_numeral_complete|].
  intros [Hk Hv]. destruct (dec_kind_sound u (numeral_kind_dec u Hk)) as (m' & e' & Hd & Hv').
  rewrite Hv in Hv'. inversion Hv'; subst. exact Hd.
Qed.

(* ---------- hexadecimal numerals ---------- *)
Lemma hex_numeral_iff_lemma : forall u m, HexNumeral u m <-> (numeral_kind u = KHex /\ hex_val (skipn 2 u) = m).
Proof.
  intros u m. split.
  - intros H. inversion H; subst. destruct hs as [|h hs]; [contradiction|].
    unfold numeral_kind. replace (48 =? 48) with true by reflexivity. rewrite H0. cbn [andb].
    unfold all_hex in H1. rewrite H1. split; reflexivity.
  - intros [Hk Hv]. unfold numeral_kind in Hk.
    destruct u as [|c0 [|c1 [|c2 r]]]; try (exfalso; eapply dec_kind_not_hex; eassumption).
    destruct ((c0 =? 48) && is_x c1) eqn:E; [|exfalso; eapply dec_kind_not_hex; eassumption].
    destruct (forallb is_hex (c2 :: r)) eqn:Eh; [|discriminate].
    zb. subst c0. cbn [skipn] in Hv. subst m. constructor; try assumption. discriminate.
Qed.

Lemma unsigned_iff_lemma : forall u m e,
  Unsigned u m e <->
  match numeral_kind u with
  | KDec => dec_exact u = (m, e)
  | KHex => hex_val (skipn 2 u) = m /\ e = 0
  | KNone => False
  end.
Proof.
  intros u m e. split.
  - intros H. inversion H; subst.
    + apply dec_numeral_iff_lemma in H0 as [-> Hv]. exact Hv.
    + apply hex_numeral_iff_lemma in H0 as [-> Hv]. split; [exact Hv|reflexivity].
  - destruct (numeral_kind u) eqn:Ek; [contradiction| |].
    + intros Hv. apply UDec. apply dec_numeral_iff_lemma. now split.
    + intros [Hv ->]. apply UHex. apply hex_numeral_iff_lemma. now split.
Qed.

(* ---------- parseNumber = the grammar ---------- *)
Lemma unsigned_nonempty : forall u m e, Unsigned u m e -> u <> [].
Proof. intros u m e H Hn. apply unsigned_starts in H. subst. exact H. Qed.

Lemma parse_exact_complete : forall s m e, Numeral s m e -> parse_exact s = Some (m, e).
Proof.
  intros s m e H. inversion H; subst. unfold parse_exact.
  assert (Hmid : nonspace_ends (sg ++ u)).
  { apply numchars_ends.
    - intros Hn. apply app_eq_nil in Hn as [_ Hn]. eapply unsigned_nonempty; eassumption.
    - rewrite forallb_app, (sign_numchars _ _ H2). eapply unsigned_numchars; eassumption. }
  replace (l ++ sg ++ u ++ t) with (l ++ (sg ++ u) ++ t) by now rewrite <- app_assoc.
  rewrite trim_space_app by assumption.
  rewrite (strip_sign_app _ _ _ H2 (unsigned_starts _ _ _ H3)).
  apply unsigned_iff_lemma in H3. destruct (numeral_kind u); [contradiction| |].
  - rewrite H3. reflexivity.
  - destruct H3 as [-> ->]. reflexivity.
Qed.

Lemma parse_exact_sound : forall s m e, parse_exact s = Some (m, e) -> Numeral s m e.
Proof.
  intros s m e H. unfold parse_exact in H.
  destruct (trim_space_spec s) as (l & t & Hs & Hl & Ht).
  destruct (strip_sign (trim_space s)) as [k u] eqn:ESg.
  destruct (strip_sign_spec _ _ _ ESg) as (sg & Htr & Hsg).
  rewrite Hs, Htr, <- app_assoc.
  destruct (numeral_kind u) eqn:Ek; [discriminate| |].
  - destruct (dec_exact u) as [m' e'] eqn:Ev. inversion H; subst.
    constructor; try assumption. apply unsigned_iff_lemma. now rewrite Ek.
  - inversion H; subst. constructor; try assumption. apply unsigned_iff_lemma. rewrite Ek. now split.
Qed.

Lemma parse_exact_iff_lemma : forall s m e, parse_exact s = Some (m, e) <-> Numeral s m e.
Proof. intros; split; [apply parse_exact_sound|apply parse_exact_complete]. Qed.

Lemma unsigned_is_numeral : forall u m e, Unsigned u m e -> Numeral u m e.
Proof.
  intros u m e H. replace u with ([] ++ [] ++ u ++ []) by (simpl; now rewrite app_nil_r).
  replace m with (1 * m) by lia. apply (Num [] [] 1 u m e []); [reflexivity|reflexivity|constructor|exact H].
Qed.

(* an unsigned numeral is read by parseNumber as itself *)
Lemma parse_exact_unsigned : forall u m e, Unsigned u m e -> parse_exact u = Some (m, e).
Proof. intros. apply parse_exact_complete. now apply unsigned_is_numeral. Qed.

Lemma kind_unsigned : forall u, numeral_kind u <> KNone -> exists m e, Unsigned u m e.
Proof.
  intros u H. destruct (numeral_kind u) eqn:Ek; [contradiction| |].
  - destruct (dec_exact u) as [m e] eqn:Ev. exists m, e. apply unsigned_iff_lemma. now rewrite Ek.
  - exists (hex_val (skipn 2 u)), 0. apply unsigned_iff_lemma. rewrite Ek. now split.
Qed.
