(* The concrete correctly-rounding reader round_dec (Text/NumText.v) returns an integer that is
   itself a binary64 value unchanged: the first strconv hypothesis of tostring_tonumber holds of the
   function the case evaluator compares with strconv.ParseFloat. *)
From GL Require Import Common.Bytes Text.NumRead Text.NumText.
From Coq Require Import Lia ZifyBool.

Definition podd (p : positive) : Prop := match p with xO _ => False | _ => True end.

Lemma pos_shift_canon : forall n p, podd p ->
  pos_odd (Pos.shiftl_nat p n) = p /\ pos_tz (Pos.shiftl_nat p n) = Z.of_nat n /\
  Zpos (Pos.shiftl_nat p n) = Zpos p * 2 ^ Z.of_nat n.
Proof.
  induction n as [|n IH]; intros p Hp.
  - cbn [Pos.shiftl_nat nat_rect]. destruct p; try contradiction; repeat split; simpl; lia.
  - destruct (IH p Hp) as (H1 & H2 & H3). cbn [Pos.shiftl_nat nat_rect] in *.
    repeat split; cbn [pos_odd pos_tz]; try assumption; try lia.
    rewrite Pos2Z.inj_xO, H3, Nat2Z.inj_succ, Z.pow_succ_r by lia. lia.
Qed.

Lemma canon_shift : forall m k s, Z.odd m = true -> 0 <= k -> canon (m * 2 ^ k) s = Fin m (s + k).
Proof.
  intros m k s Hm Hk. destruct m as [|p|p]; [discriminate| |].
  - assert (Hp : podd p) by (destruct p; simpl in *; try discriminate; exact I).
    destruct (pos_shift_canon (Z.to_nat k) p Hp) as (H1 & H2 & H3). rewrite Z2Nat.id in * by lia.
    rewrite <- H3. cbn [canon]. rewrite H1, H2. reflexivity.
  - assert (Hp : podd p) by (destruct p; simpl in *; try discriminate; exact I).
    destruct (pos_shift_canon (Z.to_nat k) p Hp) as (H1 & H2 & H3). rewrite Z2Nat.id in * by lia.
    replace (Z.neg p * 2 ^ k) with (- (Z.pos p * 2 ^ k)) by lia. rewrite <- H3. cbn [Z.opp canon].
    rewrite H1, H2. reflexivity.
Qed.

(* a positive odd mantissa below 2^53 with a non-negative exponent, inside the binary64 range *)
Lemma round_pos_exact : forall m e, 0 < m < 2 ^ 53 -> Z.odd m = true -> 0 <= e -> Z.log2 m + e <= 1023 ->
  round_pos (m * 2 ^ e) 1 = Fin m e.
Proof.
  intros m e Hm Hodd He Hrange. unfold round_pos.
  assert (Hlog : Z.log2 (m * 2 ^ e) = e + Z.log2 m) by (apply Z.log2_mul_pow2; lia).
  assert (Hl52 : 0 <= Z.log2 m <= 52).
  { split; [apply Z.log2_nonneg|]. assert (Z.log2 m < 53) by (apply Z.log2_lt_pow2; lia). lia. }
  change (Z.log2 1) with 0. rewrite Z.sub_0_r, Hlog.
  set (e0 := e + Z.log2 m).
  replace (0 <=? e0) with true by lia.
  assert (Hpow : 2 ^ e0 <= m * 2 ^ e).
  { subst e0. rewrite Z.pow_add_r by lia. pose proof (Z.log2_spec m ltac:(lia)) as [Hlo _].
    assert (0 < 2 ^ e) by (apply Z.pow_pos_nonneg; lia). nia. }
  replace (1 * 2 ^ e0 <=? m * 2 ^ e) with true by lia.
  replace (1024 <=? e0) with false by lia.
  replace (Z.max (e0 - 52) (-1074)) with (e0 - 52) by lia.
  destruct (e0 - 52 <? 0) eqn:Es.
  - (* the value is below 2^52: scaled up, no remainder *)
    rewrite Z.div_1_r, Z.mod_1_r.
    replace ((1 <? 2 * 0) || (1 =? 2 * 0) && Z.odd (m * 2 ^ e * 2 ^ - (e0 - 52))) with false by reflexivity.
    replace ((971 <=? e0 - 52) && (2 ^ 53 <=? m * 2 ^ e * 2 ^ - (e0 - 52))) with false by lia.
    rewrite <- Z.mul_assoc, <- Z.pow_add_r by lia.
    rewrite canon_shift by (try assumption; lia). f_equal. lia.
  - (* the low e0-52 bits are all zero because m has at most 53 bits *)
    set (s := e0 - 52) in *. assert (Hs : 0 <= s <= e) by (subst s e0; lia).
    assert (Hsplit : m * 2 ^ e = (m * 2 ^ (e - s)) * 2 ^ s).
    { rewrite <- Z.mul_assoc, <- Z.pow_add_r by lia. do 2 f_equal. lia. }
    assert (Hpos : 0 < 2 ^ s) by (apply Z.pow_pos_nonneg; lia).
    rewrite Z.mul_1_l. rewrite Hsplit. rewrite Z.div_mul by lia. rewrite Z.mod_mul by lia.
    replace ((2 ^ s <? 2 * 0) || (2 ^ s =? 2 * 0) && Z.odd (m * 2 ^ (e - s))) with false by lia.
    assert (Hn : m * 2 ^ (e - s) < 2 ^ 53).
    { assert (Z.log2 (m * 2 ^ (e - s)) = 52).
      { rewrite Z.log2_mul_pow2 by lia. subst s e0. lia. }
      apply Z.log2_lt_pow2; [|lia]. assert (0 < 2 ^ (e - s)) by (apply Z.pow_pos_nonneg; lia). nia. }
    replace ((971 <=? s) && (2 ^ 53 <=? m * 2 ^ (e - s))) with false by lia.
    rewrite canon_shift by (try assumption; lia). f_equal. lia.
Qed.

(* in range: a canonical finite binary64 value with a 53-bit mantissa and exponent field below 1024 *)
Definition in_binary64 (x : fval) : Prop :=
  match x with Fin m e => Z.abs m < 2 ^ 53 /\ (m <> 0 -> Z.log2 (Z.abs m) + e <= 1023) | _ => True end.

Lemma round_dec_int_exact_lemma : forall x z, is_canon x = true -> in_binary64 x ->
  int_of_fval x = Some z -> round_dec z 0 = x.
Proof.
  intros x z Hc Hr Hz. destruct x as [m e| | |]; try discriminate. simpl in Hz.
  destruct (0 <=? e) eqn:E; [|discriminate]. inversion Hz; subst z. simpl in Hc, Hr.
  destruct (m =? 0) eqn:Em.
  - assert (m = 0) by lia. assert (e = 0) by lia. subst. reflexivity.
  - destruct Hr as [Hm Hl]. specialize (Hl ltac:(lia)).
    assert (H2e : 0 < 2 ^ e) by (apply Z.pow_pos_nonneg; lia).
    unfold round_dec. replace (m * 2 ^ e =? 0) with false by nia.
    replace (400 <=? 0) with false by reflexivity.
    assert (0 <= Z.log2 (Z.abs (m * 2 ^ e))) by apply Z.log2_nonneg.
    replace (0 + Z.log2 (Z.abs (m * 2 ^ e)) <? -1500) with false by lia.
    replace (0 <=? 0) with true by reflexivity. change (10 ^ 0) with 1. rewrite Z.mul_1_r.
    rewrite Z.abs_mul, (Z.abs_eq (2 ^ e)) by lia.
    rewrite (round_pos_exact (Z.abs m) e); try lia.
    + destruct (m * 2 ^ e <? 0) eqn:Es.
      * assert (m < 0) by nia. cbn [fneg]. f_equal. lia.
      * assert (0 < m) by nia. f_equal. lia.
    + replace (Z.odd (Z.abs m)) with (Z.odd m) by (destruct m; reflexivity). exact Hc.
Qed.

(* tonumber(tostring(x)) = x for every integral binary64 value, with the concrete reader: no oracle *)
From GL Require Import Text.NumFacts Text.NumLexFacts Text.NumTextFacts.

Lemma tostring_tonumber_integral_lemma : forall fmt x, is_canon x = true -> in_binary64 x -> is_integer x = true ->
  tonumber_f round_dec (lnumber_string fmt x) None = Some x.
Proof.
  intros fmt x Hc Hr Hi. unfold tonumber_f, tonumber, lnumber_string. cbn [Z.eqb Pos.eqb]. rewrite Hi.
  unfold is_integer in Hi. destruct (int_of_fval x) as [z|] eqn:Ez; [|discriminate].
  rewrite int_print_parse_lemma. f_equal. now apply round_dec_int_exact_lemma.
Qed.
