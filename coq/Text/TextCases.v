(* Case evaluator for the C16 correspondence shards. *)
From GL Require Import Common.Bytes Text.Quote Text.StrLit Text.NumRead Text.NumText Text.Date.

(* a literal inside a chunk that holds several: an unsigned numeral, possibly under a unary minus
   (which the compiler folds into the constant), or a string literal *)
Inductive ctxlit := XNum (neg : bool) (text : bytes) | XStr (src : bytes).
(* what the chunk returned for it: the number x, whether it is the negative zero (x = 0 and
   1/x = -inf), tostring(x); or the string *)
Inductive ctxobs := ONum (x : fval) (negzero : bool) (str : bytes) | OStr (v : bytes) | OBad.

Inductive case :=
(* string.format('%q', s) = q; loadstring('return '..q)() = back (None: error / not a string) *)
| CQuote (s q : bytes) (back : option bytes)
(* `return <quote><items rendered><quote>` *)
| CShort (q : Z) (its : list item) (obs : option bytes)
(* `return [=*[ body ]=*]` *)
| CLong (lvl : Z) (body : bytes) (obs : option bytes)
(* `return <src>` for a source text that is meant to be one (possibly malformed) string literal *)
| CLit (src : bytes) (obs : option bytes)
(* first token of src by parse.Scanner.Scan: Some text if it is a string token without error *)
| CScan (src : bytes) (obs : option bytes)
(* rd = 0: tonumber(s); 1: s + 0 (error -> None); 2: the chunk `return <s>` (error or a result that
   is not one number -> None; NaN -> Some FNaN) *)
| CNum (rd : Z) (s : bytes) (obs : option fval)
(* tonumber(s, b) *)
| CNumB (b : Z) (s : bytes) (obs : option fval)
(* tonumber(s, b) for any integer b: did it raise (base out of range)? *)
| CNumBErr (b : Z) (s : bytes) (raised : bool)
(* tonumber(z, b) with the NUMBER z (an integer that is a float64) as first argument *)
| CNumBN (z : Z) (b : Z) (obs : option fval)
(* first token of u ++ rest by parse.Scanner.Scan: Some text if it is a number token without error *)
| CNumThen (u rest : bytes) (obs : option bytes)
(* tostring(x) = str; tonumber(str) = back *)
| CToStr (x : fval) (str : bytes) (back : option fval)
(* os.date('*t', t) = year month day hour min sec wday yday (isdst false); os.time of it = back *)
| CDateT (t : Z) (flds : list Z) (isdst : bool) (back : Z)
(* os.time(table); None: it raised *)
| CTime (tbl : dtable) (obs : option Z)
(* os.date('!'..fmt, t) *)
| CStrf (t : Z) (fmt : bytes) (obs : bytes)
(* `local v1, .., vn = L1, .., Ln  return <v, 1/v, tostring(v) for a numeral | v for a string>...`:
   all literals in ONE function, so they share its constant table; None: the chunk failed *)
| CCtx (lits : list ctxlit) (obs : option (list ctxobs))
(* the case c with its source text PLACED: preceded by `pad` bytes of blanks / line ends and handed to
   the scanner by a reader that delivers at most dl bytes per Read (dl = 0: everything it is asked
   for, i.e. the 4096-byte fills of the scanner's bufio.Reader; mode 1: the last Read returns its
   bytes together with io.EOF; mode 2: a Read that returns nothing precedes every delivery).
   What a literal denotes depends on none of the three (Text/ReaderFacts.v): both checkers ignore them *)
| CAt (pad dl mode : Z) (c : case).

Definition obytes_eqb := opt_eqb beqb.
Definition ofval_eqb := opt_eqb fval_eqb.
Definition zlist_eqb := list_eqb Z.eqb.

Definition short_src (q : Z) (its : list item) : bytes := q :: render_items its ++ [q].
Definition long_src (lvl : Z) (body : bytes) : bytes :=
  long_open (Z.to_nat lvl) ++ body ++ long_close (Z.to_nat lvl).

Definition scan_first (src : bytes) : option bytes :=
  match scan_string_token src with Ok (v, _) => Some v | _ => None end.

Definition lexnum_obs (r : lexnum_f) : option fval :=
  match r with LFVal x => Some x | LFNaN => Some FNaN | LFReject => None end.

Definition num_reader (rd : Z) (s : bytes) : option fval :=
  if rd =? 0 then tonumber_f round_dec s None
  else if rd =? 1 then parse_number round_dec s
  else lexnum_obs (lex_numeral_f round_dec s).

Definition date_fields (tb : dtable) : list Z :=
  map (fun k => match dget tb k with Some (DNum z) => z | _ => -99 end)
      [FYear; FMonth; FDay; FHour; FMin; FSec; FWday; FYday].
Definition date_isdst (tb : dtable) : bool :=
  match dget tb FIsdst with Some (DBool b) => b | _ => true end.

(* a literal denotes the same value whatever other literals stand in the same function *)
Definition is_zero_f (x : fval) : bool := match x with Fin m _ => m =? 0 | _ => false end.

Definition ctx_num_ok (x : fval) (neg : bool) (o : ctxobs) : bool :=
  let x' := if neg then fneg x else x in
  match o with
  | ONum y nz str =>
    fval_eqb x' y && Bool.eqb nz (neg && is_zero_f x) &&
    (if is_integer x' then beqb (lnumber_string (fun _ => []) x') str
     else if is_finite x' then ofval_eqb (parse_number round_dec str) (Some x') else true)
  | _ => false
  end.

Definition ctx_lit_valid (via_lexer : bool) (l : ctxlit) : bool :=
  match l with
  | XNum _ text =>
    if via_lexer then match lex_numeral text with LNVal _ _ => true | _ => false end
    else match numeral_kind text with KNone => false | _ => true end
  | XStr src => match lex_string src with Some _ => true | None => false end
  end.

Definition ctx_lit_ok (via_lexer : bool) (l : ctxlit) (o : ctxobs) : bool :=
  match l with
  | XNum neg text =>
    if via_lexer then
      match lex_numeral_f round_dec text with LFVal x => ctx_num_ok x neg o | _ => false end
    else match parse_number round_dec text with Some x => ctx_num_ok x neg o | None => false end
  | XStr src =>
    match lex_string src, o with Some v, OStr w => beqb v w | _, _ => false end
  end.

Fixpoint ctx_all_ok (via_lexer : bool) (ls : list ctxlit) (os : list ctxobs) : bool :=
  match ls, os with
  | [], [] => true
  | l :: ls', o :: os' => ctx_lit_ok via_lexer l o && ctx_all_ok via_lexer ls' os'
  | _, _ => false
  end.

Definition ctx_check (via_lexer : bool) (ls : list ctxlit) (obs : option (list ctxobs)) : bool :=
  if forallb (ctx_lit_valid via_lexer) ls then
    match obs with Some os => ctx_all_ok via_lexer ls os | None => false end
  else match obs with None => true | Some _ => false end.

Definition scan_number_token (src : bytes) : option bytes :=
  match src with
  | c :: r =>
    if is_digit c || ((c =? 46) && is_digit (match r with c2 :: _ => c2 | [] => -1 end)) then
      match scan_number c r with Some (text, _) => Some text | None => None end
    else None
  | [] => None
  end.

(* baseToNumber with a number argument: base 10 returns it, any other base reads its text *)
Definition tonumber_of_number (z b : Z) : option fval :=
  if b =? 10 then Some (round_dec z 0) else tonumber_f round_dec (print_int z) (Some b).

(* the token ends where the numeral ends when what follows cannot continue a numeral *)
Definition ends_numeral (rest : bytes) : bool :=
  match rest with c :: _ => negb (is_ident1 c || (c =? 46)) | [] => true end.

Fixpoint check_impl (c : case) : bool :=
  match c with
  | CQuote s q back => beqb (go_lua_quote s) q && obytes_eqb (lex_string q) back
  | CShort q its obs => obytes_eqb (lex_string (short_src q its)) obs
  | CLong lvl body obs => obytes_eqb (lex_string (long_src lvl body)) obs
  | CLit src obs => obytes_eqb (lex_string src) obs
  | CScan src obs => obytes_eqb (scan_first src) obs
  | CNum rd s obs => ofval_eqb (num_reader rd s) obs
  | CNumB b s obs => ofval_eqb (tonumber_f round_dec s (Some b)) obs
  | CNumBErr b s raised => Bool.eqb raised (negb (base_ok b))
  | CNumBN z b obs => ofval_eqb (tonumber_of_number z b) obs
  | CNumThen u rest obs => obytes_eqb (scan_number_token (u ++ rest)) obs
  | CToStr x str back =>
    (if is_integer x then beqb (lnumber_string (fun _ => []) x) str
     else ofval_eqb (parse_number round_dec str) (Some x))       (* the Sprint oracle, checked *)
    && ofval_eqb (tonumber_f round_dec str None) back
  | CDateT t flds isdst back =>
    let tb := os_date_t civil_of_unix t in
    zlist_eqb (date_fields tb) flds && Bool.eqb (date_isdst tb) isdst &&
    opt_eqb Z.eqb (os_time unix_of_civil tb) (Some back)
  | CTime tbl obs => opt_eqb Z.eqb (os_time unix_of_civil tbl) obs
  | CStrf t fmt obs => beqb (strftime (civil_of_unix t) fmt) obs
  | CCtx lits obs => ctx_check true lits obs
  | CAt _ _ _ c' => check_impl c'
  end.

(* ---------- the property on the observed behaviour ---------- *)
Definition plain_int_text (str : bytes) : bool :=
  match str with
  | c :: r => if c =? 45 then negb (match r with [] => true | _ => false end) && forallb is_digit r
              else forallb is_digit str
  | [] => false
  end.

(* well formed except that decimal escapes may exceed 255; such a literal is an error *)
Definition big_dec (it : item) : bool :=
  match it with IDec ds => 255 <? dec_value ds 0 | _ => false end.
Definition wf_item_big (q : Z) (it : item) : bool :=
  match it with
  | IDec ds => forallb is_digit_val ds && (len ds =? 3)
  | _ => wf_item q it
  end.

Fixpoint check_spec (c : case) : bool :=
  match c with
  | CQuote s q back => obytes_eqb back (Some s)
  | CShort q its obs =>
    if wf_items q its then obytes_eqb obs (Some (denote_items its))
    else if forallb (wf_item_big q) its && existsb big_dec its then obytes_eqb obs None
    else true
  | CLong lvl body obs =>
    if no_closer (Z.to_nat lvl) body then obytes_eqb obs (Some (long_denotes body)) else true
  | CLit _ _ => true
  | CScan _ _ => true
  | CNum rd s obs =>
    if rd =? 2 then
      (* one unsigned numeral and nothing else, or not a number *)
      match numeral_kind s with
      | KNone => ofval_eqb obs None
      | _ => ofval_eqb obs (parse_number round_dec s)
      end
    else ofval_eqb obs (parse_number round_dec s)
  | CNumB b s obs => ofval_eqb obs (tonumber_f round_dec s (Some b))
  | CNumBErr b s raised => Bool.eqb raised (negb ((2 <=? b) && (b <=? 36)))
  | CNumBN z b obs => ofval_eqb obs (tonumber_of_number z b)
  | CNumThen u rest obs =>
    match numeral_kind u with
    | KNone => true
    | _ => if ends_numeral rest then obytes_eqb obs (Some u) else true
    end
  | CToStr x str back =>
    ofval_eqb back (Some x) &&
    match int_of_fval x with
    | Some z => if Z.abs z <? 2 ^ 53 then plain_int_text str else true
    | None => true
    end
  | CDateT t flds isdst back =>
    let cv := civil_of_unix t in
    (back =? t) &&
    zlist_eqb flds [c_year cv; c_month cv; c_day cv; c_hour cv; c_min cv; c_sec cv; c_wday cv + 1; c_yday cv]
  (* every field is read as tonumber reads it; year, month, day are required *)
  | CTime tbl obs => opt_eqb Z.eqb obs (os_time unix_of_civil tbl)
  | CStrf t fmt obs => beqb obs (flat_map (render_piece (civil_of_unix t)) (parse_fmt fmt))
  | CCtx lits obs => ctx_check false lits obs   (* the grammar's value, literal by literal *)
  | CAt _ _ _ c' => check_spec c'               (* ... wherever the text stands, however it arrives *)
  end.
