(* C16, record only: the numeral readers as they were BEFORE the fix: commits 4ae4529, 433386c,
   bcbe0e8, modelled just far enough to evaluate the DESIGN 9.1 witnesses C16-1, C16-2, C16-3.
   Nothing here is tied to code any more (the code was repaired); it documents what
   readers_agree refuted on the pinned tree. Not modelled: '_' separators and the ParseFloat
   fallback (inf, nan, 0x1p4), which the old parseNumber also accepted. *)
From GL Require Import Common.Bytes Text.NumRead.

(* strconv.ParseInt(s, base, 64) for 2 <= base <= 36, as the old baseToNumber called it *)
Definition go_parse_int (s : bytes) (b : Z) : option Z :=
  if negb ((2 <=? b) && (b <=? 36)) then None else
  let '(k, u) := strip_sign s in
  match u with
  | [] => None
  | _ => match radix_val b u 0 with
         | Some n => if k =? 1 then (if n <? 2 ^ 63 then Some n else None)
                     else (if n <=? 2 ^ 63 then Some (- n) else None)
         | None => None
         end
  end.

Definition is_blank_old (c : Z) : bool := (c =? 32) || (c =? 9) || (c =? 10).
Definition trim_old (s : bytes) : bytes := rev (dropwhile is_blank_old (rev (dropwhile is_blank_old s))).

(* strconv.ParseInt(s, 0, 64) on strings without underscores: the base comes from the prefix,
   and a bare leading 0 means octal *)
Definition legacy_parse_int0 (s : bytes) : option Z :=
  let '(k, u) := strip_sign s in
  match u with
  | [] => None
  | c0 :: r0 =>
    let '(b, ds) :=
      if c0 =? 48 then
        match r0 with
        | c1 :: ((_ :: _) as r1) =>
          if (c1 =? 98) || (c1 =? 66) then (2, r1)
          else if (c1 =? 111) || (c1 =? 79) then (8, r1)
          else if is_x c1 then (16, r1)
          else (8, r0)
        | _ => (8, r0)
        end
      else (10, u) in
    match radix_val b ds 0 with
    | Some n => if k =? 1 then (if n <? 2 ^ 63 then Some n else None)
                else (if n <=? 2 ^ 63 then Some (- n) else None)
    | None => None
    end
  end.

(* old parseNumber, integer path only (None = would go on to ParseFloat) *)
Definition legacy_coerce_int (s : bytes) : option Z := legacy_parse_int0 (trim_old s).

(* old baseToNumber without a base, for a string without '.' *)
Definition legacy_tonumber_nodot (s : bytes) : option Z :=
  let t := trim_old s in
  match t with
  | c0 :: c1 :: r => if (c0 =? 48) && is_x c1 then go_parse_int r 16 else go_parse_int t 10
  | _ => go_parse_int t 10
  end.

(* old scanNumber on a token made of decimal digits only: one leading zero is dropped when a digit
   follows, the rest goes to the old parseNumber *)
Definition legacy_lex_digits (s : bytes) : option Z :=
  match s with
  | c0 :: c1 :: r => if (c0 =? 48) && is_digit c1 then legacy_coerce_int (c1 :: r) else legacy_coerce_int s
  | _ => legacy_coerce_int s
  end.
