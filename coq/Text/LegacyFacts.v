(* The pre-fix readers disagreed with the grammar and with each other (DESIGN 9.1 C16-1..3). *)
From GL Require Import Common.Bytes Text.NumRead Text.Legacy.

(* "0010": coercion 8, grammar 10; "0b11" and "0o17": coercion 3 and 15, not numerals *)
Lemma legacy_coerce_refuted_lemma :
  legacy_coerce_int [48;48;49;48] = Some 8 /\ parse_exact [48;48;49;48] = Some (10, 0) /\
  legacy_coerce_int [48;98;49;49] = Some 3 /\ parse_exact [48;98;49;49] = None /\
  legacy_coerce_int [48;111;49;55] = Some 15 /\ parse_exact [48;111;49;55] = None.
Proof. repeat split; vm_compute; reflexivity. Qed.

(* "1e2": old tonumber nil, grammar 1 * 10^2 *)
Lemma legacy_tonumber_refuted_lemma :
  legacy_tonumber_nodot [49;101;50] = None /\ parse_exact [49;101;50] = Some (1, 2).
Proof. split; vm_compute; reflexivity. Qed.

(* literal 0012: old lexer 10, old coercion of the same text 10 as well but via a different path
   ("0012" is octal 10; the lexer read "012"), literal 0010: 8; grammar: 12 and 10 *)
Lemma legacy_lexer_refuted_lemma :
  legacy_lex_digits [48;48;49;50] = Some 10 /\ lex_numeral [48;48;49;50] = LNVal 12 0 /\
  legacy_lex_digits [48;48;49;48] = Some 8 /\ lex_numeral [48;48;49;48] = LNVal 10 0 /\
  legacy_lex_digits [48;48;57;57] = None (* "099" is not octal: went on to ParseFloat = 99 *).
Proof. repeat split; vm_compute; reflexivity. Qed.
