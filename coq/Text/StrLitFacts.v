(* Proofs about the transcribed string-literal scanner: every well-formed short string and every
   long bracket denotes the intended bytes. *)
From GL Require Import Common.Bytes Text.StrLit Text.QuoteFacts.
From Coq Require Import Lia ZifyBool.

Local Ltac zb := repeat match goal with
  | H : (_ =? _) = true |- _ => apply Z.eqb_eq in H
  | H : (_ =? _) = false |- _ => apply Z.eqb_neq in H
  | H : (_ && _) = true |- _ => apply andb_true_iff in H; destruct H
  | H : negb _ = true |- _ => apply negb_true_iff in H
  end.

(* ================= short strings ================= *)

Lemma is_dec_spec : forall c, is_dec c = true <-> 48 <= c <= 57.
Proof. intros; unfold is_dec; lia. Qed.

Lemma to_byte_id : forall c, 0 <= c < 256 -> to_byte c = c.
Proof. intros; unfold to_byte; apply Z.mod_small; lia. Qed.

(* the character after a backslash, when it is not a digit or a line break *)
Lemma scan_escape_char : forall c tail, is_byte c = true -> is_dec c = false -> c <> 10 -> c <> 13 ->
  scan_escape (c :: tail) = Some ([esc_value c], tail).
Proof.
  intros c tail Hb Hd H10 H13. unfold scan_escape. rewrite next_raw by assumption.
  unfold esc_value. unfold is_byte in Hb.
  destruct (c =? 97) eqn:E1; [reflexivity|].
  destruct (c =? 98) eqn:E2; [reflexivity|].
  destruct (c =? 102) eqn:E3; [reflexivity|].
  destruct (c =? 110) eqn:E4; [reflexivity|].
  destruct (c =? 114) eqn:E5; [reflexivity|].
  destruct (c =? 116) eqn:E6; [reflexivity|].
  destruct (c =? 118) eqn:E7; [reflexivity|].
  destruct (c =? 92) eqn:E8; [zb; subst; reflexivity|].
  destruct (c =? 34) eqn:E9; [zb; subst; reflexivity|].
  destruct (c =? 39) eqn:E10; [zb; subst; reflexivity|].
  destruct (c =? 10) eqn:E11; [zb; contradiction|].
  rewrite Hd. rewrite to_byte_id by lia. reflexivity.
Qed.

Definition head_nondigit (s : bytes) : Prop := is_dec (peek s) = false.

Lemma scan_escape_dec1 : forall d tail, 0 <= d <= 9 -> head_nondigit tail ->
  scan_escape ((48 + d) :: tail) = Some ([d], tail).
Proof.
  intros d tail Hd Hn. unfold scan_escape. rewrite next_raw by lia.
  repeat match goal with |- context [if (48 + d =? ?k) then _ else _] =>
    let E := fresh in destruct (48 + d =? k) eqn:E; [exfalso; lia|] end.
  replace (is_dec (48 + d)) with true by (unfold is_dec; lia).
  unfold head_nondigit in Hn. rewrite Hn.
  replace (48 + d - 48) with d by lia. unfold dec_escape. replace (255 <? d) with false by lia.
  rewrite to_byte_id by lia. reflexivity.
Qed.

Lemma scan_escape_dec2 : forall d1 d2 tail, 0 <= d1 <= 9 -> 0 <= d2 <= 9 -> head_nondigit tail ->
  scan_escape ((48 + d1) :: (48 + d2) :: tail) = Some ([d1 * 10 + d2], tail).
Proof.
  intros d1 d2 tail H1 H2 Hn. unfold scan_escape. rewrite next_raw by lia.
  repeat match goal with |- context [if (48 + d1 =? ?k) then _ else _] =>
    let E := fresh in destruct (48 + d1 =? k) eqn:E; [exfalso; lia|] end.
  replace (is_dec (48 + d1)) with true by (unfold is_dec; lia).
  cbn [peek tl]. replace (is_dec (48 + d2)) with true by (unfold is_dec; lia).
  unfold head_nondigit in Hn. rewrite Hn.
  replace (48 + d1 - 48) with d1 by lia. replace (48 + d2 - 48) with d2 by lia.
  unfold dec_escape. replace (255 <? d1 * 10 + d2) with false by lia.
  rewrite to_byte_id by lia. reflexivity.
Qed.

Lemma scan_escape_dec3 : forall d1 d2 d3 tail, 0 <= d1 <= 9 -> 0 <= d2 <= 9 -> 0 <= d3 <= 9 ->
  d1 * 100 + d2 * 10 + d3 <= 255 ->
  scan_escape ((48 + d1) :: (48 + d2) :: (48 + d3) :: tail) = Some ([d1 * 100 + d2 * 10 + d3], tail).
Proof.
  intros d1 d2 d3 tail H1 H2 H3 Hv. unfold scan_escape. rewrite next_raw by lia.
  repeat match goal with |- context [if (48 + d1 =? ?k) then _ else _] =>
    let E := fresh in destruct (48 + d1 =? k) eqn:E; [exfalso; lia|] end.
  replace (is_dec (48 + d1)) with true by (unfold is_dec; lia).
  cbn [peek tl]. replace (is_dec (48 + d2)) with true by (unfold is_dec; lia).
  replace (is_dec (48 + d3)) with true by (unfold is_dec; lia).
  replace (48 + d1 - 48) with d1 by lia. replace (48 + d2 - 48) with d2 by lia.
  replace (48 + d3 - 48) with d3 by lia.
  unfold dec_escape. replace (255 <? d1 * 100 + d2 * 10 + d3) with false by lia.
  rewrite to_byte_id by lia. reflexivity.
Qed.

Lemma scan_escape_nl : forall f tail, head_not 13 tail -> head_not 10 tail ->
  scan_escape (nl_bytes f ++ tail) = Some ([10], tail).
Proof.
  intros f tail H13 H10. unfold scan_escape.
  assert (Hn : next (nl_bytes f ++ tail) = (10, tail)).
  { destruct f; cbn [nl_bytes app].
    - now apply next_lf.
    - unfold next. cbn. destruct tail as [|c t]; [reflexivity|]. simpl in H10.
      destruct (c =? 10) eqn:E; [zb; contradiction|reflexivity].
    - reflexivity.
    - reflexivity. }
  rewrite Hn. reflexivity.
Qed.

(* what follows an item list inside quotes q *)
Lemma items_tail_heads : forall q its rest, (q = 34 \/ q = 39) -> wf_items q its = true ->
  head_not 13 (render_items its ++ q :: rest) /\ head_not 10 (render_items its ++ q :: rest) /\
  (starts_with_digit its = false -> head_nondigit (render_items its ++ q :: rest)).
Proof.
  intros q its rest Hq Hwf. destruct its as [|it r].
  - simpl. unfold head_nondigit, is_dec; simpl. destruct Hq; subst; repeat split; lia.
  - simpl in Hwf. zb. unfold render_items; simpl.
    destruct it as [b|c|ds|f]; simpl; unfold head_nondigit; simpl.
    + simpl in H. unfold is_byte in H. zb. repeat split; try lia; try (intros Hd; exact Hd).
    + repeat split; try lia; try (intros _; reflexivity).
    + repeat split; try lia; try (intros _; reflexivity).
    + repeat split; try lia; try (intros _; reflexivity).
Qed.

Lemma wf_items_tail : forall q it r, wf_items q (it :: r) = true -> wf_item q it = true /\ wf_items q r = true.
Proof. intros q it r H. simpl in H. zb. split; assumption. Qed.

Lemma scan_str_items : forall q, (q = 34 \/ q = 39) -> forall its fuel acc rest,
  wf_items q its = true -> (length its < fuel)%nat ->
  scan_str fuel q (render_items its ++ q :: rest) acc = Ok (acc ++ denote_items its, rest).
Proof.
  intros q Hq. induction its as [|it r IH]; intros fuel acc rest Hwf Hf.
  - destruct fuel as [|f]; [simpl in Hf; lia|]. cbn [render_items flat_map app scan_str].
    rewrite next_raw by (destruct Hq; lia). rewrite Z.eqb_refl. simpl. now rewrite app_nil_r.
  - destruct fuel as [|f]; [simpl in Hf; lia|].
    assert (Hf' : (length r < f)%nat) by (simpl in Hf; lia).
    destruct (wf_items_tail _ _ _ Hwf) as [Hit Hr].
    destruct (items_tail_heads q r rest Hq Hr) as (T13 & T10 & Tdig).
    assert (Hacc : forall x, (acc ++ [x]) ++ denote_items r = acc ++ x :: denote_items r)
      by (intros; now rewrite <- app_assoc).
    change (render_items (it :: r)) with (render_item it ++ render_items r).
    rewrite <- app_assoc. set (tail := render_items r ++ q :: rest) in *.
    assert (Hq92 : (92 =? q) = false) by (destruct Hq; subst; reflexivity).
    destruct it as [b|c|ds|nf].
    + (* raw byte *)
      simpl in Hit. unfold is_byte in Hit. zb.
      cbn [render_item app scan_str]. rewrite next_raw by assumption.
      replace (b =? q) with false by lia.
      replace ((b =? 10) || (b <? 0)) with false by lia.
      replace (b =? 92) with false by lia.
      subst tail. rewrite IH by assumption. cbn [denote_items map denote_item]. now rewrite Hacc.
    + (* escaped character *)
      simpl in Hit. zb.
      cbn [render_item app scan_str]. rewrite next_raw by lia. replace (92 =? q) with false by (destruct Hq; subst; reflexivity).
      replace ((92 =? 10) || (92 <? 0)) with false by reflexivity.
      replace (92 =? 92) with true by reflexivity.
      rewrite scan_escape_char by assumption.
      subst tail. rewrite IH by assumption. cbn [denote_items map denote_item]. now rewrite Hacc.
    + (* decimal escape *)
      assert (Hnext : (len ds =? 3) = true \/ head_nondigit tail).
      { simpl in Hwf. zb. destruct (len ds =? 3) eqn:E; [now left|right].
        apply Tdig. simpl in H0. now apply negb_true_iff in H0. }
      simpl in Hit. zb.
      cbn [render_item app scan_str]. rewrite next_raw by lia. replace (92 =? q) with false by (destruct Hq; subst; reflexivity).
      replace ((92 =? 10) || (92 <? 0)) with false by reflexivity.
      replace (92 =? 92) with true by reflexivity.
      assert (Hdig : forall d, In d ds -> 0 <= d <= 9).
      { intros d Hin. rewrite forallb_forall in H. specialize (H d Hin). unfold is_digit_val in H. lia. }
      unfold len in *.
      destruct ds as [|d1 [|d2 [|d3 [|d4 ds]]]]; cbn [length map app dec_value] in *; try lia.
      * assert (0 <= d1 <= 9) by (apply Hdig; simpl; auto).
        destruct Hnext as [Hx|Hn]; [lia|].
        rewrite scan_escape_dec1 by assumption.
        subst tail. rewrite IH by assumption. cbn [denote_items map denote_item dec_value].
        now rewrite Hacc.
      * assert (0 <= d1 <= 9) by (apply Hdig; simpl; auto). assert (0 <= d2 <= 9) by (apply Hdig; simpl; auto).
        destruct Hnext as [Hx|Hn]; [lia|].
        rewrite scan_escape_dec2 by assumption.
        subst tail. rewrite IH by assumption. cbn [denote_items map denote_item dec_value].
        replace ((0 * 10 + d1) * 10 + d2) with (d1 * 10 + d2) by lia. now rewrite Hacc.
      * assert (0 <= d1 <= 9) by (apply Hdig; simpl; auto). assert (0 <= d2 <= 9) by (apply Hdig; simpl; auto).
        assert (0 <= d3 <= 9) by (apply Hdig; simpl; auto).
        rewrite scan_escape_dec3 by (try assumption; lia).
        subst tail. rewrite IH by assumption. cbn [denote_items map denote_item dec_value].
        replace (((0 * 10 + d1) * 10 + d2) * 10 + d3) with (d1 * 100 + d2 * 10 + d3) by lia. now rewrite Hacc.
    + (* backslash line break *)
      cbn [render_item app scan_str]. rewrite next_raw by lia. replace (92 =? q) with false by (destruct Hq; subst; reflexivity).
      replace ((92 =? 10) || (92 <? 0)) with false by reflexivity.
      replace (92 =? 92) with true by reflexivity.
      rewrite scan_escape_nl by assumption.
      subst tail. rewrite IH by assumption. cbn [denote_items map denote_item]. now rewrite Hacc.
Qed.

Lemma render_items_length : forall its, (length its <= length (render_items its))%nat.
Proof.
  induction its as [|it r IH]; simpl; [lia|]. rewrite app_length.
  assert (1 <= length (render_item it))%nat by (destruct it as [| | |[]]; simpl; lia). lia.
Qed.

Lemma short_string_denotes_lemma : forall q its rest, (q = 34 \/ q = 39) -> wf_items q its = true ->
  scan_string_token (q :: render_items its ++ q :: rest) = Ok (denote_items its, rest).
Proof.
  intros q its rest Hq Hwf. unfold scan_string_token.
  replace ((q =? 34) || (q =? 39)) with true by (destruct Hq; subst; reflexivity).
  rewrite scan_str_items; [reflexivity|assumption|assumption|].
  rewrite app_length. pose proof (render_items_length its). simpl. lia.
Qed.

Lemma short_string_whole_lemma : forall q its, (q = 34 \/ q = 39) -> wf_items q its = true ->
  lex_string (q :: render_items its ++ [q]) = Some (denote_items its).
Proof. intros. unfold lex_string. now rewrite short_string_denotes_lemma. Qed.

(* ================= long brackets ================= *)

Lemma eq_run_repeat : forall k Y, head_not 61 Y -> eq_run (repeat 61 k ++ Y) = (Z.of_nat k, Y).
Proof.
  induction k as [|k IH]; intros Y HY.
  - cbn [repeat app]. destruct Y as [|c Y]; [reflexivity|]. simpl in HY. simpl.
    destruct (c =? 61) eqn:E; [zb; contradiction|reflexivity].
  - cbn [repeat app eq_run]. rewrite Z.eqb_refl. rewrite IH by assumption. f_equal. lia.
Qed.

(* countSep on a run of k '=' followed by Y (which does not start with '=') *)
Lemma count_sep_run : forall k Y, head_not 61 Y ->
  let '(c1, s1) := next (repeat 61 k ++ Y) in
  count_sep c1 s1 = (Z.of_nat k, fst (next Y), snd (next Y)).
Proof.
  intros k Y HY. destruct k as [|k].
  - cbn [repeat app]. destruct (next Y) as [c1 s1] eqn:EN. unfold count_sep.
    assert (c1 <> 61).
    { destruct Y as [|c Y]; [inversion EN; lia|]. simpl in HY. unfold next in EN.
      destruct (c =? 10); [inversion EN; lia|]. destruct (c =? 13); [inversion EN; lia|].
      inversion EN; subst; assumption. }
    replace (c1 =? 61) with false by lia. reflexivity.
  - cbn [repeat app]. rewrite next_raw by lia. unfold count_sep. rewrite Z.eqb_refl.
    rewrite eq_run_repeat by assumption. destruct (next Y) as [c s]. cbn [fst snd]. f_equal. f_equal. lia.
Qed.

Lemma normalise_nl_plain : forall c r, c <> 10 -> c <> 13 -> normalise_nl (c :: r) = c :: normalise_nl r.
Proof.
  intros c r H1 H2. cbn [normalise_nl].
  replace (c =? 10) with false by lia. replace (c =? 13) with false by lia. reflexivity.
Qed.

Lemma normalise_nl_run : forall k r, normalise_nl (repeat 61 k ++ r) = repeat 61 k ++ normalise_nl r.
Proof.
  induction k as [|k IH]; intros r; [reflexivity|]. cbn [repeat app].
  rewrite normalise_nl_plain by lia. now rewrite IH.
Qed.

Lemma no_closer_aux_app : forall cl a b, no_closer_aux cl (a ++ b) = true -> no_closer_aux cl b = true.
Proof.
  induction a as [|x a IH]; intros b H; [exact H|]. cbn [app no_closer_aux] in H. zb. now apply IH.
Qed.

(* split off the maximal run of '=' *)
Lemma split_eq_run : forall b, exists k b2, b = repeat 61 k ++ b2 /\ head_not 61 b2.
Proof.
  induction b as [|c b IH].
  - exists O, []. split; [reflexivity|exact I].
  - destruct (Z.eq_dec c 61) as [->|Hc].
    + destruct IH as (k & b2 & -> & H). exists (S k), b2. split; [reflexivity|assumption].
    + exists O, (c :: b). split; [reflexivity|exact Hc].
Qed.

Lemma is_prefix_b_app : forall p s, is_prefix_b p (p ++ s) = true.
Proof. induction p as [|x p IH]; intros s; [reflexivity|]. simpl. rewrite Z.eqb_refl. apply IH. Qed.

Lemma head_not_app : forall x a b, a <> [] -> head_not x a -> head_not x (a ++ b).
Proof. intros x [|c a] b Hne H; [contradiction|exact H]. Qed.

Lemma next_fst_raw : forall Y, fst (next Y) = 93 -> exists Y', Y = 93 :: Y'.
Proof.
  intros [|y Y] H.
  - simpl in H. lia.
  - unfold next in *. destruct (y =? 10) eqn:E1; [simpl in H; lia|].
    destruct (y =? 13) eqn:E2; [simpl in H; lia|]. simpl in H. subst. exists Y. reflexivity.
Qed.

Section LongLoop.
  Variable lvl : nat.
  Variable rest : bytes.
  Let cl := long_close lvl.

  Lemma close_head : forall x, x <> 93 -> head_not x (cl ++ rest).
  Proof. intros x Hx. unfold cl, long_close. simpl. lia. Qed.

  (* scanning the closing bracket itself *)
  Lemma loop_close : forall f acc,
    long_loop (S f) (Z.of_nat lvl) 93 (repeat 61 lvl ++ 93 :: rest) acc = Ok (acc, rest).
  Proof.
    intros f acc. cbn [long_loop]. replace (93 <? 0) with false by reflexivity.
    replace (93 =? 93) with true by reflexivity.
    pose proof (count_sep_run lvl (93 :: rest)) as H. simpl head_not in H.
    destruct (next (repeat 61 lvl ++ 93 :: rest)) as [c1 s1]. rewrite H by lia.
    rewrite next_raw by lia. cbn [fst snd]. rewrite Z.eqb_refl. reflexivity.
  Qed.

  Lemma long_loop_body : forall n body fuel acc,
    (length body <= n)%nat -> is_bytes body = true -> no_closer_aux cl body = true ->
    (length (body ++ cl ++ rest) < fuel)%nat ->
    let '(ch, s) := next (body ++ cl ++ rest) in
    long_loop fuel (Z.of_nat lvl) ch s acc = Ok (acc ++ normalise_nl body, rest).
  Proof.
    induction n as [|n IH]; intros body fuel acc Hn Hb Hnc Hf.
    - destruct body; [|simpl in Hn; lia]. cbn [app]. unfold cl, long_close. cbn [app].
      rewrite next_raw by lia. destruct fuel as [|f]; [simpl in Hf; lia|].
      rewrite <- app_assoc. cbn [app]. rewrite loop_close. now rewrite app_nil_r.
    - destruct body as [|c b].
      { cbn [app]. unfold cl, long_close. cbn [app].
        rewrite next_raw by lia. destruct fuel as [|f]; [simpl in Hf; lia|].
        rewrite <- app_assoc. cbn [app]. rewrite loop_close. now rewrite app_nil_r. }
      destruct fuel as [|f]; [simpl in Hf; lia|].
      cbn [is_bytes forallb] in Hb. apply andb_true_iff in Hb as [Hc Hbb]. unfold is_byte in Hc.
      cbn [no_closer_aux] in Hnc. apply andb_true_iff in Hnc as [Hnp Hncb].
      assert (Hlen : (length b <= n)%nat) by (simpl in Hn; lia).
      destruct (Z.eq_dec c 93) as [->|H93].
      + (* a closing-bracket candidate inside the body *)
        destruct (split_eq_run b) as (k & b2 & -> & Hb2).
        cbn [app]. rewrite next_raw by lia. cbn [long_loop].
        replace (93 <? 0) with false by reflexivity. replace (93 =? 93) with true by reflexivity.
        rewrite <- app_assoc.
        assert (HY : head_not 61 (b2 ++ cl ++ rest)).
        { destruct b2 as [|y b2]; [apply close_head; lia|exact Hb2]. }
        pose proof (count_sep_run k (b2 ++ cl ++ rest) HY) as Hcs.
        destruct (next (repeat 61 k ++ b2 ++ cl ++ rest)) as [c1 s1]. rewrite Hcs.
        destruct ((Z.of_nat k =? Z.of_nat lvl) && (fst (next (b2 ++ cl ++ rest)) =? 93)) eqn:Ecl.
        * (* it would be the closer: excluded by no_closer *)
          exfalso. zb. assert (k = lvl) by lia. subst k.
          destruct (next_fst_raw _ H0) as (Y' & HY').
          assert (is_prefix_b cl ((93 :: repeat 61 lvl ++ b2) ++ cl) = true).
          { cbn [app]. rewrite <- app_assoc.
            assert (exists Z', b2 ++ cl = 93 :: Z') as [Z' HZ].
            { destruct b2 as [|y b2].
              - unfold cl, long_close. simpl. eauto.
              - simpl in HY'. inversion HY'; subst. simpl. eauto. }
            rewrite HZ. unfold cl, long_close.
            replace (93 :: repeat 61 lvl ++ 93 :: Z') with ((93 :: repeat 61 lvl ++ [93]) ++ Z')
              by (cbn [app]; rewrite <- app_assoc; reflexivity).
            apply is_prefix_b_app. }
          rewrite H3 in Hnp. discriminate.
        * (* not the closer: the characters are kept and scanning goes on after them *)
          assert (Hlen2 : (length b2 <= n)%nat) by (rewrite app_length in Hlen; lia).
          assert (Hb2b : is_bytes b2 = true).
          { unfold is_bytes in *. rewrite forallb_app in Hbb. now apply andb_true_iff in Hbb as [_ ?]. }
          assert (Hnc2 : no_closer_aux cl b2 = true) by (eapply no_closer_aux_app; eassumption).
          assert (Hf2 : (length (b2 ++ cl ++ rest) < f)%nat).
          { cbn [app length] in Hf. rewrite <- app_assoc, app_length in Hf. lia. }
          specialize (IH b2 f (acc ++ 93 :: repeat 61 (Z.to_nat (Z.of_nat k))) Hlen2 Hb2b Hnc2 Hf2).
          destruct (next (b2 ++ cl ++ rest)) as [c2 s2]. cbn [fst snd]. rewrite IH.
          rewrite Nat2Z.id. rewrite normalise_nl_plain by lia. rewrite normalise_nl_run.
          rewrite <- app_assoc. reflexivity.
      + destruct (Z.eq_dec c 10) as [->|H10]; [|destruct (Z.eq_dec c 13) as [->|H13]].
        * (* LF, possibly followed by CR *)
          cbn [app]. unfold next at 1. cbn [Z.eqb Pos.eqb].
          destruct b as [|c2 b2].
          { cbn [app]. unfold cl at 1, long_close at 1. cbn [app]. replace (93 =? 13) with false by reflexivity.
            cbn [long_loop]. replace (10 <? 0) with false by reflexivity. replace (10 =? 93) with false by reflexivity.
            assert (Hf2 : (length ([] ++ cl ++ rest) < f)%nat) by (cbn [app length] in *; lia).
            specialize (IH [] f (acc ++ [10]) ltac:(simpl; lia) eq_refl eq_refl Hf2).
            cbn [app] in IH.
            destruct (next (cl ++ rest)) as [c1 s1]. rewrite IH.
            cbn [normalise_nl]. now rewrite <- app_assoc. }
          cbn [app]. destruct (c2 =? 13) eqn:E13.
          -- cbn [long_loop]. replace (10 <? 0) with false by reflexivity. replace (10 =? 93) with false by reflexivity.
             assert (Hb2b : is_bytes b2 = true) by (cbn [is_bytes forallb] in Hbb; now apply andb_true_iff in Hbb as [_ ?]).
             assert (Hnc2 : no_closer_aux cl b2 = true) by (cbn [no_closer_aux] in Hncb; now apply andb_true_iff in Hncb as [_ ?]).
             assert (Hf2 : (length (b2 ++ cl ++ rest) < f)%nat) by (cbn [app length] in Hf; lia).
             specialize (IH b2 f (acc ++ [10]) ltac:(simpl in Hlen; lia) Hb2b Hnc2 Hf2).
             destruct (next (b2 ++ cl ++ rest)) as [c1 s1]. rewrite IH.
             cbn [normalise_nl]. cbn [Z.eqb Pos.eqb]. rewrite E13. now rewrite <- app_assoc.
          -- cbn [long_loop]. replace (10 <? 0) with false by reflexivity. replace (10 =? 93) with false by reflexivity.
             assert (Hf2 : (length ((c2 :: b2) ++ cl ++ rest) < f)%nat) by (cbn [app length] in *; lia).
             specialize (IH (c2 :: b2) f (acc ++ [10]) Hlen Hbb Hncb Hf2). cbn [app] in IH.
             destruct (next (c2 :: b2 ++ cl ++ rest)) as [c1 s1]. rewrite IH.
             cbn [normalise_nl]. cbn [Z.eqb Pos.eqb]. rewrite E13. now rewrite <- app_assoc.
        * (* CR, possibly followed by LF *)
          cbn [app]. unfold next at 1. cbn [Z.eqb Pos.eqb].
          destruct b as [|c2 b2].
          { cbn [app]. unfold cl at 1, long_close at 1. cbn [app]. replace (93 =? 10) with false by reflexivity.
            cbn [long_loop]. replace (10 <? 0) with false by reflexivity. replace (10 =? 93) with false by reflexivity.
            assert (Hf2 : (length ([] ++ cl ++ rest) < f)%nat) by (cbn [app length] in *; lia).
            specialize (IH [] f (acc ++ [10]) ltac:(simpl; lia) eq_refl eq_refl Hf2).
            cbn [app] in IH.
            destruct (next (cl ++ rest)) as [c1 s1]. rewrite IH.
            cbn [normalise_nl]. now rewrite <- app_assoc. }
          cbn [app]. destruct (c2 =? 10) eqn:E10.
          -- cbn [long_loop]. replace (10 <? 0) with false by reflexivity. replace (10 =? 93) with false by reflexivity.
             assert (Hb2b : is_bytes b2 = true) by (cbn [is_bytes forallb] in Hbb; now apply andb_true_iff in Hbb as [_ ?]).
             assert (Hnc2 : no_closer_aux cl b2 = true) by (cbn [no_closer_aux] in Hncb; now apply andb_true_iff in Hncb as [_ ?]).
             assert (Hf2 : (length (b2 ++ cl ++ rest) < f)%nat) by (cbn [app length] in Hf; lia).
             specialize (IH b2 f (acc ++ [10]) ltac:(simpl in Hlen; lia) Hb2b Hnc2 Hf2).
             destruct (next (b2 ++ cl ++ rest)) as [c1 s1]. rewrite IH.
             cbn [normalise_nl]. cbn [Z.eqb Pos.eqb]. rewrite E10. now rewrite <- app_assoc.
          -- cbn [long_loop]. replace (10 <? 0) with false by reflexivity. replace (10 =? 93) with false by reflexivity.
             assert (Hf2 : (length ((c2 :: b2) ++ cl ++ rest) < f)%nat) by (cbn [app length] in *; lia).
             specialize (IH (c2 :: b2) f (acc ++ [10]) Hlen Hbb Hncb Hf2). cbn [app] in IH.
             destruct (next (c2 :: b2 ++ cl ++ rest)) as [c1 s1]. rewrite IH.
             cbn [normalise_nl]. cbn [Z.eqb Pos.eqb]. rewrite E10. now rewrite <- app_assoc.
        * (* any other byte is copied *)
          cbn [app]. rewrite next_raw by assumption. cbn [long_loop].
          replace (c <? 0) with false by lia. replace (c =? 93) with false by lia.
          assert (Hf2 : (length (b ++ cl ++ rest) < f)%nat) by (cbn [app length] in Hf; lia).
          specialize (IH b f (acc ++ [c]) Hlen Hbb Hncb Hf2).
          destruct (next (b ++ cl ++ rest)) as [c1 s1]. rewrite IH.
          rewrite normalise_nl_plain by assumption. now rewrite <- app_assoc.
  Qed.
End LongLoop.

Lemma next_length : forall Y, (length Y <= length (snd (next Y)) + 2)%nat.
Proof.
  intros [|c Y]; [simpl; lia|]. unfold next. destruct (c =? 10).
  - cbn [snd]. destruct Y as [|c2 Y']; [simpl; lia|]. destruct (c2 =? 13); simpl; lia.
  - destruct (c =? 13).
    + cbn [snd]. destruct Y as [|c2 Y']; [simpl; lia|]. destruct (c2 =? 10); simpl; lia.
    + simpl; lia.
Qed.

(* the optional line break right after the opening bracket *)
Lemma skip_first_next : forall body X, is_bytes body = true -> head_not 10 X -> head_not 13 X ->
  (let '(ch1, s2) := next (body ++ X) in if ch1 =? 10 then next s2 else (ch1, s2)) =
  next (skip_first_nl body ++ X).
Proof.
  intros body X Hb H10 H13. destruct body as [|c b].
  - cbn [app skip_first_nl]. destruct X as [|x X]; [reflexivity|]. simpl in H10, H13.
    rewrite next_raw by assumption. replace (x =? 10) with false by lia. reflexivity.
  - cbn [is_bytes forallb] in Hb. apply andb_true_iff in Hb as [Hc Hbb]. unfold is_byte in Hc.
    cbn [app skip_first_nl]. unfold next at 1.
    destruct (c =? 10) eqn:E10.
    + destruct b as [|c2 b2]; cbn [app].
      * destruct X as [|x X]; [reflexivity|]. simpl in H13. replace (x =? 13) with false by lia. reflexivity.
      * destruct (c2 =? 13); reflexivity.
    + destruct (c =? 13) eqn:E13.
      * destruct b as [|c2 b2]; cbn [app].
        -- destruct X as [|x X]; [reflexivity|]. simpl in H10. replace (x =? 10) with false by lia. reflexivity.
        -- destruct (c2 =? 10); reflexivity.
      * cbn [app]. rewrite next_raw by lia. destruct (c =? 10) eqn:E; [lia|reflexivity].
Qed.

Lemma skip_first_suffix : forall body, exists pre, body = pre ++ skip_first_nl body.
Proof.
  intros [|c b]; [exists []; reflexivity|]. cbn [skip_first_nl].
  destruct (c =? 10).
  - destruct b as [|c2 b2]; [exists [c]; reflexivity|].
    destruct (c2 =? 13); [exists [c; c2]|exists [c]]; reflexivity.
  - destruct (c =? 13).
    + destruct b as [|c2 b2]; [exists [c]; reflexivity|].
      destruct (c2 =? 10); [exists [c; c2]|exists [c]]; reflexivity.
    + exists []; reflexivity.
Qed.

Lemma long_bracket_denotes_lemma : forall lvl body rest,
  is_bytes body = true -> no_closer lvl body = true ->
  scan_string_token (long_open lvl ++ body ++ long_close lvl ++ rest) = Ok (long_denotes body, rest).
Proof.
  intros lvl body rest Hb Hnc. unfold long_open. cbn [app]. unfold scan_string_token.
  replace ((91 =? 34) || (91 =? 39)) with false by reflexivity.
  replace (91 =? 91) with true by reflexivity.
  rewrite <- app_assoc. cbn [app].
  set (T := body ++ long_close lvl ++ rest).
  assert (Hpeek : (peek (repeat 61 lvl ++ 91 :: T) =? 91) || (peek (repeat 61 lvl ++ 91 :: T) =? 61) = true).
  { destruct lvl; reflexivity. }
  rewrite Hpeek. unfold scan_long.
  pose proof (count_sep_run lvl (91 :: T)) as Hcs. simpl head_not in Hcs.
  destruct (next (repeat 61 lvl ++ 91 :: T)) as [c0 s0]. rewrite Hcs by lia.
  rewrite next_raw by lia. cbn [fst snd]. replace (negb (91 =? 91)) with false by reflexivity.
  subst T.
  pose proof (skip_first_next body (long_close lvl ++ rest) Hb) as Hsk.
  destruct (next (body ++ long_close lvl ++ rest)) as [ch1 s2].
  rewrite Hsk by (unfold long_close; simpl; lia).
  destruct (skip_first_suffix body) as [pre Hpre].
  assert (Hb' : is_bytes (skip_first_nl body) = true).
  { unfold is_bytes in *. rewrite Hpre, forallb_app in Hb. now apply andb_true_iff in Hb as [_ ?]. }
  assert (Hnc' : no_closer_aux (long_close lvl) (skip_first_nl body) = true).
  { unfold no_closer in Hnc. rewrite Hpre in Hnc. eapply no_closer_aux_app; eassumption. }
  pose proof (next_length (skip_first_nl body ++ long_close lvl ++ rest)) as Hlen.
  pose proof (long_loop_body lvl rest (length (skip_first_nl body)) (skip_first_nl body)
               (S (S (S (length (snd (next (skip_first_nl body ++ long_close lvl ++ rest)))))))
               [] (le_n _) Hb' Hnc' ltac:(lia)) as HL.
  destruct (next (skip_first_nl body ++ long_close lvl ++ rest)) as [ch2 s3].
  cbn [snd] in HL. rewrite HL. reflexivity.
Qed.

Lemma long_bracket_whole_lemma : forall lvl body, is_bytes body = true -> no_closer lvl body = true ->
  lex_string (long_open lvl ++ body ++ long_close lvl) = Some (long_denotes body).
Proof.
  intros lvl body Hb Hnc. unfold lex_string.
  rewrite <- (app_nil_r (long_close lvl)). now rewrite long_bracket_denotes_lemma.
Qed.
