(* C16, numbers as text. Impl: transcription of /repo/value.go LNumber.String and /repo/utils.go
   isInteger. A float64 is represented exactly: Fin m e is m * 2^e (canonical: m odd, or m = e = 0;
   the sign of zero is not represented because Lua equality does not see it).
   fmt.Sprint(float64) for a non-integral value is an oracle (a function parameter).
   Also the concrete correctly-rounding reader round_dec used by the case evaluator to play the
   part of strconv.ParseFloat on decimal numerals. No proofs here. *)
From GL Require Import Common.Bytes Text.NumRead.

Inductive fval := Fin (m e : Z) | PInf | NInf | FNaN.

Definition fval_eqb (a b : fval) : bool :=
  match a, b with
  | Fin m e, Fin m' e' => (m =? m') && (e =? e')
  | PInf, PInf | NInf, NInf | FNaN, FNaN => true
  | _, _ => false
  end.

(* ---------- canonical form ---------- *)
Fixpoint pos_tz (p : positive) : Z := match p with xO q => 1 + pos_tz q | _ => 0 end.
Fixpoint pos_odd (p : positive) : positive := match p with xO q => pos_odd q | _ => p end.

Definition canon (m e : Z) : fval :=
  match m with
  | Z0 => Fin 0 0
  | Zpos p => Fin (Zpos (pos_odd p)) (e + pos_tz p)
  | Zneg p => Fin (Zneg (pos_odd p)) (e + pos_tz p)
  end.

Definition is_canon (x : fval) : bool :=
  match x with
  | Fin m e => if m =? 0 then e =? 0 else Z.odd m
  | _ => true
  end.

Definition is_finite (x : fval) : bool := match x with Fin _ _ => true | _ => false end.

(* the integer a finite float equals, if any *)
Definition int_of_fval (x : fval) : option Z :=
  match x with
  | Fin m e => if 0 <=? e then Some (m * 2 ^ e) else None
  | _ => None
  end.

(* isInteger(v) = (float64(v) == float64(int64(v))). Inside the int64 range the conversion
   truncates; outside it (and for NaN, Inf) amd64 yields MinInt64, whose float -2^63 differs from v. *)
Definition is_integer (x : fval) : bool :=
  match int_of_fval x with
  | Some z => (- 2 ^ 63 <=? z) && (z <? 2 ^ 63)
  | None => false
  end.

(* ---------- decimal printing of an int64: fmt.Sprint(int64(nm)) ---------- *)
(* least significant digit first *)
Fixpoint lsd_digits (fuel : nat) (n : Z) : bytes :=
  match fuel with
  | O => []
  | S f => if n <? 10 then [48 + n] else (48 + n mod 10) :: lsd_digits f (n / 10)
  end.

Definition print_nat (n : Z) : bytes := rev (lsd_digits (S (Z.to_nat (Z.log2 n))) n).
Definition print_int (z : Z) : bytes := if z <? 0 then 45 :: print_nat (- z) else print_nat z.

(* LNumber.String *)
Definition lnumber_string (fmt_float : fval -> bytes) (x : fval) : bytes :=
  if is_integer x then
    match int_of_fval x with Some z => print_int z | None => [] end
  else fmt_float x.

(* ---------- the float a reader returns ---------- *)
Definition parse_number (rnd : Z -> Z -> fval) (s : bytes) : option fval :=
  match parse_exact s with Some (m, e) => Some (rnd m e) | None => None end.

Definition tonumber_f (rnd : Z -> Z -> fval) (s : bytes) (ob : option Z) : option fval :=
  match tonumber s ob with Some (m, e) => Some (rnd m e) | None => None end.

Inductive lexnum_f := LFVal (x : fval) | LFNaN | LFReject.
Definition lex_numeral_f (rnd : Z -> Z -> fval) (s : bytes) : lexnum_f :=
  match lex_numeral s with LNVal m e => LFVal (rnd m e) | LNNaN => LFNaN | LNReject => LFReject end.

(* ---------- concrete correct rounding (plays strconv.ParseFloat / int64->float64) ---------- *)
(* p/q > 0: the binary64 nearest to p/q, ties to even *)
Definition round_pos (p q : Z) : fval :=
  let e0 := Z.log2 p - Z.log2 q in
  let ge := if 0 <=? e0 then q * 2 ^ e0 <=? p else q <=? p * 2 ^ (- e0) in
  let e := if ge then e0 else e0 - 1 in              (* 2^e <= p/q < 2^(e+1) *)
  if 1024 <=? e then PInf else
  let s := Z.max (e - 52) (-1074) in                 (* weight of the last kept bit *)
  let num := if s <? 0 then p * 2 ^ (- s) else p in
  let den := if s <? 0 then q else q * 2 ^ s in
  let n := num / den in
  let r := num mod den in
  let n' := if (den <? 2 * r) || ((den =? 2 * r) && Z.odd n) then n + 1 else n in
  if (971 <=? s) && (2 ^ 53 <=? n') then PInf else canon n' s.

Definition fneg (x : fval) : fval :=
  match x with Fin m e => Fin (- m) e | PInf => NInf | NInf => PInf | FNaN => FNaN end.

(* the binary64 nearest to m * 10^e *)
Definition round_dec (m e : Z) : fval :=
  if m =? 0 then Fin 0 0 else
  let a := Z.abs m in
  let r :=
    if 400 <=? e then PInf                                     (* a >= 1 *)
    else if e + Z.log2 a <? -1500 then Fin 0 0                 (* a * 10^e < 2^(log2 a + 1 + e) *)
    else if 0 <=? e then round_pos (a * 10 ^ e) 1
    else round_pos a (10 ^ (- e)) in
  if m <? 0 then fneg r else r.
