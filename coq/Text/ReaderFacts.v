(* C16: the characters the scanner reads do not depend on how the underlying reader delivers the
   bytes (Text/Reader.v against the flat reader of Text/StrLit.v). *)
From GL Require Import Common.Bytes Text.StrLit Text.Reader.

Lemma fill_flat : forall p,
  concat p = fst (fill p) ++ concat (snd (fill p)) /\ (fst (fill p) = [] -> concat p = []).
Proof.
  induction p as [|s p IH]; simpl.
  - split; reflexivity.
  - destruct s as [|c s]; simpl.
    + exact IH.
    + split; [reflexivity|discriminate].
Qed.

Lemma read_byte_nil : forall r, flat r = [] ->
  fst (read_byte r) = -1 /\ flat (snd (read_byte r)) = [].
Proof.
  intros [b p] H. unfold flat in H. simpl in H. unfold read_byte. simpl.
  destruct b as [|c b]; [|discriminate]. simpl in H.
  destruct (fill_flat p) as [Hc Hn]. destruct (fill p) as [s p']. simpl in *.
  destruct s as [|c s]; [split; reflexivity|]. rewrite H in Hc. discriminate.
Qed.

Lemma read_byte_cons : forall r c t, flat r = c :: t ->
  fst (read_byte r) = c /\ flat (snd (read_byte r)) = t.
Proof.
  intros [b p] c t H. unfold flat in H. simpl in H. unfold read_byte. simpl.
  destruct b as [|c0 b]; simpl in H.
  - destruct (fill_flat p) as [Hc Hn]. destruct (fill p) as [s p']. simpl in *.
    destruct s as [|c1 s].
    + rewrite (Hn eq_refl) in H. discriminate.
    + rewrite H in Hc. simpl in Hc. inversion Hc; subst. split; reflexivity.
  - inversion H; subst. split; reflexivity.
Qed.

Lemma peek_rd_flat : forall r, fst (peek_rd r) = peek (flat r) /\ flat (snd (peek_rd r)) = flat r.
Proof.
  intros [b p]. unfold peek_rd, flat. simpl.
  destruct b as [|c b]; simpl.
  - destruct (fill_flat p) as [Hc Hn]. destruct (fill p) as [s p']. simpl in *.
    destruct s as [|c1 s]; simpl.
    + rewrite (Hn eq_refl). split; reflexivity.
    + rewrite Hc. split; reflexivity.
  - split; reflexivity.
Qed.

Lemma next_rd_flat_lemma : forall r, next (flat r) = (fst (next_rd r), flat (snd (next_rd r))).
Proof.
  intros r. unfold next_rd.
  destruct (flat r) as [|c t] eqn:F.
  - destruct (read_byte_nil r F) as [H1 H2]. destruct (read_byte r) as [ch r1]. simpl in *. subst ch.
    simpl. rewrite H2. reflexivity.
  - destruct (read_byte_cons r c t F) as [H1 H2]. destruct (read_byte r) as [ch r1]. simpl in *. subst ch.
    destruct (peek_rd_flat r1) as [P1 P2]. destruct (peek_rd r1) as [nx r2]. simpl in *.
    rewrite H2 in P1, P2. unfold next.
    assert (R2 : forall c2 t', t = c2 :: t' -> flat (snd (read_byte r2)) = t').
    { intros c2 t' Ht. rewrite Ht in P2. exact (proj2 (read_byte_cons r2 c2 t' P2)). }
    destruct (c =? 10) eqn:E10; destruct (c =? 13) eqn:E13; cbn [orb andb].
    1: (exfalso; apply Z.eqb_eq in E10; apply Z.eqb_eq in E13; lia).
    all: destruct t as [|c2 t']; cbn [peek] in P1; subst nx.
    all: change (-1 =? 13) with false; change (-1 =? 10) with false; cbn [orb andb fst snd].
    all: try (rewrite ?H2, ?P2; reflexivity).
    all: destruct (c2 =? 13) eqn:F13; destruct (c2 =? 10) eqn:F10; cbn [orb andb fst snd];
      rewrite ?(R2 c2 t' eq_refl), ?P2; reflexivity.
Qed.

Lemma chars_rd_flat_lemma : forall n r, chars_rd n r = chars n (flat r).
Proof.
  induction n as [|n IH]; intros r; simpl; [reflexivity|].
  rewrite (next_rd_flat_lemma r). destruct (next_rd r) as [c r']. simpl. rewrite IH. reflexivity.
Qed.

(* two deliveries of the same bytes are read as the same characters *)
Lemma delivery_independent_lemma : forall segs1 segs2, concat segs1 = concat segs2 ->
  forall n, chars_rd n (mkRd [] segs1) = chars_rd n (mkRd [] segs2).
Proof.
  intros s1 s2 H n. rewrite !chars_rd_flat_lemma. unfold flat. simpl. rewrite H. reflexivity.
Qed.
