(* C16, numerals. Impl: transcription of /repo/utils.go numeralKind + parseNumber,
   /repo/baselib.go baseToNumber (with strconv.ParseInt for an explicit base),
   /repo/parse/lexer.go scanNumber + isNumeral, and of the use compile.go makes of the token text.
   Spec: the numeral grammar of Lua 5.1 (manual 2.1; lobject.c luaO_str2d; lbaselib.c tonumber) as
   inductive predicates. No proofs here.

   Values are exact: (m, e) stands for m * 10^e. What strconv.ParseFloat returns for a string of
   the decimal grammar is the binary64 nearest to that value (oracle; see NumText.v / RoundDec.v).

   numeralKind (package lua) and isNumeral (package parse) are two Go functions with the same body;
   both are represented by numeral_kind: each reader is compared with the code separately, so a
   divergence of either shows as a disagreement of that reader's cases. *)
From GL Require Import Common.Bytes.

(* ---------- character classes ---------- *)
Definition is_digit (c : Z) : bool := (48 <=? c) && (c <=? 57).
Definition is_hex (c : Z) : bool :=
  is_digit c || ((97 <=? c) && (c <=? 102)) || ((65 <=? c) && (c <=? 70)).
(* C isspace = the cutset luaSpace " \t\n\v\f\r" *)
Definition is_space (c : Z) : bool := ((9 <=? c) && (c <=? 13)) || (c =? 32).
(* parse.isIdent(ch, 1): letter, digit or underscore *)
Definition is_ident1 (c : Z) : bool :=
  (c =? 95) || ((65 <=? c) && (c <=? 90)) || ((97 <=? c) && (c <=? 122)) || is_digit c.
Definition is_e (c : Z) : bool := (c =? 101) || (c =? 69).
Definition is_x (c : Z) : bool := (c =? 120) || (c =? 88).
Definition is_pm (c : Z) : bool := (c =? 43) || (c =? 45).

(* the longest prefix whose bytes satisfy p, and the rest: `for ; i < len(s) && p(s[i]); i++` *)
Fixpoint span (p : Z -> bool) (s : bytes) : bytes * bytes :=
  match s with
  | c :: r => if p c then let '(a, b) := span p r in (c :: a, b) else ([], s)
  | [] => ([], [])
  end.

Fixpoint dropwhile (p : Z -> bool) (s : bytes) : bytes :=
  match s with c :: r => if p c then dropwhile p r else s | [] => [] end.

(* strings.Trim(s, luaSpace) *)
Definition trim_space (s : bytes) : bytes := rev (dropwhile is_space (rev (dropwhile is_space s))).

(* ---------- decimal / hexadecimal notation ---------- *)
Fixpoint digits_val_acc (ds : bytes) (acc : Z) : Z :=
  match ds with [] => acc | d :: r => digits_val_acc r (acc * 10 + (d - 48)) end.
Definition digits_val (ds : bytes) : Z := digits_val_acc ds 0.

Definition hex_digit_val (c : Z) : Z :=
  if is_digit c then c - 48 else if 97 <=? c then c - 87 else c - 55.
Fixpoint hex_val_acc (hs : bytes) (acc : Z) : Z :=
  match hs with [] => acc | h :: r => hex_val_acc r (acc * 16 + hex_digit_val h) end.
Definition hex_val (hs : bytes) : Z := hex_val_acc hs 0.

(* ---------- impl: numeralKind / isNumeral ---------- *)
Inductive kind := KNone | KDec | KHex.

(* integer digits, fraction digits (after an optional '.'), had a dot, rest *)
Definition dec_split (s : bytes) : bytes * bytes * bytes :=
  let '(ip, r1) := span is_digit s in
  match r1 with
  | c :: r => if c =? 46 then let '(fp, r2) := span is_digit r in (ip, fp, r2) else (ip, [], r1)
  | [] => (ip, [], r1)
  end.

(* after the mantissa: None = malformed, Some e = (absent or well-formed) exponent value *)
Definition exp_split (r2 : bytes) : option Z :=
  match r2 with
  | [] => Some 0
  | c :: r =>
    if is_e c then
      let '(k, r3) := match r with
                      | c2 :: r' => if c2 =? 43 then (1, r') else if c2 =? 45 then (-1, r') else (1, r)
                      | [] => (1, r)
                      end in
      let '(ex, r4) := span is_digit r3 in
      match ex, r4 with
      | _ :: _, [] => Some (k * digits_val ex)
      | _, _ => None
      end
    else None
  end.

Definition dec_kind (s : bytes) : kind :=
  let '(ip, fp, r2) := dec_split s in
  if (len ip + len fp =? 0) then KNone else
  match exp_split r2 with Some _ => KDec | None => KNone end.

Definition numeral_kind (s : bytes) : kind :=
  match s with
  | c0 :: c1 :: ((_ :: _) as hs) =>
    if (c0 =? 48) && is_x c1 then (if forallb is_hex hs then KHex else KNone) else dec_kind s
  | _ => dec_kind s
  end.

(* the number a decimal numeral denotes: all mantissa digits as an integer, exponent minus the
   number of fraction digits *)
Definition dec_exact (s : bytes) : Z * Z :=
  let '(ip, fp, r2) := dec_split s in
  (digits_val (ip ++ fp), match exp_split r2 with Some e => e | None => 0 end - len fp).

(* ---------- impl: parseNumber, exact level ---------- *)
Definition strip_sign (t : bytes) : Z * bytes :=
  match t with
  | c :: r => if c =? 45 then (-1, r) else if c =? 43 then (1, r) else (1, t)
  | [] => (1, t)
  end.

Definition parse_exact (s : bytes) : option (Z * Z) :=
  let t := trim_space s in
  let '(k, u) := strip_sign t in
  match numeral_kind u with
  | KDec => let '(m, e) := dec_exact u in Some (k * m, e)     (* ParseFloat(t) *)
  | KHex => Some (k * hex_val (skipn 2 u), 0)                 (* ParseFloat(t + p0) *)
  | KNone => None
  end.

(* arithmetic coercion of a string (vm.go, LVAsNumber, ...) is parseNumber itself *)
Definition coerce (s : bytes) : option (Z * Z) := parse_exact s.

(* ---------- impl: the digits of an integer in base 2..36 ---------- *)
Definition radix_digit (c : Z) : option Z :=
  if is_digit c then Some (c - 48)
  else if (97 <=? c) && (c <=? 122) then Some (c - 87)
  else if (65 <=? c) && (c <=? 90) then Some (c - 55)
  else None.

Fixpoint radix_val (b : Z) (s : bytes) (acc : Z) : option Z :=
  match s with
  | [] => Some acc
  | c :: r => match radix_digit c with
              | Some d => if d <? b then radix_val b r (acc * b + d) else None
              | None => None
              end
  end.

(* parseRadix (baselib.go): optional sign; for base 16 an optional 0x/0X when something follows it;
   then at least one character, not a sign; strconv.ParseUint / big.Int.SetString read the digits
   (no prefix, no underscore for an explicit base); the integer is exact, of any size *)
Definition parse_radix (s : bytes) (b : Z) : option Z :=
  let '(k, u) := strip_sign s in
  let u' := match u with
            | c0 :: c1 :: ((_ :: _) as r) => if (b =? 16) && (c0 =? 48) && is_x c1 then r else u
            | _ => u
            end in
  match u' with
  | [] => None
  | c :: _ => if is_pm c then None else
              match radix_val b u' 0 with Some n => Some (k * n) | None => None end
  end.

(* L.ArgError(2, "base out of range") unless this holds *)
Definition base_ok (b : Z) : bool := (2 <=? b) && (b <=? 36).

(* ---------- impl: baseToNumber on a string argument, for a base that passed base_ok ---------- *)
Definition tonumber (s : bytes) (ob : option Z) : option (Z * Z) :=
  let base := match ob with Some b => b | None => 10 end in
  if base =? 10 then parse_exact s
  else match parse_radix (trim_space s) base with Some z => Some (z, 0) | None => None end.

(* ---------- impl: scanNumber ---------- *)
(* ch is the first character (a digit, or '.' when a digit follows), s what follows it.
   None = malformed number; Some (token text, rest) *)
Definition scan_number (ch : Z) (s : bytes) : option (bytes * bytes) :=
  let '(a, r1) := span (fun c => is_digit c || (c =? 46)) s in
  let '(b, r2) := match r1 with
                  | c :: r => if is_e c then
                                match r with
                                | c2 :: r' => if is_pm c2 then ([c; c2], r') else ([c], r)
                                | [] => ([c], r)
                                end
                              else ([], r1)
                  | [] => ([], r1)
                  end in
  let '(c, r3) := span is_ident1 r2 in
  let text := ch :: a ++ b ++ c in
  match numeral_kind text with KNone => None | _ => Some (text, r3) end.

Inductive lexnum := LNVal (m e : Z) | LNNaN | LNReject.

(* the chunk `return <s>`, as far as it is decided by s being one number token: Scan enters
   scanNumber on a digit, or on '.' followed by a digit; compile.go evaluates the token text with
   parseNumber and would use NaN if that failed *)
Definition lex_numeral (s : bytes) : lexnum :=
  match s with
  | c :: r =>
    if is_digit c || ((c =? 46) && is_digit (match r with c2 :: _ => c2 | [] => -1 end)) then
      match scan_number c r with
      | Some (text, []) => match parse_exact text with Some (m, e) => LNVal m e | None => LNNaN end
      | _ => LNReject
      end
    else LNReject
  | [] => LNReject
  end.

(* ---------- spec: the grammar ---------- *)
Definition all_digits (ds : bytes) : Prop := forallb is_digit ds = true.
Definition all_hex (ds : bytes) : Prop := forallb is_hex ds = true.
Definition blanks (l : bytes) : Prop := forallb is_space l = true.

Inductive SignOpt : bytes -> Z -> Prop :=
| SgNone : SignOpt [] 1
| SgPlus : SignOpt [43] 1
| SgMinus : SignOpt [45] (-1).

Inductive Exponent : bytes -> Z -> Prop :=
| ExNone : Exponent [] 0
| ExSome : forall c sg k ds, is_e c = true -> SignOpt sg k -> all_digits ds -> ds <> [] ->
           Exponent (c :: sg ++ ds) (k * digits_val ds).

(* DecNumeral text m e : text denotes m * 10^e *)
Inductive DecNumeral : bytes -> Z -> Z -> Prop :=
| DecInt : forall ip ex e, all_digits ip -> ip <> [] -> Exponent ex e ->
           DecNumeral (ip ++ ex) (digits_val ip) e
| DecFrac : forall ip fp ex e, all_digits ip -> all_digits fp -> ip ++ fp <> [] -> Exponent ex e ->
            DecNumeral (ip ++ 46 :: fp ++ ex) (digits_val (ip ++ fp)) (e - len fp).

Inductive HexNumeral : bytes -> Z -> Prop :=
| HexN : forall x hs, is_x x = true -> all_hex hs -> hs <> [] -> HexNumeral (48 :: x :: hs) (hex_val hs).

(* an unsigned numeral as it may appear in source text *)
Inductive Unsigned : bytes -> Z -> Z -> Prop :=
| UDec : forall u m e, DecNumeral u m e -> Unsigned u m e
| UHex : forall u m, HexNumeral u m -> Unsigned u m 0.

(* a numeral as tonumber and arithmetic accept it: blanks, optional sign, unsigned numeral, blanks *)
Inductive Numeral : bytes -> Z -> Z -> Prop :=
| Num : forall l sg k u m e t, blanks l -> blanks t -> SignOpt sg k -> Unsigned u m e ->
        Numeral (l ++ sg ++ u ++ t) (k * m) e.

(* an integer written in base b: blanks, optional sign, (base 16: optional 0x), digits below b, blanks *)
Definition radix_digits (b : Z) (ds : bytes) : Prop :=
  forallb (fun c => match radix_digit c with Some d => d <? b | None => false end) ds = true.
Fixpoint radix_value (b : Z) (ds : bytes) (acc : Z) : Z :=
  match ds with
  | [] => acc
  | c :: r => radix_value b r (acc * b + match radix_digit c with Some d => d | None => 0 end)
  end.
(* for base 16 the digits may be preceded by 0x or 0X (C's strtoul) *)
Inductive RadixPrefix (b : Z) : bytes -> Prop :=
| RPNone : RadixPrefix b []
| RPHex : forall x, b = 16 -> is_x x = true -> RadixPrefix b [48; x].
Inductive RadixNumeral (b : Z) : bytes -> Z -> Prop :=
| Radix : forall l sg k px ds t, blanks l -> blanks t -> SignOpt sg k -> RadixPrefix b px ->
          radix_digits b ds -> ds <> [] ->
          RadixNumeral b (l ++ sg ++ px ++ ds ++ t) (k * radix_value b ds 0).
