(* M-VM: OP_FORPREP and OP_FORLOOP of VMX/Step.v are two cooperating sites. FORPREP reads the three
   operands with tonumber semantics (a number, or a string that is a numeral) and STORES the
   converted limit and step back; FORLOOP type-asserts the three cells as numbers on every
   iteration. The facts below say that the producer establishes what the consumer relies on, for
   arbitrary machine states: after a FORPREP that returned, all three cells hold numbers - the ones
   the operands denote -, a FORLOOP that finds numbers never raises, and while it continues it
   leaves numbers in the three cells and a number in the visible loop variable. *)
From Coq Require Import Floats Lia ZifyBool.
From GL Require Import Common.Bytes Lua.Syntax Lua.Num Lua.Values Lua.Names Lua.Eval.
From GL Require Import VMX.Machine VMX.Step VMX.Spec VMX.RegFacts VMX.FrameFacts.

Lemma reg_get_ret : forall i v s s', reg_get i s = VRet v s' -> s' = s /\ Get (vreg s) i = Some v.
Proof.
  intros i v s s' H. unfold reg_get in H. destruct (Get (vreg s) i) eqn:E; inversion H. subst. auto.
Qed.

(* forOperand answers with the number [tonum] of the reference semantics finds *)
Lemma forOperand_ret : forall v o s s', forOperand v s = VRet o s' ->
  s' = s /\ match o with Some f => tonum v = CNum f | None => tonum v = CNo end.
Proof.
  intros v o s s' H. destruct v; cbn [forOperand] in H;
    try (unfold vret in H; inversion H; subst; split; reflexivity).
  all: try discriminate.
  all: unfold parseNumber in H; cbn [tonum]; destruct (text_to_f _); cbn in H; inversion H; subst; split; reflexivity.
Qed.

Lemma reg_set_ret : forall i v u s s', reg_set i v s = VRet u s' -> s' = with_reg s (Set_ (vreg s) i v).
Proof. intros i v u s s' H. inversion H. reflexivity. Qed.

Lemma Get_Set : forall r i v x, 0 <= i -> Get (Set_ r i v) x = if x =? i then Some v else Get r x.
Proof. intros. unfold Get. apply Set_rd. assumption. Qed.

Lemma add_pc_ret : forall d u s s', add_pc d s = VRet u s' -> vreg s' = vreg s.
Proof.
  intros d u s s' H. unfold add_pc in H. bind_inv H cf s1 Hcf.
  unfold cur_frame in Hcf. destruct (vstack s); inversion Hcf; subst.
  unfold set_cur_frame in H. destruct (vstack s1); inversion H. destruct s1; reflexivity.
Qed.

Lemma vreg_with_reg : forall s r, vreg (with_reg s r) = r.
Proof. intros s r. destruct s; reflexivity. Qed.

(* raising never returns *)
Lemma fault_no_ret : forall A k s (a : A) s', fault_ k s = VRet a s' -> False.
Proof.
  intros A k s a s' H. unfold fault_ in H. bind_inv H w sw Hw.
  destruct w; discriminate.
Qed.

(* the producer *)
Theorem forprep_normalises_lemma : forall ml gf cl cf inst base s b s',
  op_of_code (opGetOpCode inst) = Some OP_FORPREP ->
  0 <= fr_localbase cf + opGetArgA inst ->
  exec_op ml gf cl cf inst base s = VRet b s' ->
  let RA := fr_localbase cf + opGetArgA inst in
  exists v0 v1 v2 init limit step,
    Get (vreg s) RA = Some v0 /\ Get (vreg s) (RA + 1) = Some v1 /\ Get (vreg s) (RA + 2) = Some v2 /\
    tonum v0 = CNum init /\ tonum v1 = CNum limit /\ tonum v2 = CNum step /\
    Get (vreg s') RA = Some (VNum (init - step)%float) /\
    Get (vreg s') (RA + 1) = Some (VNum limit) /\
    Get (vreg s') (RA + 2) = Some (VNum step) /\ b = false.
Proof.
  intros ml gf cl cf inst base s b s' Hop Hra H RA.
  unfold exec_op in H. rewrite Hop in H. fold RA in H.
  bind_inv H v0 s1 G0. apply reg_get_ret in G0. destruct G0 as [-> G0].
  bind_inv H o0 s1 F0. apply forOperand_ret in F0. destruct F0 as [-> F0].
  destruct o0 as [init|]; [|exfalso; eapply fault_no_ret; eassumption].
  bind_inv H v1 s1 G1. apply reg_get_ret in G1. destruct G1 as [-> G1].
  bind_inv H o1 s1 F1. apply forOperand_ret in F1. destruct F1 as [-> F1].
  destruct o1 as [limit|]; [|exfalso; eapply fault_no_ret; eassumption].
  bind_inv H v2 s1 G2. apply reg_get_ret in G2. destruct G2 as [-> G2].
  bind_inv H o2 s1 F2. apply forOperand_ret in F2. destruct F2 as [-> F2].
  destruct o2 as [step|]; [|exfalso; eapply fault_no_ret; eassumption].
  bind_inv H u1 s1 S1. apply reg_set_ret in S1. subst s1.
  bind_inv H u2 s2 S2. apply reg_set_ret in S2. subst s2.
  bind_inv H u3 s3 S3. apply reg_set_ret in S3. subst s3.
  bind_inv H u4 s4 P. apply add_pc_ret in P. inversion H. subst s4 b.
  exists v0, v1, v2, init, limit, step.
  repeat split; try assumption; rewrite P; rewrite !vreg_with_reg; rewrite !Get_Set by lia.
  - replace (RA =? RA) with true by lia. reflexivity.
  - replace (RA + 1 =? RA) with false by lia. replace (RA + 1 =? RA + 2) with false by lia.
    replace (RA + 1 =? RA + 1) with true by lia. reflexivity.
  - replace (RA + 2 =? RA) with false by lia. replace (RA + 2 =? RA + 2) with true by lia. reflexivity.
Qed.

(* the consumer: with numbers in the three cells OP_FORLOOP never raises ... *)
Definition for_continues (i' limit step : float) : bool :=
  (PrimFloat.ltb 0%float step && PrimFloat.leb i' limit) || (PrimFloat.leb step 0%float && PrimFloat.leb limit i').

Lemma reg_get_some : forall i v s, Get (vreg s) i = Some v -> reg_get i s = VRet v s.
Proof. intros i v s H. unfold reg_get. rewrite H. reflexivity. Qed.

Theorem forloop_numbers_never_raise_lemma : forall ml gf cl cf inst base s i l st,
  op_of_code (opGetOpCode inst) = Some OP_FORLOOP ->
  let RA := fr_localbase cf + opGetArgA inst in
  Get (vreg s) RA = Some (VNum i) -> Get (vreg s) (RA + 1) = Some (VNum l) -> Get (vreg s) (RA + 2) = Some (VNum st) ->
  forall v s', exec_op ml gf cl cf inst base s <> VErr v s'.
Proof.
  intros ml gf cl cf inst base s i l st Hop RA G0 G1 G2 v s'.
  unfold exec_op. rewrite Hop. fold RA.
  unfold vbind at 1. rewrite (reg_get_some _ _ _ G0).
  unfold vbind at 1. rewrite (reg_get_some _ _ _ G1).
  unfold vbind at 1. rewrite (reg_get_some _ _ _ G2).
  unfold vbind at 1. unfold reg_set at 1, vmod_reg at 1.
  fold (for_continues (i + st)%float l st). destruct (for_continues (i + st)%float l st).
  - unfold vbind at 1. unfold add_pc. unfold vbind at 1. unfold cur_frame.
    destruct (vstack (with_reg s (Set_ (vreg s) RA (VNum (i + st)%float)))) eqn:E; [discriminate|].
    unfold set_cur_frame. rewrite E. unfold vbind, reg_set, vmod_reg, vret. discriminate.
  - unfold vbind, reg_settop, vmod_reg, vret. discriminate.
Qed.

(* ... and, while the loop continues, leaves numbers in the three cells (limit and step untouched)
   and the new index, a number, in the visible loop variable RA+3 *)
Theorem forloop_keeps_numbers_lemma : forall ml gf cl cf inst base s b s' i l st,
  op_of_code (opGetOpCode inst) = Some OP_FORLOOP ->
  let RA := fr_localbase cf + opGetArgA inst in
  0 <= RA ->
  Get (vreg s) RA = Some (VNum i) -> Get (vreg s) (RA + 1) = Some (VNum l) -> Get (vreg s) (RA + 2) = Some (VNum st) ->
  exec_op ml gf cl cf inst base s = VRet b s' ->
  for_continues (i + st)%float l st = true ->
  Get (vreg s') RA = Some (VNum (i + st)%float) /\ Get (vreg s') (RA + 1) = Some (VNum l) /\
  Get (vreg s') (RA + 2) = Some (VNum st) /\ Get (vreg s') (RA + 3) = Some (VNum (i + st)%float) /\ b = false.
Proof.
  intros ml gf cl cf inst base s b s' i l st Hop RA Hra G0 G1 G2 H Hc.
  unfold exec_op in H. rewrite Hop in H. fold RA in H.
  unfold vbind at 1 in H. rewrite (reg_get_some _ _ _ G0) in H.
  unfold vbind at 1 in H. rewrite (reg_get_some _ _ _ G1) in H.
  unfold vbind at 1 in H. rewrite (reg_get_some _ _ _ G2) in H.
  fold (for_continues (i + st)%float l st) in H. rewrite Hc in H.
  bind_inv H u1 s1 S1. apply reg_set_ret in S1. subst s1.
  bind_inv H u2 s2 P. apply add_pc_ret in P.
  bind_inv H u3 s3 S3. apply reg_set_ret in S3. subst s3. inversion H. subst b s'.
  rewrite !vreg_with_reg, P, !vreg_with_reg, !Get_Set by lia.
  replace (RA =? RA + 3) with false by lia. replace (RA =? RA) with true by lia.
  replace (RA + 1 =? RA + 3) with false by lia. replace (RA + 1 =? RA) with false by lia.
  replace (RA + 2 =? RA + 3) with false by lia. replace (RA + 2 =? RA) with false by lia.
  replace (RA + 3 =? RA + 3) with true by lia.
  rewrite G1, G2. repeat split; reflexivity.
Qed.

(* the two sites together: the FORLOOP that follows a FORPREP that returned - on a state whose
   three cells are what FORPREP left - does not raise *)
Theorem forprep_then_forloop_lemma : forall ml gf cl cf inst base s b s' ml' gf' cl' inst' base',
  op_of_code (opGetOpCode inst) = Some OP_FORPREP ->
  op_of_code (opGetOpCode inst') = Some OP_FORLOOP ->
  opGetArgA inst' = opGetArgA inst ->
  0 <= fr_localbase cf + opGetArgA inst ->
  exec_op ml gf cl cf inst base s = VRet b s' ->
  forall cf' v s'', fr_localbase cf' = fr_localbase cf -> exec_op ml' gf' cl' cf' inst' base' s' <> VErr v s''.
Proof.
  intros ml gf cl cf inst base s b s' ml' gf' cl' inst' base' Hp Hl HA Hra H cf' v s'' Hb.
  destruct (forprep_normalises_lemma _ _ _ _ _ _ _ _ _ Hp Hra H) as (v0 & v1 & v2 & init & limit & step & _ & _ & _ & _ & _ & _ & G0 & G1 & G2 & _).
  eapply forloop_numbers_never_raise_lemma; try eassumption; rewrite Hb, HA; eassumption.
Qed.
