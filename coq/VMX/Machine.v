(* M-VM: the state of gopher-lua's bytecode machine. Model only, no proofs.

   Go (value.go, function.go, _state.go)        here
   ------------------------------------------   -----------------------------------------------
   LValue                                       Lua.Values.value (VFun r = *LFunction with a
                                                proto, r indexes [clos]; VBuiltin b = a Go
                                                function; VTab r indexes [tabs]; VFault k l = the
                                                string a runtime error of class k raised at line l
                                                carries, as the harness classifies it)
   FunctionProto                                xproto: code words, constants, nested prototypes,
                                                counts, DbgSourcePositions, LineDefined
   LFunction{Proto,Env,Upvalues}                closure {cl_proto; cl_upvals (refs into uvs); cl_env}
   Upvalue{index,closed,value,next}             upval; the linked list L.uvcache is the list
                                                [uvcache] of references in list order
   registry{array,top}                          registry {arr : list (option value); rtop}; None is
                                                the Go nil interface, cells beyond the list are None
                                                (capacity and growth are C12's subject, not modelled)
   callFrame                                    frame; the call-frame stack is a list, head = the
                                                current frame (L.currentFrame = stack.Last()), the
                                                Parent of a frame is the next element
   LTable                                       Lua.Values.tab: a finite map in insertion order plus
                                                the metatable (array/hash layout is C09's subject) *)
From Coq Require Import Floats.
From GL Require Import Common.Bytes Lua.Syntax Lua.Num Lua.Values.
From GL Require Export VM.Opcode.

(* ---------- prototypes ---------- *)
Inductive xproto :=
| XProto (code : list Z) (consts : list value) (subs : list xproto)
         (nup nparams vararg nregs : Z) (lines : list Z) (linedef : Z).

Definition xp_code (p : xproto) := let 'XProto c _ _ _ _ _ _ _ _ := p in c.
Definition xp_consts (p : xproto) := let 'XProto _ k _ _ _ _ _ _ _ := p in k.
Definition xp_subs (p : xproto) := let 'XProto _ _ s _ _ _ _ _ _ := p in s.
Definition xp_nup (p : xproto) := let 'XProto _ _ _ n _ _ _ _ _ := p in n.
Definition xp_nparams (p : xproto) := let 'XProto _ _ _ _ n _ _ _ _ := p in n.
Definition xp_vararg (p : xproto) := let 'XProto _ _ _ _ _ n _ _ _ := p in n.
Definition xp_nregs (p : xproto) := let 'XProto _ _ _ _ _ _ n _ _ := p in n.
Definition xp_lines (p : xproto) := let 'XProto _ _ _ _ _ _ _ l _ := p in l.
Definition xp_linedef (p : xproto) := let 'XProto _ _ _ _ _ _ _ _ l := p in l.

Definition VarArgHasArg := 1.
Definition VarArgIsVarArg := 2.
Definition VarArgNeedsArg := 4.
Definition MultRet := -1.
Definition FieldsPerFlush := 50.
Definition MaxTableGetLoop : nat := 100.
Definition CallStackSize := 256.

(* ---------- registry ---------- *)
Definition cell := option value.
Definition cNil : cell := Some VNil.

Record registry := mkReg { arr : list cell; rtop : Z }.

Definition rd (a : list cell) (i : Z) : cell :=
  if i <? 0 then None else nth (Z.to_nat i) a None.

(* a[i] := c; the list is padded with None when i lies beyond it *)
Fixpoint wr_nat (a : list cell) (i : nat) (c : cell) : list cell :=
  match i, a with
  | O, [] => [c]
  | O, _ :: t => c :: t
  | S k, [] => None :: wr_nat [] k c
  | S k, x :: t => x :: wr_nat t k c
  end.

Definition wr (a : list cell) (i : Z) (c : cell) : list cell :=
  if i <? 0 then a else wr_nat a (Z.to_nat i) c.

(* a[lo .. lo+n) := c *)
Fixpoint fill0 (a : list cell) (n : nat) (c : cell) : list cell :=
  match n with
  | O => a
  | S k => c :: fill0 (tl a) k c
  end.

Fixpoint fill_nat (a : list cell) (lo n : nat) (c : cell) : list cell :=
  match lo with
  | O => fill0 a n c
  | S l => match a with
           | [] => match n with O => [] | _ => None :: fill_nat [] l n c end
           | x :: t => x :: fill_nat t l n c
           end
  end.

(* a[lo .. hi) := c  (nothing when hi <= lo or lo < 0) *)
Definition fill (a : list cell) (lo hi : Z) (c : cell) : list cell :=
  if (lo <? 0) || (hi <=? lo) then a else fill_nat a (Z.to_nat lo) (Z.to_nat (hi - lo)) c.

(* func (rg *registry) SetTop(topi int) *)
Definition SetTop (r : registry) (topi : Z) : registry :=
  let oldtopi := rtop r in
  let a1 := fill (arr r) oldtopi topi cNil in      (* for i := oldtopi; i < rg.top; i++ { array[i] = LNil } *)
  let a2 := fill a1 topi oldtopi None in           (* nilRange := array[rg.top:oldtopi] ... = nil *)
  mkReg a2 topi.

(* func (rg *registry) Push(v LValue) *)
Definition Push (r : registry) (v : value) : registry :=
  mkReg (wr (arr r) (rtop r) (Some v)) (rtop r + 1).

(* func (rg *registry) Pop() LValue : array[top-1] = LNil; top-- *)
Definition Pop (r : registry) : cell * registry :=
  (rd (arr r) (rtop r - 1), mkReg (wr (arr r) (rtop r - 1) cNil) (rtop r - 1)).

(* func (rg *registry) Get(reg int) LValue *)
Definition Get (r : registry) (i : Z) : cell := rd (arr r) i.

(* func (rg *registry) Set(regi int, vali LValue) (SetNumber is the same here); SetCell also
   stores the Go nil interface (Insert moves cells whatever they hold) *)
Definition SetCell (r : registry) (regi : Z) (c : cell) : registry :=
  mkReg (wr (arr r) regi c) (if regi >=? rtop r then regi + 1 else rtop r).
Definition Set_ (r : registry) (regi : Z) (v : value) : registry := SetCell r regi (Some v).

(* the loop of CopyRange: iterations i, i+1, ... (k of them), each reading the array as the
   previous iterations left it *)
Fixpoint copyLoop (a : list cell) (regv start limit i : Z) (k : nat) : list cell :=
  match k with
  | O => a
  | S k' =>
      let srcIdx := start + i in
      let c := if (srcIdx >=? limit) || (srcIdx <? 0) then cNil else rd a srcIdx in
      copyLoop (wr a (regv + i) c) regv start limit (i + 1) k'
  end.

(* func (rg *registry) CopyRange(regv, start, limit, n int) *)
Definition CopyRange (r : registry) (regv start limit n : Z) : registry :=
  let limit := if (limit =? -1) || (limit >? rtop r) then rtop r else limit in
  let a1 := copyLoop (arr r) regv start limit 0 (Z.to_nat n) in
  let oldtop := rtop r in
  let newtop := regv + n in
  mkReg (fill a1 newtop oldtop None) newtop.

(* func (rg *registry) FillNil(regm, n int) *)
Definition FillNil (r : registry) (regm n : Z) : registry :=
  let a1 := fill (arr r) regm (regm + n) cNil in
  let oldtop := rtop r in
  let newtop := regm + n in
  mkReg (fill a1 newtop oldtop None) newtop.

(* func (rg *registry) Insert(value LValue, reg int) *)
Fixpoint insertLoop (r : registry) (t reg : Z) (k : nat) : registry :=
  match k with
  | O => r
  | S k' => if t >=? reg then insertLoop (SetCell r (t + 1) (Get r t)) (t - 1) reg k' else r
  end.

Definition Insert (r : registry) (v : value) (reg : Z) : registry :=
  let t := rtop r in
  if reg >=? t then Set_ r reg v
  else Set_ (insertLoop r (t - 1) reg (Z.to_nat (t - reg))) reg v.

(* copyReturnValues(L, regv, start, n, b) of _vm.go *)
Definition copyReturnValues (r : registry) (regv start n b : Z) : registry :=
  if b =? 1 then FillNil r regv n
  else
    let r1 := CopyRange r regv start (-1) n in
    if (b >? 1) && (n >? b - 1) then FillNil r1 (regv + b - 1) (n - (b - 1)) else r1.

(* the values in [lo, hi) of the array, Go nil read as LNil (used where the code has checked the
   range against top) *)
Fixpoint cells_from (a : list cell) (lo : Z) (n : nat) : list cell :=
  match n with O => [] | S k => rd a lo :: cells_from a (lo + 1) k end.

Definition cell_val (c : cell) : value := match c with Some v => v | None => VNil end.

(* ---------- upvalues, closures, frames ---------- *)
(* uv_thread: the coroutine whose registry the open upvalue points into (Upvalue.reg) *)
Record upval := mkUv { uv_index : Z; uv_closed : bool; uv_value : cell; uv_thread : nat }.

Record closure := mkCl { cl_proto : xproto; cl_upvals : list nat; cl_env : nat }.

Inductive fnref := FnLua (c : nat) | FnGo (b : builtin).

Record cframe := mkFrame {
  fr_fn : fnref; fr_pc : Z; fr_base : Z; fr_localbase : Z; fr_returnbase : Z;
  fr_nargs : Z; fr_nret : Z; fr_tailcall : Z }.

Definition is_go (f : fnref) : bool := match f with FnGo _ => true | FnLua _ => false end.

(* a coroutine (an LState other than the running one): its registry, frames and open-upvalue list
   while it is not running; Parent, wrapped, Dead; started = its currentFrame is not nil *)
Record thread := mkTh {
  th_reg : registry; th_stack : list cframe; th_uvcache : list nat;
  th_parent : option nat; th_wrapped : bool; th_dead : bool; th_started : bool;
  th_nccalls : Z                (* LState.nccalls: calls from Go code into the thread that have not returned;
                                   kept live in the thread table also for the running thread *) }.

Definition dummy_th := mkTh (mkReg [] 0) [] [] None false true true 0.

Record vstate := mkVS {
  vreg : registry;
  vstack : list cframe;          (* head = L.currentFrame *)
  vuvcache : list nat;          (* L.uvcache in list order *)
  vuvs : list upval;
  vclos : list closure;
  vtabs : list tab;
  vuds : list (option nat);
  vtrace : list (list value);
  vstrmt : option nat;
  vglobal : nat;                (* L.G.Global *)
  vthreads : list thread;       (* every LState; index 0 = the main thread; the entry of the running
                                   thread holds stale registers (the live ones are vreg/vstack/vuvcache) *)
  vcur : nat                    (* L.G.CurrentThread *) }.

Definition with_reg s r := mkVS r (vstack s) (vuvcache s) (vuvs s) (vclos s) (vtabs s) (vuds s) (vtrace s) (vstrmt s) (vglobal s) (vthreads s) (vcur s).
Definition with_stack s k := mkVS (vreg s) k (vuvcache s) (vuvs s) (vclos s) (vtabs s) (vuds s) (vtrace s) (vstrmt s) (vglobal s) (vthreads s) (vcur s).
Definition with_uvcache s c := mkVS (vreg s) (vstack s) c (vuvs s) (vclos s) (vtabs s) (vuds s) (vtrace s) (vstrmt s) (vglobal s) (vthreads s) (vcur s).
Definition with_uvs s u := mkVS (vreg s) (vstack s) (vuvcache s) u (vclos s) (vtabs s) (vuds s) (vtrace s) (vstrmt s) (vglobal s) (vthreads s) (vcur s).
Definition with_vclos s c := mkVS (vreg s) (vstack s) (vuvcache s) (vuvs s) c (vtabs s) (vuds s) (vtrace s) (vstrmt s) (vglobal s) (vthreads s) (vcur s).
Definition with_vtabs s t := mkVS (vreg s) (vstack s) (vuvcache s) (vuvs s) (vclos s) t (vuds s) (vtrace s) (vstrmt s) (vglobal s) (vthreads s) (vcur s).
Definition with_vuds s u := mkVS (vreg s) (vstack s) (vuvcache s) (vuvs s) (vclos s) (vtabs s) u (vtrace s) (vstrmt s) (vglobal s) (vthreads s) (vcur s).
Definition with_vtrace s t := mkVS (vreg s) (vstack s) (vuvcache s) (vuvs s) (vclos s) (vtabs s) (vuds s) t (vstrmt s) (vglobal s) (vthreads s) (vcur s).
Definition with_threads s t := mkVS (vreg s) (vstack s) (vuvcache s) (vuvs s) (vclos s) (vtabs s) (vuds s) (vtrace s) (vstrmt s) (vglobal s) t (vcur s).

(* the running thread's record, brought up to date *)
Definition cur_thread (s : vstate) : thread :=
  let t := nth (vcur s) (vthreads s) dummy_th in
  mkTh (vreg s) (vstack s) (vuvcache s) (th_parent t) (th_wrapped t) (th_dead t) (th_started t) (th_nccalls t).

(* L.G.CurrentThread = t: the running thread's registers are stored, t's are loaded *)
Definition switch_to (t : nat) (s : vstate) : vstate :=
  let ths := set_nth (vthreads s) (vcur s) (cur_thread s) in
  let th := nth t ths dummy_th in
  mkVS (th_reg th) (th_stack th) (th_uvcache th) (vuvs s) (vclos s) (vtabs s) (vuds s) (vtrace s)
       (vstrmt s) (vglobal s) ths t.

(* a thread's record whether it is running or not *)
Definition get_thread (s : vstate) (t : nat) : thread :=
  if Nat.eqb t (vcur s) then cur_thread s else nth t (vthreads s) dummy_th.

Definition set_thread (s : vstate) (t : nat) (th : thread) : vstate :=
  if Nat.eqb t (vcur s)
  then mkVS (th_reg th) (th_stack th) (th_uvcache th) (vuvs s) (vclos s) (vtabs s) (vuds s) (vtrace s)
            (vstrmt s) (vglobal s) (set_nth (vthreads s) t th) (vcur s)
  else with_threads s (set_nth (vthreads s) t th).

(* ---------- results ---------- *)
Inductive vres (A : Type) :=
| VRet (a : A) (s : vstate)
| VErr (v : value) (s : vstate)       (* a Lua error travelling as a Go panic of an ApiError *)
| VFuel
| VUnsup (code : Z).
Arguments VRet {A}. Arguments VErr {A}. Arguments VFuel {A}. Arguments VUnsup {A}.

Definition VM (A : Type) := vstate -> vres A.

Definition vbind {A B} (m : VM A) (f : A -> VM B) : VM B :=
  fun s => match m s with
           | VRet a s' => f a s'
           | VErr v s' => VErr v s'
           | VFuel => VFuel
           | VUnsup c => VUnsup c
           end.
Definition vret {A} (a : A) : VM A := fun s => VRet a s.
Definition vraise {A} (v : value) : VM A := fun s => VErr v s.
Definition vunsup {A} (c : Z) : VM A := fun _ => VUnsup c.
Definition vget : VM vstate := fun s => VRet s s.
Definition vput (s : vstate) : VM unit := fun _ => VRet tt s.
Definition vmod (f : vstate -> vstate) : VM unit := fun s => VRet tt (f s).
Definition vmod_reg (f : registry -> registry) : VM unit := fun s => VRet tt (with_reg s (f (vreg s))).

Notation "'vdo' x <- m ; f" := (vbind m (fun x => f)) (at level 200, x pattern, m at level 100, f at level 200).

(* unsupported-situation codes of the VM model (distinct from the evaluator's):
   101 a register holding the Go nil interface is read    102 no current frame / bad function ref
   103 code index outside Code                             104 constant index outside Constants
   105 upvalue slot outside Upvalues                       106 nested prototype outside FunctionPrototypes
   107 unknown opcode                                      108 rkString on a non-string
   109 SETLIST on a non-table                              110 coroutine library
   111 a fault value used as data                          112 host function outside the modelled set
   113 the evaluator's numeric/text fragment left (with the evaluator's own code added to 200) *)

(* ---------- heap access ---------- *)
Definition cur_frame : VM cframe :=
  fun s => match vstack s with f :: _ => VRet f s | [] => VUnsup 102 end.

Definition set_cur_frame (f : cframe) : VM unit :=
  fun s => match vstack s with _ :: r => VRet tt (with_stack s (f :: r)) | [] => VUnsup 102 end.

Definition dummy_proto := XProto [] [] [] 0 0 0 0 [] 0.
Definition dummy_cl := mkCl dummy_proto [] 0.
Definition dummy_uv := mkUv 0 true None 0%nat.

Definition get_closure (c : nat) : VM closure :=
  fun s => match nth_error (vclos s) c with Some cl => VRet cl s | None => VUnsup 102 end.

Definition frame_proto (f : cframe) : VM (option xproto) :=
  match fr_fn f with
  | FnLua c => vdo cl <- get_closure c; vret (Some (cl_proto cl))
  | FnGo _ => vret None
  end.

Definition read_vtab (r : nat) : VM tab := fun s => VRet (nth r (vtabs s) empty_tab) s.
Definition write_vtab (r : nat) (t : tab) : VM unit := fun s => VRet tt (with_vtabs s (set_nth (vtabs s) r t)).
Definition alloc_vtab (t : tab) : VM nat := fun s => VRet (length (vtabs s)) (with_vtabs s (vtabs s ++ [t])).
Definition alloc_closure (c : closure) : VM nat := fun s => VRet (length (vclos s)) (with_vclos s (vclos s ++ [c])).

(* reg.Get on a cell that must hold a value *)
Definition reg_get (i : Z) : VM value :=
  fun s => match Get (vreg s) i with Some v => VRet v s | None => VUnsup 101 end.
Definition reg_set (i : Z) (v : value) : VM unit := vmod_reg (fun r => Set_ r i v).
Definition reg_push (v : value) : VM unit := vmod_reg (fun r => Push r v).
Definition reg_pop : VM value :=
  fun s => let '(c, r) := Pop (vreg s) in
           match c with Some v => VRet v (with_reg s r) | None => VUnsup 101 end.
Definition reg_top : VM Z := fun s => VRet (rtop (vreg s)) s.
Definition reg_settop (t : Z) : VM unit := vmod_reg (fun r => SetTop r t).

Fixpoint reg_get_range (lo : Z) (n : nat) : VM (list value) :=
  match n with
  | O => vret []
  | S k => vdo v <- reg_get lo; vdo vs <- reg_get_range (lo + 1) k; vret (v :: vs)
  end.

Fixpoint reg_push_list (vs : list value) : VM unit :=
  match vs with [] => vret tt | v :: r => vdo _ <- reg_push v; reg_push_list r end.
