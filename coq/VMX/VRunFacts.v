(* M-VM: the runner is a function (determinism is definitional) and its result does not depend on
   the fuel once it is enough: more fuel never changes a finished run. *)
From Coq Require Import Floats Lia ZifyBool.
From GL Require Import Common.Bytes Lua.Syntax Lua.Num Lua.Values Lua.Names Lua.Eval Lua.Run.
From GL Require Import VMX.Machine VMX.Step VMX.Builtins VMX.VRun VMX.MonoFacts.

Theorem vm_deterministic : forall fuel p r1 r2, run_proto fuel p = r1 -> run_proto fuel p = r2 -> r1 = r2.
Proof. intros. congruence. Qed.

Lemma run_loop_mono : forall ml1 ml2, (forall b, vle (ml1 b) (ml2 b)) ->
  forall k1 k2 base s, (k1 <= k2)%nat -> rle (run_loop ml1 k1 base s) (run_loop ml2 k2 base s).
Proof.
  intros ml1 ml2 H. induction k1; intros k2 base s Hk; [left; reflexivity|].
  destruct k2; [lia|]. simpl.
  destruct (fetch s) as [inst s1|e s1| |c]; try apply rle_refl.
  pose proof (exec_inst_mono ml1 ml2 H (gfunction ml1) (gfunction ml2) (gfunction_mono ml1 ml2 H) inst base s1) as [E|E];
    rewrite E; [left; reflexivity|].
  destruct (exec_inst ml2 (gfunction ml2) inst base s1) as [[|] s2|e s2| |c]; try apply rle_refl.
  apply IHk1. lia.
Qed.

Lemma run_gframe_mono : forall ml1 ml2, (forall b, vle (ml1 b) (ml2 b)) ->
  forall s, rle (run_gframe ml1 s) (run_gframe ml2 s).
Proof.
  intros ml1 ml2 H s. unfold run_gframe.
  pose proof (callGFunction_mono (gfunction ml1) (gfunction ml2) (gfunction_mono ml1 ml2 H) false s) as [E|E];
    rewrite E; [left; reflexivity|apply rle_refl].
Qed.

Lemma mainLoop_mono_S : forall n base, vle (mainLoop n base) (mainLoop (S n) base).
Proof.
  induction n; intros base s; [left; reflexivity|].
  change (mainLoop (S n) base s) with
    (match vstack s with
     | [] => VRet tt s
     | f :: _ => if is_go (fr_fn f) then run_gframe (mainLoop n) s else run_loop (mainLoop n) n base s
     end).
  change (mainLoop (S (S n)) base s) with
    (match vstack s with
     | [] => VRet tt s
     | f :: _ => if is_go (fr_fn f) then run_gframe (mainLoop (S n)) s else run_loop (mainLoop (S n)) (S n) base s
     end).
  destruct (vstack s) as [|f r]; [apply rle_refl|].
  destruct (is_go (fr_fn f)).
  - apply run_gframe_mono. exact IHn.
  - apply run_loop_mono; [exact IHn|lia].
Qed.

Lemma mainLoop_mono : forall k n base, vle (mainLoop n base) (mainLoop (n + k) base).
Proof.
  induction k; intros n base.
  - rewrite Nat.add_0_r. apply vle_refl.
  - replace (n + S k)%nat with (S (n + k)) by lia.
    eapply vle_trans; [apply IHk|apply mainLoop_mono_S].
Qed.

(* a run that finished (with results, an error, or by leaving the modelled fragment) finishes the
   same way with any larger fuel *)
Theorem vm_fuel_mono : forall n p, run_proto n p <> VFinFuel -> forall k, run_proto (n + k) p = run_proto n p.
Proof.
  intros n p Hn k. unfold run_proto in *.
  pose proof (PCall_mono (mainLoop n) (mainLoop (n + k)) (fun b => mainLoop_mono k n b) 0 MultRet None (init_vstate p)) as [E|E].
  - rewrite E in Hn. exfalso. apply Hn. reflexivity.
  - rewrite E. reflexivity.
Qed.

Corollary vm_outcome_fuel_indep : forall n m p,
  run_proto n p <> VFinFuel -> run_proto m p <> VFinFuel -> run_proto n p = run_proto m p.
Proof.
  intros n m p Hn Hm. destruct (Nat.le_ge_cases n m) as [H|H].
  - replace m with (n + (m - n))%nat by lia. symmetry. apply vm_fuel_mono. assumption.
  - replace n with (m + (n - m))%nat by lia. apply vm_fuel_mono. assumption.
Qed.
