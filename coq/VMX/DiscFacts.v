(* M-VM: the frame-stack discipline of the main loop with coroutine resumption cut off
   (RunSafe.mainLoop_nc): a re-entered main loop returns to exactly the caller's frames, an error
   leaves them at the bottom of the stack. Proved through every instruction function and every host
   function of the model. This is the property OP_TFORLOOP (and the pc arithmetic after a compare
   metamethod) needs from the re-entered loop. *)
From Coq Require Import Floats Lia ZifyBool.
From GL Require Import Common.Bytes Lua.Syntax Lua.Num Lua.Values Lua.Names Lua.Eval Str.StrModel.
From GL Require Import VMX.Machine VMX.Step VMX.Builtins VMX.VRun VMX.WfTie VMX.MonoFacts VMX.RunSafe.
From GL Require VMX.RunSafeFacts.

(* ---------- a Hoare rule with an exceptional postcondition ---------- *)
Definition ht {A} (P : vstate -> Prop) (m : VM A) (Q : A -> vstate -> Prop) (E : vstate -> Prop) : Prop :=
  forall s, P s -> match m s with VRet a s' => Q a s' | VErr _ s' => E s' | _ => True end.

Lemma ht_bind : forall A B P (m : VM A) Q (f : A -> VM B) R E,
  ht P m Q E -> (forall a, ht (Q a) (f a) R E) -> ht P (vbind m f) R E.
Proof.
  intros A B P m Q f R E Hm Hf s Hs. unfold vbind. specialize (Hm s Hs).
  destruct (m s) as [a s1|e s1| |c]; auto. apply Hf. exact Hm.
Qed.

Lemma ht_conseq : forall A (P P' : vstate -> Prop) (m : VM A) (Q Q' : A -> vstate -> Prop) (E E' : vstate -> Prop),
  ht P m Q E -> (forall s, P' s -> P s) -> (forall a s, Q a s -> Q' a s) -> (forall s, E s -> E' s) ->
  ht P' m Q' E'.
Proof.
  intros A P P' m Q Q' E E' H HP HQ HE s Hs. specialize (H s (HP s Hs)).
  destruct (m s); auto.
Qed.

Lemma ht_noret : forall A (m : VM A) P Q Q' E,
  ht P m Q E -> (forall s a s', m s <> VRet a s') -> ht P m Q' E.
Proof.
  intros A m P Q Q' E H Hn s Hs. specialize (H s Hs). destruct (m s) eqn:Em; auto.
  exfalso. eapply Hn. eassumption.
Qed.

Lemma ht_ex : forall A T (P : T -> vstate -> Prop) (m : VM A) Q E,
  (forall x, ht (P x) m Q E) -> ht (fun s => exists x, P x s) m Q E.
Proof. intros A T P m Q E H s [x Hx]. apply (H x). exact Hx. Qed.


Lemma estk_cons : forall f X s, estk (f :: X) s -> estk X s.
Proof. intros f X s [H [k E]]. split; [exact H|]. exists (k ++ [f]). rewrite <- app_assoc. exact E. Qed.

Lemma stk_estk : forall X s, stk X s -> estk X s.
Proof. intros X s [H E]. split; [exact H|]. exists []. exact E. Qed.

(* stack-disciplined: returns with the frame stack it started with, raises with that stack at the
   bottom *)
Definition sd {A} (m : VM A) : Prop := forall X, ht (stk X) m (fun _ => stk X) (estk X).

Lemma sd_bind : forall A B (m : VM A) (f : A -> VM B), sd m -> (forall a, sd (f a)) -> sd (vbind m f).
Proof. intros A B m f Hm Hf X. eapply ht_bind; [apply Hm|intro a; apply Hf]. Qed.

(* a state function that touches neither the frames nor the threads' resumers *)
Lemma sd_total : forall A (g : vstate -> A * vstate),
  (forall s, vstack (snd (g s)) = vstack s /\ (par_ok s -> par_ok (snd (g s)))) ->
  sd (fun s => VRet (fst (g s)) (snd (g s))).
Proof. intros A g H X s [Hp Hs]. destruct (H s) as [H1 H2]. split; [auto|congruence]. Qed.

Lemma sd_vret : forall A (a : A), sd (vret a). Proof. intros A a X s H. exact H. Qed.
Lemma sd_vraise : forall A v, sd (@vraise A v). Proof. intros A v X s H. apply stk_estk. exact H. Qed.
Lemma sd_vget : sd vget. Proof. intros X s H. exact H. Qed.
Lemma sd_vunsup : forall A c, sd (@vunsup A c). Proof. intros A c X s H. exact Logic.I. Qed.
Lemma sd_vmod_reg : forall f, sd (vmod_reg f). Proof. intros f X s H. exact H. Qed.
Lemma sd_reg_top : sd reg_top. Proof. intros X s H. exact H. Qed.
Lemma sd_reg_set : forall i v, sd (reg_set i v). Proof. intros. apply sd_vmod_reg. Qed.
Lemma sd_reg_push : forall v, sd (reg_push v). Proof. intros. apply sd_vmod_reg. Qed.
Lemma sd_reg_settop : forall t, sd (reg_settop t). Proof. intros. apply sd_vmod_reg. Qed.
Lemma sd_read_vtab : forall r, sd (read_vtab r). Proof. intros r X s H. exact H. Qed.
Lemma sd_write_vtab : forall r t, sd (write_vtab r t). Proof. intros r t X s H. exact H. Qed.
Lemma sd_alloc_vtab : forall t, sd (alloc_vtab t). Proof. intros t X s H. exact H. Qed.
Lemma sd_alloc_closure : forall c, sd (alloc_closure c). Proof. intros c X s H. exact H. Qed.
Lemma sd_metaOp1 : forall v e, sd (metaOp1 v e). Proof. intros v e X s H. exact H. Qed.
Lemma sd_closeUpvalues : forall i, sd (closeUpvalues i). Proof. intros i X s H. exact H. Qed.

Lemma sd_metaOp2 : forall a b e, sd (metaOp2 a b e).
Proof. intros a b e X s H. unfold metaOp2. destruct (negb _); exact H. Qed.

Lemma findUpvalue_st_frames : forall i s,
  vstack (snd (findUpvalue_st i s)) = vstack s /\ vthreads (snd (findUpvalue_st i s)) = vthreads s.
Proof.
  intros i s. unfold findUpvalue_st. destruct (fu_loop _ _ _ _) as [r c'].
  destruct (Nat.eqb _ _); split; reflexivity.
Qed.

Lemma sd_findUpvalue : forall i, sd (findUpvalue i).
Proof.
  intros i X s [Hp Hs]. unfold findUpvalue. destruct (findUpvalue_st_frames i s) as [E1 E2].
  destruct (findUpvalue_st i s) as [r s']. cbn [snd] in *. split; [unfold par_ok in *; rewrite E2; exact Hp|congruence].
Qed.

Lemma sd_cur_frame : sd cur_frame.
Proof. intros X s H. unfold cur_frame. destruct (vstack s); [exact Logic.I|exact H]. Qed.
Lemma sd_get_closure : forall c, sd (get_closure c).
Proof. intros c X s H. unfold get_closure. destruct (nth_error _ _); [exact H|exact Logic.I]. Qed.
Lemma sd_reg_get : forall i, sd (reg_get i).
Proof. intros i X s H. unfold reg_get. destruct (Get _ _); [exact H|exact Logic.I]. Qed.
Lemma sd_reg_pop : sd reg_pop.
Proof. intros X s H. unfold reg_pop. destruct (Pop _) as [[v|] r]; [exact H|exact Logic.I]. Qed.

(* threads: replacing an entry by one with no resumer *)
Lemma Forall_set_nth : forall A (P : A -> Prop) l i x, Forall P l -> P x -> Forall P (set_nth l i x).
Proof.
  intros A P l. induction l; intros i x Hl Hx; [destruct i; exact Hl|].
  inversion Hl; subst. destruct i; simpl; constructor; auto.
Qed.

Lemma par_nth : forall s t, par_ok s -> th_parent (nth t (vthreads s) dummy_th) = None.
Proof.
  intros s t H. unfold par_ok in H. destruct (nth_in_or_default t (vthreads s) dummy_th) as [Hin|E].
  - rewrite Forall_forall in H. apply H. exact Hin.
  - rewrite E. reflexivity.
Qed.

Lemma par_get_thread : forall s t, par_ok s -> th_parent (get_thread s t) = None.
Proof.
  intros s t H. unfold get_thread. destruct (Nat.eqb t (vcur s)); [|apply par_nth; exact H].
  unfold cur_thread. cbn [th_parent]. apply par_nth. exact H.
Qed.

Lemma par_set_nccalls : forall n s, par_ok s -> par_ok (set_nccalls n s).
Proof.
  intros n s H. unfold par_ok, set_nccalls. cbn [vthreads with_threads].
  apply Forall_set_nth; [exact H|]. cbn [th_parent]. apply par_nth. exact H.
Qed.

Lemma sd_nccalls_add : forall d, sd (nccalls_add d).
Proof. intros d X s [Hp Hs]. split; [apply par_set_nccalls; exact Hp|exact Hs]. Qed.

Lemma set_thread_frames : forall s t th,
  par_ok s -> th_parent th = None -> (t = vcur s -> th_stack th = vstack s) ->
  par_ok (set_thread s t th) /\ vstack (set_thread s t th) = vstack s.
Proof.
  intros s t th Hp Hn Hst. unfold set_thread. destruct (Nat.eqb t (vcur s)) eqn:E.
  - apply Nat.eqb_eq in E. split; [|cbn [vstack]; auto].
    unfold par_ok. cbn [vthreads]. apply Forall_set_nth; assumption.
  - split; [|reflexivity]. unfold par_ok. cbn [vthreads with_threads]. apply Forall_set_nth; assumption.
Qed.

Create HintDb sd.
#[export] Hint Resolve sd_vret sd_vraise sd_vget sd_vunsup sd_vmod_reg sd_reg_top sd_reg_set sd_reg_push
  sd_reg_settop sd_read_vtab sd_write_vtab sd_alloc_vtab sd_alloc_closure sd_metaOp1 sd_metaOp2
  sd_closeUpvalues sd_findUpvalue sd_cur_frame sd_get_closure sd_reg_get sd_reg_pop sd_nccalls_add : sd.

Ltac sd_step :=
  match goal with
  | |- sd (vunsup _) => apply sd_vunsup
  | |- sd (vbind _ _) => apply sd_bind; [|intro]
  | |- sd _ => solve [eauto 3 with sd]
  | |- sd (match ?x with _ => _ end) => destruct x
  | |- sd (let '(_, _) := ?x in _) => destruct x
  end.
Ltac sd_tac := repeat sd_step.

Lemma sd_frame_line : forall f, sd (frame_line f).
Proof. intro f. unfold frame_line. sd_tac. Qed.
#[export] Hint Resolve sd_frame_line : sd.

Lemma sd_where_ : forall n l g, sd (where_ n l g).
Proof.
  induction n; intros l g; simpl; [auto with sd|].
  intros X s Hs. destruct (GetStack (vstack s) l) as [f|]; [|exact Hs].
  destruct (fr_fn f).
  - apply (sd_bind _ _ (frame_line f) (fun l0 => vret (WLine l0))); auto with sd.
  - destruct g; [apply IHn; exact Hs|exact Hs].
Qed.

Lemma sd_where_info : forall l g, sd (where_info l g).
Proof. intros l g X s Hs. unfold where_info. apply sd_where_. exact Hs. Qed.
#[export] Hint Resolve sd_where_info : sd.

Lemma sd_raise_msg : forall A m, sd (@raise_msg A m).
Proof. intros. unfold raise_msg. sd_tac. Qed.
Lemma sd_fault : forall A k, sd (@fault_ A k).
Proof. intros. unfold fault_. sd_tac. Qed.
#[export] Hint Resolve sd_raise_msg sd_fault : sd.

Lemma sd_of_num_text : forall f, sd (of_num_text f).
Proof. intro f. unfold of_num_text. sd_tac. Qed.
Lemma sd_parseNumber : forall s, sd (parseNumber s).
Proof. intro s. unfold parseNumber. sd_tac. Qed.
Lemma sd_numberArith : forall o a b, sd (numberArith o a b).
Proof. intros. unfold numberArith. sd_tac. Qed.
#[export] Hint Resolve sd_of_num_text sd_parseNumber sd_numberArith : sd.

Lemma sd_as_text : forall v, sd (as_text v).
Proof. intro v. unfold as_text. sd_tac. Qed.
Lemma sd_forOperand : forall v, sd (forOperand v).
Proof. intro v. unfold forOperand. sd_tac. Qed.
Lemma sd_raw_get : forall r k, sd (raw_get r k).
Proof. intros. unfold raw_get. sd_tac. Qed.
Lemma sd_RawSet : forall r k v, sd (RawSet r k v).
Proof. intros. unfold RawSet. sd_tac. Qed.
Lemma sd_raw_set_nocheck : forall r k v, sd (raw_set_nocheck r k v).
Proof. intros. unfold raw_set_nocheck. sd_tac. Qed.
Lemma sd_metaCall : forall v, sd (metaCall v).
Proof. intros. unfold metaCall. sd_tac. Qed.
Lemma sd_get_upval : forall cl b, sd (get_upval cl b).
Proof. intros. unfold get_upval. sd_tac. Qed.
Lemma sd_code_at : forall p pc, sd (code_at p pc).
Proof. intros. unfold code_at. sd_tac. Qed.
Lemma sd_kstring : forall p i, sd (kstring p i).
Proof. intros. unfold kstring. sd_tac. Qed.
Lemma sd_rkValue : forall p lb x, sd (rkValue p lb x).
Proof. intros. unfold rkValue. sd_tac. Qed.
#[export] Hint Resolve sd_as_text sd_forOperand sd_raw_get sd_RawSet sd_raw_set_nocheck
  sd_metaCall sd_get_upval sd_code_at sd_kstring sd_rkValue : sd.

Lemma sd_rkString : forall p lb x, sd (rkString p lb x).
Proof. intros. unfold rkString. sd_tac. Qed.
#[export] Hint Resolve sd_rkString : sd.

Lemma sd_initCallFrame : forall cf, sd (initCallFrame cf).
Proof. intros. unfold initCallFrame. sd_tac. Qed.
#[export] Hint Resolve sd_initCallFrame : sd.

Lemma sd_reg_get_range : forall n lo, sd (reg_get_range lo n).
Proof. induction n; intros; simpl; sd_tac. Qed.
Lemma sd_reg_push_list : forall vs, sd (reg_push_list vs).
Proof. induction vs; simpl; sd_tac. Qed.
#[export] Hint Resolve sd_reg_get_range sd_reg_push_list : sd.

Lemma sd_loadnil_loop : forall k i, sd (loadnil_loop i k).
Proof. induction k; intros; cbn [loadnil_loop]; sd_tac. Qed.
Lemma sd_setlist_loop : forall k tb ra off i, sd (setlist_loop tb ra off i k).
Proof. induction k; intros; cbn [setlist_loop]; sd_tac. Qed.
Lemma sd_MOVEN_loop : forall code lbase k pc, sd (MOVEN_loop code lbase k pc).
Proof. intros code lbase. induction k; intros pc; simpl; sd_tac. Qed.
#[export] Hint Resolve sd_loadnil_loop sd_setlist_loop sd_MOVEN_loop : sd.

(* without a resumer switchToParentThread raises *)
Lemma sd_switchToParentThread : forall n h k, sd (switchToParentThread n h k).
Proof.
  intros n h k X s Hs. unfold switchToParentThread. unfold vbind at 1. unfold vget.
  rewrite (par_get_thread s (vcur s) (proj1 Hs)). apply sd_fault. exact Hs.
Qed.
#[export] Hint Resolve sd_switchToParentThread : sd.

(* what a computation returns *)
Definition retp {A} (P : A -> Prop) (m : VM A) : Prop := forall s a s', m s = VRet a s' -> P a.
Lemma retp_bind : forall A B (P : B -> Prop) (m : VM A) (f : A -> VM B), (forall a, retp P (f a)) -> retp P (vbind m f).
Proof.
  intros A B P m f H s b s' E. unfold vbind in E. destruct (m s) as [a s1|e s1| |c]; try discriminate.
  eapply H. eassumption.
Qed.
Lemma retp_vret : forall A (P : A -> Prop) a, P a -> retp P (vret a).
Proof. intros A P a H s x s' E. inversion E. subst. exact H. Qed.
Lemma retp_vunsup : forall A (P : A -> Prop) c, retp P (vunsup c).
Proof. intros A P c s x s' E. discriminate. Qed.

Lemma initCallFrame_fn : forall cf, retp (fun cf' => fr_fn cf' = fr_fn cf) (initCallFrame cf).
Proof.
  intro cf. unfold initCallFrame. destruct (fr_fn cf) eqn:Ef.
  - apply retp_bind. intro cl. apply retp_bind. intro s0.
    destruct (icf_pad _ _ _ _) as [r1 nargs1]. apply retp_bind. intro argtb.
    destruct (icf_body _ _ _ _ _ _ _) as [r2 lb']. apply retp_bind. intro. apply retp_vret. reflexivity.
  - apply retp_bind. intro. apply retp_vret. exact Ef.
Qed.

(* pushCallFrame pushes one frame for the function it was given, or raises on the stack as it was *)
Lemma ht_pushCallFrame : forall ofn b lb rb na nr fn meta X,
  ht (stk X) (pushCallFrame ofn b lb rb na nr fn meta)
     (fun _ s => exists cf, stk (cf :: X) s /\ ofn = Some (fr_fn cf)) (estk X).
Proof.
  intros ofn b lb rb na nr fn meta X. unfold pushCallFrame.
  eapply ht_bind; [destruct meta; [apply sd_vmod_reg|apply sd_vret]|intro].
  destruct ofn as [f|].
  2:{ eapply ht_noret; [apply (sd_fault unit 3 X)|]. intros s9 a9 s9'. apply RunSafeFacts.fault_not_ret. }
  intros s [Hp Hs]. unfold vbind at 1. unfold vget.
  destruct (len (vstack s) >=? CallStackSize).
  { pose proof (sd_raise_msg unit m_stack_overflow X s (conj Hp Hs)) as H.
    destruct (raise_msg m_stack_overflow s) eqn:ER; auto. exfalso. eapply RunSafeFacts.raise_msg_not_ret. eassumption. }
  unfold vbind at 1. unfold vmod.
  set (cf := mkFrame f 0 b lb rb (if meta then na + 1 else na) nr 0).
  set (s1 := with_stack s (cf :: vstack s)).
  assert (H1 : stk (cf :: X) s1) by (split; [exact Hp|cbn [vstack s1 with_stack]; rewrite Hs; reflexivity]).
  unfold vbind at 1. pose proof (sd_initCallFrame cf (cf :: X) s1 H1) as HI.
  destruct (initCallFrame cf s1) as [cf' s2|e s2| |c] eqn:EI; auto.
  - destruct HI as [Hp2 Hs2]. unfold set_cur_frame. rewrite Hs2. exists cf'. split; [split; [exact Hp2|reflexivity]|].
    apply initCallFrame_fn in EI. rewrite EI. reflexivity.
  - apply estk_cons in HI. exact HI.
Qed.

(* ---------- re-entrance ---------- *)
Section Reent.
Variable ml : option nat -> VM unit.
Hypothesis Hml : ml_disc ml.

Lemma sd_callR : forall na nr rb, sd (callR ml na nr rb).
Proof.
  intros na nr rb X. unfold callR.
  eapply ht_bind; [apply sd_reg_top|intro top].
  eapply ht_bind; [apply sd_reg_get|intro lv].
  eapply ht_bind; [apply sd_metaCall|intro fm].
  eapply ht_bind with (Q := fun _ s => exists cf, stk (cf :: X) s);
    [eapply ht_conseq; [apply ht_pushCallFrame|intros s9 H9; exact H9|intros a9 s9 [cf9 [H9 _]]; exists cf9; exact H9|intros s9 H9; exact H9]|intro].
  cbv beta. apply (ht_ex _ _ (fun cf s => stk (cf :: X) s)). intro cf.
  eapply ht_bind; [eapply ht_conseq; [apply (sd_nccalls_add 1 (cf :: X))|auto|intros a0 s0 H0; exact H0|apply estk_cons]|intro].
  intros s Hs. unfold vbind at 1. unfold vget. unfold vbind at 1.
  destruct Hs as [Hp Hs].
  pose proof (Hml (length (vstack s) - 1)%nat s Hp) as HM. rewrite Hs in HM. cbn [length tl] in HM.
  specialize (HM ltac:(lia)). rewrite Hs. cbn [length].
  destruct (ml (Some (S (length X) - 1)%nat) s) as [u s1|e s1| |c]; auto.
  assert (H1 : stk X s1) by exact HM.
  assert (Ht : sd (vdo _ <- nccalls_add (-1); if nr =? MultRet then vret tt else reg_settop ((if rb <? 0 then top - na - 1 else rb) + nr))).
  { apply sd_bind; [auto with sd|intro]. destruct (nr =? MultRet); auto with sd. }
  apply (Ht X s1 H1).
Qed.
Hint Resolve sd_callR : sd.
Lemma sd_Call : forall a b, sd (Call ml a b).
Proof. intros. unfold Call. auto with sd. Qed.
Hint Resolve sd_Call : sd.

Lemma sd_getField : forall n o k, sd (getField ml n o k).
Proof. induction n; intros; simpl; sd_tac. Qed.
Lemma sd_setField : forall n c o k v, sd (setField ml n c o k v).
Proof. induction n; intros; simpl; sd_tac. Qed.
Lemma sd_objectArith : forall o a b, sd (objectArith ml o a b).
Proof. intros. unfold objectArith. sd_tac. Qed.
Lemma sd_concat_loop : forall f i t r, sd (concat_loop ml f i t r).
Proof. induction f; intros; simpl; sd_tac. Qed.
Hint Resolve sd_concat_loop : sd.
Lemma sd_stringConcat : forall t l, sd (stringConcat ml t l).
Proof. intros. unfold stringConcat. sd_tac. Qed.
Lemma sd_objectRational : forall a b e, sd (objectRational ml a b e).
Proof. intros. unfold objectRational. sd_tac. Qed.
Hint Resolve sd_objectRational : sd.
Lemma sd_objectRationalWithError : forall a b e, sd (objectRationalWithError ml a b e).
Proof. intros. unfold objectRationalWithError. sd_tac. Qed.
Hint Resolve sd_objectRationalWithError : sd.
Lemma sd_lessThan : forall a b, sd (lessThan ml a b).
Proof. intros. unfold lessThan. sd_tac. Qed.
Lemma sd_lessEq : forall a b, sd (lessEq ml a b).
Proof. intros. unfold lessEq. sd_tac. Qed.
Lemma sd_equals : forall a b, sd (equals ml a b).
Proof. intros. unfold equals. sd_tac. Qed.

(* PCall: the recovery cuts the stack back to what it was *)
Lemma skipn_app_length : forall A (k X : list A), skipn (length (k ++ X) - length X) (k ++ X) = X.
Proof.
  intros A k X. rewrite app_length. replace (length k + length X - length X)%nat with (length k) by lia.
  rewrite skipn_app. rewrite skipn_all. rewrite Nat.sub_diag. reflexivity.
Qed.

Lemma unwind_stk : forall X base s, estk X s -> stk X (unwind (length X) base s).
Proof.
  intros X base s [Hp [k E]]. split.
  - exact Hp.
  - unfold unwind, SetSp, closeUpvalues_st. cbn [vstack with_reg with_uvcache with_uvs with_stack].
    rewrite E. apply skipn_app_length.
Qed.

Lemma sd_PCall : forall na nr h, sd (PCall ml na nr h).
Proof.
  intros na nr h X s Hs. unfold PCall.
  pose proof (sd_Call na nr X s Hs) as HC. destruct Hs as [Hp Hs]. rewrite Hs.
  destruct (Call ml na nr s) as [u s'|e s0| |c]; auto.
  - destruct HC as [Hp' Hs']. split; [exact Hp'|]. unfold SetSp. cbn [vstack with_stack]. rewrite Hs'.
    rewrite Nat.sub_diag. reflexivity.
  - assert (H0 : estk X (set_nccalls (cur_nccalls s) s0)).
    { destruct HC as [Hp0 Hk]. split; [apply par_set_nccalls; exact Hp0|exact Hk]. }
    destruct h as [h|]; [|apply unwind_stk; exact H0].
    destruct H0 as [Hp0 [k Hk]].
    assert (Hh : sd (vdo _ <- reg_push h; vdo _ <- reg_push e; vdo _ <- Call ml 1 1; vdo t <- reg_top; reg_get (t - 1))) by sd_tac.
    specialize (Hh (k ++ X) (set_nccalls (cur_nccalls s) s0) (conj Hp0 Hk)).
    destruct ((vdo _ <- reg_push h; vdo _ <- reg_push e; vdo _ <- Call ml 1 1; vdo t <- reg_top; reg_get (t - 1))
                (set_nccalls (cur_nccalls s) s0)) as [hv s''|e2 s''| |c]; auto.
    + apply unwind_stk. destruct Hh as [H1 H2]. split; [exact H1|exists k; exact H2].
    + apply unwind_stk. destruct Hh as [H1 [k2 H2]]. split; [exact H1|]. exists (k2 ++ k). rewrite <- app_assoc. exact H2.
Qed.

(* ---------- host functions ---------- *)
Lemma sd_bi_args : sd bi_args.
Proof. unfold bi_args. sd_tac. Qed.
Lemma sd_bi_ret : forall vs, sd (bi_ret vs).
Proof. intros. unfold bi_ret. sd_tac. Qed.
Lemma sd_badarg : forall A, sd (@badarg A).
Proof. intros. unfold badarg. auto with sd. Qed.
Hint Resolve sd_bi_args sd_bi_ret sd_badarg : sd.
Lemma sd_v_opt_int : forall v d, sd (v_opt_int v d).
Proof. intros. unfold v_opt_int. sd_tac. Qed.
Lemma sd_v_border : forall t, sd (v_border t).
Proof. intros. unfold v_border. sd_tac. Qed.
Lemma sd_vmapM : forall A B (f : A -> VM B) l, (forall a, sd (f a)) -> sd (vmapM f l).
Proof. intros A B f l H. induction l; simpl; sd_tac. Qed.
Lemma sd_frame_at_level : forall l, sd (frame_at_level l).
Proof. intros l X s Hs. exact Hs. Qed.
Hint Resolve sd_v_opt_int sd_v_border sd_frame_at_level : sd.

Lemma sd_float_fold : forall (g : float -> float -> float) l acc,
  sd ((fix go (l : list value) (acc : float) : VM float :=
         match l with [] => vret acc | VNum x :: r => go r (g acc x) | _ => vunsup 219 end) l acc).
Proof. intros g. induction l; intros acc; [apply sd_vret|]. destruct a; try apply sd_vunsup. apply IHl. Qed.

Lemma sd_simple_builtin : forall b args, sd (simple_builtin b args).
Proof.
  intros b args. unfold simple_builtin.
  destruct b; sd_tac.
  all: try apply sd_float_fold.
  all: try (apply sd_vmapM; intro; sd_tac).
  all: try (intros X s Hs; exact Hs).
  all: try (intros X s Hs; destruct (metatable_raw _ _); exact Hs).
Qed.
Hint Resolve sd_simple_builtin : sd.

Lemma sd_ToStringMeta : forall v, sd (ToStringMeta ml v).
Proof. intros. unfold ToStringMeta. sd_tac. Qed.
Hint Resolve sd_ToStringMeta sd_PCall : sd.

Lemma sd_new_thread : forall f w, sd (new_thread f w).
Proof.
  intros f w X s [Hp Hs]. split; [|exact Hs]. unfold par_ok. cbn [vthreads with_threads].
  apply Forall_app. split; [exact Hp|]. constructor; [reflexivity|constructor].
Qed.
Hint Resolve sd_new_thread : sd.

Lemma sd_set_closure_env : forall c env, sd (set_closure_env c env).
Proof. intros. unfold set_closure_env. sd_tac. Qed.
Hint Resolve sd_set_closure_env : sd.

(* every host function of the cut machine *)
Lemma sd_gfunction_nc : forall b, sd (gfunction_nc ml b).
Proof.
  intro b. unfold gfunction_nc. destruct (is_resume b) eqn:Er; [intros X s Hs; exact Logic.I|].
  unfold gfunction. apply sd_bind; [auto with sd|intro args].
  destruct b; try discriminate; try solve [sd_tac].
  destruct co; [sd_tac|discriminate].
Qed.

End Reent.

(* ---------- computations inside one instruction: the frames below the current one stay ---------- *)
Definition lua_fr (f : cframe) : Prop := is_go (fr_fn f) = false.

Definition stk1 (rest : list cframe) (fn : fnref) (s : vstate) : Prop :=
  par_ok s /\ exists cf, vstack s = cf :: rest /\ fr_fn cf = fn.

Definition locq {A} (fn : fnref) (Q : A -> Prop) (m : VM A) : Prop :=
  forall rest, ht (stk1 rest fn) m (fun a s => Q a /\ stk1 rest fn s) (estk rest).

Lemma locq_sd : forall A fn (m : VM A), sd m -> locq fn (fun _ => True) m.
Proof.
  intros A fn m H rest s [Hp [cf [Hs Hf]]]. specialize (H (cf :: rest) s (conj Hp Hs)).
  destruct (m s) as [a s1|e s1| |c]; auto.
  - destruct H as [H1 H2]. split; [exact Logic.I|]. split; [exact H1|]. exists cf. auto.
  - apply estk_cons in H. exact H.
Qed.

Lemma locq_bind : forall A B fn Q (m : VM A) (f : A -> VM B),
  locq fn (fun _ => True) m -> (forall a, locq fn Q (f a)) -> locq fn Q (vbind m f).
Proof.
  intros A B fn Q m f Hm Hf rest. eapply ht_bind; [apply Hm|]. intro a.
  eapply ht_conseq; [apply (Hf a rest)|intros s [_ H]; exact H|auto|auto].
Qed.

Lemma locq_vret : forall A fn (Q : A -> Prop) a, Q a -> locq fn Q (vret a).
Proof. intros A fn Q a H rest s Hs. split; assumption. Qed.
Lemma locq_vunsup : forall A fn (Q : A -> Prop) c, locq fn Q (vunsup c).
Proof. intros A fn Q c rest s Hs. exact Logic.I. Qed.

Lemma locq_weaken : forall A fn (Q Q' : A -> Prop) (m : VM A), locq fn Q m -> (forall a, Q a -> Q' a) -> locq fn Q' m.
Proof.
  intros A fn Q Q' m H HQ rest. eapply ht_conseq; [apply (H rest)|auto|intros a s [H1 H2]; split; auto|auto].
Qed.

Lemma locq_fault : forall A fn (Q : A -> Prop) k, locq fn Q (@fault_ A k).
Proof.
  intros A fn Q k rest. eapply ht_noret; [apply (locq_sd _ fn _ (sd_fault A k) rest)|].
  intros s a s'. apply RunSafeFacts.fault_not_ret.
Qed.

Lemma locq_set_cur_frame : forall fn f, fr_fn f = fn -> locq fn (fun _ => True) (set_cur_frame f).
Proof.
  intros fn f Hf rest s [Hp [cf [Hs _]]]. unfold set_cur_frame. rewrite Hs.
  split; [exact Logic.I|]. split; [exact Hp|]. exists f. auto.
Qed.

Lemma locq_add_pc : forall fn d, locq fn (fun _ => True) (add_pc d).
Proof.
  intros fn d rest s [Hp [cf [Hs Hf]]]. unfold add_pc, vbind, cur_frame. rewrite Hs.
  unfold set_cur_frame. rewrite Hs. split; [exact Logic.I|]. split; [exact Hp|].
  eexists. split; [reflexivity|]. exact Hf.
Qed.

Create HintDb loc.
#[export] Hint Resolve locq_add_pc : loc.
#[export] Hint Extern 1 (locq _ _ (set_cur_frame _)) => apply locq_set_cur_frame; reflexivity : loc.

Ltac loc_step :=
  match goal with
  | |- locq _ _ (vunsup _) => apply locq_vunsup
  | |- locq _ _ (fault_ _) => apply locq_fault
  | |- locq _ _ (vret false) => apply locq_vret; reflexivity
  | |- locq _ _ (vbind _ _) => apply locq_bind; [|intro]
  | |- locq _ (fun _ => True) _ => solve [eauto 3 with loc | apply locq_sd; eauto 3 with sd]
  | |- locq _ _ (match ?x with _ => _ end) => destruct x
  | |- locq _ _ (let '(_, _) := ?x in _) => destruct x
  end.
Ltac loc_tac := repeat loc_step.

Lemma estk_tl : forall X s, estk X s -> estk (tl X) s.
Proof. intros [|f X] s H; [exact H|]. cbn [tl]. eapply estk_cons. exact H. Qed.

Lemma ht_vget_bind : forall A (P : vstate -> Prop) (F : vstate -> VM A) (Q : A -> vstate -> Prop) (E : vstate -> Prop),
  (forall s0, P s0 -> ht P (F s0) Q E) -> ht P (vbind vget F) Q E.
Proof. intros A P F Q E H s Hs. unfold vbind, vget. apply (H s Hs). exact Hs. Qed.

(* without a resumer switchToParentThread does not return *)
Lemma ht_switchToParentThread : forall n h k X, ht (stk X) (switchToParentThread n h k) (fun _ _ => False) (estk X).
Proof.
  intros n h k X s Hs. unfold switchToParentThread. unfold vbind at 1. unfold vget.
  rewrite (par_get_thread s (vcur s) (proj1 Hs)).
  pose proof (sd_fault unit 10 X s Hs) as H. destruct (fault_ 10 s) eqn:E; auto.
  exfalso. eapply RunSafeFacts.fault_not_ret. eassumption.
Qed.

Section Inst.
Variable ml : option nat -> VM unit.
Variable gf : builtin -> VM Z.
Hypothesis Hml : ml_disc ml.
Hypothesis Hgf : forall b, sd (gf b).

Hint Resolve sd_callR sd_Call sd_getField sd_setField sd_objectArith sd_stringConcat
  sd_lessThan sd_lessEq sd_equals : sd.

(* a host function's frame is popped when it returns (with the caller's frame, for a tail call) *)
Lemma ht_callGFunction : forall tailcall g X,
  ht (stk (g :: X)) (callGFunction gf tailcall)
     (fun r s => r = false /\ stk (if tailcall then tl X else X) s)
     (estk (if tailcall then tl X else X)).
Proof.
  intros tailcall g X.
  assert (HE : forall s, estk (g :: X) s -> estk (if tailcall then tl X else X) s).
  { intros s H. apply estk_cons in H. destruct tailcall; [apply estk_tl|]; exact H. }
  unfold callGFunction.
  eapply ht_bind with (Q := fun f0 s => f0 = g /\ stk (g :: X) s).
  { intros s Hs. unfold cur_frame. rewrite (proj2 Hs). auto. }
  intro f0. intros s [-> Hs]. revert s Hs.
  match goal with |- forall s, _ -> match ?m s with _ => _ end =>
    change (ht (stk (g :: X)) m (fun r s => r = false /\ stk (if tailcall then tl X else X) s) (estk (if tailcall then tl X else X))) end.
  destruct (fr_fn g) as [c|b]; [intros s Hs; exact Logic.I|].
  eapply ht_bind; [eapply ht_conseq; [apply (Hgf b (g :: X))|auto|intros a9 s9 H9; exact H9|exact HE]|intro gfnret].
  eapply ht_bind with (Q := fun f1 s => f1 = g /\ stk (g :: X) s).
  { intros s Hs. unfold cur_frame. rewrite (proj2 Hs). auto. }
  intro frame. intros s [-> Hs]. revert s Hs.
  match goal with |- forall s, _ -> match ?m s with _ => _ end =>
    change (ht (stk (g :: X)) m (fun r s => r = false /\ stk (if tailcall then tl X else X) s) (estk (if tailcall then tl X else X))) end.
  destruct (gfnret <? 0).
  - (* a yield: no resumer, it raises *)
    apply ht_vget_bind. intros sy Hsy. rewrite (par_get_thread sy (vcur sy) (proj1 Hsy)). rewrite andb_false_r.
    eapply ht_bind with (Q := fun _ s => exists g', stk (g' :: X) s).
    { destruct tailcall.
      - intros s [Hp Hs]. unfold set_cur_frame. rewrite Hs. eexists. split; [exact Hp|reflexivity].
      - intros s Hs. exists g. exact Hs. }
    intro. apply ht_ex. intro g'.
    eapply ht_bind; [eapply ht_conseq; [apply (sd_reg_top (g' :: X))|auto|intros a9 s9 H9; exact H9|intros s9 H9; apply estk_cons in H9; destruct tailcall; [apply estk_tl|]; exact H9]|intro top].
    eapply ht_bind; [eapply ht_conseq; [apply (sd_cur_frame (g' :: X))|auto|intros a9 s9 H9; exact H9|intros s9 H9; apply estk_cons in H9; destruct tailcall; [apply estk_tl|]; exact H9]|intro cf].
    eapply ht_bind with (Q := fun _ _ => False).
    { eapply ht_conseq; [apply (ht_switchToParentThread _ _ _ (g' :: X))|auto|auto|intros s9 H9; apply estk_cons in H9; destruct tailcall; [apply estk_tl|]; exact H9]. }
    intros u0 s [].
  - eapply ht_bind with (Q := fun _ s => exists g', stk (g' :: (if tailcall then tl X else X)) s).
    { destruct tailcall.
      - intros s [Hp Hs]. unfold vmod. rewrite Hs. destruct X as [|c X']; cbn [tl].
        + exists g. split; [exact Hp|exact Hs].
        + exists g. split; [exact Hp|reflexivity].
      - intros s Hs. exists g. exact Hs. }
    intro. apply ht_ex. intro g'. cbv zeta.
    apply ht_vget_bind. intros s0 Hs0. rewrite (par_get_thread s0 (vcur s0) (proj1 Hs0)). cbn [andb].
    eapply ht_bind; [eapply ht_conseq; [apply (sd_vmod_reg _ (g' :: (if tailcall then tl X else X)))|auto|intros a9 s9 H9; exact H9|apply estk_cons]|intro].
    eapply ht_bind with (Q := fun _ s => stk (if tailcall then tl X else X) s).
    { intros s [Hp Hs]. unfold vmod. split; [exact Hp|]. cbn [vstack with_stack]. rewrite Hs. reflexivity. }
    intros u0 s Hs. split; [reflexivity|exact Hs].
Qed.


(* state updates that touch neither the frames nor the resumers *)
Lemma sd_vmod_frames : forall f, (forall s, par_ok s -> par_ok (f s) /\ vstack (f s) = vstack s) -> sd (vmod f).
Proof. intros f H X s [Hp Hs]. destruct (H s Hp) as [H1 H2]. split; [exact H1|congruence]. Qed.

Lemma get_thread_cur_stack : forall s, th_stack (get_thread s (vcur s)) = vstack s.
Proof. intro s. unfold get_thread. rewrite Nat.eqb_refl. reflexivity. Qed.

(* every instruction except CALL, TAILCALL and RETURN keeps the frames below the current one,
   leaves the current frame's function alone and continues the loop *)
Lemma exec_op_local : forall cl cf inst base o,
  op_of_code (opGetOpCode inst) = Some o -> o <> OP_CALL -> o <> OP_TAILCALL -> o <> OP_RETURN ->
  locq (fr_fn cf) (fun r => r = false) (exec_op ml gf cl cf inst base).
Proof.
  intros cl cf inst base o Hop H1 H2 H3. unfold exec_op. rewrite Hop. cbv zeta.
  destruct o; try congruence; loc_tac.
  - (* SETUPVAL *) apply locq_sd. apply sd_vmod_frames. intros s Hp.
    destruct (uv_closed _); [split; [exact Hp|reflexivity]|].
    apply set_thread_frames; [exact Hp|apply par_get_thread; exact Hp|].
    intro E. cbn [th_stack]. rewrite E. apply get_thread_cur_stack.
  - (* CLOSURE: capture loop *)
    apply locq_sd. generalize (@nil nat). generalize (fr_pc cf).
    induction (Z.to_nat (xp_nup x)) as [|k IH]; intros pc acc; [apply sd_vret|].
    rewrite WfTieFacts.capture_loop_S. sd_tac; apply IH.
Qed.

(* which way the loop goes after a frame was popped *)
Definition ret_flag (base : option nat) (rest : list cframe) : bool :=
  ((match base with Some b => Nat.eqb b (length rest) | None => false end)
   || (match rest with [] => true | _ => false end))
  || (match rest with [] => true | f :: _ => is_go (fr_fn f) end).

Definition tc_flag (base : option nat) (rest : list cframe) : bool :=
  match rest with
  | [] => true
  | f :: _ => is_go (fr_fn f) || (match base with Some b => Nat.eqb (length rest) b | None => false end)
  end.

(* OP_RETURN pops exactly the current frame *)
Lemma ht_do_return : forall cf0 RA B base cf rest,
  ht (stk (cf :: rest)) (do_return cf0 RA B base)
     (fun r s => stk rest s /\ r = ret_flag base rest) (estk rest).
Proof.
  intros cf0 RA B base cf rest. unfold do_return.
  eapply ht_bind; [eapply ht_conseq; [apply (sd_closeUpvalues _ (cf :: rest))|intros s9 H9; exact H9|intros a9 s9 H9; exact H9|apply estk_cons]|intro].
  eapply ht_bind; [eapply ht_conseq; [apply (sd_reg_top (cf :: rest))|intros s9 H9; exact H9|intros a9 s9 H9; exact H9|apply estk_cons]|intro top].
  cbv zeta. apply ht_vget_bind. intros s0 [Hp0 Hs0].
  rewrite (par_get_thread s0 (vcur s0) Hp0). cbn [andb]. rewrite Hs0.
  eapply ht_bind with (Q := fun _ s => stk rest s).
  { intros s [Hp Hs]. split; [exact Hp|]. cbn [vstack with_stack]. rewrite Hs. reflexivity. }
  intro. apply ht_vget_bind. intros s1 [Hp1 Hs1]. rewrite Hs1.
  eapply ht_bind; [eapply ht_conseq; [apply (sd_vmod_reg _ rest)|intros s9 H9; exact H9|intros a9 s9 H9; exact H9|intros s9 H9; exact H9]|intro].
  intros s Hs. split; [exact Hs|]. unfold ret_flag.
  replace (length (cf :: rest) - 1)%nat with (length rest) by (cbn [length]; lia). reflexivity.
Qed.

(* the loop invariant: the frames of the caller at the bottom, Lua frames above them *)
Definition LI (Bt : list cframe) (s : vstate) : Prop :=
  par_ok s /\ exists k, k <> [] /\ Forall lua_fr k /\ vstack s = k ++ Bt.

Lemma estk_app : forall k X s, estk (k ++ X) s -> estk X s.
Proof. intros k X s [Hp [k2 E]]. split; [exact Hp|]. exists (k2 ++ k). rewrite <- app_assoc. exact E. Qed.

Lemma flags_after_pop : forall k' Bt, Forall lua_fr k' ->
  (k' = [] -> ret_flag (Some (length Bt)) (k' ++ Bt) = true /\ tc_flag (Some (length Bt)) (k' ++ Bt) = true) /\
  (k' <> [] -> ret_flag (Some (length Bt)) (k' ++ Bt) = false /\ tc_flag (Some (length Bt)) (k' ++ Bt) = false).
Proof.
  intros k' Bt Hl. split.
  - intros ->. cbn [app]. unfold ret_flag, tc_flag. rewrite Nat.eqb_refl. split; [reflexivity|].
    destruct Bt; [reflexivity|apply orb_true_r].
  - intro Hne. destruct k' as [|f k'']; [congruence|]. inversion Hl; subst. unfold lua_fr in *.
    unfold ret_flag, tc_flag. cbn [app length]. match goal with H : is_go _ = false |- _ => rewrite H end.
    assert (E1 : Nat.eqb (length Bt) (S (length (k'' ++ Bt))) = false) by (apply Nat.eqb_neq; rewrite app_length; lia).
    assert (E2 : Nat.eqb (S (length (k'' ++ Bt))) (length Bt) = false) by (apply Nat.eqb_neq; rewrite app_length; lia).
    rewrite E1, E2. split; reflexivity.
Qed.

Lemma pop_post : forall k' Bt (r : bool) s, Forall lua_fr k' -> stk (k' ++ Bt) s ->
  (r = ret_flag (Some (length Bt)) (k' ++ Bt) \/ r = tc_flag (Some (length Bt)) (k' ++ Bt)) ->
  if r then stk Bt s else LI Bt s.
Proof.
  intros k' Bt r s Hl Hs Hr. destruct (flags_after_pop k' Bt Hl) as [F1 F2].
  destruct k' as [|f k''].
  - destruct (F1 eq_refl) as [E1 E2]. assert (r = true) by (destruct Hr; congruence). subst r. exact Hs.
  - assert (Hne : f :: k'' <> []) by discriminate. destruct (F2 Hne) as [E1 E2].
    assert (r = false) by (destruct Hr; congruence). subst r.
    destruct Hs as [Hp Hs]. split; [exact Hp|]. exists (f :: k''). auto.
Qed.

Lemma ht_pure : forall A (P : vstate -> Prop) (P0 : Prop) (m : VM A) Q E,
  (P0 -> ht P m Q E) -> ht (fun s => P s /\ P0) m Q E.
Proof. intros A P P0 m Q E H s [Hs H0]. apply H; assumption. Qed.

(* one instruction of the loop whose base frame sits on the frames Bt *)
Lemma exec_op_disc : forall cl cf inst k' Bt,
  lua_fr cf -> Forall lua_fr k' ->
  ht (stk (cf :: k' ++ Bt)) (exec_op ml gf cl cf inst (Some (length Bt)))
     (fun r s => if r then stk Bt s else LI Bt s) (estk Bt).
Proof.
  intros cl cf inst k' Bt Hcf Hk.
  assert (HE : forall s, estk (k' ++ Bt) s -> estk Bt s) by (intro s; apply estk_app).
  assert (HE1 : forall s, estk (cf :: k' ++ Bt) s -> estk Bt s) by (intros s H; apply HE; eapply estk_cons; exact H).
  assert (Hloc : forall cf', fr_fn cf' = fr_fn cf -> LI Bt (* shape *) = LI Bt) by reflexivity. clear Hloc.
  destruct (op_of_code (opGetOpCode inst)) as [o|] eqn:Hop;
    [|unfold exec_op; rewrite Hop; intros s Hs; exact Logic.I].
  assert (D : o = OP_CALL \/ o = OP_TAILCALL \/ o = OP_RETURN \/ (o <> OP_CALL /\ o <> OP_TAILCALL /\ o <> OP_RETURN)).
  { destruct o; ((left; reflexivity) || (right; left; reflexivity) || (right; right; left; reflexivity) || (right; right; right; repeat split; discriminate)). }
  destruct D as [->|[->|[->|[N1 [N2 N3]]]]].
  - (* CALL *)
    unfold exec_op. rewrite Hop. cbv zeta.
    eapply ht_bind; [eapply ht_conseq; [apply (sd_reg_top (cf :: k' ++ Bt))|intros s9 H9; exact H9|intros a9 s9 H9; exact H9|exact HE1]|intro top].
    eapply ht_bind; [eapply ht_conseq; [apply (sd_reg_get _ (cf :: k' ++ Bt))|intros s9 H9; exact H9|intros a9 s9 H9; exact H9|exact HE1]|intro lv].
    eapply ht_bind; [eapply ht_conseq; [apply (sd_metaCall _ (cf :: k' ++ Bt))|intros s9 H9; exact H9|intros a9 s9 H9; exact H9|exact HE1]|intro fm].
    eapply ht_bind; [eapply ht_conseq; [apply ht_pushCallFrame|intros s9 H9; exact H9|intros a9 s9 H9; exact H9|exact HE1]|intro].
    cbv beta. apply (ht_ex _ _ (fun new s => stk (new :: cf :: k' ++ Bt) s /\ fst fm = Some (fr_fn new))). intro new.
    apply ht_pure. intro Hfm. rewrite Hfm.
    destruct (fr_fn new) as [c|b] eqn:Enew.
    + intros s [Hp Hs]. split; [exact Hp|]. exists (new :: cf :: k'). split; [discriminate|]. split; [|exact Hs].
      constructor; [unfold lua_fr; rewrite Enew; reflexivity|]. constructor; assumption.
    + eapply ht_conseq; [apply (ht_callGFunction false new (cf :: k' ++ Bt))|intros s9 H9; exact H9| |exact HE1].
      intros r s [-> [Hp Hs]]. split; [exact Hp|]. exists (cf :: k'). split; [discriminate|]. split; [constructor; assumption|exact Hs].
  - (* TAILCALL *)
    unfold exec_op. rewrite Hop. cbv zeta.
    eapply ht_bind; [eapply ht_conseq; [apply (sd_reg_top (cf :: k' ++ Bt))|intros s9 H9; exact H9|intros a9 s9 H9; exact H9|exact HE1]|intro top].
    eapply ht_bind; [eapply ht_conseq; [apply (sd_reg_get _ (cf :: k' ++ Bt))|intros s9 H9; exact H9|intros a9 s9 H9; exact H9|exact HE1]|intro lv].
    eapply ht_bind; [eapply ht_conseq; [apply (sd_metaCall _ (cf :: k' ++ Bt))|intros s9 H9; exact H9|intros a9 s9 H9; exact H9|exact HE1]|intro fm].
    destruct (fst fm) as [callable|].
    2:{ eapply ht_noret; [eapply ht_conseq; [apply (sd_fault bool 3 (cf :: k' ++ Bt))|intros s9 H9; exact H9|intros a9 s9 H9; exact H9|exact HE1]|].
        intros s9 a9 s9'. apply RunSafeFacts.fault_not_ret. }
    eapply ht_bind; [eapply ht_conseq; [apply (sd_closeUpvalues _ (cf :: k' ++ Bt))|intros s9 H9; exact H9|intros a9 s9 H9; exact H9|exact HE1]|intro].
    destruct callable as [c|b].
    + (* Lua callee: the frame is re-used *)
      unfold tailcall_lua.
      eapply ht_bind; [eapply ht_conseq; [destruct (snd fm); [apply (sd_vmod_reg _ (cf :: k' ++ Bt))|apply (sd_vret _ tt (cf :: k' ++ Bt))]|intros s9 H9; exact H9|intros a9 s9 H9; exact H9|exact HE1]|intro].
      eapply ht_bind with (Q := fun _ s => exists cf1, stk (cf1 :: k' ++ Bt) s).
      { intros s [Hp Hs]. unfold set_cur_frame. rewrite Hs. eexists. split; [exact Hp|reflexivity]. }
      intro. cbv beta. apply (ht_ex _ _ (fun cf1 s => stk (cf1 :: k' ++ Bt) s)). intro cf1.
      eapply ht_bind; [eapply ht_conseq; [apply (sd_initCallFrame _ (cf1 :: k' ++ Bt))|intros s9 H9; exact H9|intros a9 s9 H9; exact H9|intros s9 H9; apply HE; eapply estk_cons; exact H9]|intro cf2].
      eapply ht_bind; [eapply ht_conseq; [apply (sd_vmod_reg _ (cf1 :: k' ++ Bt))|intros s9 H9; exact H9|intros a9 s9 H9; exact H9|intros s9 H9; apply HE; eapply estk_cons; exact H9]|intro].
      eapply ht_bind with (Q := fun _ s => exists cf3, (stk (cf3 :: k' ++ Bt) s /\ fr_fn cf3 = FnLua c)).
      { intros s [Hp Hs]. unfold set_cur_frame. rewrite Hs. eexists. split; [split; [exact Hp|reflexivity]|reflexivity]. }
      intro. intros s [cf3 [[Hp Hs] Hf]]. split; [exact Hp|]. exists (cf3 :: k'). split; [discriminate|]. split; [|exact Hs].
      constructor; [unfold lua_fr; rewrite Hf; reflexivity|assumption].
    + (* host function: its frame and the caller's are gone when it returns *)
      apply ht_vget_bind. intros s0 [Hp0 Hs0]. rewrite Hs0.
      eapply ht_bind; [eapply ht_conseq; [apply ht_pushCallFrame|intros s9 H9; exact H9|intros a9 s9 H9; exact H9|exact HE1]|intro].
      cbv beta. apply (ht_ex _ _ (fun new s => stk (new :: cf :: k' ++ Bt) s /\ Some (FnGo b) = Some (fr_fn new))). intro new.
      apply ht_pure. intros _.
      eapply ht_bind; [eapply ht_conseq; [apply (ht_callGFunction true new (cf :: k' ++ Bt))|intros s9 H9; exact H9|intros a9 s9 H9; exact H9|exact HE]|intro r].
      cbn [tl]. intros s [-> Hs]. unfold vbind, vget, vret. cbv beta iota.
      apply (pop_post k' Bt _ s Hk Hs). right. rewrite (proj2 Hs). unfold tc_flag.
      replace (length (cf :: k' ++ Bt) - 1)%nat with (length (k' ++ Bt)) by (cbn [length]; lia). reflexivity.
  - (* RETURN *)
    unfold exec_op. rewrite Hop. cbv zeta.
    eapply ht_conseq; [apply (ht_do_return cf _ _ (Some (length Bt)) cf (k' ++ Bt))|intros s9 H9; exact H9| |exact HE].
    intros r s [Hs ->]. apply (pop_post k' Bt _ s Hk Hs). left. reflexivity.
  - (* everything else stays in the frame *)
    eapply ht_conseq; [apply (exec_op_local cl cf inst (Some (length Bt)) o Hop N1 N2 N3 (k' ++ Bt))| | |exact HE].
    + intros s [Hp Hs]. split; [exact Hp|]. exists cf. auto.
    + intros r s [-> [Hp [cf' [Hs Hf]]]]. split; [exact Hp|]. exists (cf' :: k'). split; [discriminate|]. split; [|exact Hs].
      constructor; [unfold lua_fr in *; rewrite Hf; exact Hcf|exact Hk].
Qed.

End Inst.

(* ---------- the dispatch loop ---------- *)
Lemma ht_fetch : forall cf rest,
  ht (stk (cf :: rest)) fetch (fun _ s => exists cf', stk (cf' :: rest) s /\ fr_fn cf' = fr_fn cf) (estk rest).
Proof.
  intros cf rest s [Hp Hs]. unfold fetch. unfold vbind at 1. unfold cur_frame. rewrite Hs.
  revert s Hp Hs.
  match goal with |- forall s, _ -> _ -> match ?m s with _ => _ end =>
    assert (HL : locq (fr_fn cf) (fun _ => True) m) end.
  { destruct (fr_fn cf) eqn:Ef; loc_tac. apply locq_set_cur_frame. exact Ef. }
  intros s Hp Hs. specialize (HL rest s). cbv beta in HL.
  match goal with |- match ?m s with _ => _ end => destruct (m s) as [a s1|e s1| |c] end; auto.
  - destruct HL as [_ [Hp1 [cf' [Hs1 Hf]]]]; [split; [exact Hp|exists cf; auto]|]. exists cf'. split; [split|]; assumption.
  - apply HL. split; [exact Hp|exists cf; auto].
Qed.

Section Loop.
Variable ml : option nat -> VM unit.
Hypothesis Hml : ml_disc ml.

Lemma ht_exec_inst : forall inst cf k' Bt,
  lua_fr cf -> Forall lua_fr k' ->
  ht (stk (cf :: k' ++ Bt)) (exec_inst ml (gfunction_nc ml) inst (Some (length Bt)))
     (fun r s => if r then stk Bt s else LI Bt s) (estk Bt).
Proof.
  intros inst cf k' Bt Hcf Hk s Hs. unfold exec_inst. unfold vbind at 1. unfold cur_frame. rewrite (proj2 Hs).
  destruct (fr_fn cf) as [c|b] eqn:Ef; [|exact Logic.I].
  unfold vbind at 1. unfold get_closure. destruct (nth_error (vclos s) c) as [cl|]; [|exact Logic.I].
  apply (exec_op_disc ml (gfunction_nc ml) Hml (sd_gfunction_nc ml Hml) cl cf inst k' Bt Hcf Hk s Hs).
Qed.

Lemma run_loop_nc_disc : forall k Bt,
  ht (LI Bt) (run_loop_nc ml k (Some (length Bt))) (fun _ s => stk Bt s) (estk Bt).
Proof.
  induction k; intros Bt s Hs; [exact Logic.I|].
  cbn [run_loop_nc]. destruct Hs as [Hp [kk [Hne [Hl Hs]]]].
  destruct kk as [|cf k']; [congruence|]. inversion Hl as [|x l Hlcf Hlk]; subst.
  cbn [app] in Hs.
  pose proof (ht_fetch cf (k' ++ Bt) s (conj Hp Hs)) as HF.
  destruct (fetch s) as [inst s1|e s1| |c]; auto; [|eapply estk_app; exact HF].
  destruct HF as [cf1 [Hst1 Hf1]].
  assert (Hcf1 : lua_fr cf1) by (unfold lua_fr in *; rewrite Hf1; assumption).
  pose proof (ht_exec_inst inst cf1 k' Bt Hcf1 Hlk s1 Hst1) as HX.
  destruct (exec_inst ml (gfunction_nc ml) inst (Some (length Bt)) s1) as [[|] s2|e s2| |c]; auto.
  apply IHk. exact HX.
Qed.

End Loop.

(* the main loop of the cut machine returns to its caller's frames, with any fuel *)
Theorem mainLoop_nc_disc_lemma : forall n, ml_disc (mainLoop_nc n).
Proof.
  induction n; intros b s Hp Hlen; [exact Logic.I|].
  cbn [mainLoop_nc]. destruct (vstack s) as [|f Bt] eqn:Es; [discriminate|].
  cbn [length] in Hlen. assert (Hb : b = length Bt) by lia. subst b. cbn [tl].
  destruct (is_go (fr_fn f)) eqn:Eg.
  - unfold run_gframe_nc.
    pose proof (ht_callGFunction (gfunction_nc (mainLoop_nc n)) (sd_gfunction_nc _ IHn) false f Bt s (conj Hp Es)) as H.
    destruct (callGFunction (gfunction_nc (mainLoop_nc n)) false s) as [r s1|e s1| |c]; auto.
    destruct H as [_ H]. exact H.
  - pose proof (run_loop_nc_disc (mainLoop_nc n) IHn n Bt s) as H.
    assert (HL : LI Bt s).
    { split; [exact Hp|]. exists [f]. split; [discriminate|]. split; [constructor; [exact Eg|constructor]|exact Es]. }
    specialize (H HL). destruct (run_loop_nc (mainLoop_nc n) n (Some (length Bt)) s); auto.
Qed.

(* hence the hypothesis of OP_TFORLOOP (wf_exec_op_noob_all) holds of it on the states of the cut
   machine *)
Theorem mainLoop_nc_returns_lemma : forall n b s s',
  par_ok s -> length (vstack s) = S b -> mainLoop_nc n (Some b) s = VRet tt s' ->
  vstack s' = tl (vstack s) /\ top_pc s' = caller_pc s /\ par_ok s'.
Proof.
  intros n b s s' Hp Hl E. pose proof (mainLoop_nc_disc_lemma n b s Hp Hl) as H. rewrite E in H.
  destruct H as [Hp' Hs']. split; [exact Hs'|]. split; [|exact Hp'].
  unfold top_pc, caller_pc. rewrite Hs'. destruct (vstack s) as [|f [|g r]]; reflexivity.
Qed.

Lemma init_par_ok : forall p, par_ok (init_vstate p).
Proof. intro p. unfold par_ok, init_vstate. cbn [vthreads]. constructor; [reflexivity|constructor]. Qed.

(* ---------- the cut machine against the full one ---------- *)
Lemma gfunction_nc_le : forall ml1 ml2, (forall b, vle (ml1 b) (ml2 b)) ->
  forall b, vle (gfunction_nc ml1 b) (gfunction ml2 b).
Proof.
  intros ml1 ml2 H b. unfold gfunction_nc. destruct (is_resume b).
  - intro s. left. reflexivity.
  - apply gfunction_mono. exact H.
Qed.

Lemma run_loop_nc_le : forall ml1 ml2, (forall b, vle (ml1 b) (ml2 b)) ->
  forall k base, vle (run_loop_nc ml1 k base) (run_loop ml2 k base).
Proof.
  intros ml1 ml2 H. induction k; intros base s; [left; reflexivity|].
  cbn [run_loop_nc run_loop]. destruct (fetch s) as [inst s1|e s1| |c]; try apply rle_refl.
  destruct (exec_inst_mono ml1 ml2 H (gfunction_nc ml1) (gfunction ml2) (gfunction_nc_le ml1 ml2 H) inst base s1) as [E|E]; rewrite E.
  - left. reflexivity.
  - destruct (exec_inst ml2 (gfunction ml2) inst base s1) as [[|] s2|e s2| |c]; try apply rle_refl. apply IHk.
Qed.

Lemma mainLoop_nc_le : forall n base, vle (mainLoop_nc n base) (mainLoop n base).
Proof.
  induction n; intros base s; [left; reflexivity|].
  cbn [mainLoop_nc mainLoop]. destruct (vstack s) as [|f rest]; [apply rle_refl|].
  destruct (is_go (fr_fn f)).
  - unfold run_gframe_nc, run_gframe.
    destruct (callGFunction_mono (gfunction_nc (mainLoop_nc n)) (gfunction (mainLoop n)) (gfunction_nc_le _ _ IHn) false s) as [E|E]; rewrite E.
    + left. reflexivity.
    + apply rle_refl.
  - apply run_loop_nc_le. exact IHn.
Qed.

(* a run of the cut machine that does not stop at a resumption (or for lack of fuel) is the run of
   the full machine *)
Theorem run_proto_nc_full_lemma : forall fuel p, run_proto_nc fuel p <> VFinFuel -> run_proto fuel p = run_proto_nc fuel p.
Proof.
  intros fuel p H. unfold run_proto_nc, run_proto in *.
  destruct (PCall_mono (mainLoop_nc fuel) (mainLoop fuel) (mainLoop_nc_le fuel) 0 MultRet None (init_vstate p)) as [E|E].
  - rewrite E in H. congruence.
  - rewrite E. reflexivity.
Qed.

(* ---------- OP_TFORLOOP again: all 42 opcodes under the discipline ---------- *)
From GL Require Import VMX.WfTieFacts VMX.RunSafeFacts.
From GL Require VM.WfFacts.

Lemma tri_sd : forall A (m : VM A) X, noob m -> sd m -> tri (stk X) m (fun _ => stk X).
Proof.
  intros A m X Hn Hs s H. specialize (Hs X s H). destruct (m s) as [a s1|e s1| |c] eqn:E; auto.
  eapply Hn. eassumption.
Qed.

Section TForDisc.
Variable ml : option nat -> VM unit.
Variable gf : builtin -> VM Z.
Hypothesis Hml : forall b, noob (ml b).
Hypothesis Hgf : forall b, noob (gf b).
Hypothesis Hdisc : ml_disc ml.

Lemma tforloop_noob_disc : forall cl cf rest inst base,
  op_of_code (opGetOpCode inst) = Some OP_TFORLOOP ->
  W.inst_ok (fn_of (cl_proto cl)) (W.tags_of (fn_of (cl_proto cl))) (fr_pc cf - 1) inst = true ->
  noob_on (stk (cf :: rest)) (exec_op ml gf cl cf inst base).
Proof.
  intros cl cf rest inst base Hop H.
  destruct (fn_of_fields (cl_proto cl)) as [Hcode _].
  unfold W.inst_ok in H. rewrite Hop in H.
  apply andb_true_iff in H. destruct H as [_ H]. split_ands.
  match goal with Hx : W.is_head _ (fr_pc cf - 1 + 1) = true |- _ => pose proof (VM.WfFacts.is_head_range _ _ Hx) as Hr end.
  rewrite VM.WfFacts.tags_len in Hr. rewrite Hcode in Hr. rewrite plen_eq in Hr.
  replace (fr_pc cf - 1 + 1) with (fr_pc cf) in Hr by lia.
  unfold exec_op. rewrite Hop.
  eapply tri_noob_on with (Q := fun _ _ => True).
  assert (K : forall A (m : VM A), noob m -> sd m -> tri (stk (cf :: rest)) m (fun _ => stk (cf :: rest)))
    by (intros; apply tri_sd; assumption).
  eapply tri_bind; [apply K; [auto with noob|apply sd_reg_settop]|intro].
  eapply tri_bind; [apply K; [auto with noob|apply sd_reg_get]|intro x2].
  eapply tri_bind; [apply K; [auto with noob|apply sd_reg_set]|intro].
  eapply tri_bind; [apply K; [auto with noob|apply sd_reg_get]|intro x1].
  eapply tri_bind; [apply K; [auto with noob|apply sd_reg_set]|intro].
  eapply tri_bind; [apply K; [auto with noob|apply sd_reg_get]|intro x0].
  eapply tri_bind; [apply K; [auto with noob|apply sd_reg_set]|intro].
  eapply tri_bind; [apply K; [apply (noob_callR ml Hml)|apply (sd_callR ml Hdisc)]|intro].
  eapply tri_bind; [apply K; [auto with noob|apply sd_reg_get]|intro v].
  eapply tri_bind with (Q := fun _ _ => True); [|intro; apply tri_noob; noob_tac].
  destruct (negb (is_nil v)); [|apply tri_noob; auto with noob].
  eapply tri_bind; [apply K; [auto with noob|apply sd_reg_set]|intro].
  intros s [_ Hs]. unfold vbind at 1. unfold cur_frame. rewrite Hs.
  assert (Hn : noob (vdo w <- code_at (cl_proto cl) (fr_pc cf); add_pc (opGetArgSbx w))).
  { apply noob_bind; [apply code_at_noob; exact Hr|intro; auto with noob]. }
  destruct ((vdo w <- code_at (cl_proto cl) (fr_pc cf); add_pc (opGetArgSbx w)) s) eqn:E; auto.
  eapply Hn. eassumption.
Qed.

(* all 42 opcodes, the hypothesis on the re-entered loop being the discipline *)
Theorem wf_step_noob_disc_lemma : forall cl cf rest inst base,
  W.wf_fn (fn_of (cl_proto cl)) = true ->
  closure_ok cl ->
  VM.WfFacts.pc_ok (fn_of (cl_proto cl)) (fr_pc cf - 1) ->
  zth (xp_code (cl_proto cl)) (fr_pc cf - 1) = Some inst ->
  noob_on (stk (cf :: rest)) (exec_op ml gf cl cf inst base).
Proof.
  intros cl cf rest inst base Hwf Hcl Hpc Hz.
  destruct (op_of_code (opGetOpCode inst)) as [o|] eqn:Hop.
  - assert (D : o = OP_TFORLOOP \/ o <> OP_TFORLOOP) by (destruct o; ((left; reflexivity) || (right; discriminate))).
    destruct D as [->|Hne].
    + destruct (VM.WfFacts.head_inst_ok _ _ Hwf Hpc) as [w [Hw Hok]].
      destruct (fn_of_fields (cl_proto cl)) as [Hcode _].
      rewrite Hcode in Hw. rewrite pzth_eq in Hw. rewrite Hz in Hw. inversion Hw; subst w.
      apply tforloop_noob_disc; assumption.
    + intros s c _ E. eapply (wf_step_noob_lemma ml gf cl cf inst base o); eassumption.
  - intros s c _ E. unfold exec_op in E. rewrite Hop in E. inversion E. reflexivity.
Qed.

End TForDisc.

(* ---------- the host functions of the cut machine do not fault if the loop they re-enter does not ---------- *)
Section NoobHost.
Variable ml : option nat -> VM unit.
Hypothesis Hml : forall b, noob (ml b).

Hint Resolve noob_callR noob_Call : noob.

Lemma noob_PCall : forall na nr h, noob (PCall ml na nr h).
Proof.
  intros na nr h s c E. unfold PCall in E.
  destruct (Call ml na nr s) as [u s'|e s0| |c0] eqn:EC; try discriminate.
  - destruct h as [h|]; [|discriminate].
    destruct ((vdo _ <- reg_push h; vdo _ <- reg_push e; vdo _ <- Call ml 1 1; vdo t <- reg_top; reg_get (t - 1))
                (set_nccalls (cur_nccalls s) s0)) as [hv s''|e2 s''| |c2] eqn:EH; try discriminate.
    inversion E; subst c2.
    assert (Hn : noob (vdo _ <- reg_push h; vdo _ <- reg_push e; vdo _ <- Call ml 1 1; vdo t <- reg_top; reg_get (t - 1))) by noob_tac.
    eapply Hn. eassumption.
  - inversion E; subst c0. eapply (noob_Call ml Hml). eassumption.
Qed.

Lemma noob_bi_args : noob bi_args.
Proof. unfold bi_args. noob_tac. Qed.
Lemma noob_bi_ret : forall vs, noob (bi_ret vs).
Proof. intros. unfold bi_ret. noob_tac. Qed.
Lemma noob_badarg : forall A, noob (@badarg A).
Proof. intros. unfold badarg. auto with noob. Qed.
Hint Resolve noob_bi_args noob_bi_ret noob_badarg noob_PCall : noob.
Lemma noob_v_opt_int : forall v d, noob (v_opt_int v d).
Proof. intros. unfold v_opt_int. noob_tac. Qed.
Lemma noob_v_border : forall t, noob (v_border t).
Proof. intros. unfold v_border. noob_tac. Qed.
Lemma noob_vmapM : forall A B (f : A -> VM B) l, (forall a, noob (f a)) -> noob (vmapM f l).
Proof. intros A B f l H. induction l; simpl; noob_tac. Qed.
Lemma noob_frame_at_level : forall l, noob (frame_at_level l).
Proof. intros l. apply noob_total. discriminate. Qed.
Hint Resolve noob_v_opt_int noob_v_border noob_frame_at_level : noob.

Lemma noob_float_fold : forall (g : float -> float -> float) l acc,
  noob ((fix go (l : list value) (acc : float) : VM float :=
         match l with [] => vret acc | VNum x :: r => go r (g acc x) | _ => vunsup 219 end) l acc).
Proof.
  intros g. induction l; intros acc; [apply noob_vret|].
  destruct a; try (apply noob_vunsup; reflexivity). apply IHl.
Qed.

Lemma noob_simple_builtin : forall b args, noob (simple_builtin b args).
Proof.
  intros b args. unfold simple_builtin.
  destruct b; noob_tac.
  all: try apply noob_float_fold.
  all: try (apply noob_vmapM; intro; noob_tac).
  all: try (apply noob_total; intros s c; discriminate).
  all: try (intros s c E; destruct (metatable_raw _ _); discriminate).
Qed.
Hint Resolve noob_simple_builtin : noob.

Lemma noob_ToStringMeta : forall v, noob (ToStringMeta ml v).
Proof. intros. unfold ToStringMeta. noob_tac. Qed.
Lemma noob_new_thread : forall f w, noob (new_thread f w).
Proof. intros. apply noob_total. discriminate. Qed.
Lemma noob_set_closure_env : forall c env, noob (set_closure_env c env).
Proof. intros. unfold set_closure_env. noob_tac. Qed.
Hint Resolve noob_ToStringMeta noob_new_thread noob_set_closure_env : noob.

Lemma noob_gfunction_nc : forall b, noob (gfunction_nc ml b).
Proof.
  intro b. unfold gfunction_nc. destruct (is_resume b) eqn:Er; [intros s c E; discriminate|].
  unfold gfunction. apply noob_bind; [auto with noob|intro args].
  destruct b; try discriminate; try solve [noob_tac].
  destruct co; [noob_tac|discriminate].
Qed.

End NoobHost.

(* for the loop of the cut machine the discipline is a theorem: what remains assumed of the
   re-entered loop is only that it does not fault itself (the induction on fuel of the run-level
   statement, which needs the pc invariant) *)
Theorem wf_step_noob_nc_lemma : forall n cl cf rest inst base,
  (forall b, noob (mainLoop_nc n b)) ->
  W.wf_fn (fn_of (cl_proto cl)) = true ->
  closure_ok cl ->
  VM.WfFacts.pc_ok (fn_of (cl_proto cl)) (fr_pc cf - 1) ->
  zth (xp_code (cl_proto cl)) (fr_pc cf - 1) = Some inst ->
  noob_on (stk (cf :: rest)) (exec_op (mainLoop_nc n) (gfunction_nc (mainLoop_nc n)) cl cf inst base).
Proof.
  intros n cl cf rest inst base Hml.
  apply wf_step_noob_disc_lemma; [exact Hml|apply noob_gfunction_nc; exact Hml|apply mainLoop_nc_disc_lemma].
Qed.
