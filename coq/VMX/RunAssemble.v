(* M-VM and C07, run level: the assembly. The step lemmas of RunInvFacts.v / RunLoopFacts.v are put
   together along the dispatch loop and the fuel: the main loop of the machine with coroutine
   resumption cut off is a safe re-entered loop (ml_safeP) for every fuel, hence a run of a
   prototype accepted by C07's checker never indexes Code / Constants / FunctionPrototypes /
   upvalue slots out of range. *)
From Coq Require Import Floats Lia ZifyBool.
From GL Require Import Common.Bytes Lua.Syntax Lua.Num Lua.Values Lua.Names Lua.Eval Str.StrModel.
From GL Require Import VMX.Machine VMX.Step VMX.Builtins VMX.VRun VMX.WfTie VMX.WfTieFacts VMX.RunSafe VMX.RunInv.
From GL Require Import VMX.RunSafeFacts VMX.HeapSafeFacts VMX.DiscFacts VMX.RunInvFacts VMX.RunLoopFacts.
From GL Require VM.WfFacts.

(* the loop invariant: the caller's frames Bt at the bottom, good Lua frames above them *)
Definition LIg (Phi : vstate -> Prop) (Bt : list cframe) (s : vstate) : Prop :=
  heap_ok s /\ par_ok s /\ Phi s /\
  exists k, k <> [] /\ Forall lua_fr k /\ Forall (fr_good s) k /\ vstack s = k ++ Bt.

Lemma fetch_eq : forall s cf0 rest c cl inst,
  vstack s = cf0 :: rest -> fr_fn cf0 = FnLua c -> nth_error (vclos s) c = Some cl ->
  zth (xp_code (cl_proto cl)) (fr_pc cf0) = Some inst ->
  fetch s = VRet inst (with_stack s (set_pc cf0 (fr_pc cf0 + 1) :: rest)).
Proof.
  intros s cf0 rest c cl inst H H0 H1 H2. unfold fetch. unfold vbind at 1. unfold cur_frame. rewrite H.
  cbv beta iota. rewrite H0. unfold vbind at 1. unfold get_closure. rewrite H1. cbv beta iota.
  unfold vbind at 1. unfold code_at. rewrite H2. unfold vret at 1. cbv beta iota.
  unfold vbind at 1. unfold set_cur_frame. rewrite H. reflexivity.
Qed.

Lemma exec_inst_eq : forall ml gf inst base s cf rest c cl,
  vstack s = cf :: rest -> fr_fn cf = FnLua c -> nth_error (vclos s) c = Some cl ->
  exec_inst ml gf inst base s = exec_op ml gf cl cf inst base s.
Proof.
  intros ml gf inst base s cf rest c cl H H0 H1. unfold exec_inst. unfold vbind at 1. unfold cur_frame. rewrite H.
  cbv beta iota. rewrite H0. unfold vbind at 1. unfold get_closure. rewrite H1. reflexivity.
Qed.

Lemma fr_good_of_cv : forall s f c p, fr_fn f = FnLua c -> cv c p s ->
  VM.WfFacts.pc_ok (fn_of p) (fr_pc f) -> fr_good s f.
Proof.
  intros s f c p Hf [cl [E P]] Hpc. unfold fr_good. rewrite Hf. exists cl. split; [exact E|]. rewrite P. exact Hpc.
Qed.

Lemma lua_of_fn : forall f c, fr_fn f = FnLua c -> lua_fr f.
Proof. intros f c H. unfold lua_fr. rewrite H. reflexivity. Qed.

Lemma stable_step : forall Phi k' c p, stable Phi ->
  stable (fun s => Phi s /\ Forall (fr_good s) k' /\ cv c p s).
Proof.
  intros Phi k' c p HP s s' Hx [H1 [H2 H3]]. split; [eapply HP; eassumption|]. split.
  - eapply Forall_impl; [|exact H2]. intros f Hf. eapply fr_good_pext; eassumption.
  - eapply cv_pext; eassumption.
Qed.

Section Assemble.
Variable ml : option nat -> VM unit.
Hypothesis Hml : ml_safeP ml.
Variable Phi : vstate -> Prop.
Hypothesis HP : stable Phi.

(* one turn of the dispatch loop from a state of the loop invariant *)
Lemma loop_step : forall Bt cf0 k' s,
  heap_ok s -> par_ok s -> Phi s -> lua_fr cf0 -> Forall lua_fr k' ->
  fr_good s cf0 -> Forall (fr_good s) k' -> vstack s = cf0 :: k' ++ Bt ->
  match fetch s with
  | VRet inst s1 =>
      match exec_inst ml (gfunction_nc ml) inst (Some (length Bt)) s1 with
      | VRet true s2 => atg Phi Bt s2
      | VRet false s2 => LIg Phi Bt s2
      | VErr _ s2 => erg Phi Bt s2
      | VFuel => True
      | VUnsup x => oob x = false
      end
  | VErr _ s1 => erg Phi Bt s1
  | VFuel => True
  | VUnsup x => oob x = false
  end.
Proof.
  intros Bt cf0 k' s Hh Hp Hf Hl0 Hlk Hg0 Hgk Hs.
  (* the frame, its closure, the instruction *)
  unfold lua_fr in Hl0. destruct (fr_fn cf0) as [c|b0] eqn:Efn; [|discriminate].
  pose proof Hg0 as Hg0'. unfold fr_good in Hg0'. rewrite Efn in Hg0'. destruct Hg0' as [cl [Ecl Hpc0]].
  pose proof (heap_ok_nth s c cl Hh Ecl) as Hcg.
  pose proof (good_proto_fn _ (proj2 Hcg)) as Hwf.
  change (VM.WfFacts.pc_ok (fn_of (cl_proto cl)) (fr_pc cf0)) in Hpc0.
  destruct (VM.WfFacts.head_inst_ok _ _ Hwf Hpc0) as [inst [Hz Hok]].
  destruct (fn_of_fields (cl_proto cl)) as [Hcode [_ [_ [_ [_ Hnregs]]]]].
  rewrite Hcode in Hz. rewrite pzth_eq in Hz.
  pose proof (VM.WfFacts.wf_fn_facts _ Hwf) as [_ [_ [_ [_ [_ [Hlim _]]]]]]. rewrite Hnregs in Hlim.
  pose proof (VM.WfFacts.pc_ok_range _ _ Hpc0) as Hr0.
  rewrite (fetch_eq s cf0 (k' ++ Bt) c cl inst Hs Efn Ecl Hz).
  set (cf := set_pc cf0 (fr_pc cf0 + 1)).
  set (s1 := with_stack s (cf :: k' ++ Bt)).
  assert (Hs1 : vstack s1 = cf :: k' ++ Bt) by reflexivity.
  assert (Efn1 : fr_fn cf = FnLua c) by exact Efn.
  assert (Ecl1 : nth_error (vclos s1) c = Some cl) by exact Ecl.
  rewrite (exec_inst_eq ml (gfunction_nc ml) inst (Some (length Bt)) s1 cf (k' ++ Bt) c cl Hs1 Efn1 Ecl1).
  assert (Epc : fr_pc cf - 1 = fr_pc cf0) by (unfold cf; cbn [fr_pc set_pc]; lia).
  assert (Hok1 : W.inst_ok (fn_of (cl_proto cl)) (W.tags_of (fn_of (cl_proto cl))) (fr_pc cf - 1) inst = true)
    by (rewrite Epc; exact Hok).
  assert (Hpcn : 0 <= fr_pc cf - 1) by (rewrite Epc; lia).
  set (Phi2 := fun s => Phi s /\ Forall (fr_good s) k' /\ cv c (cl_proto cl) s).
  assert (HP2 : stable Phi2) by (apply stable_step; exact HP).
  assert (H21 : Phi2 s1).
  { split; [eapply stable_vclos; [exact HP| |exact Hf]; reflexivity|]. split.
    - eapply Forall_impl; [|exact Hgk]. intros f Hf'. eapply fr_good_vclos; [|exact Hf']. reflexivity.
    - exists cl. split; [exact Ecl|reflexivity]. }
  assert (Hh1 : heap_ok s1) by exact Hh.
  assert (Hp1 : par_ok s1) by exact Hp.
  assert (Hgf : forall b, jg (gfunction_nc ml b)) by (apply jg_gfunction_nc; exact Hml).
  assert (HE : forall s2, erg Phi2 (k' ++ Bt) s2 -> erg Phi Bt s2).
  { intros s2 [A1 [A2 [[A3 _] A4]]]. eapply erg_app. repeat split; eauto. }
  (* what comes back with the current frame of closure c at a head is an invariant state *)
  assert (Hback : forall s2 cf', heap_ok s2 -> par_ok s2 -> Phi2 s2 -> vstack s2 = cf' :: k' ++ Bt ->
             fr_fn cf' = FnLua c -> VM.WfFacts.pc_ok (fn_of (cl_proto cl)) (fr_pc cf') -> LIg Phi Bt s2).
  { intros s2 cf' A1 A2 [A3 [A4 A5]] A6 A7 A8. split; [exact A1|]. split; [exact A2|]. split; [exact A3|].
    exists (cf' :: k'). split; [discriminate|]. split; [constructor; [eapply lua_of_fn; exact A7|exact Hlk]|].
    split; [|exact A6]. constructor; [eapply fr_good_of_cv; eassumption|exact A4]. }
  (* after a pop *)
  assert (Hpop : forall (r : bool) s2, atg Phi2 (k' ++ Bt) s2 ->
             (r = ret_flag (Some (length Bt)) (k' ++ Bt) \/ r = tc_flag (Some (length Bt)) (k' ++ Bt)) ->
             if r then atg Phi Bt s2 else LIg Phi Bt s2).
  { intros r s2 [A1 [A2 [[A3 [A4 A5]] A6]]] Hr. destruct (flags_after_pop k' Bt Hlk) as [F1 F2].
    destruct k' as [|f k''].
    - destruct (F1 eq_refl) as [E1 E2]. assert (r = true) by (destruct Hr; congruence). subst r.
      repeat split; assumption.
    - assert (Hne : f :: k'' <> []) by discriminate. destruct (F2 Hne) as [E1 E2].
      assert (r = false) by (destruct Hr; congruence). subst r.
      split; [exact A1|]. split; [exact A2|]. split; [exact A3|]. exists (f :: k''). auto. }
  destruct (op_of_code (opGetOpCode inst)) as [o|] eqn:Hop.
  2:{ exfalso. clear - Hok Hop. unfold W.inst_ok in Hok. rewrite Hop in Hok. discriminate Hok. }
  assert (D : o = OP_CALL \/ o = OP_TAILCALL \/ o = OP_RETURN \/ o = OP_CLOSURE \/
              (o <> OP_CALL /\ o <> OP_TAILCALL /\ o <> OP_RETURN /\ o <> OP_CLOSURE)).
  { destruct o; ((left; reflexivity) || (right; left; reflexivity) || (right; right; left; reflexivity)
                 || (right; right; right; left; reflexivity) || (right; right; right; right; repeat split; discriminate)). }
  destruct D as [->|[->|[->|[->|[N1 [N2 [N3 N4]]]]]]].
  - (* CALL: the frame waits at pc+1, a head *)
    assert (Hhead : VM.WfFacts.pc_ok (fn_of (cl_proto cl)) (fr_pc cf)).
    { unfold W.inst_ok in Hok1. rewrite Hop in Hok1. unfold W.group_of in Hok1. rewrite Hop in Hok1.
      cbn [W.modes_ok opProps Type_ ModeArgB ModeArgC W.mode_ok fst] in Hok1. split_ands.
      unfold VM.WfFacts.pc_ok.
      match goal with Hx : W.is_head _ ?e = true |- _ => replace (fr_pc cf) with e by (clear; lia); exact Hx end. }
    pose proof (call_step_safe_lemma ml (gfunction_nc ml) Hgf Phi2 HP2 cl cf inst (Some (length Bt)) (k' ++ Bt) Hop s1) as H.
    assert (Ha : atg Phi2 (cf :: k' ++ Bt) s1) by (split; [exact Hh1|split; [exact Hp1|split; [exact H21|exact Hs1]]]).
    specialize (H Ha).
    destruct (exec_op ml (gfunction_nc ml) cl cf inst (Some (length Bt)) s1) as [[|] s2|e s2| |x]; try exact Logic.I; try exact H; try contradiction; try (apply HE; exact H).
    + destruct H as [H _]. discriminate.
    + destruct H as [_ [[A1 [A2 [A3 A4]]]|[new [[A1 [A2 [A3 A4]]] [A5 A6]]]]].
      * eapply Hback; eassumption.
      * destruct A3 as [B1 [B2 B3]]. split; [exact A1|]. split; [exact A2|]. split; [exact B1|].
        exists (new :: cf :: k'). split; [discriminate|].
        split; [constructor; [exact A6|constructor; [eapply lua_of_fn; exact Efn1|exact Hlk]]|].
        split; [|exact A4].
        constructor; [exact A5|]. constructor; [eapply fr_good_of_cv; eassumption|exact B2].
  - (* TAILCALL *)
    pose proof (tailcall_step_safe_lemma ml (gfunction_nc ml) Hgf Phi2 HP2 cl cf inst (Some (length Bt)) (k' ++ Bt) Hop s1) as H.
    assert (Ha : atg Phi2 (cf :: k' ++ Bt) s1) by (split; [exact Hh1|split; [exact Hp1|split; [exact H21|exact Hs1]]]).
    specialize (H Ha).
    destruct (exec_op ml (gfunction_nc ml) cl cf inst (Some (length Bt)) s1) as [r s2|e s2| |x]; try exact Logic.I; try exact H; try contradiction; try (apply HE; exact H).
    destruct H as [[-> [cf3 [[A1 [A2 [[B1 [B2 B3]] A4]]] [A5 A6]]]]|[A1 A2]].
    + split; [exact A1|]. split; [exact A2|]. split; [exact B1|]. exists (cf3 :: k').
      split; [discriminate|]. split; [constructor; assumption|]. split; [|exact A4]. constructor; assumption.
    + apply (Hpop r s2 A1). right. exact A2.
  - (* RETURN *)
    pose proof (return_step_safe_lemma ml (gfunction_nc ml) Phi2 HP2 cl cf inst (Some (length Bt)) (k' ++ Bt) s1 Hop Hh1 Hp1 H21 Hs1) as H.
    destruct (exec_op ml (gfunction_nc ml) cl cf inst (Some (length Bt)) s1) as [r s2|e s2| |x]; try exact Logic.I; try exact H; try contradiction; try (apply HE; exact H).
    + destruct H as [A1 [A2 [A3 [A4 A5]]]]. apply (Hpop r s2); [split; [exact A1|split; [exact A2|split; [exact A3|exact A4]]]|left; exact A5].
  - (* CLOSURE *)
    pose proof (closure_step_safe_lemma ml (gfunction_nc ml) Phi2 HP2 c cl cf inst (Some (length Bt)) (k' ++ Bt) s1
                  Hcg Hlim Hpcn Hop Hok1 Efn1 Hh1 Hp1 H21 Hs1) as H.
    destruct (exec_op ml (gfunction_nc ml) cl cf inst (Some (length Bt)) s1) as [[|] s2|e s2| |x]; try exact Logic.I; try exact H; try contradiction; try (apply HE; exact H).
    + destruct H as [H _]. discriminate.
    + destruct H as [_ [A1 [A2 [A3 [_ [cf' [A4 [A5 A6]]]]]]]]. eapply Hback; eassumption.
  - (* the other 38 *)
    pose proof (exec_op_step_safe_lemma ml (gfunction_nc ml) Hml Hgf Phi2 HP2 c cl cf inst (Some (length Bt)) o (k' ++ Bt) s1
                  (proj1 Hcg) Hlim Hpcn Hop Hok1 Efn1 N1 N2 N3 N4 Hh1 Hp1 H21 Hs1) as H.
    destruct (exec_op ml (gfunction_nc ml) cl cf inst (Some (length Bt)) s1) as [[|] s2|e s2| |x]; try exact Logic.I; try exact H; try contradiction; try (apply HE; exact H).
    + destruct H as [H _]. discriminate.
    + destruct H as [_ [A1 [A2 [A3 [cf' [A4 [A5 A6]]]]]]]. eapply Hback; eassumption.
Qed.

(* the dispatch loop, any number of instructions *)
Lemma run_loop_nc_safe : forall k Bt,
  hto (LIg Phi Bt) (run_loop_nc ml k (Some (length Bt))) (fun _ => atg Phi Bt) (erg Phi Bt).
Proof.
  induction k; intros Bt s Hs; [exact Logic.I|].
  cbn [run_loop_nc]. destruct Hs as [Hh [Hp [Hf [kk [Hne [Hl [Hg Hs]]]]]]].
  destruct kk as [|cf0 k']; [congruence|]. inversion Hl as [|x1 l1 Hl0 Hlk]; subst. inversion Hg as [|x2 l2 Hg0 Hgk]; subst.
  cbn [app] in Hs.
  pose proof (loop_step Bt cf0 k' s Hh Hp Hf Hl0 Hlk Hg0 Hgk Hs) as H.
  destruct (fetch s) as [inst s1|e s1| |x]; auto.
  destruct (exec_inst ml (gfunction_nc ml) inst (Some (length Bt)) s1) as [[|] s2|e s2| |x]; auto.
  apply IHk. exact H.
Qed.

End Assemble.

(* ---------- the induction on fuel ---------- *)
Theorem mainLoop_nc_safeP_lemma : forall n, ml_safeP (mainLoop_nc n).
Proof.
  induction n; intros Phi HP f X s [Ha Hg]; [exact Logic.I|].
  cbn [mainLoop_nc]. destruct Ha as [Hh [Hp [Hf Hs]]]. rewrite Hs.
  destruct (is_go (fr_fn f)) eqn:Eg.
  - unfold run_gframe_nc.
    pose proof (hto_callGFunction (gfunction_nc (mainLoop_nc n)) (jg_gfunction_nc _ IHn) Phi HP false f X s) as H.
    assert (Hat : atg Phi (f :: X) s) by (repeat split; assumption). specialize (H Hat).
    destruct (callGFunction (gfunction_nc (mainLoop_nc n)) false s) as [r s1|e s1| |c]; auto.
    destruct H as [_ H]. exact H.
  - pose proof (run_loop_nc_safe (mainLoop_nc n) IHn Phi HP n X s) as H.
    assert (HL : LIg Phi X s).
    { split; [exact Hh|]. split; [exact Hp|]. split; [exact Hf|]. exists [f]. split; [discriminate|].
      split; [constructor; [exact Eg|constructor]|]. split; [constructor; [exact Hg|constructor]|exact Hs]. }
    specialize (H HL). destruct (run_loop_nc (mainLoop_nc n) n (Some (length X)) s); auto.
Qed.

(* the same in plain words (RunInv.ml_safe) *)
Theorem mainLoop_nc_safe_lemma : forall n, ml_safe (mainLoop_nc n).
Proof.
  intros n b s [Hh [Hp Hg]] Hlen.
  destruct (vstack s) as [|f X] eqn:Es; [discriminate|]. cbn [length] in Hlen. assert (b = length X) by lia. subst b.
  inversion Hg as [|x l Hgf HgX]; subst.
  set (Phi := fun s' => pext s s' /\ Forall (fr_good s') X).
  assert (HP : stable Phi).
  { intros a a' Hx [A1 A2]. split; [eapply pext_trans; eassumption|].
    eapply Forall_impl; [|exact A2]. intros g Hg'. eapply fr_good_pext; eassumption. }
  pose proof (mainLoop_nc_safeP_lemma n Phi HP f X s) as H.
  assert (Hpre : atg Phi (f :: X) s /\ fr_good s f).
  { split; [|exact Hgf]. split; [exact Hh|]. split; [exact Hp|]. split; [split; [apply pext_refl|exact HgX]|exact Es]. }
  specialize (H Hpre). cbn [tl].
  destruct (mainLoop_nc n (Some (length X)) s) as [u s'|e s'| |c]; auto.
  - destruct H as [A1 [A2 [[A3 A4] A5]]]. split; [|split; [exact A3|exact A5]].
    split; [exact A1|]. split; [exact A2|]. rewrite A5. exact A4.
  - destruct H as [A1 [A2 [[A3 A4] A5]]]. auto.
Qed.

(* ---------- the runner ---------- *)
Theorem wf_run_noob_nc_lemma : wf_run_noob_nc_statement.
Proof.
  intros p Hp fuel. unfold run_proto_nc.
  pose proof (jg_PCall (mainLoop_nc fuel) (mainLoop_nc_safeP_lemma fuel) 0 MultRet None (fun _ => True)
                (fun _ _ _ _ => Logic.I) [] (init_vstate p)) as H.
  assert (Ha : atg (fun _ => True) [] (init_vstate p)).
  { split; [apply init_heap_ok; exact Hp|]. split; [apply init_par_ok|]. split; [exact Logic.I|reflexivity]. }
  specialize (H Ha).
  destruct (PCall (mainLoop_nc fuel) 0 MultRet None (init_vstate p)) as [[e|] s|e s| |c]; try exact Logic.I; try exact H.
  destruct (reg_get_range 0 (Z.to_nat (rtop (vreg s))) s) as [vs s'|e s'| |c] eqn:E; try exact Logic.I; try reflexivity.
  eapply noob_reg_get_range. eassumption.
Qed.

(* every run of the FULL machine that is not cut off by the cut machine (no coroutine resumption,
   enough fuel) is free of out-of-range faults *)
Theorem wf_run_noob_uncut_lemma : wf_run_noob_uncut_statement.
Proof.
  intros p Hp fuel Hne. rewrite (run_proto_nc_full_lemma fuel p Hne). apply wf_run_noob_nc_lemma. exact Hp.
Qed.
