(* M-VM and C07, run level: the invariant of the main loop (definitions only, no proofs).
   A run of the machine with coroutine resumption cut off (RunSafe.mainLoop_nc) keeps, between any
   two instructions: the closure heap is well-formed (heap_ok), no thread has a resumer (par_ok),
   and every Lua frame of the frame stack refers to an existing closure and its pc is an
   instruction head of that closure's prototype (fr_good). *)
From Coq Require Import Floats.
From GL Require Import Common.Bytes Lua.Values.
From GL Require Import VMX.Machine VMX.Step VMX.Builtins VMX.VRun VMX.WfTie VMX.RunSafe.
From GL Require VM.Proto VM.WfProto VM.WfFacts.

(* closure c exists and its prototype is p *)
Definition cv (c : nat) (p : xproto) (s : vstate) : Prop :=
  exists cl, nth_error (vclos s) c = Some cl /\ cl_proto cl = p.

(* a frame the main loop can continue: a host function's frame, or a Lua frame of an existing
   closure standing at an instruction head of its prototype *)
Definition fr_good (s : vstate) (f : cframe) : Prop :=
  match fr_fn f with
  | FnGo _ => True
  | FnLua c => exists cl, nth_error (vclos s) c = Some cl /\
                          VM.WfFacts.pc_ok (VM.Proto.view (to_proto (cl_proto cl))) (fr_pc f)
  end.

Definition run_inv (s : vstate) : Prop :=
  heap_ok s /\ par_ok s /\ Forall (fr_good s) (vstack s).

(* the closure heap only grows, and the prototype of an existing closure never changes *)
Definition pext (s s' : vstate) : Prop :=
  forall c cl, nth_error (vclos s) c = Some cl ->
  exists cl', nth_error (vclos s') c = Some cl' /\ cl_proto cl' = cl_proto cl.

(* ---------- the joint judgement the run-level proof is carried out in ---------- *)
(* a side condition that survives growth of the closure heap *)
Definition stable (Phi : vstate -> Prop) : Prop := forall s s', pext s s' -> Phi s -> Phi s'.

(* Hoare rule with an exceptional postcondition and the out-of-range clause *)
Definition hto {A} (P : vstate -> Prop) (m : VM A) (Q : A -> vstate -> Prop) (E : vstate -> Prop) : Prop :=
  forall s, P s -> match m s with VRet a s' => Q a s' | VErr _ s' => E s' | VFuel => True | VUnsup c => oob c = false end.

(* heap and threads in order, the frame stack is X, side condition Phi; the error form has X at the
   bottom of the stack *)
Definition atg (Phi : vstate -> Prop) (X : list cframe) (s : vstate) : Prop :=
  heap_ok s /\ par_ok s /\ Phi s /\ vstack s = X.
Definition erg (Phi : vstate -> Prop) (X : list cframe) (s : vstate) : Prop :=
  heap_ok s /\ par_ok s /\ Phi s /\ exists k, vstack s = k ++ X.

(* safe (no out-of-range fault), invariant-keeping and stack-disciplined in one *)
Definition jg {A} (m : VM A) : Prop :=
  forall Phi, stable Phi -> forall X, hto (atg Phi X) m (fun _ => atg Phi X) (erg Phi X).

(* the re-entered main loop in that form: started on a good frame f pushed on the frames X *)
Definition ml_safeP (ml : option nat -> VM unit) : Prop :=
  forall Phi, stable Phi -> forall f X,
  hto (fun s => atg Phi (f :: X) s /\ fr_good s f) (ml (Some (length X))) (fun _ => atg Phi X) (erg Phi X).

(* the re-entered main loop as the run-level induction needs it: started on b+1 good frames in an
   invariant state it does not fault out of range, returns to the b caller frames in an invariant
   state, and an error leaves them (good) at the bottom of the stack *)
Definition ml_safe (ml : option nat -> VM unit) : Prop :=
  forall b s, run_inv s -> length (vstack s) = S b ->
  match ml (Some b) s with
  | VRet _ s' => run_inv s' /\ pext s s' /\ vstack s' = tl (vstack s)
  | VErr _ s' => heap_ok s' /\ par_ok s' /\ pext s s' /\ exists k, vstack s' = k ++ tl (vstack s)
  | VFuel => True
  | VUnsup c => oob c = false
  end.

(* the run-level statement for the cut machine, and what it gives for the full one *)
Definition wf_run_noob_nc_statement : Prop :=
  forall p, chunk_ok p -> forall fuel, fin_noob (run_proto_nc fuel p).

Definition wf_run_noob_uncut_statement : Prop :=
  forall p, chunk_ok p -> forall fuel, run_proto_nc fuel p <> VFinFuel -> fin_noob (run_proto fuel p).
