(* M-VM: the host functions (Go functions, LGFunction) the generated programs call. A host function
   sees its arguments in the registers LocalBase .. Top-1 of its frame, pushes its results and
   returns their count (callGFunction then moves them to ReturnBase).

   pcall, xpcall, error, getfenv/setfenv and the __tostring call of tostring are transcribed from
   baselib.go/auxlib.go because they touch the machine (frames, PCall, positions). The others are
   pure functions of their arguments and the table heap; they follow baselib.go/tablelib.go/
   stringlib.go/mathlib.go on the fragment the reference evaluator supports (Lua/Eval.v
   builtin_call), outside of which the result is VUnsup and the case is skipped.
   Coroutines are not modelled (VUnsup 110). No proofs here. *)
From Coq Require Import Floats.
From GL Require Import Common.Bytes Lua.Syntax Lua.Num Lua.Values Lua.Names Lua.Eval Str.StrModel.
From GL Require Import VMX.Machine VMX.Step.

Definition m_attempt_call_a : bytes := [97;116;116;101;109;112;116;32;116;111;32;99;97;108;108;32;97;32].
Definition m_value : bytes := [32;118;97;108;117;101].
Definition m_cannot_change_env : bytes := [99;97;110;110;111;116;32;99;104;97;110;103;101;32;116;104;101;32;101;110;118;105;114;111;110;109;101;110;116;32;111;102;32;103;105;118;101;110;32;111;98;106;101;99;116].

(* the function pairs() hands out is its own Go function (pairsaux), not the global next *)
(* coroutine.wrap functions are BWrapped (S thread) *)
Definition BPairsAux : builtin := BWrapped 0.

Definition bi_args : VM (list value) :=
  vdo cf <- cur_frame; vdo top <- reg_top;
  reg_get_range (fr_localbase cf) (Z.to_nat (top - fr_localbase cf)).

Definition bi_ret (vs : list value) : VM Z := vdo _ <- reg_push_list vs; vret (len vs).

Definition badarg {A} : VM A := fault_ 6.

Definition v_opt_int (v : value) (d : Z) : VM Z :=
  match v with
  | VNil => vret d
  | VNum f => match f_to_Z f with Some z => vret z | None => vunsup 212 end
  | _ => badarg
  end.

Fixpoint vmapM {A B} (f : A -> VM B) (l : list A) : VM (list B) :=
  match l with
  | [] => vret []
  | a :: r => vdo b <- f a; vdo bs <- vmapM f r; vret (b :: bs)
  end.

Definition v_border (t : tab) : VM Z :=
  if border_unique (t_kv t) then vret (border (t_kv t)) else vunsup 205.

(* frames by Parent links from the current one: level 0 = the host function's own frame *)
Definition frame_at_level (level : Z) : VM (option cframe) :=
  fun s => VRet (if level <? 0 then None else nth_error (vstack s) (Z.to_nat level)) s.

Definition set_closure_env (c : nat) (env : nat) : VM unit :=
  vdo cl <- get_closure c;
  vmod (fun s => with_vclos s (set_nth (vclos s) c (mkCl (cl_proto cl) (cl_upvals cl) env))).

Section Builtins.

Variable mainloop : option nat -> VM unit.

(* the host functions that only compute on their arguments *)
Definition simple_builtin (b : builtin) (args : list value) : VM (list value) :=
  let a1 := nth 0 args VNil in let a2 := nth 1 args VNil in let a3 := nth 2 args VNil in
  let nargs := len args in
  match b with
  | BEmit => vdo _ <- vmod (fun s => with_vtrace s (vtrace s ++ [args])); vret []
  | BType => match args with [] => badarg | _ => vret [VStr (tyname a1)] end
  | BToNumber =>
      match a2 with
      | VNil => match args with
                | [] => badarg
                | _ => match a1 with
                       | VNum _ => vret [a1]
                       | VStr s => vdo p <- parseNumber s; vret [match p with PN f => VNum f | PNo => VNil end]
                       | VFault _ _ => vunsup 111
                       | _ => vret [VNil]
                       end
                end
      | _ => vunsup 210
      end
  | BSelect =>
      match a1 with
      | VStr s => if beqb s s_hash then vret [vint (nargs - 1)] else badarg
      | VNum f => match f_to_Z f with
                  | Some z => let rest := tl args in
                      if z <? 0 then (if len rest + z <? 0 then badarg else vret (skipn (Z.to_nat (len rest + z)) rest))
                      else if z =? 0 then badarg else vret (skipn (Z.to_nat (z - 1)) rest)
                  | None => vunsup 212 end
      | VFault _ _ => vunsup 111
      | _ => badarg
      end
  | BUnpack =>
      match a1 with
      | VTab r => vdo t <- read_vtab r;
          vdo i <- v_opt_int a2 1;
          vdo j <- (match a3 with VNil => v_border t | _ => v_opt_int a3 0 end);
          if j - i >? 100000 then vunsup 213 else
          vret (seq_get (t_kv t) i (Z.to_nat (j - i + 1)))
      | _ => badarg
      end
  | BNext =>
      match a1 with
      | VTab r => vdo t <- read_vtab r;
          let ks := key_order (t_kv t) in
          match a2 with
          | VNil => match ks with [] => vret [VNil] | k :: _ => vret [k; kv_get (t_kv t) k] end
          | _ => match next_key ks a2 with
                 | Some VNil => vret [VNil]
                 | Some k => vret [k; kv_get (t_kv t) k]
                 | None => vunsup 214
                 end
          end
      | _ => badarg
      end
  | BWrapped co =>     (* pairsaux: like next, but nothing at the end *)
      if negb (Nat.eqb co 0) then vunsup 110 else
      match a1 with
      | VTab r => vdo t <- read_vtab r;
          let ks := key_order (t_kv t) in
          match a2 with
          | VNil => match ks with [] => vret [] | k :: _ => vret [k; kv_get (t_kv t) k] end
          | _ => match next_key ks a2 with
                 | Some VNil => vret []
                 | Some k => vret [k; kv_get (t_kv t) k]
                 | None => vunsup 214
                 end
          end
      | _ => badarg
      end
  | BPairs => match a1 with VTab _ => vret [VBuiltin BPairsAux; a1; VNil] | _ => badarg end
  | BIpairs => match a1 with VTab _ => vret [VBuiltin BIpairsAux; a1; vint 0] | _ => badarg end
  | BIpairsAux =>
      match a1, a2 with
      | VTab r, VNum f => vdo t <- read_vtab r;
          match f_to_Z f with
          | Some z => let i := vint (z + 1) in
                      let v := kv_get (t_kv t) i in
                      if is_nil v then vret [] else vret [i; v]
          | None => vunsup 212
          end
      | _, _ => badarg
      end
  | BRawGet => match a1 with
               | VTab r => if nargs <? 2 then badarg else vdo t <- read_vtab r; vret [kv_get (t_kv t) a2]
               | _ => badarg end
  | BRawSet =>
      match a1 with
      | VTab r => if nargs <? 3 then badarg else vdo _ <- RawSet r a2 a3; vret [a1]   (* L.SetTop(1); return 1 *)
      | _ => badarg
      end
  | BRawEqual => if nargs <? 2 then badarg else
                 if is_fault a1 || is_fault a2 then vunsup 111 else vret [VBool (raweq a1 a2)]
  | BSetMt =>
      match a1 with
      | VTab r =>
          if nargs <? 2 then badarg else   (* L.GetTop() < 2: ArgError(2, "nil or table expected") *)
          match a2 with
          | VNil | VTab _ =>
              vdo prot <- metaOp1 a1 s_mm_metatable;
              if negb (is_nil prot) then raise_msg s_cannot_change_a_protected_metatable else
              vdo t <- read_vtab r;
              vdo _ <- write_vtab r (mkTab (t_kv t) (match a2 with VTab m => Some m | _ => None end));
              vret [a1]
          | _ => badarg
          end
      | _ => badarg
      end
  | BGetMt =>
      match args with
      | [] => badarg
      | _ => vdo prot <- metaOp1 a1 s_mm_metatable;
             if negb (is_nil prot) then vret [prot] else
             fun s => match metatable_raw s a1 with Some m => VRet [VTab m] s | None => VRet [VNil] s end
      end
  | BTInsert =>
      match a1 with
      | VTab r => vdo t <- read_vtab r;
          vdo n <- v_border t;
          let e := n + 1 in
          match args with
          | [_; v] => vdo _ <- write_vtab r (mkTab (kv_set (t_kv t) (vint e) v) (t_meta t)); vret []
          | [_; p; v] => vdo pos <- v_opt_int p e;
              if (pos <? 1) || (pos >? e) then vunsup 217 else
              let moved := seq_get (t_kv t) pos (Z.to_nat (e - pos)) in
              vdo _ <- write_vtab r (mkTab (set_seq (t_kv t) pos (v :: moved)) (t_meta t)); vret []
          | _ => badarg
          end
      | _ => badarg
      end
  | BTRemove =>
      match a1 with
      | VTab r => vdo t <- read_vtab r;
          vdo e <- v_border t;
          vdo pos <- v_opt_int a2 e;
          if (pos <? 1) || (pos >? e) then vret [] else
          let v := kv_get (t_kv t) (vint pos) in
          let moved := seq_get (t_kv t) (pos + 1) (Z.to_nat (e - pos)) in
          vdo _ <- write_vtab r (mkTab (set_seq (t_kv t) pos (moved ++ [VNil])) (t_meta t)); vret [v]
      | _ => badarg
      end
  | BTConcat =>
      match a1 with
      | VTab r => vdo t <- read_vtab r;
          vdo sep <- (match a2 with VNil => vret [] | VStr s => vret s | VNum f => of_num_text f | _ => vunsup 218 end);
          vdo i <- v_opt_int a3 1;
          vdo j <- (match nth 3 args VNil with VNil => v_border t | v => v_opt_int v 0 end);
          if j - i >? 100000 then vunsup 213 else
          vdo parts <- vmapM (fun v => match v with VStr s => vret s | VNum f => of_num_text f | VFault _ _ => vunsup 111 | _ => badarg end)
                            (seq_get (t_kv t) i (Z.to_nat (j - i + 1)));
          vret [VStr (join_bytes sep parts)]
      | _ => badarg
      end
  | BStrLen => match a1 with VStr s => vret [vint (len s)] | _ => vunsup 219 end
  | BStrSub => match a1, a2 with
               | VStr s, VNum _ => vdo i <- v_opt_int a2 1; vdo j <- v_opt_int a3 (-1); vret [VStr (sub_spec s i j)]
               | VStr _, VNil => badarg
               | _, _ => vunsup 219 end
  | BStrRep => match a1, a2 with
               | VStr _, VNil => badarg
               | VStr s, _ => vdo k <- v_opt_int a2 0; if k >? 1000 then vunsup 213 else vret [VStr (rep_spec s k)]
               | _, _ => vunsup 219 end
  | BStrUpper => match a1 with VStr s => vret [VStr (map toupper_c s)] | _ => vunsup 219 end
  | BStrLower => match a1 with VStr s => vret [VStr (map tolower_c s)] | _ => vunsup 219 end
  | BStrByte => match a1 with
                | VStr s => let oi := match a2 with VNum f => f_to_Z f | _ => None end in
                            let oj := match a3 with VNum f => f_to_Z f | _ => None end in
                            vret (map vint (byte_spec s oi oj))
                | _ => vunsup 219 end
  | BMathFloor => match a1 with VNum f => vret [VNum (f_floor f)] | _ => vunsup 219 end
  | BMathAbs => match a1 with VNum f => vret [VNum (PrimFloat.abs f)] | _ => vunsup 219 end
  | BMathMax =>
      match a1 with
      | VNum f => vdo r <- (fix go (l : list value) (acc : float) : VM float :=
                      match l with [] => vret acc | VNum g :: r => go r (f_max acc g) | _ => vunsup 219 end) (tl args) f; vret [VNum r]
      | _ => vunsup 219 end
  | BMathMin =>
      match a1 with
      | VNum f => vdo r <- (fix go (l : list value) (acc : float) : VM float :=
                      match l with [] => vret acc | VNum g :: r => go r (f_min acc g) | _ => vunsup 219 end) (tl args) f; vret [VNum r]
      | _ => vunsup 219 end
  | BNewUd =>
      fun s => VRet [VUd (length (vuds s))]
                    (with_vuds s (vuds s ++ [match a1 with VTab m => Some m | _ => None end]))
  | _ => vunsup 112
  end.

(* func (ls *LState) ToStringMeta(lv) *)
Definition ToStringMeta (v : value) : VM value :=
  vdo h <- metaOp1 v s_mm_tostring;
  if negb (is_nil h) then   (* ToStringMeta: any non-nil handler is called (5c2f2ce) *)
    vdo _ <- reg_push h; vdo _ <- reg_push v; vdo _ <- Call mainloop 1 1; reg_pop
  else
    match v with
    | VNil => vret (VStr s_nil)
    | VBool b => vret (VStr (if b then s_true else s_false))
    | VNum f => vdo t <- of_num_text f; vret (VStr t)
    | VStr _ => vret v
    | VFault _ _ => vunsup 111
    | _ => vunsup 209            (* the address of a table/function is not an observable *)
    end.

(* ---------- coroutinelib.go ---------- *)
Definition new_thread (fn : fnref) (wrapped : bool) : VM nat :=
  fun s => VRet (length (vthreads s))
                (with_threads s (vthreads s ++ [mkTh (mkReg [] 0) [mkFrame fn 0 0 1 0 0 MultRet 0] [] None wrapped false false 0])).

(* func (th *LState) adjustResumedValues(n int), running as th *)
Definition adjustResumedValues (n : Z) : VM unit :=
  fun s =>
    match vstack s with
    | [] => VRet tt s
    | cf :: _ =>
        match fr_fn cf with
        | FnGo _ => VRet tt s
        | FnLua c =>
            if fr_pc cf =? 0 then VRet tt s else
            (vdo cl <- get_closure c;
             vdo inst <- code_at (cl_proto cl) (fr_pc cf - 1);
             match op_of_code (opGetOpCode inst) with
             | Some OP_CALL =>
                 let nret := opGetArgC inst - 1 in
                 if (nret >=? 0) && negb (nret =? n)
                 then vdo top <- reg_top; reg_settop (top - n + nret)
                 else vret tt
             | _ => vret tt
             end) s
        end
    end.

Definition thread_status (s : vstate) (t : nat) : bytes :=
  let th := get_thread s t in
  if th_dead th then s_dead
  else if Nat.eqb t (vcur s) then s_running
  else match th_parent th with Some _ => s_normal | None => s_suspended end.

(* func threadRun(L) for the coroutine t resumed by the thread me: the main loop runs until the
   coroutine yields or ends; an error kills the coroutine and is handed to the resumer (as a
   result of resume, or as an error of the wrap function, positioned for strings) *)
(* func threadRun(L) for the coroutine t resumed by the thread me: the main loop runs until the
   coroutine yields or ends; an error kills the coroutine and is handed to the resumer (as a result
   of resume, or as an error of the wrap function, positioned for strings) *)
Definition threadRun (t me : nat) (wrapped : bool) : VM unit :=
  fun s1 =>
                    match mainloop None s1 with
                    | VRet _ s2 => VRet tt s2
                    | VErr e s2 =>
                        if negb (Nat.eqb (vcur s2) t) then VUnsup 115 else
                        let s3 := closeUpvalues_st 0 s2 in
                        if wrapped then
                          (* the error leaves through the wrap function *)
                          let s4 := set_thread s3 t (let x := get_thread s3 t in
                                       mkTh (th_reg x) (th_stack x) (th_uvcache x) None (th_wrapped x) true true (th_nccalls x)) in
                          let sp := switch_to me s4 in
                          match e with
                          | VNum _ | VStr _ =>
                              match GetStack (vstack sp) 1 with
                              | Some f => if is_go (fr_fn f) then VErr e sp
                                          else (vdo w <- where_info 1 false; vdo m <- as_text e;
                                                vraise (VStr (winfo_text w ++ [32] ++ m))) sp
                              | None => VErr e sp
                              end
                          | VFault _ _ =>
                              match GetStack (vstack sp) 1 with
                              | Some f => if is_go (fr_fn f) then VErr e sp else VUnsup 111
                              | None => VErr e sp
                              end
                          | _ => VErr e sp
                          end
                        else
                          (vdo cfe <- (fun s => VRet (match vstack s with f :: _ => fr_localbase f | [] => 0 end) s);
                           vdo _ <- reg_settop cfe;             (* L.SetTop(0) *)
                           vdo _ <- reg_push e;
                           switchToParentThread 1 true true) s3
                    | VFuel => VFuel
                    | VUnsup c => VUnsup c
                    end.

(* func resumeThread(L, wrapped): the registers of L hold the thread and the values to pass.
   [wrapped] is a property of the resumption: a function made by coroutine.wrap gets the plain
   values and errors are raised in it, coroutine.resume gets a leading boolean - also for a thread
   that coroutine.wrap created. (enterThread's failure - the thread's registry cannot take the
   arguments - does not arise: the registry is unbounded here.) *)
Definition resumeThread (wrapped : bool) : VM Z :=
  vdo args <- bi_args;
  match args with
  | VCo t :: vals =>
      vdo s <- vget;
      let th := get_thread s t in
      let me := vcur s in
      if Nat.eqb t me || (match th_parent th with Some _ => true | None => false end)
      then (if wrapped then fault_ 9 else bi_ret [VBool false; VFault 9 0])
      else if th_dead th
      then (if wrapped then fault_ 8 else bi_ret [VBool false; VFault 8 0])
      else match th_stack th with
      | [] =>
          (* the body was a Go function that yielded: it has no frame to continue, the values it
             is resumed with are its results *)
          vdo _ <- upd_thread t (fun x => mkTh (th_reg x) (th_stack x) (th_uvcache x) (th_parent x) (th_wrapped x) true
                                               (th_started x) (th_nccalls x));
          vdo cf <- cur_frame;
          vdo _ <- reg_settop (fr_localbase cf);
          bi_ret (if wrapped then vals else VBool true :: vals)     (* L.Remove(1) / L.Replace(1, LTrue) *)
      | _ :: _ =>
        vdo cf <- cur_frame;
        let nargs := len vals in
        vdo _ <- reg_settop (fr_localbase cf + 1);          (* L.XMoveTo(th, nargs), L's side *)
        (* th.wrapped = wrapped; enterThread: th.Parent = L, CurrentThread = th *)
        vdo _ <- upd_thread t (fun x => mkTh (th_reg x) (th_stack x) (th_uvcache x) (Some me) wrapped (th_dead x) true (th_nccalls x));
        vdo _ <- vmod (switch_to t);
        (* running as th *)
        vdo _ <- (if negb (th_started th) then
                    vdo cf' <- cur_frame;
                    vdo _ <- reg_settop (fr_localbase cf');   (* th.SetTop(0) *)
                    vdo _ <- reg_push_list vals;
                    let cf1 := mkFrame (fr_fn cf') (fr_pc cf') (fr_base cf') (fr_localbase cf') (fr_returnbase cf')
                                       nargs (fr_nret cf') (fr_tailcall cf') in
                    vdo _ <- set_cur_frame cf1;
                    vdo cf2 <- initCallFrame cf1;
                    set_cur_frame cf2
                  else
                    vdo _ <- reg_push_list vals; adjustResumedValues nargs);
        vdo _ <- threadRun t me wrapped;
        vdo s5 <- vget;
        if negb (Nat.eqb (vcur s5) me) then vunsup 115 else
        vdo cf5 <- cur_frame;
        vdo top <- reg_top;
        vret (top - fr_localbase cf5 - 1)
      end
  | _ => badarg
  end.

(* frame.Fn.GFunction(L) *)
Definition gfunction (b : builtin) : VM Z :=
  vdo args <- bi_args;
  let a1 := nth 0 args VNil in let a2 := nth 1 args VNil in
  match b with
  | BToString => match args with [] => badarg | _ => vdo v <- ToStringMeta a1; bi_ret [v] end
  | BPcall =>
      match args with
      | [] => badarg
      | v :: _ =>
          vdo h <- metaOp1 v s_mm_call;
          if negb (is_function v) && negb (is_function h) then
            bi_ret [VBool false; VStr (m_attempt_call_a ++ tyname v ++ m_value)]
          else
            vdo r <- PCall mainloop (len args - 1) MultRet None;
            match r with
            | Some e => bi_ret [VBool false; e]
            | None =>
                vdo cf <- cur_frame;
                vdo _ <- vmod_reg (fun r => Insert r (VBool true) (fr_localbase cf));
                vdo top <- reg_top; vret (top - fr_localbase cf)
            end
      end
  | BXpcall =>
      (* the first argument is not type-checked: it is called inside the protected call *)
      if negb (is_function a2) then badarg else
      vdo cf <- cur_frame;
      vdo top0 <- reg_top;
      let top := top0 - fr_localbase cf in
      vdo _ <- reg_push a1;
      vdo r <- PCall mainloop 0 MultRet (Some a2);
      match r with
      | Some e => bi_ret [VBool false; e]
      | None =>
          vdo _ <- vmod_reg (fun r => Insert r (VBool true) (fr_localbase cf + top));
          vdo t <- reg_top; vret (t - fr_localbase cf - top)
      end
  | BError =>
      let obj := a1 in
      vdo level <- v_opt_int a2 1;
      vdo obj' <- (if (level >? 0) && (match obj with VNum _ | VStr _ => true | _ => false end) then
                     vdo msg <- as_text obj;
                     vdo s <- vget;
                     match GetStack (vstack s) level with
                     | Some f => if is_go (fr_fn f) then vret (VStr msg)
                                 else vdo w <- where_info level false; vret (VStr (winfo_text w ++ [32] ++ msg))
                     | None => vret (VStr msg)
                     end
                   else match obj with VFault _ _ => (if level >? 0 then vunsup 111 else vret obj) | _ => vret obj end);
      (* L.Error(obj, 0): the object is pushed and the state panics *)
      vdo _ <- reg_push obj'; vraise obj'
  | BAssert =>
      if truthy a1 then vret (len args)
      else match a2 with
           | VNil => raise_msg s_assertion_failed
           | VStr m => raise_msg m
           | VFault _ _ => vunsup 111
           | _ => badarg
           end
  | BGetFenv =>
      let value := match args with [] => vint 1 | _ => a1 end in
      vdo s <- vget;
      match value with
      | VFun c => vdo cl <- get_closure c; bi_ret [VTab (cl_env cl)]
      | VBuiltin _ => bi_ret [VTab (vglobal s)]
      | VNum f =>
          match f_to_Z f with
          | None => vunsup 212
          | Some level =>
              if level <=? 0 then vunsup 215 else
              vdo of <- frame_at_level level;
              match of with
              | Some (mkFrame (FnLua c) _ _ _ _ _ _ _) => vdo cl <- get_closure c; bi_ret [VTab (cl_env cl)]
              | _ => bi_ret [VTab (vglobal s)]
              end
          end
      | _ => bi_ret [VTab (vglobal s)]
      end
  | BSetFenv =>
      let value := match args with [] => vint 1 | _ => a1 end in
      match a2 with
      | VTab env =>
          match value with
          | VFun c => vdo _ <- set_closure_env c env; bi_ret [value]
          | VBuiltin _ => raise_msg m_cannot_change_env
          | VNum f =>
              match f_to_Z f with
              | None => vunsup 212
              | Some level =>
                  if level <=? 0 then vunsup 215 else
                  vdo of <- frame_at_level level;
                  match of with
                  | Some (mkFrame (FnLua c) _ _ _ _ _ _ _) => vdo _ <- set_closure_env c env; bi_ret [VFun c]
                  | _ => raise_msg m_cannot_change_env
                  end
              end
          | _ => raise_msg m_cannot_change_env
          end
      | _ => badarg
      end
  | BCoYield => vret (-1)
  | BCoCreate => match fnref_of a1 with Some f => vdo t <- new_thread f false; bi_ret [VCo t] | None => badarg end
  | BCoWrap => match fnref_of a1 with Some f => vdo t <- new_thread f true; bi_ret [VBuiltin (BWrapped (S t))] | None => badarg end
  | BCoStatus => match a1 with VCo t => vdo s <- vget; bi_ret [VStr (thread_status s t)] | _ => badarg end
  | BCoRunning => vdo s <- vget; bi_ret [if Nat.eqb (vcur s) 0 then VNil else VCo (vcur s)]
  | BCoResume => resumeThread false
  | BWrapped (S t) =>        (* wrapaux: L.Insert(thread, 1); return coResume(L) *)
      vdo cf <- cur_frame;
      vdo _ <- vmod_reg (fun r => Insert r (VCo t) (fr_localbase cf));
      resumeThread true
  | _ => vdo rs <- simple_builtin b args; bi_ret rs
  end.

End Builtins.
