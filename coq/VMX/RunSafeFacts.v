(* M-VM and C07: OP_TFORLOOP, and with it all 42 opcodes - at an instruction accepted by C07's checker
   the instruction function of the full VM model reads Code / Constants / FunctionPrototypes /
   upvalue slots only in range. OP_TFORLOOP reads the JMP word behind it after a re-entrant call;
   that read is in range when the re-entered loop comes back with the caller's frame and pc. *)
From Coq Require Import Floats Lia ZifyBool.
From GL Require Import Common.Bytes Lua.Syntax Lua.Num Lua.Values Lua.Names Lua.Eval.
From GL Require Import VMX.Machine VMX.Step VMX.Spec VMX.WfTie VMX.FrameFacts VMX.WfTieFacts VMX.RunSafe.
From GL Require VM.Proto VM.WfProto VM.OpcodeFacts VM.WfFacts.

(* ---------- computations that leave the frame stack alone ---------- *)
Definition same_stack (s s' : vstate) : Prop := vstack s' = vstack s.

Lemma same_stack_trans : forall a b c, same_stack a b -> same_stack b c -> same_stack a c.
Proof. unfold same_stack. intros. congruence. Qed.

Lemma ks_vret : forall A (a : A), keeps same_stack (vret a).
Proof. intros A a s x s' H. inversion H. reflexivity. Qed.
Lemma ks_vget : keeps same_stack vget.
Proof. intros s x s' H. inversion H. reflexivity. Qed.
Lemma ks_vmod_reg : forall f, keeps same_stack (vmod_reg f).
Proof. intros f s x s' H. inversion H. reflexivity. Qed.
Lemma ks_reg_top : keeps same_stack reg_top.
Proof. intros s x s' H. inversion H. reflexivity. Qed.
Lemma ks_reg_get : forall i, keeps same_stack (reg_get i).
Proof. intros i s x s' H. unfold reg_get in H. destruct (Get _ _); inversion H. reflexivity. Qed.
Lemma ks_reg_set : forall i v, keeps same_stack (reg_set i v).
Proof. intros. apply ks_vmod_reg. Qed.
Lemma ks_reg_settop : forall t, keeps same_stack (reg_settop t).
Proof. intros. apply ks_vmod_reg. Qed.
Lemma ks_get_closure : forall c, keeps same_stack (get_closure c).
Proof. intros c s x s' H. unfold get_closure in H. destruct (nth_error _ _); inversion H. reflexivity. Qed.
Lemma ks_alloc_vtab : forall t, keeps same_stack (alloc_vtab t).
Proof. intros t s x s' H. inversion H. reflexivity. Qed.
Lemma ks_metaOp1 : forall v e, keeps same_stack (metaOp1 v e).
Proof. intros v e s x s' H. inversion H. reflexivity. Qed.
Lemma ks_nccalls_add : forall d, keeps same_stack (nccalls_add d).
Proof. intros d s x s' H. inversion H. reflexivity. Qed.

Ltac ks_tac :=
  repeat first
    [ apply ks_vret | apply ks_vmod_reg | apply ks_vget | apply ks_reg_top | apply ks_reg_get
    | apply ks_reg_set | apply ks_reg_settop | apply ks_get_closure | apply ks_alloc_vtab
    | apply ks_metaOp1 | apply ks_nccalls_add
    | apply keeps_bind; [exact same_stack_trans| |intro]
    | match goal with |- keeps _ (match ?x with _ => _ end) => destruct x end
    | match goal with |- keeps _ (let '(_, _) := ?x in _) => destruct x end ].

Lemma ks_metaCall : forall v, keeps same_stack (metaCall v).
Proof. intro v. unfold metaCall. ks_tac. Qed.

Lemma ks_initCallFrame : forall cf, keeps same_stack (initCallFrame cf).
Proof. intro cf. unfold initCallFrame. ks_tac. Qed.

(* raising never returns *)
Lemma fault_not_ret : forall A k s (a : A) s', @fault_ A k s <> VRet a s'.
Proof.
  intros A k s a s' H. unfold fault_ in H. apply vbind_ret in H. destruct H as [w [s1 [_ H]]].
  destruct w; discriminate.
Qed.

Lemma raise_msg_not_ret : forall A m s (a : A) s', @raise_msg A m s <> VRet a s'.
Proof.
  intros A m s a s' H. unfold raise_msg in H. apply vbind_ret in H. destruct H as [w [s1 [_ H]]].
  apply vbind_ret in H. destruct H as [u [s2 [_ H]]]. discriminate.
Qed.

(* pushCallFrame that returns has pushed exactly one frame *)
Lemma pushCallFrame_stack : forall ofn b lb rb na nr fn meta s s',
  pushCallFrame ofn b lb rb na nr fn meta s = VRet tt s' ->
  exists cf', vstack s' = cf' :: vstack s.
Proof.
  intros ofn b lb rb na nr fn meta s s' H. unfold pushCallFrame in H.
  apply vbind_ret in H. destruct H as [u [s1 [H1 H]]].
  assert (E1 : vstack s1 = vstack s).
  { destruct meta; [apply (ks_vmod_reg _ _ _ _ H1)|apply (ks_vret _ _ _ _ _ H1)]. }
  destruct ofn as [f|]; [|exfalso; eapply fault_not_ret; eassumption].
  apply vbind_ret in H. destruct H as [sx [s2 [H2 H]]]. inversion H2; subst sx s2. clear H2.
  destruct (len (vstack s1) >=? CallStackSize); [exfalso; eapply raise_msg_not_ret; eassumption|].
  apply vbind_ret in H. destruct H as [u2 [s3 [H3 H]]]. inversion H3; subst u2 s3. clear H3.
  apply vbind_ret in H. destruct H as [cf' [s4 [H4 H]]].
  apply ks_initCallFrame in H4. unfold same_stack in H4. cbn [vstack with_stack] in H4.
  unfold set_cur_frame in H. rewrite H4 in H. inversion H. cbn [vstack with_stack].
  exists cf'. rewrite E1. reflexivity.
Qed.

Section CallR.
Variable ml : option nat -> VM unit.
Hypothesis Hml : ml_keeps_caller_pc ml.

(* callR returns with the caller's frame on top and its pc unchanged *)
Lemma callR_top_pc : forall na nr rb s s', callR ml na nr rb s = VRet tt s' -> top_pc s' = top_pc s.
Proof.
  intros na nr rb s s' H. unfold callR in H.
  apply vbind_ret in H. destruct H as [top [s1 [H1 H]]]. apply ks_reg_top in H1.
  apply vbind_ret in H. destruct H as [lv [s2 [H2 H]]]. apply ks_reg_get in H2.
  apply vbind_ret in H. destruct H as [fm [s3 [H3 H]]]. apply ks_metaCall in H3.
  apply vbind_ret in H. destruct H as [u4 [s4 [H4 H]]]. destruct u4. apply pushCallFrame_stack in H4. destruct H4 as [cf' H4].
  apply vbind_ret in H. destruct H as [u5 [s5 [H5 H]]]. apply ks_nccalls_add in H5.
  apply vbind_ret in H. destruct H as [sx [s6 [H6 H]]]. inversion H6; subst sx s6. clear H6.
  apply vbind_ret in H. destruct H as [u7 [s7 [H7 H]]]. destruct u7.
  apply vbind_ret in H. destruct H as [u8 [s8 [H8 H]]]. apply ks_nccalls_add in H8.
  assert (H9 : vstack s' = vstack s8).
  { destruct (nr =? MultRet); [apply (ks_vret _ _ _ _ _ H)|apply (ks_reg_settop _ _ _ _ H)]. }
  unfold same_stack in *.
  assert (Es3 : vstack s3 = vstack s) by congruence.
  assert (Es5 : vstack s5 = cf' :: vstack s) by congruence.
  apply Hml in H7; [|rewrite Es5; cbn [length]; lia].
  unfold top_pc, caller_pc in *. rewrite H9, H8, H7, Es5. reflexivity.
Qed.

End CallR.

(* ---------- a Hoare rule for "no out-of-range fault from these states" ---------- *)
Definition tri {A} (P : vstate -> Prop) (m : VM A) (Q : A -> vstate -> Prop) : Prop :=
  forall s, P s -> match m s with VRet a s' => Q a s' | VUnsup c => oob c = false | _ => True end.

Lemma tri_bind : forall A B P (m : VM A) Q (f : A -> VM B) R,
  tri P m Q -> (forall a, tri (Q a) (f a) R) -> tri P (vbind m f) R.
Proof.
  intros A B P m Q f R Hm Hf s Hs. unfold vbind. specialize (Hm s Hs).
  destruct (m s) as [a s1|e s1| |c]; auto. apply Hf. exact Hm.
Qed.

Lemma tri_noob_on : forall A P (m : VM A) Q, tri P m Q -> noob_on P m.
Proof. intros A P m Q H s c Hs E. specialize (H s Hs). rewrite E in H. exact H. Qed.

(* a computation that is safe anywhere and leaves the frame stack alone keeps the top pc *)
Lemma tri_ks : forall A (m : VM A) x, noob m -> keeps same_stack m ->
  tri (fun s => top_pc s = x) m (fun _ s => top_pc s = x).
Proof.
  intros A m x Hn Hk s Hs. destruct (m s) as [a s1|e s1| |c] eqn:E; auto.
  - apply Hk in E. unfold same_stack in E. unfold top_pc in *. rewrite E. exact Hs.
  - eapply Hn. eassumption.
Qed.

Lemma tri_weaken : forall A (P : vstate -> Prop) (m : VM A) (Q Q' : A -> vstate -> Prop),
  tri P m Q -> (forall a s, Q a s -> Q' a s) -> tri P m Q'.
Proof.
  intros A P m Q Q' H HQ s Hs. specialize (H s Hs). destruct (m s); auto.
Qed.

Lemma tri_noob : forall A (P : vstate -> Prop) (m : VM A), noob m -> tri P m (fun _ _ => True).
Proof.
  intros A P m Hn s Hs. destruct (m s) eqn:E; auto. eapply Hn. eassumption.
Qed.

Section TFor.
Variable ml : option nat -> VM unit.
Variable gf : builtin -> VM Z.
Hypothesis Hml : forall b, noob (ml b).
Hypothesis Hgf : forall b, noob (gf b).
Hypothesis Hkeep : ml_keeps_caller_pc ml.

Lemma tri_callR : forall na nr rb x,
  tri (fun s => top_pc s = x) (callR ml na nr rb) (fun _ s => top_pc s = x).
Proof.
  intros na nr rb x s Hs. destruct (callR ml na nr rb s) as [a s1|e s1| |c] eqn:E; auto.
  - destruct a. apply (callR_top_pc ml Hkeep) in E. congruence.
  - eapply (noob_callR ml Hml). eassumption.
Qed.

(* OP_TFORLOOP: the word read after the iterator call is the JMP right behind the instruction *)
Lemma tforloop_noob : forall cl cf inst base,
  op_of_code (opGetOpCode inst) = Some OP_TFORLOOP ->
  W.inst_ok (fn_of (cl_proto cl)) (W.tags_of (fn_of (cl_proto cl))) (fr_pc cf - 1) inst = true ->
  noob_on (fun s => top_pc s = Some (fr_pc cf)) (exec_op ml gf cl cf inst base).
Proof.
  intros cl cf inst base Hop H.
  destruct (fn_of_fields (cl_proto cl)) as [Hcode _].
  unfold W.inst_ok in H. rewrite Hop in H.
  apply andb_true_iff in H. destruct H as [_ H]. split_ands.
  match goal with Hx : W.is_head _ (fr_pc cf - 1 + 1) = true |- _ => pose proof (VM.WfFacts.is_head_range _ _ Hx) as Hr end.
  rewrite VM.WfFacts.tags_len in Hr. rewrite Hcode in Hr. rewrite plen_eq in Hr.
  replace (fr_pc cf - 1 + 1) with (fr_pc cf) in Hr by lia.
  unfold exec_op. rewrite Hop.
  eapply tri_noob_on with (Q := fun _ _ => True).
  set (x := Some (fr_pc cf)).
  assert (K : forall A (m : VM A), noob m -> keeps same_stack m ->
              tri (fun s => top_pc s = x) m (fun _ s => top_pc s = x)) by (intros; apply tri_ks; assumption).
  eapply tri_bind; [apply K; [auto with noob|apply ks_reg_settop]|intro].
  eapply tri_bind; [apply K; [auto with noob|apply ks_reg_get]|intro x2].
  eapply tri_bind; [apply K; [auto with noob|apply ks_reg_set]|intro].
  eapply tri_bind; [apply K; [auto with noob|apply ks_reg_get]|intro x1].
  eapply tri_bind; [apply K; [auto with noob|apply ks_reg_set]|intro].
  eapply tri_bind; [apply K; [auto with noob|apply ks_reg_get]|intro x0].
  eapply tri_bind; [apply K; [auto with noob|apply ks_reg_set]|intro].
  eapply tri_bind; [apply tri_callR|intro].
  eapply tri_bind; [apply K; [auto with noob|apply ks_reg_get]|intro v].
  eapply tri_bind with (Q := fun _ _ => True); [|intro; apply tri_noob; noob_tac].
  destruct (negb (is_nil v)); [|apply tri_noob; auto with noob].
  eapply tri_bind; [apply K; [auto with noob|apply ks_reg_set]|intro].
  (* the current frame is the caller's, at the JMP word *)
  intros s Hs. unfold vbind at 1. unfold cur_frame. unfold top_pc in Hs.
  destruct (vstack s) as [|f rest] eqn:Es; [reflexivity|].
  subst x. inversion Hs as [Hpc].
  assert (Hn : noob (vdo w <- code_at (cl_proto cl) (fr_pc f); add_pc (opGetArgSbx w))).
  { apply noob_bind; [apply code_at_noob; rewrite Hpc; exact Hr|intro; auto with noob]. }
  destruct ((vdo w <- code_at (cl_proto cl) (fr_pc f); add_pc (opGetArgSbx w)) s) eqn:E; auto.
  eapply Hn. eassumption.
Qed.

(* all 42 opcodes *)
Theorem wf_exec_op_noob_all_lemma : forall cl cf inst base o,
  closure_ok cl ->
  xp_nregs (cl_proto cl) <= W.frame_limit ->
  0 <= fr_pc cf - 1 ->
  op_of_code (opGetOpCode inst) = Some o ->
  W.inst_ok (fn_of (cl_proto cl)) (W.tags_of (fn_of (cl_proto cl))) (fr_pc cf - 1) inst = true ->
  noob_on (fun s => top_pc s = Some (fr_pc cf)) (exec_op ml gf cl cf inst base).
Proof.
  intros cl cf inst base o Hcl Hregs Hpc Hop H.
  assert (D : o = OP_TFORLOOP \/ o <> OP_TFORLOOP) by (destruct o; ((left; reflexivity) || (right; discriminate))).
  destruct D as [->|Hne].
  - apply tforloop_noob; assumption.
  - intros s c _ E. eapply (wf_exec_op_noob_lemma ml gf Hml Hgf); eassumption.
Qed.

End TFor.

(* from the whole-function verdict: at every instruction head of a function that passes wf_fn, the
   instruction the VM model fetches there - any of the 42 - executes without an out-of-range access
   of its own, in every state whose current frame is the one being executed *)
Theorem wf_step_noob_all_lemma : forall ml gf cl cf inst base,
  (forall b, noob (ml b)) -> (forall b, noob (gf b)) -> ml_keeps_caller_pc ml ->
  W.wf_fn (fn_of (cl_proto cl)) = true ->
  closure_ok cl ->
  VM.WfFacts.pc_ok (fn_of (cl_proto cl)) (fr_pc cf - 1) ->
  zth (xp_code (cl_proto cl)) (fr_pc cf - 1) = Some inst ->
  noob_on (fun s => top_pc s = Some (fr_pc cf)) (exec_op ml gf cl cf inst base).
Proof.
  intros ml gf cl cf inst base Hml Hgf Hk Hwf Hcl Hpc Hz.
  destruct (VM.WfFacts.head_inst_ok _ _ Hwf Hpc) as [w [Hw Hok]].
  destruct (fn_of_fields (cl_proto cl)) as [Hcode [_ [_ [_ [_ Hnregs]]]]].
  rewrite Hcode in Hw. rewrite pzth_eq in Hw. rewrite Hz in Hw. inversion Hw; subst w.
  pose proof (VM.WfFacts.wf_fn_facts _ Hwf) as [_ [_ [_ [_ [_ [Hlim _]]]]]].
  rewrite Hnregs in Hlim.
  pose proof (VM.WfFacts.pc_ok_range _ _ Hpc) as Hr.
  destruct (op_of_code (opGetOpCode inst)) as [o|] eqn:Hop.
  - eapply wf_exec_op_noob_all_lemma; eauto. lia.
  - unfold W.inst_ok in Hok. rewrite Hop in Hok. discriminate.
Qed.

(* the natural form of the hypothesis implies the one used *)
Lemma returns_keeps_caller_pc : forall ml, ml_returns_to_caller ml -> ml_keeps_caller_pc ml.
Proof.
  intros ml H b s s' Hl E. apply H in E; [|exact Hl]. unfold top_pc, caller_pc. rewrite E.
  destruct (vstack s) as [|f [|g r]]; reflexivity.
Qed.
