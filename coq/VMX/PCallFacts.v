(* M-VM: what LState.PCall (VMX/Step.v, transcribed from _state.go) guarantees about the two
   heights C05 names -- the call depth (Sp) and the value-stack height (reg.top) -- for ANY state,
   argument counts, handler and re-entered main loop. *)
From Coq Require Import Floats Lia ZifyBool.
From GL Require Import Common.Bytes Lua.Syntax Lua.Num Lua.Values Lua.Names Lua.Eval.
From GL Require Import VMX.Machine VMX.Step VMX.Spec VMX.FrameFacts.

Section PCallHeights.
Variable ml : option nat -> VM unit.

Lemma SetSp_length : forall sp s, (length (vstack (SetSp sp s)) <= sp)%nat \/ vstack (SetSp sp s) = vstack s.
Proof.
  intros sp s. unfold SetSp. cbn [vstack with_stack].
  destruct (Nat.le_gt_cases (length (vstack s)) sp) as [H|H].
  - right. replace (length (vstack s) - sp)%nat with 0%nat by lia. reflexivity.
  - left. rewrite skipn_length. lia.
Qed.

Lemma SetSp_exact : forall sp s, (sp <= length (vstack s))%nat -> length (vstack (SetSp sp s)) = sp.
Proof. intros sp s H. unfold SetSp. cbn [vstack with_stack]. rewrite skipn_length. lia. Qed.

Lemma unwind_stack : forall sp base s, vstack (unwind sp base s) = vstack (SetSp sp s).
Proof. reflexivity. Qed.

Lemma unwind_top : forall sp base s, rtop (vreg (unwind sp base s)) = base.
Proof. reflexivity. Qed.

(* PCall never lets an error through: the only results are "returned" (with or without an error
   object), out of fuel, or outside the modelled fragment. *)
Lemma PCall_never_errs : forall nargs nret h s e s', PCall ml nargs nret h s <> VErr e s'.
Proof.
  intros nargs nret h s e s'. unfold PCall.
  destruct (Call ml nargs nret s) as [u s1|e1 s1| |c]; try discriminate.
  destruct h as [hv|]; try discriminate.
  match goal with |- context [match ?X with _ => _ end] => destruct X end; discriminate.
Qed.

(* after a FAILED protected call: the value stack is cut back to the callee's slot (the caller
   then pushes the error object there), and the frame stack is the bottom part of the failing
   state's frame stack, never deeper than before the call *)
Lemma PCall_error_heights : forall nargs nret h s e s',
  PCall ml nargs nret h s = VRet (Some e) s' ->
  rtop (vreg s') = rtop (vreg s) - nargs - 1 /\
  exists sf, vstack s' = skipn (length (vstack sf) - length (vstack s)) (vstack sf).
Proof.
  intros nargs nret h s e s'. unfold PCall.
  destruct (Call ml nargs nret s) as [u s1|e1 s1| |c]; try discriminate.
  destruct h as [hv|].
  - match goal with |- context [match ?X with _ => _ end] => destruct X as [a sa|ea sa| |ca] end;
      try discriminate; intros H; inversion H; subst; (split; [reflexivity|eexists; reflexivity]).
  - intros H; inversion H; subst. split; [reflexivity|eexists; reflexivity].
Qed.

(* after a SUCCESSFUL protected call the frame stack is cut back the same way *)
Lemma PCall_ok_depth : forall nargs nret h s s',
  PCall ml nargs nret h s = VRet None s' -> (length (vstack s') <= length (vstack s))%nat.
Proof.
  intros nargs nret h s s'. unfold PCall.
  destruct (Call ml nargs nret s) as [u s1|e1 s1| |c]; try discriminate.
  - intros H; inversion H; subst. unfold SetSp. cbn [vstack with_stack]. rewrite skipn_length. lia.
  - destruct h as [hv|]; try discriminate.
    match goal with |- context [match ?X with _ => _ end] => destruct X end; discriminate.
Qed.

(* the error object delivered is exactly the one the callee raised (no handler), and when the
   failing state is at least as deep as the caller -- frames are only pushed by a callee -- the call
   depth is restored EXACTLY, the value stack is cut back to the callee's slot *)
Lemma unwind_depth_exact : forall sp base sf, (sp <= length (vstack sf))%nat ->
  length (vstack (unwind sp base sf)) = sp.
Proof. intros. rewrite unwind_stack. apply SetSp_exact. assumption. Qed.

Lemma PCall_nohandler_restores : forall nargs nret s e sf,
  Call ml nargs nret s = VErr e sf ->
  (length (vstack s) <= length (vstack sf))%nat ->
  exists s', PCall ml nargs nret None s = VRet (Some e) s' /\
             length (vstack s') = length (vstack s) /\
             rtop (vreg s') = rtop (vreg s) - nargs - 1 /\
             vstack s' = skipn (length (vstack sf) - length (vstack s)) (vstack sf).
Proof.
  intros nargs nret s e sf HC HL. unfold PCall. rewrite HC.
  eexists. split; [reflexivity|]. split; [apply unwind_depth_exact; assumption|].
  split; reflexivity.
Qed.

(* with a handler: the handler's result (or the error it raises itself) is what is delivered,
   and the heights are restored the same way from the state the handler left (the handler runs
   after ls.nccalls has been put back to its value at the PCall) *)
Lemma PCall_handler_restores : forall nargs nret hv s e sf,
  Call ml nargs nret s = VErr e sf ->
  forall r, (vdo _ <- reg_push hv; vdo _ <- reg_push e; vdo _ <- Call ml 1 1;
             vdo t <- reg_top; reg_get (t - 1)) (set_nccalls (cur_nccalls s) sf) = r ->
  match r with
  | VRet v sh => PCall ml nargs nret (Some hv) s = VRet (Some v) (unwind (length (vstack s)) (rtop (vreg s) - nargs - 1) sh)
  | VErr e2 sh => PCall ml nargs nret (Some hv) s = VRet (Some e2) (unwind (length (vstack s)) (rtop (vreg s) - nargs - 1) sh)
  | VFuel => PCall ml nargs nret (Some hv) s = VFuel
  | VUnsup c => PCall ml nargs nret (Some hv) s = VUnsup c
  end.
Proof.
  intros nargs nret hv s e sf HC r Hr. unfold PCall. rewrite HC. rewrite Hr. destruct r; reflexivity.
Qed.

End PCallHeights.
