(* M-VM and C07: the prototype the VM model runs, seen as the prototype C07's well-formedness
   checker (VM/WfProto.v) checks; and the class of model results that mean "a table of the
   prototype or of the closure was indexed out of range". No proofs here. *)
From Coq Require Import Floats.
From GL Require Import Common.Bytes Lua.Values.
From GL Require Import VMX.Machine.
From GL Require VM.Proto.

Definition kind_of (v : value) : Z := match v with VStr _ => 1 | _ => 0 end.

Fixpoint to_proto (p : xproto) : VM.Proto.proto :=
  let 'XProto code consts subs nup np va nr lines _ := p in
  VM.Proto.Proto code (map kind_of consts) (len consts) (map to_proto subs) nup np va nr (len lines).

(* 103 Code, 104 Constants, 105 Upvalues of the running closure, 106 FunctionPrototypes *)
Definition oob (c : Z) : bool := (c =? 103) || (c =? 104) || (c =? 105) || (c =? 106).

(* a computation that never reports an out-of-range table access *)
Definition noob {A} (m : VM A) : Prop := forall s c, m s = VUnsup c -> oob c = false.

(* the closure has as many upvalue slots as its prototype declares (newLFunctionL allocates
   NumUpvalues of them and OP_CLOSURE fills them all) *)
Definition closure_ok (cl : closure) : Prop := len (cl_upvals cl) = xp_nup (cl_proto cl).
