(* M-VM: thread records under the thread switch (L.G.CurrentThread = t) of VMX/Machine.v.
   "Each coroutine keeps its own locals, loop state, call stack and open upvalues across
   suspensions": the switch stores the running thread's registers/frames/open-upvalue list in its
   record and loads the target's; no thread's record changes. For ANY state and thread ids. *)
From Coq Require Import Floats Lia ZifyBool.
From GL Require Import Common.Bytes Lua.Syntax Lua.Num Lua.Values Lua.ValuesFacts.
From GL Require Import VMX.Machine.

Definition th_valid (s : vstate) (t : nat) : Prop := (t < length (vthreads s))%nat.

Lemma thread_eta : forall th, mkTh (th_reg th) (th_stack th) (th_uvcache th) (th_parent th) (th_wrapped th) (th_dead th) (th_started th) (th_nccalls th) = th.
Proof. destruct th; reflexivity. Qed.

(* the switch changes no thread's record -- not the one suspended, not the one resumed, not a
   third one *)
Lemma switch_keeps_threads : forall s t u,
  th_valid s (vcur s) -> get_thread (switch_to t s) u = get_thread s u.
Proof.
  intros s t u Hc. unfold get_thread, switch_to, th_valid in *. cbn [vcur vthreads vreg vstack vuvcache].
  destruct (Nat.eqb u t) eqn:Eut.
  - apply Nat.eqb_eq in Eut. subst u.
    unfold cur_thread at 1. cbn [vcur vthreads vreg vstack vuvcache].
    rewrite thread_eta.
    destruct (Nat.eqb t (vcur s)) eqn:Etc.
    + apply Nat.eqb_eq in Etc. subst t. rewrite set_nth_same_lemma by assumption. reflexivity.
    + apply Nat.eqb_neq in Etc. rewrite set_nth_other_lemma by (intro; apply Etc; congruence). reflexivity.
  - destruct (Nat.eqb u (vcur s)) eqn:Euc.
    + apply Nat.eqb_eq in Euc. subst u. rewrite set_nth_same_lemma by assumption. reflexivity.
    + apply Nat.eqb_neq in Euc. rewrite set_nth_other_lemma by (intro; apply Euc; congruence). reflexivity.
Qed.

(* what runs after the switch is exactly the target's stored registers, frames and open upvalues *)
Lemma switch_loads_target : forall s t,
  th_valid s (vcur s) ->
  vcur (switch_to t s) = t /\
  vreg (switch_to t s) = th_reg (get_thread s t) /\
  vstack (switch_to t s) = th_stack (get_thread s t) /\
  vuvcache (switch_to t s) = th_uvcache (get_thread s t).
Proof.
  intros s t Hc. pose proof (switch_keeps_threads s t t Hc) as H.
  unfold get_thread in H at 1. replace (vcur (switch_to t s)) with t in H by reflexivity.
  rewrite Nat.eqb_refl in H. rewrite <- H. unfold cur_thread. cbn [th_reg th_stack th_uvcache].
  repeat split; reflexivity.
Qed.

(* suspend-and-come-back: switching to any thread and back restores the live registers, frames and
   open-upvalue list exactly; heaps, trace, globals were never touched *)
Lemma switch_roundtrip : forall s t,
  th_valid s (vcur s) -> th_valid s t ->
  let s' := switch_to (vcur s) (switch_to t s) in
  vreg s' = vreg s /\ vstack s' = vstack s /\ vuvcache s' = vuvcache s /\ vcur s' = vcur s /\
  vuvs s' = vuvs s /\ vclos s' = vclos s /\ vtabs s' = vtabs s /\ vtrace s' = vtrace s /\
  (forall u, get_thread s' u = get_thread s u).
Proof.
  intros s t Hc Ht s'.
  assert (Hc' : th_valid (switch_to t s) (vcur (switch_to t s))).
  { unfold th_valid, switch_to. cbn [vcur vthreads]. rewrite set_nth_length_lemma. exact Ht. }
  destruct (switch_loads_target (switch_to t s) (vcur s) Hc') as [A [B [C D]]].
  rewrite (switch_keeps_threads s t (vcur s) Hc) in B, C, D.
  unfold get_thread in B, C, D. rewrite Nat.eqb_refl in B, C, D. cbn [cur_thread th_reg th_stack th_uvcache] in B, C, D.
  repeat split; try assumption; try reflexivity.
  intro u. unfold s'. rewrite (switch_keeps_threads _ _ u Hc'). apply switch_keeps_threads. exact Hc.
Qed.

(* writing one thread's record leaves every other thread's record alone *)
Lemma set_thread_other : forall s t th u, u <> t -> get_thread (set_thread s t th) u = get_thread s u.
Proof.
  intros s t th u Hne. unfold get_thread, set_thread.
  destruct (Nat.eqb t (vcur s)) eqn:Etc.
  - apply Nat.eqb_eq in Etc. cbn [vcur vthreads]. subst t.
    destruct (Nat.eqb u (vcur s)) eqn:Euc; [apply Nat.eqb_eq in Euc; contradiction|].
    rewrite set_nth_other_lemma by (intro; apply Hne; congruence). reflexivity.
  - cbn [with_threads vcur vthreads vreg vstack vuvcache].
    destruct (Nat.eqb u (vcur s)) eqn:Euc.
    + apply Nat.eqb_eq in Euc. subst u. unfold cur_thread, with_threads. cbn [vcur vthreads vreg vstack vuvcache].
      rewrite set_nth_other_lemma by (intro; apply Hne; congruence). reflexivity.
    + rewrite set_nth_other_lemma by (intro; apply Hne; congruence). reflexivity.
Qed.

Lemma set_thread_same : forall s t th, th_valid s t -> get_thread (set_thread s t th) t = th.
Proof.
  intros s t th Ht. unfold get_thread, set_thread, th_valid in *.
  destruct (Nat.eqb t (vcur s)) eqn:Etc.
  - cbn [vcur]. rewrite Etc. unfold cur_thread. cbn [vcur vthreads vreg vstack vuvcache].
    apply Nat.eqb_eq in Etc. subst t. rewrite set_nth_same_lemma by assumption. apply thread_eta.
  - cbn [with_threads vcur vthreads]. rewrite Etc. apply set_nth_same_lemma. assumption.
Qed.
