(* M-VM and C07, run level: the predicates the run-safety theorems are stated with (no proofs here).

   C07's checker (VM/WfProto.v) accepts a prototype tree; the theorems of VMX/RunSafeFacts.v and
   VMX/HeapSafeFacts.v say what that implies for runs of the full VM model (VMX/Step.v, VRun.v):
   no read of Code / Constants / FunctionPrototypes / upvalue slots outside the table (the model
   codes 103-106, [oob]). *)
From Coq Require Import Floats.
From GL Require Import Common.Bytes Lua.Values.
From GL Require Import VMX.Machine VMX.Step VMX.Builtins VMX.VRun VMX.WfTie.
From GL Require VM.Proto VM.WfProto.

(* a computation that reports no out-of-range table access when started in a state satisfying P *)
Definition noob_on {A} (P : vstate -> Prop) (m : VM A) : Prop :=
  forall s c, P s -> m s = VUnsup c -> oob c = false.

(* the pc of the current frame / of its parent *)
Definition top_pc (s : vstate) : option Z :=
  match vstack s with f :: _ => Some (fr_pc f) | [] => None end.
Definition caller_pc (s : vstate) : option Z :=
  match vstack s with _ :: f :: _ => Some (fr_pc f) | _ => None end.

(* What OP_TFORLOOP needs from the re-entered main loop: started on the frame callR has just pushed
   (b = its index from the bottom), a loop that returns normally has the caller's frame on top again
   with the pc it had (the Go code holds the caller's *callFrame across L.callR; the model re-reads
   the current frame). *)
Definition ml_keeps_caller_pc (ml : option nat -> VM unit) : Prop :=
  forall b s s', length (vstack s) = S b -> ml (Some b) s = VRet tt s' -> top_pc s' = caller_pc s.

(* the stronger, natural form: the loop returns to exactly the caller's frame stack *)
Definition ml_returns_to_caller (ml : option nat -> VM unit) : Prop :=
  forall b s s', length (vstack s) = S b -> ml (Some b) s = VRet tt s' -> vstack s' = tl (vstack s).

(* ---------- the closure heap ---------- *)
(* NumUpvalues is a uint8 in Go; the checker does not look at its sign *)
Fixpoint nups_ok (p : xproto) : bool :=
  let 'XProto _ _ subs nup _ _ _ _ _ := p in (0 <=? nup) && forallb nups_ok subs.

(* a prototype of a tree C07's checker accepts *)
Definition good_proto (p : xproto) : Prop :=
  VM.WfProto.wf_proto (to_proto p) = true /\ nups_ok p = true.

Definition clos_good (cl : closure) : Prop := closure_ok cl /\ good_proto (cl_proto cl).

(* every closure of the machine has as many upvalue slots as its prototype declares, and its
   prototype is an accepted one *)
Definition heap_ok (s : vstate) : Prop := Forall clos_good (vclos s).

(* a computation that keeps a state invariant, whether it returns or raises *)
Definition ipres {A} (I : vstate -> Prop) (m : VM A) : Prop :=
  forall s, I s -> match m s with VRet _ s' => I s' | VErr _ s' => I s' | _ => True end.

(* the states a run of [run_proto] passes through between two steps of the main loop *)
Definition heap_ok_fin (f : vfin) : Prop :=
  match f with VFinOk _ s => heap_ok s | VFinErr _ s => heap_ok s | _ => True end.

(* a final result that is not an out-of-range fault *)
Definition fin_noob (f : vfin) : Prop :=
  match f with VFinUnsup c => oob c = false | _ => True end.

(* the chunk's own prototype: accepted by the checker, no upvalues of its own *)
Definition chunk_ok (p : xproto) : Prop := good_proto p /\ xp_nup p = 0.

(* constants of compiled code are numbers and strings (a hand-made prototype could carry a thread
   or function reference as a constant, which no run can otherwise obtain) *)
Definition plain_const (v : value) : bool := match v with VNum _ | VStr _ => true | _ => false end.
Fixpoint consts_plain (p : xproto) : bool :=
  let 'XProto _ consts subs _ _ _ _ _ _ := p in forallb plain_const consts && forallb consts_plain subs.

(* the run-level statement of C07's consequence for the full VM model *)
Definition wf_run_noob_statement : Prop :=
  forall p, chunk_ok p -> consts_plain p = true -> forall fuel, fin_noob (run_proto fuel p).

(* ---------- the frame-stack discipline ---------- *)
(* no thread has a resumer: the state of a machine on which no coroutine was ever resumed *)
Definition par_ok (s : vstate) : Prop := Forall (fun th => th_parent th = None) (vthreads s).

(* the frame stack is X / has X at its bottom; no thread has a resumer *)
Definition stk (X : list cframe) (s : vstate) : Prop := par_ok s /\ vstack s = X.
Definition estk (X : list cframe) (s : vstate) : Prop := par_ok s /\ exists k, vstack s = k ++ X.

(* the main loop entered by callR on the frame just pushed (b = its index from the bottom) ends with
   exactly the caller's frames, each as it was; an error leaves them at the bottom of the stack *)
Definition ml_disc (ml : option nat -> VM unit) : Prop :=
  forall b s, par_ok s -> length (vstack s) = S b ->
  match ml (Some b) s with
  | VRet _ s' => par_ok s' /\ vstack s' = tl (vstack s)
  | VErr _ s' => par_ok s' /\ exists k, vstack s' = k ++ tl (vstack s)
  | _ => True
  end.

(* The machine with coroutine resumption cut off: coroutine.resume and the functions made by
   coroutine.wrap stop the run like exhausted fuel does (everything else, incl. coroutine.create /
   wrap / yield / status / running, pcall, metamethods, is the full model). By monotonicity a run
   of the cut machine that ends otherwise is the run of the full machine. *)
Definition is_resume (b : builtin) : bool :=
  match b with BCoResume => true | BWrapped (S _) => true | _ => false end.

Definition gfunction_nc (ml : option nat -> VM unit) (b : builtin) : VM Z :=
  if is_resume b then (fun _ => VFuel) else gfunction ml b.

Fixpoint run_loop_nc (ml : option nat -> VM unit) (k : nat) (baseframe : option nat) (s : vstate) {struct k} : vres unit :=
  match k with
  | O => VFuel
  | S k' =>
      match fetch s with
      | VRet inst s1 =>
          match exec_inst ml (gfunction_nc ml) inst baseframe s1 with
          | VRet true s2 => VRet tt s2
          | VRet false s2 => run_loop_nc ml k' baseframe s2
          | VErr e s2 => VErr e s2
          | VFuel => VFuel
          | VUnsup c => VUnsup c
          end
      | VErr e s1 => VErr e s1
      | VFuel => VFuel
      | VUnsup c => VUnsup c
      end
  end.

Definition run_gframe_nc (ml : option nat -> VM unit) (s : vstate) : vres unit :=
  match callGFunction (gfunction_nc ml) false s with
  | VRet _ s' => VRet tt s'
  | VErr e s' => VErr e s'
  | VFuel => VFuel
  | VUnsup c => VUnsup c
  end.

Fixpoint mainLoop_nc (n : nat) (baseframe : option nat) (s : vstate) {struct n} : vres unit :=
  match n with
  | O => VFuel
  | S n' =>
      match vstack s with
      | [] => VRet tt s
      | f :: _ =>
          if is_go (fr_fn f) then run_gframe_nc (mainLoop_nc n') s
          else run_loop_nc (mainLoop_nc n') n' baseframe s
      end
  end.

Definition run_proto_nc (fuel : nat) (p : xproto) : vfin :=
  match PCall (mainLoop_nc fuel) 0 MultRet None (init_vstate p) with
  | VRet None s =>
      match reg_get_range 0 (Z.to_nat (rtop (vreg s))) s with
      | VRet vs _ => VFinOk vs s
      | VUnsup c => VFinUnsup c
      | _ => VFinUnsup 101
      end
  | VRet (Some e) s => VFinErr e s
  | VErr e s => VFinErr e s
  | VFuel => VFinFuel
  | VUnsup c => VFinUnsup c
  end.
