(* M-VM: the predicates the theorems about the machine are stated with (no proofs here). *)
From Coq Require Import Floats Relations.
From GL Require Import Common.Bytes Lua.Syntax Lua.Num Lua.Values Lua.Names Lua.Eval.
From GL Require Import VMX.Machine VMX.Step.

(* ---------- register windows ---------- *)
(* the values a window holds, when every cell of it holds one *)
Definition window_is (a : list cell) (lo : Z) (vs : list value) : Prop :=
  cells_from a lo (length vs) = map Some vs.

(* what CopyRange reads for its i-th destination cell *)
Definition src_cell (a : list cell) (start limit i : Z) : cell :=
  if (start + i >=? limit) || (start + i <? 0) then cNil else rd a (start + i).

(* the limit CopyRange really uses *)
Definition eff_limit (r : registry) (limit : Z) : Z :=
  if (limit =? -1) || (limit >? rtop r) then rtop r else limit.

(* ---------- the open-upvalue list ---------- *)
Definition uvat (uvs : list upval) (u : nat) : upval := nth u uvs dummy_uv.

(* every reference is valid and open, register indices strictly increase (all above lo) *)
Fixpoint sorted_from (uvs : list upval) (lo : Z) (cache : list nat) : Prop :=
  match cache with
  | [] => True
  | u :: rest => (u < length uvs)%nat /\ uv_closed (uvat uvs u) = false /\
                 lo < uv_index (uvat uvs u) /\ sorted_from uvs (uv_index (uvat uvs u)) rest
  end.

Definition cache_inv (uvs : list upval) (cache : list nat) : Prop := exists lo, sorted_from uvs lo cache.

Definition state_cache_inv (s : vstate) : Prop := cache_inv (vuvs s) (vuvcache s).

Inductive uvop := OpFind (idx : Z) | OpClose (idx : Z).

Definition apply_uvop (o : uvop) (s : vstate) : vstate :=
  match o with OpFind i => snd (findUpvalue_st i s) | OpClose i => closeUpvalues_st i s end.

(* ---------- frames ---------- *)
(* a computation that only returns states related to the one it started in *)
Definition keeps {A} (R : vstate -> vstate -> Prop) (m : VM A) : Prop :=
  forall s a s', m s = VRet a s' -> R s s'.

Definition same_depth (s s' : vstate) : Prop := length (vstack s') = length (vstack s).
Definition same_uv (s s' : vstate) : Prop := vuvs s' = vuvs s /\ vuvcache s' = vuvcache s.
Definition depth_uv (s s' : vstate) : Prop := same_depth s s' /\ same_uv s s'.

(* the frame that returns is not the body of a coroutine (there the return ends the coroutine and
   the resumer becomes the running thread, see switchToParentThread) *)
Definition not_coroutine_bottom (s : vstate) : Prop :=
  th_parent (get_thread s (vcur s)) = None \/ length (vstack s) <> 1%nat.

(* one OP_TAILCALL to a Lua function, with any operands *)
Definition tc_step (s s' : vstate) : Prop :=
  exists cf callable lv meta nargs RA b, tailcall_lua cf callable lv meta nargs RA s = VRet b s'.
