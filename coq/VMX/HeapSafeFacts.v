(* M-VM and C07, the closure heap: in every run of the full VM model every closure of the machine
   has exactly the NumUpvalues upvalue slots its prototype declares, and its prototype is one of the
   tree C07's checker accepted. Proved for every instruction function, every host function that
   touches closures (setfenv) or re-enters the machine (pcall, xpcall, tostring, the coroutine
   library), the main loop with any fuel, and the runner. This discharges the hypothesis
   [closure_ok cl] of wf_exec_op_noob / wf_step_noob at run level. *)
From Coq Require Import Floats Lia ZifyBool.
From GL Require Import Common.Bytes Lua.Syntax Lua.Num Lua.Values Lua.Names Lua.Eval Str.StrModel.
From GL Require Import VMX.Machine VMX.Step VMX.Builtins VMX.VRun VMX.WfTie VMX.WfTieFacts VMX.RunSafe.
From GL Require VM.Proto VM.WfProto VM.WfFacts.

(* ---------- accepted prototype trees ---------- *)
Lemma good_proto_fn : forall p, good_proto p -> W.wf_fn (fn_of p) = true.
Proof.
  intros p [H _]. destruct p as [code consts subs nup np va nr lines ld].
  unfold fn_of. cbn [to_proto] in *. cbn [W.wf_proto] in H.
  apply andb_true_iff in H. destruct H as [H _]. exact H.
Qed.

Lemma zth_In : forall A (l : list A) i x, zth l i = Some x -> In x l.
Proof.
  intros A l i x H. unfold zth in H. destruct (i <? 0); [discriminate|].
  eapply nth_error_In. eassumption.
Qed.

Lemma good_proto_sub : forall p i q, good_proto p -> zth (xp_subs p) i = Some q -> good_proto q.
Proof.
  intros p i q [H1 H2] Hz. destruct p as [code consts subs nup np va nr lines ld].
  cbn [xp_subs] in Hz. apply zth_In in Hz.
  cbn [to_proto] in H1. cbn [W.wf_proto] in H1. cbn [nups_ok] in H2.
  apply andb_true_iff in H1. destruct H1 as [_ H1]. apply andb_true_iff in H2. destruct H2 as [_ H2].
  rewrite forallb_forall in H1, H2. split.
  - apply H1. apply in_map. exact Hz.
  - apply H2. exact Hz.
Qed.

Lemma good_proto_nup : forall p, good_proto p -> 0 <= xp_nup p.
Proof.
  intros p [_ H]. destruct p. cbn [nups_ok] in H. cbn [xp_nup].
  apply andb_true_iff in H. destruct H as [H _]. lia.
Qed.

(* ---------- keeping an invariant ---------- *)
Lemma ipres_bind : forall I A B (m : VM A) (f : A -> VM B),
  ipres I m -> (forall a, ipres I (f a)) -> ipres I (vbind m f).
Proof.
  intros I A B m f Hm Hf s Hs. unfold vbind. specialize (Hm s Hs).
  destruct (m s) as [a s1|e s1| |c]; auto. apply Hf. exact Hm.
Qed.

Lemma ipres_vret : forall I A (a : A), ipres I (vret a). Proof. intros I A a s Hs. exact Hs. Qed.
Lemma ipres_vraise : forall I A v, ipres I (@vraise A v). Proof. intros I A v s Hs. exact Hs. Qed.
Lemma ipres_vget : forall I, ipres I vget. Proof. intros I s Hs. exact Hs. Qed.
Lemma ipres_vunsup : forall I A c, ipres I (@vunsup A c). Proof. intros I A c s Hs. exact Logic.I. Qed.

Notation hp := (ipres heap_ok).

Lemma heap_ok_eq : forall s s', vclos s' = vclos s -> heap_ok s -> heap_ok s'.
Proof. unfold heap_ok. intros s s' E H. rewrite E. exact H. Qed.

Lemma hp_vmod : forall f, (forall s, vclos (f s) = vclos s) -> hp (vmod f).
Proof. intros f H s Hs. simpl. eapply heap_ok_eq; [apply H|exact Hs]. Qed.

Lemma hp_vmod_reg : forall f, hp (vmod_reg f). Proof. intros f s Hs. exact Hs. Qed.
Lemma hp_reg_top : hp reg_top. Proof. intros s Hs. exact Hs. Qed.
Lemma hp_reg_set : forall i v, hp (reg_set i v). Proof. intros. apply hp_vmod_reg. Qed.
Lemma hp_reg_push : forall v, hp (reg_push v). Proof. intros. apply hp_vmod_reg. Qed.
Lemma hp_reg_settop : forall t, hp (reg_settop t). Proof. intros. apply hp_vmod_reg. Qed.
Lemma hp_read_vtab : forall r, hp (read_vtab r). Proof. intros r s Hs. exact Hs. Qed.
Lemma hp_write_vtab : forall r t, hp (write_vtab r t). Proof. intros r t s Hs. exact Hs. Qed.
Lemma hp_alloc_vtab : forall t, hp (alloc_vtab t). Proof. intros t s Hs. exact Hs. Qed.
Lemma hp_metaOp1 : forall v e, hp (metaOp1 v e). Proof. intros v e s Hs. exact Hs. Qed.
Lemma hp_closeUpvalues : forall i, hp (closeUpvalues i). Proof. intros i s Hs. exact Hs. Qed.
Lemma hp_nccalls_add : forall d, hp (nccalls_add d). Proof. intros d s Hs. exact Hs. Qed.

Lemma hp_metaOp2 : forall a b e, hp (metaOp2 a b e).
Proof. intros a b e s Hs. unfold metaOp2. destruct (negb _); exact Hs. Qed.

Lemma vclos_findUpvalue_st : forall i s, vclos (snd (findUpvalue_st i s)) = vclos s.
Proof.
  intros i s. unfold findUpvalue_st. destruct (fu_loop _ _ _ _) as [r c'].
  destruct (Nat.eqb _ _); reflexivity.
Qed.

Lemma hp_findUpvalue : forall i, hp (findUpvalue i).
Proof.
  intros i s Hs. unfold findUpvalue. pose proof (vclos_findUpvalue_st i s) as E.
  destruct (findUpvalue_st i s) as [r s']. cbn [snd] in E. eapply heap_ok_eq; eassumption.
Qed.

Lemma hp_cur_frame : hp cur_frame.
Proof. intros s Hs. unfold cur_frame. destruct (vstack s); [exact Logic.I|exact Hs]. Qed.
Lemma hp_set_cur_frame : forall f, hp (set_cur_frame f).
Proof. intros f s Hs. unfold set_cur_frame. destruct (vstack s); [exact Logic.I|exact Hs]. Qed.
Lemma hp_get_closure : forall c, hp (get_closure c).
Proof. intros c s Hs. unfold get_closure. destruct (nth_error _ _); [exact Hs|exact Logic.I]. Qed.
Lemma hp_reg_get : forall i, hp (reg_get i).
Proof. intros i s Hs. unfold reg_get. destruct (Get _ _); [exact Hs|exact Logic.I]. Qed.
Lemma hp_reg_pop : hp reg_pop.
Proof. intros s Hs. unfold reg_pop. destruct (Pop _) as [[v|] r]; [exact Hs|exact Logic.I]. Qed.

Lemma vclos_set_thread : forall s t th, vclos (set_thread s t th) = vclos s.
Proof. intros s t th. unfold set_thread. destruct (Nat.eqb _ _); reflexivity. Qed.

Lemma hp_upd_thread : forall t f, hp (upd_thread t f).
Proof. intros t f. unfold upd_thread. apply hp_vmod. intro s. apply vclos_set_thread. Qed.

Create HintDb hp.
#[export] Hint Resolve ipres_vret ipres_vraise ipres_vget ipres_vunsup hp_vmod_reg hp_reg_top hp_reg_set
  hp_reg_push hp_reg_settop hp_read_vtab hp_write_vtab hp_alloc_vtab hp_metaOp1 hp_metaOp2
  hp_closeUpvalues hp_findUpvalue hp_cur_frame hp_set_cur_frame hp_get_closure hp_reg_get hp_reg_pop
  hp_nccalls_add hp_upd_thread : hp.

Ltac hp_step :=
  match goal with
  | |- ipres _ (vunsup _) => apply ipres_vunsup
  | |- ipres _ (vbind _ _) => apply ipres_bind; [|intro]
  | |- ipres _ _ => solve [eauto 3 with hp]
  | |- ipres _ (match ?x with _ => _ end) => destruct x
  | |- ipres _ (let '(_, _) := ?x in _) => destruct x
  end.
Ltac hp_tac := repeat hp_step.

Lemma hp_frame_line : forall f, hp (frame_line f).
Proof. intro f. unfold frame_line. hp_tac. Qed.
#[export] Hint Resolve hp_frame_line : hp.

Lemma hp_where_ : forall n l g, hp (where_ n l g).
Proof.
  induction n; intros l g; simpl; [auto with hp|].
  intros s Hs. destruct (GetStack (vstack s) l) as [f|]; [|exact Hs].
  destruct (fr_fn f).
  - apply (ipres_bind _ _ _ (frame_line f) (fun l0 => vret (WLine l0))); auto with hp.
  - destruct g; [apply IHn; exact Hs|exact Hs].
Qed.

Lemma hp_where_info : forall l g, hp (where_info l g).
Proof. intros l g s Hs. unfold where_info. apply hp_where_. exact Hs. Qed.
#[export] Hint Resolve hp_where_info : hp.

Lemma hp_raise_msg : forall A m, hp (@raise_msg A m).
Proof. intros. unfold raise_msg. hp_tac. Qed.
Lemma hp_fault : forall A k, hp (@fault_ A k).
Proof. intros. unfold fault_. hp_tac. Qed.
#[export] Hint Resolve hp_raise_msg hp_fault : hp.

Lemma hp_of_num_text : forall f, hp (of_num_text f).
Proof. intro f. unfold of_num_text. hp_tac. Qed.
Lemma hp_parseNumber : forall s, hp (parseNumber s).
Proof. intro s. unfold parseNumber. hp_tac. Qed.
Lemma hp_numberArith : forall o a b, hp (numberArith o a b).
Proof. intros. unfold numberArith. hp_tac. Qed.
#[export] Hint Resolve hp_of_num_text hp_parseNumber hp_numberArith : hp.

Lemma hp_as_text : forall v, hp (as_text v).
Proof. intro v. unfold as_text. hp_tac. Qed.
Lemma hp_forOperand : forall v, hp (forOperand v).
Proof. intro v. unfold forOperand. hp_tac. Qed.
Lemma hp_raw_get : forall r k, hp (raw_get r k).
Proof. intros. unfold raw_get. hp_tac. Qed.
Lemma hp_RawSet : forall r k v, hp (RawSet r k v).
Proof. intros. unfold RawSet. hp_tac. Qed.
Lemma hp_raw_set_nocheck : forall r k v, hp (raw_set_nocheck r k v).
Proof. intros. unfold raw_set_nocheck. hp_tac. Qed.
Lemma hp_metaCall : forall v, hp (metaCall v).
Proof. intros. unfold metaCall. hp_tac. Qed.
Lemma hp_add_pc : forall d, hp (add_pc d).
Proof. intros. unfold add_pc. hp_tac. Qed.
Lemma hp_get_upval : forall cl b, hp (get_upval cl b).
Proof. intros. unfold get_upval. hp_tac. Qed.
Lemma hp_code_at : forall p pc, hp (code_at p pc).
Proof. intros. unfold code_at. hp_tac. Qed.
Lemma hp_kstring : forall p i, hp (kstring p i).
Proof. intros. unfold kstring. hp_tac. Qed.
Lemma hp_rkValue : forall p lb x, hp (rkValue p lb x).
Proof. intros. unfold rkValue. hp_tac. Qed.
#[export] Hint Resolve hp_as_text hp_forOperand hp_raw_get hp_RawSet hp_raw_set_nocheck
  hp_metaCall hp_add_pc hp_get_upval hp_code_at hp_kstring hp_rkValue : hp.

Lemma hp_rkString : forall p lb x, hp (rkString p lb x).
Proof. intros. unfold rkString. hp_tac. Qed.
#[export] Hint Resolve hp_rkString : hp.

Lemma hp_initCallFrame : forall cf, hp (initCallFrame cf).
Proof. intros. unfold initCallFrame. hp_tac. Qed.
#[export] Hint Resolve hp_initCallFrame : hp.

Lemma hp_push_frame : forall cf, hp (vmod (fun s => with_stack s (cf :: vstack s))).
Proof. intro cf. apply hp_vmod. reflexivity. Qed.
Lemma hp_pop_frame : hp (vmod (fun s => with_stack s (tl (vstack s)))).
Proof. apply hp_vmod. reflexivity. Qed.
Lemma hp_switch_to : forall t, hp (vmod (switch_to t)).
Proof. intro t. apply hp_vmod. reflexivity. Qed.
#[export] Hint Resolve hp_push_frame hp_pop_frame hp_switch_to : hp.

Lemma hp_pushCallFrame : forall ofn b lb rb na nr fn meta, hp (pushCallFrame ofn b lb rb na nr fn meta).
Proof. intros. unfold pushCallFrame. hp_tac. Qed.
#[export] Hint Resolve hp_pushCallFrame : hp.

Lemma hp_reg_get_range : forall n lo, hp (reg_get_range lo n).
Proof. induction n; intros; simpl; hp_tac. Qed.
Lemma hp_reg_push_list : forall vs, hp (reg_push_list vs).
Proof. induction vs; simpl; hp_tac. Qed.
#[export] Hint Resolve hp_reg_get_range hp_reg_push_list : hp.

Lemma hp_switchToParentThread : forall n h k, hp (switchToParentThread n h k).
Proof. intros. unfold switchToParentThread. hp_tac. Qed.
#[export] Hint Resolve hp_switchToParentThread : hp.

Lemma hp_tailcall_lua : forall cf ca lv me na ra, hp (tailcall_lua cf ca lv me na ra).
Proof. intros. unfold tailcall_lua. hp_tac. Qed.
Lemma hp_do_return : forall cf ra b base, hp (do_return cf ra b base).
Proof. intros. unfold do_return. hp_tac. Qed.
#[export] Hint Resolve hp_tailcall_lua hp_do_return : hp.

Lemma hp_loadnil_loop : forall k i, hp (loadnil_loop i k).
Proof. induction k; intros; cbn [loadnil_loop]; hp_tac. Qed.
Lemma hp_setlist_loop : forall k tb ra off i, hp (setlist_loop tb ra off i k).
Proof. induction k; intros; cbn [setlist_loop]; hp_tac. Qed.
Lemma hp_MOVEN_loop : forall code lbase k pc, hp (MOVEN_loop code lbase k pc).
Proof. intros code lbase. induction k; intros pc; simpl; hp_tac. Qed.
#[export] Hint Resolve hp_loadnil_loop hp_setlist_loop hp_MOVEN_loop : hp.

(* ---------- OP_CLOSURE ---------- *)
Lemma capture_loop_0 : forall p cl lbase pc acc, capture_loop p cl lbase 0 pc acc = vret (rev acc, pc).
Proof. reflexivity. Qed.

(* the capture loop leaves the closure heap alone, never raises, and yields one upvalue per word *)
Lemma capture_loop_spec : forall p cl lbase k pc acc s,
  match capture_loop p cl lbase k pc acc s with
  | VRet r s' => vclos s' = vclos s /\ length (fst r) = (k + length acc)%nat
  | VErr _ _ => False
  | _ => True
  end.
Proof.
  intros p cl lbase. induction k; intros pc acc s.
  - rewrite capture_loop_0. unfold vret. cbn [fst]. rewrite rev_length. auto.
  - rewrite capture_loop_S. unfold vbind at 1. unfold code_at.
    destruct (zth (xp_code p) pc) as [inst|]; [|exact Logic.I]. unfold vret at 1. cbv beta iota.
    destruct (op_of_code (opGetOpCode inst)) as [o|]; [|exact Logic.I].
    destruct o; try exact Logic.I.
    + (* MOVE *)
      unfold vbind at 1. unfold findUpvalue.
      pose proof (vclos_findUpvalue_st (lbase + opGetArgB inst) s) as E.
      destruct (findUpvalue_st (lbase + opGetArgB inst) s) as [u s1]. cbn [snd] in E.
      specialize (IHk (pc + 1) (u :: acc) s1).
      destruct (capture_loop p cl lbase k (pc + 1) (u :: acc) s1) as [r s2|e s2| |c]; auto.
      destruct IHk as [E2 L]. split; [congruence|]. rewrite L. cbn [length]. lia.
    + (* GETUPVAL *)
      unfold vbind at 1. unfold get_upval.
      destruct (zth (cl_upvals cl) (opGetArgB inst)) as [u|]; [|exact Logic.I]. unfold vret at 1. cbv beta iota.
      specialize (IHk (pc + 1) (u :: acc) s).
      destruct (capture_loop p cl lbase k (pc + 1) (u :: acc) s) as [r s2|e s2| |c]; auto.
      destruct IHk as [E2 L]. split; [congruence|]. rewrite L. cbn [length]. lia.
Qed.

Lemma set_nth_app_last : forall A (l : list A) a b, set_nth (l ++ [a]) (length l) b = l ++ [b].
Proof. induction l; intros; simpl; [reflexivity|]. rewrite IHl. reflexivity. Qed.

Lemma hp_closure_op : forall cl cf (RA Bx : Z) lbase,
  clos_good cl ->
  hp (match zth (xp_subs (cl_proto cl)) Bx with
      | None => vunsup 106
      | Some proto =>
          vdo ci <- alloc_closure (mkCl proto [] (cl_env cl));
          vdo _ <- reg_set RA (VFun ci);
          vdo r <- capture_loop (cl_proto cl) cl lbase (Z.to_nat (xp_nup proto)) (fr_pc cf) [];
          vdo _ <- set_cur_frame (set_pc cf (snd r));
          vdo _ <- vmod (fun s => with_vclos s (set_nth (vclos s) ci (mkCl proto (fst r) (cl_env cl))));
          vret false
      end).
Proof.
  intros cl cf RA Bx lbase [Hok Hgood].
  destruct (zth (xp_subs (cl_proto cl)) Bx) as [proto|] eqn:Hp; [|apply ipres_vunsup].
  pose proof (good_proto_sub _ _ _ Hgood Hp) as Hgp. pose proof (good_proto_nup _ Hgp) as Hnup.
  intros s Hs.
  unfold vbind at 1. unfold alloc_closure. cbv beta iota.
  unfold vbind at 1. unfold reg_set, vmod_reg. cbv beta iota.
  unfold vbind at 1.
  match goal with |- context [capture_loop ?a ?b ?c ?d ?e ?f ?g] =>
    pose proof (capture_loop_spec a b c d e f g) as HC; destruct (capture_loop a b c d e f g) as [r s3|e3 s3| |c3] end;
    try exact Logic.I; [|contradiction].
  destruct HC as [E3 L]. cbn [vclos with_reg with_vclos] in E3. cbn [length] in L.
  unfold vbind at 1. unfold set_cur_frame. destruct (vstack s3) as [|f0 rest]; [exact Logic.I|]. cbv beta iota.
  unfold vbind at 1. unfold vmod. cbv beta iota. unfold vret.
  unfold heap_ok. cbn [vclos with_vclos with_stack]. rewrite E3. rewrite set_nth_app_last.
  apply Forall_app. split; [exact Hs|]. constructor; [|constructor].
  split; [|exact Hgp]. unfold closure_ok. cbn [cl_upvals cl_proto]. unfold len. rewrite L. lia.
Qed.

(* ---------- everything that re-enters the main loop ---------- *)
Section Reent.
Variable ml : option nat -> VM unit.
Hypothesis Hml : forall b, hp (ml b).

Lemma hp_callR : forall a b c, hp (callR ml a b c).
Proof. intros. unfold callR. hp_tac. Qed.
Hint Resolve hp_callR : hp.
Lemma hp_Call : forall a b, hp (Call ml a b).
Proof. intros. unfold Call. auto with hp. Qed.
Hint Resolve hp_Call : hp.

Lemma hp_getField : forall n o k, hp (getField ml n o k).
Proof. induction n; intros; simpl; hp_tac. Qed.
Lemma hp_setField : forall n c o k v, hp (setField ml n c o k v).
Proof. induction n; intros; simpl; hp_tac. Qed.
Lemma hp_objectArith : forall o a b, hp (objectArith ml o a b).
Proof. intros. unfold objectArith. hp_tac. Qed.
Lemma hp_concat_loop : forall f i t r, hp (concat_loop ml f i t r).
Proof. induction f; intros; simpl; hp_tac. Qed.
Hint Resolve hp_concat_loop : hp.
Lemma hp_stringConcat : forall t l, hp (stringConcat ml t l).
Proof. intros. unfold stringConcat. hp_tac. Qed.
Lemma hp_objectRational : forall a b e, hp (objectRational ml a b e).
Proof. intros. unfold objectRational. hp_tac. Qed.
Hint Resolve hp_objectRational : hp.
Lemma hp_objectRationalWithError : forall a b e, hp (objectRationalWithError ml a b e).
Proof. intros. unfold objectRationalWithError. hp_tac. Qed.
Hint Resolve hp_objectRationalWithError : hp.
Lemma hp_lessThan : forall a b, hp (lessThan ml a b).
Proof. intros. unfold lessThan. hp_tac. Qed.
Lemma hp_lessEq : forall a b, hp (lessEq ml a b).
Proof. intros. unfold lessEq. hp_tac. Qed.
Lemma hp_equals : forall a b, hp (equals ml a b).
Proof. intros. unfold equals. hp_tac. Qed.

(* PCall: the recovery (SetSp, closeUpvalues, SetTop) does not touch the closure heap *)
Lemma hp_PCall : forall na nr h, hp (PCall ml na nr h).
Proof.
  intros na nr h s Hs. unfold PCall.
  pose proof (hp_Call na nr s Hs) as HC.
  destruct (Call ml na nr s) as [u s'|e s0| |c]; try exact Logic.I.
  - exact HC.
  - destruct h as [h|]; [|exact HC].
    assert (Hh : hp (vdo _ <- reg_push h; vdo _ <- reg_push e; vdo _ <- Call ml 1 1; vdo t <- reg_top; reg_get (t - 1))) by hp_tac.
    specialize (Hh (set_nccalls (cur_nccalls s) s0) HC).
    destruct ((vdo _ <- reg_push h; vdo _ <- reg_push e; vdo _ <- Call ml 1 1; vdo t <- reg_top; reg_get (t - 1))
                (set_nccalls (cur_nccalls s) s0)) as [hv s''|e2 s''| |c]; try exact Logic.I; exact Hh.
Qed.

(* ---------- host functions ---------- *)
Lemma hp_bi_args : hp bi_args.
Proof. unfold bi_args. hp_tac. Qed.
Lemma hp_bi_ret : forall vs, hp (bi_ret vs).
Proof. intros. unfold bi_ret. hp_tac. Qed.
Lemma hp_badarg : forall A, hp (@badarg A).
Proof. intros. unfold badarg. auto with hp. Qed.
Hint Resolve hp_bi_args hp_bi_ret hp_badarg : hp.
Lemma hp_v_opt_int : forall v d, hp (v_opt_int v d).
Proof. intros. unfold v_opt_int. hp_tac. Qed.
Lemma hp_v_border : forall t, hp (v_border t).
Proof. intros. unfold v_border. hp_tac. Qed.
Lemma hp_vmapM : forall A B (f : A -> VM B) l, (forall a, hp (f a)) -> hp (vmapM f l).
Proof. intros A B f l H. induction l; simpl; hp_tac. Qed.
Lemma hp_frame_at_level : forall l, hp (frame_at_level l).
Proof. intros l s Hs. exact Hs. Qed.
Hint Resolve hp_v_opt_int hp_v_border hp_frame_at_level : hp.

Lemma hp_float_fold : forall (g : float -> float -> float) l acc,
  hp ((fix go (l : list value) (acc : float) : VM float :=
         match l with [] => vret acc | VNum x :: r => go r (g acc x) | _ => vunsup 219 end) l acc).
Proof. intros g. induction l; intros acc; [apply ipres_vret|]. destruct a; try apply ipres_vunsup. apply IHl. Qed.

Lemma hp_simple_builtin : forall b args, hp (simple_builtin b args).
Proof.
  intros b args. unfold simple_builtin.
  destruct b; hp_tac.
  all: try apply hp_float_fold.
  all: try (apply hp_vmapM; intro; hp_tac).
  all: try (apply hp_vmod; reflexivity).
  all: try (intros s Hs; exact Hs).
  all: try (intros s Hs; destruct (metatable_raw _ _); exact Hs).
Qed.
Hint Resolve hp_simple_builtin : hp.

Lemma hp_ToStringMeta : forall v, hp (ToStringMeta ml v).
Proof. intros. unfold ToStringMeta. hp_tac. Qed.
Hint Resolve hp_ToStringMeta hp_PCall : hp.

Lemma hp_new_thread : forall f w, hp (new_thread f w).
Proof. intros f w s Hs. exact Hs. Qed.
Hint Resolve hp_new_thread : hp.

Lemma hp_adjustResumedValues : forall n, hp (adjustResumedValues n).
Proof.
  intros n s Hs. unfold adjustResumedValues.
  destruct (vstack s) as [|cf rest]; [exact Hs|].
  destruct (fr_fn cf) as [c|b]; [|exact Hs].
  destruct (fr_pc cf =? 0); [exact Hs|].
  revert s Hs. change (hp (vdo cl <- get_closure c; vdo inst <- code_at (cl_proto cl) (fr_pc cf - 1);
     match op_of_code (opGetOpCode inst) with
     | Some OP_CALL => let nret := opGetArgC inst - 1 in
         if (nret >=? 0) && negb (nret =? n) then vdo top <- reg_top; reg_settop (top - n + nret) else vret tt
     | _ => vret tt end)).
  hp_tac; cbv zeta; hp_tac.
Qed.
Hint Resolve hp_adjustResumedValues : hp.

(* setfenv replaces the environment of a closure, not its prototype or upvalue slots *)
Lemma hp_set_closure_env : forall c env, hp (set_closure_env c env).
Proof.
  intros c env s Hs. unfold set_closure_env. unfold vbind, get_closure.
  destruct (nth_error (vclos s) c) as [cl|] eqn:E; [|exact Logic.I].
  unfold vmod. unfold heap_ok in *. cbn [vclos with_vclos].
  assert (Hg : clos_good cl). { rewrite Forall_forall in Hs. apply Hs. eapply nth_error_In. eassumption. }
  clear E. revert c. induction Hs; intros c; [destruct c; constructor|].
  destruct c; simpl; constructor; auto.
Qed.
Hint Resolve hp_set_closure_env : hp.

(* threadRun: an error inside the coroutine closes its upvalues and goes to the resumer *)
Lemma hp_threadRun : forall t me w, hp (threadRun ml t me w).
Proof.
  intros t me w s1 Hs. unfold threadRun.
  pose proof (Hml None s1 Hs) as HM.
  destruct (ml None s1) as [u s2|e s2| |c]; try exact Logic.I; [exact HM|].
  destruct (negb (Nat.eqb (vcur s2) t)); [exact Logic.I|].
  assert (H3 : heap_ok (closeUpvalues_st 0 s2)) by exact HM.
  destruct w.
  - set (s4 := set_thread _ t _).
    assert (H4 : heap_ok (switch_to me s4)).
    { eapply heap_ok_eq; [|exact H3]. cbn [vclos switch_to]. unfold s4. apply vclos_set_thread. }
    assert (Hw : hp (vdo w <- where_info 1 false; vdo m <- as_text e; @vraise unit (VStr (winfo_text w ++ [32] ++ m)))) by hp_tac.
    destruct e; try exact H4;
      (destruct (GetStack _ _) as [fr|]; [|exact H4]; destruct (is_go (fr_fn fr)); try exact H4; try exact Logic.I).
    + apply Hw. exact H4.
    + apply Hw. exact H4.
  - assert (Hm : hp (vdo cfe <- (fun s => VRet (match vstack s with f :: _ => fr_localbase f | [] => 0 end) s);
                     vdo _ <- reg_settop cfe; vdo _ <- reg_push e; switchToParentThread 1 true true)).
    { apply ipres_bind; [intros s Hs'; exact Hs'|intro; hp_tac]. }
    apply Hm. exact H3.
Qed.
Hint Resolve hp_threadRun : hp.

Lemma hp_resumeThread : forall w, hp (resumeThread ml w).
Proof. intro w. unfold resumeThread. hp_tac. Qed.
Hint Resolve hp_resumeThread : hp.

Lemma hp_gfunction : forall b, hp (gfunction ml b).
Proof. intro b. unfold gfunction. hp_tac. Qed.

End Reent.

(* ---------- instructions ---------- *)
Section Inst.
Variable ml : option nat -> VM unit.
Variable gf : builtin -> VM Z.
Hypothesis Hml : forall b, hp (ml b).
Hypothesis Hgf : forall b, hp (gf b).

Lemma hp_remove_caller : hp (vmod (fun s => match vstack s with f :: _ :: r => with_stack s (f :: r) | _ => s end)).
Proof. apply hp_vmod. intro s. destruct (vstack s) as [|f [|g r]]; reflexivity. Qed.
Hint Resolve hp_remove_caller : hp.

Lemma hp_callGFunction : forall t, hp (callGFunction gf t).
Proof. intros. unfold callGFunction. hp_tac. Qed.

Hint Resolve hp_callR hp_Call hp_getField hp_setField hp_objectArith hp_stringConcat
  hp_lessThan hp_lessEq hp_equals hp_callGFunction : hp.

(* every instruction function keeps the closure heap well-formed; OP_CLOSURE adds a closure of a
   nested (hence accepted) prototype with exactly NumUpvalues slots *)
Theorem exec_op_heap_ok_lemma : forall cl cf inst base,
  clos_good cl -> hp (exec_op ml gf cl cf inst base).
Proof.
  intros cl cf inst base Hcl. unfold exec_op. cbv zeta.
  destruct (op_of_code (opGetOpCode inst)) as [o|]; [|apply ipres_vunsup].
  destruct o; try solve [hp_tac].
  - (* SETUPVAL *)
    apply ipres_bind; [auto with hp|intro u]. apply ipres_bind; [auto with hp|intro v].
    apply ipres_bind; [|intro; auto with hp].
    apply hp_vmod. intro s. destruct (uv_closed _); [reflexivity|apply vclos_set_thread].
  - (* CLOSURE *)
    apply hp_closure_op. exact Hcl.
Qed.

Lemma exec_inst_heap_ok : forall inst base, hp (exec_inst ml gf inst base).
Proof.
  intros inst base s Hs. unfold exec_inst. unfold vbind at 1. unfold cur_frame.
  destruct (vstack s) as [|cf rest]; [exact Logic.I|].
  destruct (fr_fn cf) as [c|b]; [|exact Logic.I].
  unfold vbind at 1. unfold get_closure.
  destruct (nth_error (vclos s) c) as [cl|] eqn:E; [|exact Logic.I].
  apply exec_op_heap_ok_lemma; [|exact Hs].
  unfold heap_ok in Hs. rewrite Forall_forall in Hs. apply Hs. eapply nth_error_In. eassumption.
Qed.

End Inst.

(* ---------- the main loop, with any fuel ---------- *)
Lemma hp_fetch : hp fetch.
Proof. unfold fetch. hp_tac. Qed.

Lemma run_loop_heap_ok : forall ml, (forall b, hp (ml b)) -> forall k base, hp (run_loop ml k base).
Proof.
  intros ml Hml. induction k; intros base s Hs; [exact Logic.I|].
  cbn [run_loop]. pose proof (hp_fetch s Hs) as HF.
  destruct (fetch s) as [inst s1|e s1| |c]; try exact Logic.I; [|exact HF].
  pose proof (exec_inst_heap_ok ml (gfunction ml) Hml (hp_gfunction ml Hml) inst base s1 HF) as HE.
  destruct (exec_inst ml (gfunction ml) inst base s1) as [[|] s2|e s2| |c]; try exact Logic.I; try exact HE.
  apply IHk. exact HE.
Qed.

Lemma run_gframe_heap_ok : forall ml, (forall b, hp (ml b)) -> hp (run_gframe ml).
Proof.
  intros ml Hml s Hs. unfold run_gframe.
  pose proof (hp_callGFunction (gfunction ml) (hp_gfunction ml Hml) false s Hs) as H.
  destruct (callGFunction (gfunction ml) false s); try exact Logic.I; exact H.
Qed.

Theorem mainLoop_heap_ok_lemma : forall n base, hp (mainLoop n base).
Proof.
  induction n; intros base s Hs; [exact Logic.I|].
  cbn [mainLoop]. destruct (vstack s) as [|f rest] eqn:E; [exact Hs|].
  destruct (is_go (fr_fn f)).
  - apply run_gframe_heap_ok; assumption.
  - apply run_loop_heap_ok; assumption.
Qed.

Lemma init_heap_ok : forall p, chunk_ok p -> heap_ok (init_vstate p).
Proof.
  intros p [Hg Hn]. unfold heap_ok, init_vstate. cbn [vclos].
  constructor; [|constructor]. split; [|exact Hg]. unfold closure_ok. cbn [cl_upvals cl_proto]. rewrite Hn. reflexivity.
Qed.

(* the runner: the state a run ends in has a well-formed closure heap *)
Theorem run_heap_ok_lemma : forall p fuel, chunk_ok p -> heap_ok_fin (run_proto fuel p).
Proof.
  intros p fuel Hp. unfold run_proto.
  pose proof (hp_PCall (mainLoop fuel) (mainLoop_heap_ok_lemma fuel) 0 MultRet None (init_vstate p) (init_heap_ok p Hp)) as H.
  destruct (PCall (mainLoop fuel) 0 MultRet None (init_vstate p)) as [[e|] s|e s| |c]; try exact Logic.I; try exact H.
  destruct (reg_get_range 0 (Z.to_nat (rtop (vreg s))) s) eqn:E; try exact Logic.I. exact H.
Qed.
