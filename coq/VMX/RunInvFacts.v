(* M-VM and C07, run level: the invariant of the main loop of the machine with coroutine resumption
   cut off (RunInv.run_inv) is kept by every instruction and every host function, and under it no
   instruction indexes Code / Constants / FunctionPrototypes / upvalue slots out of range. *)
From Coq Require Import Floats Lia ZifyBool.
From GL Require Import Common.Bytes Lua.Syntax Lua.Num Lua.Values Lua.Names Lua.Eval Str.StrModel.
From GL Require Import VMX.Machine VMX.Step VMX.Builtins VMX.VRun VMX.WfTie VMX.WfTieFacts VMX.RunSafe VMX.RunInv.
From GL Require Import VMX.RunSafeFacts VMX.HeapSafeFacts VMX.DiscFacts.
From GL Require VM.Proto VM.WfProto VM.WfFacts VM.ScanFacts.

(* ---------- the closure heap only grows ---------- *)
Lemma pext_refl : forall s, pext s s.
Proof. intros s c cl H. exists cl. auto. Qed.

Lemma pext_trans : forall a b c, pext a b -> pext b c -> pext a c.
Proof.
  intros a b c H1 H2 i cl H. destruct (H1 i cl H) as [cl1 [E1 P1]]. destruct (H2 i cl1 E1) as [cl2 [E2 P2]].
  exists cl2. split; [exact E2|congruence].
Qed.

Lemma pext_eq : forall s s', vclos s' = vclos s -> pext s s'.
Proof. intros s s' E c cl H. exists cl. rewrite E. auto. Qed.

Lemma fr_good_pext : forall s s' f, pext s s' -> fr_good s f -> fr_good s' f.
Proof.
  intros s s' f Hp H. unfold fr_good in *. destruct (fr_fn f) as [c|b]; [|exact Logic.I].
  destruct H as [cl [E Hpc]]. destruct (Hp c cl E) as [cl' [E' P']]. exists cl'. split; [exact E'|]. rewrite P'. exact Hpc.
Qed.

Lemma cv_pext : forall c p s s', pext s s' -> cv c p s -> cv c p s'.
Proof. intros c p s s' Hp [cl [E P]]. destruct (Hp c cl E) as [cl' [E' P']]. exists cl'. split; [exact E'|congruence]. Qed.


(* a computation under which the closure heap only grows *)
Definition px {A} (m : VM A) : Prop :=
  forall s, match m s with VRet _ s' => pext s s' | VErr _ s' => pext s s' | _ => True end.

Lemma px_bind : forall A B (m : VM A) (f : A -> VM B), px m -> (forall a, px (f a)) -> px (vbind m f).
Proof.
  intros A B m f Hm Hf s. unfold vbind. specialize (Hm s).
  destruct (m s) as [a s1|e s1| |c]; auto. specialize (Hf a s1).
  destruct (f a s1); auto; eapply pext_trans; eassumption.
Qed.

Lemma px_vret : forall A (a : A), px (vret a). Proof. intros A a s. exact (pext_refl s). Qed.
Lemma px_vraise : forall A v, px (@vraise A v). Proof. intros A v s. exact (pext_refl s). Qed.
Lemma px_vget : px vget. Proof. intro s. exact (pext_refl s). Qed.
Lemma px_vunsup : forall A c, px (@vunsup A c). Proof. intros A c s. exact Logic.I. Qed.
Lemma px_vmod : forall f, (forall s, vclos (f s) = vclos s) -> px (vmod f).
Proof. intros f H s. simpl. apply pext_eq. apply H. Qed.

Lemma px_vmod_reg : forall f, px (vmod_reg f). Proof. intros f s. exact (pext_refl s). Qed.
Lemma px_reg_top : px reg_top. Proof. intro s. exact (pext_refl s). Qed.
Lemma px_reg_set : forall i v, px (reg_set i v). Proof. intros. apply px_vmod_reg. Qed.
Lemma px_reg_push : forall v, px (reg_push v). Proof. intros. apply px_vmod_reg. Qed.
Lemma px_reg_settop : forall t, px (reg_settop t). Proof. intros. apply px_vmod_reg. Qed.
Lemma px_read_vtab : forall r, px (read_vtab r). Proof. intros r s. exact (pext_refl s). Qed.
Lemma px_write_vtab : forall r t, px (write_vtab r t). Proof. intros r t s. exact (pext_refl s). Qed.
Lemma px_alloc_vtab : forall t, px (alloc_vtab t). Proof. intros t s. exact (pext_refl s). Qed.
Lemma px_metaOp1 : forall v e, px (metaOp1 v e). Proof. intros v e s. exact (pext_refl s). Qed.
Lemma px_closeUpvalues : forall i, px (closeUpvalues i). Proof. intros i s. exact (pext_refl s). Qed.
Lemma px_nccalls_add : forall d, px (nccalls_add d). Proof. intros d s. exact (pext_refl s). Qed.

Lemma px_metaOp2 : forall a b e, px (metaOp2 a b e).
Proof. intros a b e s. unfold metaOp2. destruct (negb _); exact (pext_refl s). Qed.


Lemma px_findUpvalue : forall i, px (findUpvalue i).
Proof.
  intros i s. unfold findUpvalue. pose proof (vclos_findUpvalue_st i s) as E.
  destruct (findUpvalue_st i s) as [r s']. cbn [snd] in E. apply pext_eq. exact E.
Qed.

Lemma px_cur_frame : px cur_frame.
Proof. intro s. unfold cur_frame. destruct (vstack s); [exact Logic.I|exact (pext_refl s)]. Qed.
Lemma px_set_cur_frame : forall f, px (set_cur_frame f).
Proof. intros f s. unfold set_cur_frame. destruct (vstack s); [exact Logic.I|exact (pext_refl s)]. Qed.
Lemma px_get_closure : forall c, px (get_closure c).
Proof. intros c s. unfold get_closure. destruct (nth_error _ _); [exact (pext_refl s)|exact Logic.I]. Qed.
Lemma px_reg_get : forall i, px (reg_get i).
Proof. intros i s. unfold reg_get. destruct (Get _ _); [exact (pext_refl s)|exact Logic.I]. Qed.
Lemma px_reg_pop : px reg_pop.
Proof. intro s. unfold reg_pop. destruct (Pop _) as [[v|] r]; [exact (pext_refl s)|exact Logic.I]. Qed.


Lemma px_upd_thread : forall t f, px (upd_thread t f).
Proof. intros t f. unfold upd_thread. apply px_vmod. intro s. apply vclos_set_thread. Qed.

Create HintDb px.
#[export] Hint Resolve px_vret px_vraise px_vget px_vunsup px_vmod_reg px_reg_top px_reg_set
  px_reg_push px_reg_settop px_read_vtab px_write_vtab px_alloc_vtab px_metaOp1 px_metaOp2
  px_closeUpvalues px_findUpvalue px_cur_frame px_set_cur_frame px_get_closure px_reg_get px_reg_pop
  px_nccalls_add px_upd_thread  : px.

Ltac px_step :=
  match goal with
  | |- px (vunsup _) => apply px_vunsup
  | |- px (vbind _ _) => apply px_bind; [|intro]
  | |- px _ => solve [eauto 3 with px]
  | |- px (match ?x with _ => _ end) => destruct x
  | |- px (let '(_, _) := ?x in _) => destruct x
  end.
Ltac px_tac := repeat px_step.

Lemma px_frame_line : forall f, px (frame_line f).
Proof. intro f. unfold frame_line. px_tac. Qed.
#[export] Hint Resolve px_frame_line  : px.

Lemma px_where_ : forall n l g, px (where_ n l g).
Proof.
  induction n; intros l g; simpl; [auto with px|].
  intro s. destruct (GetStack (vstack s) l) as [f|]; [|exact (pext_refl s)].
  destruct (fr_fn f).
  - apply (px_bind _ _ (frame_line f) (fun l0 => vret (WLine l0))); auto with px.
  - destruct g; [apply IHn|exact (pext_refl s)].
Qed.

Lemma px_where_info : forall l g, px (where_info l g).
Proof. intros l g s. unfold where_info. apply px_where_. Qed.
#[export] Hint Resolve px_where_info  : px.

Lemma px_raise_msg : forall A m, px (@raise_msg A m).
Proof. intros. unfold raise_msg. px_tac. Qed.
Lemma px_fault : forall A k, px (@fault_ A k).
Proof. intros. unfold fault_. px_tac. Qed.
#[export] Hint Resolve px_raise_msg px_fault  : px.

Lemma px_of_num_text : forall f, px (of_num_text f).
Proof. intro f. unfold of_num_text. px_tac. Qed.
Lemma px_parseNumber : forall s, px (parseNumber s).
Proof. intro s. unfold parseNumber. px_tac. Qed.
Lemma px_numberArith : forall o a b, px (numberArith o a b).
Proof. intros. unfold numberArith. px_tac. Qed.
#[export] Hint Resolve px_of_num_text px_parseNumber px_numberArith  : px.

Lemma px_as_text : forall v, px (as_text v).
Proof. intro v. unfold as_text. px_tac. Qed.
Lemma px_forOperand : forall v, px (forOperand v).
Proof. intro v. unfold forOperand. px_tac. Qed.
Lemma px_raw_get : forall r k, px (raw_get r k).
Proof. intros. unfold raw_get. px_tac. Qed.
Lemma px_RawSet : forall r k v, px (RawSet r k v).
Proof. intros. unfold RawSet. px_tac. Qed.
Lemma px_raw_set_nocheck : forall r k v, px (raw_set_nocheck r k v).
Proof. intros. unfold raw_set_nocheck. px_tac. Qed.
Lemma px_metaCall : forall v, px (metaCall v).
Proof. intros. unfold metaCall. px_tac. Qed.
Lemma px_add_pc : forall d, px (add_pc d).
Proof. intros. unfold add_pc. px_tac. Qed.
Lemma px_get_upval : forall cl b, px (get_upval cl b).
Proof. intros. unfold get_upval. px_tac. Qed.
Lemma px_code_at : forall p pc, px (code_at p pc).
Proof. intros. unfold code_at. px_tac. Qed.
Lemma px_kstring : forall p i, px (kstring p i).
Proof. intros. unfold kstring. px_tac. Qed.
Lemma px_rkValue : forall p lb x, px (rkValue p lb x).
Proof. intros. unfold rkValue. px_tac. Qed.
#[export] Hint Resolve px_as_text px_forOperand px_raw_get px_RawSet px_raw_set_nocheck
  px_metaCall px_add_pc px_get_upval px_code_at px_kstring px_rkValue  : px.

Lemma px_rkString : forall p lb x, px (rkString p lb x).
Proof. intros. unfold rkString. px_tac. Qed.
#[export] Hint Resolve px_rkString  : px.

Lemma px_initCallFrame : forall cf, px (initCallFrame cf).
Proof. intros. unfold initCallFrame. px_tac. Qed.
#[export] Hint Resolve px_initCallFrame  : px.

Lemma px_push_frame : forall cf, px (vmod (fun s => with_stack s (cf :: vstack s))).
Proof. intro cf. apply px_vmod. reflexivity. Qed.
Lemma px_pop_frame : px (vmod (fun s => with_stack s (tl (vstack s)))).
Proof. apply px_vmod. reflexivity. Qed.
Lemma px_switch_to : forall t, px (vmod (switch_to t)).
Proof. intro t. apply px_vmod. reflexivity. Qed.
#[export] Hint Resolve px_push_frame px_pop_frame px_switch_to  : px.

Lemma px_pushCallFrame : forall ofn b lb rb na nr fn meta, px (pushCallFrame ofn b lb rb na nr fn meta).
Proof. intros. unfold pushCallFrame. px_tac. Qed.
#[export] Hint Resolve px_pushCallFrame  : px.

Lemma px_reg_get_range : forall n lo, px (reg_get_range lo n).
Proof. induction n; intros; simpl; px_tac. Qed.
Lemma px_reg_push_list : forall vs, px (reg_push_list vs).
Proof. induction vs; simpl; px_tac. Qed.
#[export] Hint Resolve px_reg_get_range px_reg_push_list  : px.

Lemma px_switchToParentThread : forall n h k, px (switchToParentThread n h k).
Proof. intros. unfold switchToParentThread. px_tac. Qed.
#[export] Hint Resolve px_switchToParentThread  : px.

Lemma px_tailcall_lua : forall cf ca lv me na ra, px (tailcall_lua cf ca lv me na ra).
Proof. intros. unfold tailcall_lua. px_tac. Qed.
Lemma px_do_return : forall cf ra b base, px (do_return cf ra b base).
Proof. intros. unfold do_return. px_tac. Qed.
#[export] Hint Resolve px_tailcall_lua px_do_return  : px.

Lemma px_loadnil_loop : forall k i, px (loadnil_loop i k).
Proof. induction k; intros; cbn [loadnil_loop]; px_tac. Qed.
Lemma px_setlist_loop : forall k tb ra off i, px (setlist_loop tb ra off i k).
Proof. induction k; intros; cbn [setlist_loop]; px_tac. Qed.
Lemma px_MOVEN_loop : forall code lbase k pc, px (MOVEN_loop code lbase k pc).
Proof. intros code lbase. induction k; intros pc; simpl; px_tac. Qed.
#[export] Hint Resolve px_loadnil_loop px_setlist_loop px_MOVEN_loop  : px.


(* ---------- host-function leaves ---------- *)
Lemma px_bi_args : px bi_args.
Proof. unfold bi_args. px_tac. Qed.
Lemma px_bi_ret : forall vs, px (bi_ret vs).
Proof. intros. unfold bi_ret. px_tac. Qed.
Lemma px_badarg : forall A, px (@badarg A).
Proof. intros. unfold badarg. auto with px. Qed.
#[export] Hint Resolve px_bi_args px_bi_ret px_badarg : px.
Lemma px_v_opt_int : forall v d, px (v_opt_int v d).
Proof. intros. unfold v_opt_int. px_tac. Qed.
Lemma px_v_border : forall t, px (v_border t).
Proof. intros. unfold v_border. px_tac. Qed.
Lemma px_vmapM : forall A B (f : A -> VM B) l, (forall a, px (f a)) -> px (vmapM f l).
Proof. intros A B f l H. induction l; simpl; px_tac. Qed.
Lemma px_frame_at_level : forall l, px (frame_at_level l).
Proof. intros l s. exact (pext_refl s). Qed.
#[export] Hint Resolve px_v_opt_int px_v_border px_frame_at_level : px.

Lemma px_float_fold : forall (g : float -> float -> float) l acc,
  px ((fix go (l : list value) (acc : float) : VM float :=
         match l with [] => vret acc | VNum x :: r => go r (g acc x) | _ => vunsup 219 end) l acc).
Proof. intros g. induction l; intros acc; [apply px_vret|]. destruct a; try apply px_vunsup. apply IHl. Qed.

Lemma px_simple_builtin : forall b args, px (simple_builtin b args).
Proof.
  intros b args. unfold simple_builtin.
  destruct b; px_tac.
  all: try apply px_float_fold.
  all: try (apply px_vmapM; intro; px_tac).
  all: try (apply px_vmod; reflexivity).
  all: try (intro s; exact (pext_refl s)).
  all: try (intro s; destruct (metatable_raw _ _); exact (pext_refl s)).
Qed.
Lemma px_new_thread : forall f w, px (new_thread f w).
Proof. intros f w s. exact (pext_refl s). Qed.
#[export] Hint Resolve px_simple_builtin px_new_thread : px.

Lemma pext_set_nth : forall (l : list closure) i x cl,
  nth_error l i = Some cl -> cl_proto x = cl_proto cl ->
  forall j y, nth_error l j = Some y -> exists y', nth_error (set_nth l i x) j = Some y' /\ cl_proto y' = cl_proto y.
Proof.
  induction l; intros i x cl Hi Hx j y Hj; [destruct j; discriminate|].
  destruct i; simpl.
  - destruct j; simpl in *; [inversion Hi; inversion Hj; subst; eauto|eauto].
  - destruct j; simpl in *; [eauto|]. eapply IHl; eassumption.
Qed.

Lemma px_set_closure_env : forall c env, px (set_closure_env c env).
Proof.
  intros c env s. unfold set_closure_env, vbind, get_closure.
  destruct (nth_error (vclos s) c) as [cl|] eqn:E; [|exact Logic.I].
  unfold vmod. intros j y Hj. cbn [vclos with_vclos]. eapply pext_set_nth; [exact E|reflexivity|exact Hj].
Qed.
#[export] Hint Resolve px_set_closure_env : px.

(* ---------- the Hoare rule with the out-of-range clause ---------- *)

Lemma hto_bind : forall A B P (m : VM A) Q (f : A -> VM B) R E,
  hto P m Q E -> (forall a, hto (Q a) (f a) R E) -> hto P (vbind m f) R E.
Proof.
  intros A B P m Q f R E Hm Hf s Hs. unfold vbind. specialize (Hm s Hs).
  destruct (m s) as [a s1|e s1| |c]; auto. apply Hf. exact Hm.
Qed.

Lemma hto_conseq : forall A (P P' : vstate -> Prop) (m : VM A) (Q Q' : A -> vstate -> Prop) (E E' : vstate -> Prop),
  hto P m Q E -> (forall s, P' s -> P s) -> (forall a s, Q a s -> Q' a s) -> (forall s, E s -> E' s) ->
  hto P' m Q' E'.
Proof.
  intros A P P' m Q Q' E E' H HP HQ HE s Hs. specialize (H s (HP s Hs)). destruct (m s); auto.
Qed.

Lemma hto_noret : forall A (m : VM A) (P : vstate -> Prop) (Q Q' : A -> vstate -> Prop) (E : vstate -> Prop),
  hto P m Q E -> (forall s a s', m s <> VRet a s') -> hto P m Q' E.
Proof.
  intros A m P Q Q' E H Hn s Hs. specialize (H s Hs). destruct (m s) eqn:Em; auto.
  exfalso. eapply Hn. eassumption.
Qed.

Lemma hto_ex : forall A T (P : T -> vstate -> Prop) (m : VM A) (Q : A -> vstate -> Prop) (E : vstate -> Prop),
  (forall x, hto (P x) m Q E) -> hto (fun s => exists x, P x s) m Q E.
Proof. intros A T P m Q E H s [x Hx]. apply (H x). exact Hx. Qed.

Lemma hto_pure : forall A (P : vstate -> Prop) (P0 : Prop) (m : VM A) (Q : A -> vstate -> Prop) (E : vstate -> Prop),
  (P0 -> hto P m Q E) -> hto (fun s => P s /\ P0) m Q E.
Proof. intros A P P0 m Q E H s [Hs H0]. apply H; assumption. Qed.

Lemma hto_vget_bind : forall A (P : vstate -> Prop) (F : vstate -> VM A) (Q : A -> vstate -> Prop) (E : vstate -> Prop),
  (forall s0, P s0 -> hto P (F s0) Q E) -> hto P (vbind vget F) Q E.
Proof. intros A P F Q E H s Hs. unfold vbind, vget. apply (H s Hs). exact Hs. Qed.

(* heap and threads in order, the frame stack is X, and a side condition Phi that survives growth
   of the closure heap (the goodness of whatever frames the caller cares about goes there); the
   error form has X at the bottom *)

Lemma atg_erg : forall Phi X s, atg Phi X s -> erg Phi X s.
Proof. intros Phi X s [H1 [H2 [H3 H5]]]. repeat split; auto. exists []. exact H5. Qed.

Lemma erg_cons : forall Phi f X s, erg Phi (f :: X) s -> erg Phi X s.
Proof.
  intros Phi f X s [H1 [H2 [H3 [k H5]]]]. repeat split; auto.
  exists (k ++ [f]). rewrite <- app_assoc. exact H5.
Qed.

Lemma erg_app : forall Phi k X s, erg Phi (k ++ X) s -> erg Phi X s.
Proof. intros Phi k. induction k; intros X s H; [exact H|]. apply IHk. eapply erg_cons. exact H. Qed.

Lemma erg_tl : forall Phi X s, erg Phi X s -> erg Phi (tl X) s.
Proof. intros Phi [|f X] s H; [exact H|]. eapply erg_cons. exact H. Qed.

(* safe, invariant-keeping and stack-disciplined in one *)

Lemma jg_bind : forall A B (m : VM A) (f : A -> VM B), jg m -> (forall a, jg (f a)) -> jg (vbind m f).
Proof. intros A B m f Hm Hf Phi HP X. eapply hto_bind; [apply Hm; exact HP|intro a; apply Hf; exact HP]. Qed.

Lemma jg_vunsup : forall A c, oob c = false -> jg (@vunsup A c).
Proof. intros A c H Phi HP X s Hs. exact H. Qed.

(* a computation that does not re-enter the main loop: the four separate facts give the joint one *)
Lemma jg_leaf : forall A (m : VM A), noob m -> ipres heap_ok m -> sd m -> px m -> jg m.
Proof.
  intros A m Hn Hh Hd Hx Phi HP X s [H1 [H2 [H3 H5]]].
  specialize (Hh s H1). specialize (Hd X s (conj H2 H5)). specialize (Hx s).
  destruct (m s) as [a s1|e s1| |c] eqn:E.
  - destruct Hd as [D1 D2]. repeat split; auto. eapply HP; eassumption.
  - destruct Hd as [D1 D2]. repeat split; auto. eapply HP; eassumption.
  - exact Logic.I.
  - eapply Hn. eassumption.
Qed.

#[export] Hint Resolve sd_bi_args sd_bi_ret sd_badarg sd_v_opt_int sd_v_border sd_frame_at_level
  sd_simple_builtin sd_new_thread sd_set_closure_env sd_switchToParentThread : sd.
#[export] Hint Resolve hp_bi_args hp_bi_ret hp_badarg hp_v_opt_int hp_v_border hp_frame_at_level
  hp_simple_builtin hp_new_thread hp_set_closure_env : hp.
#[export] Hint Resolve noob_bi_args noob_bi_ret noob_badarg noob_v_opt_int noob_v_border noob_frame_at_level
  noob_simple_builtin noob_new_thread noob_set_closure_env : noob.

Ltac jg_leaf_tac := apply jg_leaf; [solve [eauto 3 with noob]|solve [eauto 3 with hp]|solve [eauto 3 with sd]|solve [eauto 3 with px]].

Create HintDb jg.
Ltac jg_step :=
  match goal with
  | |- jg (vunsup _) => apply jg_vunsup; reflexivity
  | |- jg (vbind _ _) => apply jg_bind; [|intro]
  | |- jg _ => solve [eauto 3 with jg]
  | |- jg _ => solve [jg_leaf_tac]
  | |- jg (match ?x with _ => _ end) => destruct x
  | |- jg (let '(_, _) := ?x in _) => destruct x
  end.
Ltac jg_tac := repeat jg_step.

(* ---------- pushing a frame ---------- *)
Lemma initCallFrame_pc : forall cf, retp (fun cf' => fr_fn cf' = fr_fn cf /\ fr_pc cf' = fr_pc cf) (initCallFrame cf).
Proof.
  intro cf. unfold initCallFrame. destruct (fr_fn cf) eqn:Ef.
  - apply retp_bind. intro cl. apply retp_bind. intro s0.
    destruct (icf_pad _ _ _ _) as [r1 nargs1]. apply retp_bind. intro argtb.
    destruct (icf_body _ _ _ _ _ _ _) as [r2 lb']. apply retp_bind. intro. apply retp_vret. split; reflexivity.
  - apply retp_bind. intro. apply retp_vret. split; [exact Ef|reflexivity].
Qed.

Lemma initCallFrame_clos : forall cf s cf' s', initCallFrame cf s = VRet cf' s' ->
  match fr_fn cf with FnLua c => exists cl, nth_error (vclos s) c = Some cl | FnGo _ => True end.
Proof.
  intros cf s cf' s' H. unfold initCallFrame in H. destruct (fr_fn cf) as [c|b]; [|exact Logic.I].
  unfold vbind at 1 in H. unfold get_closure in H. destruct (nth_error (vclos s) c) as [cl|]; [eauto|discriminate].
Qed.

Lemma heap_ok_nth : forall s c cl, heap_ok s -> nth_error (vclos s) c = Some cl -> clos_good cl.
Proof. intros s c cl H E. unfold heap_ok in H. rewrite Forall_forall in H. apply H. eapply nth_error_In. eassumption. Qed.

(* a frame at pc 0 of an existing closure is good *)
Lemma entry_good : forall s f c cl, heap_ok s -> fr_fn f = FnLua c -> fr_pc f = 0 ->
  nth_error (vclos s) c = Some cl -> fr_good s f.
Proof.
  intros s f c cl Hh Hf Hpc E. unfold fr_good. rewrite Hf. exists cl. split; [exact E|]. rewrite Hpc.
  apply VM.WfFacts.entry_ok. apply (good_proto_fn (cl_proto cl)). apply (heap_ok_nth s c cl Hh E).
Qed.

Lemma stable_vclos : forall Phi s s', stable Phi -> vclos s' = vclos s -> Phi s -> Phi s'.
Proof. intros Phi s s' HP E H. eapply HP; [apply pext_eq; exact E|exact H]. Qed.

Lemma fr_good_vclos : forall s s' f, vclos s' = vclos s -> fr_good s f -> fr_good s' f.
Proof. intros s s' f E H. eapply fr_good_pext; [apply pext_eq; exact E|exact H]. Qed.

Lemma go_good : forall s f b, fr_fn f = FnGo b -> fr_good s f.
Proof. intros s f b H. unfold fr_good. rewrite H. exact Logic.I. Qed.

Lemma hto_pushCallFrame : forall Phi, stable Phi -> forall ofn b lb rb na nr fn meta X,
  hto (atg Phi X) (pushCallFrame ofn b lb rb na nr fn meta)
      (fun _ s => exists cf, (atg Phi (cf :: X) s /\ fr_good s cf) /\ ofn = Some (fr_fn cf)) (erg Phi X).
Proof.
  intros Phi HP ofn b lb rb na nr fn meta X. unfold pushCallFrame.
  eapply hto_bind; [assert (Hj : jg (if meta then vmod_reg (fun r => Insert r fn lb) else vret tt)) by (destruct meta; jg_leaf_tac); apply (Hj Phi HP X)|intro].
  destruct ofn as [f|].
  2:{ eapply hto_noret; [assert (Hj : jg (@fault_ unit 3)) by jg_leaf_tac; apply (Hj Phi HP X)|].
      intros s9 a9 s9'. apply fault_not_ret. }
  intros s Hs. unfold vbind at 1. unfold vget.
  destruct (len (vstack s) >=? CallStackSize).
  { assert (Hj : jg (@raise_msg unit m_stack_overflow)) by jg_leaf_tac. pose proof (Hj Phi HP X s Hs) as H.
    destruct (raise_msg m_stack_overflow s) eqn:ER; auto. exfalso. eapply raise_msg_not_ret. eassumption. }
  unfold vbind at 1. unfold vmod.
  set (cf := mkFrame f 0 b lb rb (if meta then na + 1 else na) nr 0).
  set (s1 := with_stack s (cf :: vstack s)).
  destruct Hs as [H1 [H2 [H3 H5]]].
  unfold vbind at 1.
  pose proof (hp_initCallFrame cf s1 H1) as Ih.
  pose proof (sd_initCallFrame cf (cf :: X) s1) as Id.
  pose proof (px_initCallFrame cf s1) as Ix.
  assert (Hst1 : stk (cf :: X) s1) by (split; [exact H2|cbn [vstack s1 with_stack]; rewrite H5; reflexivity]).
  specialize (Id Hst1).
  destruct (initCallFrame cf s1) as [cf' s2|e s2| |c] eqn:EI.
  - destruct Id as [Hp2 Hs2]. unfold set_cur_frame. rewrite Hs2.
    pose proof (initCallFrame_pc cf _ _ _ EI) as [Ef Epc]. pose proof (initCallFrame_clos _ _ _ _ EI) as Ec.
    exists cf'. split; [|rewrite Ef; reflexivity].
    assert (HP2 : Phi s2) by (eapply HP; [exact Ix|]; eapply stable_vclos; [exact HP| |exact H3]; reflexivity).
    assert (Hg' : fr_good s2 cf').
    { cbn [fr_fn cf] in Ef, Ec. destruct f as [c0|b0].
      + destruct Ec as [cl Ecl]. destruct (Ix c0 cl Ecl) as [cl' [Ecl' _]].
        eapply entry_good; [exact Ih|exact Ef|rewrite Epc; reflexivity|exact Ecl'].
      + eapply go_good. exact Ef. }
    split; [|eapply fr_good_vclos; [|exact Hg']; reflexivity].
    split; [exact Ih|]. split; [exact Hp2|]. split; [eapply stable_vclos; [exact HP| |exact HP2]; reflexivity|reflexivity].
  - destruct Id as [Hp2 [k Hk]].
    split; [exact Ih|]. split; [exact Hp2|].
    split; [eapply HP; [exact Ix|]; eapply stable_vclos; [exact HP| |exact H3]; reflexivity|].
    exists (k ++ [cf]); rewrite <- app_assoc; exact Hk.
  - exact Logic.I.
  - eapply noob_initCallFrame. eassumption.
Qed.

(* ---------- re-entrance ---------- *)

Section Reent.
Variable ml : option nat -> VM unit.
Hypothesis Hml : ml_safeP ml.

Lemma jg_callR : forall na nr rb, jg (callR ml na nr rb).
Proof.
  intros na nr rb Phi HP X. unfold callR.
  eapply hto_bind; [assert (Hj : jg reg_top) by jg_leaf_tac; apply (Hj Phi HP X)|intro top].
  eapply hto_bind; [assert (Hj : jg (reg_get (top - na - 1))) by jg_leaf_tac; apply (Hj Phi HP X)|intro lv].
  eapply hto_bind; [assert (Hj : jg (metaCall lv)) by jg_leaf_tac; apply (Hj Phi HP X)|intro fm].
  eapply hto_bind with (Q := fun _ s => exists cf, atg Phi (cf :: X) s /\ fr_good s cf);
    [eapply hto_conseq; [apply (hto_pushCallFrame Phi HP)|intros s9 H9; exact H9|intros a9 s9 [cf9 [H9 _]]; exists cf9; exact H9|intros s9 H9; exact H9]|intro].
  cbv beta. apply (hto_ex _ _ (fun cf s => atg Phi (cf :: X) s /\ fr_good s cf)). intro cf.
  (* the goodness of the new frame rides along as part of the side condition *)
  set (Phi2 := fun s => Phi s /\ fr_good s cf).
  assert (HP2 : stable Phi2) by (intros s9 s9' Hx [Ha Hb]; split; [eapply HP; eassumption|eapply fr_good_pext; eassumption]).
  eapply hto_conseq with (P := atg Phi2 (cf :: X)) (Q := fun _ => atg Phi X) (E := erg Phi X);
    [|intros s9 [[Ha [Hb [Hc Hd]]] He]; repeat split; assumption|intros a9 s9 H9; exact H9|intros s9 H9; exact H9].
  eapply hto_bind; [eapply hto_conseq; [assert (Hj : jg (nccalls_add 1)) by jg_leaf_tac; apply (Hj Phi2 HP2 (cf :: X))|intros s9 H9; exact H9|intros a9 s9 H9; exact H9|intros s9 [Ha [Hb [[Hc _] Hd]]]; apply (erg_cons Phi cf); repeat split; assumption]|intro].
  apply hto_vget_bind. intros s0 Hs0.
  assert (EL : (length (vstack s0) - 1)%nat = length X).
  { destruct Hs0 as [_ [_ [_ E]]]. rewrite E. cbn [length]. lia. }
  rewrite EL.
  eapply hto_bind; [eapply hto_conseq; [apply (Hml Phi HP cf X)|intros s9 [Ha [Hb [[Hc Hg] Hd]]]; repeat split; assumption|intros a9 s9 H9; exact H9|intros s9 H9; exact H9]|intro].
  assert (Ht : jg (vdo _ <- nccalls_add (-1); if nr =? MultRet then vret tt else reg_settop ((if rb <? 0 then top - na - 1 else rb) + nr))).
  { apply jg_bind; [jg_leaf_tac|intro]. destruct (nr =? MultRet); jg_leaf_tac. }
  apply (Ht Phi HP X).
Qed.
Hint Resolve jg_callR : jg.
Lemma jg_Call : forall a b, jg (Call ml a b).
Proof. intros. unfold Call. auto with jg. Qed.
Hint Resolve jg_Call : jg.

Lemma jg_getField : forall n o k, jg (getField ml n o k).
Proof. induction n; intros; simpl; jg_tac. Qed.
Lemma jg_setField : forall n c o k v, jg (setField ml n c o k v).
Proof. induction n; intros; simpl; jg_tac. Qed.
Lemma jg_objectArith : forall o a b, jg (objectArith ml o a b).
Proof. intros. unfold objectArith. jg_tac. Qed.
Lemma jg_concat_loop : forall f i t r, jg (concat_loop ml f i t r).
Proof. induction f; intros; simpl; jg_tac. Qed.
Hint Resolve jg_concat_loop : jg.
Lemma jg_stringConcat : forall t l, jg (stringConcat ml t l).
Proof. intros. unfold stringConcat. jg_tac. Qed.
Lemma jg_objectRational : forall a b e, jg (objectRational ml a b e).
Proof. intros. unfold objectRational. jg_tac. Qed.
Hint Resolve jg_objectRational : jg.
Lemma jg_objectRationalWithError : forall a b e, jg (objectRationalWithError ml a b e).
Proof. intros. unfold objectRationalWithError. jg_tac. Qed.
Hint Resolve jg_objectRationalWithError : jg.
Lemma jg_lessThan : forall a b, jg (lessThan ml a b).
Proof. intros. unfold lessThan. jg_tac. Qed.
Lemma jg_lessEq : forall a b, jg (lessEq ml a b).
Proof. intros. unfold lessEq. jg_tac. Qed.
Lemma jg_equals : forall a b, jg (equals ml a b).
Proof. intros. unfold equals. jg_tac. Qed.


(* PCall: the recovery cuts the stack back *)
Lemma unwind_atg : forall Phi, stable Phi -> forall X base s, erg Phi X s -> atg Phi X (unwind (length X) base s).
Proof.
  intros Phi HP X base s [H1 [H2 [H3 [k E]]]].
  split; [exact H1|]. split; [exact H2|]. split; [eapply stable_vclos; [exact HP| |exact H3]; reflexivity|].
  unfold unwind, SetSp, closeUpvalues_st. cbn [vstack with_reg with_uvcache with_uvs with_stack].
  rewrite E. apply skipn_app_length.
Qed.

Lemma jg_PCall : forall na nr h, jg (PCall ml na nr h).
Proof.
  intros na nr h Phi HP X s Hs. unfold PCall.
  pose proof (jg_Call na nr Phi HP X s Hs) as HC.
  assert (EL : vstack s = X) by (destruct Hs as [_ [_ [_ E]]]; exact E). rewrite EL.
  destruct (Call ml na nr s) as [u s'|e s0| |c]; auto.
  - destruct HC as [H1 [H2 [H3 H4]]]. split; [exact H1|]. split; [exact H2|].
    split; [eapply stable_vclos; [exact HP| |exact H3]; reflexivity|].
    unfold SetSp. cbn [vstack with_stack]. rewrite H4. rewrite Nat.sub_diag. reflexivity.
  - assert (H0 : erg Phi X (set_nccalls (cur_nccalls s) s0)).
    { destruct HC as [H1 [H2 [H3 Hk]]]. split; [exact H1|]. split; [apply par_set_nccalls; exact H2|].
      split; [eapply stable_vclos; [exact HP| |exact H3]; reflexivity|exact Hk]. }
    destruct h as [h|]; [|apply unwind_atg; assumption].
    destruct H0 as [H1 [H2 [H3 [k Hk]]]].
    assert (Hh : jg (vdo _ <- reg_push h; vdo _ <- reg_push e; vdo _ <- Call ml 1 1; vdo t <- reg_top; reg_get (t - 1))) by jg_tac.
    specialize (Hh Phi HP (k ++ X) (set_nccalls (cur_nccalls s) s0)).
    match type of Hh with ?P -> _ => assert (Hpre : P) by (repeat split; assumption) end.
    specialize (Hh Hpre).
    destruct ((vdo _ <- reg_push h; vdo _ <- reg_push e; vdo _ <- Call ml 1 1; vdo t <- reg_top; reg_get (t - 1))
                (set_nccalls (cur_nccalls s) s0)) as [hv s''|e2 s''| |c]; auto.
    + apply unwind_atg; [exact HP|]. destruct Hh as [G1 [G2 [G3 G4]]]. repeat split; auto. exists k. exact G4.
    + apply unwind_atg; [exact HP|]. eapply erg_app. exact Hh.
Qed.
Hint Resolve jg_PCall : jg.

Lemma jg_ToStringMeta : forall v, jg (ToStringMeta ml v).
Proof. intros. unfold ToStringMeta. jg_tac. Qed.
Hint Resolve jg_ToStringMeta : jg.

(* every host function of the cut machine *)
Lemma jg_gfunction_nc : forall b, jg (gfunction_nc ml b).
Proof.
  intro b. unfold gfunction_nc. destruct (is_resume b) eqn:Er; [intros Phi HP X s Hs; exact Logic.I|].
  unfold gfunction. apply jg_bind; [jg_leaf_tac|intro args].
  destruct b; try discriminate; try solve [jg_tac].
  destruct co; [jg_tac|discriminate].
Qed.

End Reent.

#[export] Hint Resolve jg_callR jg_Call jg_getField jg_setField jg_objectArith jg_stringConcat
  jg_lessThan jg_lessEq jg_equals : jg.

(* ---------- inside one instruction: the current frame is a frame of closure c, its pc in S ---------- *)
Definition midg (Phi : vstate -> Prop) (rest : list cframe) (c : nat) (S : Z -> Prop) (s : vstate) : Prop :=
  heap_ok s /\ par_ok s /\ Phi s /\ exists cf, vstack s = cf :: rest /\ fr_fn cf = FnLua c /\ S (fr_pc cf).

Definition sh (S : Z -> Prop) (d : Z) : Z -> Prop := fun x => S (x - d).

Section InFrame.
Variable Phi : vstate -> Prop.
Hypothesis HP : stable Phi.
Variable c : nat.

Definition lq {A} (Sin Sout : Z -> Prop) (Q : A -> Prop) (m : VM A) : Prop :=
  forall rest, hto (midg Phi rest c Sin) m (fun a s => Q a /\ midg Phi rest c Sout s) (erg Phi rest).

Lemma lq_jg : forall A (S : Z -> Prop) (m : VM A), jg m -> lq S S (fun _ => True) m.
Proof.
  intros A S m H rest s [H1 [H2 [H3 [cf [H4 [H5 H6]]]]]].
  assert (Ha : atg Phi (cf :: rest) s) by (repeat split; assumption).
  specialize (H Phi HP (cf :: rest) s Ha).
  destruct (m s) as [a s1|e s1| |x]; auto.
  - destruct H as [G1 [G2 [G3 G4]]]. split; [exact Logic.I|]. repeat split; auto. exists cf. auto.
  - eapply erg_cons. exact H.
Qed.

Lemma lq_bind : forall A B (S1 S2 S3 : Z -> Prop) (Q : B -> Prop) (m : VM A) (f : A -> VM B),
  lq S1 S2 (fun _ => True) m -> (forall a, lq S2 S3 Q (f a)) -> lq S1 S3 Q (vbind m f).
Proof.
  intros A B S1 S2 S3 Q m f Hm Hf rest. eapply hto_bind; [apply Hm|]. intro a.
  eapply hto_conseq; [apply (Hf a rest)|intros s [_ H]; exact H|intros b s H; exact H|intros s H; exact H].
Qed.

Lemma lq_vret : forall A (S S' : Z -> Prop) (Q : A -> Prop) a, Q a -> (forall x, S x -> S' x) -> lq S S' Q (vret a).
Proof.
  intros A S S' Q a Hq Hs rest s [H1 [H2 [H3 [cf [H4 [H5 H6]]]]]]. split; [exact Hq|]. repeat split; auto. exists cf. auto.
Qed.

Lemma lq_vunsup : forall A (S S' : Z -> Prop) (Q : A -> Prop) x, oob x = false -> lq S S' Q (vunsup x).
Proof. intros A S S' Q x H rest s Hs. exact H. Qed.

Lemma lq_fault : forall A (S S' : Z -> Prop) (Q : A -> Prop) k, lq S S' Q (@fault_ A k).
Proof.
  intros A S S' Q k rest. eapply hto_noret; [apply (lq_jg A S (fault_ k)); jg_leaf_tac|].
  intros s9 a9 s9'. apply fault_not_ret.
Qed.

Lemma lq_set_cur_frame : forall (S : Z -> Prop) f, fr_fn f = FnLua c -> lq S (eq (fr_pc f)) (fun _ => True) (set_cur_frame f).
Proof.
  intros S f Hf rest s [H1 [H2 [H3 [cf [H4 [H5 H6]]]]]]. unfold set_cur_frame. rewrite H4.
  split; [exact Logic.I|]. split; [exact H1|]. split; [exact H2|]. split; [eapply stable_vclos; [exact HP| |exact H3]; reflexivity|].
  exists f. auto.
Qed.

Lemma lq_add_pc : forall (S : Z -> Prop) d, lq S (sh S d) (fun _ => True) (add_pc d).
Proof.
  intros S d rest s [H1 [H2 [H3 [cf [H4 [H5 H6]]]]]]. unfold add_pc, vbind, cur_frame. rewrite H4.
  unfold set_cur_frame. rewrite H4.
  split; [exact Logic.I|]. split; [exact H1|]. split; [exact H2|]. split; [eapply stable_vclos; [exact HP| |exact H3]; reflexivity|].
  eexists. split; [reflexivity|]. split; [exact H5|]. unfold sh. cbn [fr_pc set_pc].
  replace (fr_pc cf + d - d) with (fr_pc cf) by lia. exact H6.
Qed.

Lemma lq_weaken : forall A (S1 S1' S2 S2' : Z -> Prop) (Q Q' : A -> Prop) (m : VM A),
  lq S1 S2 Q m -> (forall x, S1' x -> S1 x) -> (forall x, S2 x -> S2' x) -> (forall a, Q a -> Q' a) -> lq S1' S2' Q' m.
Proof.
  intros A S1 S1' S2 S2' Q Q' m H Hi Ho Hq rest.
  eapply hto_conseq; [apply (H rest)| | |intros s Hs; exact Hs].
  - intros s [H1 [H2 [H3 [cf [H4 [H5 H6]]]]]]. repeat split; auto. exists cf. auto.
  - intros a s [Ha [H1 [H2 [H3 [cf [H4 [H5 H6]]]]]]]. split; [auto|]. repeat split; auto. exists cf. auto.
Qed.

End InFrame.

Ltac lq_leaf := first
  [ apply lq_add_pc; assumption
  | apply lq_set_cur_frame; [assumption|reflexivity]
  | apply lq_jg; [assumption|solve [eauto 4 with jg]]
  | apply lq_jg; [assumption|solve [jg_leaf_tac]] ].

Ltac lq_step :=
  match goal with
  | |- lq _ _ _ _ _ (vunsup _) => apply lq_vunsup; reflexivity
  | |- lq _ _ _ _ _ (fault_ _) => apply lq_fault; assumption
  | |- lq _ _ _ _ _ (vret false) => apply lq_vret; [reflexivity|]
  | |- lq _ _ _ _ _ (vbind (match ?x with _ => _ end) _) => destruct x
  | |- lq _ _ _ _ _ (vbind _ _) => eapply lq_bind; [|intro]
  | |- lq _ _ _ _ (fun _ => True) _ => lq_leaf
  | |- lq _ _ _ _ _ (match ?x with _ => _ end) => destruct x
  | |- lq _ _ _ _ _ (let '(_, _) := ?x in _) => destruct x
  end.
Ltac lq_tac := repeat lq_step.

Lemma lq_bind_q : forall Phi c A B (S1 S2 S3 : Z -> Prop) (Q1 : A -> Prop) (Q : B -> Prop) (m : VM A) (f : A -> VM B),
  lq Phi c S1 S2 Q1 m -> (forall a, Q1 a -> lq Phi c S2 S3 Q (f a)) -> lq Phi c S1 S3 Q (vbind m f).
Proof.
  intros Phi c A B S1 S2 S3 Q1 Q m f Hm Hf rest. eapply hto_bind; [apply Hm|]. intro a.
  intros s [Hq Hs]. apply (Hf a Hq rest s Hs).
Qed.

Lemma lq_cur_frame : forall Phi c A (S S' : Z -> Prop) (Q : A -> Prop) (F : cframe -> VM A),
  (forall cf', fr_fn cf' = FnLua c -> S (fr_pc cf') -> lq Phi c S S' Q (F cf')) -> lq Phi c S S' Q (vbind cur_frame F).
Proof.
  intros Phi c A S S' Q F H rest s Hs. unfold vbind, cur_frame.
  destruct Hs as [H1 [H2 [H3 [cf [H4 [H5 H6]]]]]]. rewrite H4.
  apply (H cf H5 H6 rest s). repeat split; auto. exists cf. auto.
Qed.

Ltac head_tac :=
  let x := fresh "x" in let Hx := fresh "Hx" in
  intros x Hx; unfold sh in Hx; cbn [fr_pc set_pc] in Hx; unfold VM.WfFacts.pc_ok;
  match goal with Hh : W.is_head _ ?e = true |- W.is_head _ ?y = true => replace y with e by lia; exact Hh end.

Lemma lq_MOVEN_loop : forall Phi, stable Phi -> forall c (S : Z -> Prop) code lbase k pc0,
  (forall t, pc0 <= t < pc0 + Z.of_nat k -> 0 <= t < len code) ->
  lq Phi c S S (fun r => r = pc0 + Z.of_nat k) (MOVEN_loop code lbase k pc0).
Proof.
  intros Phi HP c S code lbase. induction k; intros pc0 Hr.
  - simpl. apply lq_vret; [lia|auto].
  - simpl MOVEN_loop. destruct (zth_some_range _ code pc0) as [w Hw]; [apply Hr; lia|]. rewrite Hw.
    eapply lq_bind; [apply lq_jg; [exact HP|jg_leaf_tac]|intro v].
    eapply lq_bind; [apply lq_jg; [exact HP|jg_leaf_tac]|intro].
    eapply lq_weaken; [apply (IHk (pc0 + 1)); intros t Ht; apply Hr; lia|auto|auto|intros a9 Ha9; cbv beta in *; rewrite Nat2Z.inj_succ; lia].
Qed.

Section Ops.
Variable ml : option nat -> VM unit.
Variable gf : builtin -> VM Z.
Hypothesis Hml : ml_safeP ml.
Hypothesis Hgf : forall b, jg (gf b).
Variable Phi : vstate -> Prop.
Hypothesis HP : stable Phi.
Variable c : nat.

Lemma exec_op_lq : forall cl cf inst base o,
  closure_ok cl -> xp_nregs (cl_proto cl) <= W.frame_limit -> 0 <= fr_pc cf - 1 ->
  op_of_code (opGetOpCode inst) = Some o ->
  W.inst_ok (fn_of (cl_proto cl)) (W.tags_of (fn_of (cl_proto cl))) (fr_pc cf - 1) inst = true ->
  fr_fn cf = FnLua c ->
  o <> OP_CALL -> o <> OP_TAILCALL -> o <> OP_RETURN -> o <> OP_CLOSURE ->
  lq Phi c (eq (fr_pc cf)) (VM.WfFacts.pc_ok (fn_of (cl_proto cl))) (fun r => r = false) (exec_op ml gf cl cf inst base).
Proof.
  intros cl cf inst base o Hcl Hregs Hpc Hop H Hfn N1 N2 N3 N4.
  destruct (fn_of_fields (cl_proto cl)) as [Hcode [Hkinds [Hnsc [Hnups [Hnup Hnregs]]]]].
  unfold exec_op. rewrite Hop. cbv zeta. unfold W.inst_ok in H. rewrite Hop in H. unfold W.group_of in H. rewrite Hop in H.
  destruct o; try congruence; cbn [W.modes_ok opProps Type_ ModeArgB ModeArgC W.mode_ok fst] in H; split_ands.
  all: try solve [lq_tac; head_tac].
  - (* MOVEN *)
    eapply lq_bind; [lq_leaf|intro v]. eapply lq_bind; [lq_leaf|intro].
    eapply lq_bind_q with (Q1 := fun pc => pc = fr_pc cf + Z.of_nat (Z.to_nat (opGetArgC inst))) (S2 := eq (fr_pc cf)).
    { apply lq_MOVEN_loop; [exact HP|]. intros t Ht.
      pose proof (VM.WfFacts.words_ok_spec _ _ _ H1 t) as Hw.
      rewrite Z2Nat.id in * by apply getC_nonneg.
      specialize (Hw ltac:(lia)).
      apply VM.WfFacts.moven_tail_facts in Hw. destruct Hw as [Hr _].
      rewrite Hcode in Hr. rewrite plen_eq in Hr. exact Hr. }
    intros pc ->. rewrite Z2Nat.id by apply getC_nonneg.
    eapply lq_bind; [apply lq_set_cur_frame; [exact HP|exact Hfn]|intro]. apply lq_vret; [reflexivity|]. head_tac.
  - (* LOADK *)
    destruct (const_in_range (cl_proto cl) (opGetArgBx inst) (getBx_nonneg inst) H) as [v Hv].
    rewrite Hv. lq_tac; head_tac.
  - (* LOADBOOL *)
    destruct (opGetArgC inst =? 0) eqn:EC; cbn [negb]; lq_tac; head_tac.
  - (* SETUPVAL *)
    eapply lq_bind; [lq_leaf|intro u]. eapply lq_bind; [lq_leaf|intro v].
    eapply lq_bind; [apply lq_jg; [exact HP|]|intro; lq_tac; head_tac].
    apply jg_leaf.
    + apply noob_vmod.
    + apply hp_vmod. intro s. destruct (uv_closed _); [reflexivity|apply vclos_set_thread].
    + apply sd_vmod_frames. intros s Hp. destruct (uv_closed _); [split; [exact Hp|reflexivity]|].
      apply set_thread_frames; [exact Hp|apply par_get_thread; exact Hp|].
      intro E. cbn [th_stack]. rewrite E. apply get_thread_cur_stack.
    + apply px_vmod. intro s. destruct (uv_closed _); [reflexivity|apply vclos_set_thread].
  - (* UNM *)
    rewrite (rkValue_reg _ _ _ (getB_nonneg inst) Hregs H). lq_tac; head_tac.
  - (* LEN *)
    rewrite (rkValue_reg _ _ _ (getB_nonneg inst) Hregs H). lq_tac; head_tac.
  - (* TFORLOOP *)
    replace (fr_pc cf - 1 + 1) with (fr_pc cf) in * by lia.
    pose proof (VM.WfFacts.is_head_range _ _ H4) as Hr.
    rewrite VM.WfFacts.tags_len in Hr. rewrite Hcode in Hr. rewrite plen_eq in Hr.
    destruct (zth_some_range _ (xp_code (cl_proto cl)) (fr_pc cf) Hr) as [w Hw].
    rewrite Hcode in H1. rewrite (word_of_zth _ _ _ Hw) in H1.
    do 9 (eapply lq_bind; [lq_leaf|intro]).
    match goal with |- context [negb (is_nil ?v)] => destruct (negb (is_nil v)) end.
    + eapply lq_bind.
      * eapply lq_bind; [lq_leaf|intro]. apply lq_cur_frame. intros cf' Hf' Hpc'.
        unfold code_at. rewrite <- Hpc'. rewrite Hw.
        eapply lq_bind_q with (Q1 := fun w0 => w0 = w); [apply lq_vret; [reflexivity|intros x9 Hx9; exact Hx9]|].
        intros w0 ->. apply lq_add_pc. exact HP.
      * intro. eapply lq_bind; [lq_leaf|intro]. apply lq_vret; [reflexivity|head_tac].
    + lq_tac; head_tac.
  - (* SETLIST *)
    destruct (opGetArgC inst =? 0) eqn:EC; cbn [fst] in *.
    + split_ands. replace (fr_pc cf - 1 + 1) with (fr_pc cf) in * by lia.
      match goal with Hx : W.tag_is _ _ 3 = true |- _ => pose proof (VM.WfFacts.tag_is_range _ _ _ Hx) as Ht end.
      rewrite VM.WfFacts.tags_len in Ht. rewrite Hcode in Ht. rewrite plen_eq in Ht.
      destruct (zth_some_range _ (xp_code (cl_proto cl)) (fr_pc cf) Ht) as [w Hw].
      unfold code_at. rewrite Hw. lq_tac; head_tac.
    + lq_tac; head_tac.
Qed.
End Ops.

(* exec_op_lq in plain words: at an accepted instruction that is not CALL / TAILCALL / RETURN /
   CLOSURE, started in a state with a well-formed heap, no resumer, the side condition Phi and the
   executed frame cf on top of the frames [rest]: no out-of-range fault; the instruction continues
   the loop with heap, threads and Phi in order, the same frames below, and the current frame still
   a frame of the same closure standing AT AN INSTRUCTION HEAD; an error leaves [rest] at the bottom. *)
Theorem exec_op_step_safe_lemma : forall ml gf, ml_safeP ml -> (forall b, jg (gf b)) ->
  forall Phi, stable Phi -> forall c cl cf inst base o rest s,
  closure_ok cl -> xp_nregs (cl_proto cl) <= W.frame_limit -> 0 <= fr_pc cf - 1 ->
  op_of_code (opGetOpCode inst) = Some o ->
  W.inst_ok (fn_of (cl_proto cl)) (W.tags_of (fn_of (cl_proto cl))) (fr_pc cf - 1) inst = true ->
  fr_fn cf = FnLua c ->
  o <> OP_CALL -> o <> OP_TAILCALL -> o <> OP_RETURN -> o <> OP_CLOSURE ->
  heap_ok s -> par_ok s -> Phi s -> vstack s = cf :: rest ->
  match exec_op ml gf cl cf inst base s with
  | VRet r s' => r = false /\ heap_ok s' /\ par_ok s' /\ Phi s' /\
                 exists cf', vstack s' = cf' :: rest /\ fr_fn cf' = FnLua c /\
                             VM.WfFacts.pc_ok (fn_of (cl_proto cl)) (fr_pc cf')
  | VErr _ s' => heap_ok s' /\ par_ok s' /\ Phi s' /\ exists k, vstack s' = k ++ rest
  | VFuel => True
  | VUnsup x => oob x = false
  end.
Proof.
  intros ml gf Hml Hgf Phi HP c cl cf inst base o rest s Hcl Hregs Hpc Hop Hok Hfn N1 N2 N3 N4 H1 H2 H3 H4.
  pose proof (exec_op_lq ml gf Hml Phi HP c cl cf inst base o Hcl Hregs Hpc Hop Hok Hfn N1 N2 N3 N4 rest s) as H.
  assert (Hm : midg Phi rest c (eq (fr_pc cf)) s) by (repeat split; auto; exists cf; auto).
  specialize (H Hm). destruct (exec_op ml gf cl cf inst base s); auto.
Qed.
