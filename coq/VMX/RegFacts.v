(* M-VM: facts about the register array operations (registry of _state.go as transcribed in
   VMX/Machine.v) and about the register-window arithmetic of frame set-up and return
   (initCallFrame, copyReturnValues, CopyRange, FillNil). All statements are for arbitrary
   registries and arbitrary (non-negative) positions and counts. *)
From Coq Require Import Floats Lia ZifyBool.
From GL Require Import Common.Bytes Lua.Syntax Lua.Num Lua.Values Lua.Names Lua.Eval.
From GL Require Import VMX.Machine VMX.Step VMX.Spec.

(* ---------- reading after writing ---------- *)
Lemma nth_wr_nat_same : forall i a c, nth i (wr_nat a i c) None = c.
Proof. induction i; destruct a; simpl; auto. Qed.

Lemma nth_wr_nat_other : forall i a j c, i <> j -> nth j (wr_nat a i c) None = nth j a None.
Proof.
  induction i; destruct a; destruct j; simpl; intros; try congruence; auto.
  - destruct j; reflexivity.
  - rewrite IHi by congruence. destruct j; reflexivity.
Qed.

Lemma rd_neg : forall a x, x < 0 -> rd a x = None.
Proof. intros. unfold rd. destruct (x <? 0) eqn:E; [reflexivity|lia]. Qed.

Lemma rd_wr : forall a i c x, 0 <= i -> rd (wr a i c) x = if x =? i then c else rd a x.
Proof.
  intros a i c x Hi. unfold rd, wr.
  destruct (i <? 0) eqn:Ei; [lia|].
  destruct (x <? 0) eqn:Ex.
  - destruct (x =? i) eqn:E; [lia|reflexivity].
  - destruct (x =? i) eqn:E.
    + assert (x = i) by lia. subst. apply nth_wr_nat_same.
    + apply nth_wr_nat_other. intro H. apply Z2Nat.inj in H; lia.
Qed.

Lemma nth_tl : forall (a : list cell) j, nth j (tl a) None = nth (S j) a None.
Proof. destruct a; simpl; intros; [destruct j; reflexivity|reflexivity]. Qed.

Lemma nth_fill0 : forall n a c j, nth j (fill0 a n c) None = if (j <? n)%nat then c else nth j a None.
Proof.
  induction n; intros a c j; simpl.
  - reflexivity.
  - destruct j; simpl; [reflexivity|].
    rewrite IHn. rewrite nth_tl.
    destruct (j <? n)%nat eqn:E; destruct (S j <? S n)%nat eqn:E2; try reflexivity;
      apply Nat.ltb_lt in E || apply Nat.ltb_ge in E; apply Nat.ltb_lt in E2 || apply Nat.ltb_ge in E2; lia.
Qed.

Lemma nth_nil_cell : forall j, nth j (@nil cell) None = None.
Proof. destruct j; reflexivity. Qed.

Lemma nth_fill_nat : forall lo a n c j,
  nth j (fill_nat a lo n c) None = if ((lo <=? j) && (j <? lo + n))%nat then c else nth j a None.
Proof.
  induction lo; intros a n c j.
  - simpl fill_nat. rewrite nth_fill0. simpl. reflexivity.
  - destruct a as [|x t]; simpl fill_nat.
    + destruct n.
      * rewrite nth_nil_cell.
        destruct ((S lo <=? j) && (j <? S lo + 0))%nat eqn:E; [|reflexivity].
        apply andb_true_iff in E. destruct E as [E1 E2].
        apply Nat.leb_le in E1. apply Nat.ltb_lt in E2. lia.
      * destruct j; simpl; [reflexivity|].
        rewrite IHlo. rewrite nth_nil_cell. reflexivity.
    + destruct j; simpl; [reflexivity|]. rewrite IHlo. reflexivity.
Qed.

Lemma rd_fill : forall a lo hi c x,
  rd (fill a lo hi c) x = if (0 <=? lo) && (lo <=? x) && (x <? hi) then c else rd a x.
Proof.
  intros. unfold fill.
  destruct ((lo <? 0) || (hi <=? lo)) eqn:E.
  - destruct ((0 <=? lo) && (lo <=? x) && (x <? hi)) eqn:E2; [lia|reflexivity].
  - unfold rd. destruct (x <? 0) eqn:Ex.
    + destruct ((0 <=? lo) && (lo <=? x) && (x <? hi)) eqn:E2; [lia|reflexivity].
    + rewrite nth_fill_nat.
      destruct ((Z.to_nat lo <=? Z.to_nat x) && (Z.to_nat x <? Z.to_nat lo + Z.to_nat (hi - lo)))%nat eqn:E1;
      destruct ((0 <=? lo) && (lo <=? x) && (x <? hi)) eqn:E2; try reflexivity; exfalso.
      * apply andb_true_iff in E1. destruct E1 as [A B]. apply Nat.leb_le in A. apply Nat.ltb_lt in B. lia.
      * apply andb_false_iff in E1. destruct E1 as [A|B]; [apply Nat.leb_gt in A|apply Nat.ltb_ge in B]; lia.
Qed.

(* ---------- SetTop, Set, Push, Pop ---------- *)
Lemma SetTop_top : forall r t, rtop (SetTop r t) = t.
Proof. reflexivity. Qed.

Lemma SetTop_rd : forall r t x, 0 <= rtop r -> 0 <= t ->
  rd (arr (SetTop r t)) x =
    if (rtop r <=? x) && (x <? t) then cNil
    else if (t <=? x) && (x <? rtop r) then None
    else rd (arr r) x.
Proof.
  intros. unfold SetTop. simpl. rewrite !rd_fill.
  destruct ((0 <=? t) && (t <=? x) && (x <? rtop r)) eqn:E1;
  destruct ((0 <=? rtop r) && (rtop r <=? x) && (x <? t)) eqn:E2;
  destruct ((rtop r <=? x) && (x <? t)) eqn:E3;
  destruct ((t <=? x) && (x <? rtop r)) eqn:E4; try reflexivity; lia.
Qed.

Lemma Set_rd : forall r i v x, 0 <= i -> rd (arr (Set_ r i v)) x = if x =? i then Some v else rd (arr r) x.
Proof. intros. unfold Set_, SetCell. simpl. apply rd_wr; assumption. Qed.

Lemma Set_top : forall r i v, rtop (Set_ r i v) = if i >=? rtop r then i + 1 else rtop r.
Proof. reflexivity. Qed.

Lemma Push_rd : forall r v x, 0 <= rtop r ->
  rd (arr (Push r v)) x = if x =? rtop r then Some v else rd (arr r) x.
Proof. intros. unfold Push. simpl. apply rd_wr; assumption. Qed.

(* a Push followed by a Pop gives the value back and restores every cell below the top *)
Lemma Pop_Push : forall r v, 0 <= rtop r ->
  fst (Pop (Push r v)) = Some v /\ rtop (snd (Pop (Push r v))) = rtop r /\
  forall x, x < rtop r -> rd (arr (snd (Pop (Push r v)))) x = rd (arr r) x.
Proof.
  intros r v H. unfold Pop, Push. simpl.
  replace (rtop r + 1 - 1) with (rtop r) by lia.
  split; [|split].
  - rewrite rd_wr by assumption. rewrite Z.eqb_refl. reflexivity.
  - reflexivity.
  - intros x Hx. rewrite !rd_wr by assumption.
    destruct (x =? rtop r) eqn:E; [lia|reflexivity].
Qed.

(* ---------- FillNil ---------- *)
Theorem FillNil_spec : forall r regm n, 0 <= regm -> 0 <= n ->
  rtop (FillNil r regm n) = regm + n /\
  forall x, rd (arr (FillNil r regm n)) x =
    if (regm <=? x) && (x <? regm + n) then cNil                 (* the window is nil *)
    else if (regm + n <=? x) && (x <? rtop r) then None          (* cells above the new top are cleared *)
    else rd (arr r) x.                                           (* everything else is unchanged *)
Proof.
  intros r regm n H1 H2. split; [reflexivity|].
  intro x. unfold FillNil. simpl. rewrite !rd_fill.
  destruct ((0 <=? regm + n) && (regm + n <=? x) && (x <? rtop r)) eqn:E1;
  destruct ((0 <=? regm) && (regm <=? x) && (x <? regm + n)) eqn:E2;
  destruct ((regm <=? x) && (x <? regm + n)) eqn:E3;
  destruct ((regm + n <=? x) && (x <? rtop r)) eqn:E4; try reflexivity; lia.
Qed.

(* ---------- CopyRange ---------- *)
Lemma copyLoop_rd : forall k a regv start limit i0 x,
  0 <= regv -> 0 <= i0 -> regv <= start ->
  rd (copyLoop a regv start limit i0 k) x =
    if (regv + i0 <=? x) && (x <? regv + i0 + Z.of_nat k)
    then src_cell a start limit (x - regv)
    else rd a x.
Proof.
  induction k; intros a regv start limit i0 x Hr Hi Hs.
  - simpl. destruct ((regv + i0 <=? x) && (x <? regv + i0 + 0)) eqn:E; [lia|reflexivity].
  - simpl copyLoop. rewrite IHk by lia.
    set (c := if (start + i0 >=? limit) || (start + i0 <? 0) then cNil else rd a (start + i0)).
    destruct ((regv + (i0 + 1) <=? x) && (x <? regv + (i0 + 1) + Z.of_nat k)) eqn:E1.
    + destruct ((regv + i0 <=? x) && (x <? regv + i0 + Z.of_nat (S k))) eqn:E2; [|lia].
      unfold src_cell.
      destruct ((start + (x - regv) >=? limit) || (start + (x - regv) <? 0)); [reflexivity|].
      rewrite rd_wr by lia.
      destruct (start + (x - regv) =? regv + i0) eqn:E3; [lia|reflexivity].
    + rewrite rd_wr by lia.
      destruct (x =? regv + i0) eqn:E3.
      * destruct ((regv + i0 <=? x) && (x <? regv + i0 + Z.of_nat (S k))) eqn:E2; [|lia].
        unfold src_cell, c. replace (x - regv) with i0 by lia. reflexivity.
      * destruct ((regv + i0 <=? x) && (x <? regv + i0 + Z.of_nat (S k))) eqn:E2; [lia|reflexivity].
Qed.

(* moving a range down (regv <= start, as every call site does): cell regv+i receives cell start+i
   or nil beyond the limit; cells between the new and the old top are cleared; nothing else changes *)
Theorem CopyRange_spec : forall r regv start limit n,
  0 <= regv -> regv <= start -> 0 <= n ->
  rtop (CopyRange r regv start limit n) = regv + n /\
  forall x, rd (arr (CopyRange r regv start limit n)) x =
    if (regv <=? x) && (x <? regv + n) then src_cell (arr r) start (eff_limit r limit) (x - regv)
    else if (regv + n <=? x) && (x <? rtop r) then None
    else rd (arr r) x.
Proof.
  intros r regv start limit n H1 H2 H3. split; [reflexivity|].
  intro x. unfold CopyRange. simpl. rewrite rd_fill. rewrite copyLoop_rd by lia.
  fold (eff_limit r limit). rewrite Z2Nat.id by lia.
  destruct ((0 <=? regv + n) && (regv + n <=? x) && (x <? rtop r)) eqn:E1;
  destruct ((regv + 0 <=? x) && (x <? regv + 0 + n)) eqn:E2;
  destruct ((regv <=? x) && (x <? regv + n)) eqn:E3;
  destruct ((regv + n <=? x) && (x <? rtop r)) eqn:E4; try reflexivity; lia.
Qed.

(* ---------- windows as lists ---------- *)
Lemma cells_from_length : forall n a lo, length (cells_from a lo n) = n.
Proof. induction n; simpl; intros; auto. Qed.

Lemma cells_from_nth : forall n a lo i, (i < n)%nat ->
  nth i (cells_from a lo n) None = rd a (lo + Z.of_nat i).
Proof.
  induction n; intros a lo i Hi; [lia|].
  simpl. destruct i.
  - f_equal. lia.
  - rewrite IHn by lia. f_equal. lia.
Qed.

Lemma cells_from_ext : forall n a b lo lo',
  (forall i, 0 <= i < Z.of_nat n -> rd a (lo + i) = rd b (lo' + i)) ->
  cells_from a lo n = cells_from b lo' n.
Proof.
  induction n; intros a b lo lo' H; [reflexivity|].
  simpl. f_equal.
  - specialize (H 0). rewrite !Z.add_0_r in H. apply H. lia.
  - apply IHn. intros i Hi. replace (lo + 1 + i) with (lo + (i + 1)) by lia.
    replace (lo' + 1 + i) with (lo' + (i + 1)) by lia. apply H. lia.
Qed.

Lemma cells_from_eq_list : forall (l : list cell) a lo,
  (forall i, (i < length l)%nat -> rd a (lo + Z.of_nat i) = nth i l None) ->
  cells_from a lo (length l) = l.
Proof.
  induction l; intros b lo H; [reflexivity|].
  simpl. f_equal.
  - specialize (H 0%nat). simpl in H. rewrite Z.add_0_r in H. apply H. lia.
  - apply IHl. intros i Hi. specialize (H (S i)). simpl nth in H. rewrite <- H by (simpl; lia).
    f_equal. lia.
Qed.

Lemma adjust_length : forall n vs, length (adjust n vs) = n.
Proof. induction n; destruct vs; simpl; auto. Qed.

Lemma adjust_nth : forall n vs i, (i < n)%nat -> nth i (adjust n vs) VNil = nth i vs VNil.
Proof.
  induction n; intros vs i Hi; [lia|].
  destruct vs; simpl.
  - destruct i; [reflexivity|]. rewrite IHn by lia. destruct i; reflexivity.
  - destruct i; [reflexivity|]. apply IHn. lia.
Qed.

Lemma nth_map_some : forall (vs : list value) i, (i < length vs)%nat ->
  nth i (map Some vs) None = Some (nth i vs VNil).
Proof. induction vs; intros i Hi; simpl in *; [lia|]. destruct i; [reflexivity|]. apply IHvs. lia. Qed.

Lemma nth_skipn_v : forall (l : list value) n i, nth i (skipn n l) VNil = nth (n + i) l VNil.
Proof.
  induction l; intros n i; destruct n; simpl; try reflexivity.
  - destruct i; reflexivity.
  - apply IHl.
Qed.

Lemma window_is_rd : forall a lo vs i, window_is a lo vs -> (i < length vs)%nat ->
  rd a (lo + Z.of_nat i) = Some (nth i vs VNil).
Proof.
  intros a lo vs i H Hi. rewrite <- cells_from_nth with (n := length vs) by assumption.
  rewrite H. apply nth_map_some. assumption.
Qed.

Lemma window_is_intro : forall a lo vs,
  (forall i, (i < length vs)%nat -> rd a (lo + Z.of_nat i) = Some (nth i vs VNil)) ->
  window_is a lo vs.
Proof.
  intros a lo vs H. unfold window_is.
  rewrite <- (map_length Some vs). apply cells_from_eq_list.
  intros i Hi. rewrite map_length in Hi. rewrite H by assumption. symmetry. apply nth_map_some. assumption.
Qed.

(* CopyRange delivers exactly [adjust n] of the values that lie between start and the limit *)
Theorem CopyRange_adjust : forall r regv start limit n vs,
  0 <= regv -> regv <= start -> 0 <= n ->
  start + len vs = eff_limit r limit ->
  window_is (arr r) start vs ->
  window_is (arr (CopyRange r regv start limit n)) regv (adjust (Z.to_nat n) vs).
Proof.
  intros r regv start limit n vs H1 H2 H3 Hl Hw.
  apply window_is_intro. rewrite adjust_length. intros i Hi.
  destruct (CopyRange_spec r regv start limit n H1 H2 H3) as [_ Hrd].
  rewrite Hrd.
  destruct ((regv <=? regv + Z.of_nat i) && (regv + Z.of_nat i <? regv + n)) eqn:E; [|lia].
  rewrite adjust_nth by assumption.
  unfold src_cell. replace (regv + Z.of_nat i - regv) with (Z.of_nat i) by lia.
  unfold len in Hl.
  destruct ((start + Z.of_nat i >=? eff_limit r limit) || (start + Z.of_nat i <? 0)) eqn:E2.
  - assert (length vs <= i)%nat by lia. rewrite nth_overflow by assumption. reflexivity.
  - apply window_is_rd; [assumption|lia].
Qed.

(* ---------- copyReturnValues ---------- *)
(* [b] is the B operand of OP_RETURN: b = 0 means "everything up to the top", otherwise b-1 values.
   The result window is [adjust n] of the returned values, the registry ends right above it, the
   cells between the new and the old top are cleared and nothing below regv changes. *)
Theorem copyReturnValues_spec : forall r regv start n b vs,
  0 <= regv -> regv <= start -> 0 <= n -> 0 <= b ->
  (if b =? 0 then start + len vs = rtop r else len vs = b - 1 /\ start + len vs <= rtop r) ->
  window_is (arr r) start vs ->
  let r' := copyReturnValues r regv start n b in
  rtop r' = regv + n /\
  window_is (arr r') regv (adjust (Z.to_nat n) vs) /\
  (forall x, x < regv -> rd (arr r') x = rd (arr r) x) /\
  (forall x, regv + n <= x < rtop r -> rd (arr r') x = None).
Proof.
  intros r regv start n b vs H1 H2 H3 Hb Hlen Hw. unfold copyReturnValues. unfold len in Hlen.
  destruct (b =? 1) eqn:Eb1.
  - (* no values: the window is filled with nil *)
    assert (b = 1) by lia. subst b. simpl in Hlen. destruct Hlen as [Hl _].
    assert (vs = []) by (destruct vs; [reflexivity|simpl in Hl; lia]). subst vs.
    destruct (FillNil_spec r regv n H1 H3) as [Ht Hrd]. cbv zeta.
    split; [assumption|]. split; [|split].
    + apply window_is_intro. rewrite adjust_length. intros i Hi.
      rewrite Hrd. destruct ((regv <=? regv + Z.of_nat i) && (regv + Z.of_nat i <? regv + n)) eqn:E; [|lia].
      rewrite adjust_nth by assumption. destruct i; reflexivity.
    + intros x Hx. rewrite Hrd.
      destruct ((regv <=? x) && (x <? regv + n)) eqn:E; [lia|].
      destruct ((regv + n <=? x) && (x <? rtop r)) eqn:E2; [lia|reflexivity].
    + intros x Hx. rewrite Hrd.
      destruct ((regv <=? x) && (x <? regv + n)) eqn:E; [lia|].
      destruct ((regv + n <=? x) && (x <? rtop r)) eqn:E2; [reflexivity|lia].
  - destruct (CopyRange_spec r regv start (-1) n H1 H2 H3) as [Ht Hrd].
    assert (Hel : eff_limit r (-1) = rtop r) by reflexivity.
    destruct ((b >? 1) && (n >? b - 1)) eqn:Ebn.
    + (* closed encoding with fewer values than wanted: copy, then nil the rest *)
      assert (Hb0 : (b =? 0) = false) by lia. rewrite Hb0 in Hlen. destruct Hlen as [Hl Hle].
      set (r1 := CopyRange r regv start (-1) n) in *.
      destruct (FillNil_spec r1 (regv + b - 1) (n - (b - 1))) as [Ht2 Hrd2]; [lia|lia|].
      cbv zeta. split; [rewrite Ht2; lia|]. split; [|split].
      * apply window_is_intro. rewrite adjust_length. intros i Hi.
        rewrite Hrd2. rewrite adjust_nth by assumption.
        destruct ((regv + b - 1 <=? regv + Z.of_nat i) && (regv + Z.of_nat i <? regv + b - 1 + (n - (b - 1)))) eqn:E.
        -- rewrite nth_overflow by lia. reflexivity.
        -- destruct ((regv + b - 1 + (n - (b - 1)) <=? regv + Z.of_nat i) && (regv + Z.of_nat i <? rtop r1)) eqn:E2; [lia|].
           rewrite Hrd.
           destruct ((regv <=? regv + Z.of_nat i) && (regv + Z.of_nat i <? regv + n)) eqn:E3; [|lia].
           unfold src_cell. rewrite Hel. replace (regv + Z.of_nat i - regv) with (Z.of_nat i) by lia.
           destruct ((start + Z.of_nat i >=? rtop r) || (start + Z.of_nat i <? 0)) eqn:E4; [lia|].
           apply window_is_rd; [assumption|lia].
      * intros x Hx. rewrite Hrd2.
        destruct ((regv + b - 1 <=? x) && (x <? regv + b - 1 + (n - (b - 1)))) eqn:E; [lia|].
        destruct ((regv + b - 1 + (n - (b - 1)) <=? x) && (x <? rtop r1)) eqn:E2; [lia|].
        rewrite Hrd. destruct ((regv <=? x) && (x <? regv + n)) eqn:E3; [lia|].
        destruct ((regv + n <=? x) && (x <? rtop r)) eqn:E4; [lia|reflexivity].
      * intros x Hx. rewrite Hrd2.
        destruct ((regv + b - 1 <=? x) && (x <? regv + b - 1 + (n - (b - 1)))) eqn:E; [lia|].
        destruct ((regv + b - 1 + (n - (b - 1)) <=? x) && (x <? rtop r1)) eqn:E2; [reflexivity|].
        rewrite Hrd. destruct ((regv <=? x) && (x <? regv + n)) eqn:E3; [lia|].
        destruct ((regv + n <=? x) && (x <? rtop r)) eqn:E4; [reflexivity|lia].
    + (* open encoding, or at least as many values as wanted *)
      cbv zeta. split; [assumption|]. split; [|split].
      * apply window_is_intro. rewrite adjust_length. intros i Hi.
        rewrite Hrd.
        destruct ((regv <=? regv + Z.of_nat i) && (regv + Z.of_nat i <? regv + n)) eqn:E3; [|lia].
        rewrite adjust_nth by assumption.
        unfold src_cell. rewrite Hel. replace (regv + Z.of_nat i - regv) with (Z.of_nat i) by lia.
        destruct (b =? 0) eqn:Eb0.
        -- destruct ((start + Z.of_nat i >=? rtop r) || (start + Z.of_nat i <? 0)) eqn:E4.
           ++ rewrite nth_overflow by lia. reflexivity.
           ++ apply window_is_rd; [assumption|lia].
        -- destruct Hlen as [Hl Hle].
           destruct ((start + Z.of_nat i >=? rtop r) || (start + Z.of_nat i <? 0)) eqn:E4; [lia|].
           apply window_is_rd; [assumption|lia].
      * intros x Hx. rewrite Hrd. destruct ((regv <=? x) && (x <? regv + n)) eqn:E3; [lia|].
        destruct ((regv + n <=? x) && (x <? rtop r)) eqn:E4; [lia|reflexivity].
      * intros x Hx. rewrite Hrd. destruct ((regv <=? x) && (x <? regv + n)) eqn:E3; [lia|].
        destruct ((regv + n <=? x) && (x <? rtop r)) eqn:E4; [reflexivity|lia].
Qed.

(* ---------- initCallFrame ---------- *)
Lemma swapLoop_rd : forall k a lb nargs i0 x,
  0 <= lb -> 0 <= i0 -> i0 + Z.of_nat k <= nargs ->
  rd (swapLoop a lb nargs i0 k) x =
    if (lb + nargs + i0 <=? x) && (x <? lb + nargs + i0 + Z.of_nat k) then rd a (x - nargs)
    else if (lb + i0 <=? x) && (x <? lb + i0 + Z.of_nat k) then cNil
    else rd a x.
Proof.
  induction k; intros a lb nargs i0 x Hlb Hi Hn.
  - simpl. destruct ((lb + nargs + i0 <=? x) && (x <? lb + nargs + i0 + 0)) eqn:E1; [lia|].
    destruct ((lb + i0 <=? x) && (x <? lb + i0 + 0)) eqn:E2; [lia|reflexivity].
  - simpl swapLoop. rewrite IHk by lia.
    destruct ((lb + nargs + (i0 + 1) <=? x) && (x <? lb + nargs + (i0 + 1) + Z.of_nat k)) eqn:E1.
    + destruct ((lb + nargs + i0 <=? x) && (x <? lb + nargs + i0 + Z.of_nat (S k))) eqn:E2; [|lia].
      rewrite !rd_wr by lia.
      destruct (x - nargs =? lb + i0) eqn:E3; [lia|].
      destruct (x - nargs =? lb + nargs + i0) eqn:E4; [lia|reflexivity].
    + destruct ((lb + (i0 + 1) <=? x) && (x <? lb + (i0 + 1) + Z.of_nat k)) eqn:E2.
      * destruct ((lb + nargs + i0 <=? x) && (x <? lb + nargs + i0 + Z.of_nat (S k))) eqn:E3; [lia|].
        destruct ((lb + i0 <=? x) && (x <? lb + i0 + Z.of_nat (S k))) eqn:E4; [reflexivity|lia].
      * rewrite !rd_wr by lia.
        destruct (x =? lb + i0) eqn:E3.
        -- destruct ((lb + nargs + i0 <=? x) && (x <? lb + nargs + i0 + Z.of_nat (S k))) eqn:E4; [lia|].
           destruct ((lb + i0 <=? x) && (x <? lb + i0 + Z.of_nat (S k))) eqn:E5; [reflexivity|lia].
        -- destruct (x =? lb + nargs + i0) eqn:E4.
           ++ destruct ((lb + nargs + i0 <=? x) && (x <? lb + nargs + i0 + Z.of_nat (S k))) eqn:E5; [|lia].
              f_equal. lia.
           ++ destruct ((lb + nargs + i0 <=? x) && (x <? lb + nargs + i0 + Z.of_nat (S k))) eqn:E5; [lia|].
              destruct ((lb + i0 <=? x) && (x <? lb + i0 + Z.of_nat (S k))) eqn:E6; [lia|reflexivity].
Qed.

Lemma icf_pad_spec : forall np nargs lb r,
  0 <= np -> 0 <= nargs -> 0 <= lb ->
  let '(r1, nargs1) := icf_pad np nargs lb r in
  nargs1 = Z.max nargs np /\
  (nargs < np -> rtop r1 = lb + np) /\ (np <= nargs -> rtop r1 = rtop r) /\
  forall x, rd (arr r1) x = if (lb + nargs <=? x) && (x <? lb + np) then cNil else rd (arr r) x.
Proof.
  intros np nargs lb r H1 H2 H3. unfold icf_pad.
  destruct (nargs <? np) eqn:E.
  - split; [lia|]. split; [intros; reflexivity|]. split; [intros; lia|].
    intro x. simpl. rewrite rd_fill.
    destruct ((0 <=? lb + nargs) && (lb + nargs <=? x) && (x <? lb + np)) eqn:E1;
    destruct ((lb + nargs <=? x) && (x <? lb + np)) eqn:E2; try reflexivity; lia.
  - split; [lia|]. split; [intros; lia|]. split; [intros; reflexivity|].
    intro x. destruct ((lb + nargs <=? x) && (x <? lb + np)) eqn:E2; [lia|reflexivity].
Qed.

(* a function without `...`: LocalBase stays, the fixed parameters are the adjusted arguments,
   every other register of the frame is nil, the registry ends at LocalBase+NumUsedRegisters,
   nothing below LocalBase (in particular nothing below Base) changes *)
Theorem initCallFrame_fixed_spec : forall np nregs vararg nargs lb argtb r args,
  0 <= np -> np <= nregs -> 0 <= lb -> len args = nargs ->
  Z.land vararg VarArgIsVarArg = 0 ->
  window_is (arr r) lb args ->
  let '(r', lb') := initCallFrame_regs np nregs vararg nargs lb argtb r in
  lb' = lb /\ rtop r' = lb + nregs /\
  window_is (arr r') lb (adjust (Z.to_nat np) args) /\
  (forall x, lb + np <= x < lb + nregs -> rd (arr r') x = cNil) /\
  (forall x, x < lb -> rd (arr r') x = rd (arr r) x).
Proof.
  intros np nregs vararg nargs lb argtb r args Hnp Hnr Hlb Hlen Hva Hw.
  assert (Hna : 0 <= nargs) by (unfold len in Hlen; lia).
  unfold initCallFrame_regs.
  pose proof (icf_pad_spec np nargs lb r Hnp Hna Hlb) as Hpad.
  destruct (icf_pad np nargs lb r) as [r1 nargs1]. destruct Hpad as [Hn1 [_ [_ Hrd1]]].
  unfold icf_body. rewrite Hva. simpl (0 =? 0).
  cbv iota. split; [reflexivity|]. split; [reflexivity|].
  set (nargs' := if nargs1 <? nregs then nregs else nargs1).
  assert (Hrd : forall x, rd (fill (arr r1) (lb + np) (lb + nargs') cNil) x =
                 if (lb + np <=? x) && (x <? lb + nargs') then cNil else rd (arr r1) x).
  { intro x. rewrite rd_fill.
    destruct ((0 <=? lb + np) && (lb + np <=? x) && (x <? lb + nargs')) eqn:E1;
    destruct ((lb + np <=? x) && (x <? lb + nargs')) eqn:E2; try reflexivity; lia. }
  simpl arr. split; [|split].
  - apply window_is_intro. rewrite adjust_length. intros i Hi.
    rewrite Hrd. destruct ((lb + np <=? lb + Z.of_nat i) && (lb + Z.of_nat i <? lb + nargs')) eqn:E; [lia|].
    rewrite Hrd1. rewrite adjust_nth by assumption.
    destruct ((lb + nargs <=? lb + Z.of_nat i) && (lb + Z.of_nat i <? lb + np)) eqn:E2.
    + rewrite nth_overflow by (unfold len in Hlen; lia). reflexivity.
    + apply window_is_rd; [assumption|unfold len in Hlen; lia].
  - intros x Hx. rewrite Hrd. unfold nargs'.
    destruct (nargs1 <? nregs) eqn:E0;
    match goal with |- (if ?c then _ else _) = _ => destruct c eqn:E end; try reflexivity; lia.
  - intros x Hx. rewrite Hrd.
    destruct ((lb + np <=? x) && (x <? lb + nargs')) eqn:E; [lia|].
    rewrite Hrd1. destruct ((lb + nargs <=? x) && (x <? lb + np)) eqn:E2; [lia|reflexivity].
Qed.

(* a vararg function: LocalBase moves above the arguments; the fixed parameters are copied to the
   new LocalBase (adjusted), the extra arguments stay where they were, right below the new
   LocalBase, the slot after the parameters receives the `arg` value, the rest of the frame is
   nil, and nothing below the old LocalBase changes. The arguments lie below the top of the
   registry (OP_CALL and callR compute nargs from the top or from registers of the caller). *)
Theorem initCallFrame_vararg_spec : forall np nregs vararg nargs lb argtb r args,
  0 <= np -> np + 1 <= nregs -> 0 <= lb -> lb + nargs <= rtop r -> len args = nargs ->
  Z.land vararg VarArgIsVarArg <> 0 ->
  window_is (arr r) lb args ->
  let '(r', lb') := initCallFrame_regs np nregs vararg nargs lb argtb r in
  lb' = lb + Z.max nargs np /\ rtop r' = lb' + nregs /\
  window_is (arr r') lb' (adjust (Z.to_nat np) args) /\
  window_is (arr r') (lb + np) (skipn (Z.to_nat np) args) /\
  rd (arr r') (lb' + np) = argtb /\
  (forall x, lb' + np + 1 <= x < lb' + nregs -> rd (arr r') x = cNil) /\
  (forall x, x < lb -> rd (arr r') x = rd (arr r) x).
Proof.
  intros np nregs vararg nargs lb argtb r args Hnp Hnr Hlb Htop Hlen Hva Hw.
  assert (Hna : 0 <= nargs) by (unfold len in Hlen; lia).
  unfold initCallFrame_regs.
  pose proof (icf_pad_spec np nargs lb r Hnp Hna Hlb) as Hpad.
  destruct (icf_pad np nargs lb r) as [r1 nargs1]. destruct Hpad as [Hn1 [Ht1a [Ht1b Hrd1]]].
  assert (Ht1 : lb + nargs1 <= rtop r1) by (destruct (Z_lt_le_dec nargs np); [rewrite Ht1a by lia|rewrite Ht1b by lia]; lia).
  unfold icf_body.
  destruct (Z.land vararg VarArgIsVarArg =? 0) eqn:Ev; [lia|].
  set (rA := SetTop r1 (lb + nargs1 + np)).
  set (a2 := swapLoop (arr rA) lb nargs1 0 (Z.to_nat np)).
  set (rB := SetTop (mkReg a2 (rtop rA)) (lb + nargs1 + np + 1)).
  set (rC := mkReg (wr (arr rB) (lb + nargs1 + np) argtb) (rtop rB)).
  split; [lia|]. split; [reflexivity|].
  assert (HtA : rtop rA = lb + nargs1 + np) by reflexivity.
  assert (HA : forall x, rd (arr rA) x =
            if (rtop r1 <=? x) && (x <? lb + nargs1 + np) then cNil
            else if (lb + nargs1 + np <=? x) && (x <? rtop r1) then None else rd (arr r1) x).
  { intro x. unfold rA. apply SetTop_rd; lia. }
  assert (H2 : forall x, rd a2 x =
            if (lb + nargs1 <=? x) && (x <? lb + nargs1 + np) then rd (arr rA) (x - nargs1)
            else if (lb <=? x) && (x <? lb + np) then cNil else rd (arr rA) x).
  { intro x. unfold a2. rewrite swapLoop_rd by lia. rewrite Z2Nat.id by lia.
    replace (lb + nargs1 + 0) with (lb + nargs1) by lia. replace (lb + 0) with lb by lia. reflexivity. }
  assert (HB : forall x, rd (arr rB) x =
            if (lb + nargs1 + np <=? x) && (x <? lb + nargs1 + np + 1) then cNil else rd a2 x).
  { intro x. unfold rB. rewrite SetTop_rd by (simpl rtop; rewrite ?HtA; lia).
    simpl rtop. simpl arr.
    destruct ((lb + nargs1 + np <=? x) && (x <? lb + nargs1 + np + 1)) eqn:E1; [reflexivity|].
    destruct ((lb + nargs1 + np + 1 <=? x) && (x <? lb + nargs1 + np)) eqn:E2; [lia|reflexivity]. }
  assert (HC : forall x, rd (arr rC) x = if x =? lb + nargs1 + np then argtb else rd (arr rB) x).
  { intro x. unfold rC. simpl. apply rd_wr. lia. }
  assert (HtC : rtop rC = lb + nargs1 + np + 1) by reflexivity.
  assert (HF : forall x, rd (arr (SetTop rC (lb + nargs1 + nregs))) x =
            if (lb + nargs1 + np + 1 <=? x) && (x <? lb + nargs1 + nregs) then cNil else rd (arr rC) x).
  { intro x. rewrite SetTop_rd by lia. rewrite HtC.
    destruct ((lb + nargs1 + np + 1 <=? x) && (x <? lb + nargs1 + nregs)) eqn:E1; [reflexivity|].
    destruct ((lb + nargs1 + nregs <=? x) && (x <? lb + nargs1 + np + 1)) eqn:E2; [lia|reflexivity]. }
  (* a cell below lb + nargs1 that is not a fixed-parameter slot keeps its value *)
  assert (Hlow : forall x, x < lb + nargs1 ->
            rd (arr (SetTop rC (lb + nargs1 + nregs))) x =
            if (lb <=? x) && (x <? lb + np) then cNil else rd (arr r1) x).
  { intros x Hx. rewrite HF.
    destruct ((lb + nargs1 + np + 1 <=? x) && (x <? lb + nargs1 + nregs)) eqn:E1; [lia|].
    rewrite HC. destruct (x =? lb + nargs1 + np) eqn:E2; [lia|].
    rewrite HB. destruct ((lb + nargs1 + np <=? x) && (x <? lb + nargs1 + np + 1)) eqn:E3; [lia|].
    rewrite H2. destruct ((lb + nargs1 <=? x) && (x <? lb + nargs1 + np)) eqn:E4; [lia|].
    destruct ((lb <=? x) && (x <? lb + np)) eqn:E5; [reflexivity|].
    rewrite HA. destruct ((rtop r1 <=? x) && (x <? lb + nargs1 + np)) eqn:E6; [lia|].
    destruct ((lb + nargs1 + np <=? x) && (x <? rtop r1)) eqn:E7; [lia|reflexivity]. }
  unfold len in Hlen.
  split; [|split; [|split; [|split]]].
  - (* the fixed parameters at the new LocalBase *)
    apply window_is_intro. rewrite adjust_length. intros i Hi.
    rewrite HF. destruct ((lb + nargs1 + np + 1 <=? lb + nargs1 + Z.of_nat i) && (lb + nargs1 + Z.of_nat i <? lb + nargs1 + nregs)) eqn:E1; [lia|].
    rewrite HC. destruct (lb + nargs1 + Z.of_nat i =? lb + nargs1 + np) eqn:E2; [lia|].
    rewrite HB. destruct ((lb + nargs1 + np <=? lb + nargs1 + Z.of_nat i) && (lb + nargs1 + Z.of_nat i <? lb + nargs1 + np + 1)) eqn:E3; [lia|].
    rewrite H2. destruct ((lb + nargs1 <=? lb + nargs1 + Z.of_nat i) && (lb + nargs1 + Z.of_nat i <? lb + nargs1 + np)) eqn:E4; [|lia].
    replace (lb + nargs1 + Z.of_nat i - nargs1) with (lb + Z.of_nat i) by lia.
    rewrite HA. rewrite adjust_nth by assumption.
    destruct ((rtop r1 <=? lb + Z.of_nat i) && (lb + Z.of_nat i <? lb + nargs1 + np)) eqn:E5; [lia|].
    destruct ((lb + nargs1 + np <=? lb + Z.of_nat i) && (lb + Z.of_nat i <? rtop r1)) eqn:E6; [lia|].
    rewrite Hrd1.
    destruct ((lb + nargs <=? lb + Z.of_nat i) && (lb + Z.of_nat i <? lb + np)) eqn:E7.
    + rewrite nth_overflow by lia. reflexivity.
    + apply window_is_rd; [assumption|lia].
  - (* the extra arguments stay in place *)
    apply window_is_intro. rewrite skipn_length. intros i Hi.
    rewrite Hlow by lia.
    destruct ((lb <=? lb + np + Z.of_nat i) && (lb + np + Z.of_nat i <? lb + np)) eqn:E1; [lia|].
    rewrite Hrd1.
    destruct ((lb + nargs <=? lb + np + Z.of_nat i) && (lb + np + Z.of_nat i <? lb + np)) eqn:E2; [lia|].
    rewrite nth_skipn_v.
    replace (lb + np + Z.of_nat i) with (lb + Z.of_nat (Z.to_nat np + i)) by lia.
    apply window_is_rd; [assumption|lia].
  - rewrite HF. destruct ((lb + nargs1 + np + 1 <=? lb + nargs1 + np) && (lb + nargs1 + np <? lb + nargs1 + nregs)) eqn:E1; [lia|].
    rewrite HC. rewrite Z.eqb_refl. reflexivity.
  - intros x Hx. rewrite HF.
    destruct ((lb + nargs1 + np + 1 <=? x) && (x <? lb + nargs1 + nregs)) eqn:E1; [reflexivity|lia].
  - intros x Hx. rewrite Hlow by lia.
    destruct ((lb <=? x) && (x <? lb + np)) eqn:E1; [lia|].
    rewrite Hrd1. destruct ((lb + nargs <=? x) && (x <? lb + np)) eqn:E2; [lia|reflexivity].
Qed.

(* both cases in one statement about the registers the callee sees *)
Theorem initCallFrame_spec : forall np nregs vararg nargs lb argtb r args,
  0 <= np -> np + 1 <= nregs -> 0 <= lb -> lb + nargs <= rtop r -> len args = nargs ->
  window_is (arr r) lb args ->
  let '(r', lb') := initCallFrame_regs np nregs vararg nargs lb argtb r in
  rtop r' = lb' + nregs /\
  window_is (arr r') lb' (adjust (Z.to_nat np) args) /\
  (forall x, lb' + np + 1 <= x < lb' + nregs -> rd (arr r') x = cNil) /\
  (forall x, x < lb -> rd (arr r') x = rd (arr r) x).
Proof.
  intros np nregs vararg nargs lb argtb r args Hnp Hnr Hlb Htop Hlen Hw.
  destruct (Z.eq_dec (Z.land vararg VarArgIsVarArg) 0) as [Hv|Hv].
  - pose proof (initCallFrame_fixed_spec np nregs vararg nargs lb argtb r args Hnp ltac:(lia) Hlb Hlen Hv Hw) as H.
    destruct (initCallFrame_regs np nregs vararg nargs lb argtb r) as [r' lb'].
    destruct H as [H1 [H2 [H3 [H4 H5]]]]. subst lb'.
    split; [assumption|]. split; [assumption|]. split; [|assumption].
    intros x Hx. apply H4. lia.
  - pose proof (initCallFrame_vararg_spec np nregs vararg nargs lb argtb r args Hnp Hnr Hlb Htop Hlen Hv Hw) as H.
    destruct (initCallFrame_regs np nregs vararg nargs lb argtb r) as [r' lb'].
    destruct H as [H1 [H2 [H3 [H4 [H5 [H6 H7]]]]]].
    split; [assumption|]. split; [assumption|]. split; assumption.
Qed.
