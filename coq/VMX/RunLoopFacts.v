(* M-VM and C07, run level: the frame-changing instructions under the run invariant
   (continuation of VMX/RunInvFacts.v). *)
From Coq Require Import Floats Lia ZifyBool.
From GL Require Import Common.Bytes Lua.Syntax Lua.Num Lua.Values Lua.Names Lua.Eval Str.StrModel.
From GL Require Import VMX.Machine VMX.Step VMX.Builtins VMX.VRun VMX.WfTie VMX.WfTieFacts VMX.RunSafe VMX.RunInv.
From GL Require Import VMX.RunSafeFacts VMX.HeapSafeFacts VMX.DiscFacts VMX.RunInvFacts.

Ltac jl HP Y :=
  match goal with |- hto _ ?m _ _ =>
    let Hj := fresh "Hj" in assert (Hj : jg m) by jg_leaf_tac; apply (Hj _ HP Y) end.

Ltac idc := let s := fresh "s" in let H := fresh "H" in intros s H; exact H.
Ltac idq := let a := fresh "a" in let s := fresh "s" in let H := fresh "H" in intros a s H; exact H.

Lemma atg_pop : forall Phi, stable Phi -> forall cf rest s,
  atg Phi (cf :: rest) s -> atg Phi rest (with_stack s (tl (vstack s))).
Proof.
  intros Phi HP cf rest s [Hh [Hp [Hf Hs]]]. split; [exact Hh|]. split; [exact Hp|].
  split; [eapply stable_vclos; [exact HP| |exact Hf]; reflexivity|]. cbn [vstack with_stack]. rewrite Hs. reflexivity.
Qed.

(* OP_RETURN under the invariant: safe, pops exactly the current frame *)
Lemma hto_do_return : forall Phi, stable Phi -> forall cf0 RA B base cf rest,
  hto (atg Phi (cf :: rest)) (do_return cf0 RA B base)
      (fun r s => atg Phi rest s /\ r = ret_flag base rest) (erg Phi rest).
Proof.
  intros Phi HP cf0 RA B base cf rest. unfold do_return.
  eapply hto_bind; [eapply hto_conseq; [jl HP (cf :: rest)|idc|idq|apply erg_cons]|intro].
  eapply hto_bind; [eapply hto_conseq; [jl HP (cf :: rest)|idc|idq|apply erg_cons]|intro top].
  cbv zeta. apply hto_vget_bind. intros s0 [Hh0 [Hp0 [Hf0 Hs0]]].
  rewrite (par_get_thread s0 (vcur s0) Hp0). cbn [andb]. rewrite Hs0.
  eapply hto_bind with (Q := fun _ s => atg Phi rest s).
  { intros s Hs. apply (atg_pop Phi HP cf rest s Hs). }
  intro. apply hto_vget_bind. intros s1 [_ [_ [_ Hs1]]]. rewrite Hs1.
  eapply hto_bind; [eapply hto_conseq; [jl HP rest|idc|idq|idc]|intro].
  intros s Hs. split; [exact Hs|]. unfold ret_flag.
  replace (length (cf :: rest) - 1)%nat with (length rest) by (cbn [length]; lia). reflexivity.
Qed.

Theorem return_step_safe_lemma : forall ml gf Phi, stable Phi ->
  forall cl cf inst base rest s,
  op_of_code (opGetOpCode inst) = Some OP_RETURN ->
  heap_ok s -> par_ok s -> Phi s -> vstack s = cf :: rest ->
  match exec_op ml gf cl cf inst base s with
  | VRet r s' => heap_ok s' /\ par_ok s' /\ Phi s' /\ vstack s' = rest /\ r = ret_flag base rest
  | VErr _ s' => heap_ok s' /\ par_ok s' /\ Phi s' /\ exists k, vstack s' = k ++ rest
  | VFuel => True
  | VUnsup x => oob x = false
  end.
Proof.
  intros ml gf Phi HP cl cf inst base rest s Hop H1 H2 H3 H4.
  unfold exec_op. rewrite Hop. cbv zeta.
  pose proof (hto_do_return Phi HP cf (fr_localbase cf + opGetArgA inst) (opGetArgB inst) base cf rest s) as H.
  assert (Ha : atg Phi (cf :: rest) s) by (repeat split; assumption).
  specialize (H Ha). destruct (do_return cf (fr_localbase cf + opGetArgA inst) (opGetArgB inst) base s); auto.
  destruct H as [[G1 [G2 [G3 G4]]] G5]. auto.
Qed.

(* without a resumer switchToParentThread does not return *)
Lemma hto_switchToParentThread : forall Phi, stable Phi -> forall n h k X,
  hto (atg Phi X) (switchToParentThread n h k) (fun _ _ => False) (erg Phi X).
Proof.
  intros Phi HP n h k X s Hs. unfold switchToParentThread. unfold vbind at 1. unfold vget.
  destruct Hs as [Hh [Hp [Hf Hs]]]. rewrite (par_get_thread s (vcur s) Hp).
  assert (Hj : jg (@fault_ unit 10)) by jg_leaf_tac.
  pose proof (Hj Phi HP X s (conj Hh (conj Hp (conj Hf Hs)))) as H. destruct (fault_ 10 s) eqn:E; auto.
  exfalso. eapply fault_not_ret. eassumption.
Qed.

Section Host.
Variable gf : builtin -> VM Z.
Hypothesis Hgf : forall b, jg (gf b).
Variable Phi : vstate -> Prop.
Hypothesis HP : stable Phi.

(* a host function's frame is popped when it returns (with the caller's frame, for a tail call) *)
Lemma hto_callGFunction : forall tailcall g X,
  hto (atg Phi (g :: X)) (callGFunction gf tailcall)
      (fun r s => r = false /\ atg Phi (if tailcall then tl X else X) s)
      (erg Phi (if tailcall then tl X else X)).
Proof.
  intros tailcall g X.
  assert (HE : forall s, erg Phi (g :: X) s -> erg Phi (if tailcall then tl X else X) s).
  { intros s H. apply erg_cons in H. destruct tailcall; [apply erg_tl|]; exact H. }
  unfold callGFunction.
  eapply hto_bind with (Q := fun f0 s => f0 = g /\ atg Phi (g :: X) s).
  { intros s Hs. unfold cur_frame. destruct Hs as [Hh [Hp [Hf Hs]]]. rewrite Hs. repeat split; auto. }
  intro f0. intros s [-> Hs]. revert s Hs.
  match goal with |- forall s, _ -> match ?m s with _ => _ end =>
    change (hto (atg Phi (g :: X)) m (fun r s => r = false /\ atg Phi (if tailcall then tl X else X) s) (erg Phi (if tailcall then tl X else X))) end.
  destruct (fr_fn g) as [c|b]; [intros s Hs; reflexivity|].
  eapply hto_bind; [eapply hto_conseq; [apply (Hgf b Phi HP (g :: X))|idc|idq|exact HE]|intro gfnret].
  eapply hto_bind with (Q := fun f1 s => f1 = g /\ atg Phi (g :: X) s).
  { intros s Hs. unfold cur_frame. destruct Hs as [Hh [Hp [Hf Hs]]]. rewrite Hs. repeat split; auto. }
  intro frame. intros s [-> Hs]. revert s Hs.
  match goal with |- forall s, _ -> match ?m s with _ => _ end =>
    change (hto (atg Phi (g :: X)) m (fun r s => r = false /\ atg Phi (if tailcall then tl X else X) s) (erg Phi (if tailcall then tl X else X))) end.
  destruct (gfnret <? 0).
  - apply hto_vget_bind. intros sy Hsy.
    assert (Hpy : par_ok sy) by (destruct Hsy as [_ [Hp _]]; exact Hp).
    rewrite (par_get_thread sy (vcur sy) Hpy). rewrite andb_false_r.
    eapply hto_bind with (Q := fun _ s => exists g', atg Phi (g' :: X) s).
    { destruct tailcall.
      - intros s [Hh [Hp [Hf Hs]]]. unfold set_cur_frame. rewrite Hs. eexists.
        split; [exact Hh|]. split; [exact Hp|]. split; [eapply stable_vclos; [exact HP| |exact Hf]; reflexivity|reflexivity].
      - intros s Hs. exists g. exact Hs. }
    intro. cbv beta. apply (hto_ex _ _ (fun g' s => atg Phi (g' :: X) s)). intro g'.
    assert (HE' : forall s, erg Phi (g' :: X) s -> erg Phi (if tailcall then tl X else X) s).
    { intros s H. apply erg_cons in H. destruct tailcall; [apply erg_tl|]; exact H. }
    eapply hto_bind; [eapply hto_conseq; [jl HP (g' :: X)|idc|idq|exact HE']|intro top].
    eapply hto_bind; [eapply hto_conseq; [jl HP (g' :: X)|idc|idq|exact HE']|intro cf].
    eapply hto_bind with (Q := fun _ _ => False).
    { eapply hto_conseq; [apply (hto_switchToParentThread Phi HP _ _ _ (g' :: X))|idc|idq|exact HE']. }
    intros u0 s [].
  - eapply hto_bind with (Q := fun _ s => exists g', atg Phi (g' :: (if tailcall then tl X else X)) s).
    { destruct tailcall.
      - intros s [Hh [Hp [Hf Hs]]]. unfold vmod. rewrite Hs. destruct X as [|c X']; cbn [tl].
        + exists g. repeat split; assumption.
        + exists g. split; [exact Hh|]. split; [exact Hp|]. split; [eapply stable_vclos; [exact HP| |exact Hf]; reflexivity|reflexivity].
      - intros s Hs. exists g. exact Hs. }
    intro. cbv beta. apply (hto_ex _ _ (fun g' s => atg Phi (g' :: (if tailcall then tl X else X)) s)). intro g'. cbv zeta.
    apply hto_vget_bind. intros s0 Hs0.
    assert (Hp0 : par_ok s0) by (destruct Hs0 as [_ [Hp _]]; exact Hp).
    rewrite (par_get_thread s0 (vcur s0) Hp0). cbn [andb].
    eapply hto_bind; [eapply hto_conseq; [jl HP (g' :: (if tailcall then tl X else X))|idc|idq|apply erg_cons]|intro].
    eapply hto_bind with (Q := fun _ s => atg Phi (if tailcall then tl X else X) s).
    { intros s Hs. apply (atg_pop Phi HP g' _ s Hs). }
    intros u0 s Hs. split; [reflexivity|exact Hs].
Qed.

End Host.

(* OP_CALL under the invariant: safe; either a good Lua frame is pushed on the unchanged frames, or
   a host function ran and its frame is gone again *)
Theorem call_step_safe_lemma : forall ml gf, (forall b, jg (gf b)) -> forall Phi, stable Phi ->
  forall cl cf inst base rest,
  op_of_code (opGetOpCode inst) = Some OP_CALL ->
  hto (atg Phi (cf :: rest)) (exec_op ml gf cl cf inst base)
      (fun r s => r = false /\
         (atg Phi (cf :: rest) s \/
          exists new, atg Phi (new :: cf :: rest) s /\ fr_good s new /\ lua_fr new))
      (erg Phi rest).
Proof.
  intros ml gf Hgf Phi HP cl cf inst base rest Hop.
  assert (HE1 : forall s, erg Phi (cf :: rest) s -> erg Phi rest s) by (intros s H; eapply erg_cons; exact H).
  unfold exec_op. rewrite Hop. cbv zeta.
  eapply hto_bind; [eapply hto_conseq; [jl HP (cf :: rest)|idc|idq|exact HE1]|intro top].
  eapply hto_bind; [eapply hto_conseq; [jl HP (cf :: rest)|idc|idq|exact HE1]|intro lv].
  eapply hto_bind; [eapply hto_conseq; [jl HP (cf :: rest)|idc|idq|exact HE1]|intro fm].
  eapply hto_bind; [eapply hto_conseq; [apply (hto_pushCallFrame Phi HP)|idc|idq|exact HE1]|intro].
  cbv beta. apply (hto_ex _ _ (fun new s => (atg Phi (new :: cf :: rest) s /\ fr_good s new) /\ fst fm = Some (fr_fn new))). intro new.
  apply hto_pure. intro Hfm. rewrite Hfm.
  destruct (fr_fn new) as [c|b] eqn:Enew.
  - intros s [Ha Hg]. split; [reflexivity|]. right. exists new. split; [exact Ha|]. split; [exact Hg|].
    unfold lua_fr. rewrite Enew. reflexivity.
  - eapply hto_conseq; [apply (hto_callGFunction gf Hgf Phi HP false new (cf :: rest))|intros s [Ha _]; exact Ha| |exact HE1].
    intros r s [-> Ha]. split; [reflexivity|]. left. exact Ha.
Qed.

(* initCallFrame that returns has found the closure of a Lua callee *)
Lemma hto_initCallFrame_valid : forall Phi, stable Phi -> forall cf X,
  hto (atg Phi X) (initCallFrame cf)
      (fun cf' s => atg Phi X s /\ fr_fn cf' = fr_fn cf /\ fr_pc cf' = fr_pc cf /\
                    match fr_fn cf with FnLua c => exists cl, nth_error (vclos s) c = Some cl | FnGo _ => True end)
      (erg Phi X).
Proof.
  intros Phi HP cf X s Hs.
  assert (Hj : jg (initCallFrame cf)) by jg_leaf_tac. pose proof (Hj Phi HP X s Hs) as H.
  pose proof (px_initCallFrame cf s) as Hx.
  destruct (initCallFrame cf s) as [cf' s'|e s'| |x] eqn:E; auto.
  split; [exact H|]. pose proof (initCallFrame_pc cf _ _ _ E) as [E1 E2]. split; [exact E1|]. split; [exact E2|].
  pose proof (initCallFrame_clos _ _ _ _ E) as Ec. destruct (fr_fn cf) as [c|b]; [|exact Logic.I].
  destruct Ec as [cl Ecl]. destruct (Hx c cl Ecl) as [cl' [Ecl' _]]. eauto.
Qed.

(* OP_TAILCALL under the invariant: a Lua callee's good frame replaces the current one; a host
   callee runs and both frames are gone *)
Theorem tailcall_step_safe_lemma : forall ml gf, (forall b, jg (gf b)) -> forall Phi, stable Phi ->
  forall cl cf inst base rest,
  op_of_code (opGetOpCode inst) = Some OP_TAILCALL ->
  hto (atg Phi (cf :: rest)) (exec_op ml gf cl cf inst base)
      (fun r s => (r = false /\ exists cf3, atg Phi (cf3 :: rest) s /\ fr_good s cf3 /\ lua_fr cf3) \/
                  (atg Phi rest s /\ r = tc_flag base rest))
      (erg Phi rest).
Proof.
  intros ml gf Hgf Phi HP cl cf inst base rest Hop.
  assert (HE1 : forall s, erg Phi (cf :: rest) s -> erg Phi rest s) by (intros s H; eapply erg_cons; exact H).
  unfold exec_op. rewrite Hop. cbv zeta.
  eapply hto_bind; [eapply hto_conseq; [jl HP (cf :: rest)|idc|idq|exact HE1]|intro top].
  eapply hto_bind; [eapply hto_conseq; [jl HP (cf :: rest)|idc|idq|exact HE1]|intro lv].
  eapply hto_bind; [eapply hto_conseq; [jl HP (cf :: rest)|idc|idq|exact HE1]|intro fm].
  destruct (fst fm) as [callable|].
  2:{ eapply hto_noret; [eapply hto_conseq; [jl HP (cf :: rest)|idc|idq|exact HE1]|].
      intros s9 a9 s9'. apply fault_not_ret. }
  eapply hto_bind; [eapply hto_conseq; [jl HP (cf :: rest)|idc|idq|exact HE1]|intro].
  destruct callable as [c|b].
  - unfold tailcall_lua.
    eapply hto_bind; [eapply hto_conseq; [assert (Hj : jg (if snd fm then vmod_reg (fun r => Insert r lv (fr_localbase cf + opGetArgA inst + 1)) else vret tt)) by (destruct (snd fm); jg_leaf_tac); apply (Hj Phi HP (cf :: rest))|idc|idq|exact HE1]|intro].
    eapply hto_bind with (Q := fun _ s => exists cf1, atg Phi (cf1 :: rest) s /\ fr_fn cf1 = FnLua c).
    { intros s [Hh [Hp [Hf Hs]]]. unfold set_cur_frame. rewrite Hs. eexists. split.
      - split; [exact Hh|]. split; [exact Hp|]. split; [eapply stable_vclos; [exact HP| |exact Hf]; reflexivity|reflexivity].
      - reflexivity. }
    intro. cbv beta. apply (hto_ex _ _ (fun cf1 s => atg Phi (cf1 :: rest) s /\ fr_fn cf1 = FnLua c)). intro cf1.
    apply hto_pure. intro Hf1.
    set (Phi2 := fun s => Phi s /\ exists cl0, nth_error (vclos s) c = Some cl0).
    assert (HP2 : stable Phi2).
    { intros s9 s9' Hx [Ha [cl0 Hb]]. split; [eapply HP; eassumption|]. destruct (Hx c cl0 Hb) as [cl1 [Hc _]]. eauto. }
    eapply hto_bind with (Q := fun _ s => atg Phi2 (cf1 :: rest) s).
    { eapply hto_conseq; [apply (hto_initCallFrame_valid Phi HP _ (cf1 :: rest))|idc| |intros s9 H9; eapply erg_cons; exact H9].
      intros cf2 s [[Hh [Hp [Hf Hs]]] [_ [_ Hv]]]. repeat split; try assumption. }
    intro cf2.
    eapply hto_bind; [eapply hto_conseq; [jl HP2 (cf1 :: rest)|idc|idq|intros s9 [Ha [Hb [[Hc _] Hd]]]; apply (erg_cons Phi cf1); repeat split; assumption]|intro].
    eapply hto_bind with (Q := fun _ s => exists cf3, atg Phi (cf3 :: rest) s /\ fr_good s cf3 /\ lua_fr cf3).
    { intros s [Hh [Hp [[Hf [cl0 Hc]] Hs]]]. unfold set_cur_frame. rewrite Hs. eexists.
      split; [split; [exact Hh|]; split; [exact Hp|]; split; [eapply stable_vclos; [exact HP| |exact Hf]; reflexivity|reflexivity]|].
      split; [|reflexivity].
      eapply entry_good with (c := c) (cl := cl0); [exact Hh|reflexivity|reflexivity|exact Hc]. }
    intros u0 s Hs. left. split; [reflexivity|exact Hs].
  - apply hto_vget_bind. intros s0 Hs0.
    assert (Es0 : vstack s0 = cf :: rest) by (destruct Hs0 as [_ [_ [_ E]]]; exact E). rewrite Es0.
    eapply hto_bind; [eapply hto_conseq; [apply (hto_pushCallFrame Phi HP)|idc|idq|exact HE1]|intro].
    cbv beta. apply (hto_ex _ _ (fun new s => (atg Phi (new :: cf :: rest) s /\ fr_good s new) /\ Some (FnGo b) = Some (fr_fn new))). intro new.
    apply hto_pure. intros _.
    eapply hto_bind; [eapply hto_conseq; [apply (hto_callGFunction gf Hgf Phi HP true new (cf :: rest))|intros s [Ha _]; exact Ha|idq|idc]|intro r].
    cbn [tl]. intros s [-> Hs]. unfold vbind, vget, vret. cbv beta iota.
    right. split; [exact Hs|]. destruct Hs as [_ [_ [_ Es]]]. rewrite Es. unfold tc_flag.
    replace (length (cf :: rest) - 1)%nat with (length rest) by (cbn [length]; lia). reflexivity.
Qed.

(* ---------- OP_CLOSURE under the invariant ---------- *)
Lemma capture_loop_spec2 : forall p cl lbase k pc acc s,
  match capture_loop p cl lbase k pc acc s with
  | VRet r s' => vstack s' = vstack s /\ vthreads s' = vthreads s /\ snd r = pc + Z.of_nat k
  | _ => True
  end.
Proof.
  intros p cl lbase. induction k; intros pc acc s.
  - rewrite capture_loop_0. unfold vret. cbn [snd]. repeat split; lia.
  - rewrite capture_loop_S. unfold vbind at 1. unfold code_at.
    destruct (zth (xp_code p) pc) as [inst|]; [|exact Logic.I]. unfold vret at 1. cbv beta iota.
    destruct (op_of_code (opGetOpCode inst)) as [o|]; [|exact Logic.I].
    destruct o; try exact Logic.I.
    + unfold vbind at 1. unfold findUpvalue.
      destruct (findUpvalue_st_frames (lbase + opGetArgB inst) s) as [E1 E2].
      destruct (findUpvalue_st (lbase + opGetArgB inst) s) as [u s1]. cbn [snd] in E1, E2.
      specialize (IHk (pc + 1) (u :: acc) s1).
      destruct (capture_loop p cl lbase k (pc + 1) (u :: acc) s1) as [r s2|e s2| |x]; auto.
      destruct IHk as [A1 [A2 A3]]. repeat split; try congruence. rewrite A3. lia.
    + unfold vbind at 1. unfold get_upval.
      destruct (zth (cl_upvals cl) (opGetArgB inst)) as [u|]; [|exact Logic.I]. unfold vret at 1. cbv beta iota.
      specialize (IHk (pc + 1) (u :: acc) s).
      destruct (capture_loop p cl lbase k (pc + 1) (u :: acc) s) as [r s2|e s2| |x]; auto.
      destruct IHk as [A1 [A2 A3]]. repeat split; try congruence. rewrite A3. lia.
Qed.

Lemma pext_app : forall s s' x, vclos s' = vclos s ++ x -> pext s s'.
Proof.
  intros s s' x E c cl H. exists cl. split; [|reflexivity]. rewrite E. rewrite nth_error_app1; [exact H|].
  apply nth_error_Some. congruence.
Qed.

Theorem closure_step_safe_lemma : forall ml gf Phi, stable Phi ->
  forall c cl cf inst base rest s,
  clos_good cl -> xp_nregs (cl_proto cl) <= W.frame_limit -> 0 <= fr_pc cf - 1 ->
  op_of_code (opGetOpCode inst) = Some OP_CLOSURE ->
  W.inst_ok (fn_of (cl_proto cl)) (W.tags_of (fn_of (cl_proto cl))) (fr_pc cf - 1) inst = true ->
  fr_fn cf = FnLua c ->
  heap_ok s -> par_ok s -> Phi s -> vstack s = cf :: rest ->
  match exec_op ml gf cl cf inst base s with
  | VRet r s' => r = false /\ heap_ok s' /\ par_ok s' /\ Phi s' /\ pext s s' /\
                 exists cf', vstack s' = cf' :: rest /\ fr_fn cf' = FnLua c /\
                             VM.WfFacts.pc_ok (fn_of (cl_proto cl)) (fr_pc cf')
  | VErr _ s' => False
  | VFuel => True
  | VUnsup x => oob x = false
  end.
Proof.
  intros ml gf Phi HP c cl cf inst base rest s Hcg Hregs Hpc Hop Hok Hfn H1 H2 H3 H4.
  set (ml0 := fun _ : option nat => vmod (fun s => with_stack s (tl (vstack s)))).
  set (gf0 := fun _ : builtin => (vret 0 : VM Z)).
  assert (Eq : exec_op ml gf cl cf inst base = exec_op ml0 gf0 cl cf inst base).
  { unfold exec_op. rewrite Hop. reflexivity. }
  rewrite Eq.
  assert (Nml : forall b, noob (ml0 b)) by (intro b; apply noob_vmod).
  assert (Ngf : forall b, noob (gf0 b)) by (intro b; apply noob_vret).
  assert (Hn : noob (exec_op ml0 gf0 cl cf inst base)).
  { eapply (wf_exec_op_noob_lemma ml0 gf0 Nml Ngf); [exact (proj1 Hcg)|exact Hregs|exact Hpc|exact Hop|exact Hok|discriminate]. }
  assert (Hh : ipres heap_ok (exec_op ml0 gf0 cl cf inst base)).
  { apply exec_op_heap_ok_lemma; [intro b; apply hp_vmod; reflexivity|intro b; apply ipres_vret|exact Hcg]. }
  specialize (Hh s H1).
  (* the run itself *)
  destruct (fn_of_fields (cl_proto cl)) as [Hcode [_ [_ [Hnups [_ _]]]]].
  unfold W.inst_ok in Hok. rewrite Hop in Hok.
  cbn [W.modes_ok opProps Type_ ModeArgB ModeArgC W.mode_ok] in Hok. split_ands.
  assert (HBx : opGetArgBx inst < len (xp_subs (cl_proto cl))).
  { match goal with Hx : (opGetArgBx inst <? _) = true |- _ => rewrite Hnups in Hx; rewrite plen_eq in Hx; unfold len in Hx; rewrite map_length in Hx end.
    unfold len. lia. }
  destruct (zth_some_range _ (xp_subs (cl_proto cl)) (opGetArgBx inst)) as [proto Hp]; [pose proof (getBx_nonneg inst); lia|].
  assert (Hk : fst (W.group_of (fn_of (cl_proto cl)) inst) = xp_nup proto).
  { unfold W.group_of. rewrite Hop. rewrite Hnups. rewrite pzth_eq.
    unfold zth in *. destruct (opGetArgBx inst <? 0); [discriminate|].
    rewrite nth_error_map. rewrite Hp. reflexivity. }
  pose proof (good_proto_nup _ (good_proto_sub _ _ _ (proj2 Hcg) Hp)) as Hnup.
  revert Hh. generalize (Hn s). clear Hn.
  unfold exec_op. rewrite Hop. cbv zeta. rewrite Hp.
  cbv beta iota delta [vbind alloc_closure reg_set vmod_reg vmod set_cur_frame vret].
  match goal with |- context [capture_loop ?a ?b ?c0 ?d ?e ?f ?g] =>
    pose proof (capture_loop_spec a b c0 d e f g) as HC; pose proof (capture_loop_spec2 a b c0 d e f g) as HC2;
    destruct (capture_loop a b c0 d e f g) as [r s3|e3 s3| |c3] end.
  2:{ contradiction. }
  2:{ intros; exact Logic.I. }
  2:{ intros Hn _. apply Hn. reflexivity. }
  destruct HC as [E3 L]. destruct HC2 as [S3 [T3 P3]].
  cbn [vclos vstack vthreads with_reg with_vclos] in E3, S3, T3.
  rewrite S3. rewrite H4. cbv beta iota.
  intros _ Hh. split; [reflexivity|]. split; [exact Hh|].
  assert (Ev : vclos (with_vclos (with_stack s3 (set_pc cf (snd r) :: rest))
                 (set_nth (vclos (with_stack s3 (set_pc cf (snd r) :: rest))) (length (vclos s))
                    (mkCl proto (fst r) (cl_env cl)))) = vclos s ++ [mkCl proto (fst r) (cl_env cl)]).
  { cbn [vclos with_vclos with_stack]. rewrite E3. apply set_nth_app_last. }
  assert (Hx : pext s (with_vclos (with_stack s3 (set_pc cf (snd r) :: rest))
                 (set_nth (vclos (with_stack s3 (set_pc cf (snd r) :: rest))) (length (vclos s))
                    (mkCl proto (fst r) (cl_env cl))))) by (eapply pext_app; exact Ev).
  split; [unfold par_ok in *; cbn [vthreads with_vclos with_stack]; rewrite T3; exact H2|].
  split; [eapply HP; [exact Hx|exact H3]|]. split; [exact Hx|].
  exists (set_pc cf (snd r)). split; [reflexivity|]. split; [exact Hfn|].
  cbn [fr_pc set_pc]. rewrite P3. rewrite Z2Nat.id by exact Hnup.
  unfold VM.WfFacts.pc_ok.
  match goal with Hf : W.is_head _ (fr_pc cf - 1 + 1 + fst _) = true |- _ => rewrite Hk in Hf; replace (fr_pc cf + xp_nup proto) with (fr_pc cf - 1 + 1 + xp_nup proto) by lia; exact Hf end.
Qed.
