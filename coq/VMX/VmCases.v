(* Case evaluator of the program-level properties with the VM model wired in: a generated program
   (AST for the reference evaluator), the prototype tree the real compiler produced for its text
   (for the VM model), and the observable outcome of the real interpreter.
     check_spec : the observed outcome is the reference evaluator's            (property)
     check_impl : the observed outcome is what the evaluator under the listed-deviation switches
                  computes AND what the VM model computes on the dumped prototype (both ties)
                  AND, for a program of the transcribed fragment, the dumped prototype is the one
                  CC/CompModel.v's transcription of compile.go computes (frag_tie)
   A case the reference evaluator does not support is skipped altogether; a program on which only
   the VM model leaves its fragment (VUnsup/VFuel) keeps its reference comparison. *)
From Coq Require Import Floats.
From Coq Require Uint63.
From GL Require Import Common.Bytes Lua.Syntax Lua.Num Lua.Values Lua.Eval Lua.Run Lua.LuaCases.
From GL Require Import VMX.Machine VMX.VRun CC.CompModel.

(* code words are written as primitive-integer literals (parsed natively) *)
Definition w63 (l : list Uint63.int) : list Z := map Uint63.to_Z l.

Inductive vcase :=
| VLua (c : LuaCases.case)
| VProg (body : list stmt) (p : xproto) (obs : outcome)
| VVm (p : xproto) (obs : outcome).          (* model validation only: VM model vs real VM *)

(* property-specific Go-side checks add plain reference cases (CProg ...) to a VM shard *)
Coercion VLua : LuaCases.case >-> vcase.

Definition vm_skip (p : xproto) : bool := is_skip (vm_outcome p).

Definition vm_ok (p : xproto) (obs : outcome) : bool :=
  let o := vm_outcome p in is_skip o || outcome_eqb o obs.

Definition check_skip (c : vcase) : bool :=
  match c with
  | VLua c => LuaCases.check_skip c
  | VProg b _ obs => LuaCases.check_skip (CProg b obs)
  | VVm p _ => vm_skip p
  end.

Definition check_spec (c : vcase) : bool :=
  match c with
  | VLua c => LuaCases.check_spec c
  | VProg b _ obs => LuaCases.check_spec (CProg b obs)
  | VVm _ _ => true
  end.

Definition check_impl (c : vcase) : bool :=
  match c with
  | VLua c => LuaCases.check_impl c
  | VProg b p obs => LuaCases.check_impl (CProg b obs) && vm_ok p obs && frag_tie b p
  | VVm p obs => vm_ok p obs
  end.

(* the program lies in the fragment whose compilation is transcribed in CC/CompModel.v *)
Definition check_infrag (c : vcase) : bool :=
  match c with VProg b _ _ => tie_frag b | _ => false end.

(* measured by the harness notes: how many VProg cases the VM model itself skips *)
Definition check_vmskip (c : vcase) : bool :=
  match c with VProg _ p _ | VVm p _ => vm_skip p | VLua _ => false end.
