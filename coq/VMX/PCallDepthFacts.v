(* M-VM: LState.PCall (VMX/Step.v, transcribed from _state.go) and the C-call depth LState.nccalls
   (calls from Go code into the thread that have not returned; bounded by maxCCalls in callR).
   C05 wave 5: the depth is put back to its value at the PCall BEFORE the message handler is called
   (so that a handler can run also when the error is the overflow of that very depth), the handler
   runs on the frames of the failing state (before unwinding), and a failed protected call without a
   handler leaves the depth where it was. For ANY state, argument counts, handler and re-entered
   main loop. The branch "the handler itself raised" is not covered: Step.PCall does not yet follow
   /repo 8afd4e6 there (notes/VMX-todo.md item 4). *)
From Coq Require Import Floats Lia ZifyBool List.
From GL Require Import Common.Bytes Lua.Syntax Lua.Num Lua.Values Lua.ValuesFacts.
From GL Require Import VMX.Machine VMX.Step VMX.PCallFacts.
Import ListNotations.

(* the running thread has its record in the thread table (true of every state the machine builds:
   init_vstate has the main thread at index 0, switch_to only moves to indices it read) *)
Definition cur_ok (s : vstate) : Prop := (vcur s < length (vthreads s))%nat.

Lemma cur_nccalls_set : forall n s, cur_ok s -> cur_nccalls (set_nccalls n s) = n.
Proof.
  intros n s H. unfold cur_nccalls, set_nccalls. cbn [vthreads vcur with_threads].
  rewrite set_nth_same_lemma by exact H. reflexivity.
Qed.

Lemma set_nccalls_frames : forall n s, vstack (set_nccalls n s) = vstack s /\ vreg (set_nccalls n s) = vreg s /\ vcur (set_nccalls n s) = vcur s.
Proof. intros. repeat split. Qed.

Lemma cur_ok_set : forall n s, cur_ok s -> cur_ok (set_nccalls n s).
Proof.
  intros n s H. unfold cur_ok, set_nccalls. cbn [vthreads vcur with_threads].
  rewrite set_nth_length_lemma. exact H.
Qed.

Lemma cur_nccalls_unwind : forall sp base s, cur_nccalls (unwind sp base s) = cur_nccalls s.
Proof. reflexivity. Qed.

Lemma cur_nccalls_SetSp : forall sp s, cur_nccalls (SetSp sp s) = cur_nccalls s.
Proof. reflexivity. Qed.

Section PCallDepth.
Variable ml : option nat -> VM unit.

(* what PCall does with the handler [hv] and the error object [e] in the state [sh] *)
Definition handler_run (hv e : value) : VM value :=
  vdo _ <- reg_push hv; vdo _ <- reg_push e; vdo _ <- Call ml 1 1; vdo t <- reg_top; reg_get (t - 1).

(* no handler: the error object is the one raised, and the C-call depth is what it was at the PCall *)
Lemma PCall_nohandler_ccalls : forall nargs nret s e sf,
  Call ml nargs nret s = VErr e sf -> cur_ok sf ->
  exists s', PCall ml nargs nret None s = VRet (Some e) s' /\ cur_nccalls s' = cur_nccalls s /\ vcur s' = vcur sf.
Proof.
  intros nargs nret s e sf HC Hok. unfold PCall. rewrite HC.
  eexists. split; [reflexivity|]. split.
  - rewrite cur_nccalls_unwind. apply cur_nccalls_set. exact Hok.
  - reflexivity.
Qed.

(* with a handler: the handler is called in the failing state -- same frames, same registers: before
   unwinding -- whose C-call depth has been put back to the value at the PCall; what PCall returns is
   the handler's first result (an error of the handler replaces the error) *)
Lemma PCall_handler_entry : forall nargs nret hv s e sf,
  Call ml nargs nret s = VErr e sf -> cur_ok sf ->
  let sh := set_nccalls (cur_nccalls s) sf in
  cur_nccalls sh = cur_nccalls s /\ vstack sh = vstack sf /\ vreg sh = vreg sf /\
  PCall ml nargs nret (Some hv) s =
    match handler_run hv e sh with
    | VRet v s1 => VRet (Some v) (unwind (length (vstack s)) (rtop (vreg s) - nargs - 1) s1)
    | VErr e2 s1 => VRet (Some e2) (unwind (length (vstack s)) (rtop (vreg s) - nargs - 1) s1)
    | VFuel => VFuel
    | VUnsup c => VUnsup c
    end.
Proof.
  intros nargs nret hv s e sf HC Hok sh.
  split; [apply cur_nccalls_set; exact Hok|]. split; [reflexivity|]. split; [reflexivity|].
  unfold PCall, handler_run. rewrite HC. fold sh.
  match goal with |- context [match ?X with _ => _ end] => destruct X end; reflexivity.
Qed.

(* the handler returned: the depth after the protected call is the depth the handler left *)
Lemma PCall_handler_returns_ccalls : forall nargs nret hv s e sf v s1,
  Call ml nargs nret s = VErr e sf ->
  handler_run hv e (set_nccalls (cur_nccalls s) sf) = VRet v s1 ->
  exists s', PCall ml nargs nret (Some hv) s = VRet (Some v) s' /\ cur_nccalls s' = cur_nccalls s1.
Proof.
  intros nargs nret hv s e sf v s1 HC HH. unfold PCall. rewrite HC.
  unfold handler_run in HH. rewrite HH. eexists. split; reflexivity.
Qed.

(* success: the depth is whatever the call left (callR takes its own increment back) *)
Lemma PCall_ok_ccalls : forall nargs nret h s u s1,
  Call ml nargs nret s = VRet u s1 ->
  exists s', PCall ml nargs nret h s = VRet None s' /\ cur_nccalls s' = cur_nccalls s1.
Proof.
  intros nargs nret h s u s1 HC. unfold PCall. rewrite HC. eexists. split; reflexivity.
Qed.

End PCallDepth.
