(* M-VM: facts about the open-upvalue list (L.uvcache) and its two operations findUpvalue and
   closeUpvalues as transcribed in VMX/Step.v, for arbitrary upvalue heaps, lists and registries. *)
From Coq Require Import Floats Lia ZifyBool.
From GL Require Import Common.Bytes Lua.Syntax Lua.Num Lua.Values Lua.Names Lua.Eval.
From GL Require Import VMX.Machine VMX.Step VMX.Spec.

Lemma sorted_from_weaken : forall uvs cache lo lo', lo' <= lo -> sorted_from uvs lo cache -> sorted_from uvs lo' cache.
Proof.
  intros uvs cache. destruct cache; simpl; intros; auto.
  destruct H0 as [A [B [C D]]]. repeat split; auto; lia.
Qed.

Lemma sorted_from_all : forall uvs cache lo u, sorted_from uvs lo cache -> In u cache ->
  (u < length uvs)%nat /\ uv_closed (uvat uvs u) = false /\ lo < uv_index (uvat uvs u).
Proof.
  intros uvs cache. induction cache as [|v rest IH]; intros lo u H Hin; [contradiction|].
  simpl in H. destruct H as [A [B [C D]]].
  destruct Hin as [->|Hin]; [auto|].
  destruct (IH _ _ D Hin) as [A' [B' C']]. repeat split; auto; lia.
Qed.

Lemma uvat_app : forall uvs x u, (u < length uvs)%nat -> uvat (uvs ++ [x]) u = uvat uvs u.
Proof. intros. unfold uvat. apply app_nth1. assumption. Qed.

Lemma uvat_app_new : forall uvs x, uvat (uvs ++ [x]) (length uvs) = x.
Proof. intros. unfold uvat. rewrite app_nth2 by lia. rewrite Nat.sub_diag. reflexivity. Qed.

Lemma sorted_from_app : forall uvs x cache lo, sorted_from uvs lo cache -> sorted_from (uvs ++ [x]) lo cache.
Proof.
  intros uvs x cache. induction cache as [|u rest IH]; intros lo H; [exact I|].
  simpl in *. destruct H as [A [B [C D]]].
  rewrite uvat_app by assumption. rewrite app_length. simpl.
  repeat split; auto; lia.
Qed.

(* ---------- open_alias ---------- *)
(* reading an open upvalue is reading its register; a closed one reads its own value *)
Theorem open_alias : forall r u, uv_closed u = false -> uv_read r u = rd (arr r) (uv_index u).
Proof. intros r u H. unfold uv_read. rewrite H. reflexivity. Qed.

Theorem closed_own : forall r u, uv_closed u = true -> uv_read r u = uv_value u.
Proof. intros r u H. unfold uv_read. rewrite H. reflexivity. Qed.

(* ---------- findUpvalue ---------- *)
Lemma fu_loop_spec : forall uvs cache idx lo th,
  sorted_from uvs lo cache -> lo < idx ->
  let fresh := length uvs in
  let '(r, c') := fu_loop uvs cache idx fresh in
  let uvs' := if Nat.eqb r fresh then uvs ++ [mkUv idx false None th] else uvs in
  sorted_from uvs' lo c' /\ In r c' /\ uv_index (uvat uvs' r) = idx /\
  (forall u, In u cache -> In u c') /\
  (r <> fresh -> c' = cache).
Proof.
  intros uvs cache idx. induction cache as [|u rest IH]; intros lo th Hs Hlo; cbv zeta.
  - simpl. rewrite Nat.eqb_refl. rewrite uvat_app_new. simpl.
    rewrite app_length. simpl.
    split; [repeat split; auto; lia|]. split; [left; reflexivity|]. split; [reflexivity|].
    split; [intros; contradiction|intro H; exfalso; apply H; reflexivity].
  - simpl in Hs. destruct Hs as [A [B [C D]]].
    simpl fu_loop. fold (uvat uvs u).
    destruct (uv_index (uvat uvs u) =? idx) eqn:E1.
    + assert (Hne : Nat.eqb u (length uvs) = false) by (apply Nat.eqb_neq; lia).
      rewrite Hne. simpl. repeat split; auto; lia.
    + destruct (uv_index (uvat uvs u) >? idx) eqn:E2.
      * rewrite Nat.eqb_refl.
        set (nw := mkUv idx false None th).
        assert (Hn : uvat (uvs ++ [nw]) (length uvs) = nw) by apply uvat_app_new.
        split; [|split; [|split; [|split]]].
        -- simpl sorted_from. rewrite Hn. rewrite uvat_app by assumption. rewrite app_length. simpl.
           repeat split; auto; try lia. apply sorted_from_app. exact D.
        -- left; reflexivity.
        -- rewrite Hn. reflexivity.
        -- intros v Hv. right. exact Hv.
        -- intro Hf. exfalso. apply Hf. reflexivity.
      * specialize (IH (uv_index (uvat uvs u)) th D ltac:(lia)). cbv zeta in IH.
        destruct (fu_loop uvs rest idx (length uvs)) as [r c'].
        destruct IH as [I1 [I2 [I3 [I4 I5]]]].
        split; [|split; [|split; [|split]]].
        -- simpl. destruct (Nat.eqb r (length uvs)) eqn:Er.
           ++ rewrite uvat_app by assumption. rewrite app_length. simpl. repeat split; auto; lia.
           ++ repeat split; auto.
        -- right. assumption.
        -- assumption.
        -- intros v [->|Hv]; [left; reflexivity|right; auto].
        -- intro Hr. f_equal. auto.
Qed.

Lemma findUpvalue_unfold : forall idx s,
  findUpvalue_st idx s =
  let fresh := length (vuvs s) in
  let '(r, c') := fu_loop (vuvs s) (vuvcache s) idx fresh in
  if Nat.eqb r fresh
  then (r, with_uvcache (with_uvs s (vuvs s ++ [mkUv idx false None (vcur s)])) c')
  else (r, s).
Proof. reflexivity. Qed.

(* findUpvalue keeps the list sorted and open, and the upvalue it returns is in the list, open,
   and stands for register idx *)
Theorem findUpvalue_inv : forall idx s,
  state_cache_inv s ->
  let '(r, s') := findUpvalue_st idx s in
  state_cache_inv s' /\ In r (vuvcache s') /\
  uv_index (uvat (vuvs s') r) = idx /\ uv_closed (uvat (vuvs s') r) = false /\
  vreg s' = vreg s /\ vstack s' = vstack s /\
  (forall u, In u (vuvcache s) -> In u (vuvcache s') /\ uvat (vuvs s') u = uvat (vuvs s) u).
Proof.
  intros idx s [lo Hs].
  assert (Hs' : sorted_from (vuvs s) (Z.min lo (idx - 1)) (vuvcache s))
    by (eapply sorted_from_weaken; [|exact Hs]; lia).
  pose proof (fu_loop_spec (vuvs s) (vuvcache s) idx (Z.min lo (idx - 1)) (vcur s) Hs' ltac:(lia)) as H.
  cbv zeta in H. rewrite findUpvalue_unfold. cbv zeta.
  destruct (fu_loop (vuvs s) (vuvcache s) idx (length (vuvs s))) as [r c'].
  destruct H as [H1 [H2 [H3 [H4 H5]]]].
  destruct (Nat.eqb r (length (vuvs s))) eqn:Er.
  - simpl. split; [eexists; exact H1|]. split; [assumption|]. split; [assumption|].
    split; [|split; [reflexivity|split; [reflexivity|]]].
    + destruct (sorted_from_all _ _ _ _ H1 H2) as [_ [Hc _]]. exact Hc.
    + intros u Hu. split; [auto|].
      destruct (sorted_from_all _ _ _ _ Hs' Hu) as [Hlt _]. apply uvat_app. assumption.
  - assert (c' = vuvcache s) by (apply H5; apply Nat.eqb_neq; assumption). subst c'.
    split; [eexists; exact H1|]. split; [assumption|]. split; [assumption|].
    split; [|split; [reflexivity|split; [reflexivity|]]].
    + destruct (sorted_from_all _ _ _ _ H1 H2) as [_ [Hc _]]. exact Hc.
    + intros u Hu. split; [assumption|reflexivity].
Qed.

Theorem uvcache_sorted_inv_find : forall idx s,
  state_cache_inv s -> state_cache_inv (snd (findUpvalue_st idx s)).
Proof.
  intros idx s H. pose proof (findUpvalue_inv idx s H) as H'.
  destruct (findUpvalue_st idx s) as [r s']. simpl. tauto.
Qed.

(* an upvalue of the list that stands for register idx is the one findUpvalue returns, and the
   state is left as it is *)
Lemma fu_loop_found : forall uvs cache idx lo u fresh,
  sorted_from uvs lo cache -> In u cache -> uv_index (uvat uvs u) = idx ->
  fu_loop uvs cache idx fresh = (u, cache).
Proof.
  intros uvs cache idx. induction cache as [|v rest IH]; intros lo u fresh Hs Hin Hidx; [contradiction|].
  simpl in Hs. destruct Hs as [A [B [C D]]]. simpl fu_loop. fold (uvat uvs v).
  destruct Hin as [->|Hin].
  - rewrite Hidx. rewrite Z.eqb_refl. reflexivity.
  - destruct (sorted_from_all _ _ _ _ D Hin) as [_ [_ Hlt]].
    destruct (uv_index (uvat uvs v) =? idx) eqn:E1; [lia|].
    destruct (uv_index (uvat uvs v) >? idx) eqn:E2; [lia|].
    rewrite (IH _ _ _ D Hin Hidx). reflexivity.
Qed.

Theorem findUpvalue_existing : forall idx s u,
  state_cache_inv s -> In u (vuvcache s) -> uv_index (uvat (vuvs s) u) = idx ->
  findUpvalue_st idx s = (u, s).
Proof.
  intros idx s u [lo Hs] Hin Hidx. rewrite findUpvalue_unfold. cbv zeta.
  rewrite (fu_loop_found _ _ _ _ _ _ Hs Hin Hidx).
  destruct (sorted_from_all _ _ _ _ Hs Hin) as [Hlt _].
  assert (Hne : Nat.eqb u (length (vuvs s)) = false) by (apply Nat.eqb_neq; lia).
  rewrite Hne. reflexivity.
Qed.

(* two captures of one register in one activation return the same upvalue, whatever other
   registers are captured in between (captures only add to the list) *)
Theorem findUpvalue_shared : forall idx s,
  state_cache_inv s ->
  let '(r1, s1) := findUpvalue_st idx s in
  findUpvalue_st idx s1 = (r1, s1).
Proof.
  intros idx s H. pose proof (findUpvalue_inv idx s H) as H'.
  destruct (findUpvalue_st idx s) as [r1 s1]. destruct H' as [Hi [Hin [Hidx _]]].
  apply findUpvalue_existing; assumption.
Qed.

Theorem findUpvalue_shared_interleaved : forall idx idx' s,
  state_cache_inv s ->
  let '(r1, s1) := findUpvalue_st idx s in
  let '(_, s2) := findUpvalue_st idx' s1 in
  fst (findUpvalue_st idx s2) = r1.
Proof.
  intros idx idx' s H. pose proof (findUpvalue_inv idx s H) as H1.
  destruct (findUpvalue_st idx s) as [r1 s1]. destruct H1 as [Hi1 [Hin1 [Hidx1 _]]].
  pose proof (findUpvalue_inv idx' s1 Hi1) as H2.
  destruct (findUpvalue_st idx' s1) as [r2 s2]. destruct H2 as [Hi2 [_ [_ [_ [_ [_ Hpres]]]]]].
  destruct (Hpres r1 Hin1) as [Hin2 Hsame].
  rewrite (findUpvalue_existing idx s2 r1 Hi2 Hin2); [reflexivity|].
  rewrite Hsame. assumption.
Qed.

(* ---------- closeUpvalues ---------- *)
Fixpoint memb (u : nat) (l : list nat) : bool :=
  match l with [] => false | v :: r => Nat.eqb u v || memb u r end.

Lemma memb_In : forall u l, memb u l = true <-> In u l.
Proof.
  induction l; simpl; [split; [discriminate|contradiction]|].
  rewrite orb_true_iff, IHl, Nat.eqb_eq. split; intros [H|H]; auto.
Qed.

Lemma uvat_set_nth : forall uvs u x v,
  uvat (set_nth uvs u x) v = if Nat.eqb v u && (u <? length uvs)%nat then x else uvat uvs v.
Proof.
  unfold uvat. induction uvs as [|y t IH]; intros u x v.
  - simpl. destruct u; simpl; rewrite andb_false_r; reflexivity.
  - destruct u; destruct v; simpl; try reflexivity.
    rewrite IH. simpl.
    destruct (Nat.eqb v u); simpl; [|reflexivity].
    destruct (u <? length t)%nat eqn:E1; destruct (S u <? S (length t))%nat eqn:E2; try reflexivity;
      apply Nat.ltb_lt in E1 || apply Nat.ltb_ge in E1; apply Nat.ltb_lt in E2 || apply Nat.ltb_ge in E2; lia.
Qed.

Lemma uv_close_idem : forall r x, uv_close r (uv_close r x) = uv_close r x.
Proof. intros. unfold uv_close, uv_read. simpl. reflexivity. Qed.

Lemma uv_close_dummy : forall r, uv_close r dummy_uv = dummy_uv.
Proof. reflexivity. Qed.

Lemma set_nth_length_uv : forall (l : list upval) i x, length (set_nth l i x) = length l.
Proof. induction l; destruct i; simpl; auto. Qed.

Lemma close_loop_length : forall cache r uvs idx, length (close_loop r uvs cache idx) = length uvs.
Proof.
  induction cache as [|u rest IH]; intros; simpl; [reflexivity|].
  rewrite IH. destruct (uv_index (nth u uvs dummy_uv) >=? idx); [apply set_nth_length_uv|reflexivity].
Qed.

(* what the closing loop does to every upvalue of the heap *)
Lemma close_loop_at : forall cache r uvs idx v,
  uvat (close_loop r uvs cache idx) v =
    if memb v cache && (uv_index (uvat uvs v) >=? idx) then uv_close r (uvat uvs v) else uvat uvs v.
Proof.
  induction cache as [|u rest IH]; intros r uvs idx v; [reflexivity|].
  simpl close_loop. rewrite IH. fold (uvat uvs u). simpl memb.
  destruct (uv_index (uvat uvs u) >=? idx) eqn:Eu.
  - rewrite !uvat_set_nth.
    destruct (Nat.eqb v u) eqn:Evu.
    + apply Nat.eqb_eq in Evu. subst v. simpl.
      destruct (u <? length uvs)%nat eqn:El.
      * simpl. rewrite ?Eu. destruct (memb u rest); simpl; [apply uv_close_idem|reflexivity].
      * assert (Hd : uvat uvs u = dummy_uv) by (unfold uvat; apply nth_overflow; apply Nat.ltb_ge in El; lia).
        rewrite Hd. simpl. rewrite !uv_close_dummy.
        destruct (memb u rest); simpl; destruct (0 >=? idx); reflexivity.
    + simpl. reflexivity.
  - destruct (Nat.eqb v u) eqn:Evu; simpl; [|reflexivity].
    apply Nat.eqb_eq in Evu. subst v. rewrite Eu. rewrite andb_false_r. reflexivity.
Qed.

Lemma cache_prefix_In : forall uvs cache idx u, In u (cache_prefix uvs cache idx) ->
  In u cache.
Proof.
  induction cache as [|v rest IH]; simpl; intros idx u H; [contradiction|].
  destruct (uv_index (nth v uvs dummy_uv) >=? idx); [contradiction|].
  destruct H as [->|H]; auto. right. eapply IH. eassumption.
Qed.

Lemma cache_prefix_sorted : forall uvs cache idx lo,
  sorted_from uvs lo cache ->
  sorted_from uvs lo (cache_prefix uvs cache idx) /\
  (forall u, In u (cache_prefix uvs cache idx) -> uv_index (uvat uvs u) < idx) /\
  (forall u, In u cache -> uv_index (uvat uvs u) < idx -> In u (cache_prefix uvs cache idx)).
Proof.
  induction cache as [|v rest IH]; intros idx lo H.
  - simpl. repeat split; auto; intros; contradiction.
  - simpl in H. destruct H as [A [B [C D]]]. simpl cache_prefix. fold (uvat uvs v).
    destruct (uv_index (uvat uvs v) >=? idx) eqn:E.
    + simpl. repeat split; auto; try (intros; contradiction).
      intros u [->|Hin] Hlt; [lia|].
      destruct (sorted_from_all _ _ _ _ D Hin) as [_ [_ Hgt]]. lia.
    + destruct (IH idx _ D) as [I1 [I2 I3]].
      split; [simpl; repeat split; auto|]. split.
      * intros u [->|Hin]; [lia|auto].
      * intros u [->|Hin] Hlt; [left; reflexivity|right; auto].
Qed.

(* sortedness only looks at index and closedness of the listed upvalues: it survives any heap
   change that keeps those *)
Lemma sorted_from_ext : forall uvs uvs' cache lo,
  length uvs' = length uvs ->
  (forall u, In u cache -> uvat uvs' u = uvat uvs u) ->
  sorted_from uvs lo cache -> sorted_from uvs' lo cache.
Proof.
  intros uvs uvs' cache. induction cache as [|v rest IH]; intros lo Hl He H; [exact I|].
  simpl in *. destruct H as [A [B [C D]]].
  rewrite (He v) by (left; reflexivity). rewrite Hl.
  split; [assumption|]. split; [assumption|]. split; [assumption|].
  apply IH; auto.
Qed.

(* closeUpvalues idx: the list stays sorted and open; afterwards no listed (hence no open, see
   close_ge) upvalue has an index >= idx; every upvalue that was listed with index >= idx is now
   closed and holds what its register held at that moment; every other upvalue is untouched *)
Theorem close_ge : forall idx s,
  state_cache_inv s ->
  let s' := closeUpvalues_st idx s in
  state_cache_inv s' /\
  (forall u, In u (vuvcache s') -> uv_index (uvat (vuvs s') u) < idx /\ uv_closed (uvat (vuvs s') u) = false) /\
  (forall u, In u (vuvcache s) -> uv_index (uvat (vuvs s) u) >= idx ->
      uvat (vuvs s') u = mkUv (uv_index (uvat (vuvs s) u)) true (rd (arr (vreg s)) (uv_index (uvat (vuvs s) u)))
                              (uv_thread (uvat (vuvs s) u))) /\
  (forall u, ~ (In u (vuvcache s) /\ uv_index (uvat (vuvs s) u) >= idx) -> uvat (vuvs s') u = uvat (vuvs s) u) /\
  vreg s' = vreg s /\ vstack s' = vstack s.
Proof.
  intros idx s [lo Hs]. cbv zeta. unfold closeUpvalues_st. simpl.
  destruct (cache_prefix_sorted _ _ idx _ Hs) as [P1 [P2 P3]].
  assert (Hsame : forall u, In u (cache_prefix (vuvs s) (vuvcache s) idx) ->
            uvat (close_loop (vreg s) (vuvs s) (vuvcache s) idx) u = uvat (vuvs s) u).
  { intros u Hu. rewrite close_loop_at. specialize (P2 u Hu).
    destruct (uv_index (uvat (vuvs s) u) >=? idx) eqn:E; [lia|]. rewrite andb_false_r. reflexivity. }
  split; [|split; [|split; [|split; [|split; reflexivity]]]].
  - exists lo. apply sorted_from_ext with (uvs := vuvs s); auto. apply close_loop_length.
  - intros u Hu. rewrite Hsame by assumption. split; [apply P2; assumption|].
    destruct (sorted_from_all _ _ _ _ P1 Hu) as [_ [Hc _]]. exact Hc.
  - intros u Hin Hge. rewrite close_loop_at.
    assert (Hm : memb u (vuvcache s) = true) by (apply memb_In; assumption). rewrite Hm.
    destruct (uv_index (uvat (vuvs s) u) >=? idx) eqn:E; [|lia]. simpl.
    destruct (sorted_from_all _ _ _ _ Hs Hin) as [_ [Hop _]].
    unfold uv_close. rewrite open_alias by assumption. reflexivity.
  - intros u Hn. rewrite close_loop_at.
    destruct (memb u (vuvcache s)) eqn:Em; [|reflexivity].
    destruct (uv_index (uvat (vuvs s) u) >=? idx) eqn:E; [|reflexivity].
    exfalso. apply Hn. split; [apply memb_In; assumption|lia].
Qed.

Theorem uvcache_sorted_inv_close : forall idx s,
  state_cache_inv s -> state_cache_inv (closeUpvalues_st idx s).
Proof. intros idx s H. apply (close_ge idx s H). Qed.

(* the two operations together: the invariant holds for every sequence of captures and closes
   starting from the empty list *)
Theorem uvcache_sorted_inv : forall ops s,
  state_cache_inv s -> state_cache_inv (fold_left (fun s o => apply_uvop o s) ops s).
Proof.
  induction ops as [|o ops IH]; intros s H; [exact H|].
  simpl. apply IH. destruct o; simpl; [apply uvcache_sorted_inv_find|apply uvcache_sorted_inv_close]; assumption.
Qed.

Lemma empty_cache_inv : forall s, vuvcache s = [] -> state_cache_inv s.
Proof. intros s H. exists 0. unfold state_cache_inv in *. rewrite H. exact I. Qed.

(* no open upvalue points at or above idx after closeUpvalues idx: what OP_CLOSE A (idx = RA),
   OP_RETURN and OP_TAILCALL (idx = LocalBase) and PCall's recovery (idx = base) rely on *)
Theorem no_dangling_after_close : forall idx s u,
  state_cache_inv s -> In u (vuvcache (closeUpvalues_st idx s)) ->
  uv_index (uvat (vuvs (closeUpvalues_st idx s)) u) < idx.
Proof. intros idx s u H Hin. apply (close_ge idx s H). assumption. Qed.
