(* M-VM: the fuelled main loop (mainLoop of _vm.go), the initial state of a fresh LState with the
   harness' host functions, and the runner producing the canonical observable outcome of
   Lua/Run.v. No proofs here. *)
From Coq Require Import Floats.
From GL Require Import Common.Bytes Lua.Syntax Lua.Num Lua.Values Lua.Names Lua.Eval Lua.Run.
From GL Require Import VMX.Machine VMX.Step VMX.Builtins.

(* inst = cf.Fn.Proto.Code[cf.Pc]; cf.Pc++ *)
Definition fetch : VM Z :=
  vdo cf <- cur_frame;
  match fr_fn cf with
  | FnGo _ => vunsup 102
  | FnLua c =>
      vdo cl <- get_closure c;
      vdo inst <- code_at (cl_proto cl) (fr_pc cf);
      vdo _ <- set_cur_frame (set_pc cf (fr_pc cf + 1));
      vret inst
  end.

(* the dispatch loop of mainLoop: at most k instructions of this activation of the loop *)
Fixpoint run_loop (ml : option nat -> VM unit) (k : nat) (baseframe : option nat) (s : vstate) {struct k} : vres unit :=
  match k with
  | O => VFuel
  | S k' =>
      match fetch s with
      | VRet inst s1 =>
          match exec_inst ml (gfunction ml) inst baseframe s1 with
          | VRet true s2 => VRet tt s2
          | VRet false s2 => run_loop ml k' baseframe s2
          | VErr e s2 => VErr e s2
          | VFuel => VFuel
          | VUnsup c => VUnsup c
          end
      | VErr e s1 => VErr e s1
      | VFuel => VFuel
      | VUnsup c => VUnsup c
      end
  end.

(* mainLoop(L, baseframe) entered on a host function's frame *)
Definition run_gframe (ml : option nat -> VM unit) (s : vstate) : vres unit :=
  match callGFunction (gfunction ml) false s with
  | VRet _ s' => VRet tt s'
  | VErr e s' => VErr e s'
  | VFuel => VFuel
  | VUnsup c => VUnsup c
  end.

(* func mainLoop(L, baseframe): n bounds the nesting of Go-level re-entrance, and the number of
   instructions one activation of the loop executes *)
Fixpoint mainLoop (n : nat) (baseframe : option nat) (s : vstate) {struct n} : vres unit :=
  match n with
  | O => VFuel
  | S n' =>
      match vstack s with
      | [] => VRet tt s
      | f :: _ =>
          if is_go (fr_fn f) then run_gframe (mainLoop n') s
          else run_loop (mainLoop n') n' baseframe s
      end
  end.

(* a fresh state: the global tables of Lua/Run.v (0 = _G, 1 = coroutine, 2 = table, 3 = string,
   4 = math, 5 = string metatable), the chunk's closure in register 0 as L.Push(fn) leaves it *)
Definition init_vstate (p : xproto) : vstate :=
  mkVS (mkReg [Some (VFun 0%nat)] 1) [] [] []
       [mkCl p [] 0%nat]
       [g_globals; g_coroutine; g_table; g_string; g_math; g_strmt]
       [] [] (Some 5%nat) 0%nat
       [mkTh (mkReg [] 0) [] [] None false false true 0] 0%nat.

Inductive vfin := VFinOk (vs : list value) (s : vstate) | VFinErr (v : value) (s : vstate)
                | VFinFuel | VFinUnsup (c : Z).

(* L.Push(fn); err := L.PCall(0, MultRet, nil); results = the registers 0 .. Top-1 *)
Definition run_proto (fuel : nat) (p : xproto) : vfin :=
  match PCall (mainLoop fuel) 0 MultRet None (init_vstate p) with
  | VRet None s =>
      match reg_get_range 0 (Z.to_nat (rtop (vreg s))) s with
      | VRet vs _ => VFinOk vs s
      | VUnsup c => VFinUnsup c
      | _ => VFinUnsup 101
      end
  | VRet (Some e) s => VFinErr e s
  | VErr e s => VFinErr e s
  | VFuel => VFinFuel
  | VUnsup c => VFinUnsup c
  end.

Definition outcome_of_vfin (f : vfin) : outcome :=
  match f with
  | VFinOk vs s => let '(tr, seen) := canon_trace [] (vtrace s) in
                   let '(ovs, _) := canon_list seen vs in Outcome tr (OOk ovs)
  | VFinErr v s => let '(tr, seen) := canon_trace [] (vtrace s) in
                   let '(ov, _) := canon1 seen v in Outcome tr (OErr ov)
  | VFinFuel => OutFuel
  | VFinUnsup c => OutUnsup c
  end.

Definition vm_fuel : nat := Z.to_nat 300000.

Definition vm_outcome (p : xproto) : outcome := outcome_of_vfin (run_proto vm_fuel p).
