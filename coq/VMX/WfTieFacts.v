(* M-VM and C07: on a prototype that passes C07's checker, the VM model's instruction functions
   never index Code, Constants, FunctionPrototypes or the closure's upvalue slots out of range. *)
From Coq Require Import Floats Lia ZifyBool.
From GL Require Import Common.Bytes Lua.Syntax Lua.Num Lua.Values Lua.Names Lua.Eval.
From GL Require Import VMX.Machine VMX.Step VMX.WfTie.
From GL Require VM.Proto VM.WfProto VM.OpcodeFacts VM.WfFacts.

(* ---------- closure properties of noob ---------- *)
Lemma noob_bind : forall A B (m : VM A) (f : A -> VM B), noob m -> (forall a, noob (f a)) -> noob (vbind m f).
Proof.
  intros A B m f Hm Hf s c H. unfold vbind in H.
  destruct (m s) as [a s1|e s1| |c1] eqn:E; try discriminate.
  - eapply Hf. eassumption.
  - inversion H; subst. eapply Hm. eassumption.
Qed.

Lemma noob_total : forall A (m : VM A), (forall s c, m s <> VUnsup c) -> noob m.
Proof. intros A m H s c E. exfalso. eapply H. eassumption. Qed.

Lemma noob_vunsup : forall A c, oob c = false -> noob (@vunsup A c).
Proof. intros A c H s c' E. inversion E; subst. assumption. Qed.


Lemma noob_vret : forall A (a : A), noob (vret a). Proof. intros. apply noob_total. discriminate. Qed.
Lemma noob_vraise : forall A v, noob (@vraise A v). Proof. intros. apply noob_total. discriminate. Qed.
Lemma noob_vget : noob vget. Proof. apply noob_total. discriminate. Qed.
Lemma noob_vmod : forall f, noob (vmod f). Proof. intros. apply noob_total. discriminate. Qed.
Lemma noob_vmod_reg : forall f, noob (vmod_reg f). Proof. intros. apply noob_total. discriminate. Qed.
Lemma noob_reg_top : noob reg_top. Proof. apply noob_total. discriminate. Qed.
Lemma noob_reg_set : forall i v, noob (reg_set i v). Proof. intros. apply noob_vmod_reg. Qed.
Lemma noob_reg_push : forall v, noob (reg_push v). Proof. intros. apply noob_vmod_reg. Qed.
Lemma noob_reg_settop : forall t, noob (reg_settop t). Proof. intros. apply noob_vmod_reg. Qed.
Lemma noob_read_vtab : forall r, noob (read_vtab r). Proof. intros. apply noob_total. discriminate. Qed.
Lemma noob_write_vtab : forall r t, noob (write_vtab r t). Proof. intros. apply noob_total. discriminate. Qed.
Lemma noob_alloc_vtab : forall t, noob (alloc_vtab t). Proof. intros. apply noob_total. discriminate. Qed.
Lemma noob_alloc_closure : forall c, noob (alloc_closure c). Proof. intros. apply noob_total. discriminate. Qed.
Lemma noob_metaOp1 : forall v e, noob (metaOp1 v e). Proof. intros. apply noob_total. discriminate. Qed.
Lemma noob_closeUpvalues : forall i, noob (closeUpvalues i). Proof. intros. apply noob_vmod. Qed.

Lemma noob_metaOp2 : forall a b e, noob (metaOp2 a b e).
Proof. intros a b e s c H. unfold metaOp2 in H. destruct (negb _); discriminate. Qed.

Lemma noob_findUpvalue : forall i, noob (findUpvalue i).
Proof. intros i s c H. unfold findUpvalue in H. destruct (findUpvalue_st i s). discriminate. Qed.

Lemma noob_cur_frame : noob cur_frame.
Proof. intros s c H. unfold cur_frame in H. destruct (vstack s); inversion H. reflexivity. Qed.

Lemma noob_set_cur_frame : forall f, noob (set_cur_frame f).
Proof. intros f s c H. unfold set_cur_frame in H. destruct (vstack s); inversion H. reflexivity. Qed.

Lemma noob_get_closure : forall c, noob (get_closure c).
Proof. intros c0 s c H. unfold get_closure in H. destruct (nth_error _ _); inversion H. reflexivity. Qed.

Lemma noob_reg_get : forall i, noob (reg_get i).
Proof. intros i s c H. unfold reg_get in H. destruct (Get _ _); inversion H. reflexivity. Qed.

Lemma noob_reg_pop : noob reg_pop.
Proof. intros s c H. unfold reg_pop in H. destruct (Pop _) as [[v|] r]; inversion H. reflexivity. Qed.

Create HintDb noob.
#[export] Hint Resolve noob_vret noob_vraise noob_vget noob_vmod noob_vmod_reg noob_reg_top noob_reg_set
  noob_reg_push noob_reg_settop noob_read_vtab noob_write_vtab noob_alloc_vtab noob_alloc_closure
  noob_metaOp1 noob_metaOp2 noob_closeUpvalues noob_findUpvalue noob_cur_frame noob_set_cur_frame
  noob_get_closure noob_reg_get noob_reg_pop : noob.

Ltac noob_step :=
  match goal with
  | |- noob (vunsup _) => apply noob_vunsup; reflexivity
  | |- noob (vbind _ _) => apply noob_bind; [|intro]
  | |- noob _ => solve [eauto 3 with noob]
  | |- noob (match ?x with _ => _ end) => destruct x
  | |- noob (let '(_, _) := ?x in _) => destruct x
  end.
Ltac noob_tac := repeat noob_step.

Lemma noob_frame_line : forall f, noob (frame_line f).
Proof. intro f. unfold frame_line. noob_tac. Qed.
#[export] Hint Resolve noob_frame_line : noob.

Lemma noob_where_ : forall n l g, noob (where_ n l g).
Proof.
  induction n; intros l g; simpl; [auto with noob|].
  intros s c H. destruct (GetStack (vstack s) l) as [f|]; [|discriminate].
  destruct (fr_fn f).
  - revert H. apply (noob_bind _ _ (frame_line f) (fun l0 => vret (WLine l0))); auto with noob.
  - destruct g; [eapply IHn; eassumption|discriminate].
Qed.

Lemma noob_where_info : forall l g, noob (where_info l g).
Proof. intros l g s c H. unfold where_info in H. eapply noob_where_. eassumption. Qed.
#[export] Hint Resolve noob_where_info : noob.

Lemma noob_raise_msg : forall A m, noob (@raise_msg A m).
Proof. intros. unfold raise_msg. noob_tac. Qed.
Lemma noob_fault : forall A k, noob (@fault_ A k).
Proof. intros. unfold fault_. noob_tac. Qed.
#[export] Hint Resolve noob_raise_msg noob_fault : noob.

Lemma noob_of_num_text : forall f, noob (of_num_text f).
Proof. intro f. unfold of_num_text. noob_tac. Qed.
Lemma noob_parseNumber : forall s, noob (parseNumber s).
Proof. intro s. unfold parseNumber. noob_tac. Qed.
Lemma noob_numberArith : forall o a b, noob (numberArith o a b).
Proof. intros. unfold numberArith. noob_tac. Qed.
#[export] Hint Resolve noob_of_num_text noob_parseNumber noob_numberArith : noob.

Lemma noob_as_text : forall v, noob (as_text v).
Proof. intro v. unfold as_text. noob_tac. Qed.
Lemma noob_forOperand : forall v, noob (forOperand v).
Proof. intro v. unfold forOperand. noob_tac. Qed.
Lemma noob_raw_get : forall r k, noob (raw_get r k).
Proof. intros. unfold raw_get. noob_tac. Qed.
Lemma noob_RawSet : forall r k v, noob (RawSet r k v).
Proof. intros. unfold RawSet. noob_tac. Qed.
Lemma noob_raw_set_nocheck : forall r k v, noob (raw_set_nocheck r k v).
Proof. intros. unfold raw_set_nocheck. noob_tac. Qed.
Lemma noob_metaCall : forall v, noob (metaCall v).
Proof. intros. unfold metaCall. noob_tac. Qed.
Lemma noob_add_pc : forall d, noob (add_pc d).
Proof. intros. unfold add_pc. noob_tac. Qed.
#[export] Hint Resolve noob_as_text noob_forOperand noob_raw_get noob_RawSet noob_raw_set_nocheck
  noob_metaCall noob_add_pc : noob.

Lemma noob_initCallFrame : forall cf, noob (initCallFrame cf).
Proof. intros. unfold initCallFrame. noob_tac. Qed.
#[export] Hint Resolve noob_initCallFrame : noob.

Lemma noob_pushCallFrame : forall ofn b lb rb na nr fn meta, noob (pushCallFrame ofn b lb rb na nr fn meta).
Proof. intros. unfold pushCallFrame. noob_tac. Qed.
#[export] Hint Resolve noob_pushCallFrame : noob.

Lemma noob_upd_thread : forall t f, noob (upd_thread t f).
Proof. intros. unfold upd_thread. auto with noob. Qed.
#[export] Hint Resolve noob_upd_thread : noob.

Lemma noob_reg_get_range : forall n lo, noob (reg_get_range lo n).
Proof. induction n; intros; simpl; noob_tac. Qed.
Lemma noob_reg_push_list : forall vs, noob (reg_push_list vs).
Proof. induction vs; simpl; noob_tac. Qed.
#[export] Hint Resolve noob_reg_get_range noob_reg_push_list : noob.

Lemma noob_switchToParentThread : forall n h k, noob (switchToParentThread n h k).
Proof. intros. unfold switchToParentThread. noob_tac. Qed.
#[export] Hint Resolve noob_switchToParentThread : noob.

Lemma noob_tailcall_lua : forall cf ca lv me na ra, noob (tailcall_lua cf ca lv me na ra).
Proof. intros. unfold tailcall_lua. noob_tac. Qed.
Lemma noob_do_return : forall cf ra b base, noob (do_return cf ra b base).
Proof. intros. unfold do_return. noob_tac. Qed.
#[export] Hint Resolve noob_tailcall_lua noob_do_return : noob.

Section Reent.
Variable ml : option nat -> VM unit.
Hypothesis Hml : forall b, noob (ml b).

Lemma noob_callR : forall a b c, noob (callR ml a b c).
Proof. intros. unfold callR. noob_tac. Qed.
Hint Resolve noob_callR : noob.
Lemma noob_Call : forall a b, noob (Call ml a b).
Proof. intros. unfold Call. auto with noob. Qed.
Hint Resolve noob_Call : noob.

Lemma noob_getField : forall n o k, noob (getField ml n o k).
Proof. induction n; intros; simpl; noob_tac. Qed.
Lemma noob_setField : forall n c o k v, noob (setField ml n c o k v).
Proof. induction n; intros; simpl; noob_tac. Qed.
Lemma noob_objectArith : forall o a b, noob (objectArith ml o a b).
Proof. intros. unfold objectArith. noob_tac. Qed.
Lemma noob_concat_loop : forall f i t r, noob (concat_loop ml f i t r).
Proof. induction f; intros; simpl; noob_tac. Qed.
Hint Resolve noob_concat_loop : noob.
Lemma noob_stringConcat : forall t l, noob (stringConcat ml t l).
Proof. intros. unfold stringConcat. noob_tac. Qed.
Lemma noob_objectRational : forall a b e, noob (objectRational ml a b e).
Proof. intros. unfold objectRational. noob_tac. Qed.
Hint Resolve noob_objectRational : noob.
Lemma noob_objectRationalWithError : forall a b e, noob (objectRationalWithError ml a b e).
Proof. intros. unfold objectRationalWithError. noob_tac. Qed.
Hint Resolve noob_objectRationalWithError : noob.
Lemma noob_lessThan : forall a b, noob (lessThan ml a b).
Proof. intros. unfold lessThan. noob_tac. Qed.
Lemma noob_lessEq : forall a b, noob (lessEq ml a b).
Proof. intros. unfold lessEq. noob_tac. Qed.
Lemma noob_equals : forall a b, noob (equals ml a b).
Proof. intros. unfold equals. noob_tac. Qed.

End Reent.

(* ---------- the prototype as C07 sees it ---------- *)
Module P := VM.Proto.
Module W := VM.WfProto.

Definition fn_of (p : xproto) : P.fn := P.view (to_proto p).

Lemma p_nup_to_proto : forall q, P.p_nup (to_proto q) = xp_nup q.
Proof. destruct q; reflexivity. Qed.

Lemma fn_of_fields : forall p,
  P.f_code (fn_of p) = xp_code p /\
  P.f_kinds (fn_of p) = map kind_of (xp_consts p) /\
  P.f_nsconst (fn_of p) = len (xp_consts p) /\
  P.f_nups (fn_of p) = map xp_nup (xp_subs p) /\
  P.f_nup (fn_of p) = xp_nup p /\
  P.f_nregs (fn_of p) = xp_nregs p.
Proof.
  destruct p as [code consts subs nup np va nr lines ld]. unfold fn_of. simpl.
  repeat split. rewrite map_map. apply map_ext. apply p_nup_to_proto.
Qed.

Lemma zth_some_range : forall A (l : list A) i, 0 <= i < len l -> exists x, zth l i = Some x.
Proof.
  intros A l i H. unfold zth. destruct (i <? 0) eqn:E; [lia|].
  destruct (nth_error l (Z.to_nat i)) eqn:E2; [eauto|].
  apply nth_error_None in E2. unfold len in H. lia.
Qed.

Lemma zth_map_some : forall A B (g : A -> B) (l : list A) i y,
  zth (map g l) i = Some y -> exists x, zth l i = Some x /\ g x = y.
Proof.
  intros A B g l i y H. unfold zth in *. destruct (i <? 0); [discriminate|].
  rewrite nth_error_map in H. destruct (nth_error l (Z.to_nat i)); [|discriminate].
  inversion H. eauto.
Qed.

Lemma pzth_eq : forall A (l : list A) i, P.zth l i = zth l i.
Proof. reflexivity. Qed.

Lemma plen_eq : forall A (l : list A), P.len l = len l.
Proof. reflexivity. Qed.

Lemma const_in_range : forall p i, 0 <= i -> W.const_ok (fn_of p) i = true ->
  exists v, zth (xp_consts p) i = Some v.
Proof.
  intros p i Hi H. unfold W.const_ok in H. destruct (fn_of_fields p) as [_ [Hk _]].
  rewrite Hk in H. rewrite plen_eq in H. unfold len in H. rewrite map_length in H.
  apply zth_some_range. unfold len. lia.
Qed.

Lemma str_const_in_range : forall p i, 0 <= i -> W.str_const (fn_of p) i = true ->
  exists s, zth (xp_consts p) i = Some (VStr s).
Proof.
  intros p i Hi H. unfold W.str_const in H. apply andb_true_iff in H. destruct H as [_ H].
  destruct (fn_of_fields p) as [_ [Hk _]]. rewrite Hk in H. rewrite pzth_eq in H.
  destruct (zth (map kind_of (xp_consts p)) i) as [k|] eqn:E; [|discriminate].
  apply zth_map_some in E. destruct E as [v [Hv Hkv]].
  destruct v; simpl in Hkv; try (subst k; discriminate). eauto.
Qed.

Lemma rkValue_noob : forall p lb x, 0 <= x -> W.rk_ok (fn_of p) x = true -> noob (rkValue p lb x).
Proof.
  intros p lb x Hx H. unfold rkValue. unfold W.rk_ok in H.
  destruct (opIsK x).
  - destruct (const_in_range p (opIndexK x)) as [v Hv]; [apply VM.WfFacts.opIndexK_nonneg; assumption|assumption|].
    rewrite Hv. auto with noob.
  - auto with noob.
Qed.

(* a register operand of a function whose frame fits the limit is never read as a constant *)
Lemma rkValue_reg : forall p lb x, 0 <= x -> xp_nregs p <= W.frame_limit -> W.reg_ok (fn_of p) x = true ->
  rkValue p lb x = reg_get (lb + x).
Proof.
  intros p lb x Hx Hl H. unfold rkValue. apply VM.WfFacts.reg_ok_lt in H.
  destruct (fn_of_fields p) as [_ [_ [_ [_ [_ Hn]]]]]. rewrite Hn in H.
  unfold W.frame_limit in Hl.
  rewrite VM.WfFacts.small_not_K by lia. reflexivity.
Qed.

Lemma kstring_noob : forall p i, 0 <= i -> W.str_const (fn_of p) i = true -> noob (kstring p i).
Proof.
  intros p i Hi H. unfold kstring. destruct (str_const_in_range p i Hi H) as [s Hs]. rewrite Hs. auto with noob.
Qed.

Lemma rkString_noob : forall p lb x, 0 <= x -> W.strk_ok (fn_of p) x = true -> noob (rkString p lb x).
Proof.
  intros p lb x Hx H. unfold rkString. apply noob_bind.
  - unfold rkValue. unfold W.strk_ok in H. destruct (opIsK x).
    + destruct (str_const_in_range p (opIndexK x)) as [s Hs]; [apply VM.WfFacts.opIndexK_nonneg; assumption|assumption|].
      rewrite Hs. auto with noob.
    + auto with noob.
  - intro v. noob_tac.
Qed.

Lemma get_upval_noob : forall cl b, closure_ok cl -> 0 <= b -> W.upval_ok (fn_of (cl_proto cl)) b = true ->
  noob (get_upval cl b).
Proof.
  intros cl b Hc Hb H. unfold get_upval. unfold W.upval_ok in H.
  destruct (fn_of_fields (cl_proto cl)) as [_ [_ [_ [_ [Hn _]]]]]. rewrite Hn in H.
  destruct (zth_some_range _ (cl_upvals cl) b) as [u Hu]; [unfold closure_ok in Hc; lia|].
  rewrite Hu. auto with noob.
Qed.

Lemma code_at_noob : forall p pc, 0 <= pc < len (xp_code p) -> noob (code_at p pc).
Proof.
  intros p pc H. unfold code_at. destruct (zth_some_range _ (xp_code p) pc H) as [w Hw]. rewrite Hw. auto with noob.
Qed.

Lemma getA_nonneg : forall w, 0 <= opGetArgA w. Proof. intro w. pose proof (VM.OpcodeFacts.getA_range w). lia. Qed.
Lemma getB_nonneg : forall w, 0 <= opGetArgB w. Proof. intro w. pose proof (VM.OpcodeFacts.getB_range w). lia. Qed.
Lemma getC_nonneg : forall w, 0 <= opGetArgC w. Proof. intro w. pose proof (VM.OpcodeFacts.getC_range w). lia. Qed.
Lemma getBx_nonneg : forall w, 0 <= opGetArgBx w. Proof. intro w. pose proof (VM.OpcodeFacts.getBx_range w). lia. Qed.

(* ---------- the multi-word instructions ---------- *)
Lemma MOVEN_loop_noob : forall code lbase k pc,
  (forall t, pc <= t < pc + Z.of_nat k -> 0 <= t < len code) ->
  noob (MOVEN_loop code lbase k pc).
Proof.
  intros code lbase. induction k; intros pc H; simpl; [auto with noob|].
  destruct (zth_some_range _ code pc) as [w Hw]; [apply H; lia|]. rewrite Hw.
  noob_tac. apply IHk. intros t Ht. apply H. lia.
Qed.

Lemma noob_bind_vret : forall A B (a : A) (f : A -> VM B), noob (f a) -> noob (vbind (vret a) f).
Proof. intros A B a f H s c E. unfold vbind, vret in E. eapply H. eassumption. Qed.

Lemma word_of_zth : forall code t w, zth code t = Some w -> W.word code t = w.
Proof. intros code t w H. unfold W.word. rewrite pzth_eq. rewrite H. reflexivity. Qed.

Lemma capture_loop_S : forall p cl lbase k pc acc,
  capture_loop p cl lbase (S k) pc acc =
  vdo inst <- code_at p pc;
  match op_of_code (opGetOpCode inst) with
  | Some OP_MOVE => vdo u <- findUpvalue (lbase + opGetArgB inst); capture_loop p cl lbase k (pc + 1) (u :: acc)
  | Some OP_GETUPVAL => vdo u <- get_upval cl (opGetArgB inst); capture_loop p cl lbase k (pc + 1) (u :: acc)
  | _ => vunsup 105
  end.
Proof. reflexivity. Qed.

Lemma capture_loop_noob : forall cl lbase k pc acc,
  closure_ok cl ->
  (forall t, pc <= t < pc + Z.of_nat k ->
      W.capture_ok (fn_of (cl_proto cl)) (W.tags_of (fn_of (cl_proto cl))) t = true) ->
  noob (capture_loop (cl_proto cl) cl lbase k pc acc).
Proof.
  intros cl lbase k. induction k; intros pc acc Hc H; [apply noob_vret|].
  rewrite capture_loop_S.
  assert (Hcap := H pc ltac:(lia)).
  pose proof (VM.WfFacts.capture_facts _ _ Hcap) as [Hr _].
  destruct (fn_of_fields (cl_proto cl)) as [Hcode [_ [_ [_ [Hnup _]]]]].
  rewrite Hcode in Hr. rewrite plen_eq in Hr.
  destruct (zth_some_range _ (xp_code (cl_proto cl)) pc Hr) as [w Hw].
  unfold code_at. rewrite Hw. apply noob_bind_vret.
  unfold W.capture_ok in Hcap. apply andb_true_iff in Hcap. destruct Hcap as [_ Hcap].
  rewrite Hcode in Hcap. rewrite (word_of_zth _ _ _ Hw) in Hcap.
  assert (IH : forall u, noob (capture_loop (cl_proto cl) cl lbase k (pc + 1) (u :: acc))).
  { intro u. apply IHk; [assumption|]. intros t Ht. apply H. lia. }
  destruct (op_of_code (opGetOpCode w)) as [o|]; [|discriminate].
  destruct o; try discriminate.
  - apply noob_bind; [auto with noob|exact IH].
  - apply noob_bind; [|exact IH]. apply get_upval_noob; [assumption|apply getB_nonneg|exact Hcap].
Qed.

Lemma loadnil_loop_noob : forall k i, noob (loadnil_loop i k).
Proof. induction k; intros; cbn [loadnil_loop]; noob_tac. Qed.

Lemma setlist_loop_noob : forall k tb ra off i, noob (setlist_loop tb ra off i k).
Proof. induction k; intros; cbn [setlist_loop]; noob_tac. Qed.

#[export] Hint Resolve loadnil_loop_noob setlist_loop_noob getA_nonneg getB_nonneg getC_nonneg getBx_nonneg
  rkValue_noob kstring_noob rkString_noob get_upval_noob : noob.

Ltac split_ands :=
  repeat match goal with H : _ && _ = true |- _ => apply andb_true_iff in H; destruct H end.

Section Main.
Variable ml : option nat -> VM unit.
Variable gf : builtin -> VM Z.
Hypothesis Hml : forall b, noob (ml b).
Hypothesis Hgf : forall b, noob (gf b).

Lemma noob_callGFunction : forall t, noob (callGFunction gf t).
Proof. intros. unfold callGFunction. noob_tac. Qed.

Hint Resolve noob_callR noob_Call noob_getField noob_setField noob_objectArith noob_stringConcat
  noob_lessThan noob_lessEq noob_equals noob_callGFunction : noob.

(* every instruction except OP_TFORLOOP (see the note at wf_exec_op_noob) *)
Theorem wf_exec_op_noob_lemma : forall cl cf inst base o,
  closure_ok cl ->
  xp_nregs (cl_proto cl) <= W.frame_limit ->
  0 <= fr_pc cf - 1 ->
  op_of_code (opGetOpCode inst) = Some o ->
  W.inst_ok (fn_of (cl_proto cl)) (W.tags_of (fn_of (cl_proto cl))) (fr_pc cf - 1) inst = true ->
  o <> OP_TFORLOOP ->
  noob (exec_op ml gf cl cf inst base).
Proof.
  intros cl cf inst base o Hcl Hregs Hpc Hop H Hno.
  destruct (fn_of_fields (cl_proto cl)) as [Hcode [Hkinds [Hnsc [Hnups [Hnup Hnregs]]]]].
  unfold exec_op. rewrite Hop. unfold W.inst_ok in H. rewrite Hop in H.
  destruct o; cbn [W.modes_ok opProps Type_ ModeArgB ModeArgC W.mode_ok] in H; split_ands;
    try solve [noob_tac].
  - (* OP_MOVEN *)
    apply noob_bind; [auto with noob|intro v]. apply noob_bind; [auto with noob|intros _].
    apply noob_bind; [|intro; noob_tac].
    apply MOVEN_loop_noob. intros t Ht.
    pose proof (VM.WfFacts.words_ok_spec _ _ _ H1 t) as Hw.
    rewrite Z2Nat.id in * by apply getC_nonneg.
    specialize (Hw ltac:(lia)).
    apply VM.WfFacts.moven_tail_facts in Hw. destruct Hw as [Hr _].
    rewrite Hcode in Hr. rewrite plen_eq in Hr. exact Hr.
  - (* OP_LOADK *)
    destruct (const_in_range (cl_proto cl) (opGetArgBx inst) (getBx_nonneg inst) H) as [v Hv].
    rewrite Hv. noob_tac.
  - (* OP_UNM: the operand mode is R, the code reads it with rkValue *)
    rewrite (rkValue_reg _ _ _ (getB_nonneg inst) Hregs H). noob_tac.
  - (* OP_LEN *)
    rewrite (rkValue_reg _ _ _ (getB_nonneg inst) Hregs H). noob_tac.
  - exfalso. apply Hno. reflexivity.
  - (* OP_SETLIST *)
    apply noob_bind; [|intro; noob_tac].
    destruct (opGetArgC inst =? 0) eqn:EC; [|auto with noob].
    split_ands.
    match goal with Hx : W.tag_is _ _ 3 = true |- _ => pose proof Hx as Ht end.
    apply VM.WfFacts.tag_is_range in Ht. rewrite VM.WfFacts.tags_len in Ht. rewrite Hcode in Ht. rewrite plen_eq in Ht.
    apply noob_bind; [apply code_at_noob; lia|intro; noob_tac].
  - (* OP_CLOSURE *)
    assert (HBx : opGetArgBx inst < len (xp_subs (cl_proto cl))).
    { match goal with Hx : (opGetArgBx inst <? _) = true |- _ => rewrite Hnups in Hx; rewrite plen_eq in Hx; unfold len in Hx; rewrite map_length in Hx end.
      unfold len. lia. }
    destruct (zth_some_range _ (xp_subs (cl_proto cl)) (opGetArgBx inst)) as [proto Hp]; [pose proof (getBx_nonneg inst); lia|].
    rewrite Hp.
    assert (Hk : fst (W.group_of (fn_of (cl_proto cl)) inst) = xp_nup proto).
    { unfold W.group_of. rewrite Hop. rewrite Hnups. rewrite pzth_eq.
      unfold zth in *. destruct (opGetArgBx inst <? 0); [discriminate|].
      rewrite nth_error_map. rewrite Hp. reflexivity. }
    apply noob_bind; [auto with noob|intro ci]. apply noob_bind; [auto with noob|intros _].
    apply noob_bind; [|intro; noob_tac].
    apply capture_loop_noob; [assumption|]. intros t Ht.
    match goal with Hx : W.words_ok _ _ _ = true |- _ => rewrite Hk in Hx; pose proof (VM.WfFacts.words_ok_spec _ _ _ Hx t) as Hw end.
    apply Hw. lia.
Qed.

End Main.

(* the same from the whole-function verdict of C07's checker: at every instruction head of a
   function that passes wf_fn, the instruction the VM model fetches there (any opcode but
   OP_TFORLOOP) executes without an out-of-range access of its own *)
Theorem wf_step_noob_lemma : forall ml gf cl cf inst base o,
  (forall b, noob (ml b)) -> (forall b, noob (gf b)) ->
  W.wf_fn (fn_of (cl_proto cl)) = true ->
  closure_ok cl ->
  VM.WfFacts.pc_ok (fn_of (cl_proto cl)) (fr_pc cf - 1) ->
  zth (xp_code (cl_proto cl)) (fr_pc cf - 1) = Some inst ->
  op_of_code (opGetOpCode inst) = Some o -> o <> OP_TFORLOOP ->
  noob (exec_op ml gf cl cf inst base).
Proof.
  intros ml gf cl cf inst base o Hml Hgf Hwf Hcl Hpc Hz Hop Hno.
  destruct (VM.WfFacts.head_inst_ok _ _ Hwf Hpc) as [w [Hw Hok]].
  destruct (fn_of_fields (cl_proto cl)) as [Hcode [_ [_ [_ [_ Hnregs]]]]].
  rewrite Hcode in Hw. rewrite pzth_eq in Hw. rewrite Hz in Hw. inversion Hw; subst w.
  pose proof (VM.WfFacts.wf_fn_facts _ Hwf) as [_ [_ [_ [_ [_ [Hlim _]]]]]].
  rewrite Hnregs in Hlim.
  pose proof (VM.WfFacts.pc_ok_range _ _ Hpc) as Hr.
  eapply wf_exec_op_noob_lemma; eauto. lia.
Qed.
