(* M-VM: facts about the call-frame stack and the upvalue list across OP_TAILCALL, OP_RETURN and
   OP_CLOSE of VMX/Step.v, for arbitrary states. *)
From Coq Require Import Floats Lia ZifyBool Relations.
From GL Require Import Common.Bytes Lua.Syntax Lua.Num Lua.Values Lua.Names Lua.Eval.
From GL Require Import VMX.Machine VMX.Step VMX.Spec VMX.UpvalFacts.

(* inversion of a bind that returned *)
Lemma vbind_ret : forall A B (m : VM A) (f : A -> VM B) s b s',
  vbind m f s = VRet b s' -> exists a s1, m s = VRet a s1 /\ f a s1 = VRet b s'.
Proof.
  intros A B m f s b s' H. unfold vbind in H.
  destruct (m s) as [a s1|e s1| |c]; try discriminate. exists a, s1. auto.
Qed.

Ltac inv_ret H := inversion H; clear H.
Ltac bind_inv H a s1 Ha := apply vbind_ret in H; destruct H as [a [s1 [Ha H]]].

Lemma keeps_bind : forall A B (R : vstate -> vstate -> Prop) (m : VM A) (f : A -> VM B),
  (forall a b c, R a b -> R b c -> R a c) ->
  keeps R m -> (forall a, keeps R (f a)) -> keeps R (vbind m f).
Proof.
  intros A B R m f Ht Hm Hf s b s' H.
  apply vbind_ret in H. destruct H as [a [s1 [Ha Hb]]].
  eapply Ht; [eapply Hm; eassumption|eapply Hf; eassumption].
Qed.

Lemma depth_uv_refl : forall s, depth_uv s s.
Proof. intro s. repeat split. Qed.

Lemma depth_uv_trans : forall a b c, depth_uv a b -> depth_uv b c -> depth_uv a c.
Proof.
  intros a b c [Ha [Hb Hc]] [Hd [He Hf]]. unfold depth_uv, same_depth, same_uv in *.
  repeat split; congruence.
Qed.

Lemma keeps_vret : forall A (a : A), keeps depth_uv (vret a).
Proof. intros A a s x s' H. inversion H. subst. apply depth_uv_refl. Qed.

Lemma keeps_vmod_reg : forall f, keeps depth_uv (vmod_reg f).
Proof. intros f s x s' H. inversion H. subst. repeat split. Qed.

Lemma keeps_vget : keeps depth_uv vget.
Proof. intros s x s' H. inversion H. subst. apply depth_uv_refl. Qed.

Lemma keeps_reg_top : keeps depth_uv reg_top.
Proof. intros s x s' H. inversion H. subst. apply depth_uv_refl. Qed.

Lemma keeps_reg_get : forall i, keeps depth_uv (reg_get i).
Proof. intros i s x s' H. unfold reg_get in H. destruct (Get (vreg s) i); inversion H. subst. apply depth_uv_refl. Qed.

Lemma keeps_set_cur_frame : forall f, keeps depth_uv (set_cur_frame f).
Proof.
  intros f s x s' H. unfold set_cur_frame in H. destruct (vstack s) eqn:E; inversion H. subst.
  unfold depth_uv, same_depth, same_uv. simpl. rewrite E. repeat split.
Qed.

Lemma keeps_get_closure : forall c, keeps depth_uv (get_closure c).
Proof. intros c s x s' H. unfold get_closure in H. destruct (nth_error (vclos s) c); inversion H. subst. apply depth_uv_refl. Qed.

Lemma keeps_alloc_vtab : forall t, keeps depth_uv (alloc_vtab t).
Proof. intros t s x s' H. inversion H. subst. repeat split. Qed.

Lemma keeps_metaOp1 : forall v e, keeps depth_uv (metaOp1 v e).
Proof. intros v e s x s' H. inversion H. subst. apply depth_uv_refl. Qed.

Lemma keeps_metaCall : forall v, keeps depth_uv (metaCall v).
Proof.
  intros v. unfold metaCall. destruct (fnref_of v); [apply keeps_vret|].
  apply keeps_bind; [exact depth_uv_trans|apply keeps_metaOp1|].
  intro h. destruct (fnref_of h); apply keeps_vret.
Qed.

Ltac keeps_tac :=
  repeat first
    [ apply keeps_vret | apply keeps_vmod_reg | apply keeps_vget | apply keeps_reg_top
    | apply keeps_reg_get | apply keeps_set_cur_frame | apply keeps_get_closure
    | apply keeps_alloc_vtab | apply keeps_metaCall
    | apply keeps_bind; [exact depth_uv_trans| |intro]
    | match goal with |- keeps _ (match ?x with _ => _ end) => destruct x end
    | match goal with |- keeps _ (let '(_, _) := ?x in _) => destruct x end ].

Lemma keeps_reg_settop : forall t, keeps depth_uv (reg_settop t).
Proof. intro t. unfold reg_settop. keeps_tac. Qed.

Lemma keeps_initCallFrame : forall cf, keeps depth_uv (initCallFrame cf).
Proof. intro cf. unfold initCallFrame. pose proof keeps_reg_settop. keeps_tac; auto. Qed.

(* ---------- proper tail calls ---------- *)
(* an OP_TAILCALL whose callee is a Lua function re-uses the frame: the frame-stack depth, the
   upvalue heap and the open list are what they were (the upvalues were closed just before) *)
Theorem tailcall_lua_keeps : forall cf callable lv meta nargs RA,
  keeps depth_uv (tailcall_lua cf callable lv meta nargs RA).
Proof. intros. unfold tailcall_lua. pose proof keeps_initCallFrame. keeps_tac; auto. Qed.

Theorem tailcall_depth : forall cf callable lv meta nargs RA s b s',
  tailcall_lua cf callable lv meta nargs RA s = VRet b s' ->
  length (vstack s') = length (vstack s).
Proof. intros. eapply tailcall_lua_keeps. eassumption. Qed.

(* the same at the level of the instruction: whatever the operands, if the callee found by
   metaCall is a Lua function the depth is unchanged by the whole OP_TAILCALL *)
Theorem tailcall_depth_op : forall ml gf cl cf inst base s b s',
  op_of_code (opGetOpCode inst) = Some OP_TAILCALL ->
  (forall lv fm s0, reg_get (fr_localbase cf + opGetArgA inst) s = VRet lv s0 ->
                    metaCall lv s0 = VRet fm s0 -> exists c, fst fm = Some (FnLua c)) ->
  exec_op ml gf cl cf inst base s = VRet b s' ->
  length (vstack s') = length (vstack s).
Proof.
  intros ml gf cl cf inst base s b s' Hop Hlua H.
  unfold exec_op in H. rewrite Hop in H.
  bind_inv H top s1 Etop.
  assert (s1 = s) by (inversion Etop; reflexivity). subst s1.
  bind_inv H lv s2 Elv.
  assert (s2 = s) by (unfold reg_get in Elv; destruct (Get (vreg s) _); inversion Elv; reflexivity). subst s2.
  bind_inv H fm s3 Efm.
  assert (E3 : s3 = s).
  { pose proof Efm as Efm'. unfold metaCall in Efm'. destruct (fnref_of lv).
    - inversion Efm'. reflexivity.
    - bind_inv Efm' h s4 Eh. assert (s4 = s) by (inversion Eh; reflexivity). subst s4.
      destruct (fnref_of h); inversion Efm'; reflexivity. }
  subst s3.
  destruct (Hlua lv fm s Elv Efm) as [c Hc]. rewrite Hc in H.
  bind_inv H u s4 Ecl.
  assert (s4 = closeUpvalues_st (fr_localbase cf) s) by (inversion Ecl; reflexivity). subst s4.
  apply tailcall_depth in H. rewrite H. reflexivity.
Qed.

(* any number of consecutive Lua tail calls leaves the depth where it was *)
Theorem tailcall_n : forall s s', clos_refl_trans _ tc_step s s' -> length (vstack s') = length (vstack s).
Proof.
  intros s s' H. induction H as [x y [cf [ca [lv [me [na [ra [b Hs]]]]]]]|x|x y z _ IH1 _ IH2].
  - eapply tailcall_depth. eassumption.
  - reflexivity.
  - congruence.
Qed.

(* ---------- OP_RETURN ---------- *)
Lemma cur_parent_close : forall i s,
  th_parent (get_thread (closeUpvalues_st i s) (vcur (closeUpvalues_st i s))) = th_parent (get_thread s (vcur s)).
Proof.
  intros i s. unfold get_thread. rewrite !Nat.eqb_refl. reflexivity.
Qed.

(* a return pops exactly one frame; before anything else it closes the frame's upvalues, so no
   open upvalue is left at or above the frame's LocalBase and the list is still sorted and open *)
Theorem return_spec : forall cf RA B base s b s',
  vstack s <> [] -> state_cache_inv s -> not_coroutine_bottom s ->
  do_return cf RA B base s = VRet b s' ->
  S (length (vstack s')) = length (vstack s) /\
  state_cache_inv s' /\
  (forall u, In u (vuvcache s') -> uv_index (uvat (vuvs s') u) < fr_localbase cf).
Proof.
  intros cf RA B base s b s' Hne Hinv Hnb H. unfold do_return in H.
  bind_inv H u0 s1 E1.
  assert (s1 = closeUpvalues_st (fr_localbase cf) s) by (inversion E1; reflexivity). subst s1.
  destruct (close_ge (fr_localbase cf) s Hinv) as [Hi [Hlt [_ [_ [Hreg Hstk]]]]].
  pose proof (cur_parent_close (fr_localbase cf) s) as Hpar.
  set (sc := closeUpvalues_st (fr_localbase cf) s) in *.
  bind_inv H top s2 E2. assert (s2 = sc) by (inversion E2; reflexivity). subst s2.
  bind_inv H s0 s3 E3. assert (s3 = sc /\ s0 = sc) by (inversion E3; split; reflexivity). destruct H0; subst s3 s0.
  assert (Hcond : (match th_parent (get_thread sc (vcur sc)) with Some _ => true | None => false end
                   && Nat.eqb (length (vstack sc)) 1) = false).
  { rewrite Hpar, Hstk. destruct Hnb as [Hn|Hn]; [rewrite Hn; reflexivity|].
    apply andb_false_iff. right. apply Nat.eqb_neq. exact Hn. }
  rewrite Hcond in H.
  bind_inv H u1 s4 E4. assert (s4 = with_stack sc (tl (vstack sc))) by (inversion E4; reflexivity). subst s4.
  bind_inv H s5 s6 E6. assert (s6 = with_stack sc (tl (vstack sc))) by (inversion E6; reflexivity). subst s6.
  bind_inv H u2 s7 E7.
  assert (Hs7 : vstack s7 = tl (vstack sc) /\ vuvs s7 = vuvs sc /\ vuvcache s7 = vuvcache sc)
    by (inversion E7; repeat split; reflexivity).
  destruct Hs7 as [Hk [Hu Hc]].
  assert (s' = s7) by (inversion H; reflexivity). subst s'.
  unfold state_cache_inv in *. rewrite Hk, Hu, Hc. split; [|split].
  - rewrite Hstk. destruct (vstack s); [congruence|reflexivity].
  - exact Hi.
  - intros u Hin. apply Hlt. exact Hin.
Qed.

Theorem no_dangling_after_return : forall cf RA B base s b s' u,
  vstack s <> [] -> state_cache_inv s -> not_coroutine_bottom s ->
  do_return cf RA B base s = VRet b s' ->
  In u (vuvcache s') -> uv_index (uvat (vuvs s') u) < fr_localbase cf.
Proof. intros. eapply return_spec; eassumption. Qed.

(* the same for a tail call (it closes at LocalBase first, then keeps the heap and the list) *)
Theorem no_dangling_after_tailcall : forall cf callable lv meta nargs RA s b s' u,
  state_cache_inv s ->
  (vdo _ <- closeUpvalues (fr_localbase cf); tailcall_lua cf callable lv meta nargs RA) s = VRet b s' ->
  state_cache_inv s' /\
  (In u (vuvcache s') -> uv_index (uvat (vuvs s') u) < fr_localbase cf).
Proof.
  intros cf callable lv meta nargs RA s b s' u Hinv H.
  bind_inv H u0 s1 E1.
  assert (s1 = closeUpvalues_st (fr_localbase cf) s) by (inversion E1; reflexivity). subst s1.
  destruct (close_ge (fr_localbase cf) s Hinv) as [Hi [Hlt _]].
  apply tailcall_lua_keeps in H. destruct H as [_ [Hu Hc]].
  unfold state_cache_inv in *. rewrite Hu, Hc. split; [exact Hi|].
  intro Hin. apply Hlt. exact Hin.
Qed.

(* ---------- PCall's recovery ---------- *)
(* after a protected call has caught an error (with or without a message handler): the frames
   above the protected call are gone, the registry ends at the callee's slot, and no open upvalue
   is left at or above it - the registers of the unwound frames are not referenced any more *)
Theorem pcall_recovery_dangle_free : forall sp base s,
  state_cache_inv s ->
  let s' := unwind sp base s in
  state_cache_inv s' /\
  rtop (vreg s') = base /\
  (length (vstack s') <= length (vstack s))%nat /\
  (forall u, In u (vuvcache s') -> uv_index (uvat (vuvs s') u) < base /\ uv_closed (uvat (vuvs s') u) = false).
Proof.
  intros sp base s Hinv. cbv zeta. unfold unwind.
  assert (Hinv' : state_cache_inv (SetSp sp s)) by exact Hinv.
  destruct (close_ge base (SetSp sp s) Hinv') as [Hi [Hlt [_ [_ [_ Hstk]]]]].
  set (s1 := closeUpvalues_st base (SetSp sp s)) in *.
  split; [exact Hi|]. split; [reflexivity|]. split.
  - change (vstack (with_reg s1 (SetTop (vreg s1) base))) with (vstack s1).
    rewrite Hstk. unfold SetSp. simpl. rewrite skipn_length. lia.
  - intros u Hu. apply Hlt. exact Hu.
Qed.
