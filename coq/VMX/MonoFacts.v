(* M-VM: the result of a run does not depend on the fuel. Everything in VMX/Step.v and
   VMX/Builtins.v that re-enters the main loop is monotone in the [mainloop] it is given, for the
   order "ran out of fuel, or the same result"; VMX/VRunFacts.v concludes for the runner. *)
From Coq Require Import Floats Lia ZifyBool.
From GL Require Import Common.Bytes Lua.Syntax Lua.Num Lua.Values Lua.Names Lua.Eval Str.StrModel.
From GL Require Import VMX.Machine VMX.Step VMX.Builtins.

Definition rle {A} (r1 r2 : vres A) : Prop := r1 = VFuel \/ r1 = r2.
Definition vle {A} (m1 m2 : VM A) : Prop := forall s, rle (m1 s) (m2 s).

Lemma rle_refl : forall A (r : vres A), rle r r.
Proof. intros. right. reflexivity. Qed.

Lemma vle_refl : forall A (m : VM A), vle m m.
Proof. intros A m s. apply rle_refl. Qed.

Lemma rle_trans : forall A (a b c : vres A), rle a b -> rle b c -> rle a c.
Proof. intros A a b c [E | E] H; rewrite E; [left; reflexivity|exact H]. Qed.

Lemma vle_trans : forall A (a b c : VM A), vle a b -> vle b c -> vle a c.
Proof. intros A a b c H1 H2 s. eapply rle_trans; [apply H1|apply H2]. Qed.

Lemma vbind_mono : forall A B (m1 m2 : VM A) (f1 f2 : A -> VM B),
  vle m1 m2 -> (forall a, vle (f1 a) (f2 a)) -> vle (vbind m1 f1) (vbind m2 f2).
Proof.
  intros A B m1 m2 f1 f2 Hm Hf s. unfold vbind.
  destruct (Hm s) as [E|E]; rewrite E.
  - left. reflexivity.
  - destruct (m2 s); try apply rle_refl. apply Hf.
Qed.

(* walk through a monadic term whose two sides differ only in the main loop they are given *)
Ltac mono_step :=
  match goal with
  | |- vle ?a ?a => apply vle_refl
  | H : vle ?a ?b |- vle ?a ?b => exact H
  | H : _ |- vle _ _ => solve [apply H]
  | |- vle (vbind _ _) (vbind _ _) => apply vbind_mono; [|intro]
  | |- vle (match ?x with _ => _ end) (match ?x with _ => _ end) => destruct x
  | |- vle (let '(_, _) := ?x in _) (let '(_, _) := ?x in _) => destruct x
  end.
Ltac mono := repeat mono_step.

Section Mono.

Variables ml1 ml2 : option nat -> VM unit.
Hypothesis Hml : forall b, vle (ml1 b) (ml2 b).

Lemma callR_mono : forall nargs nret rbase, vle (callR ml1 nargs nret rbase) (callR ml2 nargs nret rbase).
Proof. intros. unfold callR. mono. Qed.

Lemma Call_mono : forall nargs nret, vle (Call ml1 nargs nret) (Call ml2 nargs nret).
Proof. intros. unfold Call. apply callR_mono. Qed.

Lemma PCall_mono : forall nargs nret h, vle (PCall ml1 nargs nret h) (PCall ml2 nargs nret h).
Proof.
  intros nargs nret h s. unfold PCall.
  destruct (Call_mono nargs nret s) as [E|E]; rewrite E; [left; reflexivity|].
  destruct (Call ml2 nargs nret s) as [a s'|e s'| |c]; try apply rle_refl.
  destruct h as [h|]; [|apply rle_refl].
  assert (Hh : vle (vdo _ <- reg_push h; vdo _ <- reg_push e; vdo _ <- Call ml1 1 1; vdo t <- reg_top; reg_get (t - 1))
                   (vdo _ <- reg_push h; vdo _ <- reg_push e; vdo _ <- Call ml2 1 1; vdo t <- reg_top; reg_get (t - 1))).
  { pose proof Call_mono. mono. }
  cbv zeta. destruct (Hh (set_nccalls (cur_nccalls s) s')) as [E2|E2]; rewrite E2; [left; reflexivity|apply rle_refl].
Qed.

Lemma getField_mono : forall n o k, vle (getField ml1 n o k) (getField ml2 n o k).
Proof.
  pose proof Call_mono as HC.
  induction n; intros o k; simpl; [apply vle_refl|]. mono.
Qed.

Lemma setField_mono : forall n c o k v, vle (setField ml1 n c o k v) (setField ml2 n c o k v).
Proof.
  pose proof Call_mono as HC.
  induction n; intros c o k v; simpl; [apply vle_refl|]. mono.
Qed.

Lemma objectArith_mono : forall o a b, vle (objectArith ml1 o a b) (objectArith ml2 o a b).
Proof. pose proof Call_mono as HC. intros. unfold objectArith. mono. Qed.

Lemma concat_loop_mono : forall f i t r, vle (concat_loop ml1 f i t r) (concat_loop ml2 f i t r).
Proof.
  pose proof Call_mono as HC.
  induction f; intros i t r; simpl; [apply vle_refl|]. mono.
Qed.

Lemma stringConcat_mono : forall t l, vle (stringConcat ml1 t l) (stringConcat ml2 t l).
Proof. pose proof concat_loop_mono as HC. intros. unfold stringConcat. mono. Qed.

Lemma objectRational_mono : forall a b e, vle (objectRational ml1 a b e) (objectRational ml2 a b e).
Proof. pose proof Call_mono as HC. intros. unfold objectRational. mono. Qed.

Lemma objectRationalWithError_mono : forall a b e,
  vle (objectRationalWithError ml1 a b e) (objectRationalWithError ml2 a b e).
Proof. pose proof objectRational_mono as HC. intros. unfold objectRationalWithError. mono. Qed.

Lemma lessThan_mono : forall a b, vle (lessThan ml1 a b) (lessThan ml2 a b).
Proof. pose proof objectRationalWithError_mono as HC. intros. unfold lessThan. mono. Qed.

Lemma lessEq_mono : forall a b, vle (lessEq ml1 a b) (lessEq ml2 a b).
Proof.
  pose proof objectRationalWithError_mono as HC. pose proof objectRational_mono as HC2.
  intros. unfold lessEq. mono.
Qed.

Lemma equals_mono : forall a b, vle (equals ml1 a b) (equals ml2 a b).
Proof. pose proof objectRational_mono as HC. intros. unfold equals. mono. Qed.

Lemma ToStringMeta_mono : forall v, vle (ToStringMeta ml1 v) (ToStringMeta ml2 v).
Proof. pose proof Call_mono as HC. intros. unfold ToStringMeta. mono. Qed.

Lemma threadRun_mono : forall t me w, vle (threadRun ml1 t me w) (threadRun ml2 t me w).
Proof.
  intros t me w s. unfold threadRun.
  destruct (Hml None s) as [E|E]; rewrite E; [left; reflexivity|apply rle_refl].
Qed.

Lemma resumeThread_mono : forall w, vle (resumeThread ml1 w) (resumeThread ml2 w).
Proof. pose proof threadRun_mono as HT. intro w. unfold resumeThread. mono. Qed.

Lemma gfunction_mono : forall b, vle (gfunction ml1 b) (gfunction ml2 b).
Proof.
  pose proof Call_mono as HC. pose proof PCall_mono as HP. pose proof ToStringMeta_mono as HT.
  pose proof resumeThread_mono as HR.
  intros. unfold gfunction. mono.
Qed.

Section MonoInst.
Variables gf1 gf2 : builtin -> VM Z.
Hypothesis Hgf : forall b, vle (gf1 b) (gf2 b).

Lemma callGFunction_mono : forall t, vle (callGFunction gf1 t) (callGFunction gf2 t).
Proof. intros. unfold callGFunction. mono. Qed.

Lemma exec_op_mono : forall cl cf inst base, vle (exec_op ml1 gf1 cl cf inst base) (exec_op ml2 gf2 cl cf inst base).
Proof.
  pose proof Call_mono as H1. pose proof callR_mono as H2. pose proof getField_mono as H3.
  pose proof setField_mono as H4. pose proof objectArith_mono as H5. pose proof stringConcat_mono as H6.
  pose proof lessThan_mono as H7. pose proof lessEq_mono as H8. pose proof equals_mono as H9.
  pose proof callGFunction_mono as H10.
  intros. unfold exec_op. mono.
Qed.

Lemma exec_inst_mono : forall inst base, vle (exec_inst ml1 gf1 inst base) (exec_inst ml2 gf2 inst base).
Proof. pose proof exec_op_mono as H. intros. unfold exec_inst. mono. Qed.

End MonoInst.
End Mono.
