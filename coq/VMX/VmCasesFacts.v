(* What a passed VProg case certifies (soundness of the per-program validator). *)
From Coq Require Import Floats.
From GL Require Import Common.Bytes Lua.Syntax Lua.Num Lua.Values Lua.Eval Lua.Run Lua.LuaCases.
From GL Require Import VMX.Machine VMX.VRun VMX.VmCases.
From GL Require CC.CompModel.

(* the kernel-evaluated certificate of one generated program: the reference evaluator on its AST,
   the VM model on the prototype the real compiler produced for its text, and the real
   interpreter's observation all agree (on the canonical observables) *)
Definition certified (body : list stmt) (p : xproto) (obs : outcome) : Prop :=
  outcome_eqb (outcome_of (run_program fuel no_devs body)) obs = true /\
  outcome_eqb (vm_outcome p) obs = true.

Local Opaque run_program vm_outcome outcome_of outcome_eqb CompModel.frag_tie.

Theorem vprog_validated : forall body p obs,
  check_skip (VProg body p obs) = false -> vm_skip p = false ->
  check_spec (VProg body p obs) = true -> check_impl (VProg body p obs) = true ->
  certified body p obs.
Proof.
  intros body p obs Hskip Hvskip Hspec Himpl.
  change (is_skip (outcome_of (run_program fuel no_devs body)) = false) in Hskip.
  change ((is_skip (outcome_of (run_program fuel no_devs body))
           || outcome_eqb (outcome_of (run_program fuel no_devs body)) obs) = true) in Hspec.
  change ((LuaCases.check_impl (CProg body obs) && (is_skip (vm_outcome p) || outcome_eqb (vm_outcome p) obs) && CompModel.frag_tie body p) = true) in Himpl.
  apply andb_true_iff in Himpl. destruct Himpl as [Himpl _].
  change (is_skip (vm_outcome p) = false) in Hvskip.
  apply andb_true_iff in Himpl. destruct Himpl as [_ Hvm].
  rewrite Hvskip in Hvm. rewrite Hskip in Hspec.
  split; assumption.
Qed.
