(* M-VM: the instruction functions of /repo/_vm.go (jumpTable, opArith, stringConcat, lessThan,
   equals, objectRational, callGFunction) and the helpers of /repo/_state.go they use (where,
   GetStack, raiseError, metatable, metaOp1/2, metaCall, closeUpvalues, findUpvalue, initCallFrame,
   pushCallFrame, callR, PCall, getField, setField), transcribed function by function.
   Model only, no proofs.

   Re-entrance. The Go code calls itself through L.Call (metamethods, TFORLOOP, host functions):
   callR pushes a frame and runs mainLoop until that frame returns. Here [mainloop] is a section
   variable standing for "mainLoop(L, baseframe)"; VMX/Run.v ties the knot with fuel.
   A frame is identified, as the Go code does by pointer into the frame array, by its index from
   the bottom of the stack.

   Errors. L.RaiseError builds "<source>:<line>: <message>"; the harness maps the messages of the
   interpreter's own runtime errors to a class and the line (luagen.classifyString), so the model
   raises [VFault class line] for those and real strings for everything a program can write. *)
From Coq Require Import Floats.
From GL Require Import Common.Bytes Lua.Syntax Lua.Num Lua.Values Lua.Names Lua.Eval.
From GL Require Import VMX.Machine.

Definition m_stack_overflow : bytes := [115;116;97;99;107;32;111;118;101;114;102;108;111;119].
Definition m_too_many_get : bytes := [116;111;111;32;109;97;110;121;32;114;101;99;117;114;115;105;111;110;115;32;105;110;32;103;101;116;116;97;98;108;101].
Definition m_too_many_set : bytes := [116;111;111;32;109;97;110;121;32;114;101;99;117;114;115;105;111;110;115;32;105;110;32;115;101;116;116;97;98;108;101].
Definition m_G : bytes := [91;71;93;58].

(* ---------- value classification ---------- *)
Definition vtype (v : value) : Z :=
  match v with
  | VNil => 0 | VBool _ => 1 | VNum _ => 2 | VStr _ | VFault _ _ => 3
  | VFun _ | VBuiltin _ => 4 | VUd _ => 5 | VCo _ => 6 | VTab _ => 7
  end.

Definition is_function (v : value) : bool := match v with VFun _ | VBuiltin _ => true | _ => false end.

Definition fnref_of (v : value) : option fnref :=
  match v with VFun c => Some (FnLua c) | VBuiltin b => Some (FnGo b) | _ => None end.

Definition fn_value (f : fnref) : value := match f with FnLua c => VFun c | FnGo b => VBuiltin b end.

Definition LVCanConvToString (v : value) : bool := match v with VStr _ | VNum _ => true | _ => false end.

Definition is_fault (v : value) : bool := match v with VFault _ _ => true | _ => false end.

(* ---------- positions: GetStack, where ---------- *)
Fixpoint getStack_loop (fs : list cframe) (level : Z) : Z * list cframe :=
  match fs with
  | [] => (level, [])
  | f :: r => if level >? 0
              then getStack_loop r (level - 1 - (if is_go (fr_fn f) then 0 else fr_tailcall f))
              else (level, fs)
  end.

Definition bottom_frame (stack : list cframe) : option cframe :=
  match rev stack with f :: _ => Some f | [] => None end.

(* func (ls *LState) GetStack(level int) *)
Definition GetStack (stack : list cframe) (level : Z) : option cframe :=
  let '(lv, fs) := getStack_loop stack level in
  match fs with
  | f :: _ => if lv =? 0 then Some f else if lv <? 0 then bottom_frame stack else None
  | [] => if lv <? 0 then bottom_frame stack else None
  end.

Inductive winfo := WNone | WLine (l : Z) | WG.

Definition frame_line (f : cframe) : VM Z :=
  match fr_fn f with
  | FnLua c => vdo cl <- get_closure c;
               vret (match zth (xp_lines (cl_proto cl)) (fr_pc f - 1) with Some l => l | None => 0 end)
  | FnGo _ => vret 0
  end.

(* func (ls *LState) where(level int, skipg bool) *)
Fixpoint where_ (fuel : nat) (level : Z) (skipg : bool) : VM winfo :=
  match fuel with
  | O => vret WNone
  | S k => fun s =>
      match GetStack (vstack s) level with
      | None => VRet WNone s
      | Some f => match fr_fn f with
                  | FnLua _ => (vdo l <- frame_line f; vret (WLine l)) s
                  | FnGo _ => if skipg then where_ k (level + 1) skipg s else VRet WG s
                  end
      end
  end.

Definition where_info (level : Z) (skipg : bool) : VM winfo :=
  fun s => where_ (S (S (length (vstack s)))) level skipg s.

Definition winfo_text (w : winfo) : bytes :=
  match w with WNone => [] | WLine l => s_chunkpfx ++ Num.Z_dec l ++ [58] | WG => m_G end.

(* L.RaiseError(msg) for a message the harness keeps as a string: where(0, true) + " " + msg is
   pushed and the state panics *)
Definition raise_msg {A} (msg : bytes) : VM A :=
  vdo w <- where_info 0 true;
  let v := VStr (winfo_text w ++ [32] ++ msg) in
  vdo _ <- reg_push v; vraise v.

(* L.RaiseError for one of the interpreter's own messages, which the harness reads as class+line *)
Definition fault_ {A} (kind : Z) : VM A :=
  vdo w <- where_info 0 true;
  match w with
  | WLine l => let v := VFault kind l in vdo _ <- reg_push v; vraise v
  | _ => vunsup 114
  end.

(* the evaluator's partial number/text functions: outside their fragment the case is skipped *)
Definition of_num_text (f : float) : VM bytes :=
  match f_to_text f with Some t => vret t | None => vunsup 211 end.

Inductive pnum := PN (f : float) | PNo.
Definition parseNumber (s : bytes) : VM pnum :=
  match text_to_f s with PNum f => vret (PN f) | PNotNumber => vret PNo | POutside => vunsup 202 end.

(* ---------- metatables ---------- *)
(* func (ls *LState) metatable(lvalue, rawget = true) *)
Definition metatable_raw (s : vstate) (v : value) : option nat :=
  match v with
  | VTab r => t_meta (nth r (vtabs s) empty_tab)
  | VUd r => nth r (vuds s) None
  | VStr _ | VFault _ _ => vstrmt s
  | _ => None
  end.

Definition metaOp1_pure (s : vstate) (v : value) (ev : bytes) : value :=
  match metatable_raw s v with
  | Some m => kv_get (t_kv (nth m (vtabs s) empty_tab)) (VStr ev)
  | None => VNil
  end.

Definition metaOp1 (v : value) (ev : bytes) : VM value := fun s => VRet (metaOp1_pure s v ev) s.

Definition metaOp2 (a b : value) (ev : bytes) : VM value :=
  fun s => let r := metaOp1_pure s a ev in
           if negb (is_nil r) then VRet r s else VRet (metaOp1_pure s b ev) s.

(* func (ls *LState) metaCall(lvalue): the function and whether it came from __call *)
Definition metaCall (v : value) : VM (option fnref * bool) :=
  match fnref_of v with
  | Some f => vret (Some f, false)
  | None => vdo h <- metaOp1 v s_mm_call;
            match fnref_of h with Some f => vret (Some f, true) | None => vret (None, false) end
  end.

(* ---------- upvalues ---------- *)
(* func (uv *Upvalue) Value() *)
Definition uv_read (r : registry) (u : upval) : cell :=
  if uv_closed u then uv_value u else rd (arr r) (uv_index u).

(* func (uv *Upvalue) Close() *)
Definition uv_close (r : registry) (u : upval) : upval := mkUv (uv_index u) true (uv_read r u) (uv_thread u).

(* the loop of closeUpvalues over the chain as it was on entry: every upvalue whose index is
   >= idx is closed ... *)
Fixpoint close_loop (r : registry) (uvs : list upval) (cache : list nat) (idx : Z) : list upval :=
  match cache with
  | [] => uvs
  | u :: rest =>
      let x := nth u uvs dummy_uv in
      close_loop r (if uv_index x >=? idx then set_nth uvs u (uv_close r x) else uvs) rest idx
  end.

(* ... and the chain is cut in front of the first of them (prev.next = nil / ls.uvcache = nil) *)
Fixpoint cache_prefix (uvs : list upval) (cache : list nat) (idx : Z) : list nat :=
  match cache with
  | [] => []
  | u :: rest => if uv_index (nth u uvs dummy_uv) >=? idx then [] else u :: cache_prefix uvs rest idx
  end.

(* func (ls *LState) closeUpvalues(idx int) *)
Definition closeUpvalues_st (idx : Z) (s : vstate) : vstate :=
  let uvs' := close_loop (vreg s) (vuvs s) (vuvcache s) idx in
  with_uvcache (with_uvs s uvs') (cache_prefix (vuvs s) (vuvcache s) idx).

Definition closeUpvalues (idx : Z) : VM unit := vmod (closeUpvalues_st idx).

(* the search of findUpvalue: the upvalue found or [fresh], and the chain with [fresh] linked in
   before the first upvalue of larger index (or at the end) *)
Fixpoint fu_loop (uvs : list upval) (cache : list nat) (idx : Z) (fresh : nat) : nat * list nat :=
  match cache with
  | [] => (fresh, [fresh])
  | u :: rest =>
      let i := uv_index (nth u uvs dummy_uv) in
      if i =? idx then (u, cache)
      else if i >? idx then (fresh, fresh :: cache)
      else let '(r, c') := fu_loop uvs rest idx fresh in (r, u :: c')
  end.

(* func (ls *LState) findUpvalue(idx int) *Upvalue *)
Definition findUpvalue_st (idx : Z) (s : vstate) : nat * vstate :=
  let fresh := length (vuvs s) in
  let '(r, c') := fu_loop (vuvs s) (vuvcache s) idx fresh in
  if Nat.eqb r fresh
  then (r, with_uvcache (with_uvs s (vuvs s ++ [mkUv idx false None (vcur s)])) c')
  else (r, s).

Definition findUpvalue (idx : Z) : VM nat :=
  fun s => let '(r, s') := findUpvalue_st idx s in VRet r s'.

Definition get_upval (cl : closure) (b : Z) : VM nat :=
  match zth (cl_upvals cl) b with Some u => vret u | None => vunsup 105 end.

(* ---------- call frames ---------- *)
(* the first block of initCallFrame: missing fixed arguments become nil *)
Definition icf_pad (np nargs lb : Z) (r : registry) : registry * Z :=
  if nargs <? np then (mkReg (fill (arr r) (lb + nargs) (lb + np) cNil) (lb + np), np) else (r, nargs).

Fixpoint swapLoop (a : list cell) (lb nargs i : Z) (k : nat) : list cell :=
  match k with
  | O => a
  | S k' => swapLoop (wr (wr a (lb + nargs + i) (rd a (lb + i))) (lb + i) cNil) lb nargs (i + 1) k'
  end.

(* the rest of initCallFrame for a Lua function on the registry; [argtb] is what the compatibility
   `arg` slot receives; returns the registry and the new LocalBase *)
Definition icf_body (np nregs vararg nargs lb : Z) (argtb : cell) (r : registry) : registry * Z :=
  if Z.land vararg VarArgIsVarArg =? 0 then
    let nargs' := if nargs <? nregs then nregs else nargs in
    (mkReg (fill (arr r) (lb + np) (lb + nargs') cNil) (lb + nregs), lb)
  else
    let r1 := SetTop r (lb + nargs + np) in
    let a2 := swapLoop (arr r1) lb nargs 0 (Z.to_nat np) in
    let r2 := SetTop (mkReg a2 (rtop r1)) (lb + nargs + np + 1) in       (* CompatVarArg *)
    let r3 := mkReg (wr (arr r2) (lb + nargs + np) argtb) (rtop r2) in
    let lb' := lb + nargs in
    (SetTop r3 (lb' + nregs), lb').

Definition initCallFrame_regs (np nregs vararg nargs lb : Z) (argtb : cell) (r : registry) : registry * Z :=
  let '(r1, nargs1) := icf_pad np nargs lb r in icf_body np nregs vararg nargs1 lb argtb r1.

(* func (ls *LState) initCallFrame(cf *callFrame) *)
Definition initCallFrame (cf : cframe) : VM cframe :=
  match fr_fn cf with
  | FnGo _ => vdo _ <- reg_settop (fr_localbase cf + fr_nargs cf); vret cf
  | FnLua c =>
      vdo cl <- get_closure c;
      let p := cl_proto cl in
      let np := xp_nparams p in
      let lb := fr_localbase cf in
      vdo s <- vget;
      let '(r1, nargs1) := icf_pad np (fr_nargs cf) lb (vreg s) in
      let nvarargs := if nargs1 - np <? 0 then 0 else nargs1 - np in
      vdo argtb <- (if negb (Z.land (xp_vararg p) VarArgIsVarArg =? 0) && negb (Z.land (xp_vararg p) VarArgNeedsArg =? 0)
                    then let va := map cell_val (cells_from (arr r1) (lb + np) (Z.to_nat nvarargs)) in
                         vdo t <- alloc_vtab (mkTab (kv_set (set_seq [] 1 va) (VStr s_n) (vint nvarargs)) None);
                         vret (Some (VTab t))
                    else vret cNil);
      let '(r2, lb') := icf_body np (xp_nregs p) (xp_vararg p) nargs1 lb argtb r1 in
      vdo _ <- vmod_reg (fun _ => r2);
      vret (mkFrame (fr_fn cf) (fr_pc cf) (fr_base cf) lb' (fr_returnbase cf) (fr_nargs cf) (fr_nret cf) (fr_tailcall cf))
  end.

(* func (ls *LState) pushCallFrame(cf callFrame, fn LValue, meta bool); cf.Fn may be nil *)
Definition pushCallFrame (ofn : option fnref) (base localbase returnbase nargs nret : Z)
                         (fn : value) (meta : bool) : VM unit :=
  vdo _ <- (if meta then vmod_reg (fun r => Insert r fn localbase) else vret tt);
  let nargs := if meta then nargs + 1 else nargs in
  match ofn with
  | None => fault_ 3
  | Some f =>
      vdo s <- vget;
      if len (vstack s) >=? CallStackSize then raise_msg m_stack_overflow else
      let cf := mkFrame f 0 base localbase returnbase nargs nret 0 in
      vdo _ <- vmod (fun s => with_stack s (cf :: vstack s));
      vdo cf' <- initCallFrame cf;
      set_cur_frame cf'
  end.

(* LState.nccalls of the running thread *)
Definition m_yield_across : bytes := [97;116;116;101;109;112;116;32;116;111;32;121;105;101;108;100;32;97;99;114;111;115;115;32;109;101;116;97;109;101;116;104;111;100;47;67;45;99;97;108;108;32;98;111;117;110;100;97;114;121].

Definition cur_nccalls (s : vstate) : Z := th_nccalls (nth (vcur s) (vthreads s) dummy_th).

Definition set_nccalls (n : Z) (s : vstate) : vstate :=
  let t := nth (vcur s) (vthreads s) dummy_th in
  with_threads s (set_nth (vthreads s) (vcur s)
    (mkTh (th_reg t) (th_stack t) (th_uvcache t) (th_parent t) (th_wrapped t) (th_dead t) (th_started t) n)).

Definition nccalls_add (d : Z) : VM unit := vmod (fun s => set_nccalls (cur_nccalls s + d) s).

Section Reentrant.

(* mainLoop(L, baseframe): baseframe = index (from the bottom) of the frame whose return ends the loop *)
Variable mainloop : option nat -> VM unit.

(* func (ls *LState) callR(nargs, nret, rbase int) *)
Definition callR (nargs nret rbase : Z) : VM unit :=
  vdo top <- reg_top;
  let base := top - nargs - 1 in
  let rbase := if rbase <? 0 then base else rbase in
  vdo lv <- reg_get base;
  vdo fm <- metaCall lv;
  vdo _ <- pushCallFrame (fst fm) base (base + 1) rbase nargs nret lv (snd fm);
  vdo _ <- nccalls_add 1;
  vdo s <- vget;
  vdo _ <- mainloop (Some (length (vstack s) - 1)%nat);
  vdo _ <- nccalls_add (-1);
  if nret =? MultRet then vret tt else reg_settop (rbase + nret).

Definition Call (nargs nret : Z) : VM unit := callR nargs nret (-1).

(* the frames above the sp lowest are dropped: stack.SetSp(sp); currentFrame = stack.Last() *)
Definition SetSp (sp : nat) (s : vstate) : vstate :=
  with_stack s (skipn (length (vstack s) - sp) (vstack s)).

Definition unwind (sp : nat) (base : Z) (s : vstate) : vstate :=
  let s1 := closeUpvalues_st base (SetSp sp s) in
  with_reg s1 (SetTop (vreg s1) base).

(* func (ls *LState) PCall(nargs, nret int, errfunc *LFunction): None = no error, Some e = the
   error object; with a handler the handler runs on top of the failed frames, and an error inside
   it replaces the error *)
Definition PCall (nargs nret : Z) (errfunc : option value) : VM (option value) :=
  fun s =>
    let sp := length (vstack s) in
    let base := rtop (vreg s) - nargs - 1 in
    let nccalls := cur_nccalls s in
    match Call nargs nret s with
    | VRet _ s' => VRet None (SetSp sp s')
    | VErr e s0 =>
        let s' := set_nccalls nccalls s0 in          (* ls.nccalls = nccalls *)
        match errfunc with
        | None => VRet (Some e) (unwind sp base s')
        | Some h =>
            match (vdo _ <- reg_push h; vdo _ <- reg_push e; vdo _ <- Call 1 1;
                   vdo t <- reg_top; reg_get (t - 1)) s' with
            | VRet hv s'' => VRet (Some hv) (unwind sp base s'')
            | VErr e2 s'' => VRet (Some e2) (unwind sp base s'')
            | VFuel => VFuel
            | VUnsup c => VUnsup c
            end
        end
    | VFuel => VFuel
    | VUnsup c => VUnsup c
    end.

(* ---------- table access with metamethods ---------- *)
Definition raw_get (r : nat) (k : value) : VM value :=
  vdo t <- read_vtab r; vret (kv_get (t_kv t) k).

(* func (ls *LState) RawSet(tb, key, value): raises on a nil or NaN key *)
Definition RawSet (r : nat) (k v : value) : VM unit :=
  match k with
  | VNil => fault_ 6
  | VNum f => if PrimFloat.eqb f f
              then vdo t <- read_vtab r; write_vtab r (mkTab (kv_set (t_kv t) k v) (t_meta t))
              else fault_ 6
  | _ => vdo t <- read_vtab r; write_vtab r (mkTab (kv_set (t_kv t) k v) (t_meta t))
  end.

(* tb.RawSetInt / RawSetString / RawSetH: no key check *)
Definition raw_set_nocheck (r : nat) (k v : value) : VM unit :=
  vdo t <- read_vtab r; write_vtab r (mkTab (kv_set (t_kv t) k v) (t_meta t)).

(* func (ls *LState) getField(obj, key) (getFieldString is the same with an LString key) *)
Fixpoint getField (n : nat) (curobj key : value) : VM value :=
  match n with
  | O => raise_msg m_too_many_get
  | S n' =>
      vdo raw <- (match curobj with VTab r => raw_get r key | _ => vret VNil end);
      if negb (is_nil raw) then vret raw else
      vdo metaindex <- metaOp1 curobj s_mm_index;
      if is_nil metaindex then
        (match curobj with VTab _ => vret VNil | _ => fault_ 1 end)
      else if is_function metaindex then
        vdo _ <- reg_push metaindex; vdo _ <- reg_push curobj; vdo _ <- reg_push key;
        vdo _ <- Call 2 1; reg_pop
      else getField n' metaindex key
  end.

(* func (ls *LState) setField(obj, key, value); [checked] = false for setFieldString, whose raw
   store is tb.RawSetString *)
Fixpoint setField (n : nat) (checked : bool) (curobj key v : value) : VM unit :=
  match n with
  | O => raise_msg m_too_many_set
  | S n' =>
      let store r := if checked then RawSet r key v else raw_set_nocheck r key v in
      vdo raw <- (match curobj with VTab r => raw_get r key | _ => vret VNil end);
      if negb (is_nil raw) then (match curobj with VTab r => store r | _ => vret tt end) else
      vdo metaindex <- metaOp1 curobj s_mm_newindex;
      if is_nil metaindex then
        (match curobj with VTab r => store r | _ => fault_ 1 end)
      else if is_function metaindex then
        vdo _ <- reg_push metaindex; vdo _ <- reg_push curobj; vdo _ <- reg_push key; vdo _ <- reg_push v;
        Call 3 0
      else setField n' checked metaindex key v
  end.

(* ---------- arithmetic, concatenation, comparison ---------- *)
Definition op_binop (o : opcode) : binop :=
  match o with
  | OP_ADD => OAdd | OP_SUB => OSub | OP_MUL => OMul | OP_DIV => ODiv | OP_MOD => OMod | _ => OPow
  end.

(* numberArith; % and ^ only on the evaluator's exact fragment *)
Definition numberArith (o : opcode) (a b : float) : VM value :=
  match arith_op (op_binop o) a b with Some r => vret (VNum r) | None => vunsup 201 end.

(* func objectArith(L, opcode, lhs, rhs): numeric strings are converted first and two numbers are
   computed directly; only otherwise a metamethod is looked up, on the original operands *)
Definition objectArith (o : opcode) (lhs rhs : value) : VM value :=
  if is_fault lhs || is_fault rhs then vunsup 111 else
  vdo l <- (match lhs with VStr s => vdo p <- parseNumber s; vret (match p with PN f => VNum f | PNo => lhs end) | _ => vret lhs end);
  vdo r <- (match rhs with VStr s => vdo p <- parseNumber s; vret (match p with PN f => VNum f | PNo => rhs end) | _ => vret rhs end);
  match l, r with
  | VNum x, VNum y => numberArith o x y
  | _, _ =>
      vdo op <- metaOp2 lhs rhs (arith_event (op_binop o));
      if negb (is_nil op) then
        vdo _ <- reg_push op; vdo _ <- reg_push lhs; vdo _ <- reg_push rhs; vdo _ <- Call 2 1; reg_pop
      else fault_ 2
  end.

Definition as_text (v : value) : VM bytes :=
  match v with VStr s => vret s | VNum f => of_num_text f | _ => vret [] end.

(* func stringConcat(L, total, last): the loop; the run of convertible operands the Go code joins
   in one buffer is joined here one operand at a time (same bytes) *)
Fixpoint concat_loop (fuel : nat) (i total : Z) (rhs : value) : VM value :=
  match fuel with
  | O => vret rhs
  | S k =>
      if total <=? 0 then vret rhs else
      vdo lhs <- reg_get i;
      if LVCanConvToString lhs && LVCanConvToString rhs then
        vdo x <- as_text lhs; vdo y <- as_text rhs;
        concat_loop k (i - 1) (total - 1) (VStr (x ++ y))
      else
        if is_fault lhs || is_fault rhs then vunsup 111 else
        vdo op <- metaOp2 lhs rhs s_mm_concat;
        if negb (is_nil op) then
          vdo _ <- reg_push op; vdo _ <- reg_push lhs; vdo _ <- reg_push rhs; vdo _ <- Call 2 1;
          vdo r <- reg_pop;
          concat_loop k (i - 1) (total - 1) r
        else fault_ 5
  end.

Definition stringConcat (total last : Z) : VM value :=
  vdo rhs <- reg_get last;
  concat_loop (Z.to_nat total) (last - 1) (total - 1) rhs.

(* func objectRational(L, lhs, rhs, event) int : 1, 0, or -1 *)
Definition objectRational (lhs rhs : value) (ev : bytes) : VM Z :=
  vdo m1 <- metaOp1 lhs ev;
  vdo m2 <- metaOp1 rhs ev;
  if negb (is_nil m1) && raweq m1 m2 then
    vdo _ <- reg_push m1; vdo _ <- reg_push lhs; vdo _ <- reg_push rhs; vdo _ <- Call 2 1;
    vdo r <- reg_pop;
    vret (if truthy r then 1 else 0)
  else vret (-1).

Definition objectRationalWithError (lhs rhs : value) (ev : bytes) : VM bool :=
  vdo r <- objectRational lhs rhs ev;
  if r =? 1 then vret true else if r =? 0 then vret false else fault_ 4.

(* func lessThan(L, lhs, rhs) bool *)
Definition lessThan (lhs rhs : value) : VM bool :=
  match lhs, rhs with
  | VNum x, VNum y => vret (PrimFloat.ltb x y)
  | VNum _, _ => fault_ 4
  | _, _ =>
      if negb (vtype lhs =? vtype rhs) then fault_ 4 else
      match lhs, rhs with
      | VStr x, VStr y => vret (bytes_ltb x y)
      | VFault _ _, _ | _, VFault _ _ => vunsup 111
      | _, _ => objectRationalWithError lhs rhs s_mm_lt
      end
  end.

(* the body of OP_LE *)
Definition lessEq (lhs rhs : value) : VM bool :=
  match lhs, rhs with
  | VNum x, VNum y => vret (PrimFloat.leb x y)
  | VNum _, _ => fault_ 4
  | _, _ =>
      if negb (vtype lhs =? vtype rhs) then fault_ 4 else
      match lhs, rhs with
      | VStr x, VStr y => vret (negb (bytes_ltb y x))
      | VFault _ _, _ | _, VFault _ _ => vunsup 111
      | _, _ =>
          vdo r <- objectRational lhs rhs s_mm_le;
          if r =? 1 then vret true else if r =? 0 then vret false
          else vdo b <- objectRationalWithError rhs lhs s_mm_lt; vret (negb b)
      end
  end.

(* func equals(L, lhs, rhs, raw = false) bool *)
Definition equals (lhs rhs : value) : VM bool :=
  if negb (vtype lhs =? vtype rhs) then vret false else
  match lhs, rhs with
  | VFault _ _, _ | _, VFault _ _ => vunsup 111
  | VTab _, VTab _ | VUd _, VUd _ =>
      if raweq lhs rhs then vret true
      else vdo r <- objectRational lhs rhs s_mm_eq; vret (r =? 1)
  | _, _ => vret (raweq lhs rhs)
  end.

End Reentrant.

(* ---------- operands ---------- *)
(* func (ls *LState) rkValue(idx int) LValue *)
Definition rkValue (p : xproto) (lbase idx : Z) : VM value :=
  if opIsK idx
  then match zth (xp_consts p) (opIndexK idx) with Some v => vret v | None => vunsup 104 end
  else reg_get (lbase + idx).

(* func (ls *LState) rkString(idx int) string *)
Definition rkString (p : xproto) (lbase idx : Z) : VM value :=
  vdo v <- rkValue p lbase idx;
  match v with VStr _ => vret v | _ => vunsup 108 end.

Definition kstring (p : xproto) (bx : Z) : VM value :=
  match zth (xp_consts p) bx with Some (VStr s) => vret (VStr s) | Some _ => vunsup 108 | None => vunsup 104 end.

Definition code_at (p : xproto) (pc : Z) : VM Z :=
  match zth (xp_code p) pc with Some w => vret w | None => vunsup 103 end.

Definition set_pc (cf : cframe) (pc : Z) : cframe :=
  mkFrame (fr_fn cf) pc (fr_base cf) (fr_localbase cf) (fr_returnbase cf) (fr_nargs cf) (fr_nret cf) (fr_tailcall cf).

(* cf.Pc += d on the current frame *)
Definition add_pc (d : Z) : VM unit :=
  vdo cf <- cur_frame; set_cur_frame (set_pc cf (fr_pc cf + d)).

(* forOperand: a number, or a string that is a numeral *)
Definition forOperand (v : value) : VM (option float) :=
  match v with
  | VNum f => vret (Some f)
  | VStr s => vdo p <- parseNumber s; vret (match p with PN f => Some f | PNo => None end)
  | VFault _ _ => vunsup 111
  | _ => vret None
  end.

(* ---------- coroutines ---------- *)
Definition upd_thread (t : nat) (f : thread -> thread) : VM unit :=
  vmod (fun s => set_thread s t (f (get_thread s t))).

(* func switchToParentThread(L, nargs, haserror, kill): runs in the coroutine L; moves its top
   nargs values (preceded by true/false unless L is wrapped) to the resumer, pops L's current
   frame and the callee slot, makes the resumer the running thread *)
Definition switchToParentThread (nargs : Z) (haserror kill : bool) : VM unit :=
  vdo s <- vget;
  let me := vcur s in
  let th := get_thread s me in
  match th_parent th with
  | None => fault_ 10
  | Some parent =>
      vdo cf <- cur_frame;
      vdo top <- reg_top;
      let gtop := top - fr_localbase cf in
      let n := if nargs <? gtop then nargs else gtop in
      vdo vals <- reg_get_range (top - n) (Z.to_nat n);
      vdo _ <- reg_settop (top - n);                                  (* L.XMoveTo(parent, n) on L's side *)
      vdo _ <- vmod (fun s => with_stack s (tl (vstack s)));          (* L.stack.Pop() *)
      let offset := fr_localbase cf - fr_returnbase cf in
      vdo top' <- reg_top;
      vdo _ <- reg_settop (top' - offset);
      vdo _ <- upd_thread me (fun t => mkTh (th_reg t) (th_stack t) (th_uvcache t) None (th_wrapped t)
                                            (if kill then true else th_dead t) (th_started t) (th_nccalls t));
      vdo _ <- vmod (switch_to parent);
      vdo _ <- (if th_wrapped th then vret tt else reg_push (VBool (negb haserror)));
      reg_push_list vals
  end.

Section Instructions.

Variable mainloop : option nat -> VM unit.
(* frame.Fn.GFunction(L): runs the host function of the current frame, returns the result count *)
Variable gfunction : builtin -> VM Z.

(* func callGFunction(L, tailcall bool) bool *)
Definition callGFunction (tailcall : bool) : VM bool :=
  vdo f0 <- cur_frame;
  match fr_fn f0 with
  | FnLua _ => vunsup 102
  | FnGo b =>
      vdo gfnret <- gfunction b;
      vdo frame <- cur_frame;
      if gfnret <? 0 then
        vdo sy <- vget;
        (* a Go function (pcall, a metamethod or iterator call, a library callback) between the
           thread's body and the yield cannot be suspended *)
        if (cur_nccalls sy >? 0) && (match th_parent (get_thread sy (vcur sy)) with Some _ => true | None => false end)
        then raise_msg m_yield_across else
        (* a yield: in tail position the caller's frame stays and the values of the next resume
           become the results of this call *)
        vdo _ <- (if tailcall
                  then set_cur_frame (mkFrame (fr_fn frame) (fr_pc frame) (fr_base frame) (fr_localbase frame)
                                              (fr_base frame) (fr_nargs frame) MultRet (fr_tailcall frame))
                  else vret tt);
        vdo top <- reg_top;
        vdo cf <- cur_frame;
        vdo _ <- switchToParentThread (top - fr_localbase cf) false false;
        vret true
      else
      vdo _ <- (if tailcall
                then vmod (fun s => match vstack s with f :: _ :: r => with_stack s (f :: r) | _ => s end)   (* RemoveCallerFrame *)
                else vret tt);
      let wantret := if fr_nret frame =? MultRet then gfnret else fr_nret frame in
      vdo s <- vget;
      (* the bottom frame of a coroutine: its results end the coroutine *)
      if (match th_parent (get_thread s (vcur s)) with Some _ => true | None => false end)
         && Nat.eqb (length (vstack s)) 1
      then vdo _ <- switchToParentThread wantret false true; vret true
      else
      vdo _ <- vmod_reg (fun r => CopyRange r (fr_returnbase frame) (rtop r - gfnret) (-1) wantret);
      vdo _ <- vmod (fun s => with_stack s (tl (vstack s)));
      vret false
  end.

Definition MOVEN_loop (code : list Z) (lbase : Z) :=
  fix go (k : nat) (pc : Z) : VM Z :=
    match k with
    | O => vret pc
    | S k' =>
        match zth code pc with
        | None => vunsup 103
        | Some inst =>
            vdo v <- reg_get (lbase + opGetArgB inst);
            vdo _ <- reg_set (lbase + opGetArgA inst) v;
            go k' (pc + 1)
        end
    end.

Fixpoint loadnil_loop (i : Z) (k : nat) : VM unit :=
  match k with O => vret tt | S k' => vdo _ <- reg_set i VNil; loadnil_loop (i + 1) k' end.

Fixpoint setlist_loop (tb : nat) (ra offset i : Z) (k : nat) : VM unit :=
  match k with
  | O => vret tt
  | S k' => vdo v <- reg_get (ra + i);
            vdo _ <- raw_set_nocheck tb (vint (offset + i)) v;
            setlist_loop tb ra offset (i + 1) k'
  end.

(* the capture pseudo-instructions after OP_CLOSURE: the words at pc, pc+1, ...; returns the
   upvalues and the pc after them *)
Definition capture_loop (p : xproto) (cl : closure) (lbase : Z) :=
  fix go (k : nat) (pc : Z) (acc : list nat) : VM (list nat * Z) :=
    match k with
    | O => vret (rev acc, pc)
    | S k' =>
        vdo inst <- code_at p pc;
        let B := opGetArgB inst in
        match op_of_code (opGetOpCode inst) with
        | Some OP_MOVE => vdo u <- findUpvalue (lbase + B); go k' (pc + 1) (u :: acc)
        | Some OP_GETUPVAL => vdo u <- get_upval cl B; go k' (pc + 1) (u :: acc)
        | _ => vunsup 105
        end
    end.

(* OP_TAILCALL, the callee is a Lua function: the current frame is re-used *)
Definition tailcall_lua (cf : cframe) (callable : fnref) (lv : value) (meta : bool) (nargs RA : Z) : VM bool :=
  let base := fr_base cf in
  let nargs1 := if meta then nargs + 1 else nargs in
  vdo _ <- (if meta then vmod_reg (fun r => Insert r lv (RA + 1)) else vret tt);
  let cf1 := mkFrame callable 0 RA (RA + 1) (fr_returnbase cf) nargs1 (fr_nret cf) (fr_tailcall cf + 1) in
  vdo _ <- set_cur_frame cf1;
  vdo cf2 <- initCallFrame cf1;
  vdo _ <- vmod_reg (fun r => CopyRange r base RA (-1) (rtop r - RA));
  vdo _ <- set_cur_frame
             (mkFrame callable 0 base (base + (fr_localbase cf2 - (RA + 1) + 1)) (fr_returnbase cf)
                      nargs1 (fr_nret cf) (fr_tailcall cf + 1));
  vret false.

(* OP_RETURN *)
Definition do_return (cf : cframe) (RA B : Z) (baseframe : option nat) : VM bool :=
  vdo _ <- closeUpvalues (fr_localbase cf);
  vdo top <- reg_top;
  let nret := if B =? 0 then top - RA else B - 1 in
  let n := if fr_nret cf =? MultRet then nret else fr_nret cf in
  vdo s0 <- vget;
  if (match th_parent (get_thread s0 (vcur s0)) with Some _ => true | None => false end)
     && Nat.eqb (length (vstack s0)) 1
  then (* the body of a coroutine returns *)
    vdo _ <- vmod_reg (fun r => copyReturnValues r (rtop r) RA n B);
    vdo _ <- switchToParentThread n false true;
    vret true
  else
  let popped := (length (vstack s0) - 1)%nat in
  vdo _ <- vmod (fun s => with_stack s (tl (vstack s)));
  vdo s1 <- vget;
  let islast := (match baseframe with Some b => Nat.eqb b popped | None => false end)
                || (match vstack s1 with [] => true | _ => false end) in
  vdo _ <- vmod_reg (fun r => copyReturnValues r (fr_returnbase cf) RA n B);
  vret (islast || match vstack s1 with [] => true | f :: _ => is_go (fr_fn f) end).

(* one instruction function of jumpTable; the instruction has been fetched and cf.Pc incremented.
   Returns true for `return 1` (leave mainLoop). *)
Definition exec_op (cl : closure) (cf : cframe) (inst : Z) (baseframe : option nat) : VM bool :=
  let p := cl_proto cl in
  let lbase := fr_localbase cf in
  let A := opGetArgA inst in
  let RA := lbase + A in
  let B := opGetArgB inst in
  let C := opGetArgC inst in
  let Bx := opGetArgBx inst in
  let Sbx := opGetArgSbx inst in
  match op_of_code (opGetOpCode inst) with
  | None => vunsup 107
  | Some op =>
  match op with
  | OP_MOVE => vdo v <- reg_get (lbase + B); vdo _ <- reg_set RA v; vret false
  | OP_MOVEN =>
      vdo v <- reg_get (lbase + B); vdo _ <- reg_set RA v;
      vdo pc <- MOVEN_loop (xp_code p) lbase (Z.to_nat C) (fr_pc cf);
      vdo _ <- set_cur_frame (set_pc cf pc); vret false
  | OP_LOADK =>
      match zth (xp_consts p) Bx with
      | Some v => vdo _ <- reg_set RA v; vret false
      | None => vunsup 104
      end
  | OP_LOADBOOL =>
      vdo _ <- reg_set RA (VBool (negb (B =? 0)));
      vdo _ <- (if negb (C =? 0) then add_pc 1 else vret tt); vret false
  | OP_LOADNIL => vdo _ <- loadnil_loop RA (Z.to_nat (lbase + B - RA + 1)); vret false
  | OP_GETUPVAL =>
      vdo u <- get_upval cl B;
      vdo _ <- vmod (fun s => let x := nth u (vuvs s) dummy_uv in
                              with_reg s (SetCell (vreg s) RA (uv_read (th_reg (get_thread s (uv_thread x))) x)));
      vret false
  | OP_GETGLOBAL =>
      vdo k <- kstring p Bx;
      vdo v <- getField mainloop MaxTableGetLoop (VTab (cl_env cl)) k;
      vdo _ <- reg_set RA v; vret false
  | OP_GETTABLE =>
      vdo o <- reg_get (lbase + B); vdo k <- rkValue p lbase C;
      vdo v <- getField mainloop MaxTableGetLoop o k;
      vdo _ <- reg_set RA v; vret false
  | OP_GETTABLEKS =>
      vdo o <- reg_get (lbase + B); vdo k <- rkString p lbase C;
      vdo v <- getField mainloop MaxTableGetLoop o k;
      vdo _ <- reg_set RA v; vret false
  | OP_SETGLOBAL =>
      vdo k <- kstring p Bx; vdo v <- reg_get RA;
      vdo _ <- setField mainloop MaxTableGetLoop false (VTab (cl_env cl)) k v; vret false
  | OP_SETUPVAL =>
      vdo u <- get_upval cl B; vdo v <- reg_get RA;
      vdo _ <- vmod (fun s =>
                 let x := nth u (vuvs s) dummy_uv in
                 if uv_closed x then with_uvs s (set_nth (vuvs s) u (mkUv (uv_index x) true (Some v) (uv_thread x)))
                 else let t := get_thread s (uv_thread x) in
                      set_thread s (uv_thread x)
                        (mkTh (Set_ (th_reg t) (uv_index x) v) (th_stack t) (th_uvcache t) (th_parent t)
                              (th_wrapped t) (th_dead t) (th_started t) (th_nccalls t)));
      vret false
  | OP_SETTABLE =>
      vdo o <- reg_get RA; vdo k <- rkValue p lbase B; vdo v <- rkValue p lbase C;
      vdo _ <- setField mainloop MaxTableGetLoop true o k v; vret false
  | OP_SETTABLEKS =>
      vdo o <- reg_get RA; vdo k <- rkString p lbase B; vdo v <- rkValue p lbase C;
      vdo _ <- setField mainloop MaxTableGetLoop false o k v; vret false
  | OP_NEWTABLE =>
      vdo t <- alloc_vtab empty_tab; vdo _ <- reg_set RA (VTab t); vret false
  | OP_SELF =>
      vdo selfobj <- reg_get (lbase + B); vdo k <- rkString p lbase C;
      vdo v <- getField mainloop MaxTableGetLoop selfobj k;
      vdo _ <- reg_set RA v; vdo _ <- reg_set (RA + 1) selfobj; vret false
  | OP_ADD | OP_SUB | OP_MUL | OP_DIV | OP_MOD | OP_POW =>
      vdo lhs <- rkValue p lbase B; vdo rhs <- rkValue p lbase C;
      vdo v <- (match lhs, rhs with
                | VNum x, VNum y => numberArith op x y
                | _, _ => objectArith mainloop op lhs rhs
                end);
      vdo _ <- reg_set RA v; vret false
  | OP_UNM =>
      vdo unaryv <- rkValue p lbase B;
      match unaryv with
      | VNum f => vdo _ <- reg_set RA (VNum (- f)%float); vret false
      | _ =>
          (* 46ac53a: a string convertible to a number is negated before any __unm handler is
             looked for; 5c2f2ce: any non-nil handler is called *)
          vdo pn <- (match unaryv with VStr s => parseNumber s | _ => vret PNo end);
          match pn with
          | PN f => vdo _ <- reg_set RA (VNum (- f)%float); vret false
          | PNo =>
              match unaryv with
              | VFault _ _ => vunsup 111
              | _ =>
                  vdo h <- metaOp1 unaryv s_mm_unm;
                  if negb (is_nil h) then
                    vdo _ <- reg_push h; vdo _ <- reg_push unaryv; vdo _ <- Call mainloop 1 1;
                    vdo r <- reg_pop; vdo _ <- reg_set RA r; vret false
                  else fault_ 2
              end
          end
      end
  | OP_NOT =>
      vdo v <- reg_get (lbase + B); vdo _ <- reg_set RA (VBool (negb (truthy v))); vret false
  | OP_LEN =>
      vdo lv <- rkValue p lbase B;
      match lv with
      | VStr s => vdo _ <- reg_set RA (vint (len s)); vret false
      | VFault _ _ => vunsup 111
      | _ =>
          vdo h <- metaOp1 lv s_mm_len;
          if negb (is_nil h) then
            vdo _ <- reg_push h; vdo _ <- reg_push lv; vdo _ <- Call mainloop 1 1;
            vdo r <- reg_pop; vdo _ <- reg_set RA r; vret false
          else match lv with
               | VTab r => vdo t <- read_vtab r;
                           if border_unique (t_kv t)
                           then vdo _ <- reg_set RA (vint (border (t_kv t))); vret false
                           else vunsup 205
               | _ => fault_ 7
               end
      end
  | OP_CONCAT =>
      let RC := lbase + C in let RB := lbase + B in
      vdo v <- stringConcat mainloop (RC - RB + 1) RC;
      vdo _ <- reg_set RA v; vret false
  | OP_JMP => vdo _ <- add_pc Sbx; vret false
  | OP_EQ =>
      vdo lhs <- rkValue p lbase B; vdo rhs <- rkValue p lbase C;
      vdo ret <- equals mainloop lhs rhs;
      vdo _ <- (if (if ret then 0 else 1) =? A then add_pc 1 else vret tt); vret false
  | OP_LT =>
      vdo lhs <- rkValue p lbase B; vdo rhs <- rkValue p lbase C;
      vdo ret <- lessThan mainloop lhs rhs;
      vdo _ <- (if (if ret then 0 else 1) =? A then add_pc 1 else vret tt); vret false
  | OP_LE =>
      vdo lhs <- rkValue p lbase B; vdo rhs <- rkValue p lbase C;
      vdo ret <- lessEq mainloop lhs rhs;
      vdo _ <- (if (if ret then 0 else 1) =? A then add_pc 1 else vret tt); vret false
  | OP_TEST =>
      vdo v <- reg_get RA;
      vdo _ <- (if Bool.eqb (truthy v) (C =? 0) then add_pc 1 else vret tt); vret false
  | OP_TESTSET =>
      vdo v <- reg_get (lbase + B);
      vdo _ <- (if negb (Bool.eqb (truthy v) (C =? 0)) then reg_set RA v else add_pc 1); vret false
  | OP_CALL =>
      vdo top <- reg_top;
      let nargs := if B =? 0 then top - (RA + 1) else B - 1 in
      vdo lv <- reg_get RA;
      let nret := C - 1 in
      vdo fm <- metaCall lv;
      vdo _ <- pushCallFrame (fst fm) RA (RA + 1) RA nargs nret lv (snd fm);
      match fst fm with
      | Some (FnGo _) => callGFunction false
      | _ => vret false
      end
  | OP_TAILCALL =>
      vdo top <- reg_top;
      let nargs := if B =? 0 then top - (RA + 1) else B - 1 in
      vdo lv <- reg_get RA;
      vdo fm <- metaCall lv;
      match fst fm with
      | None => fault_ 3
      | Some callable =>
          vdo _ <- closeUpvalues lbase;
          match callable with
          | FnGo _ =>
              vdo s0 <- vget;
              let luaframe := (length (vstack s0) - 1)%nat in
              vdo _ <- pushCallFrame (Some callable) RA (RA + 1) (fr_returnbase cf) nargs (fr_nret cf) lv (snd fm);
              vdo r <- callGFunction true;
              if r then vret true else
              vdo s1 <- vget;
              vret (match vstack s1 with
                    | [] => true
                    | f :: _ => is_go (fr_fn f) || (match baseframe with Some b => Nat.eqb luaframe b | None => false end)
                    end)
          | FnLua _ => tailcall_lua cf callable lv (snd fm) nargs RA
          end
      end
  | OP_RETURN => do_return cf RA B baseframe
  | OP_FORLOOP =>
      vdo v0 <- reg_get RA;
      match v0 with
      | VNum init =>
          vdo v1 <- reg_get (RA + 1);
          match v1 with
          | VNum limit =>
              vdo v2 <- reg_get (RA + 2);
              match v2 with
              | VNum step =>
                  let init' := (init + step)%float in
                  vdo _ <- reg_set RA (VNum init');
                  if (PrimFloat.ltb 0%float step && PrimFloat.leb init' limit)
                     || (PrimFloat.leb step 0%float && PrimFloat.leb limit init')
                  then vdo _ <- add_pc Sbx; vdo _ <- reg_set (RA + 3) (VNum init'); vret false
                  else vdo _ <- reg_settop (RA + 1); vret false
              | _ => fault_ 6
              end
          | _ => fault_ 6
          end
      | _ => fault_ 6
      end
  | OP_FORPREP =>
      vdo v0 <- reg_get RA; vdo o0 <- forOperand v0;
      match o0 with None => fault_ 6 | Some init =>
      vdo v1 <- reg_get (RA + 1); vdo o1 <- forOperand v1;
      match o1 with None => fault_ 6 | Some limit =>
      vdo v2 <- reg_get (RA + 2); vdo o2 <- forOperand v2;
      match o2 with None => fault_ 6 | Some step =>
      vdo _ <- reg_set (RA + 1) (VNum limit);
      vdo _ <- reg_set (RA + 2) (VNum step);
      vdo _ <- reg_set RA (VNum (init - step)%float);
      vdo _ <- add_pc Sbx; vret false
      end end end
  | OP_TFORLOOP =>
      let nret := C in
      vdo _ <- reg_settop (RA + 3 + 2);
      vdo x2 <- reg_get (RA + 2); vdo _ <- reg_set (RA + 3 + 2) x2;
      vdo x1 <- reg_get (RA + 1); vdo _ <- reg_set (RA + 3 + 1) x1;
      vdo x0 <- reg_get RA; vdo _ <- reg_set (RA + 3) x0;
      vdo _ <- callR mainloop 2 nret (RA + 3);
      vdo v <- reg_get (RA + 3);
      vdo _ <- (if negb (is_nil v)
                then vdo _ <- reg_set (RA + 2) v;
                     vdo cf' <- cur_frame;
                     vdo w <- code_at p (fr_pc cf');
                     add_pc (opGetArgSbx w)
                else vret tt);
      vdo _ <- add_pc 1; vret false
  | OP_SETLIST =>
      vdo C' <- (if C =? 0
                 then vdo w <- code_at p (fr_pc cf); vdo _ <- add_pc 1; vret w
                 else vret C);
      let offset := (C' - 1) * FieldsPerFlush in
      vdo tv <- reg_get RA;
      match tv with
      | VTab tb =>
          vdo top <- reg_top;
          let nelem := if B =? 0 then top - RA - 1 else B in
          vdo _ <- setlist_loop tb RA offset 1 (Z.to_nat nelem); vret false
      | _ => vunsup 109
      end
  | OP_CLOSE => vdo _ <- closeUpvalues RA; vret false
  | OP_CLOSURE =>
      match zth (xp_subs p) Bx with
      | None => vunsup 106
      | Some proto =>
          vdo ci <- alloc_closure (mkCl proto [] (cl_env cl));
          vdo _ <- reg_set RA (VFun ci);
          vdo r <- capture_loop p cl lbase (Z.to_nat (xp_nup proto)) (fr_pc cf) [];
          vdo _ <- set_cur_frame (set_pc cf (snd r));
          vdo _ <- vmod (fun s => with_vclos s (set_nth (vclos s) ci (mkCl proto (fst r) (cl_env cl))));
          vret false
      end
  | OP_VARARG =>
      let nparams := xp_nparams p in
      let nvarargs := if fr_nargs cf - nparams <? 0 then 0 else fr_nargs cf - nparams in
      let nwant := if B =? 0 then nvarargs else B - 1 in
      vdo _ <- vmod_reg (fun r => CopyRange r RA (fr_base cf + nparams + 1) (fr_localbase cf) nwant);
      vret false
  | OP_NOP => vret false
  end end.

Definition exec_inst (inst : Z) (baseframe : option nat) : VM bool :=
  vdo cf <- cur_frame;
  match fr_fn cf with
  | FnGo _ => vunsup 102
  | FnLua c => vdo cl <- get_closure c; exec_op cl cf inst baseframe
  end.

End Instructions.
