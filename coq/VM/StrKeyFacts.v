(* Proofs about the register-form string-key check (StrKey.v). *)
From GL Require Import VM.Opcode VM.OpcodeFacts VM.Proto VM.WfProto VM.Skeleton VM.WfFacts VM.StrKey.

Lemma existsb_has_regkey f pc w r :
  zth (f_code f) pc = Some w -> regkey_of w = Some r -> existsb has_regkey (f_code f) = true.
Proof.
  intros Hw Hr. apply existsb_exists. exists w. split.
  - unfold zth in Hw. destruct (pc <? 0); [discriminate|]. eapply nth_error_In, Hw.
  - unfold has_regkey. rewrite Hr. reflexivity.
Qed.

Lemma word_zth code pc w : zth code pc = Some w -> word code pc = w.
Proof. intros H. unfold word. rewrite H. reflexivity. Qed.

(* what strreg_fn says about one string-keyed instruction in register form *)
Lemma strreg_at f pc w r :
  strreg_fn f = true -> pc_ok f pc -> zth (f_code f) pc = Some w -> regkey_of w = Some r ->
  loadk_str f (tags_of f) (pc - 1) r = true /\
  existsb (Z.eqb pc) (jump_targets f (tags_of f)) = false.
Proof.
  intros Hs Hpc Hw Hr. unfold strreg_fn in Hs.
  rewrite (existsb_has_regkey f pc w r Hw Hr) in Hs.
  rewrite forallb_forall in Hs.
  pose proof (pc_ok_range f pc Hpc) as Hrange.
  assert (Hin : In pc (zrange 0 (len (f_code f) - 1))) by (apply in_zrange; lia).
  specialize (Hs pc Hin). unfold pc_ok in Hpc. rewrite Hpc in Hs.
  rewrite (word_zth _ _ _ Hw) in Hs. unfold regkey_ok in Hs. rewrite Hr in Hs.
  apply andb_true_iff in Hs. destruct Hs as [H1 H2]. split; [exact H1|].
  apply negb_true_iff in H2. exact H2.
Qed.

(* the instruction in front is LOADK r k with k a string constant *)
Lemma loadk_str_spec f pc r :
  loadk_str f (tags_of f) pc r = true ->
  pc_ok f pc /\
  exists w', zth (f_code f) pc = Some w' /\ op_of_code (opGetOpCode w') = Some OP_LOADK /\
             opGetArgA w' = r /\ 0 <= opGetArgBx w' < f_nsconst f /\ zth (f_kinds f) (opGetArgBx w') = Some 1.
Proof.
  unfold loadk_str. intros H.
  apply andb_true_iff in H. destruct H as [Hh H].
  apply andb_true_iff in H. destruct H as [H Hstr].
  apply andb_true_iff in H. destruct H as [Hop HA].
  assert (Hpc : pc_ok f pc) by exact Hh.
  split; [exact Hpc|].
  destruct (zth_in_range (f_code f) pc (pc_ok_range f pc Hpc)) as [w' Hw'].
  exists w'. rewrite (word_zth _ _ _ Hw') in *. split; [exact Hw'|].
  split.
  - unfold is_op in Hop. destruct (op_of_code (opGetOpCode w')) as [o|] eqn:Eo; [|discriminate].
    destruct o; cbn in Hop; try discriminate. reflexivity.
  - split; [apply Z.eqb_eq, HA|].
    unfold str_const in Hstr. apply andb_true_iff in Hstr. destruct Hstr as [Hlt Hk].
    destruct (zth (f_kinds f) (opGetArgBx w')) as [k|] eqn:Ek; [|discriminate].
    apply Z.eqb_eq in Hk. subst k. apply Z.ltb_lt in Hlt.
    pose proof (zth_some _ _ _ Ek). split; [lia|reflexivity].
Qed.

(* nothing but the instruction in front continues at pc *)
Lemma not_target_only_pred f pc :
  existsb (Z.eqb pc) (jump_targets f (tags_of f)) = false ->
  forall q i, pc_ok f q -> sk_step f q = Some i -> In pc (i_succ i) -> q = pc - 1.
Proof.
  intros Hnt q i Hq Hs Hin.
  destruct (Z.eq_dec pc (q + 1)) as [->|Hne]; [lia|]. exfalso.
  assert (Hex : existsb (Z.eqb pc) (jump_targets f (tags_of f)) = true); [|congruence].
  apply existsb_exists. exists pc. split; [|apply Z.eqb_refl].
  unfold jump_targets. apply in_flat_map. exists q. split.
  - apply in_zrange. pose proof (pc_ok_range f q Hq). lia.
  - unfold pc_ok in Hq. rewrite Hq. unfold nonseq_succs. rewrite Hs.
    apply filter_In. split; [exact Hin|]. apply negb_true_iff, Z.eqb_neq. exact Hne.
Qed.

Definition fed_by_loadk (f : fn) (pc r : Z) : Prop :=
  pc_ok f (pc - 1) /\
  exists w', zth (f_code f) (pc - 1) = Some w' /\ op_of_code (opGetOpCode w') = Some OP_LOADK /\
             opGetArgA w' = r /\ 0 <= opGetArgBx w' < f_nsconst f /\ zth (f_kinds f) (opGetArgBx w') = Some 1.

Lemma regkey_fed_lemma f pc w r :
  strreg_fn f = true -> pc_ok f pc -> zth (f_code f) pc = Some w -> regkey_of w = Some r ->
  fed_by_loadk f pc r /\
  (forall q i, pc_ok f q -> sk_step f q = Some i -> In pc (i_succ i) -> q = pc - 1).
Proof.
  intros Hs Hpc Hw Hr. destruct (strreg_at f pc w r Hs Hpc Hw Hr) as [Hl Hnt]. split.
  - apply loadk_str_spec, Hl.
  - apply not_target_only_pred, Hnt.
Qed.

(* run level (any data): the instruction is not the entry, and whatever run reaches it came through
   the LOADK of a string constant into its key register *)
Lemma regkey_run_lemma f pc w r :
  wf_fn f = true -> strreg_fn f = true ->
  reach f 0 pc -> zth (f_code f) pc = Some w -> regkey_of w = Some r ->
  1 <= pc /\ fed_by_loadk f pc r /\
  (forall q i, reach f 0 q -> sk_step f q = Some i -> In pc (i_succ i) -> q = pc - 1).
Proof.
  intros Hwf Hs Hr Hw Hk.
  assert (Hpc : pc_ok f pc) by (eapply wf_reach_ok; [exact Hwf|exact Hr|apply entry_ok, Hwf]).
  destruct (regkey_fed_lemma f pc w r Hs Hpc Hw Hk) as [Hfed Hpred].
  split; [|split; [exact Hfed|]].
  - destruct Hfed as [Hh _]. pose proof (pc_ok_range f (pc - 1) Hh). lia.
  - intros q i Hq Hsk Hin. apply (Hpred q i); [|exact Hsk|exact Hin].
    eapply wf_reach_ok; [exact Hwf|exact Hq|apply entry_ok, Hwf].
Qed.

(* the tree *)
Lemma strreg_proto_all p : strreg_proto p = true -> forall q, In q (flatten p) -> strreg_fn (view q) = true.
Proof.
  induction p as [c k n subs a b v r l IH] using proto_ind'.
  intros H q Hq. cbn [strreg_proto] in H. apply andb_true_iff in H. destruct H as [H0 Hsubs].
  cbn [flatten] in Hq. destruct Hq as [<-|Hq]; [exact H0|].
  apply in_flat_map in Hq. destruct Hq as [s [Hs Hq]].
  rewrite Forall_forall in IH. apply (IH s Hs); [|exact Hq].
  rewrite forallb_forall in Hsubs. apply Hsubs, Hs.
Qed.

(* what regkey_of recognises *)
Lemma regkey_of_spec w r : regkey_of w = Some r ->
  (op_of_code (opGetOpCode w) = Some OP_SELF \/ op_of_code (opGetOpCode w) = Some OP_GETTABLEKS) /\
  opGetArgC w = r /\ opIsK r = false.
Proof.
  unfold regkey_of. destruct (op_of_code (opGetOpCode w)) as [o|]; [|discriminate].
  destruct o; try discriminate;
    (destruct (opIsK (opGetArgC w)) eqn:E; [discriminate|]; intros H; inversion H; subst; auto).
Qed.
