(* Control/indexing skeleton of one VM step, written from /repo/_vm.go (jumpTable) and
   /repo/_state.go (rkValue, rkString). For the instruction at index pc of function f it lists
   every index the handler uses into Code, Constants, stringConstants, FunctionPrototypes,
   cf.Fn.Upvalues and the register window (relative to cf.LocalBase), and every value cf.Pc can
   have when the handler returns to the dispatch loop in the same activation. Data (which
   branch is taken, what a call does) is not modelled: both outcomes of a test are successors,
   a call's successor is the next instruction, dynamic "up to reg.Top()" ranges contribute only
   their static start. No proofs here. *)
From GL Require Export VM.Opcode VM.Proto VM.WfProto.

Record info := mkInfo {
  i_code : list Z;     (* further words of Code read by the handler (beyond the fetched one) *)
  i_const : list Z;    (* Constants[...] *)
  i_sconst : list Z;   (* stringConstants[...] (the entry must also be the string constant) *)
  i_proto : list Z;    (* FunctionPrototypes[...] *)
  i_upval : list Z;    (* cf.Fn.Upvalues[...] (length = NumUpvalues) *)
  i_regs : list Z;     (* registers lbase + r read or written *)
  i_succ : list Z;     (* possible next pcs in this activation *)
  i_exit : bool        (* the activation may end here (return / tail call) *)
}.

(* a, a+1, ..., b (empty when b < a) *)
Definition zrange (a b : Z) : list Z :=
  map (fun i => a + Z.of_nat i) (seq 0 (Z.to_nat (b - a + 1))).

(* L.rkValue(x): a constant when bit 8 is set, else a register *)
Definition rk_regs (x : Z) : list Z := if opIsK x then [] else [x].
Definition rk_consts (x : Z) : list Z := if opIsK x then [opIndexK x] else [].

Definition plain (regs succ : list Z) : info := mkInfo [] [] [] [] [] regs succ false.

Definition sk_inst (f : fn) (pc w : Z) (o : opcode) : info :=
  let A := opGetArgA w in let B := opGetArgB w in let C := opGetArgC w in
  let Bx := opGetArgBx w in let sBx := opGetArgSbx w in
  let code := f_code f in
  match o with
  | OP_MOVE => plain [A; B] [pc + 1]
  | OP_MOVEN =>
      let ws := zrange (pc + 1) (pc + C) in
      mkInfo ws [] [] [] []
             ([A; B] ++ flat_map (fun t => [opGetArgA (word code t); opGetArgB (word code t)]) ws)
             [pc + 1 + C] false
  | OP_LOADK => mkInfo [] [Bx] [] [] [] [A] [pc + 1] false
  | OP_LOADBOOL => plain [A] [if C =? 0 then pc + 1 else pc + 2]
  | OP_LOADNIL => plain (zrange A B) [pc + 1]
  | OP_GETUPVAL => mkInfo [] [] [] [] [B] [A] [pc + 1] false
  | OP_GETGLOBAL => mkInfo [] [] [Bx] [] [] [A] [pc + 1] false
  | OP_GETTABLE => mkInfo [] (rk_consts C) [] [] [] ([A; B] ++ rk_regs C) [pc + 1] false
  | OP_GETTABLEKS => mkInfo [] [] (rk_consts C) [] [] ([A; B] ++ rk_regs C) [pc + 1] false
  | OP_SETGLOBAL => mkInfo [] [] [Bx] [] [] [A] [pc + 1] false
  | OP_SETUPVAL => mkInfo [] [] [] [] [B] [A] [pc + 1] false
  | OP_SETTABLE => mkInfo [] (rk_consts B ++ rk_consts C) [] [] [] ([A] ++ rk_regs B ++ rk_regs C) [pc + 1] false
  | OP_SETTABLEKS => mkInfo [] (rk_consts C) (rk_consts B) [] [] ([A] ++ rk_regs B ++ rk_regs C) [pc + 1] false
  | OP_NEWTABLE => plain [A] [pc + 1]
  | OP_SELF => mkInfo [] [] (rk_consts C) [] [] ([A; A + 1; B] ++ rk_regs C) [pc + 1] false
  | OP_ADD | OP_SUB | OP_MUL | OP_DIV | OP_MOD | OP_POW =>
      mkInfo [] (rk_consts B ++ rk_consts C) [] [] [] ([A] ++ rk_regs B ++ rk_regs C) [pc + 1] false
  | OP_UNM | OP_LEN => mkInfo [] (rk_consts B) [] [] [] ([A] ++ rk_regs B) [pc + 1] false   (* L.rkValue(B) *)
  | OP_NOT => plain [A; B] [pc + 1]
  | OP_CONCAT => plain ([A; C] ++ zrange B C) [pc + 1]
  | OP_JMP => plain [] [pc + 1 + sBx]
  | OP_EQ | OP_LT | OP_LE =>
      mkInfo [] (rk_consts B ++ rk_consts C) [] [] [] (rk_regs B ++ rk_regs C) [pc + 1; pc + 2] false
  | OP_TEST => plain [A] [pc + 1; pc + 2]
  | OP_TESTSET => plain [A; B] [pc + 1; pc + 2]
  | OP_CALL =>
      (* callee R(A), arguments R(A+1..A+B-1) (B = 0: up to top), results R(A..A+C-2) (C = 0: up to top) *)
      plain ([A] ++ zrange (A + 1) (A + B - 1) ++ zrange A (A + C - 2)) [pc + 1]
  | OP_TAILCALL =>
      mkInfo [] [] [] [] [] ([A] ++ zrange (A + 1) (A + B - 1)) [] true
  | OP_RETURN =>
      mkInfo [] [] [] [] [] (if B =? 0 then [A] else zrange A (A + B - 2)) [] true
  | OP_FORLOOP => plain [A; A + 1; A + 2; A + 3] [pc + 1; pc + 1 + sBx]
  | OP_FORPREP => plain [A; A + 2] [pc + 1 + sBx]
  | OP_TFORLOOP =>
      (* SetTop RA+5; RA+5,RA+4,RA+3 := RA+2,RA+1,RA; callR(2, C, RA+3); results R(A+3..A+2+C);
         then the *next* word's sBx is used: pc := pc+1 [+ sBx(Code[pc+1])] + 1 *)
      mkInfo [pc + 1] [] [] [] []
             ([A; A + 1; A + 2; A + 3; A + 4; A + 5] ++ zrange (A + 3) (A + 2 + C))
             [pc + 2; pc + 2 + opGetArgSbx (word code (pc + 1))] false
  | OP_SETLIST =>
      mkInfo (if C =? 0 then [pc + 1] else []) [] [] [] []
             ([A] ++ zrange (A + 1) (A + B))
             [if C =? 0 then pc + 2 else pc + 1] false
  | OP_CLOSE => plain [] [pc + 1]
  | OP_CLOSURE =>
      (* proto := FunctionPrototypes[Bx]; for i < proto.NumUpvalues: the next words are read;
         OP_MOVE -> findUpvalue(lbase+B), OP_GETUPVAL -> cf.Fn.Upvalues[B] *)
      let k := match zth (f_nups f) Bx with Some k => k | None => 0 end in
      let ws := zrange (pc + 1) (pc + k) in
      mkInfo ws [] [] [Bx]
             (flat_map (fun t => if is_op (op_at code t) OP_GETUPVAL then [opGetArgB (word code t)] else []) ws)
             ([A] ++ flat_map (fun t => if is_op (op_at code t) OP_MOVE then [opGetArgB (word code t)] else []) ws)
             [pc + 1 + k] false
  | OP_VARARG => plain (if B =? 0 then [A] else zrange A (A + B - 2)) [pc + 1]
  | OP_NOP => plain [] [pc + 1]
  end.

(* None = the fetch itself faults (pc outside Code) or jumpTable has no such entry *)
Definition sk_step (f : fn) (pc : Z) : option info :=
  match zth (f_code f) pc with
  | None => None
  | Some w =>
    match op_of_code (opGetOpCode w) with
    | None => None
    | Some o => Some (sk_inst f pc w o)
    end
  end.
