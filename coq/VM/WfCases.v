(* Case evaluator for the C07 shards. *)
From GL Require Import VM.Opcode VM.Proto VM.WfProto VM.Skeleton VM.StrKey.
From Coq Require Uint63.

(* Code words are written in the shards as primitive-integer literals (parsed natively, much
   faster than Z numerals) and converted here; each word is < 2^32 < 2^63, so nothing wraps. *)
Definition z63 (l : list Uint63.int) : list Z := map Uint63.to_Z l.

Inductive case :=
(* a compiled chunk: the dumped prototype tree; the verdict of the Go port of wf_proto; a digest of
   Go's own decoding (the opGet functions) of every instruction of every prototype; the executed transitions
   (prototype index in preorder, then pairs pc -> next pc inside one activation) *)
| CProto (p : proto) (gowf : bool) (digest : Z) (trans : list (Z * list (Z * Z)))
(* opcode.go on one word / field tuple *)
| CDecode (w op a b c bx sbx : Z)
| CCreateABC (op a b c w : Z)
| CCreateABx (op a bx w : Z)
| CCreateASbx (op a sbx w : Z)
| CSet (w field v w' : Z)
(* opProps rows [IsTest; SetRegA; ModeArgB; ModeArgC; Type] in opcode order; constants
   [maxRegisters; opCodeMax; opMaxArgsA; opMaxArgsB; opMaxArgsC; opMaxArgBx; opMaxArgSbx; opBitRk; opMaxIndexRk;
   FieldsPerFlush; MaxArrayIndex] *)
| CProps (rows : list (list Z)) (consts : list Z).

Definition digest_step (h w : Z) : Z :=
  (h * 31 + opGetOpCode w + 3 * opGetArgA w + 5 * opGetArgB w + 7 * opGetArgC w
   + 11 * opGetArgBx w + 13 * (opGetArgSbx w + 131071)) mod 1000000007.

Definition digest_of (p : proto) : Z :=
  fold_left (fun h q => fold_left digest_step (p_code q) ((h * 31 + 1) mod 1000000007)) (flatten p) 7.

Definition trans_ok (p : proto) (trans : list (Z * list (Z * Z))) : bool :=
  let fl := flatten p in
  forallb (fun '(i, l) =>
    match zth fl i with
    | None => false
    | Some q =>
      let f := view q in
      forallb (fun '(pc, pc') =>
        match sk_step f pc with
        | Some inf => existsb (Z.eqb pc') (i_succ inf)
        | None => false
        end) l
    end) trans.

Definition b2z (b : bool) : Z := if b then 1 else 0.

Fixpoint zlist_eqb (a b : list Z) : bool :=
  match a, b with
  | [], [] => true
  | x :: a', y :: b' => (x =? y) && zlist_eqb a' b'
  | _, _ => false
  end.

Fixpoint zll_eqb (a b : list (list Z)) : bool :=
  match a, b with
  | [], [] => true
  | x :: a', y :: b' => zlist_eqb x y && zll_eqb a' b'
  | _, _ => false
  end.

Definition props_rows : list (list Z) :=
  map (fun o => let pr := opProps o in
                [b2z (IsTest pr); b2z (SetRegA pr); mode_code (ModeArgB pr); mode_code (ModeArgC pr); type_code (Type_ pr)])
      all_opcodes.

Definition model_consts : list Z :=
  [frame_limit; opCodeMax; opMaxArgsA; opMaxArgsB; opMaxArgsC; opMaxArgBx; opMaxArgSbx; opBitRk; opMaxIndexRk;
   fields_per_flush; max_array_index].

Definition set_field (w field v : Z) : Z :=
  if field =? 0 then opSetOpCode w v else if field =? 1 then opSetArgA w v
  else if field =? 2 then opSetArgB w v else if field =? 3 then opSetArgC w v
  else if field =? 4 then opSetArgBx w v else opSetArgSbx w v.

Definition get_field (w field : Z) : Z :=
  if field =? 0 then opGetOpCode w else if field =? 1 then opGetArgA w
  else if field =? 2 then opGetArgB w else if field =? 3 then opGetArgC w
  else if field =? 4 then opGetArgBx w else opGetArgSbx w.

Definition field_in_range (field v : Z) : bool :=
  if field =? 0 then (0 <=? v) && (v <? 64) else if field =? 1 then (0 <=? v) && (v <? 256)
  else if field =? 2 then (0 <=? v) && (v <? 512) else if field =? 3 then (0 <=? v) && (v <? 512)
  else if field =? 4 then (0 <=? v) && (v <? 262144) else (-131071 <=? v) && (v <=? 131072).

(* the impl models (Opcode.v, the Go port's twin wf_proto, Skeleton.v) against what the code did *)
Definition check_impl (c : case) : bool :=
  match c with
  | CProto p gowf dg trans => Bool.eqb (wfx_proto p) gowf && (digest_of p =? dg) && trans_ok p trans
  | CDecode w op a b c bx sbx =>
      (opGetOpCode w =? op) && (opGetArgA w =? a) && (opGetArgB w =? b) && (opGetArgC w =? c)
      && (opGetArgBx w =? bx) && (opGetArgSbx w =? sbx)
  | CCreateABC op a b c w => opCreateABC op a b c =? w
  | CCreateABx op a bx w => opCreateABx op a bx =? w
  | CCreateASbx op a sbx w => opCreateASbx op a sbx =? w
  | CSet w field v w' => set_field w field v =? w'
  | CProps rows consts => zll_eqb props_rows rows && zlist_eqb model_consts consts
  end.

(* the property on the observed behaviour: the dumped prototype is well-formed (wf_proto) and its
   register-form string keys are fed by the LOADK of a string constant (strreg_proto, StrKey.v);
   for the codec the observed word decodes back to the in-range fields it was created from *)
Definition check_spec (c : case) : bool :=
  match c with
  | CProto p _ _ _ => wfx_proto p
  | CDecode w op a b c bx sbx => true
  | CCreateABC op a b c w =>
      if field_in_range 0 op && field_in_range 1 a && field_in_range 2 b && field_in_range 3 c
      then (opGetOpCode w =? op) && (opGetArgA w =? a) && (opGetArgB w =? b) && (opGetArgC w =? c) else true
  | CCreateABx op a bx w =>
      if field_in_range 0 op && field_in_range 1 a && field_in_range 4 bx
      then (opGetOpCode w =? op) && (opGetArgA w =? a) && (opGetArgBx w =? bx) else true
  | CCreateASbx op a sbx w =>
      if field_in_range 0 op && field_in_range 1 a && field_in_range 5 sbx
      then (opGetOpCode w =? op) && (opGetArgA w =? a) && (opGetArgSbx w =? sbx) else true
  | CSet w field v w' => if field_in_range field v then get_field w' field =? v else true
  | CProps _ _ => true
  end.
