(* wf_proto: the executable well-formedness checker of property C07, written from the statement of
   the property (operand modes of opcode.go's opProps + the implicit register ranges of the
   multi-register instructions + jump/skip targets + multi-word groups). No proofs here; soundness
   w.r.t. the VM's control/indexing skeleton (Skeleton.v) is proved in WfFacts.v. *)
From GL Require Export VM.Opcode VM.Proto.

(* compile.go: maxRegisters. NumUsedRegisters is a uint8 and register operands are 8/9-bit fields,
   so 250 (Lua 5.1 MAXSTACK; locals are limited to maxLocalVars = 200 separately) is inside what the VM can represent (frame_limit_fits in WfFacts.v). *)
Definition frame_limit := 250.

(* config.go: FieldsPerFlush, MaxArrayIndex. The raw word after a SETLIST with C = 0 is a block
   number: OP_SETLIST stores at (block-1)*FieldsPerFlush + i, which must address the array part.
   (A word that a rewriting pass re-coded as an instruction has opcode bits set, i.e. is >= 2^26,
   far outside this range.) *)
Definition fields_per_flush := 50.
Definition max_array_index := 67108864.
Definition setlist_block_ok (blk : Z) : bool :=
  (1 <=? blk) && (blk * fields_per_flush <=? max_array_index).

Definition word (code : list Z) (t : Z) : Z := match zth code t with Some w => w | None => 0 end.
Definition op_at (code : list Z) (t : Z) : option opcode := op_of_code (opGetOpCode (word code t)).

Definition is_op (o : option opcode) (x : opcode) : bool :=
  match o with Some y => op_code y =? op_code x | None => false end.

(* ---- multi-word groups -----------------------------------------------------------------------
   An instruction may own the words that follow it: OP_CLOSURE owns NumUpvalues(child) capture
   pseudo-instructions (tag 1), OP_MOVEN owns C further MOVE words (tag 2), OP_SETLIST with C = 0
   owns one raw extension word (tag 3). group_of = (number of owned words, their tag). *)
Definition group_of (f : fn) (w : Z) : Z * Z :=
  match op_of_code (opGetOpCode w) with
  | Some OP_CLOSURE => (match zth (f_nups f) (opGetArgBx w) with Some k => k | None => 0 end, 1)
  | Some OP_MOVEN => (opGetArgC w, 2)
  | Some OP_SETLIST => if opGetArgC w =? 0 then (1, 3) else (0, 0)
  | _ => (0, 0)
  end.

(* linear scan: tag 0 = instruction head; returns the tags and the number of owned words still
   pending at the end of the code (must be 0) *)
Fixpoint scan (f : fn) (code : list Z) (pend kind : Z) : list Z * Z :=
  match code with
  | [] => ([], pend)
  | w :: rest =>
    if 0 <? pend
    then let '(t, e) := scan f rest (pend - 1) kind in (kind :: t, e)
    else let '(k, knd) := group_of f w in
         let '(t, e) := scan f rest k knd in (0 :: t, e)
  end.

Definition is_head (tags : list Z) (t : Z) : bool :=
  match zth tags t with Some x => x =? 0 | None => false end.
Definition tag_is (tags : list Z) (t k : Z) : bool :=
  match zth tags t with Some x => x =? k | None => false end.

(* chk (pc+1) && ... && chk (pc+n) *)
Fixpoint words_ok (chk : Z -> bool) (pc : Z) (n : nat) : bool :=
  match n with O => true | S m => chk (pc + 1) && words_ok chk (pc + 1) m end.

(* ---- operands ------------------------------------------------------------------------------- *)
Definition reg_ok (f : fn) (r : Z) : bool := r <? f_nregs f.
Definition const_ok (f : fn) (i : Z) : bool := i <? len (f_kinds f).
Definition rk_ok (f : fn) (x : Z) : bool := if opIsK x then const_ok f (opIndexK x) else reg_ok f x.
(* index i names a string constant: inside stringConstants, and Constants[i] is that LString *)
Definition str_const (f : fn) (i : Z) : bool :=
  (i <? f_nsconst f) && match zth (f_kinds f) i with Some k => k =? 1 | None => false end.
Definition strk_ok (f : fn) (x : Z) : bool := if opIsK x then str_const f (opIndexK x) else reg_ok f x.
Definition upval_ok (f : fn) (i : Z) : bool := i <? f_nup f.

Definition mode_ok (f : fn) (m : opArgMode) (x : Z) : bool :=
  match m with opArgModeR => reg_ok f x | opArgModeK => rk_ok f x | _ => true end.

(* generic part: B and C checked according to opProps *)
Definition modes_ok (f : fn) (o : opcode) (w : Z) : bool :=
  let pr := opProps o in
  match Type_ pr with
  | opTypeABC => mode_ok f (ModeArgB pr) (opGetArgB w) && mode_ok f (ModeArgC pr) (opGetArgC w)
  | opTypeABx => match ModeArgB pr with opArgModeK => const_ok f (opGetArgBx w) | _ => true end
  | opTypeASbx => true
  end.

(* a capture pseudo-instruction after OP_CLOSURE *)
Definition capture_ok (f : fn) (tags : list Z) (t : Z) : bool :=
  tag_is tags t 1 &&
  let w := word (f_code f) t in
  match op_of_code (opGetOpCode w) with
  | Some OP_MOVE => reg_ok f (opGetArgB w)
  | Some OP_GETUPVAL => upval_ok f (opGetArgB w)
  | _ => false
  end.

(* a continuation word of OP_MOVEN *)
Definition moven_tail_ok (f : fn) (tags : list Z) (t : Z) : bool :=
  tag_is tags t 2 &&
  let w := word (f_code f) t in
  is_op (op_of_code (opGetOpCode w)) OP_MOVE && reg_ok f (opGetArgA w) && reg_ok f (opGetArgB w).

(* per-opcode part: register A and the implicit register ranges, indices that are not covered by
   the operand modes, jump and skip targets, owned words *)
Definition inst_ok (f : fn) (tags : list Z) (pc w : Z) : bool :=
  match op_of_code (opGetOpCode w) with
  | None => false
  | Some o =>
    let A := opGetArgA w in let B := opGetArgB w in let C := opGetArgC w in
    let Bx := opGetArgBx w in let sBx := opGetArgSbx w in
    let head := is_head tags in
    let reg := reg_ok f in
    let k := fst (group_of f w) in
    let fall := head (pc + 1 + k) in
    modes_ok f o w &&
    match o with
    | OP_MOVE | OP_LOADK | OP_LOADNIL | OP_GETTABLE | OP_SETTABLE | OP_NEWTABLE
    | OP_ADD | OP_SUB | OP_MUL | OP_DIV | OP_MOD | OP_POW | OP_UNM | OP_NOT | OP_LEN => reg A && fall
    | OP_MOVEN => reg A && fall && words_ok (moven_tail_ok f tags) pc (Z.to_nat C)
    | OP_LOADBOOL => reg A && (if C =? 0 then fall else head (pc + 2))
    | OP_GETUPVAL | OP_SETUPVAL => reg A && upval_ok f B && fall
    | OP_GETGLOBAL | OP_SETGLOBAL => reg A && str_const f Bx && fall
    | OP_GETTABLEKS => reg A && strk_ok f C && fall
    | OP_SETTABLEKS => reg A && strk_ok f B && fall
    | OP_SELF => reg (A + 1) && strk_ok f C && fall
    | OP_CONCAT => reg A && (B <=? C) && fall
    | OP_JMP => head (pc + 1 + sBx)
    | OP_EQ | OP_LT | OP_LE => fall && head (pc + 2)
    | OP_TEST | OP_TESTSET => reg A && fall && head (pc + 2)
    | OP_CALL => reg (A + Z.max (Z.max (B - 1) (C - 2)) 0) && fall
    | OP_TAILCALL => reg (A + Z.max (B - 1) 0)
    | OP_RETURN => if B =? 1 then true else if B =? 0 then reg A else reg (A + B - 2)
    | OP_VARARG => (if B =? 1 then true else if B =? 0 then reg A else reg (A + B - 2)) && fall
    | OP_FORLOOP => reg (A + 3) && fall && head (pc + 1 + sBx)
    | OP_FORPREP => reg (A + 2) && head (pc + 1 + sBx)
    | OP_TFORLOOP =>
        reg (A + Z.max 5 (2 + C)) && head (pc + 1) && head (pc + 2) &&
        is_op (op_at (f_code f) (pc + 1)) OP_JMP &&
        head (pc + 2 + opGetArgSbx (word (f_code f) (pc + 1)))
    | OP_SETLIST =>
        reg (A + B) && fall &&
        (if C =? 0 then tag_is tags (pc + 1) 3 && setlist_block_ok (word (f_code f) (pc + 1)) else true)
    | OP_CLOSE | OP_NOP => fall
    | OP_CLOSURE =>
        reg A && (Bx <? len (f_nups f)) && fall && words_ok (capture_ok f tags) pc (Z.to_nat k)
    end
  end.

Fixpoint check_all (f : fn) (tags : list Z) (pc : Z) (code tl : list Z) : bool :=
  match code, tl with
  | w :: code', t :: tl' =>
      (if t =? 0 then inst_ok f tags pc w else true) && check_all f tags (pc + 1) code' tl'
  | _, _ => true
  end.

Definition tags_of (f : fn) : list Z := fst (scan f (f_code f) 0 0).

(* one function *)
Definition wf_fn (f : fn) : bool :=
  let code := f_code f in
  let n := len code in
  let '(tags, pend) := scan f code 0 0 in
  (1 <=? n) && (pend =? 0) &&
  is_head tags (n - 1) && is_op (op_at code (n - 1)) OP_RETURN &&
  (f_nlines f =? n) &&
  (f_nsconst f =? len (f_kinds f)) && forallb (fun k => negb (k =? 2)) (f_kinds f) &&
  (f_nregs f <=? frame_limit) && (f_nparams f <=? f_nregs f) &&
  forallb (fun w => (0 <=? w) && (w <? 4294967296)) code &&
  check_all f tags 0 code tags.

(* the whole tree *)
Fixpoint wf_proto (p : proto) : bool :=
  let 'Proto _ _ _ subs _ _ _ _ _ := p in
  wf_fn (view p) && forallb wf_proto subs.
