(* The tags computed by `scan` are the instruction boundaries of the linear layout: position 0 is
   a head, and from a head whose instruction owns k further words (closure captures, MOVEN
   continuations, SETLIST extension) exactly the next k words are non-heads carrying the group's
   tag and the word after them is the next head. *)
From GL Require Import VM.Opcode VM.Proto VM.WfProto.

Lemma group_kind_nonzero f w k knd : group_of f w = (k, knd) -> 0 < k -> knd <> 0.
Proof.
  unfold group_of. destruct (op_of_code (opGetOpCode w)) as [o|].
  - destruct o; intros E; inversion E; subst; try lia.
    destruct (opGetArgC w =? 0); inversion H0; subst; lia.
  - intros E; inversion E; lia.
Qed.

Lemma scan_pending f : forall code pend kind j,
  Z.of_nat j < pend -> (j < length code)%nat ->
  nth_error (fst (scan f code pend kind)) j = Some kind.
Proof.
  induction code as [|w rest IH]; intros pend kind j Hj Hl; [cbn [length] in Hl; lia|].
  cbn [scan]. destruct (Z.ltb_spec 0 pend) as [Hp|Hp]; [|lia].
  specialize (IH (pend - 1) kind). destruct (scan f rest (pend - 1) kind) as [t e]. cbn [fst] in *.
  destruct j as [|j]; [reflexivity|]. cbn [nth_error]. apply IH; [lia|cbn [length] in Hl; lia].
Qed.

Lemma scan_pending_end f : forall code pend kind,
  0 <= pend -> (Z.to_nat pend < length code)%nat ->
  nth_error (fst (scan f code pend kind)) (Z.to_nat pend) = Some 0.
Proof.
  induction code as [|w rest IH]; intros pend kind Hp Hl; [cbn [length] in Hl; lia|].
  cbn [scan]. destruct (Z.ltb_spec 0 pend) as [Hpos|Hz].
  - specialize (IH (pend - 1) kind). destruct (scan f rest (pend - 1) kind) as [t e]. cbn [fst] in *.
    replace (Z.to_nat pend) with (S (Z.to_nat (pend - 1))) by lia. cbn [nth_error].
    apply IH; [lia|cbn [length] in Hl; lia].
  - assert (pend = 0) by lia. subst pend.
    destruct (group_of f w) as [k knd]. destruct (scan f rest k knd) as [t e]. reflexivity.
Qed.

Lemma scan_struct f : forall code pend kind,
  (0 < pend -> kind <> 0) ->
  forall i w, nth_error code i = Some w ->
  nth_error (fst (scan f code pend kind)) i = Some 0 ->
  (forall j, (1 <= j)%nat -> Z.of_nat j <= fst (group_of f w) -> (i + j < length code)%nat ->
     nth_error (fst (scan f code pend kind)) (i + j) = Some (snd (group_of f w))) /\
  (0 <= fst (group_of f w) -> (i + 1 + Z.to_nat (fst (group_of f w)) < length code)%nat ->
     nth_error (fst (scan f code pend kind)) (i + 1 + Z.to_nat (fst (group_of f w))) = Some 0).
Proof.
  induction code as [|w0 rest IH]; intros pend kind Hinv i w Hw Ht; [destruct i; discriminate|].
  cbn [scan] in *. destruct (Z.ltb_spec 0 pend) as [Hpos|Hz].
  - specialize (IH (pend - 1) kind). destruct (scan f rest (pend - 1) kind) as [t e]. cbn [fst] in *.
    destruct i as [|i]; cbn [nth_error] in Hw, Ht.
    + inversion Ht. exfalso. apply (Hinv Hpos). assumption.
    + assert (Hinv' : 0 < pend - 1 -> kind <> 0) by (intros; apply Hinv; lia).
      destruct (IH Hinv' i w Hw Ht) as [IH1 IH2]. split.
      * intros j Hj1 Hj2 Hj3. replace (S i + j)%nat with (S (i + j)) by lia. cbn [nth_error].
        apply IH1; [assumption|assumption|cbn [length] in Hj3; lia].
      * intros Hk Hl. replace (S i + 1 + Z.to_nat (fst (group_of f w)))%nat
          with (S (i + 1 + Z.to_nat (fst (group_of f w)))) by lia. cbn [nth_error].
        apply IH2; [assumption|cbn [length] in Hl; lia].
  - destruct (group_of f w0) as [k0 knd0] eqn:Eg.
    pose proof (scan_pending f rest k0 knd0) as Hpend.
    pose proof (scan_pending_end f rest k0 knd0) as Hend.
    specialize (IH k0 knd0). destruct (scan f rest k0 knd0) as [t e]. cbn [fst] in *.
    destruct i as [|i]; cbn [nth_error] in Hw, Ht.
    + inversion Hw; subst w0. rewrite Eg. cbn [fst snd]. split.
      * intros j Hj1 Hj2 Hj3. destruct j as [|j]; [lia|]. cbn [Nat.add nth_error].
        apply Hpend; [lia|cbn [length] in Hj3; lia].
      * intros Hk Hl. replace (0 + 1 + Z.to_nat k0)%nat with (S (Z.to_nat k0)) by lia. cbn [nth_error].
        apply Hend; [lia|cbn [length] in Hl; lia].
    + assert (Hinv' : 0 < k0 -> knd0 <> 0) by (apply (group_kind_nonzero f w0), Eg).
      destruct (IH Hinv' i w Hw Ht) as [IH1 IH2]. split.
      * intros j Hj1 Hj2 Hj3. replace (S i + j)%nat with (S (i + j)) by lia. cbn [nth_error].
        apply IH1; [assumption|assumption|cbn [length] in Hj3; lia].
      * intros Hk Hl. replace (S i + 1 + Z.to_nat (fst (group_of f w)))%nat
          with (S (i + 1 + Z.to_nat (fst (group_of f w)))) by lia. cbn [nth_error].
        apply IH2; [assumption|cbn [length] in Hl; lia].
Qed.

Lemma zth_nat {A} (l : list A) (i : nat) : zth l (Z.of_nat i) = nth_error l i.
Proof. unfold zth. destruct (Z.ltb_spec (Z.of_nat i) 0); [lia|]. rewrite Nat2Z.id. reflexivity. Qed.

(* the statement in terms of the checker's own vocabulary *)
Lemma heads_are_boundaries_lemma f pc w :
  zth (f_code f) pc = Some w -> is_head (tags_of f) pc = true ->
  let k := fst (group_of f w) in
  (forall j, 1 <= j <= k -> pc + j < len (f_code f) ->
     zth (tags_of f) (pc + j) = Some (snd (group_of f w)) /\ snd (group_of f w) <> 0) /\
  (0 <= k -> pc + 1 + k < len (f_code f) -> is_head (tags_of f) (pc + 1 + k) = true).
Proof.
  intros Hw Hh k.
  assert (Hpc : 0 <= pc).
  { unfold zth in Hw. destruct (Z.ltb_spec pc 0); [discriminate|lia]. }
  unfold is_head in Hh. destruct (zth (tags_of f) pc) as [t0|] eqn:Et; [|discriminate].
  apply Z.eqb_eq in Hh. subst t0.
  rewrite <- (Z2Nat.id pc Hpc) in Hw, Et. rewrite zth_nat in Hw, Et.
  unfold tags_of in *.
  destruct (scan_struct f (f_code f) 0 0 ltac:(lia) (Z.to_nat pc) w Hw Et) as [S1 S2].
  unfold len. split.
  - intros j Hj Hl. split.
    + replace (pc + j) with (Z.of_nat (Z.to_nat pc + Z.to_nat j)) by lia. rewrite zth_nat.
      apply S1; lia.
    + destruct (group_of f w) as [k' knd'] eqn:Eg. cbn [snd].
      apply (group_kind_nonzero f w k' knd' Eg). subst k. cbn [fst] in Hj. lia.
  - intros Hk Hl. unfold is_head.
    replace (pc + 1 + k) with (Z.of_nat (Z.to_nat pc + 1 + Z.to_nat k)) by lia. rewrite zth_nat.
    fold k in S2. rewrite S2; [reflexivity|lia|lia].
Qed.
