(* Facts about the instruction codec (Opcode.v = opcode.go): every getter/setter is an instance of
   a generic bit-field read/write on 32-bit words; round trips, independence of fields, ranges. *)
From GL Require Import VM.Opcode.
From Coq Require Import Btauto.

(* ---- generic bit fields -------------------------------------------------------------------- *)
Definition getf (lo k w : Z) : Z := Z.land (Z.shiftr w lo) (Z.ones k).
Definition fmask (lo k : Z) : Z := Z.ldiff (Z.ones 32) (Z.shiftl (Z.ones k) lo).
Definition setf (lo k w v : Z) : Z := Z.lor (Z.land w (fmask lo k)) (Z.shiftl (Z.land v (Z.ones k)) lo).

Definition inf (lo k n : Z) : bool := (lo <=? n) && (n <? lo + k).

Lemma testbit_getf lo k w n : 0 <= lo -> 0 <= k -> 0 <= n ->
  Z.testbit (getf lo k w) n = (n <? k) && Z.testbit w (n + lo).
Proof.
  intros Hlo Hk Hn. unfold getf.
  rewrite Z.land_spec, Z.shiftr_spec, Z.testbit_ones by lia.
  destruct (Z.leb_spec 0 n); [|lia]. simpl. apply andb_comm.
Qed.

Lemma testbit_fmask lo k n : 0 <= lo -> 0 <= k -> 0 <= n ->
  Z.testbit (fmask lo k) n = (n <? 32) && negb (inf lo k n).
Proof.
  intros Hlo Hk Hn. unfold fmask, inf.
  rewrite Z.ldiff_spec, Z.testbit_ones, Z.shiftl_spec by lia.
  destruct (Z.leb_spec 0 n); [|lia]. simpl.
  destruct (Z.leb_spec lo n).
  - rewrite Z.testbit_ones by lia.
    destruct (Z.leb_spec 0 (n - lo)); [|lia]. simpl.
    destruct (Z.ltb_spec (n - lo) k), (Z.ltb_spec n (lo + k)); try lia; reflexivity.
  - rewrite Z.testbit_neg_r by lia. reflexivity.
Qed.

Lemma testbit_setf lo k w v n : 0 <= lo -> 0 <= k -> 0 <= n ->
  Z.testbit (setf lo k w v) n =
  if inf lo k n then Z.testbit v (n - lo) else (n <? 32) && Z.testbit w n.
Proof.
  intros Hlo Hk Hn. unfold setf.
  rewrite Z.lor_spec, Z.land_spec, testbit_fmask, Z.shiftl_spec by lia.
  unfold inf. destruct (Z.leb_spec lo n).
  - rewrite Z.land_spec, Z.testbit_ones by lia.
    destruct (Z.leb_spec 0 (n - lo)); [|lia]. simpl.
    destruct (Z.ltb_spec (n - lo) k), (Z.ltb_spec n (lo + k)); try lia; simpl.
    + rewrite andb_false_r, andb_false_r, andb_true_r. reflexivity.
    + rewrite andb_true_r, andb_false_r, orb_false_r. apply andb_comm.
  - rewrite (Z.testbit_neg_r _ (n - lo)) by lia. simpl. rewrite andb_true_r, orb_false_r. apply andb_comm.
Qed.

Lemma testbit_small w n : 0 <= w < 2 ^ 32 -> 32 <= n -> Z.testbit w n = false.
Proof.
  intros Hw Hn. destruct (Z.eq_dec w 0) as [->|Hne]; [apply Z.bits_0|].
  apply Z.bits_above_log2; [lia|].
  assert (Z.log2 w < 32) by (apply Z.log2_lt_pow2; lia). lia.
Qed.

Lemma getf_setf_same lo k w v : 0 <= lo -> 0 <= k ->
  getf lo k (setf lo k w v) = Z.land v (Z.ones k).
Proof.
  intros Hlo Hk. apply Z.bits_inj'. intros n Hn.
  rewrite testbit_getf, testbit_setf, Z.land_spec, Z.testbit_ones by lia.
  unfold inf. destruct (Z.leb_spec 0 n); [|lia]. simpl.
  destruct (Z.ltb_spec n k); simpl.
  - destruct (Z.leb_spec lo (n + lo)), (Z.ltb_spec (n + lo) (lo + k)); try lia. simpl.
    replace (n + lo - lo) with n by lia. rewrite andb_true_r. reflexivity.
  - rewrite andb_false_r. reflexivity.
Qed.

Lemma getf_setf_other lo k lo' k' w v :
  0 <= lo -> 0 <= k -> 0 <= lo' -> 0 <= k' -> lo' + k' <= 32 ->
  (lo' + k' <= lo \/ lo + k <= lo') ->
  getf lo' k' (setf lo k w v) = getf lo' k' w.
Proof.
  intros Hlo Hk Hlo' Hk' H32 Hdis. apply Z.bits_inj'. intros n Hn.
  rewrite !testbit_getf, testbit_setf by lia.
  destruct (Z.ltb_spec n k'); simpl; [|reflexivity].
  unfold inf.
  destruct (Z.leb_spec lo (n + lo')), (Z.ltb_spec (n + lo') (lo + k)); try lia; simpl;
    destruct (Z.ltb_spec (n + lo') 32); try lia; reflexivity.
Qed.

Lemma setf_getf_id lo k w : 0 <= lo -> 0 <= k -> lo + k <= 32 -> 0 <= w < 2 ^ 32 ->
  setf lo k w (getf lo k w) = w.
Proof.
  intros Hlo Hk H32 Hw. apply Z.bits_inj'. intros n Hn.
  rewrite testbit_setf by lia. unfold inf.
  destruct (Z.leb_spec lo n), (Z.ltb_spec n (lo + k)); simpl.
  - rewrite testbit_getf by lia. replace (n - lo + lo) with n by lia.
    destruct (Z.ltb_spec (n - lo) k); [reflexivity|lia].
  - destruct (Z.ltb_spec n 32); [reflexivity|]. simpl. symmetry. apply testbit_small; lia.
  - destruct (Z.ltb_spec n 32); [reflexivity|lia].
  - destruct (Z.ltb_spec n 32); [reflexivity|lia].
Qed.

Lemma setf_range lo k w v : 0 <= lo -> 0 <= k -> lo + k <= 32 -> 0 <= setf lo k w v < 2 ^ 32.
Proof.
  intros Hlo Hk H32.
  assert (Hnn : 0 <= setf lo k w v).
  { unfold setf. apply Z.lor_nonneg. split.
    - apply Z.land_nonneg. right. unfold fmask. apply Z.ldiff_nonneg. left.
      change (Z.ones 32) with 4294967295. lia.
    - apply Z.shiftl_nonneg. apply Z.land_nonneg. right. rewrite Z.ones_equiv.
      assert (0 < 2 ^ k) by (apply Z.pow_pos_nonneg; lia). lia. }
  split; [exact Hnn|].
  destruct (Z.eq_dec (setf lo k w v) 0) as [->|Hne]; [reflexivity|].
  apply Z.log2_lt_pow2; [lia|].
  destruct (Z.lt_ge_cases (Z.log2 (setf lo k w v)) 32) as [|Hge]; [assumption|exfalso].
  assert (Hb : Z.testbit (setf lo k w v) (Z.log2 (setf lo k w v)) = true) by (apply Z.bit_log2; lia).
  rewrite testbit_setf in Hb by lia. unfold inf in Hb.
  destruct (Z.leb_spec lo (Z.log2 (setf lo k w v))), (Z.ltb_spec (Z.log2 (setf lo k w v)) (lo + k));
    simpl in Hb; try lia;
    destruct (Z.ltb_spec (Z.log2 (setf lo k w v)) 32); simpl in Hb; try lia; discriminate.
Qed.

Lemma getf_range lo k w : 0 <= k -> 0 <= getf lo k w < 2 ^ k.
Proof.
  intros Hk. unfold getf. rewrite Z.land_ones by lia. apply Z.mod_pos_bound.
  apply Z.pow_pos_nonneg; lia.
Qed.

Lemma land_ones_small v k : 0 <= k -> 0 <= v < 2 ^ k -> Z.land v (Z.ones k) = v.
Proof. intros Hk Hv. rewrite Z.land_ones by lia. apply Z.mod_small. exact Hv. Qed.

Lemma u32_small x : 0 <= x < 2 ^ 32 -> u32 x = x.
Proof. intros H. unfold u32. change 4294967295 with (Z.ones 32). apply land_ones_small; lia. Qed.

Lemma shiftl_field_small v lo k : 0 <= lo -> 0 <= k -> lo + k <= 32 ->
  0 <= Z.shiftl (Z.land v (Z.ones k)) lo < 2 ^ 32.
Proof.
  intros Hlo Hk H32. rewrite Z.land_ones, Z.shiftl_mul_pow2 by lia.
  assert (Hm : 0 <= v mod 2 ^ k < 2 ^ k) by (apply Z.mod_pos_bound, Z.pow_pos_nonneg; lia).
  assert (Hp : 0 < 2 ^ lo) by (apply Z.pow_pos_nonneg; lia).
  split; [nia|].
  apply Z.lt_le_trans with (2 ^ k * 2 ^ lo); [nia|].
  rewrite <- Z.pow_add_r by lia. apply Z.pow_le_mono_r; lia.
Qed.

(* ---- the functions of opcode.go are instances -------------------------------------------------- *)
Lemma getA_eq w : opGetArgA w = getf 18 8 w. Proof. reflexivity. Qed.
Lemma getC_eq w : opGetArgC w = getf 9 9 w. Proof. reflexivity. Qed.
Lemma getB_eq w : opGetArgB w = getf 0 9 w.
Proof. unfold opGetArgB, getf. rewrite Z.shiftr_0_r. reflexivity. Qed.
Lemma getBx_eq w : opGetArgBx w = getf 0 18 w.
Proof. unfold opGetArgBx, getf. rewrite Z.shiftr_0_r. reflexivity. Qed.
Lemma getOp_eq w : 0 <= w < 2 ^ 32 -> opGetOpCode w = getf 26 6 w.
Proof.
  intros Hw. unfold opGetOpCode, getf. symmetry. apply land_ones_small; [lia|].
  rewrite Z.shiftr_div_pow2 by lia. split.
  - apply Z.div_pos; lia.
  - apply Z.div_lt_upper_bound; lia.
Qed.

Lemma setA_eq w v : opSetArgA w v = setf 18 8 w v.
Proof.
  unfold opSetArgA, setf. change (fmask 18 8) with 4228120575. change 255 with (Z.ones 8).
  rewrite u32_small by (apply shiftl_field_small; lia). reflexivity.
Qed.
Lemma setC_eq w v : opSetArgC w v = setf 9 9 w v.
Proof.
  unfold opSetArgC, setf. change (fmask 9 9) with 4294705663. change 511 with (Z.ones 9).
  rewrite u32_small by (apply shiftl_field_small; lia). reflexivity.
Qed.
Lemma setB_eq w v : opSetArgB w v = setf 0 9 w v.
Proof.
  unfold opSetArgB, setf. change (fmask 0 9) with 4294966784. change 511 with (Z.ones 9).
  rewrite Z.shiftl_0_r.
  rewrite u32_small; [reflexivity|].
  pose proof (shiftl_field_small v 0 9 ltac:(lia) ltac:(lia) ltac:(lia)) as H.
  rewrite Z.shiftl_0_r in H. exact H.
Qed.
Lemma setBx_eq w v : opSetArgBx w v = setf 0 18 w v.
Proof.
  unfold opSetArgBx, setf. change (fmask 0 18) with 4294705152. change 262143 with (Z.ones 18).
  rewrite Z.shiftl_0_r.
  rewrite u32_small; [reflexivity|].
  pose proof (shiftl_field_small v 0 18 ltac:(lia) ltac:(lia) ltac:(lia)) as H.
  rewrite Z.shiftl_0_r in H. exact H.
Qed.
(* uint32(opcode << 26) keeps exactly the low 6 bits of opcode *)
Lemma u32_shiftl26 v : u32 (Z.shiftl v 26) = Z.shiftl (Z.land v (Z.ones 6)) 26.
Proof.
  unfold u32. change 4294967295 with (Z.ones 32). apply Z.bits_inj'. intros n Hn.
  rewrite Z.land_spec, Z.testbit_ones, !Z.shiftl_spec by lia.
  destruct (Z.leb_spec 0 n); [|lia]. simpl.
  destruct (Z.lt_ge_cases n 26).
  - rewrite !Z.testbit_neg_r by lia. reflexivity.
  - rewrite Z.land_spec, Z.testbit_ones by lia.
    destruct (Z.leb_spec 0 (n - 26)); [|lia]. simpl.
    destruct (Z.ltb_spec n 32), (Z.ltb_spec (n - 26) 6); try lia; reflexivity.
Qed.
Lemma setOp_eq w v : opSetOpCode w v = setf 26 6 w v.
Proof.
  unfold opSetOpCode, setf. change (fmask 26 6) with 67108863. rewrite u32_shiftl26. reflexivity.
Qed.

(* ---- ranges of the decoded fields ------------------------------------------------------------- *)
Lemma getA_range w : 0 <= opGetArgA w < 256.
Proof. rewrite getA_eq. apply (getf_range 18 8 w). lia. Qed.
Lemma getB_range w : 0 <= opGetArgB w < 512.
Proof. rewrite getB_eq. apply (getf_range 0 9 w). lia. Qed.
Lemma getC_range w : 0 <= opGetArgC w < 512.
Proof. rewrite getC_eq. apply (getf_range 9 9 w). lia. Qed.
Lemma getBx_range w : 0 <= opGetArgBx w < 262144.
Proof. rewrite getBx_eq. apply (getf_range 0 18 w). lia. Qed.
Lemma getSbx_range w : -131071 <= opGetArgSbx w <= 131072.
Proof. unfold opGetArgSbx, opMaxArgSbx. pose proof (getBx_range w). lia. Qed.
Lemma getOp_range w : 0 <= w < 2 ^ 32 -> 0 <= opGetOpCode w < 64.
Proof. intros Hw. rewrite getOp_eq by exact Hw. apply (getf_range 26 6 w). lia. Qed.

(* ---- round trips ------------------------------------------------------------------------------ *)
Ltac fields :=
  repeat match goal with
  | |- context [opGetArgA ?x] => rewrite (getA_eq x)
  | |- context [opGetArgB ?x] => rewrite (getB_eq x)
  | |- context [opGetArgC ?x] => rewrite (getC_eq x)
  | |- context [opGetArgBx ?x] => rewrite (getBx_eq x)
  | |- context [opSetArgA ?x ?y] => rewrite (setA_eq x y)
  | |- context [opSetArgB ?x ?y] => rewrite (setB_eq x y)
  | |- context [opSetArgC ?x ?y] => rewrite (setC_eq x y)
  | |- context [opSetArgBx ?x ?y] => rewrite (setBx_eq x y)
  | |- context [opSetOpCode ?x ?y] => rewrite (setOp_eq x y)
  end.

Lemma createABC_range op a b c : 0 <= opCreateABC op a b c < 2 ^ 32.
Proof. unfold opCreateABC. rewrite setC_eq. apply setf_range; lia. Qed.
Lemma createABx_range op a bx : 0 <= opCreateABx op a bx < 2 ^ 32.
Proof. unfold opCreateABx. rewrite setBx_eq. apply setf_range; lia. Qed.
Lemma createASbx_range op a sbx : 0 <= opCreateASbx op a sbx < 2 ^ 32.
Proof. unfold opCreateASbx, opSetArgSbx. rewrite setBx_eq. apply setf_range; lia. Qed.

Lemma createABC_get op a b c :
  0 <= op < 64 -> 0 <= a < 256 -> 0 <= b < 512 -> 0 <= c < 512 ->
  let w := opCreateABC op a b c in
  opGetOpCode w = op /\ opGetArgA w = a /\ opGetArgB w = b /\ opGetArgC w = c.
Proof.
  intros Hop Ha Hb Hc w.
  assert (Hw : 0 <= w < 2 ^ 32) by apply createABC_range.
  rewrite (getOp_eq w Hw). subst w. unfold opCreateABC. fields.
  repeat split.
  - rewrite !getf_setf_other by lia. rewrite getf_setf_same by lia. apply land_ones_small; lia.
  - rewrite !getf_setf_other by lia. rewrite getf_setf_same by lia. apply land_ones_small; lia.
  - rewrite !getf_setf_other by lia. rewrite getf_setf_same by lia. apply land_ones_small; lia.
  - rewrite getf_setf_same by lia. apply land_ones_small; lia.
Qed.

Lemma createABx_get op a bx :
  0 <= op < 64 -> 0 <= a < 256 -> 0 <= bx < 262144 ->
  let w := opCreateABx op a bx in
  opGetOpCode w = op /\ opGetArgA w = a /\ opGetArgBx w = bx.
Proof.
  intros Hop Ha Hb w.
  assert (Hw : 0 <= w < 2 ^ 32) by apply createABx_range.
  rewrite (getOp_eq w Hw). subst w. unfold opCreateABx. fields.
  repeat split.
  - rewrite !getf_setf_other by lia. rewrite getf_setf_same by lia. apply land_ones_small; lia.
  - rewrite !getf_setf_other by lia. rewrite getf_setf_same by lia. apply land_ones_small; lia.
  - rewrite getf_setf_same by lia. apply land_ones_small; lia.
Qed.

Lemma createASbx_get op a sbx :
  0 <= op < 64 -> 0 <= a < 256 -> -131071 <= sbx <= 131072 ->
  let w := opCreateASbx op a sbx in
  opGetOpCode w = op /\ opGetArgA w = a /\ opGetArgSbx w = sbx.
Proof.
  intros Hop Ha Hb w.
  assert (Hw : 0 <= w < 2 ^ 32) by apply createASbx_range.
  rewrite (getOp_eq w Hw). subst w. unfold opCreateASbx, opSetArgSbx, opGetArgSbx, opMaxArgSbx. fields.
  repeat split.
  - rewrite !getf_setf_other by lia. rewrite getf_setf_same by lia. apply land_ones_small; lia.
  - rewrite !getf_setf_other by lia. rewrite getf_setf_same by lia. apply land_ones_small; lia.
  - rewrite getf_setf_same by lia. rewrite land_ones_small by lia. lia.
Qed.

(* set o get = id, on every field *)
Lemma set_get_id w : 0 <= w < 2 ^ 32 ->
  opSetOpCode w (opGetOpCode w) = w /\ opSetArgA w (opGetArgA w) = w /\ opSetArgB w (opGetArgB w) = w /\
  opSetArgC w (opGetArgC w) = w /\ opSetArgBx w (opGetArgBx w) = w /\ opSetArgSbx w (opGetArgSbx w) = w.
Proof.
  intros Hw. rewrite (getOp_eq w Hw). unfold opSetArgSbx, opGetArgSbx.
  replace (opGetArgBx w - opMaxArgSbx + opMaxArgSbx) with (opGetArgBx w) by lia.
  fields. repeat split; apply setf_getf_id; lia.
Qed.

(* get o set: the written field holds the value (reduced to the field width), every other field
   is unchanged *)
Lemma get_set w v : 0 <= w < 2 ^ 32 ->
  (opGetOpCode (opSetOpCode w v) = v mod 64 /\ opGetArgA (opSetOpCode w v) = opGetArgA w /\
   opGetArgB (opSetOpCode w v) = opGetArgB w /\ opGetArgC (opSetOpCode w v) = opGetArgC w) /\
  (opGetArgA (opSetArgA w v) = v mod 256 /\ opGetOpCode (opSetArgA w v) = opGetOpCode w /\
   opGetArgB (opSetArgA w v) = opGetArgB w /\ opGetArgC (opSetArgA w v) = opGetArgC w) /\
  (opGetArgB (opSetArgB w v) = v mod 512 /\ opGetOpCode (opSetArgB w v) = opGetOpCode w /\
   opGetArgA (opSetArgB w v) = opGetArgA w /\ opGetArgC (opSetArgB w v) = opGetArgC w) /\
  (opGetArgC (opSetArgC w v) = v mod 512 /\ opGetOpCode (opSetArgC w v) = opGetOpCode w /\
   opGetArgA (opSetArgC w v) = opGetArgA w /\ opGetArgB (opSetArgC w v) = opGetArgB w) /\
  (opGetArgBx (opSetArgBx w v) = v mod 262144 /\ opGetOpCode (opSetArgBx w v) = opGetOpCode w /\
   opGetArgA (opSetArgBx w v) = opGetArgA w) /\
  (opGetArgSbx (opSetArgSbx w v) = (v + 131071) mod 262144 - 131071 /\
   opGetOpCode (opSetArgSbx w v) = opGetOpCode w /\ opGetArgA (opSetArgSbx w v) = opGetArgA w).
Proof.
  intros Hw.
  assert (R : forall lo k x, 0 <= lo -> 0 <= k -> lo + k <= 32 -> 0 <= setf lo k w x < 2 ^ 32)
    by (intros; apply setf_range; lia).
  unfold opSetArgSbx, opGetArgSbx, opMaxArgSbx.
  rewrite (getOp_eq w Hw).
  rewrite !setOp_eq, !setA_eq, !setB_eq, !setC_eq, !setBx_eq.
  rewrite !getOp_eq by (apply R; lia).
  fields.
  repeat split;
    try (rewrite getf_setf_same by lia; rewrite Z.land_ones by lia; reflexivity);
    try (apply getf_setf_other; lia).
Qed.

Lemma codec_roundtrip_lemma :
  (forall op a b c, 0 <= op < 64 -> 0 <= a < 256 -> 0 <= b < 512 -> 0 <= c < 512 ->
     let w := opCreateABC op a b c in
     0 <= w < 2 ^ 32 /\ opGetOpCode w = op /\ opGetArgA w = a /\ opGetArgB w = b /\ opGetArgC w = c) /\
  (forall op a bx, 0 <= op < 64 -> 0 <= a < 256 -> 0 <= bx < 262144 ->
     let w := opCreateABx op a bx in
     0 <= w < 2 ^ 32 /\ opGetOpCode w = op /\ opGetArgA w = a /\ opGetArgBx w = bx) /\
  (forall op a sbx, 0 <= op < 64 -> 0 <= a < 256 -> -131071 <= sbx <= 131072 ->
     let w := opCreateASbx op a sbx in
     0 <= w < 2 ^ 32 /\ opGetOpCode w = op /\ opGetArgA w = a /\ opGetArgSbx w = sbx).
Proof.
  split; [|split].
  - intros op a b c Ho Ha Hb Hc w. split; [apply createABC_range|apply createABC_get; assumption].
  - intros op a bx Ho Ha Hb w. split; [apply createABx_range|apply createABx_get; assumption].
  - intros op a sbx Ho Ha Hb w. split; [apply createASbx_range|apply createASbx_get; assumption].
Qed.

Lemma codec_ranges_lemma : forall w,
  0 <= opGetArgA w < 256 /\ 0 <= opGetArgB w < 512 /\ 0 <= opGetArgC w < 512 /\
  0 <= opGetArgBx w < 262144 /\ -131071 <= opGetArgSbx w <= 131072.
Proof.
  intros w. repeat split; first
    [ apply getA_range | apply getB_range | apply getC_range | apply getBx_range | apply getSbx_range ].
Qed.
