(* Soundness of wf_proto (WfProto.v) against the VM skeleton (Skeleton.v): C07. *)
From GL Require Import VM.Opcode VM.OpcodeFacts VM.Proto VM.WfProto VM.Skeleton.

Lemma frame_limit_fits_lemma : 0 < frame_limit /\ frame_limit <= opMaxArgsA.
Proof. unfold frame_limit, opMaxArgsA. lia. Qed.

(* ---- lists ------------------------------------------------------------------------------------ *)
Lemma zth_some {A} (l : list A) i x : zth l i = Some x -> 0 <= i < len l.
Proof.
  unfold zth, len. destruct (Z.ltb_spec i 0) as [Hneg|Hnn]; [discriminate|]. intros Hz.
  assert (Hlt : (Z.to_nat i < length l)%nat) by (apply nth_error_Some; congruence). lia.
Qed.

Lemma zth_in_range {A} (l : list A) i : 0 <= i < len l -> exists x, zth l i = Some x.
Proof.
  unfold zth, len. intros H. destruct (Z.ltb_spec i 0) as [Hneg|Hnn]; [lia|].
  destruct (nth_error l (Z.to_nat i)) eqn:E; [eauto|].
  apply nth_error_None in E. lia.
Qed.

Lemma zth_nth_error {A} (l : list A) (i : nat) : zth l (Z.of_nat i) = nth_error l i.
Proof. unfold zth. destruct (Z.ltb_spec (Z.of_nat i) 0); [lia|]. rewrite Nat2Z.id. reflexivity. Qed.

Lemma in_zrange a b x : In x (zrange a b) <-> a <= x <= b.
Proof.
  unfold zrange. rewrite in_map_iff. split.
  - intros [i [<- Hi]]. apply in_seq in Hi. lia.
  - intros H. exists (Z.to_nat (x - a)). split; [lia|]. apply in_seq. lia.
Qed.

Lemma Forall_zrange (P : Z -> Prop) a b : (forall x, a <= x <= b -> P x) -> Forall P (zrange a b).
Proof. intros H. apply Forall_forall. intros x Hx. apply H, in_zrange, Hx. Qed.

Lemma Forall_flat_map {A B} (P : B -> Prop) (g : A -> list B) l :
  (forall x, In x l -> Forall P (g x)) -> Forall P (flat_map g l).
Proof.
  induction l as [|a l IH]; simpl; intros H; [constructor|].
  apply Forall_app. split; [apply H; now left | apply IH; intros; apply H; now right].
Qed.

Lemma words_ok_spec chk n : forall pc, words_ok chk pc n = true ->
  forall t, pc + 1 <= t <= pc + Z.of_nat n -> chk t = true.
Proof.
  induction n as [|n IH]; intros pc H t Ht; [lia|].
  simpl in H. apply andb_true_iff in H. destruct H as [H1 H2].
  destruct (Z.eq_dec t (pc + 1)) as [->|Hne]; [exact H1|].
  apply (IH (pc + 1) H2). lia.
Qed.

(* ---- the scan --------------------------------------------------------------------------------- *)
Lemma scan_length f code : forall pend kind, length (fst (scan f code pend kind)) = length code.
Proof.
  induction code as [|w rest IH]; intros pend kind; cbn [scan]; [reflexivity|].
  destruct (0 <? pend).
  - specialize (IH (pend - 1) kind). destruct (scan f rest (pend - 1) kind) as [t e].
    cbn [fst length] in *. congruence.
  - destruct (group_of f w) as [k knd]. specialize (IH k knd).
    destruct (scan f rest k knd) as [t e]. cbn [fst length] in *. congruence.
Qed.

Lemma check_all_spec f tags : forall code tl pc,
  check_all f tags pc code tl = true ->
  forall i w, nth_error code i = Some w -> nth_error tl i = Some 0 ->
  inst_ok f tags (pc + Z.of_nat i) w = true.
Proof.
  induction code as [|w0 code IH]; intros tl pc H i w Hc Ht.
  - destruct i; discriminate.
  - destruct tl as [|t0 tl]; [destruct i; discriminate|].
    cbn [check_all] in H. apply andb_true_iff in H. destruct H as [H0 H1].
    destruct i as [|i]; cbn [nth_error] in Hc, Ht.
    + inversion Hc; inversion Ht; subst. rewrite Z.eqb_refl in H0.
      replace (pc + Z.of_nat 0) with pc by lia. exact H0.
    + replace (pc + Z.of_nat (S i)) with (pc + 1 + Z.of_nat i) by lia.
      eapply IH; eassumption.
Qed.

(* ---- what a run may touch --------------------------------------------------------------------- *)
Definition pc_ok (f : fn) (pc : Z) : Prop := is_head (tags_of f) pc = true.

Definition safe_info (f : fn) (i : info) : Prop :=
  Forall (fun k => 0 <= k < len (f_code f)) (i_code i) /\
  Forall (fun k => 0 <= k < len (f_kinds f)) (i_const i) /\
  Forall (fun k => (0 <= k < f_nsconst f) /\ zth (f_kinds f) k = Some 1) (i_sconst i) /\
  Forall (fun k => 0 <= k < len (f_nups f)) (i_proto i) /\
  Forall (fun k => 0 <= k < f_nup f) (i_upval i) /\
  Forall (fun r => 0 <= r < f_nregs f) (i_regs i) /\
  Forall (pc_ok f) (i_succ i).

Lemma is_head_range tags t : is_head tags t = true -> 0 <= t < len tags.
Proof. unfold is_head. destruct (zth tags t) eqn:E; [|discriminate]. intros _. eapply zth_some, E. Qed.

Lemma tag_is_range tags t k : tag_is tags t k = true -> 0 <= t < len tags.
Proof. unfold tag_is. destruct (zth tags t) eqn:E; [|discriminate]. intros _. eapply zth_some, E. Qed.

Lemma tags_len f : len (tags_of f) = len (f_code f).
Proof. unfold tags_of, len. rewrite scan_length. reflexivity. Qed.

Lemma pc_ok_range f pc : pc_ok f pc -> 0 <= pc < len (f_code f).
Proof. intros H. rewrite <- tags_len. apply is_head_range, H. Qed.

Lemma opIndexK_nonneg x : 0 <= x -> 0 <= opIndexK x.
Proof. intros H. unfold opIndexK. apply Z.land_nonneg. left. exact H. Qed.

Notation regP f := (fun r : Z => 0 <= r < f_nregs f).
Notation constP f := (fun k : Z => 0 <= k < len (f_kinds f)).
Notation sconstP f := (fun k : Z => (0 <= k < f_nsconst f) /\ zth (f_kinds f) k = Some 1).

Lemma rk_regs_safe f x : 0 <= x -> rk_ok f x = true -> Forall (regP f) (rk_regs x).
Proof.
  unfold rk_ok, rk_regs, reg_ok. intros Hx H. destruct (opIsK x); [constructor|].
  apply Z.ltb_lt in H. repeat constructor; lia.
Qed.

Lemma rk_consts_safe f x : 0 <= x -> rk_ok f x = true -> Forall (constP f) (rk_consts x).
Proof.
  unfold rk_ok, rk_consts, const_ok. intros Hx H. destruct (opIsK x); [|constructor].
  apply Z.ltb_lt in H. pose proof (opIndexK_nonneg x Hx). repeat constructor; lia.
Qed.

Lemma str_const_safe f i : 0 <= i -> str_const f i = true -> (0 <= i < f_nsconst f) /\ zth (f_kinds f) i = Some 1.
Proof.
  unfold str_const. intros Hi H. apply andb_true_iff in H. destruct H as [H1 H2].
  apply Z.ltb_lt in H1. destruct (zth (f_kinds f) i) as [k|]; [|discriminate].
  apply Z.eqb_eq in H2. subst. split; [lia|reflexivity].
Qed.

Lemma strk_regs_safe f x : 0 <= x -> strk_ok f x = true -> Forall (regP f) (rk_regs x).
Proof.
  unfold strk_ok, rk_regs, reg_ok. intros Hx H. destruct (opIsK x); [constructor|].
  apply Z.ltb_lt in H. repeat constructor; lia.
Qed.

Lemma strk_sconsts_safe f x : 0 <= x -> strk_ok f x = true -> Forall (sconstP f) (rk_consts x).
Proof.
  unfold strk_ok, rk_consts. intros Hx H. destruct (opIsK x); [|constructor].
  constructor; [|constructor]. apply str_const_safe; [apply opIndexK_nonneg, Hx|exact H].
Qed.

Lemma reg_ok_lt f r : reg_ok f r = true -> r < f_nregs f.
Proof. unfold reg_ok. apply Z.ltb_lt. Qed.

(* ---- unpacking wf_fn --------------------------------------------------------------------------- *)
Lemma wf_fn_facts f : wf_fn f = true ->
  1 <= len (f_code f) /\
  is_head (tags_of f) (len (f_code f) - 1) = true /\
  is_op (op_at (f_code f) (len (f_code f) - 1)) OP_RETURN = true /\
  f_nlines f = len (f_code f) /\ f_nsconst f = len (f_kinds f) /\
  f_nregs f <= frame_limit /\ f_nparams f <= f_nregs f /\
  check_all f (tags_of f) 0 (f_code f) (tags_of f) = true.
Proof.
  unfold wf_fn, tags_of. destruct (scan f (f_code f) 0 0) as [tags pend]. cbn [fst].
  intros H. repeat (apply andb_true_iff in H; destruct H as [H ?]).
  repeat split; try assumption; try (apply Z.leb_le; assumption); try (apply Z.eqb_eq; assumption).
Qed.

Lemma head_inst_ok f pc : wf_fn f = true -> pc_ok f pc ->
  exists w, zth (f_code f) pc = Some w /\ inst_ok f (tags_of f) pc w = true.
Proof.
  intros Hwf Hpc. pose proof (pc_ok_range f pc Hpc) as Hr.
  destruct (zth_in_range (f_code f) pc Hr) as [w Hw]. exists w. split; [exact Hw|].
  destruct (wf_fn_facts f Hwf) as (_ & _ & _ & _ & _ & _ & _ & Hall).
  unfold pc_ok, is_head in Hpc. destruct (zth (tags_of f) pc) as [t|] eqn:Et; [|discriminate].
  apply Z.eqb_eq in Hpc. subst t.
  pose proof (check_all_spec f (tags_of f) (f_code f) (tags_of f) 0 Hall (Z.to_nat pc) w) as HH.
  rewrite <- !zth_nth_error, Z2Nat.id in HH by lia. rewrite Z.add_0_l in HH.
  apply HH; assumption.
Qed.

(* ---- one instruction --------------------------------------------------------------------------- *)
Ltac bsplit :=
  repeat match goal with
  | H : _ && _ = true |- _ => apply andb_true_iff in H; destruct H
  | H : true = true |- _ => clear H
  end.

Ltac fa :=
  repeat first
    [ apply Forall_nil
    | apply Forall_cons
    | (apply Forall_app; split)
    | apply Forall_zrange; intros ].

Ltac leaf :=
  first [ assumption | lia
        | (apply rk_regs_safe; [lia|assumption]) | (apply rk_consts_safe; [lia|assumption])
        | (apply strk_regs_safe; [lia|assumption]) | (apply strk_sconsts_safe; [lia|assumption])
        | (apply str_const_safe; [lia|assumption]) ].

Ltac norm_hyps :=
  repeat match goal with
  | H : _ && _ = true |- _ => apply andb_true_iff in H; destruct H
  | H : true = true |- _ => clear H
  | H : reg_ok _ _ = true |- _ => apply reg_ok_lt in H
  | H : (_ <=? _) = true |- _ => apply Z.leb_le in H
  | H : (_ <? _) = true |- _ => apply Z.ltb_lt in H
  | H : upval_ok _ _ = true |- _ => unfold upval_ok in H
  | H : const_ok _ _ = true |- _ => unfold const_ok in H
  | H : context [if ?c =? ?d then _ else _] |- _ => destruct (Z.eqb_spec c d)
  | |- context [if ?c =? ?d then _ else _] => destruct (Z.eqb_spec c d)
  end.

Lemma small_not_K x : 0 <= x < 256 -> opIsK x = false.
Proof.
  intros Hx. unfold opIsK, opBitRk.
  assert (E : Z.land x 256 = 0).
  { apply Z.bits_inj'. intros n Hn. rewrite Z.land_spec, Z.bits_0.
    change 256 with (2 ^ 8). rewrite Z.pow2_bits_eqb by lia.
    destruct (Z.eqb_spec 8 n) as [<-|Hne]; [|apply andb_false_r].
    rewrite andb_true_r. destruct (Z.eq_dec x 0) as [->|Hx0]; [apply Z.bits_0|].
    apply Z.bits_above_log2; [lia|].
    assert (Z.log2 x < 8) by (apply Z.log2_lt_pow2; lia). lia. }
  rewrite E. reflexivity.
Qed.

Lemma reg_as_rk f x : f_nregs f <= frame_limit -> 0 <= x < f_nregs f ->
  rk_regs x = [x] /\ rk_consts x = [].
Proof.
  unfold frame_limit, rk_regs, rk_consts. intros Hl Hx. rewrite small_not_K by lia. split; reflexivity.
Qed.

Lemma moven_tail_facts f t : moven_tail_ok f (tags_of f) t = true ->
  0 <= t < len (f_code f) /\ opGetArgA (word (f_code f) t) < f_nregs f /\ opGetArgB (word (f_code f) t) < f_nregs f.
Proof.
  unfold moven_tail_ok. intros H. apply andb_true_iff in H. destruct H as [Ht H].
  apply tag_is_range in Ht. rewrite tags_len in Ht.
  apply andb_true_iff in H. destruct H as [H HB]. apply andb_true_iff in H. destruct H as [_ HA].
  apply reg_ok_lt in HA. apply reg_ok_lt in HB. auto.
Qed.

Lemma capture_facts f t : capture_ok f (tags_of f) t = true ->
  0 <= t < len (f_code f) /\
  (is_op (op_at (f_code f) t) OP_GETUPVAL = true -> opGetArgB (word (f_code f) t) < f_nup f) /\
  (is_op (op_at (f_code f) t) OP_MOVE = true -> opGetArgB (word (f_code f) t) < f_nregs f).
Proof.
  unfold capture_ok, op_at. intros H. apply andb_true_iff in H. destruct H as [Ht H].
  apply tag_is_range in Ht. rewrite tags_len in Ht. split; [exact Ht|].
  destruct (op_of_code (opGetOpCode (word (f_code f) t))) as [o|]; [|discriminate].
  destruct o; try discriminate; cbn [is_op op_code]; split; intros E; try discriminate.
  - apply reg_ok_lt, H.
  - unfold upval_ok in H. apply Z.ltb_lt, H.
Qed.

Lemma inst_ok_safe f pc w o :
  0 <= pc -> f_nregs f <= frame_limit ->
  inst_ok f (tags_of f) pc w = true -> op_of_code (opGetOpCode w) = Some o ->
  safe_info f (sk_inst f pc w o).
Proof.
  intros Hpc Hlim H Hop. unfold inst_ok in H. rewrite Hop in H.
  pose proof (getA_range w) as HA. pose proof (getB_range w) as HB.
  pose proof (getC_range w) as HC. pose proof (getBx_range w) as HBx.
  unfold group_of in H. rewrite Hop in H.
  unfold safe_info.
  destruct o; cbn [modes_ok opProps Type_ ModeArgB ModeArgC mode_ok fst] in H;
    cbn [sk_inst plain i_code i_const i_sconst i_proto i_upval i_regs i_succ];
    norm_hyps; cbn [fst] in *;
    replace (pc + 1 + 0) with (pc + 1) in * by lia;
    replace (pc + 1 + 1) with (pc + 2) in * by lia.
  all: try (repeat split; fa; unfold pc_ok; leaf).
  - (* MOVEN *)
    assert (Ht : forall t, pc + 1 <= t <= pc + opGetArgC w ->
                 0 <= t < len (f_code f) /\ opGetArgA (word (f_code f) t) < f_nregs f /\
                 opGetArgB (word (f_code f) t) < f_nregs f).
    { intros t Ht. apply moven_tail_facts. eapply words_ok_spec; [eassumption|].
      rewrite Z2Nat.id by lia. lia. }
    repeat split; fa; unfold pc_ok; try leaf.
    + apply Ht; lia.
    + apply Forall_flat_map. intros t Hin. apply in_zrange in Hin.
      destruct (Ht t Hin) as (_ & Ha & Hb).
      pose proof (getA_range (word (f_code f) t)). pose proof (getB_range (word (f_code f) t)).
      fa; lia.
  - (* UNM *)
    destruct (reg_as_rk f (opGetArgB w) Hlim ltac:(lia)) as [E1 E2]. rewrite E1, E2.
    repeat split; fa; unfold pc_ok; leaf.
  - (* LEN *)
    destruct (reg_as_rk f (opGetArgB w) Hlim ltac:(lia)) as [E1 E2]. rewrite E1, E2.
    repeat split; fa; unfold pc_ok; leaf.
  - (* TFORLOOP *)
    match goal with H : is_head _ (pc + 1) = true |- _ => pose proof (is_head_range _ _ H) as Hr end.
    rewrite tags_len in Hr.
    repeat split; fa; unfold pc_ok; try leaf.
  - (* SETLIST, C = 0 *)
    match goal with H : tag_is _ (pc + 1) 3 = true |- _ => pose proof (tag_is_range _ _ _ H) as Hr end.
    rewrite tags_len in Hr.
    repeat split; fa; unfold pc_ok; try leaf.
  - (* CLOSURE *)
    set (k := match zth (f_nups f) (opGetArgBx w) with Some k => k | None => 0 end) in *.
    assert (Ht : forall t, pc + 1 <= t <= pc + k -> capture_ok f (tags_of f) t = true).
    { intros t Ht. eapply words_ok_spec; [eassumption|].
      lia. }
    repeat split; fa; unfold pc_ok; try leaf.
    + apply (capture_facts f x). apply Ht. lia.
    + apply Forall_flat_map. intros t Hin. apply in_zrange in Hin.
      destruct (capture_facts f t (Ht t Hin)) as (_ & Hu & _).
      pose proof (getB_range (word (f_code f) t)).
      destruct (is_op (op_at (f_code f) t) OP_GETUPVAL); fa. specialize (Hu eq_refl). lia.
    + apply Forall_flat_map. intros t Hin. apply in_zrange in Hin.
      destruct (capture_facts f t (Ht t Hin)) as (_ & _ & Hm).
      pose proof (getB_range (word (f_code f) t)).
      destruct (is_op (op_at (f_code f) t) OP_MOVE); fa. specialize (Hm eq_refl). lia.
Qed.

(* ---- one step ---------------------------------------------------------------------------------- *)
Lemma wf_step_safe_lemma f pc :
  wf_fn f = true -> pc_ok f pc -> exists i, sk_step f pc = Some i /\ safe_info f i.
Proof.
  intros Hwf Hpc. destruct (head_inst_ok f pc Hwf Hpc) as (w & Hw & Hi).
  destruct (wf_fn_facts f Hwf) as (_ & _ & _ & _ & _ & Hlim & _ & _).
  pose proof (pc_ok_range f pc Hpc) as Hr.
  unfold sk_step. rewrite Hw.
  destruct (op_of_code (opGetOpCode w)) as [o|] eqn:Hop.
  - eexists. split; [reflexivity|]. apply inst_ok_safe; try assumption. lia.
  - unfold inst_ok in Hi. rewrite Hop in Hi. discriminate.
Qed.

(* ---- any number of steps ------------------------------------------------------------------------ *)
(* pc' is reachable from pc by following successors of the skeleton (whatever the data does) *)
Inductive reach (f : fn) : Z -> Z -> Prop :=
| reach_refl pc : reach f pc pc
| reach_step pc i s pc' :
    sk_step f pc = Some i -> In s (i_succ i) -> reach f s pc' -> reach f pc pc'.

Lemma wf_reach_ok f : wf_fn f = true -> forall pc pc', reach f pc pc' -> pc_ok f pc -> pc_ok f pc'.
Proof.
  intros Hwf pc pc' Hr. induction Hr as [pc|pc i s pc' Hs Hin Hr IH]; intros Hpc; [exact Hpc|].
  apply IH. destruct (wf_step_safe_lemma f pc Hwf Hpc) as (i' & Hs' & Hsafe).
  rewrite Hs in Hs'. inversion Hs'; subst i'.
  destruct Hsafe as (_ & _ & _ & _ & _ & _ & Hsucc).
  rewrite Forall_forall in Hsucc. apply Hsucc, Hin.
Qed.

Lemma entry_ok f : wf_fn f = true -> pc_ok f 0.
Proof.
  intros Hwf. destruct (wf_fn_facts f Hwf) as (Hn & _).
  unfold pc_ok, tags_of, is_head. destruct (f_code f) as [|w rest] eqn:E.
  - unfold len in Hn. simpl in Hn. lia.
  - cbn [scan]. change (0 <? 0) with false. cbv iota.
    destruct (group_of f w) as [k knd]. destruct (scan f rest k knd) as [t e]. reflexivity.
Qed.

Lemma wf_run_safe_lemma f :
  wf_fn f = true ->
  forall pc, reach f 0 pc ->
  pc_ok f pc /\ exists i, sk_step f pc = Some i /\ safe_info f i.
Proof.
  intros Hwf pc Hr.
  assert (Hok : pc_ok f pc) by (eapply wf_reach_ok; [exact Hwf|exact Hr|apply entry_ok, Hwf]).
  split; [exact Hok|]. apply wf_step_safe_lemma; assumption.
Qed.

(* falling off the end is impossible: every reachable pc is inside the code *)
Lemma wf_run_in_code_lemma f : wf_fn f = true -> forall pc, reach f 0 pc -> 0 <= pc < len (f_code f).
Proof. intros Hwf pc Hr. apply pc_ok_range. apply (wf_run_safe_lemma f Hwf pc Hr). Qed.

(* ---- registers ---------------------------------------------------------------------------------- *)
Lemma wf_regs_bounded_lemma f pc i :
  wf_fn f = true -> reach f 0 pc -> sk_step f pc = Some i ->
  f_nparams f <= f_nregs f /\ f_nregs f <= frame_limit /\ frame_limit <= opMaxArgsA /\
  Forall (fun r => 0 <= r < f_nregs f) (i_regs i).
Proof.
  intros Hwf Hr Hs.
  destruct (wf_fn_facts f Hwf) as (_ & _ & _ & _ & _ & Hlim & Hpar & _).
  destruct (wf_run_safe_lemma f Hwf pc Hr) as (_ & i' & Hs' & Hsafe).
  rewrite Hs in Hs'. inversion Hs'; subst i'.
  repeat split; try assumption; try (unfold frame_limit, opMaxArgsA; lia).
  apply Hsafe.
Qed.

(* ---- the prototype tree ------------------------------------------------------------------------- *)
Section ProtoInd.
  Variable P : proto -> Prop.
  Hypothesis Hstep : forall c k n subs a b v r l, Forall P subs -> P (Proto c k n subs a b v r l).
  Fixpoint proto_ind' (p : proto) : P p :=
    match p with
    | Proto c k n subs a b v r l =>
      Hstep c k n subs a b v r l
        ((fix go (l : list proto) : Forall P l :=
            match l with
            | [] => Forall_nil P
            | x :: t => Forall_cons x (proto_ind' x) (go t)
            end) subs)
    end.
End ProtoInd.

Lemma wf_proto_all_lemma p : wf_proto p = true -> forall q, In q (flatten p) -> wf_fn (view q) = true.
Proof.
  induction p as [c k n subs a b v r l IH] using proto_ind'. intros H q Hin.
  cbn [wf_proto] in H. apply andb_true_iff in H. destruct H as [H1 H2].
  cbn [flatten] in Hin. destruct Hin as [<-|Hin]; [exact H1|].
  apply in_flat_map in Hin. destruct Hin as (s & Hs & Hq).
  rewrite Forall_forall in IH. apply (IH s Hs); [|exact Hq].
  rewrite forallb_forall in H2. apply H2, Hs.
Qed.

(* what OP_CLOSURE reads about a nested prototype is its real upvalue count *)
Lemma view_nups p : f_nups (view p) = map p_nup (p_subs p).
Proof. reflexivity. Qed.

(* The universal claim of C07 quantifies over the compiler, which is not modelled. *)
Definition C07_statement (compile : list Z -> option proto) : Prop :=
  forall src p, compile src = Some p -> wf_proto p = true.

(* What a successful evaluation of the checker on a dumped prototype tree establishes. *)
Definition C07_consequences (p : proto) : Prop :=
  forall q, In q (flatten p) ->
    let f := view q in
    pc_ok f 0 /\
    f_nlines f = len (f_code f) /\
    f_nregs f <= frame_limit /\
    is_op (op_at (f_code f) (len (f_code f) - 1)) OP_RETURN = true /\
    forall pc, reach f 0 pc ->
      0 <= pc < len (f_code f) /\ pc_ok f pc /\
      exists i, sk_step f pc = Some i /\ safe_info f i.

Lemma C07_statement_partial_lemma p : wf_proto p = true -> C07_consequences p.
Proof.
  intros Hwf q Hq f. pose proof (wf_proto_all_lemma p Hwf q Hq) as Hf. fold f in Hf.
  destruct (wf_fn_facts f Hf) as (_ & _ & Hret & Hlines & _ & Hlim & _ & _).
  repeat split; try assumption.
  - apply entry_ok, Hf.
  - apply (wf_run_in_code_lemma f Hf pc H).
  - apply (wf_run_in_code_lemma f Hf pc H).
  - apply (wf_run_safe_lemma f Hf pc H).
  - apply (wf_run_safe_lemma f Hf pc H).
Qed.
