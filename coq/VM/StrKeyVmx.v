(* Register-form string keys on the full VM model (coq/VMX): the key is read before any register
   is written. See the theorems regkey_read_is_constant / self_key_read_before_write at the end. *)
From Coq Require Import Floats Lia ZifyBool.
From GL Require Import Common.Bytes Lua.Syntax Lua.Num Lua.Values Lua.Names Lua.Eval.
From GL Require Import VM.Opcode VMX.Machine VMX.Step VMX.RegFacts.

Lemma reg_get_after_set : forall i v s u s',
  0 <= i -> reg_set i v s = VRet u s' -> reg_get i s' = VRet v s'.
Proof.
  intros i v s u s' Hi H. unfold reg_set, vmod_reg in H. inversion H; subst. clear H.
  unfold reg_get, Get, with_reg, Set_, SetCell. cbn [vreg arr].
  rewrite rd_wr by exact Hi. rewrite Z.eqb_refl. reflexivity.
Qed.

Lemma vbind_unfold : forall A B (m : VM A) (f : A -> VM B) s,
  vbind m f s = match m s with
                | VRet a s' => f a s'
                | VErr v s' => VErr v s'
                | VFuel => VFuel
                | VUnsup c => VUnsup c
                end.
Proof. reflexivity. Qed.

Section KeyOrder.
Variable ml : option nat -> VM unit.
Variable gf : builtin -> VM Z.

(* LOADK r k with k the string str: afterwards rkString on the register r yields str and leaves the
   state alone *)
Lemma loadk_then_rkString : forall cl cf w base s b s1 r str,
  op_of_code (opGetOpCode w) = Some OP_LOADK ->
  opGetArgA w = r -> opIsK r = false ->
  zth (xp_consts (cl_proto cl)) (opGetArgBx w) = Some (VStr str) ->
  0 <= fr_localbase cf + r ->
  exec_op ml gf cl cf w base s = VRet b s1 ->
  rkString (cl_proto cl) (fr_localbase cf) r s1 = VRet (VStr str) s1.
Proof.
  intros cl cf w base s b s1 r str Hop HA HK Hc Hpos H.
  unfold exec_op in H. rewrite Hop in H. rewrite Hc in H. rewrite HA in H.
  unfold vbind in H.
  destruct (reg_set (fr_localbase cf + r) (VStr str) s) as [u s2|e s2| |c] eqn:E; try discriminate.
  unfold vret in H. inversion H; subst s2 b. clear H.
  unfold rkString, rkValue. rewrite HK. unfold vbind.
  rewrite (reg_get_after_set _ _ _ _ _ Hpos E). reflexivity.
Qed.

(* OP_SELF A B C with C the register r that the LOADK in front has just filled - in particular when
   r = A + 1, the register the instruction itself overwrites with the receiver (the compiler's
   layout when the receiver is a temporary): the instruction behaves exactly as if its key operand
   were the constant. The receiver and the key are read from the state the instruction starts in. *)
Lemma self_after_loadk : forall cl cf cf' w1 w2 base s b s1 r str,
  op_of_code (opGetOpCode w1) = Some OP_LOADK ->
  opGetArgA w1 = r -> opIsK r = false ->
  zth (xp_consts (cl_proto cl)) (opGetArgBx w1) = Some (VStr str) ->
  0 <= fr_localbase cf + r -> fr_localbase cf' = fr_localbase cf ->
  exec_op ml gf cl cf w1 base s = VRet b s1 ->
  op_of_code (opGetOpCode w2) = Some OP_SELF -> opGetArgC w2 = r ->
  exec_op ml gf cl cf' w2 base s1 =
  (vdo selfobj <- reg_get (fr_localbase cf + opGetArgB w2);
   vdo v <- getField ml MaxTableGetLoop selfobj (VStr str);
   vdo _ <- reg_set (fr_localbase cf + opGetArgA w2) v;
   vdo _ <- reg_set (fr_localbase cf + opGetArgA w2 + 1) selfobj; vret false) s1.
Proof.
  intros cl cf cf' w1 w2 base s b s1 r str Hop HA HK Hc Hpos Hlb H1 Hop2 HC.
  pose proof (loadk_then_rkString cl cf w1 base s b s1 r str Hop HA HK Hc Hpos H1) as Hk.
  unfold exec_op. rewrite Hop2. rewrite Hlb, HC.
  rewrite !(vbind_unfold _ _ (reg_get (fr_localbase cf + opGetArgB w2))).
  destruct (reg_get (fr_localbase cf + opGetArgB w2) s1) as [o s2|e s2| |c] eqn:E; try reflexivity.
  assert (s2 = s1) as ->.
  { unfold reg_get in E. destruct (Get (vreg s1) (fr_localbase cf + opGetArgB w2)); inversion E; reflexivity. }
  rewrite (vbind_unfold _ _ (rkString (cl_proto cl) (fr_localbase cf) r)). rewrite Hk. reflexivity.
Qed.

Lemma gettableks_after_loadk : forall cl cf cf' w1 w2 base s b s1 r str,
  op_of_code (opGetOpCode w1) = Some OP_LOADK ->
  opGetArgA w1 = r -> opIsK r = false ->
  zth (xp_consts (cl_proto cl)) (opGetArgBx w1) = Some (VStr str) ->
  0 <= fr_localbase cf + r -> fr_localbase cf' = fr_localbase cf ->
  exec_op ml gf cl cf w1 base s = VRet b s1 ->
  op_of_code (opGetOpCode w2) = Some OP_GETTABLEKS -> opGetArgC w2 = r ->
  exec_op ml gf cl cf' w2 base s1 =
  (vdo o <- reg_get (fr_localbase cf + opGetArgB w2);
   vdo v <- getField ml MaxTableGetLoop o (VStr str);
   vdo _ <- reg_set (fr_localbase cf + opGetArgA w2) v; vret false) s1.
Proof.
  intros cl cf cf' w1 w2 base s b s1 r str Hop HA HK Hc Hpos Hlb H1 Hop2 HC.
  pose proof (loadk_then_rkString cl cf w1 base s b s1 r str Hop HA HK Hc Hpos H1) as Hk.
  unfold exec_op. rewrite Hop2. rewrite Hlb, HC.
  rewrite !(vbind_unfold _ _ (reg_get (fr_localbase cf + opGetArgB w2))).
  destruct (reg_get (fr_localbase cf + opGetArgB w2) s1) as [o s2|e s2| |c] eqn:E; try reflexivity.
  assert (s2 = s1) as ->.
  { unfold reg_get in E. destruct (Get (vreg s1) (fr_localbase cf + opGetArgB w2)); inversion E; reflexivity. }
  rewrite (vbind_unfold _ _ (rkString (cl_proto cl) (fr_localbase cf) r)). rewrite Hk. reflexivity.
Qed.

End KeyOrder.

(* ---- tied to the static check of StrKey.v --------------------------------------------------- *)
From GL Require VM.Proto VM.WfProto VM.WfFacts VM.StrKey VM.StrKeyFacts.
From GL Require Import VMX.WfTie VMX.WfTieFacts.

(* On a prototype whose register-form string keys pass strreg_fn: the word in front of such a
   SELF / GETTABLEKS is LOADK r k, k the string constant str, and once the model has executed that
   LOADK, (1) rkString on r - the only place where the VM asserts `.(LString)` on a register -
   returns str (fault 108 "rkString on a non-string" is excluded there), and (2) the string-keyed
   instruction behaves as if its key operand were that constant: nothing is written before the key
   is read, also when r is R(A+1) of OP_SELF. That the LOADK is the only way into the instruction
   is regkey_run (structural, all runs). *)
Theorem regkey_reads_constant_lemma : forall ml gf cl pc w r,
  VM.StrKey.strreg_fn (fn_of (cl_proto cl)) = true ->
  VM.WfFacts.pc_ok (fn_of (cl_proto cl)) pc ->
  zth (xp_code (cl_proto cl)) pc = Some w -> VM.StrKey.regkey_of w = Some r ->
  exists w1 str,
    zth (xp_code (cl_proto cl)) (pc - 1) = Some w1 /\
    op_of_code (opGetOpCode w1) = Some OP_LOADK /\ opGetArgA w1 = r /\
    zth (xp_consts (cl_proto cl)) (opGetArgBx w1) = Some (VStr str) /\
    forall cf cf' base s b s1,
      0 <= fr_localbase cf + r -> fr_localbase cf' = fr_localbase cf ->
      exec_op ml gf cl cf w1 base s = VRet b s1 ->
      rkString (cl_proto cl) (fr_localbase cf') r s1 = VRet (VStr str) s1 /\
      (op_of_code (opGetOpCode w) = Some OP_SELF ->
       exec_op ml gf cl cf' w base s1 =
       (vdo selfobj <- reg_get (fr_localbase cf + opGetArgB w);
        vdo v <- getField ml MaxTableGetLoop selfobj (VStr str);
        vdo _ <- reg_set (fr_localbase cf + opGetArgA w) v;
        vdo _ <- reg_set (fr_localbase cf + opGetArgA w + 1) selfobj; vret false) s1) /\
      (op_of_code (opGetOpCode w) = Some OP_GETTABLEKS ->
       exec_op ml gf cl cf' w base s1 =
       (vdo o <- reg_get (fr_localbase cf + opGetArgB w);
        vdo v <- getField ml MaxTableGetLoop o (VStr str);
        vdo _ <- reg_set (fr_localbase cf + opGetArgA w) v; vret false) s1).
Proof.
  intros ml gf cl pc w r Hs Hpc Hw Hr.
  destruct (fn_of_fields (cl_proto cl)) as [Hcode [Hk _]].
  assert (Hw' : VM.Proto.zth (VM.Proto.f_code (fn_of (cl_proto cl))) pc = Some w) by (rewrite Hcode; exact Hw).
  destruct (VM.StrKeyFacts.regkey_fed_lemma _ pc w r Hs Hpc Hw' Hr) as [[_ [w1 [Hw1 [Hop1 [HA [_ Hkind]]]]]] _].
  destruct (VM.StrKeyFacts.regkey_of_spec w r Hr) as [_ [HC HK]].
  rewrite Hcode in Hw1. rewrite Hk in Hkind. rewrite pzth_eq in Hkind.
  apply zth_map_some in Hkind. destruct Hkind as [v [Hv Hkv]].
  destruct v as [|b0|f0|str|r0|r0|b0|r0|r0|k0 l0]; simpl in Hkv; try discriminate.
  exists w1. eexists. split; [exact Hw1|]. split; [exact Hop1|]. split; [exact HA|]. split; [exact Hv|].
  intros cf cf' base s b s1 Hpos Hlb H1. split; [|split].
  - rewrite Hlb. eapply loadk_then_rkString; eauto.
  - intros Hop. eapply self_after_loadk; eauto.
  - intros Hop. eapply gettableks_after_loadk; eauto.
Qed.
