(* Register-form string keys (wave 5). OP_SELF and OP_GETTABLEKS take their key through
   L.rkString(C): a string constant when bit 8 of C is set, otherwise `reg[C].(LString)` - a Go type
   assertion that faults on anything but a string. The compiler uses the register form only when
   the constant index exceeds opMaxIndexRk (loadRk / PropagateKMV in compile.go), and then always
   as the pair
        LOADK   r  k        (k a string constant)
        SELF / GETTABLEKS ... key = r
   with nothing in between. strreg_fn demands exactly that shape, and that the string-keyed
   instruction cannot be entered from anywhere but the LOADK (no jump, skip or group end lands
   on it). OP_SETTABLEKS is not covered: its key is loaded before the value expression is
   evaluated, arbitrarily far away. No proofs here (StrKeyFacts.v). *)
From GL Require Export VM.Opcode VM.Proto VM.WfProto VM.Skeleton.

(* the key register of a string-keyed instruction in register form *)
Definition regkey_of (w : Z) : option Z :=
  match op_of_code (opGetOpCode w) with
  | Some OP_SELF | Some OP_GETTABLEKS => if opIsK (opGetArgC w) then None else Some (opGetArgC w)
  | _ => None
  end.

(* successors of the instruction at pc other than the next word *)
Definition nonseq_succs (f : fn) (pc : Z) : list Z :=
  match sk_step f pc with
  | Some i => filter (fun s => negb (s =? pc + 1)) (i_succ i)
  | None => []
  end.

Definition jump_targets (f : fn) (tags : list Z) : list Z :=
  flat_map (fun pc => if is_head tags pc then nonseq_succs f pc else []) (zrange 0 (len (f_code f) - 1)).

(* the word at pc is the instruction LOADK r k, k a string constant *)
Definition loadk_str (f : fn) (tags : list Z) (pc r : Z) : bool :=
  is_head tags pc &&
  let w := word (f_code f) pc in
  is_op (op_of_code (opGetOpCode w)) OP_LOADK && (opGetArgA w =? r) && str_const f (opGetArgBx w).

Definition regkey_ok (f : fn) (tags targets : list Z) (pc w : Z) : bool :=
  match regkey_of w with
  | None => true
  | Some r => loadk_str f tags (pc - 1) r && negb (existsb (Z.eqb pc) targets)
  end.

Definition has_regkey (w : Z) : bool := match regkey_of w with Some _ => true | None => false end.

Definition strreg_fn (f : fn) : bool :=
  if existsb has_regkey (f_code f)
  then let tags := tags_of f in
       let targets := jump_targets f tags in
       forallb (fun pc => if is_head tags pc then regkey_ok f tags targets pc (word (f_code f) pc) else true)
               (zrange 0 (len (f_code f) - 1))
  else true.

Fixpoint strreg_proto (p : proto) : bool :=
  let 'Proto _ _ _ subs _ _ _ _ _ := p in
  strreg_fn (view p) && forallb strreg_proto subs.

(* what a run of ./check evaluates on every dumped tree *)
Definition wfx_proto (p : proto) : bool := wf_proto p && strreg_proto p.
