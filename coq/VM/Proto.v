(* Function prototypes as the VM sees them (function.go: FunctionProto), dumped completely by the
   harness: everything mainLoop indexes. No proofs here. *)
From GL Require Export VM.Opcode.

(* Proto code kinds nsconst subs nup nparams vararg nregs nlines
   code    : Code, one Z in [0,2^32) per word
   kinds   : one entry per element of Constants: 0 = not a string, 1 = an LString whose entry in
             stringConstants is the same string, 2 = an LString whose stringConstants entry is
             missing or different
   nsconst : len(stringConstants)
   subs    : FunctionPrototypes
   nup, nparams, vararg, nregs : NumUpvalues, NumParameters, IsVarArg, NumUsedRegisters
   nlines  : len(DbgSourcePositions) *)
Inductive proto :=
| Proto (code : list Z) (kinds : list Z) (nsconst : Z) (subs : list proto)
        (nup nparams vararg nregs nlines : Z).

Definition p_code (p : proto) := let 'Proto c _ _ _ _ _ _ _ _ := p in c.
Definition p_kinds (p : proto) := let 'Proto _ k _ _ _ _ _ _ _ := p in k.
Definition p_nsconst (p : proto) := let 'Proto _ _ n _ _ _ _ _ _ := p in n.
Definition p_subs (p : proto) := let 'Proto _ _ _ s _ _ _ _ _ := p in s.
Definition p_nup (p : proto) := let 'Proto _ _ _ _ n _ _ _ _ := p in n.
Definition p_nparams (p : proto) := let 'Proto _ _ _ _ _ n _ _ _ := p in n.
Definition p_vararg (p : proto) := let 'Proto _ _ _ _ _ _ n _ _ := p in n.
Definition p_nregs (p : proto) := let 'Proto _ _ _ _ _ _ _ n _ := p in n.
Definition p_nlines (p : proto) := let 'Proto _ _ _ _ _ _ _ _ n := p in n.

(* The flat view of one function: what the VM can reach while running *this* function's code.
   Of the nested prototypes only their upvalue counts matter (OP_CLOSURE reads NumUpvalues of
   FunctionPrototypes[Bx] to know how many capture words follow). *)
Record fn := mkFn {
  f_code : list Z;
  f_kinds : list Z;
  f_nsconst : Z;
  f_nups : list Z;          (* NumUpvalues of each nested prototype *)
  f_nup : Z;
  f_nparams : Z;
  f_nregs : Z;
  f_nlines : Z
}.

Definition view (p : proto) : fn :=
  mkFn (p_code p) (p_kinds p) (p_nsconst p) (map p_nup (p_subs p)) (p_nup p) (p_nparams p) (p_nregs p) (p_nlines p).

(* every prototype of the tree, in preorder (the harness numbers prototypes in the same order) *)
Fixpoint flatten (p : proto) : list proto :=
  let 'Proto _ _ _ subs _ _ _ _ _ := p in
  p :: flat_map flatten subs.

Definition len {A} (l : list A) : Z := Z.of_nat (length l).

(* 0-based read, None outside *)
Definition zth {A} (l : list A) (i : Z) : option A :=
  if i <? 0 then None else nth_error l (Z.to_nat i).
