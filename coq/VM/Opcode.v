(* Instruction words of gopher-lua: transcription of /repo/opcode.go. No proofs here.
   An instruction is a uint32, modelled as a Z in [0, 2^32):
     bits 26..31 opcode | 18..25 A | 9..17 C | 0..8 B ;  Bx = bits 0..17 ; sBx = Bx - 131071.
   Go's `int` arguments are unbounded Z here; every conversion `uint32(x)` that can truncate is
   written as a mask with 0xffffffff. *)
From Coq Require Export List ZArith Lia Bool.
Export ListNotations.
Open Scope Z_scope.

Definition opSizeCode := 6.
Definition opSizeA := 8.
Definition opSizeB := 9.
Definition opSizeC := 9.
Definition opSizeBx := 18.
Definition opMaxArgsA := 255.
Definition opMaxArgsB := 511.
Definition opMaxArgsC := 511.
Definition opMaxArgBx := 262143.
Definition opMaxArgSbx := 131071.        (* opMaxArgBx >> 1 *)
Definition opBitRk := 256.               (* 1 << (opSizeB - 1) *)
Definition opMaxIndexRk := 255.
Definition u32 (x : Z) : Z := Z.land x 4294967295.

(* --- field extraction ------------------------------------------------------------------- *)
Definition opGetOpCode (inst : Z) : Z := Z.shiftr inst 26.
Definition opGetArgA (inst : Z) : Z := Z.land (Z.shiftr inst 18) 255.
Definition opGetArgB (inst : Z) : Z := Z.land inst 511.
Definition opGetArgC (inst : Z) : Z := Z.land (Z.shiftr inst 9) 511.
Definition opGetArgBx (inst : Z) : Z := Z.land inst 262143.
Definition opGetArgSbx (inst : Z) : Z := opGetArgBx inst - opMaxArgSbx.

(* --- field update ----------------------------------------------------------------------- *)
Definition opSetOpCode (inst opcode : Z) : Z := Z.lor (Z.land inst 67108863) (u32 (Z.shiftl opcode 26)).
Definition opSetArgA (inst arg : Z) : Z := Z.lor (Z.land inst 4228120575) (u32 (Z.shiftl (Z.land arg 255) 18)).
Definition opSetArgB (inst arg : Z) : Z := Z.lor (Z.land inst 4294966784) (u32 (Z.land arg 511)).
Definition opSetArgC (inst arg : Z) : Z := Z.lor (Z.land inst 4294705663) (u32 (Z.shiftl (Z.land arg 511) 9)).
Definition opSetArgBx (inst arg : Z) : Z := Z.lor (Z.land inst 4294705152) (u32 (Z.land arg 262143)).
Definition opSetArgSbx (inst arg : Z) : Z := opSetArgBx inst (arg + opMaxArgSbx).

Definition opCreateABC (op a b c : Z) : Z := opSetArgC (opSetArgB (opSetArgA (opSetOpCode 0 op) a) b) c.
Definition opCreateABx (op a bx : Z) : Z := opSetArgBx (opSetArgA (opSetOpCode 0 op) a) bx.
Definition opCreateASbx (op a sbx : Z) : Z := opSetArgSbx (opSetArgA (opSetOpCode 0 op) a) sbx.

Definition opIsK (v : Z) : bool := negb (Z.land v opBitRk =? 0).
Definition opIndexK (v : Z) : Z := Z.land v (Z.lnot opBitRk).
Definition opRkAsk (v : Z) : Z := Z.lor v opBitRk.

(* --- opcodes ---------------------------------------------------------------------------- *)
Inductive opcode :=
| OP_MOVE | OP_MOVEN | OP_LOADK | OP_LOADBOOL | OP_LOADNIL | OP_GETUPVAL
| OP_GETGLOBAL | OP_GETTABLE | OP_GETTABLEKS | OP_SETGLOBAL | OP_SETUPVAL | OP_SETTABLE | OP_SETTABLEKS
| OP_NEWTABLE | OP_SELF | OP_ADD | OP_SUB | OP_MUL | OP_DIV | OP_MOD | OP_POW | OP_UNM | OP_NOT | OP_LEN
| OP_CONCAT | OP_JMP | OP_EQ | OP_LT | OP_LE | OP_TEST | OP_TESTSET | OP_CALL | OP_TAILCALL | OP_RETURN
| OP_FORLOOP | OP_FORPREP | OP_TFORLOOP | OP_SETLIST | OP_CLOSE | OP_CLOSURE | OP_VARARG | OP_NOP.

Definition all_opcodes : list opcode :=
  [OP_MOVE; OP_MOVEN; OP_LOADK; OP_LOADBOOL; OP_LOADNIL; OP_GETUPVAL;
   OP_GETGLOBAL; OP_GETTABLE; OP_GETTABLEKS; OP_SETGLOBAL; OP_SETUPVAL; OP_SETTABLE; OP_SETTABLEKS;
   OP_NEWTABLE; OP_SELF; OP_ADD; OP_SUB; OP_MUL; OP_DIV; OP_MOD; OP_POW; OP_UNM; OP_NOT; OP_LEN;
   OP_CONCAT; OP_JMP; OP_EQ; OP_LT; OP_LE; OP_TEST; OP_TESTSET; OP_CALL; OP_TAILCALL; OP_RETURN;
   OP_FORLOOP; OP_FORPREP; OP_TFORLOOP; OP_SETLIST; OP_CLOSE; OP_CLOSURE; OP_VARARG; OP_NOP].

Definition opCodeMax := 41.

(* the numeric code (the `iota` of opcode.go) *)
Definition op_code (o : opcode) : Z :=
  match o with
  | OP_MOVE => 0 | OP_MOVEN => 1 | OP_LOADK => 2 | OP_LOADBOOL => 3 | OP_LOADNIL => 4 | OP_GETUPVAL => 5
  | OP_GETGLOBAL => 6 | OP_GETTABLE => 7 | OP_GETTABLEKS => 8 | OP_SETGLOBAL => 9 | OP_SETUPVAL => 10
  | OP_SETTABLE => 11 | OP_SETTABLEKS => 12 | OP_NEWTABLE => 13 | OP_SELF => 14 | OP_ADD => 15 | OP_SUB => 16
  | OP_MUL => 17 | OP_DIV => 18 | OP_MOD => 19 | OP_POW => 20 | OP_UNM => 21 | OP_NOT => 22 | OP_LEN => 23
  | OP_CONCAT => 24 | OP_JMP => 25 | OP_EQ => 26 | OP_LT => 27 | OP_LE => 28 | OP_TEST => 29 | OP_TESTSET => 30
  | OP_CALL => 31 | OP_TAILCALL => 32 | OP_RETURN => 33 | OP_FORLOOP => 34 | OP_FORPREP => 35
  | OP_TFORLOOP => 36 | OP_SETLIST => 37 | OP_CLOSE => 38 | OP_CLOSURE => 39 | OP_VARARG => 40 | OP_NOP => 41
  end.

(* decoding of the 6-bit opcode field; None = no such instruction (jumpTable index out of range) *)
Definition op_of_code (z : Z) : option opcode :=
  if (z <? 0) || (opCodeMax <? z) then None else nth_error all_opcodes (Z.to_nat z).

(* --- opProps ----------------------------------------------------------------------------- *)
Inductive opArgMode := opArgModeN | opArgModeU | opArgModeR | opArgModeK.
Inductive opType := opTypeABC | opTypeABx | opTypeASbx.

Record opProp := mkProp { IsTest : bool; SetRegA : bool; ModeArgB : opArgMode; ModeArgC : opArgMode; Type_ : opType }.

Definition opProps (o : opcode) : opProp :=
  match o with
  | OP_MOVE => mkProp false true opArgModeR opArgModeN opTypeABC
  | OP_MOVEN => mkProp false true opArgModeR opArgModeN opTypeABC
  | OP_LOADK => mkProp false true opArgModeK opArgModeN opTypeABx
  | OP_LOADBOOL => mkProp false true opArgModeU opArgModeU opTypeABC
  | OP_LOADNIL => mkProp false true opArgModeR opArgModeN opTypeABC
  | OP_GETUPVAL => mkProp false true opArgModeU opArgModeN opTypeABC
  | OP_GETGLOBAL => mkProp false true opArgModeK opArgModeN opTypeABx
  | OP_GETTABLE => mkProp false true opArgModeR opArgModeK opTypeABC
  | OP_GETTABLEKS => mkProp false true opArgModeR opArgModeK opTypeABC
  | OP_SETGLOBAL => mkProp false false opArgModeK opArgModeN opTypeABx
  | OP_SETUPVAL => mkProp false false opArgModeU opArgModeN opTypeABC
  | OP_SETTABLE => mkProp false false opArgModeK opArgModeK opTypeABC
  | OP_SETTABLEKS => mkProp false false opArgModeK opArgModeK opTypeABC
  | OP_NEWTABLE => mkProp false true opArgModeU opArgModeU opTypeABC
  | OP_SELF => mkProp false true opArgModeR opArgModeK opTypeABC
  | OP_ADD | OP_SUB | OP_MUL | OP_DIV | OP_MOD | OP_POW => mkProp false true opArgModeK opArgModeK opTypeABC
  | OP_UNM | OP_NOT | OP_LEN => mkProp false true opArgModeR opArgModeN opTypeABC
  | OP_CONCAT => mkProp false true opArgModeR opArgModeR opTypeABC
  | OP_JMP => mkProp false false opArgModeR opArgModeN opTypeASbx
  | OP_EQ | OP_LT | OP_LE => mkProp true false opArgModeK opArgModeK opTypeABC
  | OP_TEST | OP_TESTSET => mkProp true true opArgModeR opArgModeU opTypeABC
  | OP_CALL | OP_TAILCALL => mkProp false true opArgModeU opArgModeU opTypeABC
  | OP_RETURN => mkProp false false opArgModeU opArgModeN opTypeABC
  | OP_FORLOOP | OP_FORPREP => mkProp false true opArgModeR opArgModeN opTypeASbx
  | OP_TFORLOOP => mkProp true false opArgModeN opArgModeU opTypeABC
  | OP_SETLIST => mkProp false false opArgModeU opArgModeU opTypeABC
  | OP_CLOSE => mkProp false false opArgModeN opArgModeN opTypeABC
  | OP_CLOSURE => mkProp false true opArgModeU opArgModeN opTypeABx
  | OP_VARARG => mkProp false true opArgModeU opArgModeN opTypeABC
  | OP_NOP => mkProp false false opArgModeR opArgModeN opTypeASbx
  end.

Definition mode_code (m : opArgMode) : Z :=
  match m with opArgModeN => 0 | opArgModeU => 1 | opArgModeR => 2 | opArgModeK => 3 end.
Definition type_code (t : opType) : Z :=
  match t with opTypeABC => 0 | opTypeABx => 1 | opTypeASbx => 2 end.
