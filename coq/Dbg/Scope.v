(* C17 — reference scoping of local variables as Lua 5.1 defines it (lparser.c: adjustlocalvars /
   removevars), over a small block-structured language of declarations.
   Model file: definitions only, proofs in ScopeFacts.v. *)
From GL Require Import Common.Bytes.
From Coq Require Export String.

Definition name := string.
(* a declared variable and, where the generator knows it by construction, its current value *)
Definition binding := (name * option Z)%type.

Definition for_index : name := "(for index)"%string.
Definition for_limit : name := "(for limit)"%string.
Definition for_step : name := "(for step)"%string.
Definition for_generator : name := "(for generator)"%string.
Definition for_state : name := "(for state)"%string.
Definition for_control : name := "(for control)"%string.

(* The body of one function, cons-style so that the induction principle is the useful one.
   Points are the call instructions at which a debug query observes the frame. *)
Inductive items :=
| INil
| ILocal (bs : list binding) (rest : items)
    (* `local n1,..,nk [= es]` / `local function n`: in scope for what follows in the block *)
| IPoint (p : Z) (rest : items)
    (* a call inside a simple statement, a condition of if/while, or the right-hand side of
       the following ILocal (written before it: the new names are not yet in scope there) *)
| IPad (rest : items)
    (* any other code *)
| IBlock (body rest : items)
    (* do..end, a while body, one branch of an if *)
| IFor (parts : list (binding * list Z)) (late : list binding) (iter : list Z) (body rest : items)
    (* a for loop: the hidden control variables, each with the points inside the header
       expression compiled right after it is registered; then the declared loop variables;
       iter: the loop instruction itself as a point (a generic for calls its iterator there:
       the hidden variables are in scope, the declared ones are not - lparser.c forbody) *)
| IRepeat (body : items) (cond : list Z) (rest : items).
    (* repeat body until cond — cond sees the locals of body *)

(* for v = e1,e2,e3 do body end; h1..h3: points inside e1..e3; vi vl vs: values of the hidden
   variables where known.  The hidden names are those of Lua 5.1 (lparser.c fornum/forlist). *)
Definition INumFor (h1 h2 h3 : list Z) (vi vl vs : option Z) (v : binding) (body rest : items) : items :=
  IFor [((for_index, vi), h1); ((for_limit, vl), h2); ((for_step, vs), h3)] [v] [] body rest.

(* for n1,..,nk in explist do body end; h: points inside explist; it: the call of the iterator *)
Definition IGenFor (h : list Z) (vs : list binding) (it : list Z) (body rest : items) : items :=
  IFor [((for_generator, None), []); ((for_state, None), []); ((for_control, None), h)] vs it body rest.

(* names a block declares at its own level, in order (what `until` still sees) *)
Fixpoint decls (its : items) : list binding :=
  match its with
  | INil => []
  | ILocal bs r => bs ++ decls r
  | IPoint _ r | IPad r => decls r
  | IBlock _ r => decls r
  | IFor _ _ _ _ r => decls r
  | IRepeat _ _ r => decls r
  end.

Definition zmem (p : Z) (l : list Z) : bool := existsb (Z.eqb p) l.

Definition orelse {A} (a b : option A) : option A :=
  match a with Some _ => a | None => b end.

Definition for_hidden (parts : list (binding * list Z)) : list binding := map fst parts.
Definition for_points (parts : list (binding * list Z)) : list Z := flat_map snd parts.

(* variables in scope at point p, given those in scope (env) where `its` starts *)
Fixpoint scope_at (env : list binding) (its : items) (p : Z) : option (list binding) :=
  match its with
  | INil => None
  | ILocal bs r => scope_at (env ++ bs) r p
  | IPoint q r => if q =? p then Some env else scope_at env r p
  | IPad r => scope_at env r p
  | IBlock b r => orelse (scope_at env b p) (scope_at env r p)
  | IFor parts late it b r =>
      if zmem p (for_points parts) then Some env
      else orelse (scope_at (env ++ for_hidden parts ++ late) b p)
                  (if zmem p it then Some (env ++ for_hidden parts) else scope_at env r p)
  | IRepeat b c r =>
      orelse (scope_at env b p)
             (if zmem p c then Some (env ++ decls b) else scope_at env r p)
  end.

(* One Lua function.  `self` precedes the parameters of a method; a vararg function other than
   the main chunk has the compatibility local `arg` after them (Lua 5.1, LUA_COMPAT_VARARG). *)
Record fn := Fn {
  f_method : bool;
  f_params : list binding;
  f_vararg : bool;           (* vararg and not the main chunk *)
  f_body : items }.

Definition fn_env0 (f : fn) : list binding :=
  (if f_method f then [("self"%string, None)] else []) ++ f_params f ++
  (if f_vararg f then [("arg"%string, None)] else []).

Definition locals_at (f : fn) (p : Z) : option (list binding) :=
  scope_at (fn_env0 f) (f_body f) p.

(* ---- the same thing said declaratively: the declared-and-not-ended names ----
   Linearise the body into scope events (header expressions of a for loop are evaluated
   before its block is entered). *)
Inductive sev := SDecl (b : binding) | SEnter | SLeave | SPt (p : Z).

Definition pts (l : list Z) : list sev := map SPt l.

Fixpoint trace (its : items) : list sev :=
  match its with
  | INil => []
  | ILocal bs r => map SDecl bs ++ trace r
  | IPoint q r => SPt q :: trace r
  | IPad r => trace r
  | IBlock b r => SEnter :: trace b ++ SLeave :: trace r
  | IFor parts late it b r =>
      pts (for_points parts) ++ SEnter :: map SDecl (for_hidden parts) ++
      SEnter :: map SDecl late ++ trace b ++ SLeave :: pts it ++ SLeave :: trace r
  | IRepeat b c r => SEnter :: trace b ++ pts c ++ SLeave :: trace r
  end.

Definition fn_trace (f : fn) : list sev := map SDecl (fn_env0 f) ++ trace (f_body f).

(* Walk the events keeping, for every pending declaration, the block depth at which it was
   made; leaving a block drops the declarations made inside it; at the point, what is left
   - the declared and not ended names, in declaration order - is the answer. *)
Fixpoint dne (evs : list sev) (d : Z) (acc : list (Z * binding)) (p : Z) : option (list binding) :=
  match evs with
  | [] => None
  | SDecl b :: r => dne r d (acc ++ [(d, b)]) p
  | SEnter :: r => dne r (d + 1) acc p
  | SLeave :: r => dne r (d - 1) (filter (fun x => fst x <=? d - 1) acc) p
  | SPt q :: r => if q =? p then Some (map snd acc) else dne r d acc p
  end.

Definition declared_not_ended (f : fn) (p : Z) : option (list binding) :=
  dne (fn_trace f) 0 [] p.

(* ---- debug.getlocal / setlocal on the reference environment ---- *)
Definition getlocal (env : list binding) (i : Z) : option binding :=
  if i <? 1 then None else nth_error env (Z.to_nat (i - 1)).

Fixpoint set_nth {A} (l : list A) (n : nat) (f : A -> A) : list A :=
  match l, n with
  | [], _ => []
  | x :: r, O => f x :: r
  | x :: r, S m => x :: set_nth r m f
  end.

(* returns the name (None when there is no such variable) and the new environment *)
Definition setlocal (env : list binding) (i : Z) (v : option Z) : option name * list binding :=
  match getlocal env i with
  | Some (n, _) => (Some n, set_nth env (Z.to_nat (i - 1)) (fun b => (fst b, v)))
  | None => (None, env)
  end.
