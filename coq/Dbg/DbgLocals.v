(* C17 — transcription of gopher-lua's variable-scope bookkeeping (model file, no proofs):
     compile.go   funcContext.RegisterLocalVar / EnterBlock / LeaveBlock / EndScope /
                  StartLocalVarsHere, varNamePool.Register, and the order in which the
                  statement compilers call them;
     function.go  LFunction.LocalName;
     state.go     findLocal / GetLocal / SetLocal (name from LocalName, value from register
                  LocalBase+no-1).
   It describes the tree after the fix commits 0bd7783 (EndScope), 6924931 (loop headers) and
   aa93f59 (hidden loop variables end after the loop instruction);
   the pre-fix EndScope is kept as `leave_old` for the refutation lemma. *)
From GL Require Import Common.Bytes Dbg.Scope.

Record entry := Entry {
  e_name : name;
  e_start : Z;        (* DbgLocalInfo.StartPc *)
  e_end : Z;          (* DbgLocalInfo.EndPc *)
  e_reg : Z;          (* register returned by RegisterLocalVar (where the compiler keeps it) *)
  e_val : option Z }. (* ghost: value the generator knows to be in that register *)

Record block := Block {
  b_off : Z;               (* varNamePool.offset *)
  b_n : Z;                 (* len(varNamePool.names) *)
  b_dbg : list nat }.      (* codeBlock.dbgLocals *)

Record cst := Cst {
  c_tbl : list entry;      (* Proto.DbgLocals *)
  c_blocks : list block;   (* fc.Block and its Parent chain, innermost first *)
  c_regtop : Z;            (* fc.regTop *)
  c_pc : Z;                (* number of instructions emitted = Code.LastPC()+1 *)
  c_keep : list nat }.     (* the hidden loop variables a for statement ends after its loop instruction *)

(* what the compiler does, as far as this bookkeeping can see it *)
Inductive cev :=
| CInstr (q : option Z)    (* one instruction is emitted; Some p: it is the call observed as point p *)
| CReg (b : binding)       (* RegisterLocalVar *)
| CEnter                   (* EnterBlock *)
| CLeave                   (* LeaveBlock (EndScope, pop, reset regTop) *)
| CStartHere (k : nat)     (* StartLocalVarsHere(k) *)
| CLeaveKeep (k : nat)     (* hidden := Block.dbgLocals[:k]; LeaveBlock() *)
| CEndKept.                (* EndLocalVarsHere(hidden) *)

Definition set_end (pc : Z) (e : entry) : entry :=
  Entry (e_name e) (e_start e) pc (e_reg e) (e_val e).
Definition set_start (pc : Z) (e : entry) : entry :=
  Entry (e_name e) pc (e_end e) (e_reg e) (e_val e).

Fixpoint end_scope (idx : list nat) (pc : Z) (t : list entry) : list entry :=
  match idx with
  | [] => t
  | i :: r => end_scope r pc (set_nth t i (set_end pc))
  end.

Fixpoint start_here (k : nat) (pc : Z) (t : list entry) (from : nat) : list entry :=
  match k with
  | O => t
  | S j => start_here j pc (set_nth t from (set_start pc)) (S from)
  end.

Definition leave (s : cst) (keep : list nat) : cst :=
  match c_blocks s with
  | blk :: rest =>
      Cst (end_scope (b_dbg blk) (c_pc s) (c_tbl s)) rest
          (match rest with p :: _ => b_off p + b_n p | [] => c_regtop s end) (c_pc s) keep
  | [] => s
  end.

Definition cstep (s : cst) (e : cev) : cst :=
  match e with
  | CInstr _ => Cst (c_tbl s) (c_blocks s) (c_regtop s) (c_pc s + 1) (c_keep s)
  | CReg b =>
      match c_blocks s with
      | blk :: rest =>
          let ret := b_off blk + b_n blk in
          Cst (c_tbl s ++ [Entry (fst b) (c_pc s) 0 ret (snd b)])
              (Block (b_off blk) (b_n blk + 1) (b_dbg blk ++ [List.length (c_tbl s)]) :: rest)
              (c_regtop s + 1) (c_pc s) (c_keep s)
      | [] => s
      end
  | CEnter => Cst (c_tbl s) (Block (c_regtop s) 0 [] :: c_blocks s) (c_regtop s) (c_pc s) (c_keep s)
  | CLeave => leave s (c_keep s)
  | CLeaveKeep k =>
      match c_blocks s with
      | blk :: _ => leave s (firstn k (b_dbg blk))
      | [] => s
      end
  | CEndKept => Cst (end_scope (c_keep s) (c_pc s) (c_tbl s)) (c_blocks s) (c_regtop s) (c_pc s) []
  | CStartHere k =>
      Cst (start_here k (c_pc s) (c_tbl s) (List.length (c_tbl s) - k)) (c_blocks s) (c_regtop s) (c_pc s) (c_keep s)
  end.

Definition crun (evs : list cev) (s : cst) : cst := fold_left cstep evs s.

Definition cst0 : cst := Cst [] [Block 0 0 []] 0 0 [].

(* the pc of the instruction observed as point p *)
Fixpoint point_pc (evs : list cev) (pc : Z) (p : Z) : option Z :=
  match evs with
  | [] => None
  | CInstr (Some q) :: r => if q =? p then Some pc else point_pc r (pc + 1) p
  | CInstr None :: r => point_pc r (pc + 1) p
  | _ :: r => point_pc r pc p
  end.

(* function.go LocalName(regno, pc) *)
Fixpoint local_name (t : list entry) (regno pc : Z) : option entry :=
  match t with
  | [] => None
  | e :: r =>
      if e_start e <=? pc then
        if pc <? e_end e then
          if regno - 1 =? 0 then Some e else local_name r (regno - 1) pc
        else local_name r regno pc
      else None
  end.

(* value held in register r at that pc: the value of the variable the compiler keeps there *)
Fixpoint reg_val (t : list entry) (r pc : Z) : option Z :=
  match t with
  | [] => None
  | e :: rest =>
      if (e_start e <=? pc) && (pc <? e_end e) && (e_reg e =? r) then e_val e
      else reg_val rest r pc
  end.

(* state.go GetLocal: name of the no-th active variable, value of register no-1 *)
Definition getlocal_impl (t : list entry) (pc no : Z) : option binding :=
  match local_name t no pc with
  | Some e => Some (e_name e, reg_val t (no - 1) pc)
  | None => None
  end.

(* debug.getlocal(level, 1), (level, 2), ... until it returns nil *)
Fixpoint enum_locals (t : list entry) (pc : Z) (no : Z) (fuel : nat) : list binding :=
  match fuel with
  | O => []
  | S f =>
      match getlocal_impl t pc no with
      | Some b => b :: enum_locals t pc (no + 1) f
      | None => []
      end
  end.

(* ---- the order in which the statement compilers make these calls ---- *)
Definition cpts (l : list Z) : list cev :=
  flat_map (fun p => [CInstr None; CInstr (Some p)]) l.

Fixpoint compile (its : items) : list cev :=
  match its with
  | INil => []
  | ILocal bs r => CInstr None :: map CReg bs ++ compile r          (* compileLocalAssignStmt *)
  | IPoint p r => CInstr None :: CInstr (Some p) :: compile r
  | IPad r => CInstr None :: compile r
  | IBlock b r => CEnter :: compile b ++ CLeave :: compile r          (* compileBlock *)
  | IFor parts late it b r =>          (* compileNumberForStmt / compileGenericForStmt *)
      CEnter ::
      flat_map (fun x => CReg (fst x) :: CInstr None :: cpts (snd x)) parts ++
      CStartHere (List.length parts) :: CInstr None (* FORPREP / JMP *) :: map CReg late ++
      compile b ++ CLeaveKeep (List.length parts) ::
      map (fun p => CInstr (Some p)) it (* TFORLOOP: calls the iterator *) ++
      CInstr None (* FORLOOP / JMP *) :: CEndKept :: compile r
  | IRepeat b c r =>                                                 (* compileRepeatStmt *)
      CEnter :: compile b ++ cpts c ++ CInstr None :: CLeave :: compile r
  end.

(* compileFunctionExpr: parameters, body, final RETURN, EndScope of the function's own block *)
Definition compile_fn (f : fn) : list cev :=
  map CReg (fn_env0 f) ++ compile (f_body f) ++ [CInstr None; CLeave].

Definition dbg_table (f : fn) : list entry := c_tbl (crun (compile_fn f) cst0).

(* what debug.getlocal enumerates at point p of f *)
Definition dbg_locals_at (f : fn) (p : Z) : option (list binding) :=
  match point_pc (compile_fn f) 0 p with
  | Some pc => Some (enum_locals (dbg_table f) pc 1 (S (List.length (dbg_table f))))
  | None => None
  end.

(* ---- the mechanism before the fix (for the refutation lemma only) ----
   EndScope ran over Block.LocalVars.List(), whose Index is the *register*, and used it as an
   index into DbgLocals; EndPc was LastPC(); LocalName compared StartPc < pc. *)
Definition cstep_old (s : cst) (e : cev) : cst :=
  match e with
  | CLeave =>
      match c_blocks s with
      | blk :: rest =>
          Cst (end_scope (map (fun k => Z.to_nat (b_off blk) + k)%nat (seq 0 (Z.to_nat (b_n blk))))
                         (c_pc s - 1) (c_tbl s)) rest
              (match rest with p :: _ => b_off p + b_n p | [] => c_regtop s end) (c_pc s) (c_keep s)
      | [] => s
      end
  | _ => cstep s e
  end.

Fixpoint local_name_old (t : list entry) (regno pc : Z) : option entry :=
  match t with
  | [] => None
  | e :: r =>
      if e_start e <? pc then
        if pc <? e_end e then
          if regno - 1 =? 0 then Some e else local_name_old r (regno - 1) pc
        else local_name_old r regno pc
      else None
  end.

Definition dbg_table_old (f : fn) : list entry :=
  c_tbl (fold_left cstep_old (compile_fn f) cst0).
