(* C17 — programs as token lists, layouts as separator lists, rendering, statement ranges
   (model file: definitions only, proofs in LayoutFacts.v). *)
From GL Require Import Common.Bytes Dbg.Lines.

(* A token is its byte string; a layout gives the separator (blanks, newline sequences,
   comments) written before each token.  Text after the last token is irrelevant to every
   position and is left out. *)
Definition token := bytes.
Definition layout := list bytes.

Fixpoint render (toks : list token) (lay : layout) : bytes :=
  match toks, lay with
  | t :: ts, s :: ss => s ++ t ++ render ts ss
  | _, _ => []
  end.

(* byte offset of token i in the rendered text *)
Fixpoint tok_offset (toks : list token) (lay : layout) (i : nat) : Z :=
  match toks, lay with
  | t :: ts, s :: ss =>
      match i with
      | O => len s
      | S j => len s + len t + tok_offset ts ss j
      end
  | _, _ => 0
  end.

Definition tok_ok (t : token) : Prop :=
  t <> [] /\ is_nl (hd 0 t) = false /\ is_nl (last t 0) = false.

(* line of the first byte of token i / line reached just after its last byte *)
Definition tok_line (toks : list token) (lay : layout) (i : nat) : Z :=
  line_of_offset (render toks lay) (tok_offset toks lay i).
Definition tok_end_line (toks : list token) (lay : layout) (i : nat) : Z :=
  line_of_offset (render toks lay) (tok_offset toks lay i + len (nth i toks [])).

(* closed forms (LayoutFacts: line_of_offset_render) *)
Fixpoint sum_nl (l : list bytes) : Z :=
  match l with [] => 0 | x :: r => nl_count x + sum_nl r end.

Definition tok_line_closed (toks : list token) (lay : layout) (i : nat) : Z :=
  1 + sum_nl (firstn (S i) lay) + sum_nl (firstn i toks).

(* two layouts that differ only in the separator before token i *)
Definition same_except (lay lay' : layout) (i : nat) : Prop :=
  length lay = length lay' /\ forall j, j <> i -> nth j lay [] = nth j lay' [].

(* ---- statements ----
   A statement entry is the token index range [first,last] of a simple statement, or of the
   header of a block statement (`if..then`, `elseif..then`, `while..do`, `for..do`, `repeat`,
   `until <cond>`, `function name(params)`).  Entries are laminar (nested or disjoint): a
   simple statement that contains a function body contains the entries of that body. *)
Definition stmt := (Z * Z)%type.

Definition contains (s : stmt) (t : Z) : bool := (fst s <=? t) && (t <=? snd s).

(* innermost entry containing token t = the containing entry that starts last *)
Fixpoint innermost (ss : list stmt) (t : Z) (best : option stmt) : option stmt :=
  match ss with
  | [] => best
  | s :: r =>
      let best' :=
        if contains s t then
          match best with
          | Some b => if fst b <? fst s then Some s else best
          | None => Some s
          end
        else best in
      innermost r t best'
  end.

(* admissible line range of a statement under a layout *)
Definition admissible (toks : list token) (lay : layout) (s : stmt) : Z * Z :=
  (tok_line toks lay (Z.to_nat (fst s)), tok_end_line toks lay (Z.to_nat (snd s))).

Definition in_range (r : Z * Z) (l : Z) : Prop := fst r <= l <= snd r.
