(* C17 — facts about the reference scoping. *)
From GL Require Import Common.Bytes Dbg.Scope.

(* ---- scope_at computes the declared-and-not-ended names ---- *)

Lemma dne_pts : forall l rest d acc p,
  dne (pts l ++ rest) d acc p = if zmem p l then Some (map snd acc) else dne rest d acc p.
Proof.
  induction l as [|q l IH]; intros rest d acc p; simpl; [reflexivity|].
  rewrite (Z.eqb_sym p q). destruct (q =? p); simpl; [reflexivity|apply IH].
Qed.

Lemma dne_decls : forall bs rest d acc p,
  dne (map SDecl bs ++ rest) d acc p = dne rest d (acc ++ map (fun b => (d, b)) bs) p.
Proof.
  induction bs as [|b bs IH]; intros rest d acc p; simpl.
  - rewrite app_nil_r. reflexivity.
  - rewrite IH. rewrite <- app_assoc. reflexivity.
Qed.

Lemma filter_leave : forall (acc : list (Z * binding)) d l,
  (forall x, In x acc -> fst x <= d) ->
  filter (fun x => fst x <=? d) (acc ++ map (fun b => (d + 1, b)) l) = acc.
Proof.
  intros acc d l H. rewrite filter_app.
  assert (E1 : filter (fun x => fst x <=? d) acc = acc).
  { induction acc as [|x acc IH]; simpl; [reflexivity|].
    assert (fst x <= d) by (apply H; left; reflexivity).
    replace (fst x <=? d) with true by (symmetry; apply Z.leb_le; lia).
    f_equal. apply IH. intros y Hy. apply H. right. exact Hy. }
  assert (E2 : filter (fun x => fst x <=? d) (map (fun b : binding => (d + 1, b)) l) = []).
  { induction l as [|b l IH]; simpl; [reflexivity|].
    replace (d + 1 <=? d) with false by (symmetry; apply Z.leb_gt; lia). exact IH. }
  rewrite E1, E2. apply app_nil_r.
Qed.

Lemma tagged_le : forall (acc : list (Z * binding)) d l,
  (forall x, In x acc -> fst x <= d) ->
  forall x, In x (acc ++ map (fun b => (d + 1, b)) l) -> fst x <= d + 1.
Proof.
  intros acc d l H x Hx. apply in_app_or in Hx. destruct Hx as [Hx|Hx].
  - specialize (H x Hx). lia.
  - apply in_map_iff in Hx. destruct Hx as (b & E & _). subst x. simpl. lia.
Qed.

Lemma tagged_le_same : forall (acc : list (Z * binding)) d l,
  (forall x, In x acc -> fst x <= d) ->
  forall x, In x (acc ++ map (fun b => (d, b)) l) -> fst x <= d.
Proof.
  intros acc d l H x Hx. apply in_app_or in Hx. destruct Hx as [Hx|Hx].
  - exact (H x Hx).
  - apply in_map_iff in Hx. destruct Hx as (b & E & _). subst x. simpl. lia.
Qed.

Lemma map_snd_tag : forall (d : Z) (l : list binding), map snd (map (fun b => (d, b)) l) = l.
Proof. induction l; simpl; congruence. Qed.

Lemma dne_trace : forall its rest d acc p,
  (forall x, In x acc -> fst x <= d) ->
  dne (trace its ++ rest) d acc p =
  match scope_at (map snd acc) its p with
  | Some r => Some r
  | None => dne rest d (acc ++ map (fun b => (d, b)) (decls its)) p
  end.
Proof.
  induction its as [|bs r IHr|q r IHr|r IHr|b IHb r IHr|parts late it b IHb r IHr|b IHb c r IHr];
    intros rest d acc p Hacc; cbn [trace scope_at decls].
  - simpl. rewrite app_nil_r. reflexivity.
  - rewrite <- app_assoc. rewrite dne_decls. rewrite IHr by (apply tagged_le_same; exact Hacc).
    rewrite map_app, map_snd_tag. rewrite map_app, <- app_assoc. reflexivity.
  - simpl. destruct (q =? p); [reflexivity|]. apply IHr. exact Hacc.
  - apply IHr. exact Hacc.
  - simpl. rewrite <- app_assoc. rewrite IHb by (intros x Hx; specialize (Hacc x Hx); lia).
    destruct (scope_at (map snd acc) b p) as [res|]; [reflexivity|].
    simpl. replace (d + 1 - 1) with d by lia.
    rewrite filter_leave by exact Hacc. apply IHr. exact Hacc.
  - rewrite <- app_assoc. rewrite dne_pts.
    destruct (zmem p (for_points parts)); [reflexivity|].
    cbn [app dne]. rewrite <- !app_assoc. rewrite dne_decls.
    cbn [app dne]. rewrite <- !app_assoc. rewrite dne_decls.
    assert (H1 : forall x, In x (acc ++ map (fun b0 => (d + 1, b0)) (for_hidden parts)) -> fst x <= d + 1)
      by (apply tagged_le; exact Hacc).
    rewrite IHb by (apply tagged_le; exact H1).
    rewrite !map_app, !map_snd_tag. rewrite <- app_assoc.
    destruct (scope_at (map snd acc ++ for_hidden parts ++ late) b p) as [res|]; [reflexivity|].
    cbn [app dne]. replace (d + 1 + 1 - 1) with (d + 1) by lia.
    rewrite <- (app_assoc (acc ++ _)), <- map_app. rewrite filter_leave by exact H1.
    cbn [orelse]. rewrite <- app_assoc. rewrite dne_pts. rewrite map_app, map_snd_tag.
    destruct (zmem p it); [reflexivity|].
    cbn [app dne]. replace (d + 1 - 1) with d by lia.
    rewrite filter_leave by exact Hacc. apply IHr. exact Hacc.
  - simpl. rewrite <- !app_assoc. rewrite IHb by (intros x Hx; specialize (Hacc x Hx); lia).
    destruct (scope_at (map snd acc) b p) as [res|]; [reflexivity|].
    simpl. rewrite dne_pts. rewrite map_app, map_snd_tag.
    destruct (zmem p c); [reflexivity|].
    simpl. replace (d + 1 - 1) with d by lia.
    rewrite filter_leave by exact Hacc. apply IHr. exact Hacc.
Qed.

(* headline: the executable reference (structural recursion over the block tree) returns
   exactly the declared-and-not-ended variables, in declaration order *)
Theorem locals_in_scope_lemma : forall f p, locals_at f p = declared_not_ended f p.
Proof.
  intros f p. unfold locals_at, declared_not_ended, fn_trace.
  rewrite dne_decls. simpl app.
  rewrite <- (app_nil_r (trace (f_body f))).
  rewrite dne_trace.
  - rewrite map_snd_tag. destruct (scope_at (fn_env0 f) (f_body f) p); reflexivity.
  - intros x Hx. apply in_map_iff in Hx. destruct Hx as (b & E & _). subst x. simpl. lia.
Qed.

(* ---- getlocal / setlocal ---- *)
Lemma set_nth_length {A} (l : list A) n f : List.length (set_nth l n f) = List.length l.
Proof. revert n; induction l as [|x l IH]; intros [|n]; simpl; auto. Qed.

Lemma set_nth_same {A} (l : list A) n f x :
  nth_error l n = Some x -> nth_error (set_nth l n f) n = Some (f x).
Proof. revert n; induction l as [|y l IH]; intros [|n] H; simpl in *; try discriminate; [congruence|auto]. Qed.

Lemma set_nth_other {A} (l : list A) n m f :
  n <> m -> nth_error (set_nth l n f) m = nth_error l m.
Proof.
  revert n m; induction l as [|y l IH]; intros [|n] [|m] H; simpl; auto; try lia.
Qed.

Lemma set_nth_map_fst : forall (l : list binding) n v,
  map fst (set_nth l n (fun b => (fst b, v))) = map fst l.
Proof. induction l as [|x l IH]; intros [|n] v; simpl; auto. f_equal. apply IH. Qed.

(* debug.getlocal(level, 1..) enumerates the environment and then stops *)
Theorem getlocal_enumerates_lemma : forall env,
  (forall i, 1 <= i <= len env -> getlocal env i = nth_error env (Z.to_nat (i - 1))) /\
  (forall i, 1 <= i <= len env -> exists b, getlocal env i = Some b) /\
  (forall i, i < 1 \/ len env < i -> getlocal env i = None).
Proof.
  intros env. unfold getlocal, len. repeat split.
  - intros i Hi. destruct (Z.ltb_spec i 1); [lia|reflexivity].
  - intros i Hi. destruct (Z.ltb_spec i 1); [lia|].
    destruct (nth_error env (Z.to_nat (i - 1))) eqn:E; [eauto|].
    apply nth_error_None in E. lia.
  - intros i [Hi|Hi]; destruct (Z.ltb_spec i 1); try reflexivity; try lia.
    apply nth_error_None. lia.
Qed.

(* debug.setlocal changes exactly that variable: same names, the i-th value replaced, every
   other variable untouched; with no i-th variable it changes nothing and returns no name *)
Theorem setlocal_exact_lemma : forall env i v,
  match setlocal env i v with
  | (Some n, env') =>
      (exists old, getlocal env i = Some (n, old)) /\
      getlocal env' i = Some (n, v) /\
      (forall j, j <> i -> getlocal env' j = getlocal env j) /\
      map fst env' = map fst env
  | (None, env') => getlocal env i = None /\ env' = env
  end.
Proof.
  intros env i v. unfold setlocal.
  destruct (getlocal env i) as [[n old]|] eqn:G; [|split; reflexivity].
  unfold getlocal in *. destruct (Z.ltb_spec i 1) as [Hi|Hi]; [discriminate|].
  split; [eauto|]. split.
  - rewrite (set_nth_same _ _ _ _ G). reflexivity.
  - split.
    + intros j Hj. destruct (Z.ltb_spec j 1); [reflexivity|].
      apply set_nth_other. lia.
    + apply set_nth_map_fst.
Qed.
