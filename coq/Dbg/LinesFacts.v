(* C17 — facts about the reference line counting. *)
From GL Require Import Common.Bytes Dbg.Lines.

Lemma nlc_app : forall a p b, nlc p (a ++ b) = nlc p a + nlc (nl_state p a) b.
Proof.
  induction a as [|c a IH]; intros p b; simpl.
  - lia.
  - destruct (nl_step p c) as [q k] eqn:E. simpl. rewrite IH. lia.
Qed.

Lemma nl_state_app : forall a p b, nl_state p (a ++ b) = nl_state (nl_state p a) b.
Proof. induction a as [|c a IH]; intros; simpl; auto. Qed.

(* a byte that is not a newline byte forgets the absorber state *)
Lemma nl_step_plain : forall p c, is_nl c = false -> nl_step p c = (0, 0).
Proof. intros p c H. unfold nl_step. rewrite H. reflexivity. Qed.

Lemma nlc_fresh : forall b p, is_nl (hd 0 b) = false -> nlc p b = nlc 0 b.
Proof.
  intros [|c r] p H; simpl in *; [reflexivity|].
  rewrite !(nl_step_plain _ c H). reflexivity.
Qed.

Lemma nl_state_last : forall a p, a <> [] -> is_nl (last a 0) = false -> nl_state p a = 0.
Proof.
  induction a as [|c a IH]; intros p Hne Hl; [congruence|].
  destruct a as [|d a'].
  - simpl in *. rewrite (nl_step_plain _ c Hl). reflexivity.
  - change (nl_state p (c :: d :: a')) with (nl_state (fst (nl_step p c)) (d :: a')).
    apply IH; [congruence|exact Hl].
Qed.

Lemma nlc_nonneg : forall b p, 0 <= nlc p b.
Proof.
  induction b as [|c r IH]; intros p; simpl; [lia|].
  destruct (nl_step p c) as [q k] eqn:E.
  assert (0 <= k).
  { unfold nl_step in E. destruct (is_nl c); [destruct (is_nl p && negb (c =? p))|]; inversion E; lia. }
  specialize (IH q). lia.
Qed.

(* each of LF, CR, CRLF, LFCR counts once *)
Lemma nl_count_sequences :
  nl_count [10] = 1 /\ nl_count [13] = 1 /\ nl_count [13; 10] = 1 /\ nl_count [10; 13] = 1 /\
  nl_count [10; 10] = 2 /\ nl_count [13; 13] = 2 /\ nl_count [10; 13; 10] = 2 /\
  nl_count [13; 10; 13; 10] = 2.
Proof. repeat split; reflexivity. Qed.

(* ---- the one-pass evaluator computes line_of_offset ---- *)

Lemma adv_spec : forall n prev cnt bs,
  adv n prev cnt bs = (nl_state prev (firstn n bs), cnt + nlc prev (firstn n bs), skipn n bs).
Proof.
  induction n as [|n IH]; intros prev cnt bs; simpl.
  - f_equal. f_equal. lia.
  - destruct bs as [|c r]; simpl.
    + f_equal. f_equal. lia.
    + destruct (nl_step prev c) as [p k] eqn:E. rewrite IH. simpl. f_equal. f_equal. lia.
Qed.

Fixpoint spans_wf (pos : Z) (n : Z) (spans : list (Z * Z)) : Prop :=
  match spans with
  | [] => True
  | (off, ln) :: rest => pos <= off /\ 0 <= ln /\ off + ln <= n /\ spans_wf (off + ln) n rest
  end.

Lemma firstn_split_at : forall (pre rest : bytes) n,
  firstn (length pre + n) (pre ++ rest) = pre ++ firstn n rest.
Proof. intros. rewrite firstn_app_2. reflexivity. Qed.

Lemma scan_spans_spec : forall spans pre rest pos,
  pos = len pre -> spans_wf pos (len (pre ++ rest)) spans ->
  scan_spans pos (nl_state 0 pre) (nlc 0 pre) rest spans =
  map (fun s => (line_of_offset (pre ++ rest) (fst s), line_of_offset (pre ++ rest) (fst s + snd s))) spans.
Proof.
  induction spans as [|[off ln] spans IH]; intros pre rest pos Hpos Hwf; [reflexivity|].
  simpl in Hwf. destruct Hwf as (H1 & H2 & H3 & Hwf).
  cbn [scan_spans map fst snd].
  rewrite adv_spec.
  set (n1 := Z.to_nat (off - pos)).
  rewrite adv_spec.
  set (n2 := Z.to_nat ln).
  unfold len in *. rewrite app_length in H3.
  assert (Hn1 : (n1 <= length rest)%nat) by (subst n1; lia).
  assert (Hn2 : (n2 <= length (skipn n1 rest))%nat) by (rewrite skipn_length; subst n1 n2; lia).
  (* the text consumed so far *)
  set (pre1 := pre ++ firstn n1 rest).
  set (pre2 := pre1 ++ firstn n2 (skipn n1 rest)).
  assert (E1 : firstn (Z.to_nat off) (pre ++ rest) = pre1).
  { replace (Z.to_nat off) with (length pre + n1)%nat by (subst n1; lia). apply firstn_split_at. }
  assert (Erest : pre ++ rest = pre2 ++ skipn n2 (skipn n1 rest)).
  { subst pre2 pre1. rewrite <- !app_assoc. rewrite firstn_skipn. rewrite firstn_skipn. reflexivity. }
  assert (L1 : length pre1 = Z.to_nat off).
  { subst pre1. rewrite app_length, firstn_length. subst n1. lia. }
  assert (L2 : length pre2 = Z.to_nat (off + ln)).
  { subst pre2. rewrite app_length, firstn_length, L1. subst n2. lia. }
  assert (E2 : firstn (Z.to_nat (off + ln)) (pre ++ rest) = pre2).
  { rewrite Erest. rewrite <- L2. rewrite <- (Nat.add_0_r (length pre2)).
    rewrite firstn_split_at. simpl. apply app_nil_r. }
  f_equal.
  - unfold line_of_offset, nl_count. rewrite E1, E2. subst pre2 pre1.
    rewrite ?nlc_app, ?nl_state_app. f_equal; lia.
  - specialize (IH pre2 (skipn n2 (skipn n1 rest)) (off + ln)).
    rewrite <- Erest in IH.
    subst pre2 pre1. rewrite !nl_state_app, !nlc_app, ?nl_state_app in IH.
    apply IH.
    + rewrite !app_length in L2. rewrite !app_length. lia.
    + exact Hwf.
Qed.

Theorem span_lines_correct : forall bs spans,
  spans_wf 0 (len bs) spans ->
  span_lines bs spans =
  map (fun s => (line_of_offset bs (fst s), line_of_offset bs (fst s + snd s))) spans.
Proof.
  intros bs spans H. unfold span_lines.
  exact (scan_spans_spec spans [] bs 0 eq_refl H).
Qed.
